(* GmwNetProof.v — proofs about Gmw/GmwNet.v (C10, online phase: termination,
   empty channels, every receive meets the item it expects).

   Part B is generic: for ANY family of per-party programs that is
     compatible  (what i sends to j is, in order, what j expects from i),
     clean       (nothing unflushed when a party receives or ends, no NBad),
     ranked      (a rank on tags such that in every program a receive of u
                  before a send of t implies rk u < rk t)
   every fair schedule (any interleaving, any automatic flushes) ends with all
   parties finished, all buffers and channels empty, bad = false.
   Part C shows the three conditions for the GMW programs for every n and every
   list of levels; part D that the flattening of the reference skeleton is
   that program; part E ties the skeleton generated from the source. *)
From Coq Require Import List Bool Arith NArith Lia.
From Mpc Require Import Proto.Live Gmw.GmwNet Gen.SkelGmw.
Import ListNotations.
Local Open Scope nat_scope.

(* ------------------------------------------------------------------ A. basics *)

Lemma lN_eqb_true a : forall b, lN_eqb a b = true -> a = b.
Proof.
  induction a as [|x a IH]; intros [|y b]; simpl; try discriminate; auto.
  intros H. apply andb_prop in H. destruct H as [H1 H2].
  apply N.eqb_eq in H1. subst. f_equal. auto.
Qed.

Lemma name_eqb_true a b : name_eqb a b = true -> a = b.
Proof. destruct a, b. simpl. intros H. f_equal. now apply lN_eqb_true. Qed.

Lemma tag_eqb_true a b : tag_eqb a b = true -> a = b.
Proof.
  destruct a, b. unfold tag_eqb. simpl. intros H.
  repeat (apply andb_prop in H; destruct H as [H ?]).
  apply Nat.eqb_eq in H. repeat match goal with X : (_ =? _) = true |- _ => apply Nat.eqb_eq in X end.
  match goal with X : name_eqb _ _ = true |- _ => apply name_eqb_true in X end.
  subst. reflexivity.
Qed.

Lemma lN_eqb_refl a : lN_eqb a a = true.
Proof. induction a; simpl; auto. rewrite N.eqb_refl. auto. Qed.

Lemma tag_eqb_refl a : tag_eqb a a = true.
Proof.
  destruct a. unfold tag_eqb. simpl. rewrite !Nat.eqb_refl. simpl.
  destruct t_kind. simpl. apply lN_eqb_refl.
Qed.

(* ------------------------------------------------------------------ B. generic theorem *)

Fixpoint sends_to (j : nat) (l : list nact) : list tag :=
  match l with
  | [] => []
  | NSend j' t :: r => if j' =? j then t :: sends_to j r else sends_to j r
  | _ :: r => sends_to j r
  end.

Fixpoint recvs_from (i : nat) (l : list nact) : list tag :=
  match l with
  | [] => []
  | NRecv i' t :: r => if i' =? i then t :: recvs_from i r else recvs_from i r
  | _ :: r => recvs_from i r
  end.

(* peers with possibly unflushed data *)
Fixpoint pend (s : list nat) (l : list nact) : option (list nat) :=
  match l with
  | [] => Some s
  | NSend j _ :: r => pend (j :: s) r
  | NFlush j :: r => pend (remove Nat.eq_dec j s) r
  | NRecv _ _ :: r => match s with [] => pend [] r | _ => None end
  | NBad :: _ => None
  end.

Definition clean (l : list nact) : Prop := pend [] l = Some [].

Fixpoint okr (rk : tag -> nat) (l : list nact) : Prop :=
  match l with
  | [] => True
  | NRecv _ u :: r => (forall j t, In (NSend j t) r -> rk u < rk t) /\ okr rk r
  | _ :: r => okr rk r
  end.

Definition rest0 (n : nat) (progs : nat -> list nact) : nat -> list nact :=
  fun i => if i <? n then progs i else [].

Definition compatible (n : nat) (progs : nat -> list nact) : Prop :=
  forall i j, sends_to j (rest0 n progs i) = recvs_from i (rest0 n progs j).

Definition enabled (p : nat) (s : nstate) : bool :=
  match ns_rest s p with
  | [] => false
  | NRecv j _ :: _ => negb (is_nil (ns_chan s j p))
  | _ => true
  end.

Lemma sends_to_in p t l x : sends_to p l = t :: x -> In (NSend p t) l.
Proof.
  induction l as [|a l IH]; simpl; [discriminate|].
  destruct a; auto.
  destruct (to =? p) eqn:E; auto.
  apply Nat.eqb_eq in E. subst. intros [= <- _]. auto.
Qed.

Lemma upd2_same {A} (f : nat -> nat -> A) i j v : upd2 f i j v i j = v.
Proof. unfold upd2. now rewrite !Nat.eqb_refl. Qed.

Lemma upd2_other {A} (f : nat -> nat -> A) i j v x y : x <> i \/ y <> j -> upd2 f i j v x y = f x y.
Proof.
  unfold upd2. intros [H|H]; apply Nat.eqb_neq in H; rewrite H; simpl; auto.
  now rewrite andb_false_r.
Qed.

Lemma upd_same {A} (f : nat -> A) i v : upd f i v i = v.
Proof. unfold upd. now rewrite Nat.eqb_refl. Qed.

Lemma upd_other {A} (f : nat -> A) i v x : x <> i -> upd f i v x = f x.
Proof. unfold upd. intros H. apply Nat.eqb_neq in H. now rewrite H. Qed.

Section Generic.
  Variable n : nat.
  Variable rk : tag -> nat.

  Record inv (s : nstate) : Prop := mkInv {
    i_bad : ns_bad s = false;
    i_fifo : forall i j, ns_chan s i j ++ ns_buf s i j ++ sends_to j (ns_rest s i) = recvs_from i (ns_rest s j);
    i_flush : forall i, exists d, (forall j, ns_buf s i j <> [] -> In j d) /\ pend d (ns_rest s i) = Some [];
    i_rank : forall i, okr rk (ns_rest s i);
    i_out : forall i, n <= i -> ns_rest s i = [] }.

  Lemma inv_init progs :
    compatible n progs -> (forall i, i < n -> clean (progs i)) -> (forall i, i < n -> okr rk (progs i)) ->
    inv (ninit n progs).
  Proof.
    intros C Cl Ok. constructor; simpl; auto.
    - intros i. exists []. split; [intros j H; congruence|].
      destruct (i <? n) eqn:E; [apply Nat.ltb_lt in E; now apply Cl | reflexivity].
    - intros i. destruct (i <? n) eqn:E; [apply Nat.ltb_lt in E; now apply Ok | exact I].
    - intros i H. apply Nat.ltb_ge in H. now rewrite H.
  Qed.

  (* the head of a channel is what the receiver expects *)
  Lemma head_expected s p j t r c cs :
    inv s -> ns_rest s p = NRecv j t :: r -> ns_chan s j p = c :: cs -> c = t.
  Proof.
    intros I R Ch. pose proof (i_fifo s I j p) as F. rewrite R, Ch in F. simpl in F.
    rewrite Nat.eqb_refl in F. now injection F.
  Qed.

  (* generic bookkeeping for the party that moves *)
  Ltac split_ij i j' p j :=
    destruct (Nat.eq_dec i p) as [?|?]; destruct (Nat.eq_dec j' p) as [?|?];
    destruct (Nat.eq_dec j' j) as [?|?]; subst;
    rewrite ?upd_same, ?upd2_same; rewrite ?upd_other by auto; rewrite ?upd2_other by tauto.

  Ltac neqb :=
    repeat match goal with
           | H : ?a <> ?b |- _ =>
               let E := fresh "E" in
               assert (E : (a =? b) = false) by (now apply Nat.eqb_neq);
               let E' := fresh "E" in
               assert (E' : (b =? a) = false) by (apply Nat.eqb_neq; congruence);
               clear H
           end.

  Lemma fifo_send s p j t r :
    inv s -> ns_rest s p = NSend j t :: r ->
    forall i j', ns_chan s i j' ++ upd2 (ns_buf s) p j (ns_buf s p j ++ [t]) i j' ++ sends_to j' (upd (ns_rest s) p r i)
                 = recvs_from i (upd (ns_rest s) p r j').
  Proof.
    intros I R i j'. pose proof (i_fifo s I i j') as F.
    split_ij i j' p j; rewrite ?R in F; simpl in F; rewrite ?Nat.eqb_refl in F; neqb;
      rewrite ?E, ?E0, ?E1, ?E2 in F; rewrite <- ?app_assoc; simpl; auto.
  Qed.

  Lemma fifo_send_auto s p j t r :
    inv s -> ns_rest s p = NSend j t :: r ->
    forall i j', upd2 (ns_chan s) p j (ns_chan s p j ++ ns_buf s p j ++ [t]) i j' ++ upd2 (ns_buf s) p j [] i j'
                 ++ sends_to j' (upd (ns_rest s) p r i)
                 = recvs_from i (upd (ns_rest s) p r j').
  Proof.
    intros I R i j'. pose proof (i_fifo s I i j') as F.
    split_ij i j' p j; rewrite ?R in F; simpl in F; rewrite ?Nat.eqb_refl in F; neqb;
      rewrite ?E, ?E0, ?E1, ?E2 in F; rewrite <- ?app_assoc; simpl; auto.
  Qed.

  Lemma fifo_flush s p j r :
    inv s -> ns_rest s p = NFlush j :: r ->
    forall i j', upd2 (ns_chan s) p j (ns_chan s p j ++ ns_buf s p j) i j' ++ upd2 (ns_buf s) p j [] i j'
                 ++ sends_to j' (upd (ns_rest s) p r i)
                 = recvs_from i (upd (ns_rest s) p r j').
  Proof.
    intros I R i j'. pose proof (i_fifo s I i j') as F.
    split_ij i j' p j; rewrite ?R in F; simpl in F; rewrite <- ?app_assoc; simpl; auto.
  Qed.

  Lemma fifo_recv s p j t r cs :
    inv s -> ns_rest s p = NRecv j t :: r -> ns_chan s j p = t :: cs ->
    forall i j', upd2 (ns_chan s) j p cs i j' ++ ns_buf s i j' ++ sends_to j' (upd (ns_rest s) p r i)
                 = recvs_from i (upd (ns_rest s) p r j').
  Proof.
    intros I R Ch i j'. pose proof (i_fifo s I i j') as F.
    destruct (Nat.eq_dec i p) as [?|?]; destruct (Nat.eq_dec j' p) as [?|?];
      destruct (Nat.eq_dec i j) as [?|?]; subst;
      rewrite ?upd_same, ?upd2_same; rewrite ?upd_other by auto; rewrite ?upd2_other by tauto;
      rewrite ?R, ?Ch in F; simpl in F; rewrite ?Nat.eqb_refl in F; neqb;
      rewrite ?E, ?E0, ?E1, ?E2 in F; simpl in F; try (injection F as F); auto.
  Qed.

  Lemma rest_tail_rank s p a r : inv s -> ns_rest s p = a :: r -> forall i, okr rk (upd (ns_rest s) p r i).
  Proof.
    intros I R i. pose proof (i_rank s I i) as K. unfold upd. destruct (i =? p) eqn:E; auto.
    apply Nat.eqb_eq in E. subst. rewrite R in K. destruct a; simpl in K; tauto.
  Qed.

  Lemma rest_tail_out s p a r : inv s -> ns_rest s p = a :: r -> forall i, n <= i -> upd (ns_rest s) p r i = [].
  Proof.
    intros I R i H. unfold upd. destruct (i =? p) eqn:E; [|now apply (i_out s I)].
    apply Nat.eqb_eq in E. subst. rewrite (i_out s I p H) in R. discriminate.
  Qed.

  Lemma pend_head_bad d r : pend d (NBad :: r) = Some [] -> False.
  Proof. simpl. discriminate. Qed.

  Lemma inv_step p a s : inv s -> inv (nstep p a s).
  Proof.
    intros I. unfold nstep. rewrite (i_bad s I).
    destruct (ns_rest s p) as [|[j t|j|j t|] r] eqn:R; auto.
    - (* send *)
      destruct a.
      + constructor; simpl; auto.
        * exact (fifo_send_auto s p j t r I R).
        * intros i. destruct (i_flush s I i) as [d [D1 D2]].
          destruct (Nat.eq_dec i p) as [->|Ne].
          -- rewrite upd_same. rewrite R in D2. simpl in D2.
             exists (j :: d). split; auto.
             intros j' H. destruct (Nat.eq_dec j' j) as [->|Ne2].
             ++ now left.
             ++ right. apply D1. rewrite upd2_other in H by tauto. exact H.
          -- rewrite upd_other by auto. exists d. split; auto.
             intros j' H. apply D1. rewrite upd2_other in H by tauto. exact H.
        * eapply rest_tail_rank; eauto.
        * eapply rest_tail_out; eauto.
      + constructor; simpl; auto.
        * exact (fifo_send s p j t r I R).
        * intros i. destruct (i_flush s I i) as [d [D1 D2]].
          destruct (Nat.eq_dec i p) as [->|Ne].
          -- rewrite upd_same. rewrite R in D2. simpl in D2.
             exists (j :: d). split; auto.
             intros j' H. destruct (Nat.eq_dec j' j) as [->|Ne2].
             ++ now left.
             ++ right. apply D1. rewrite upd2_other in H by tauto. exact H.
          -- rewrite upd_other by auto. exists d. split; auto.
             intros j' H. apply D1. rewrite upd2_other in H by tauto. exact H.
        * eapply rest_tail_rank; eauto.
        * eapply rest_tail_out; eauto.
    - (* flush *)
      constructor; simpl; auto.
      + exact (fifo_flush s p j r I R).
      + intros i. destruct (i_flush s I i) as [d [D1 D2]].
        destruct (Nat.eq_dec i p) as [->|Ne].
        * rewrite upd_same. rewrite R in D2. simpl in D2.
          exists (remove Nat.eq_dec j d). split; auto.
          intros j' H. destruct (Nat.eq_dec j' j) as [->|Ne2].
          -- rewrite upd2_same in H. congruence.
          -- rewrite upd2_other in H by tauto. apply in_in_remove; auto.
        * rewrite upd_other by auto. exists d. split; auto.
          intros j' H. apply D1. rewrite upd2_other in H by tauto. exact H.
      + eapply rest_tail_rank; eauto.
      + eapply rest_tail_out; eauto.
    - (* receive *)
      destruct (ns_chan s j p) as [|c cs] eqn:Ch; auto.
      pose proof (head_expected s p j t r c cs I R Ch) as ->. rewrite tag_eqb_refl.
      constructor; simpl; auto.
      + exact (fifo_recv s p j t r cs I R Ch).
      + intros i. destruct (i_flush s I i) as [d [D1 D2]].
        destruct (Nat.eq_dec i p) as [->|Ne].
        * rewrite upd_same. rewrite R in D2. simpl in D2.
          destruct d; [|discriminate]. exists []. split; auto.
        * rewrite upd_other by auto. exists d. split; auto.
      + eapply rest_tail_rank; eauto.
      + eapply rest_tail_out; eauto.
    - (* NBad cannot be at the head of a clean rest *)
      destruct (i_flush s I p) as [d [_ D2]]. rewrite R in D2. now apply pend_head_bad in D2.
  Qed.

  Lemma inv_run sched : forall s, inv s -> inv (nrun sched s).
  Proof. induction sched as [|c r IH]; simpl; auto. intros s I. apply IH. now apply inv_step. Qed.
  (* ---- progress: an unfinished state reachable under the invariant has an enabled party *)

  Lemma rest_lt s p : inv s -> ns_rest s p <> [] -> p < n.
  Proof.
    intros I H. destruct (le_lt_dec n p) as [L|L]; auto. elim H. now apply (i_out s I).
  Qed.

  Lemma enabled_lt s p : inv s -> enabled p s = true -> p < n.
  Proof.
    intros I E. apply (rest_lt s p I). unfold enabled in E. destruct (ns_rest s p); [discriminate|congruence].
  Qed.

  Lemma blocked_chain s : inv s ->
    forall k p j t r, ns_rest s p = NRecv j t :: r -> rk t <= k -> exists q, enabled q s = true.
  Proof.
    intros I. induction k as [|k IH]; intros p j t r R K.
    - destruct (ns_chan s j p) as [|c cs] eqn:Ch.
      2:{ exists p. unfold enabled. now rewrite R, Ch. }
      pose proof (i_fifo s I j p) as F. rewrite R, Ch in F. simpl in F. rewrite Nat.eqb_refl in F.
      destruct (i_flush s I j) as [d [D1 D2]].
      destruct (ns_rest s j) as [|[j2 t2|j2|j2 u|] r2] eqn:Rj.
      + simpl in D2. injection D2 as ->. simpl in F.
        destruct (ns_buf s j p) eqn:B; [simpl in F; discriminate|]. elim (D1 p). congruence.
      + exists j. unfold enabled. now rewrite Rj.
      + exists j. unfold enabled. now rewrite Rj.
      + simpl in D2. destruct d; [|discriminate].
        destruct (ns_buf s j p) eqn:B; [|elim (D1 p); congruence].
        simpl in F. apply sends_to_in in F.
        pose proof (i_rank s I j) as Kj. rewrite Rj in Kj. simpl in Kj. destruct Kj as [Kj _].
        specialize (Kj _ _ F). lia.
      + simpl in D2. discriminate.
    - destruct (ns_chan s j p) as [|c cs] eqn:Ch.
      2:{ exists p. unfold enabled. now rewrite R, Ch. }
      pose proof (i_fifo s I j p) as F. rewrite R, Ch in F. simpl in F. rewrite Nat.eqb_refl in F.
      destruct (i_flush s I j) as [d [D1 D2]].
      destruct (ns_rest s j) as [|[j2 t2|j2|j2 u|] r2] eqn:Rj.
      + simpl in D2. injection D2 as ->. simpl in F.
        destruct (ns_buf s j p) eqn:B; [simpl in F; discriminate|]. elim (D1 p). congruence.
      + exists j. unfold enabled. now rewrite Rj.
      + exists j. unfold enabled. now rewrite Rj.
      + simpl in D2. destruct d; [|discriminate].
        destruct (ns_buf s j p) eqn:B; [|elim (D1 p); congruence].
        simpl in F. apply sends_to_in in F.
        pose proof (i_rank s I j) as Kj. rewrite Rj in Kj. simpl in Kj. destruct Kj as [Kj _].
        specialize (Kj _ _ F). apply (IH j j2 u r2 Rj). lia.
      + simpl in D2. discriminate.
  Qed.

  Lemma all_rest_nil_done s : inv s -> (forall i, i < n -> ns_rest s i = []) -> ndone n s = true.
  Proof.
    intros I H. unfold ndone. rewrite (i_bad s I). simpl.
    assert (A : forall i, ns_rest s i = []).
    { intros i. destruct (le_lt_dec n i); [now apply (i_out s I)|auto]. }
    apply forallb_forall. intros i _. rewrite (A i). simpl.
    apply forallb_forall. intros j _.
    pose proof (i_fifo s I i j) as F. rewrite (A i), (A j) in F. simpl in F.
    apply app_eq_nil in F. destruct F as [F1 F2]. apply app_eq_nil in F2. destruct F2 as [F2 _].
    now rewrite F1, F2.
  Qed.

  Lemma progress s : inv s -> ndone n s = false -> exists p, p < n /\ enabled p s = true.
  Proof.
    intros I D.
    assert (X : exists i, i < n /\ ns_rest s i <> []).
    { clear - I D.
      assert (G : forall m, (forall i, i < m -> ns_rest s i = []) \/ exists i, i < m /\ ns_rest s i <> []).
      { induction m as [|m [IH|[i [L H]]]].
        - left. intros i H. lia.
        - destruct (ns_rest s m) eqn:E.
          + left. intros i H. destruct (Nat.eq_dec i m); [now subst|apply IH; lia].
          + right. exists m. split; [lia|congruence].
        - right. exists i. split; [lia|auto]. }
      destruct (G n) as [G1|G1]; auto.
      rewrite (all_rest_nil_done s I G1) in D. discriminate. }
    destruct X as [i [L H]].
    assert (E : exists q, enabled q s = true).
    { destruct (ns_rest s i) as [|[j t|j|j t|] r] eqn:R; [congruence| | | |].
      - exists i. unfold enabled. now rewrite R.
      - exists i. unfold enabled. now rewrite R.
      - eapply (blocked_chain s I (rk t)); eauto.
      - destruct (i_flush s I i) as [d [_ D2]]. rewrite R in D2. simpl in D2. discriminate. }
    destruct E as [q E]. exists q. split; auto. now apply (enabled_lt s q I).
  Qed.

  (* ---- effect of a step *)

  Lemma step_enabled s p au : inv s -> enabled p s = true ->
    exists a r, ns_rest s p = a :: r /\ ns_rest (nstep p au s) = upd (ns_rest s) p r.
  Proof.
    intros I E. unfold enabled in E. unfold nstep. rewrite (i_bad s I).
    destruct (ns_rest s p) as [|[j t|j|j t|] r] eqn:R; [discriminate| | | |].
    - exists (NSend j t), r. split; auto. destruct au; reflexivity.
    - exists (NFlush j), r. split; auto.
    - destruct (ns_chan s j p) as [|c cs] eqn:Ch; [discriminate|].
      pose proof (head_expected s p j t r c cs I R Ch) as ->. rewrite tag_eqb_refl.
      exists (NRecv j t), r. split; auto.
    - destruct (i_flush s I p) as [d [_ D2]]. rewrite R in D2. simpl in D2. discriminate.
  Qed.

  Lemma step_disabled s p au : inv s -> enabled p s = false -> nstep p au s = s.
  Proof.
    intros I E. unfold enabled in E. unfold nstep. rewrite (i_bad s I).
    destruct (ns_rest s p) as [|[j t|j|j t|] r] eqn:R; auto; try discriminate.
    destruct (ns_chan s j p); [auto|discriminate].
  Qed.

  Lemma enabled_persist s p q au : inv s -> enabled p s = true -> q <> p -> enabled p (nstep q au s) = true.
  Proof.
    intros I E Ne. unfold enabled in *. unfold nstep. rewrite (i_bad s I).
    destruct (ns_rest s q) as [|[j t|j|j t|] r] eqn:R; auto.
    - destruct au; simpl; rewrite upd_other by auto;
        destruct (ns_rest s p) as [|[j2 t2|j2|j2 t2|] r2]; auto.
      destruct (Nat.eq_dec j2 q) as [->|N1]; destruct (Nat.eq_dec p j) as [->|N2];
        rewrite ?upd2_same; rewrite ?upd2_other by tauto; auto.
      destruct (ns_chan s q j); destruct (ns_buf s q j); reflexivity.
    - simpl. rewrite upd_other by auto.
      destruct (ns_rest s p) as [|[j2 t2|j2|j2 t2|] r2]; auto.
      destruct (Nat.eq_dec j2 q) as [->|N1]; destruct (Nat.eq_dec p j) as [->|N2];
        rewrite ?upd2_same; rewrite ?upd2_other by tauto; auto.
      destruct (ns_chan s q j); [discriminate|reflexivity].
    - destruct (ns_chan s j q) as [|c cs] eqn:Ch; auto.
      pose proof (head_expected s q j t r c cs I R Ch) as ->. rewrite tag_eqb_refl. simpl.
      rewrite upd_other by auto.
      destruct (ns_rest s p) as [|[j2 t2|j2|j2 t2|] r2]; auto.
      rewrite upd2_other by (right; congruence). auto.
  Qed.

  (* ---- measure *)
  Definition mu (s : nstate) : nat := total_len n (ns_rest s).

  Lemma sum_upd_out (f : nat -> list nact) p r l : ~ In p l ->
    fold_right (fun i acc => length (upd f p r i) + acc) 0 l = fold_right (fun i acc => length (f i) + acc) 0 l.
  Proof.
    induction l as [|x l IH]; simpl; auto. intros H.
    rewrite upd_other by (intros ->; apply H; now left). rewrite IH; auto.
  Qed.

  Lemma sum_upd_in (f : nat -> list nact) p r l : NoDup l -> In p l ->
    fold_right (fun i acc => length (upd f p r i) + acc) 0 l + length (f p)
    = fold_right (fun i acc => length (f i) + acc) 0 l + length r.
  Proof.
    induction l as [|x l IH]; simpl; [tauto|]. intros ND [->|H]; inversion ND; subst.
    - rewrite upd_same, sum_upd_out by auto. lia.
    - rewrite upd_other by (intros ->; tauto). specialize (IH H3 H). lia.
  Qed.

  Lemma mu_step_enabled s p au : inv s -> enabled p s = true -> S (mu (nstep p au s)) = mu s.
  Proof.
    intros I E. destruct (step_enabled s p au I E) as [a [r [R R']]].
    unfold mu, total_len. rewrite R'.
    pose proof (sum_upd_in (ns_rest s) p r (seq 0 n) (seq_NoDup n 0)) as H.
    assert (L : In p (seq 0 n)). { apply in_seq. pose proof (enabled_lt s p I E). lia. }
    specialize (H L). rewrite R in H. simpl in H. lia.
  Qed.

  Lemma mu_step_le s p au : inv s -> mu (nstep p au s) <= mu s.
  Proof.
    intros I. destruct (enabled p s) eqn:E.
    - pose proof (mu_step_enabled s p au I E). lia.
    - rewrite step_disabled; auto.
  Qed.

  Lemma done_step s p au : ndone n s = true -> inv s -> nstep p au s = s.
  Proof.
    intros D I. apply step_disabled; auto. unfold enabled.
    destruct (le_lt_dec n p) as [L|L]; [now rewrite (i_out s I p L)|].
    unfold ndone in D. apply andb_prop in D. destruct D as [_ D].
    rewrite forallb_forall in D. specialize (D p). rewrite in_seq in D.
    assert (X : 0 <= p < 0 + n) by lia. apply D in X. apply andb_prop in X. destruct X as [X _].
    destruct (ns_rest s p); [auto|discriminate].
  Qed.

  Lemma enabled_pos s p : inv s -> enabled p s = true -> 0 < mu s.
  Proof. intros I E. pose proof (mu_step_enabled s p false I E). lia. Qed.

  (* ---- fairness: every round of the schedule makes progress *)
  Lemma covers_in seen p : covers n seen = true -> p < n -> In p seen.
  Proof.
    unfold covers. rewrite forallb_forall. intros H L.
    assert (X : In p (seq 0 n)) by (apply in_seq; lia).
    apply H in X. apply existsb_exists in X. destruct X as [x [X1 X2]]. apply Nat.eqb_eq in X2. now subst.
  Qed.

  Lemma fair_done sched : forall s seen, inv s ->
    (ndone n s = true \/ mu s + 1 <= count_rounds n seen sched
     \/ (mu s <= count_rounds n seen sched /\ exists p, p < n /\ enabled p s = true /\ ~ In p seen)) ->
    ndone n (nrun sched s) = true.
  Proof.
    induction sched as [|[q au] rest IH]; intros s seen I H.
    - simpl in *. destruct H as [H|[H|[H [p [L [E _]]]]]]; auto; [lia|].
      pose proof (enabled_pos s p I E). lia.
    - simpl nrun. simpl fst. simpl snd.
      pose proof (inv_step q au s I) as I'.
      destruct H as [H|H].
      { rewrite (done_step s q au H I). apply (IH s (q :: seen) I). now left. }
      simpl count_rounds in H. simpl fst in H.
      pose proof (mu_step_le s q au I) as Le.
      assert (NewRound : mu (nstep q au s) <= count_rounds n [] rest ->
                         ndone n (nrun rest (nstep q au s)) = true).
      { intros B. apply (IH _ [] I').
        destruct (ndone n (nstep q au s)) eqn:D; [now left|right; right].
        split; auto. destruct (progress _ I' D) as [p [L E]]. exists p. split; auto. }
      destruct (covers n (q :: seen)) eqn:Cv.
      + destruct H as [H|[H [p [L [E Ni]]]]].
        * apply NewRound. lia.
        * pose proof (covers_in _ p Cv L) as X. destruct X as [X|X]; [|tauto]. subst q.
          pose proof (mu_step_enabled s p au I E). apply NewRound. lia.
      + destruct H as [H|[H [p [L [E Ni]]]]].
        * apply (IH _ (q :: seen) I'). right. left. lia.
        * destruct (Nat.eq_dec q p) as [->|Ne].
          -- pose proof (mu_step_enabled s p au I E). apply (IH _ (p :: seen) I'). right. left. lia.
          -- apply (IH _ (q :: seen) I'). right. right. split; [lia|].
             exists p. split; auto. split; [now apply enabled_persist|].
             simpl. intros [X|X]; [congruence|tauto].
  Qed.
End Generic.

(* THE GENERIC THEOREM *)
Theorem net_live_generic n progs rk :
  compatible n progs -> (forall i, i < n -> clean (progs i)) -> (forall i, i < n -> okr rk (progs i)) ->
  forall sched, nfair n progs sched -> ndone n (nrun sched (ninit n progs)) = true.
Proof.
  intros C Cl Ok sched F.
  pose proof (inv_init n rk progs C Cl Ok) as I.
  apply (fair_done n rk sched _ [] I).
  assert (M : mu n (ninit n progs) = total_len n progs).
  { unfold mu, total_len. simpl.
    assert (G : forall l, (forall i, In i l -> i < n) ->
                fold_right (fun i acc => length (if i <? n then progs i else []) + acc) 0 l
                = fold_right (fun i acc => length (progs i) + acc) 0 l).
    { induction l as [|a l IHl]; simpl; auto. intros H.
      rewrite IHl by (intros; apply H; now right).
      assert (L : a < n) by (apply H; now left). apply Nat.ltb_lt in L. now rewrite L. }
    apply G. intros i H. apply in_seq in H. lia. }
  destruct (ndone n (ninit n progs)) eqn:D; [now left|right; right].
  split; [unfold nfair in F; lia|].
  destruct (progress n rk _ I D) as [p [L E]]. exists p. auto.
Qed.

(* safety under EVERY schedule (fair or not): no receive ever meets an item it does not expect *)
Theorem net_safe_generic n progs rk :
  compatible n progs -> (forall i, i < n -> clean (progs i)) -> (forall i, i < n -> okr rk (progs i)) ->
  forall sched, ns_bad (nrun sched (ninit n progs)) = false.
Proof.
  intros C Cl Ok sched. apply (i_bad n rk). apply inv_run. now apply inv_init.
Qed.

(* ------------------------------------------------------------------ C. the GMW programs *)

Lemma sends_to_app j l1 l2 : sends_to j (l1 ++ l2) = sends_to j l1 ++ sends_to j l2.
Proof.
  induction l1 as [|a l1 IH]; simpl; auto. destruct a; auto.
  destruct (to =? j); simpl; now rewrite IH.
Qed.

Lemma recvs_from_app i l1 l2 : recvs_from i (l1 ++ l2) = recvs_from i l1 ++ recvs_from i l2.
Proof.
  induction l1 as [|a l1 IH]; simpl; auto. destruct a; auto.
  destruct (from =? i); simpl; now rewrite IH.
Qed.

(* a projection that distributes over ++ picks, from a flat_map over seq, the one contributing index *)
Lemma pick_flat_map {B} (g : list nact -> list B) (f : nat -> list nact) j :
  (forall x y, g (x ++ y) = g x ++ g y) -> g [] = [] ->
  (forall j', j' <> j -> g (f j') = []) ->
  forall m a, g (flat_map f (seq a m)) = if (a <=? j) && (j <? a + m) then g (f j) else [].
Proof.
  intros Gapp Gnil Gother. induction m as [|m IH]; intros a.
  - cbn [seq flat_map]. rewrite Gnil. destruct (a <=? j) eqn:E1; cbn [andb]; auto.
    destruct (j <? a + 0) eqn:E2; auto. apply Nat.leb_le in E1. apply Nat.ltb_lt in E2. lia.
  - cbn [seq flat_map]. rewrite Gapp, IH. destruct (Nat.eq_dec a j) as [->|Ne].
    + assert (X1 : (S j <=? j) = false) by (apply Nat.leb_gt; lia).
      assert (X2 : (j <=? j) = true) by (apply Nat.leb_le; lia).
      assert (X3 : (j <? j + S m) = true) by (apply Nat.ltb_lt; lia).
      rewrite X1, X2, X3. cbn [andb]. now rewrite app_nil_r.
    + rewrite (Gother a Ne). cbn [app].
      assert (X1 : (S a <=? j) = (a <=? j)).
      { destruct (Nat.leb_spec (S a) j); destruct (Nat.leb_spec a j); auto; lia. }
      assert (X2 : (j <? S a + m) = (j <? a + S m)) by (f_equal; lia).
      now rewrite X1, X2.
Qed.

Lemma sends_to_sends ph lvl i j ks j' :
  sends_to j' (sends ph lvl i j ks) = if j =? j' then map (mkTag ph lvl i j) ks else [].
Proof.
  unfold sends. induction ks as [|k ks IH]; simpl; [now destruct (j =? j')|].
  rewrite IH. destruct (j =? j'); auto.
Qed.

Lemma sends_to_recvs ph lvl i j ks j' : sends_to j' (recvs ph lvl i j ks) = [].
Proof. unfold recvs. induction ks; simpl; auto. Qed.

Lemma recvs_from_recvs ph lvl i j ks j' :
  recvs_from j' (recvs ph lvl i j ks) = if j =? j' then map (mkTag ph lvl j i) ks else [].
Proof.
  unfold recvs. induction ks as [|k ks IH]; simpl; [now destruct (j =? j')|].
  rewrite IH. destruct (j =? j'); auto.
Qed.

Lemma recvs_from_sends ph lvl i j ks j' : recvs_from j' (sends ph lvl i j ks) = [].
Proof. unfold sends. induction ks; simpl; auto. Qed.

Lemma sends_to_exch ph lvl i ks j j' :
  sends_to j' (exch ph lvl i ks j) = if (j =? j') && negb (j =? i) then map (mkTag ph lvl i j) ks else [].
Proof.
  unfold exch. destruct (j =? i); [simpl; now rewrite andb_false_r|].
  rewrite andb_true_r.
  destruct (i <? j); rewrite !sends_to_app, sends_to_sends, sends_to_recvs; simpl;
    destruct (j =? j'); simpl; now rewrite ?app_nil_r.
Qed.

Lemma recvs_from_exch ph lvl i ks j j' :
  recvs_from j' (exch ph lvl i ks j) = if (j =? j') && negb (j =? i) then map (mkTag ph lvl j i) ks else [].
Proof.
  unfold exch. destruct (j =? i); [simpl; now rewrite andb_false_r|].
  rewrite andb_true_r.
  destruct (i <? j); rewrite !recvs_from_app, recvs_from_recvs, recvs_from_sends; simpl;
    destruct (j =? j'); simpl; now rewrite ?app_nil_r.
Qed.

Lemma sends_to_round n ph lvl i ks j :
  sends_to j (round n ph lvl i ks) = if (j <? n) && negb (j =? i) then map (mkTag ph lvl i j) ks else [].
Proof.
  unfold round.
  rewrite (pick_flat_map (sends_to j) (exch ph lvl i ks) j (sends_to_app j) eq_refl).
  - simpl. rewrite sends_to_exch, Nat.eqb_refl. simpl. destruct (j <? n); simpl; auto; now destruct (j =? i).
  - intros j' Ne. rewrite sends_to_exch. apply Nat.eqb_neq in Ne. now rewrite Ne.
Qed.

Lemma recvs_from_round n ph lvl i ks j :
  recvs_from j (round n ph lvl i ks) = if (j <? n) && negb (j =? i) then map (mkTag ph lvl j i) ks else [].
Proof.
  unfold round.
  rewrite (pick_flat_map (recvs_from j) (exch ph lvl i ks) j (recvs_from_app j) eq_refl).
  - simpl. rewrite recvs_from_exch, Nat.eqb_refl. simpl. destruct (j <? n); simpl; auto; now destruct (j =? i).
  - intros j' Ne. rewrite recvs_from_exch. apply Nat.eqb_neq in Ne. now rewrite Ne.
Qed.

(* what i sends to j = what j expects from i *)
Definition level_msgs (i j : nat) (il : nat * level) : list tag :=
  let '(l, (c, len)) := il in if c =? 0 then [] else map (mkTag 1 l i j) (kinds_bv2 len).

Definition msgs (n : nat) (levels : list level) (i j : nat) : list tag :=
  if (i <? n) && (j <? n) && negb (i =? j) then
    map (mkTag 0 0 i j) kinds_data
    ++ flat_map (level_msgs i j) (combine (seq 0 (length levels)) levels)
    ++ map (mkTag 2 0 i j) kinds_data
  else [].

Lemma sends_to_party n levels i j : i < n -> sends_to j (party_prog n levels i) = msgs n levels i j.
Proof.
  intros L. unfold party_prog, msgs. apply Nat.ltb_lt in L. rewrite L. simpl.
  rewrite !sends_to_app, !sends_to_round.
  assert (X : forall ils, sends_to j (flat_map (level_round n i) ils)
              = if (j <? n) && negb (j =? i) then flat_map (level_msgs i j) ils else []).
  { induction ils as [|[l [c len]] ils IH]; simpl; [now destruct ((j <? n) && negb (j =? i))|].
    rewrite sends_to_app, IH. destruct (c =? 0); simpl; auto.
    rewrite sends_to_round. destruct ((j <? n) && negb (j =? i)); auto. }
  rewrite X. rewrite (Nat.eqb_sym i j). destruct ((j <? n) && negb (j =? i)); auto.
Qed.

Lemma recvs_from_party n levels i j : j < n -> recvs_from i (party_prog n levels j) = msgs n levels i j.
Proof.
  intros L. unfold party_prog, msgs. apply Nat.ltb_lt in L. rewrite L. rewrite andb_true_r.
  rewrite !recvs_from_app, !recvs_from_round.
  assert (X : forall ils, recvs_from i (flat_map (level_round n j) ils)
              = if (i <? n) && negb (i =? j) then flat_map (level_msgs i j) ils else []).
  { induction ils as [|[l [c len]] ils IH]; simpl; [now destruct ((i <? n) && negb (i =? j))|].
    rewrite recvs_from_app, IH. destruct (c =? 0); simpl; auto.
    rewrite recvs_from_round. destruct ((i <? n) && negb (i =? j)); auto. }
  rewrite X. destruct ((i <? n) && negb (i =? j)); auto.
Qed.

Lemma msgs_out_l n levels i j : n <= i -> msgs n levels i j = [].
Proof. intros H. unfold msgs. apply Nat.ltb_ge in H. now rewrite H. Qed.
Lemma msgs_out_r n levels i j : n <= j -> msgs n levels i j = [].
Proof. intros H. unfold msgs. apply Nat.ltb_ge in H. rewrite H. now rewrite andb_false_r. Qed.

Lemma party_compatible n levels : compatible n (party_prog n levels).
Proof.
  intros i j. unfold rest0.
  destruct (Nat.ltb_spec i n) as [Ei|Ei]; destruct (Nat.ltb_spec j n) as [Ej|Ej]; simpl.
  - rewrite sends_to_party by auto. rewrite recvs_from_party by auto. reflexivity.
  - rewrite sends_to_party by auto. now apply msgs_out_r.
  - rewrite recvs_from_party by auto. symmetry. now apply msgs_out_l.
  - reflexivity.
Qed.

(* ---- clean *)
Lemma pend_app d l1 l2 : pend d (l1 ++ l2) = match pend d l1 with Some d' => pend d' l2 | None => None end.
Proof.
  revert d. induction l1 as [|a l1 IH]; intros d; simpl; auto.
  destruct a; auto. destruct d; auto.
Qed.

Lemma clean_app l1 l2 : clean l1 -> clean l2 -> clean (l1 ++ l2).
Proof. unfold clean. intros H1 H2. now rewrite pend_app, H1. Qed.

Lemma clean_flat_map {A} (f : A -> list nact) l : (forall x, clean (f x)) -> clean (flat_map f l).
Proof. intros H. induction l; simpl; [reflexivity|]. apply clean_app; auto. Qed.

Lemma pend_sends ph lvl i j ks d r : pend d (sends ph lvl i j ks ++ r) = pend (repeat j (length ks) ++ d) r.
Proof.
  unfold sends. revert d. induction ks as [|k ks IH]; intros d; simpl; auto.
  rewrite IH. f_equal. change (j :: d) with ([j] ++ d). rewrite app_assoc. f_equal.
  change (j :: repeat j (length ks)) with (repeat j (S (length ks))).
  rewrite <- repeat_cons. reflexivity.
Qed.

Lemma pend_recvs ph lvl i j ks r : pend [] (recvs ph lvl i j ks ++ r) = pend [] r.
Proof. unfold recvs. induction ks; simpl; auto. Qed.

Lemma remove_repeat j k : remove Nat.eq_dec j (repeat j k) = [].
Proof. induction k; simpl; auto. destruct (Nat.eq_dec j j); [auto|congruence]. Qed.

Lemma clean_exch ph lvl i ks j : clean (exch ph lvl i ks j).
Proof.
  unfold exch, clean. destruct (j =? i); [reflexivity|].
  destruct (i <? j).
  - rewrite pend_sends. simpl. rewrite app_nil_r, remove_repeat.
    rewrite <- (app_nil_r (recvs _ _ _ _ _)). now rewrite pend_recvs.
  - rewrite pend_recvs, pend_sends. simpl. now rewrite app_nil_r, remove_repeat.
Qed.

Lemma clean_round n ph lvl i ks : clean (round n ph lvl i ks).
Proof. apply clean_flat_map. intros j. apply clean_exch. Qed.

Lemma party_clean n levels i : clean (party_prog n levels i).
Proof.
  unfold party_prog. repeat apply clean_app; try apply clean_round.
  apply clean_flat_map. intros [l [c len]]. simpl. destruct (c =? 0); [reflexivity|apply clean_round].
Qed.

(* ---- ranked: exchanges are globally ordered by (round, lower id, higher id) *)
Definition rho (nl ph lvl : nat) : nat := match ph with 0 => 0 | 1 => S lvl | _ => S nl end.
Definition exi (n r i j : nat) : nat := r * (n * n) + Nat.min i j * n + Nat.max i j.
Definition rkg (n nl : nat) (t : tag) : nat :=
  2 * exi n (rho nl (t_ph t) (t_lvl t)) (t_src t) (t_dst t) + (if t_src t <? t_dst t then 0 else 1).

Section Rank.
  Variable rk : tag -> nat.

  Definition bnd (a b : nat) (l : list nact) : Prop :=
    (forall j u, In (NRecv j u) l -> a <= rk u < b) /\ (forall j t, In (NSend j t) l -> a <= rk t < b).

  Lemma okr_app l1 l2 :
    okr rk l1 -> okr rk l2 ->
    (forall j u j' t, In (NRecv j u) l1 -> In (NSend j' t) l2 -> rk u < rk t) -> okr rk (l1 ++ l2).
  Proof.
    induction l1 as [|a l1 IH]; simpl; auto. intros O1 O2 X.
    destruct a; try (apply IH; auto; intros; eapply X; eauto).
    destruct O1 as [O1a O1b]. split.
    - intros j t0 H. apply in_app_or in H. destruct H as [H|H]; [eauto|].
      eapply X; eauto.
    - apply IH; auto. intros; eapply X; eauto.
  Qed.

  Lemma okr_app_bnd a b c l1 l2 : okr rk l1 -> okr rk l2 -> bnd a b l1 -> bnd b c l2 -> okr rk (l1 ++ l2).
  Proof.
    intros O1 O2 [B1 _] [_ B2]. apply okr_app; auto.
    intros j u j' t H1 H2. specialize (B1 _ _ H1). specialize (B2 _ _ H2). lia.
  Qed.

  Lemma bnd_app a b l1 l2 : bnd a b l1 -> bnd a b l2 -> bnd a b (l1 ++ l2).
  Proof.
    intros [A1 A2] [B1 B2]. split; intros j u H; apply in_app_or in H; destruct H; eauto.
  Qed.

  Lemma bnd_weak a b a' b' l : bnd a b l -> a' <= a -> b <= b' -> bnd a' b' l.
  Proof.
    intros [A1 A2] H1 H2. split; intros j u H; [specialize (A1 _ _ H)|specialize (A2 _ _ H)]; lia.
  Qed.

  Lemma bnd_nil a b : bnd a b [].
  Proof. split; intros j u []. Qed.

  Lemma okr_seq (f : nat -> list nact) (B : nat -> nat) :
    (forall j, okr rk (f j)) -> (forall j, bnd (B j) (B (S j)) (f j)) -> (forall j, B j <= B (S j)) ->
    forall m a, okr rk (flat_map f (seq a m)) /\ bnd (B a) (B (a + m)) (flat_map f (seq a m)).
  Proof.
    intros O Bd Mo.
    assert (Mono : forall k x, B x <= B (x + k)).
    { induction k as [|k IH]; intros x; [rewrite Nat.add_0_r; lia|].
      replace (x + S k) with (S (x + k)) by lia. specialize (IH x). specialize (Mo (x + k)). lia. }
    induction m as [|m IH]; intros a.
    - cbn [seq flat_map]. split; [exact I|apply bnd_nil].
    - cbn [seq flat_map]. destruct (IH (S a)) as [I1 I2]. split.
      + eapply okr_app_bnd; eauto.
      + apply bnd_app.
        * eapply bnd_weak; [apply Bd|lia|]. replace (a + S m) with (S a + m) by lia. apply Mono.
        * eapply bnd_weak; [apply I2| |]; [apply Mo|]. replace (a + S m) with (S a + m) by lia. lia.
  Qed.
End Rank.

Lemma in_sends_recv ph lvl i j ks j' u : ~ In (NRecv j' u) (sends ph lvl i j ks).
Proof. unfold sends. intros H. apply in_map_iff in H. destruct H as [k [H _]]. discriminate. Qed.

Lemma in_recvs_send ph lvl i j ks j' t : ~ In (NSend j' t) (recvs ph lvl i j ks).
Proof. unfold recvs. intros H. apply in_map_iff in H. destruct H as [k [H _]]. discriminate. Qed.

Lemma in_sends_send ph lvl i j ks j' t : In (NSend j' t) (sends ph lvl i j ks) -> exists k, t = mkTag ph lvl i j k.
Proof. unfold sends. intros H. apply in_map_iff in H. destruct H as [k [H _]]. injection H as _ H. eauto. Qed.

Lemma in_recvs_recv ph lvl i j ks j' u : In (NRecv j' u) (recvs ph lvl i j ks) -> exists k, u = mkTag ph lvl j i k.
Proof. unfold recvs. intros H. apply in_map_iff in H. destruct H as [k [H _]]. injection H as _ H. eauto. Qed.

Lemma in_exch_recv ph lvl i ks j j' u :
  In (NRecv j' u) (exch ph lvl i ks j) -> j <> i /\ exists k, u = mkTag ph lvl j i k.
Proof.
  unfold exch. destruct (j =? i) eqn:E; [intros []|]. apply Nat.eqb_neq in E. split; auto.
  destruct (i <? j); repeat (apply in_app_or in H; destruct H as [H|H]);
    try (now apply in_sends_recv in H); try (now apply in_recvs_recv in H);
    simpl in H; destruct H as [H|[]]; discriminate.
Qed.

Lemma in_exch_send ph lvl i ks j j' t :
  In (NSend j' t) (exch ph lvl i ks j) -> j <> i /\ exists k, t = mkTag ph lvl i j k.
Proof.
  unfold exch. destruct (j =? i) eqn:E; [intros []|]. apply Nat.eqb_neq in E. split; auto.
  destruct (i <? j); repeat (apply in_app_or in H; destruct H as [H|H]);
    try (now apply in_recvs_send in H); try (now apply in_sends_send in H);
    simpl in H; destruct H as [H|[]]; discriminate.
Qed.

Lemma exi_comm n r i j : exi n r i j = exi n r j i.
Proof. unfold exi. now rewrite Nat.min_comm, Nat.max_comm. Qed.

Lemma exi_step n r i j : i < n -> exi n r i j + 1 <= exi n r i (S j).
Proof.
  intros L. unfold exi. destruct (le_lt_dec (S j) i) as [H|H].
  - rewrite (Nat.min_r i j), (Nat.max_l i j), (Nat.min_r i (S j)), (Nat.max_l i (S j)) by lia. nia.
  - rewrite (Nat.min_l i j), (Nat.max_r i j), (Nat.min_l i (S j)), (Nat.max_r i (S j)) by lia. lia.
Qed.

Lemma rkg_lo_hi n nl ph lvl i j k : i < j ->
  rkg n nl (mkTag ph lvl i j k) = 2 * exi n (rho nl ph lvl) i j /\
  rkg n nl (mkTag ph lvl j i k) = 2 * exi n (rho nl ph lvl) i j + 1.
Proof.
  intros L. unfold rkg. simpl.
  assert (X1 : (i <? j) = true) by (apply Nat.ltb_lt; lia).
  assert (X2 : (j <? i) = false) by (apply Nat.ltb_ge; lia).
  rewrite X1, X2, (exi_comm n _ j i). lia.
Qed.

Lemma no_recv_okr rk l : (forall j u, ~ In (NRecv j u) l) -> okr rk l.
Proof.
  induction l as [|a l IH]; simpl; auto. intros H.
  destruct a; try (apply IH; intros j u X; apply (H j u); now right).
  elim (H from t). now left.
Qed.

Lemma no_send_okr rk l : (forall j t, ~ In (NSend j t) l) -> okr rk l.
Proof.
  induction l as [|a l IH]; simpl; auto. intros H.
  assert (H' : forall j t, ~ In (NSend j t) l) by (intros j t X; apply (H j t); now right).
  destruct a; auto. split; auto. intros j t0 X. elim (H' j t0 X).
Qed.

Section GmwRank.
  Variables n nl : nat.
  Let rk := rkg n nl.

  Lemma exch_bnd ph lvl i ks j :
    bnd rk (2 * exi n (rho nl ph lvl) i j) (2 * exi n (rho nl ph lvl) i j + 2) (exch ph lvl i ks j).
  Proof.
    split; intros j' u H.
    - apply in_exch_recv in H. destruct H as [Ne [k ->]].
      destruct (lt_eq_lt_dec i j) as [[L|E]|L]; [|congruence|].
      + destruct (rkg_lo_hi n nl ph lvl i j k L) as [_ X]. unfold rk. rewrite X. lia.
      + destruct (rkg_lo_hi n nl ph lvl j i k L) as [X _]. unfold rk. rewrite X, (exi_comm n _ j i). lia.
    - apply in_exch_send in H. destruct H as [Ne [k ->]].
      destruct (lt_eq_lt_dec i j) as [[L|E]|L]; [|congruence|].
      + destruct (rkg_lo_hi n nl ph lvl i j k L) as [X _]. unfold rk. rewrite X. lia.
      + destruct (rkg_lo_hi n nl ph lvl j i k L) as [_ X]. unfold rk. rewrite X, (exi_comm n _ j i). lia.
  Qed.

  Lemma exch_okr ph lvl i ks j : okr rk (exch ph lvl i ks j).
  Proof.
    unfold exch. destruct (j =? i) eqn:E; [exact I|]. apply Nat.eqb_neq in E.
    destruct (i <? j) eqn:L.
    - rewrite app_assoc. apply okr_app.
      + apply no_recv_okr. intros j' u H. apply in_app_or in H. destruct H as [H|[H|[]]];
          [now apply in_sends_recv in H|discriminate].
      + apply no_send_okr. intros j' t H. now apply in_recvs_send in H.
      + intros j1 u j2 t H _. apply in_app_or in H. destruct H as [H|[H|[]]];
          [now apply in_sends_recv in H|discriminate].
    - apply Nat.ltb_ge in L. assert (L' : j < i) by lia. apply okr_app.
      + apply no_send_okr. intros j' t H. now apply in_recvs_send in H.
      + apply no_recv_okr. intros j' u H. apply in_app_or in H. destruct H as [H|[H|[]]];
          [now apply in_sends_recv in H|discriminate].
      + intros j1 u j2 t H1 H2. apply in_recvs_recv in H1. destruct H1 as [k1 ->].
        apply in_app_or in H2. destruct H2 as [H2|[H2|[]]]; [|discriminate].
        apply in_sends_send in H2. destruct H2 as [k2 ->].
        destruct (rkg_lo_hi n nl ph lvl j i k1 L') as [X1 _].
        destruct (rkg_lo_hi n nl ph lvl j i k2 L') as [_ X2]. unfold rk. rewrite X1, X2. lia.
  Qed.

  Lemma round_ok ph lvl i ks : i < n ->
    okr rk (round n ph lvl i ks) /\
    bnd rk (2 * rho nl ph lvl * (n * n)) (2 * S (rho nl ph lvl) * (n * n)) (round n ph lvl i ks).
  Proof.
    intros L. unfold round.
    destruct (okr_seq rk (exch ph lvl i ks) (fun j => 2 * exi n (rho nl ph lvl) i j)) with (m := n) (a := 0)
      as [O B].
    - intros j. apply exch_okr.
    - intros j. eapply bnd_weak; [apply exch_bnd|lia|]. pose proof (exi_step n (rho nl ph lvl) i j L). lia.
    - intros j. pose proof (exi_step n (rho nl ph lvl) i j L). lia.
    - split; auto. eapply bnd_weak; [apply B| |].
      + unfold exi. nia.
      + unfold exi. simpl. rewrite (Nat.min_l i n), (Nat.max_r i n) by lia. nia.
  Qed.

  Lemma levels_ok i : i < n -> forall ls a, a + length ls <= nl ->
    okr rk (flat_map (level_round n i) (combine (seq a (length ls)) ls)) /\
    bnd rk (2 * S a * (n * n)) (2 * S (a + length ls) * (n * n))
        (flat_map (level_round n i) (combine (seq a (length ls)) ls)).
  Proof.
    intros L. induction ls as [|[c len] ls IH]; intros a H.
    - simpl. split; [exact I|apply bnd_nil].
    - cbn [length seq combine flat_map]. simpl in H.
      destruct (IH (S a)) as [O B]; [lia|].
      assert (R : okr rk (level_round n i (a, (c, len))) /\
                  bnd rk (2 * S a * (n * n)) (2 * S (S a) * (n * n)) (level_round n i (a, (c, len)))).
      { simpl. destruct (c =? 0); [split; [exact I|apply bnd_nil]|].
        apply (round_ok 1 a i (kinds_bv2 len) L). }
      destruct R as [RO RB]. split.
      + eapply okr_app_bnd; eauto.
      + apply bnd_app.
        * eapply bnd_weak; [apply RB|lia|nia].
        * eapply bnd_weak; [apply B|nia|]. replace (S a + length ls) with (a + S (length ls)) by lia. lia.
  Qed.
End GmwRank.

Lemma party_ranked n levels i : i < n -> okr (rkg n (length levels)) (party_prog n levels i).
Proof.
  intros L. unfold party_prog. set (nl := length levels).
  destruct (round_ok n nl 0 0 i kinds_data L) as [O0 B0].
  destruct (levels_ok n nl i L levels 0) as [O1 B1]; [unfold nl; lia|].
  destruct (round_ok n nl 2 0 i kinds_data L) as [O2 B2].
  simpl rho in *.
  eapply okr_app_bnd; [exact O0| |exact B0|].
  - eapply okr_app_bnd; [exact O1|exact O2|exact B1|]. simpl. exact B2.
  - apply bnd_app.
    + eapply bnd_weak; [exact B1|lia|]. instantiate (1 := 2 * S (S nl) * (n * n)). simpl. nia.
    + eapply bnd_weak; [exact B2| |lia]. nia.
Qed.

(* THE GMW PROGRAMS ARE LIVE *)
Theorem party_live n levels sched :
  nfair n (party_prog n levels) sched ->
  ndone n (nrun sched (ninit n (party_prog n levels))) = true.
Proof.
  apply (net_live_generic n (party_prog n levels) (rkg n (length levels))).
  - apply party_compatible.
  - intros i _. apply party_clean.
  - intros i L. now apply party_ranked.
Qed.

Theorem party_safe n levels sched : ns_bad (nrun sched (ninit n (party_prog n levels))) = false.
Proof.
  apply (net_safe_generic n (party_prog n levels) (rkg n (length levels))).
  - apply party_compatible.
  - intros i _. apply party_clean.
  - intros i L. now apply party_ranked.
Qed.

(* ------------------------------------------------------------------ D. the flattened skeleton is that program *)

Lemma flat_map_const {A} (x : A) m a : flat_map (fun _ : nat => [x]) (seq a m) = repeat x m.
Proof. revert a. induction m as [|m IH]; intros a; simpl; auto. now rewrite IH. Qed.

Lemma map_repeat' {A B} (f : A -> B) x m : map f (repeat x m) = repeat (f x) m.
Proof. induction m; simpl; auto. now rewrite IHm. Qed.

Definition body_of (ks kr : list (prog -> prog)) : prog :=
  mk [PBranch lbl_is_self (mk []) (mk [PBranch lbl_lower (exch_lo ks kr) (exch_hi ks kr)])].

Lemma body_data n self levels ph lvl batch j :
  gflat n self levels ph lvl (Some j) batch (body_of data_s data_r) = exch ph lvl self kinds_data j.
Proof.
  unfold exch. cbn -[Nat.ltb Nat.eqb]. destruct (j =? self); [reflexivity|]. destruct (self <? j); reflexivity.
Qed.

Lemma body_bv2 n self levels ph lvl c len j :
  gflat n self levels ph lvl (Some j) (Some (c, len)) (body_of bv2_s bv2_r) = exch ph lvl self (kinds_bv2 len) j.
Proof.
  unfold exch, kinds_bv2, sends, recvs. cbn -[Nat.ltb Nat.eqb pair_count].
  rewrite !flat_map_const, !map_app, !map_repeat'.
  destruct (j =? self); [reflexivity|]. destruct (self <? j); cbn -[pair_count]; rewrite ?app_nil_r, <- ?app_assoc; reflexivity.
Qed.

Lemma peers_data n self levels ph lvl batch r :
  gflat n self levels ph lvl None batch (peers_loop data_s data_r r)
  = round n ph lvl self kinds_data ++ gflat n self levels ph lvl None batch r.
Proof.
  change (peers_loop data_s data_r r) with (PLoop lbl_peers (body_of data_s data_r) r).
  cbn [gflat]. change (name_eqb lbl_peers lbl_peers) with true. cbv iota. f_equal.
  unfold round. apply flat_map_ext. intros j. apply body_data.
Qed.

Lemma peers_bv2 n self levels ph lvl c len r :
  gflat n self levels ph lvl None (Some (c, len)) (peers_loop bv2_s bv2_r r)
  = round n ph lvl self (kinds_bv2 len) ++ gflat n self levels ph lvl None (Some (c, len)) r.
Proof.
  change (peers_loop bv2_s bv2_r r) with (PLoop lbl_peers (body_of bv2_s bv2_r) r).
  cbn [gflat]. change (name_eqb lbl_peers lbl_peers) with true. cbv iota. f_equal.
  unfold round. apply flat_map_ext. intros j. apply body_bv2.
Qed.

Lemma level_body n self levels il :
  gflat n self levels 1 (fst il) None (Some (snd il)) (mk [PBranch lbl_empty (mk []) (mk [peers_loop bv2_s bv2_r])])
  = level_round n self il.
Proof.
  destruct il as [i [c len]]. cbn [fst snd mk fold_right].
  cbn [gflat]. change (name_eqb lbl_empty lbl_is_self) with false.
  change (name_eqb lbl_empty lbl_lower) with false. change (name_eqb lbl_empty lbl_empty) with true.
  cbv iota. unfold level_round. destruct (c =? 0); [reflexivity|].
  rewrite peers_bv2. cbn [gflat]. now rewrite !app_nil_r.
Qed.

Theorem gflat_ref n levels self : party_acts ref_run n levels self = party_prog n levels self.
Proof.
  unfold party_acts, ref_run, party_prog. cbn [mk fold_right].
  rewrite peers_data. f_equal.
  cbn [gflat]. change (name_eqb lbl_levels lbl_peers) with false. change (name_eqb lbl_levels lbl_levels) with true.
  cbv iota. f_equal.
  - apply flat_map_ext. intros il. apply level_body.
  - rewrite peers_data. cbn [gflat]. now rewrite app_nil_r.
Qed.

(* ------------------------------------------------------------------ E. the skeleton generated from the source *)

(* the translator (harness/gen_skel_gmw.go) extracted exactly the reference skeleton
   from the current gmw/network.go + gmw/peer.go, and reported nothing it did not understand *)
Lemma skel_matches_source : skel_gmw_run = ref_run /\ skel_gmw_errors = [].
Proof. split; reflexivity. Qed.

Lemma ref_conditions n levels :
  compatible n (party_acts ref_run n levels)
  /\ (forall i, i < n -> clean (party_acts ref_run n levels i))
  /\ (forall i, i < n -> okr (rkg n (length levels)) (party_acts ref_run n levels i)).
Proof.
  split; [|split].
  - intros i j. unfold rest0. rewrite !gflat_ref. apply (party_compatible n levels i j).
  - intros i _. rewrite gflat_ref. apply party_clean.
  - intros i L. rewrite gflat_ref. now apply party_ranked.
Qed.

(* for EVERY number of parties, EVERY list of levels (AND count, vector length) and EVERY
   fair schedule the online phase extracted from the source ends with every party finished
   and every write buffer and channel empty, no receive having met an unexpected item *)
Theorem gmw_online_live n levels sched :
  nfair n (party_acts skel_gmw_run n levels) sched ->
  ndone n (nrun sched (ninit n (party_acts skel_gmw_run n levels))) = true.
Proof.
  destruct skel_matches_source as [-> _].
  destruct (ref_conditions n levels) as [C [Cl Ok]].
  now apply (net_live_generic n _ (rkg n (length levels))).
Qed.

(* under EVERY schedule, fair or not, with or without automatic flushes *)
Theorem gmw_online_safe n levels sched :
  ns_bad (nrun sched (ninit n (party_acts skel_gmw_run n levels))) = false.
Proof.
  destruct skel_matches_source as [-> _].
  destruct (ref_conditions n levels) as [C [Cl Ok]].
  now apply (net_safe_generic n _ (rkg n (length levels))).
Qed.

(* ---- non-vacuity: fair schedules exist (round robin), for any n >= 1 *)
Lemma covers_seq n seen : (forall i, i < n -> In i seen) -> covers n seen = true.
Proof.
  intros H. unfold covers. apply forallb_forall. intros i Hi. apply in_seq in Hi.
  apply existsb_exists. exists i. split; [apply H; lia|apply Nat.eqb_refl].
Qed.

Lemma covers_missing n seen p : p < n -> ~ In p seen -> covers n seen = false.
Proof.
  intros L H. destruct (covers n seen) eqn:E; auto.
  unfold covers in E. rewrite forallb_forall in E.
  assert (X : In p (seq 0 n)) by (apply in_seq; lia). apply E in X.
  apply existsb_exists in X. destruct X as [x [X1 X2]]. apply Nat.eqb_eq in X2. subst. tauto.
Qed.

Lemma count_rounds_sweep n rest : forall d m seen,
  m + S d = n -> (forall i, i < m -> In i seen) -> (forall i, In i seen -> i < m) ->
  count_rounds n seen (map (fun p => (p, false)) (seq m (S d)) ++ rest) = S (count_rounds n [] rest).
Proof.
  induction d as [|d IH]; intros m seen E H1 H2.
  - cbn [seq map app count_rounds fst].
    rewrite covers_seq; auto. intros i L. destruct (Nat.eq_dec i m) as [->|Ne]; [now left|right; apply H1; lia].
  - change (seq m (S (S d))) with (m :: seq (S m) (S d)). cbn [map app count_rounds fst].
    rewrite (covers_missing n (m :: seen) (S m)); [|lia|].
    + apply IH; [lia| |].
      * intros i L. destruct (Nat.eq_dec i m) as [->|Ne]; [now left|right; apply H1; lia].
      * intros i [<-|Hi]; [lia|]. apply H2 in Hi. lia.
    + intros [X|X]; [lia|]. apply H2 in X. lia.
Qed.

Lemma rr_rounds n k : 0 < n -> count_rounds n [] (rr_sched n k) = k.
Proof.
  intros L. unfold rr_sched. induction k as [|k IH]; [reflexivity|].
  cbn [repeat concat]. destruct n as [|d]; [lia|].
  rewrite (count_rounds_sweep (S d) _ d 0 []); [now rewrite IH|lia|intros i Hi; lia|intros i []].
Qed.

(* the round-robin schedule of total_len rounds is fair, for every n >= 1 and every program family *)
Lemma rr_is_fair n progs : 0 < n -> nfair n progs (rr_sched n (total_len n progs)).
Proof. intros L. unfold nfair. now rewrite rr_rounds. Qed.

Example ex_fair_rr :
  let levels := with_lens 0 [70; 0; 1] in
  let progs := party_acts skel_gmw_run 3 levels in
  nfair 3 progs (rr_sched 3 (total_len 3 progs))
  /\ ndone 3 (nrun (rr_sched 3 (total_len 3 progs)) (ninit 3 progs)) = true.
Proof. unfold nfair. vm_compute. split; [|reflexivity]. repeat constructor. Qed.

(* ---- the regression variant: the lower party of an exchange receives before it flushes.
   Two parties, no AND level, round robin (fair): both parties block in their first
   receive with their input shares still in their write buffers. *)
Lemma rbf_refuted :
  exists n levels sched,
    2 <= n /\ nfair n (party_acts rbf_run n levels) sched /\
    ndone n (nrun sched (ninit n (party_acts rbf_run n levels))) = false /\
    ns_bad (nrun sched (ninit n (party_acts rbf_run n levels))) = false.
Proof.
  exists 2, [], (rr_sched 2 12). split; [lia|]. split; [unfold nfair; vm_compute; repeat constructor|].
  split; vm_compute; reflexivity.
Qed.
