(* RunC10.v — executable entry point of the C10 model.
   Circuit = dims (nwires ninputs noutputs), gates ((op in0 in1 out)...).

   mode 0 (online phase on triples dealt by the model's own tripleBatch):
     input  = (0 dims gates isz inputs rnd batches pools)
        isz     = (bits of party 0, ...)            Circuit.Inputs[i].Type.Bits
        inputs  = ((bit...) per party)
        rnd     = (((bit...) per receiver q) per sender p)   input-share randomness
        batches = ((words a b sb dl) ...)  a,b = ((word...) per party),
                  sb = (((word...) per q) per p), dl = ((bit per q) per p)
        pools   = ((k0 (sched...)) per party)  k0 batches are in the pool at
                  the start, the rest arrives according to sched
     output = (outs levels numLevels maxWidth plain allvalid)
        outs = every party's output bits, levels = Gate.Level per gate

   mode 1 (triples recorded from the real pools of all parties):
     input  = (1 dims gates isz inputs rnd counts recorded bsizes pools)
        counts   = the counts passed to Pool.Get, in order (same at every party)
        recorded = (((a b c) per word) per Get) per party
        bsizes   = batch sizes in words used to re-chunk every party's stream
     output = (wordsPerGet same valid nwords outs)

   mode 2 (pool synchronisation, PoolSync.v with the constants of the Go code):
     input  = (2 need)   need = words of one Get issued after the generator
                         has filled the pool and parked
     output = (words in the pool when the generator parks,
               1 if the Get returns under the round-robin schedule)        *)
From Coq Require Import ZArith NArith List Bool Arith.
From Mpc Require Import Gen.Consts Base.Sx Base.Codec Circuit.Circuit Circuit.RunC01 Gmw.Gmw Gmw.Pool Gmw.PoolSync Gmw.GmwReuse.
From Mpc Require Import Proto.Live Gmw.GmwNet Gen.SkelGmw.
Import ListNotations.
Local Open Scope nat_scope.

Definition getLLN (s : sx) : list (list N) := map getLN (getL s).
Definition getLLB (s : sx) : list (list bool) := map getLB (getL s).

Definition triple_of_sx (s : sx) : triple :=
  mkT (getN (nthx 0 s)) (getN (nthx 1 s)) (getN (nthx 2 s)).

Definition pool_of_sx (batches : list triples) (s : sx) : triples * list triples * list nat :=
  let k0 := getnat (nthx 0 s) in
  (concat (firstn k0 batches), skipn k0 batches, getLnat (nthx 1 s)).

Definition rnd_of_sx (s : sx) : nat -> nat -> list bool :=
  let r := map getLLB (getL s) in
  fun p q => nth q (nth p r []) [].

(* one dealt batch: every party's Triples *)
Definition deal_of_sx (n : nat) (s : sx) : list triples :=
  let words := getnat (nthx 0 s) in
  let a := getLLN (nthx 1 s) in
  let b := getLLN (nthx 2 s) in
  let sb := map getLLN (getL (nthx 3 s)) in
  let dl := getLLB (nthx 4 s) in
  deal n words (fun p => nth p a []) (fun p => nth p b [])
       (fun p q => nth q (nth p sb []) []) (fun p q => nth q (nth p dl []) false).

(* per-party list of batches from a list of (per-party) dealt batches *)
Definition transpose_batches (n : nat) (bs : list (list triples)) : list (list triples) :=
  map (fun p => map (fun b => nth p b []) bs) (seq 0 n).

Definition all_valid (streams : list triples) : bool :=
  forallb (fun j => triple_valid (col j streams))
          (seq 0 (fold_left Nat.max (map (@length triple) streams) 0)).

Definition outs_sx (o : option (list (list bool))) : sx :=
  match o with
  | None => sx_err 2
  | Some outs => SL (map ofLB outs)
  end.

Definition triple_eqb (x y : triple) : bool :=
  N.eqb (tA x) (tA y) && N.eqb (tB x) (tB y) && N.eqb (tC x) (tC y).
Fixpoint triples_eqb (x y : triples) : bool :=
  match x, y with
  | [], [] => true
  | a :: x', b :: y' => triple_eqb a b && triples_eqb x' y'
  | _, _ => false
  end.

(* replay the Gets of one party on its re-chunked stream *)
Fixpoint replay_gets (counts : list nat) (pool : triples) (pend : list triples) (sched : list nat)
  : list (option triples) :=
  match counts with
  | [] => []
  | k :: rest =>
      match pool_get k [] pool pend sched with
      | None => [None]
      | Some (got, pool', pend', sched') => Some got :: replay_gets rest pool' pend' sched'
      end
  end.

(* fill (the generator runs alone until it parks), then one Get *)
Definition run_sync (need : nat) : sx :=
  let filled := exec go_lwm go_bsz false (repeat LGen 100) init in
  let s := exec go_lwm go_bsz false [LGet need] filled in
  let s' := run_rr go_lwm go_bsz false 8 s in
  SL [ ofnat (words filled);
       ofB (match gst filled with GWaiting => true | _ => false end);
       ofB (match cst s' with CIdle => true | _ => false end) ].

(* mode 3: Circuit.AssignLevels(TargetGMW) alone (deep AND chains):
   input = (3 dims gates), output = (Gate.Level per gate, Stats[NumLevels]) *)
Definition run_levels (c : circuit) : sx :=
  SL [ ofLnat (gate_levels c); ofnat (num_levels c) ].

(* mode 4: a sequence of Network.Run calls on one connected network:
   input  = (4 n jobs batches pools), jobs = ((dims gates isz inputs rnd) ...),
            batches / pools as in mode 0 (triples dealt by the model)
   output = ((every party's output bits) per run, (plain evaluation) per run) *)
Definition job_of_sx (s : sx) : job :=
  mkJob (circuit_of_sx (nthx 0 s) (nthx 1 s)) (getLnat (nthx 2 s)) (getLLB (nthx 3 s)) (rnd_of_sx (nthx 4 s)).

Definition run_reuse (inp : sx) : sx :=
  let n := getnat (nthx 1 inp) in
  let jobs := map job_of_sx (getL (nthx 2 inp)) in
  if negb (forallb (fun j => wf (jc j) && ssa (jc j) && levels_in_range (jc j)) jobs) then sx_err 1 else
  let dealt := map (deal_of_sx n) (getL (nthx 3 inp)) in
  let per_party := transpose_batches n dealt in
  let pools := map (fun pb => pool_of_sx (fst pb) (snd pb)) (combine per_party (getL (nthx 4 inp))) in
  match run_seq jobs (fresh pools) with
  | None => sx_err 2
  | Some outs =>
      SL [ SL (map (fun o => SL (map ofLB o)) outs);
           SL (map (fun j => ofLB (eval_plain (jc j) (concat (jinputs j)))) jobs) ]
  end.

(* mode 5: the online phase as a network of n parties (GmwNet.v) running the
   skeleton GENERATED FROM THE SOURCE (Gen/SkelGmw.v) under the round-robin
   reference schedule (no automatic flushes):
   input  = (5 n counts h0)
            counts = AND gates per level, index 0..NumLevels
            h0     = len(nw.andD) left behind by earlier runs (0: fresh network)
   output = (done bad flushes)
            done    = 1: every party finished, all buffers and channels empty
            bad     = 1: a receive met an item it did not expect
            flushes = per party, the number of write segments (p2p IOStats.Flushed
                      of the online connections during Run) *)
Definition run_net (inp : sx) : sx :=
  let n := getnat (nthx 1 inp) in
  let levels := with_lens (getnat (nthx 3 inp)) (getLnat (nthx 2 inp)) in
  let progs := party_acts skel_gmw_run n levels in
  let '(s, log) := nrun_log (rr_sched n (total_len n progs)) (ninit n progs) [] in
  SL [ ofB (ndone n s); ofB (ns_bad s);
       ofLnat (map (fun p => length (filter (fun e => fst (fst e) =? p) log)) (seq 0 n)) ].

(* mode 6: the write segments of every party by p2p.Conn's buffer rule
   (GmwNet.party_segs, p2p.writeBufSize from Gen/Consts.v) on the same
   generated skeleton:
   input  = (6 n inB counts h0 outB)
            inB  = bytes of every party's input share ((Bits+7)/8)
            outB = bytes of the LEADER's output share (as seen on the wire)
   output = (flushes leader)
            flushes = per party, the number of write segments
            leader  = per peer 1..n-1, the byte sizes of the leader's write segments
   mode 7: same input, output = (flushes) only (networks without a write log) *)
Definition run_segs (inp : sx) : sx :=
  let n := getnat (nthx 1 inp) in
  let inB := getLN (nthx 2 inp) in
  let levels := with_lens (getnat (nthx 4 inp)) (getLnat (nthx 3 inp)) in
  let outB := getN (nthx 5 inp) in
  let dlen := fun t => if t_ph t =? 0 then nth (t_src t) inB 0%N else outB in
  let segs := map (fun p => party_segs (Z.to_N p2p_writeBufSize) dlen (party_acts skel_gmw_run n levels p)) (seq 0 n) in
  SL [ ofLnat (map (@length (nat * N)) segs);
       SL (map (fun j => ofLN (map snd (filter (fun e => fst e =? j) (nth 0 segs []))))
               (seq 1 (n - 1))) ].

Definition run_c10 (inp : sx) : sx :=
  let mode := getnat (nthx 0 inp) in
  if mode =? 5 then run_net inp else
  if mode =? 6 then run_segs inp else
  if mode =? 7 then SL [nthx 0 (run_segs inp)] else
  if mode =? 2 then run_sync (getnat (nthx 1 inp)) else
  if mode =? 3 then run_levels (circuit_of_sx (nthx 1 inp) (nthx 2 inp)) else
  if mode =? 4 then run_reuse inp else
  let c := circuit_of_sx (nthx 1 inp) (nthx 2 inp) in
  let isz := getLnat (nthx 3 inp) in
  let n := length isz in
  let inputs := getLLB (nthx 4 inp) in
  let rnd := rnd_of_sx (nthx 5 inp) in
  if negb (wf c && ssa c && levels_in_range c) then sx_err 1 else
  match mode with
  | 0 =>
      let dealt := map (deal_of_sx n) (getL (nthx 6 inp)) in
      let per_party := transpose_batches n dealt in
      let pools := map (fun pb => pool_of_sx (fst pb) (snd pb)) (combine per_party (getL (nthx 7 inp))) in
      SL [ outs_sx (run_gmw c isz inputs rnd pools);
           ofLnat (gate_levels c); ofnat (num_levels c); ofnat (max_width (gate_levels c));
           ofLB (eval_plain c (concat inputs));
           ofB (all_valid (map (@concat triple) per_party)) ]
  | _ =>
      let counts := getLnat (nthx 6 inp) in
      let recorded := map (fun p => map (fun g => map triple_of_sx (getL g)) (getL p)) (getL (nthx 7 inp)) in
      let bsizes := getLnat (nthx 8 inp) in
      let streams := map (@concat triple) recorded in
      let pools := map (fun sp => pool_of_sx (chunks bsizes (fst sp)) (snd sp))
                       (combine streams (getL (nthx 9 inp))) in
      let replays := map (fun pl => replay_gets counts (fst (fst pl)) (snd (fst pl)) (snd pl)) pools in
      let same := forallb (fun rr => let '(rec, rep) := rr in
                     (length rec =? length rep) &&
                     forallb (fun ab => match snd ab with Some g => triples_eqb (fst ab) g | None => false end)
                             (combine rec rep))
                    (combine recorded replays) in
      SL [ SL (map (fun rep => ofLnat (map (fun o => match o with Some g => length g | None => 0 end) rep)) replays);
           ofB same;
           ofB (all_valid streams);
           ofnat (fold_left Nat.max (map (@length triple) streams) 0);
           outs_sx (run_gmw c isz inputs rnd pools) ]
  end.
