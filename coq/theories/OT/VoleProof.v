(* VoleProof.v — theorems about the model of vole.Sender.Mul / Receiver.Mul
   (OT/Vole.v): the outputs are additive shares of the products modulo p for
   every vector length, every modulus 0 < p <= 2^256, every integer x_i and
   every y_i in [0, 2^256); every transmitted element survives
   bytes32 / SetBytes; the IKNP chunking covers exactly the requested rows. *)
From Coq Require Import ZArith NArith List Bool Lia Arith.
From Mpc Require Import Gen.Consts Base.Codec Base.CodecProof OT.Vole.
Import ListNotations.
Open Scope Z_scope.

(* ------------------------------------------------------------------ *)
(* big-endian helpers                                                  *)

Lemma be_zero k : be k 0%N = repeat 0%N k.
Proof.
  induction k as [|k IH]; [reflexivity|].
  cbn [be]. change (0 / 256)%N with 0%N. change (0 mod 256)%N with 0%N.
  rewrite IH. change [0%N] with (repeat 0%N 1). rewrite <- repeat_app.
  f_equal. lia.
Qed.

(* leading zero bytes: a value that fits j bytes written on k + j bytes *)
Lemma be_lead j : forall k x, (x < 256 ^ N.of_nat j)%N ->
  be (k + j) x = repeat 0%N k ++ be j x.
Proof.
  induction j as [|j IH]; intros k x Hx.
  - cbn in Hx. assert (x = 0%N) by lia. subst x.
    rewrite Nat.add_0_r. cbn [be]. rewrite app_nil_r. apply be_zero.
  - replace (k + S j)%nat with (S (k + j)) by lia. cbn [be].
    rewrite IH.
    + rewrite app_assoc. reflexivity.
    + rewrite Nat2N.inj_succ, N.pow_succ_r' in Hx.
      apply N.div_lt_upper_bound; lia.
Qed.

Lemma nbytes_bound a : (a < 256 ^ N.of_nat (nbytes a))%N.
Proof.
  pose proof (big_bytes_roundtrip a) as H. unfold big_bytes in H.
  rewrite of_be_be in H.
  assert (Hnz : (256 ^ N.of_nat (nbytes a) <> 0)%N) by (apply N.pow_nonzero; lia).
  pose proof (N.mod_upper_bound a _ Hnz). lia.
Qed.

Lemma nbytes_le_32 a : (a < 2 ^ 256)%N -> (nbytes a <= 32)%nat.
Proof.
  intros Ha. unfold nbytes.
  destruct (N.eq_dec a 0) as [->|Hnz]; [cbn; lia|].
  rewrite N.size_log2 by exact Hnz.
  assert (N.log2 a < 256)%N by (apply N.log2_lt_pow2; [lia|exact Ha]).
  assert (N.to_nat (N.succ (N.log2 a)) <= 256)%nat by lia.
  assert ((N.to_nat (N.succ (N.log2 a)) + 7) / 8 < 33)%nat by (apply Nat.div_lt_upper_bound; lia).
  lia.
Qed.

(* bytes32 writes the absolute value right-aligned on 32 bytes *)
Lemma bytes32_abs v : Z.abs v < 2 ^ 256 -> bytes32 v = Some (be 32 (Z.abs_N v)).
Proof.
  intros Hv. unfold bytes32, big_bytes. rewrite be_length.
  assert (Ha : (Z.abs_N v < 2 ^ 256)%N).
  { apply N2Z.inj_lt. rewrite N2Z.inj_abs_N. exact Hv. }
  pose proof (nbytes_le_32 _ Ha) as Hn.
  destruct (Nat.leb_spec (nbytes (Z.abs_N v)) 32) as [_|]; [|lia].
  f_equal.
  replace 32%nat with ((32 - nbytes (Z.abs_N v)) + nbytes (Z.abs_N v))%nat at 2 by lia.
  symmetry. apply be_lead. apply nbytes_bound.
Qed.

Lemma bytes32_nonneg v : 0 <= v < 2 ^ 256 -> bytes32 v = Some (be 32 (Z.to_N v)).
Proof.
  intros Hv. rewrite bytes32_abs by (rewrite Z.abs_eq; lia).
  f_equal. f_equal. rewrite <- (Z.abs_eq v) at 2 by lia.
  destruct v; cbn; try reflexivity; lia.
Qed.

Lemma pow256_32 : (256 ^ N.of_nat 32 = 2 ^ 256)%N.
Proof. reflexivity. Qed.

(* every element of [0, 2^256) survives bytes32 followed by SetBytes *)
Lemma bytes32_roundtrip v : 0 <= v < 2 ^ 256 ->
  exists bs, bytes32 v = Some bs /\ length bs = 32%nat /\ set_bytes bs = v.
Proof.
  intros Hv. exists (be 32 (Z.to_N v)). split; [apply bytes32_nonneg; exact Hv|].
  split; [apply be_length|].
  unfold set_bytes. rewrite of_be_be, pow256_32.
  rewrite N.mod_small.
  - apply Z2N.id; lia.
  - change (2 ^ 256)%N with (Z.to_N (2 ^ 256)). apply Z2N.inj_lt; lia.
Qed.

(* ... in particular every field element of a modulus of at most 2^256 *)
Lemma bytes32_roundtrip_field p v : p <= 2 ^ 256 -> 0 <= v < p ->
  exists bs, bytes32 v = Some bs /\ length bs = 32%nat /\ set_bytes bs = v.
Proof. intros Hp Hv. apply bytes32_roundtrip. lia. Qed.

(* a value of 2^256 or more makes bytes32 panic *)
Example bytes32_panics : bytes32 (2 ^ 256) = None.
Proof. vm_compute. reflexivity. Qed.
(* a negative value is written as its absolute value *)
Example bytes32_negative : bytes32 (-3) = bytes32 3.
Proof. vm_compute. reflexivity. Qed.

(* packed vectors *)
Lemma firstn_app_exact {A} (a b : list A) n : length a = n -> firstn n (a ++ b) = a.
Proof. intros <-. rewrite firstn_app, Nat.sub_diag, firstn_all. cbn. apply app_nil_r. Qed.
Lemma skipn_app_exact {A} (a b : list A) n : length a = n -> skipn n (a ++ b) = b.
Proof. intros <-. rewrite skipn_app, Nat.sub_diag, skipn_all. reflexivity. Qed.

Lemma pack32_unpack vs : Forall (fun v => 0 <= v < 2 ^ 256) vs ->
  exists bs, pack32 vs = Some bs /\ length bs = (length vs * 32)%nat /\
             map set_bytes (blocks32 (length vs) bs) = vs.
Proof.
  induction 1 as [|v vs Hv _ IH].
  - exists []. cbn. auto.
  - destruct IH as (bs & Hp & Hl & Hm).
    destruct (bytes32_roundtrip v Hv) as (b & Hb & Hbl & Hbv).
    exists (b ++ bs). cbn [pack32 length blocks32 map]. rewrite Hb, Hp.
    split; [reflexivity|]. split; [rewrite app_length; lia|].
    rewrite (firstn_app_exact b bs 32 Hbl), (skipn_app_exact b bs 32 Hbl).
    rewrite Hbv, Hm. reflexivity.
Qed.

Lemma unpack32_pack p vs bs : pack32 vs = Some bs ->
  map set_bytes (blocks32 (length vs) bs) = vs ->
  unpack32 (length vs) p bs = map (fun v => gomod v p) vs.
Proof.
  intros _ Hm. unfold unpack32. rewrite <- Hm at 2. rewrite map_map. reflexivity.
Qed.

(* ------------------------------------------------------------------ *)
(* the share relation                                                  *)

Inductive Forall3 {A B C : Type} (R : A -> B -> C -> Prop) : list A -> list B -> list C -> Prop :=
| Forall3_nil : Forall3 R [] [] []
| Forall3_cons a b c la lb lc :
    R a b c -> Forall3 R la lb lc -> Forall3 R (a :: la) (b :: lb) (c :: lc).

Lemma gomod_pos x p : 0 < p -> gomod x p = x mod p.
Proof. intros. unfold gomod. rewrite Z.abs_eq by lia. reflexivity. Qed.

Lemma gomod_range x p : p <> 0 -> 0 <= gomod x p < Z.abs p.
Proof. intros. unfold gomod. apply Z.mod_pos_bound. lia. Qed.

(* one element: u = (r + (x * (y mod p)) mod p) mod p is r + x*y modulo p *)
Lemma u_of_rel p r x y : 0 < p -> (u_of p r x (gomod y p) - r) mod p = (x * y) mod p.
Proof.
  intros Hp. unfold u_of. rewrite !gomod_pos by exact Hp.
  rewrite Zminus_mod_idemp_l.
  replace (r + (x * (y mod p)) mod p - r) with ((x * (y mod p)) mod p) by ring.
  rewrite Z.mod_mod by lia. apply Z.mul_mod_idemp_r. lia.
Qed.

Lemma u_of_range p r x y : 0 < p -> 0 <= u_of p r x y < p.
Proof. intros Hp. unfold u_of. rewrite (gomod_pos _ p Hp). apply Z.mod_pos_bound. exact Hp. Qed.

Lemma sender_us_length p : forall rs xs ys,
  length rs = length xs -> length ys = length xs -> length (sender_us p rs xs ys) = length xs.
Proof.
  induction rs as [|r rs IH]; intros [|x xs] [|y ys] H1 H2; cbn in *; try lia.
  rewrite IH; lia.
Qed.

(* The u-vector the sender computes, for vectors of every length: what the
   receiver ends with (u) minus what the sender keeps (r) is the product of
   the sender's x and the receiver's y, modulo p. *)
Theorem vole_shares : forall p xs ys rs,
  0 < p -> length rs = length xs -> length ys = length xs ->
  Forall3 (fun u r xy => (u - r) mod p = (fst xy * snd xy) mod p)
          (sender_us p rs xs (map (fun y => gomod y p) ys)) rs (combine xs ys).
Proof.
  intros p xs. induction xs as [|x xs IH]; intros [|y ys] [|r rs] Hp H1 H2; cbn in *; try lia.
  - constructor.
  - constructor.
    + cbn. apply u_of_rel; exact Hp.
    + apply IH; lia.
Qed.

Lemma sender_us_range p : forall rs xs ys, 0 < p ->
  Forall (fun u => 0 <= u < p) (sender_us p rs xs ys).
Proof.
  induction rs as [|r rs IH]; intros [|x xs] [|y ys] Hp; cbn; try constructor.
  - apply u_of_range; exact Hp.
  - apply IH; exact Hp.
Qed.

Lemma Forall_map_iff {A B} (f : A -> B) (P : B -> Prop) l :
  Forall P (map f l) <-> Forall (fun a => P (f a)) l.
Proof. apply Forall_map. Qed.

(* ------------------------------------------------------------------ *)
(* the IKNP relation, as a hypothesis                                  *)

(* correlated OT as IKNPSender.Send / IKNPReceiver.Receive document it:
   t_i = s_i xor c_i * Delta *)
Definition iknp_cot (delta : N) (choices : list bool) (s t : list N) : Prop :=
  length s = length choices /\ length t = length choices /\
  forall i, (i < length choices)%nat ->
    nth i t 0%N = N.lxor (nth i s 0%N) (if nth i choices false then delta else 0%N).

Lemma nth_ext_N (a b : list N) : length a = length b ->
  (forall i, (i < length a)%nat -> nth i a 0%N = nth i b 0%N) -> a = b.
Proof.
  revert b. induction a as [|x a IH]; intros [|y b] Hl H; cbn in *; try lia; [reflexivity|].
  f_equal.
  - apply (H 0%nat). lia.
  - apply IH; [lia|]. intros i Hi. apply (H (S i)). lia.
Qed.

(* with all choice flags false (Receiver.Mul) both parties hold the same labels *)
Lemma iknp_cot_false delta m s t : iknp_cot delta (repeat false m) s t -> t = s /\ length s = m.
Proof.
  intros (Hs & Ht & H). rewrite repeat_length in *. split; [|exact Hs].
  apply nth_ext_N; [lia|]. intros i Hi. rewrite H by lia.
  rewrite nth_repeat. apply N.lxor_0_r.
Qed.

(* ------------------------------------------------------------------ *)
(* the whole exchange                                                  *)

Section Session.
  Variable expand : N -> N.

  Lemma mask_range p l : 0 < p -> 0 <= mask expand p l < p.
  Proof. intros Hp. unfold mask. rewrite gomod_pos by exact Hp. apply Z.mod_pos_bound; exact Hp. Qed.

  Lemma Forall_lt_weaken p l : p <= 2 ^ 256 ->
    Forall (fun u => 0 <= u < p) l -> Forall (fun u => 0 <= u < 2 ^ 256) l.
  Proof. intros Hp. apply Forall_impl. intros; lia. Qed.

  (* One Sender.Mul(xs, p) against one Receiver.Mul(ys, p), for every vector
     length, every modulus 0 < p <= 2^256, every integer x_i, every y_i in
     [0, 2^256), every Delta, every label expansion, given only the IKNP
     relation between the two parties' labels. *)
  Theorem vole_session_correct : forall delta slabels rlabels xs ys p,
    0 < p <= 2 ^ 256 ->
    length ys = length xs ->
    iknp_cot delta (repeat false (length xs)) slabels rlabels ->
    Forall (fun y => 0 <= y < 2 ^ 256) ys ->
    exists o, vole_session expand slabels rlabels xs ys p = VOk o /\
      (* the sender's result: masks derived from its labels, reduced *)
      vo_rs o = map (fun l => Z.of_N (expand l) mod p) slabels /\
      length (vo_rs o) = length xs /\ length (vo_us o) = length xs /\
      Forall (fun r => 0 <= r < p) (vo_rs o) /\ Forall (fun u => 0 <= u < p) (vo_us o) /\
      (* the shares recombine to the products *)
      Forall3 (fun u r xy => (u - r) mod p = (fst xy * snd xy) mod p)
              (vo_us o) (vo_rs o) (combine xs ys) /\
      (* the two messages: m 32-byte blocks, block i = y_i resp. u_i *)
      length (vo_yb o) = (length xs * 32)%nat /\ length (vo_ub o) = (length xs * 32)%nat /\
      map set_bytes (blocks32 (length xs) (vo_yb o)) = ys /\
      map set_bytes (blocks32 (length xs) (vo_ub o)) = vo_us o.
  Proof.
    intros delta slabels rlabels xs ys p Hp Hly Hcot Hys.
    destruct (iknp_cot_false _ _ _ _ Hcot) as [-> Hls].
    unfold vole_session. rewrite Hly, Nat.eqb_refl. cbn [negb].
    destruct (Nat.eqb_spec (length xs) 0) as [Hm0|Hm0].
    - (* empty vectors: both return nil, nothing is sent *)
      destruct xs; [|discriminate]. destruct ys; [|discriminate]. destruct slabels; [|discriminate].
      eexists. split; [reflexivity|]. cbn. repeat split; try constructor.
    - unfold receiver_y. rewrite Hly.
      destruct (Nat.eqb_spec (length xs) 0) as [|_]; [contradiction|].
      rewrite Hls, Nat.eqb_refl. cbn [negb].
      destruct (pack32_unpack ys Hys) as (yb & Hyp & Hyl & Hym).
      rewrite Hyp. unfold sender_mul.
      destruct (Nat.eqb_spec (length xs) 0) as [|_]; [contradiction|].
      rewrite Hls, Nat.eqb_refl. cbn [negb].
      destruct (Z.eqb_spec p 0) as [|_]; [lia|].
      rewrite Hyl, Hly, Nat.eqb_refl. cbn [negb].
      rewrite <- Hly. rewrite (unpack32_pack p ys yb Hyp Hym). rewrite Hly.
      set (rs := map (mask expand p) slabels).
      set (us := sender_us p rs xs (map (fun v => gomod v p) ys)).
      assert (Hrl : length rs = length xs) by (unfold rs; rewrite map_length; exact Hls).
      assert (Hul : length us = length xs).
      { unfold us. apply sender_us_length; [exact Hrl|rewrite map_length; exact Hly]. }
      assert (Hur : Forall (fun u => 0 <= u < p) us) by (apply sender_us_range; lia).
      destruct (pack32_unpack us (Forall_lt_weaken p us ltac:(lia) Hur)) as (ub & Hup & Hubl & Hum).
      rewrite Hup. unfold receiver_us. rewrite Hubl, Hul, Nat.eqb_refl. cbn [negb].
      destruct (Z.eqb_spec p 0) as [|_]; [lia|].
      eexists. split; [reflexivity|]. cbn [vo_rs vo_us vo_yb vo_ub].
      replace (unpack32 (length xs) p ub) with (unpack32 (length us) p ub) by (rewrite Hul; reflexivity).
      rewrite (unpack32_pack p us ub Hup Hum).
      assert (Hfix : map (fun v => gomod v p) us = us).
      { clear - Hur Hp. induction Hur as [|u l Hu _ IH]; [reflexivity|].
        cbn. rewrite IH. f_equal. rewrite gomod_pos by lia. apply Z.mod_small; exact Hu. }
      rewrite Hfix.
      split; [unfold rs; apply map_ext; intros l; unfold mask; apply gomod_pos; lia|].
      split; [exact Hrl|]. split; [exact Hul|].
      split; [unfold rs; apply Forall_map_iff; apply Forall_forall; intros l _; apply mask_range; lia|].
      split; [exact Hur|].
      split; [apply vole_shares; [lia|exact Hrl|exact Hly]|].
      split; [rewrite <- Hly; exact Hyl|].
      split; [rewrite <- Hul; exact Hubl|].
      split; [rewrite <- Hly; exact Hym|].
      rewrite <- Hul. exact Hum.
  Qed.

  (* The receiver's labels take no part in the result (they are only
     length-checked): the OT extension contributes the sender's masks only. *)
  Lemma vole_receiver_labels_unused : forall slabels rl1 rl2 xs ys p,
    length rl1 = length rl2 ->
    vole_session expand slabels rl1 xs ys p = vole_session expand slabels rl2 xs ys p.
  Proof.
    intros. unfold vole_session, receiver_y. rewrite H. reflexivity.
  Qed.
End Session.

(* ------------------------------------------------------------------ *)
(* limits of the statement (non-vacuity and boundary examples)         *)

(* the hypotheses are satisfiable and the session computes: p = 7 *)
Example vole_session_example :
  match vole_session (fun l => (l * 1000003)%N) [11; 12; 13]%N [11; 12; 13]%N [3; 6; -2] [5; 0; 6] 7 with
  | VOk o => vo_rs o = [2; 6; 3] /\ vo_us o = [3; 6; 5]
  | VErr _ => False
  end.
Proof. vm_compute. split; reflexivity. Qed.

(* y outside [0, 2^256): a negative y is transmitted as |y| (the relation
   fails), a y >= 2^256 makes the receiver panic *)
Example vole_negative_y_wrong :
  exists o, vole_session (fun l => l) [1%N] [1%N] [5] [-3] 65537 = VOk o /\
            (nth 0 (vo_us o) 0 - nth 0 (vo_rs o) 0) mod 65537 <> (5 * -3) mod 65537.
Proof. eexists. split; [vm_compute; reflexivity|]. vm_compute. discriminate. Qed.
Example vole_oversized_y_panics :
  vole_session (fun l => l) [1%N] [1%N] [5] [2 ^ 256] 65537 = VErr 2.
Proof. vm_compute. reflexivity. Qed.

(* a modulus above 2^256: a share of 2^256 or more makes the sender panic in bytes32 *)
Example vole_large_p_panics :
  vole_session (fun _ => (2 ^ 256)%N) [1%N] [1%N] [0] [0] (2 ^ 257) = VErr 2.
Proof. vm_compute. reflexivity. Qed.

(* ------------------------------------------------------------------ *)
(* IKNP chunking by vector length                                      *)

Lemma iknp_chunks_nonpos f n : n <= 0 -> iknp_chunks f n = [].
Proof. intros. destruct f; cbn; [reflexivity|]. destruct (Z.leb_spec n 0); [reflexivity|lia]. Qed.

(* an extension of n rows is cut into chunks of at most chunkByteRows byte
   rows whose total is ceil(n/8): row r of the extension is bit r mod 8 of
   byte r/8 of every column stream, whatever the number of chunks *)
Theorem iknp_chunks_total : forall fuel n, 0 <= n -> (Z.to_nat n <= fuel)%nat ->
  zsum (iknp_chunks fuel n) = (n + 7) / 8 /\
  Forall (fun br => 0 < br <= ot_chunkByteRows) (iknp_chunks fuel n).
Proof.
  induction fuel as [|f IH]; intros n Hn Hf.
  - assert (n = 0) by lia. subst. cbn. split; [reflexivity|constructor].
  - cbn [iknp_chunks]. destruct (Z.leb_spec n 0) as [H0|H0].
    + assert (n = 0) by lia. subst. cbn. split; [reflexivity|constructor].
    + unfold ot_chunkRows, ot_chunkByteRows in *.
      destruct (Z.le_gt_cases n 512) as [Hs|Hb].
      * rewrite Z.min_r by lia. rewrite Z.sub_diag, iknp_chunks_nonpos by lia.
        cbn [zsum fold_right]. split; [lia|].
        constructor; [|constructor].
        split; [apply Z.div_str_pos; lia|].
        assert ((n + 7) / 8 < 65) by (apply Z.div_lt_upper_bound; lia). lia.
      * rewrite Z.min_l by lia.
        destruct (IH (n - 512) ltac:(lia) ltac:(lia)) as [Hsum Hall].
        cbn [zsum fold_right] in *. fold (zsum (iknp_chunks f (n - 512))). rewrite Hsum.
        change ((512 + 7) / 8) with 64.
        split.
        -- replace (n + 7) with ((n - 512 + 7) + 64 * 8) by ring.
           rewrite Z.div_add by lia. ring.
        -- constructor; [lia|exact Hall].
Qed.
