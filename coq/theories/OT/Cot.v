(* Cot.v — executable model of the IKNP based OTs of ot/cot.go (COT.Send /
   COT.Receive) and ot/rot.go (ROT.Send / ROT.Receive) with the MITCCRH hash
   of ot/mitccrh.go.

   * The block cipher is a Section function [E gid x] = AES encryption of
     block x under the key Label{D0: gid, D1: 0} xor startPoint (renewKeys);
     for execution RunC06.v instantiates it with the Gallina AES.
   * Go arrays that are updated in place ([pad], [blks]) are lists rebuilt by
     [map f (seq 0 len)] — entry idx gets the value the Go assignments leave
     at index idx (entries no assignment touches keep their old, stale value
     and are hashed along, exactly as in the Go loops).
   * The IKNP layer underneath is OT/Iknp.v: [data] = IKNPSender.Send result,
     [rcvd] = what IKNPReceiver.Receive stored into result.
   * The flags `malicious` and `shared` do not reach these functions: the
     first only changes the IKNP call (Iknp.Send/Receive), the second only
     lets InitSender/InitReceiver be called again (no data path).
   No proofs in this file. *)
From Coq Require Import NArith ZArith List Bool Arith.
From Mpc Require Import Gen.Consts Base.Label.
Import ListNotations.
Local Open Scope nat_scope.

Definition otBatchSize : nat := Z.to_nat ot_otBatchSize.

Section Cot.
  Variable E : N -> N -> N.
  Variable Delta : N.

  (* ---- ot/mitccrh.go ---------------------------------------------------- *)
  Record mitccrh := mkM { m_batch : nat; m_gid : N; m_ciphers : list N; m_keyUsed : nat }.

  (* NewMITCCRH(s, batchSize): keyUsed = batchSize forces a renew on first use *)
  Definition NewMITCCRH (batchSize : nat) : mitccrh :=
    mkM batchSize 0 (repeat 0%N batchSize) batchSize.

  (* renewKeys: key i of the batch is the tweak gid+i (xor startPoint, inside E) *)
  Definition renewKeys (m : mitccrh) : mitccrh :=
    mkM (m_batch m) (m_gid m + N.of_nat (m_batch m))
        (map (fun i => (m_gid m + N.of_nat i)%N) (seq 0 (m_batch m))) 0.

  (* Hash(blks, k, h): key keyUsed+i encrypts the h consecutive blocks
     i*h .. i*h+h-1; every block is xor-ed with its encryption.  None = panic. *)
  Definition Hash (m : mitccrh) (blks : list N) (k h : nat) : option (mitccrh * list N) :=
    if (m_batch m <? k) || negb (m_batch m mod k =? 0) || negb (k * h =? length blks) then None else
    let m1 := if m_keyUsed m =? m_batch m then renewKeys m else m in
    let out := map (fun idx => let x := nth idx blks 0%N in
                               N.lxor x (E (nth (m_keyUsed m1 + idx / h) (m_ciphers m1) 0%N) x))
                   (seq 0 (length blks)) in
    Some (mkM (m_batch m1) (m_gid m1) (m_ciphers m1) (m_keyUsed m1 + k), out).

  (* ---- ot/cot.go COT.Send ----------------------------------------------- *)
  (* one iteration of `for i := 0; i < len(wires); i += otBatchSize`;
     returns the labels sent (pad[0 .. 2*(end-i))) and the new pad/hash state *)
  Definition cot_send_step (m : mitccrh) (pad data : list N) (wires : list wire) (i : nat)
    : option (list N * mitccrh * list N) :=
    let endi := Nat.min (i + otBatchSize) (length wires) in
    let cnt := endi - i in
    let pad1 := map (fun idx => if idx <? 2 * cnt
                                then let d := nth (i + idx / 2) data 0%N in
                                     if idx mod 2 =? 0 then d else N.lxor d Delta
                                else nth idx pad 0%N) (seq 0 (length pad)) in
    match Hash m pad1 otBatchSize 2 with
    | None => None
    | Some (m', pad2) =>
        let pad3 := map (fun idx => if idx <? 2 * cnt
                                    then let w := nth (i + idx / 2) wires w0 in
                                         N.lxor (nth idx pad2 0%N) (if idx mod 2 =? 0 then L0 w else L1 w)
                                    else nth idx pad2 0%N) (seq 0 (length pad2)) in
        Some (firstn (2 * cnt) pad3, m', pad3)
    end.

  Fixpoint cot_send_loop (fuel : nat) (m : mitccrh) (pad data : list N) (wires : list wire) (i : nat)
    : option (list N) :=
    if length wires <=? i then Some [] else
    match fuel with
    | O => None
    | S f =>
        match cot_send_step m pad data wires i with
        | None => None
        | Some (out, m', pad') =>
            match cot_send_loop f m' pad' data wires (i + otBatchSize) with
            | None => None
            | Some rest => Some (out ++ rest)
            end
        end
    end.

  (* COT.Send(wires) after data := iknpS.Send(len(wires)): the 2n masked labels *)
  Definition cot_send (data : list N) (wires : list wire) : option (list N) :=
    cot_send_loop (length wires) (NewMITCCRH otBatchSize) (repeat 0%N (2 * otBatchSize)) data wires 0.

  (* ---- ot/cot.go COT.Receive --------------------------------------------- *)
  Definition cot_recv_step (m : mitccrh) (pad rcvd : list N) (flags : list bool) (msgs : list N) (i : nat)
    : option (list N * mitccrh * list N) :=
    let cnt := Nat.min otBatchSize (length flags - i) in
    (* copy(pad, result[i:]) *)
    let pad1 := map (fun idx => if idx <? Nat.min (length pad) (length rcvd - i)
                                then nth (i + idx) rcvd 0%N else nth idx pad 0%N) (seq 0 (length pad)) in
    match Hash m pad1 otBatchSize 1 with
    | None => None
    | Some (m', pad2) =>
        Some (map (fun j => let res0 := nth (2 * (i + j)) msgs 0%N in
                            let res1 := nth (2 * (i + j) + 1) msgs 0%N in
                            N.lxor (if nth (i + j) flags false then res1 else res0) (nth j pad2 0%N))
                  (seq 0 cnt), m', pad2)
    end.

  Fixpoint cot_recv_loop (fuel : nat) (m : mitccrh) (pad rcvd : list N) (flags : list bool) (msgs : list N) (i : nat)
    : option (list N) :=
    if length flags <=? i then Some [] else
    match fuel with
    | O => None
    | S f =>
        match cot_recv_step m pad rcvd flags msgs i with
        | None => None
        | Some (out, m', pad') =>
            match cot_recv_loop f m' pad' rcvd flags msgs (i + otBatchSize) with
            | None => None
            | Some rest => Some (out ++ rest)
            end
        end
    end.

  (* COT.Receive(flags, result) after iknpR.Receive stored rcvd into result;
     msgs = the labels read from the connection after the seed *)
  Definition cot_receive (rcvd : list N) (flags : list bool) (msgs : list N) : option (list N) :=
    cot_recv_loop (length flags) (NewMITCCRH otBatchSize) (repeat 0%N otBatchSize) rcvd flags msgs 0.

  (* ---- ot/rot.go ROT.Send / ROT.Receive ---------------------------------- *)
  Definition rot_send_step (m : mitccrh) (pad data : list N) (n i : nat)
    : option (list wire * mitccrh * list N) :=
    let endi := Nat.min (i + otBatchSize) n in
    let cnt := endi - i in
    let pad1 := map (fun idx => if idx <? 2 * cnt
                                then let d := nth (i + idx / 2) data 0%N in
                                     if idx mod 2 =? 0 then d else N.lxor d Delta
                                else nth idx pad 0%N) (seq 0 (length pad)) in
    match Hash m pad1 otBatchSize 2 with
    | None => None
    | Some (m', pad2) =>
        Some (map (fun j => mkWire (nth (2 * j) pad2 0%N) (nth (2 * j + 1) pad2 0%N)) (seq 0 cnt), m', pad2)
    end.

  Fixpoint rot_send_loop (fuel : nat) (m : mitccrh) (pad data : list N) (n i : nat) : option (list wire) :=
    if n <=? i then Some [] else
    match fuel with
    | O => None
    | S f =>
        match rot_send_step m pad data n i with
        | None => None
        | Some (out, m', pad') =>
            match rot_send_loop f m' pad' data n (i + otBatchSize) with
            | None => None
            | Some rest => Some (out ++ rest)
            end
        end
    end.

  (* ROT.Send(wires): the wires are outputs *)
  Definition rot_send (data : list N) (n : nat) : option (list wire) :=
    rot_send_loop n (NewMITCCRH otBatchSize) (repeat 0%N (2 * otBatchSize)) data n 0.

  Definition rot_recv_step (m : mitccrh) (pad rcvd : list N) (n i : nat)
    : option (list N * mitccrh * list N) :=
    let pad1 := map (fun idx => if idx <? Nat.min (length pad) (length rcvd - i)
                                then nth (i + idx) rcvd 0%N else nth idx pad 0%N) (seq 0 (length pad)) in
    match Hash m pad1 otBatchSize 1 with
    | None => None
    | Some (m', pad2) =>
        (* copy(result[i:], pad) *)
        Some (firstn (Nat.min (length pad2) (length rcvd - i)) pad2, m', pad2)
    end.

  Fixpoint rot_recv_loop (fuel : nat) (m : mitccrh) (pad rcvd : list N) (n i : nat) : option (list N) :=
    if n <=? i then Some [] else
    match fuel with
    | O => None
    | S f =>
        match rot_recv_step m pad rcvd n i with
        | None => None
        | Some (out, m', pad') =>
            match rot_recv_loop f m' pad' rcvd n (i + otBatchSize) with
            | None => None
            | Some rest => Some (out ++ rest)
            end
        end
    end.

  Definition rot_receive (rcvd : list N) (n : nat) : option (list N) :=
    rot_recv_loop n (NewMITCCRH otBatchSize) (repeat 0%N otBatchSize) rcvd n 0.
End Cot.
