(* FxProof.v — theorems about the model of bmr.FxSend/FxReceive and
   bmr.FxkSend/FxkReceive (OT/Fx.v): for every OT that delivers the chosen
   label, every random label and all operands, the two returned values are
   XOR shares of a*b, resp. of b*s; ToOT/FromOT round trip for k = 32. *)
From Coq Require Import ZArith NArith List Bool Lia.
From Mpc Require Import Gen.Consts Base.Codec Base.CodecProof Base.Label OT.Fx.
Import ListNotations.
Open Scope Z_scope.

Definition is_byte (x : N) : Prop := (x < 256)%N.

(* the label width the conversions are written for *)
Lemma bmr_k_is_32 : bmr_k = 32.
Proof. reflexivity. Qed.
Lemma klen_is_4 : klen = 4%nat.
Proof. reflexivity. Qed.

Lemma length4 {A} (l : list A) : length l = 4%nat -> exists a b c d, l = [a; b; c; d].
Proof.
  destruct l as [|a [|b [|c [|d [|e l]]]]]; cbn; intros H; try discriminate.
  exists a, b, c, d. reflexivity.
Qed.

Lemma be4_of_be a b c d : is_byte a -> is_byte b -> is_byte c -> is_byte d ->
  be 4 (of_be [a; b; c; d]) = [a; b; c; d].
Proof.
  unfold is_byte. intros Ha Hb Hc Hd. cbn [be app of_be fold_left].
  repeat f_equal.
  all: zify; Z.div_mod_to_equations; lia.
Qed.

Lemma of_be4_bound a b c d : is_byte a -> is_byte b -> is_byte c -> is_byte d ->
  (of_be [a; b; c; d] < 2 ^ 32)%N.
Proof. unfold is_byte. intros. cbn [of_be fold_left]. change (2 ^ 32)%N with 4294967296%N. lia. Qed.

(* ToOT then FromOT gives the label back (k = 32: all four bytes travel in
   the low half of D0) *)
Lemma from_ot_to_ot l0 l : length l0 = klen -> length l = klen -> Forall is_byte l ->
  from_ot l0 (to_ot l) = l.
Proof.
  rewrite klen_is_4. intros H0 Hl Hb.
  destruct (length4 l Hl) as (a & b & c & d & ->).
  destruct (length4 l0 H0) as (a0 & b0 & c0 & d0 & ->).
  inversion Hb as [|? ? Ha Hb1]; subst. inversion Hb1 as [|? ? Hb' Hb2]; subst.
  inversion Hb2 as [|? ? Hc Hb3]; subst. inversion Hb3 as [|? ? Hd _]; subst.
  unfold from_ot, to_ot. cbn [firstn skipn].
  rewrite N.div_mul by (apply N.pow_nonzero; lia).
  rewrite N.mod_small by (apply of_be4_bound; assumption).
  rewrite be4_of_be by assumption. apply app_nil_r.
Qed.

Lemma lxor_byte a b : is_byte a -> is_byte b -> is_byte (N.lxor a b).
Proof.
  unfold is_byte. intros Ha Hb. change 256%N with (2 ^ 8)%N in *.
  destruct (N.eq_dec (N.lxor a b) 0) as [->|Hnz]; [cbn; lia|].
  apply N.log2_lt_pow2; [lia|].
  eapply N.le_lt_trans; [apply N.log2_lxor|].
  apply N.max_lub_lt.
  - destruct (N.eq_dec a 0) as [->|]; [cbn; lia|]. apply N.log2_lt_pow2; [lia|exact Ha].
  - destruct (N.eq_dec b 0) as [->|]; [cbn; lia|]. apply N.log2_lt_pow2; [lia|exact Hb].
Qed.

Lemma lxor_twice a b : N.lxor a (N.lxor a b) = b.
Proof. rewrite <- N.lxor_assoc, N.lxor_nilpotent. apply N.lxor_0_l. Qed.

Lemma land1 x : N.land x 1 = (x mod 2)%N.
Proof. change 1%N with (N.ones 1). rewrite N.land_ones. reflexivity. Qed.

Lemma low_bit_lxor x y : (N.lxor x y mod 2 = (x mod 2 + y mod 2) mod 2)%N.
Proof.
  rewrite <- !N.bit0_mod. rewrite N.lxor_spec.
  destruct (N.testbit x 0), (N.testbit y 0); reflexivity.
Qed.

Section WithOT.
  Variable ot : wire -> bool -> N.
  Hypothesis ot_spec : forall w c, ot w c = pick w c.

  (* general form, all uint operands: r xor xb = (a mod 2) if b = 1, else 0 *)
  Lemma fx_general : forall rl a b,
    length rl = klen -> Forall is_byte rl -> 0 <= a ->
    let '(_, _, r, xb) := fx ot rl a b in
    0 <= r < 2 /\ 0 <= xb < 2 /\
    Z.lxor r xb = if b =? 1 then a mod 2 else 0.
  Proof.
    intros rl a b Hl Hb Ha. unfold fx, fx_send. rewrite ot_spec.
    pose proof Hl as Hl4. rewrite klen_is_4 in Hl4.
    destruct (length4 rl Hl4) as (r0 & r1 & r2 & r3 & ->).
    inversion Hb as [|? ? H0 Hb1]; subst. inversion Hb1 as [|? ? H1 Hb2]; subst.
    inversion Hb2 as [|? ? H2 Hb3]; subst. inversion Hb3 as [|? ? H3 _]; subst.
    set (av := Z.to_N (a mod 256)).
    assert (Hav : is_byte av).
    { unfold is_byte, av. pose proof (Z.mod_pos_bound a 256 ltac:(lia)). lia. }
    assert (Hx1 : bxor [r0; r1; r2; r3] (set0 bzero av)
                  = [N.lxor r0 av; r1; r2; r3]).
    { unfold bzero. rewrite klen_is_4. cbn. rewrite !N.lxor_0_r. reflexivity. }
    rewrite Hx1.
    assert (Hbx : Forall is_byte [N.lxor r0 av; r1; r2; r3]).
    { repeat constructor; try assumption. apply lxor_byte; assumption. }
    unfold fx_receive, fx_flag, pick. cbn [L0 L1].
    assert (Hz : length bzero = klen) by (unfold bzero; apply repeat_length).
    unfold low_bit0.
    destruct (b =? 1).
    - assert (Hl1 : length [N.lxor r0 av; r1; r2; r3] = klen) by reflexivity.
      rewrite (from_ot_to_ot bzero _ Hz Hl1 Hbx). cbn [hd].
      rewrite !land1, low_bit_lxor.
      assert (Hpar : (av mod 2)%N = Z.to_N (a mod 2)).
      { unfold av. pose proof (Z.mod_pos_bound a 256 ltac:(lia)).
        pose proof (Z.mod_pos_bound a 2 ltac:(lia)).
        zify. Z.div_mod_to_equations. lia. }
      rewrite Hpar.
      pose proof (N.mod_upper_bound r0 2 ltac:(lia)) as Hr.
      pose proof (Z.mod_pos_bound a 2 ltac:(lia)) as Hm.
      assert (Hc : (r0 mod 2 = 0 \/ r0 mod 2 = 1)%N) by lia.
      assert (Hd : a mod 2 = 0 \/ a mod 2 = 1) by lia.
      destruct Hc as [-> | ->], Hd as [-> | ->]; cbn; repeat split; lia.
    - rewrite (from_ot_to_ot bzero _ Hz Hl Hb). cbn [hd].
      rewrite !land1.
      pose proof (N.mod_upper_bound r0 2 ltac:(lia)) as Hr.
      assert (Hc : (r0 mod 2 = 0 \/ r0 mod 2 = 1)%N) by lia.
      destruct Hc as [-> | ->]; cbn; repeat split; lia.
  Qed.

  (* FxSend(a) / FxReceive(b), a, b in {0,1}: r xor xb = a*b, for every
     random label of the sender *)
  Theorem fx_correct : forall rl a b,
    length rl = klen -> Forall is_byte rl -> 0 <= a < 2 -> 0 <= b < 2 ->
    let '(_, _, r, xb) := fx ot rl a b in
    0 <= r < 2 /\ 0 <= xb < 2 /\ Z.lxor r xb = a * b.
  Proof.
    intros rl a b Hl Hb Ha Hbb.
    pose proof (fx_general rl a b Hl Hb ltac:(lia)) as H.
    destruct (fx ot rl a b) as [[[w got] r] xb].
    destruct H as (Hr & Hx & Hrel). split; [exact Hr|]. split; [exact Hx|].
    rewrite Hrel.
    assert (Ha' : a = 0 \/ a = 1) by lia. assert (Hb' : b = 0 \/ b = 1) by lia.
    destruct Ha' as [-> | ->], Hb' as [-> | ->]; reflexivity.
  Qed.

  Lemma bxor_self_l : forall r s, length r = length s -> bxor r (bxor r s) = s.
  Proof.
    induction r as [|x r IH]; intros [|y s] H; cbn in *; try lia; [reflexivity|].
    unfold bxor in *. cbn. rewrite lxor_twice. f_equal. apply IH. lia.
  Qed.

  Lemma bxor_self : forall r, bxor r r = repeat 0%N (length r).
  Proof.
    induction r as [|x r IH]; [reflexivity|]. unfold bxor in *. cbn.
    rewrite N.lxor_nilpotent, IH. reflexivity.
  Qed.

  Lemma bxor_bytes : forall r s, Forall is_byte r -> Forall is_byte s -> Forall is_byte (bxor r s).
  Proof.
    induction r as [|x r IH]; intros [|y s] Hr Hs; unfold bxor; cbn; try constructor.
    - inversion Hr; inversion Hs; subst. apply lxor_byte; assumption.
    - inversion Hr; inversion Hs; subst. apply IH; assumption.
  Qed.

  Lemma bxor_length : forall r s, length r = length s -> length (bxor r s) = length r.
  Proof. intros. unfold bxor. rewrite map_length, combine_length. lia. Qed.

  (* FxkSend(s) / FxkReceive(b): the sender's share is its random label, and
     r xor xb = s if b = 1, the zero label otherwise (any uint b) *)
  Theorem fxk_correct : forall rl s b,
    length rl = klen -> length s = klen -> Forall is_byte rl -> Forall is_byte s ->
    let '(_, _, r, xb) := fxk ot rl s b in
    r = rl /\ length xb = klen /\ Forall is_byte xb /\
    bxor r xb = if b =? 1 then s else bzero.
  Proof.
    intros rl s b Hl Hs Hbr Hbs. unfold fxk, fxk_send, fxk_receive. rewrite ot_spec.
    unfold fx_flag, pick. cbn [L0 L1].
    assert (Hz : length bzero = klen) by (unfold bzero; apply repeat_length).
    split; [reflexivity|].
    destruct (b =? 1).
    - rewrite (from_ot_to_ot bzero _ Hz).
      + split; [rewrite bxor_length; lia|]. split; [apply bxor_bytes; assumption|].
        apply bxor_self_l. lia.
      + rewrite bxor_length; lia.
      + apply bxor_bytes; assumption.
    - rewrite (from_ot_to_ot bzero _ Hz Hl Hbr).
      split; [exact Hl|]. split; [exact Hbr|].
      rewrite bxor_self, Hl. reflexivity.
  Qed.
End WithOT.

(* b*s as the test-suite computes it (Label.Mul) is s for b = 1, zero for b = 0 *)
Lemma bmul_bit : forall s b, Forall is_byte s -> length s = klen -> 0 <= b < 2 ->
  bmul s b = if b =? 1 then s else bzero.
Proof.
  intros s b Hs Hl Hb. assert (Hb' : b = 0 \/ b = 1) by lia. destruct Hb' as [-> | ->]; cbn [Z.eqb].
  - unfold bmul, bzero. rewrite <- Hl. clear Hl. induction s as [|x s IH]; [reflexivity|].
    inversion Hs; subst. cbn. rewrite N.mul_0_r. cbn. f_equal. apply IH; assumption.
  - unfold bmul. clear Hl. induction Hs as [|x s Hx _ IH]; [reflexivity|].
    cbn. change (Z.to_N (1 mod 256)) with 1%N. rewrite N.mul_1_r, N.mod_small by exact Hx.
    f_equal. exact IH.
Qed.

(* the ideal OT used for execution satisfies the hypothesis *)
Lemma ot_ideal_spec : forall w c, ot_ideal w c = pick w c.
Proof. reflexivity. Qed.

(* non-vacuity: a concrete exchange *)
Example fx_example : fx ot_ideal [0xfe; 0x10; 0x20; 0x31]%N 1 1
                     = (mkWire 0x00000000fe102031_0000000000000000 0x00000000ff102031_0000000000000000,
                        0x00000000ff102031_0000000000000000%N, 0, 1).
Proof. vm_compute. reflexivity. Qed.

(* operands outside {0,1}: byte(a) keeps the low bit only through a mod 2,
   and b = 2 selects x0 — the general lemma, not a*b *)
Example fx_a2 : let '(_, _, r, xb) := fx ot_ideal [1; 2; 3; 4]%N 2 1 in Z.lxor r xb = 0.
Proof. vm_compute. reflexivity. Qed.
