(* CoProof.v — Chou-Orlandi delivers the chosen label: from the group laws,
   a*(b*G + c*A) - c*(a*A) = b*(a*G), hence mask_sender(choice) = mask_receiver. *)
From Coq Require Import NArith List Bool Arith Lia.
From Mpc Require Import Base.Label OT.Co.
Import ListNotations.

Lemma xor_trunc_involutive mask m : xor_trunc mask (xor_trunc mask m) = firstn (length mask) m.
Proof.
  revert m. induction mask as [|x mask IH]; intros [|y m]; try reflexivity.
  unfold xor_trunc in *. cbn [combine map fst snd length firstn]. f_equal.
  - generalize x, y. intros a b. xor_solve.
  - apply IH.
Qed.

Section CoProofs.
  Variable G : Type.
  Variables (gadd : G -> G -> G) (gneg : G -> G) (gzero : G) (smul : N -> G -> G) (Gen : G).
  Variable kdf : G -> N -> N.
  Hypothesis add_assoc : forall P Q R, gadd (gadd P Q) R = gadd P (gadd Q R).
  Hypothesis add_0_r : forall P, gadd P gzero = P.
  Hypothesis add_neg : forall P, gadd P (gneg P) = gzero.
  Hypothesis smul_add : forall a P Q, smul a (gadd P Q) = gadd (smul a P) (smul a Q).
  Hypothesis smul_comm : forall a b P, smul a (smul b P) = smul b (smul a P).

  Notation GenerateCOSenderSetup := (GenerateCOSenderSetup G gneg smul Gen).
  Notation BuildCOChoices := (BuildCOChoices G gadd smul Gen).

  (* the Diffie-Hellman point the sender derives for the receiver's choice is
     the receiver's point *)
  Lemma dh_point a b (bit : bool) :
    let A := smul a Gen in
    let B := if bit then gadd (smul b Gen) A else smul b Gen in
    (if bit then gadd (smul a B) (gneg (smul a A)) else smul a B) = smul b A.
  Proof.
    cbv zeta. destruct bit.
    - rewrite smul_add, add_assoc, add_neg, add_0_r. apply smul_comm.
    - apply smul_comm.
  Qed.

  Lemma masks_agree a scalars bits wires : forall idx,
    length scalars = length bits -> length wires = length bits ->
    let s := GenerateCOSenderSetup a in
    dec_masks (receiver_masks G smul kdf (s_A G s) idx scalars) bits
              (enc_masks (sender_masks G gadd smul kdf s idx (BuildCOChoices (s_A G s) scalars bits)) wires)
    = map (fun p => pick (fst p) (snd p)) (combine wires bits).
  Proof.
    cbv zeta. revert scalars wires.
    induction bits as [|bit bits IH]; intros scalars wires idx Hs Hw.
    - destruct scalars; [|discriminate]. destruct wires; [|discriminate]. reflexivity.
    - destruct scalars as [|b scalars]; [discriminate|]. destruct wires as [|w wires]; [discriminate|].
      cbn [BuildCOChoices Co.BuildCOChoices sender_masks receiver_masks enc_masks dec_masks combine map fst snd
             GenerateCOSenderSetup Co.GenerateCOSenderSetup s_a s_A s_AaInv].
      f_equal.
      + pose proof (dh_point a b bit) as Hdh. cbv zeta in Hdh.
        destruct bit; cbn [pick fst snd].
        * rewrite Hdh. generalize (kdf (smul b (smul a Gen)) idx), (L1 w). intros m l. xor_solve.
        * rewrite Hdh. generalize (kdf (smul b (smul a Gen)) idx), (L0 w). intros m l. xor_solve.
      + apply (IH scalars wires (idx + 1)%N); simpl in *; lia.
  Qed.

  (* CO.Send ‖ CO.Receive: for every sender scalar a, receiver scalars b_i,
     choice vector and wires of the same length *)
  Theorem co_correct a scalars bits wires :
    length scalars = length bits -> length wires = length bits ->
    co_transfer G gadd gneg smul Gen kdf a scalars bits wires
    = Some (map (fun p => pick (fst p) (snd p)) (combine wires bits)).
  Proof.
    intros Hs Hw. unfold co_transfer, EncryptCOCiphertexts, DecryptCOCiphertexts. cbv zeta.
    assert (Hp : forall A sc bs, length sc = length bs -> length (BuildCOChoices A sc bs) = length bs).
    { intros A sc. induction sc as [|x sc IH]; intros [|y bs] H; try discriminate; [reflexivity|].
      cbn [BuildCOChoices Co.BuildCOChoices length]. f_equal. apply IH. simpl in H. lia. }
    assert (He : forall ms ws, length ms = length ws -> length (enc_masks ms ws) = length ws).
    { induction ms as [|[m0 m1] ms IH]; intros [|w ws] H; try discriminate; [reflexivity|].
      cbn [enc_masks length]. f_equal. apply IH. simpl in H. lia. }
    assert (Hm : forall s idx ps, length (sender_masks G gadd smul kdf s idx ps) = length ps).
    { intros s idx ps. revert idx. induction ps as [|P ps IH]; intros idx; [reflexivity|].
      cbn [sender_masks length]. f_equal. apply IH. }
    rewrite Hp by assumption. rewrite Hw, Nat.eqb_refl. cbn [negb].
    rewrite He by (rewrite Hm, Hp by assumption; lia).
    rewrite Hs, Hw, !Nat.eqb_refl. cbn [andb negb].
    f_equal. apply masks_agree; assumption.
  Qed.

  (* single-transfer API (COSenderXfer / COReceiverXfer): the mask the sender
     uses for message `bit` equals the receiver's mask *)
  Theorem xfer_mask_agree a b (bit : bool) :
    let A := smul a Gen in
    let B := xfer_receiver_point G gadd smul Gen A b bit in
    let ms := xfer_sender_masks G gadd gneg smul Gen kdf a B in
    (if bit then snd ms else fst ms) = xfer_receiver_mask G smul kdf A b.
  Proof.
    cbv zeta. unfold xfer_sender_masks, xfer_receiver_point, xfer_receiver_mask. cbv zeta.
    pose proof (dh_point a b bit) as Hdh. cbv zeta in Hdh.
    destruct bit; cbn [fst snd]; rewrite Hdh; reflexivity.
  Qed.

  (* single transfer end to end on byte strings: the receiver gets the chosen
     message (cut to the mask length, 32 bytes, as xor() truncates) *)
  Variable kdfb : G -> list N.
  Theorem xfer_correct a b (bit : bool) m0 m1 :
    xfer_transfer G gadd gneg smul Gen kdfb a b bit m0 m1
    = firstn (length (kdfb (smul b (smul a Gen)))) (if bit then m1 else m0).
  Proof.
    unfold xfer_transfer, xfer_receiver_point, xfer_encrypt, xfer_decrypt. cbv zeta. cbn [fst snd].
    pose proof (dh_point a b bit) as Hdh. cbv zeta in Hdh.
    destruct bit; rewrite Hdh; apply xor_trunc_involutive.
  Qed.
End CoProofs.
