(* Vole.v — executable model of /repo/vole/vole.go (Sender.Mul, Receiver.Mul,
   bytes32) and /repo/vole/prg.go (prgExpandLabel), exactly as coded.

   What the code does (and the model follows): both parties run one IKNP
   extension of m labels; the receiver's choice flags are all false, so its
   labels are the sender's labels (IKNP relation t_i = s_i xor c_i*Delta with
   c_i = 0) and are not used further.  The sender derives the mask
   r_i = SetBytes(AES-CTR_{label_i}(0^32)) mod p from ITS label i.  The receiver
   sends its y-vector packed as m 32-byte big-endian blocks (bytes32); the
   sender reduces each block mod p, computes u_i = (r_i + (x_i*y_i mod p)) mod p
   and sends the u-vector packed the same way; the receiver decodes and reduces
   it.  Sender.Mul returns rs, Receiver.Mul returns us.

   The label expansion is a Section variable [expand : N -> N] (label -> the
   256-bit integer SetBytes(pad)); for execution it is instantiated either by
   [expand_aes] (Gallina AES-128 in CTR mode, Base/Aes.v) or by a table the
   harness supplies.  The IKNP labels themselves are inputs of the model (the
   extension is the subject of C06).  No proofs in this file. *)
From Coq Require Import ZArith NArith List Bool Lia.
From Mpc Require Import Gen.Consts Base.Codec Base.Aes.
Import ListNotations.
Open Scope Z_scope.

Inductive vres (A : Type) : Type :=
| VOk (a : A)
| VErr (code : Z).            (* 1 = error return, 2 = panic, 3 = parties disagree on m (not modelled further) *)
Arguments VOk {A} a.
Arguments VErr {A} code.

(* math/big Int.Mod(x, p): Euclidean modulus, result in [0, |p|); p = 0 panics
   (the callers below test that first). *)
Definition gomod (x p : Z) : Z := x mod Z.abs p.

(* vole.bytes32: out := make([]byte, 32); b := v.Bytes() (big-endian absolute
   value, minimal length); copy(out[32-len(b):], b) — the slice expression
   panics when len(b) > 32. *)
Definition bytes32 (v : Z) : option (list N) :=
  let b := big_bytes (Z.abs_N v) in
  if (length b <=? 32)%nat then Some (repeat 0%N (32 - length b) ++ b) else None.

(* new(big.Int).SetBytes(block) *)
Definition set_bytes (l : list N) : Z := Z.of_N (of_be l).

(* the i-th 32-byte block of a packed vector, i < m *)
Fixpoint blocks32 (m : nat) (l : list N) : list (list N) :=
  match m with
  | O => []
  | S m' => firstn 32 l :: blocks32 m' (skipn 32 l)
  end.

(* out = append(out, bytes32(v)...) over a vector; None = bytes32 panicked *)
Fixpoint pack32 (vs : list Z) : option (list N) :=
  match vs with
  | [] => Some []
  | v :: t =>
      match bytes32 v, pack32 t with
      | Some a, Some b => Some (a ++ b)
      | _, _ => None
      end
  end.

(* decode a packed vector of m blocks and reduce every element (both Mul
   functions: SetBytes(yb[off:off+32]) then Mod(p)) *)
Definition unpack32 (m : nat) (p : Z) (l : list N) : list Z :=
  map (fun b => gomod (set_bytes b) p) (blocks32 m l).

(* u_i = (r_i + (x_i * y_i mod p)) mod p, y_i already reduced *)
Definition u_of (p r x y : Z) : Z := gomod (r + gomod (x * y) p) p.

(* the loop "for i := 0; i < m; i++" over rs, inputs, ys (all of length m) *)
Fixpoint sender_us (p : Z) (rs xs ys : list Z) : list Z :=
  match rs, xs, ys with
  | r :: rs', x :: xs', y :: ys' => u_of p r x y :: sender_us p rs' xs' ys'
  | _, _, _ => []
  end.

Section Vole.
  (* prgExpandLabel followed by SetBytes: label -> integer below 2^256 *)
  Variable expand : N -> N.

  (* rs[i] = SetBytes(pad(labels[i])) mod p *)
  Definition mask (p : Z) (label : N) : Z := gomod (Z.of_N (expand label)) p.

  (* Sender.Mul(inputs, p) given the labels iknp.Send(m) returned and the
     y-vector message it then receives: result (rs, u-vector message). *)
  Definition sender_mul (labels : list N) (inputs : list Z) (p : Z) (yb : list N)
    : vres (list Z * list N) :=
    let m := length inputs in
    if (m =? 0)%nat then VOk ([], [])
    else if negb (length labels =? m)%nat then VErr 1
    else if p =? 0 then VErr 2
    else
      let rs := map (mask p) labels in
      if negb (length yb =? m * 32)%nat then VErr 1
      else
        let ys := unpack32 m p yb in
        match pack32 (sender_us p rs inputs ys) with
        | None => VErr 2
        | Some out => VOk (rs, out)
        end.

  (* Receiver.Mul, first half: the labels of iknp.Receive(flags = all false)
     are length-checked and otherwise unused; the message sent is the packed
     input vector (inputs are NOT reduced mod p here). *)
  Definition receiver_y (labels : list N) (inputs : list Z) : vres (list N) :=
    let m := length inputs in
    if (m =? 0)%nat then VOk []
    else if negb (length labels =? m)%nat then VErr 1
    else match pack32 inputs with
         | None => VErr 2
         | Some yb => VOk yb
         end.

  (* Receiver.Mul, second half: decode the u-vector message. *)
  Definition receiver_us (m : nat) (p : Z) (ub : list N) : vres (list Z) :=
    if negb (length ub =? m * 32)%nat then VErr 1
    else if p =? 0 then VErr 2
    else VOk (unpack32 m p ub).

  Record vole_out : Type := mkVoleOut {
    vo_rs : list Z;      (* Sender.Mul result *)
    vo_yb : list N;      (* bytes of the receiver's y-vector message *)
    vo_ub : list N;      (* bytes of the sender's u-vector message *)
    vo_us : list Z       (* Receiver.Mul result *)
  }.

  (* One Sender.Mul(xs, p) against one Receiver.Mul(ys, p).  slabels/rlabels:
     what IKNPSender.Send(m) / IKNPReceiver.Receive(false^m) returned. *)
  Definition vole_session (slabels rlabels : list N) (xs ys : list Z) (p : Z) : vres vole_out :=
    let m := length xs in
    if negb (length ys =? m)%nat then VErr 3
    else if (m =? 0)%nat then VOk (mkVoleOut [] [] [] [])
    else
      match receiver_y rlabels ys with
      | VErr c => VErr c
      | VOk yb =>
          match sender_mul slabels xs p yb with
          | VErr c => VErr c
          | VOk (rs, ub) =>
              match receiver_us m p ub with
              | VErr c => VErr c
              | VOk us => VOk (mkVoleOut rs yb ub us)
              end
          end
      end.
End Vole.

(* prgExpandLabel(key = label.GetData (D0 then D1, big-endian), out):
   AES-128-CTR with a zero IV over 32 zero bytes = E_k(0) || E_k(1); the
   caller reads it with SetBytes (big-endian). *)
Definition expand_aes (label : N) : N :=
  let rks := aes_schedule (be_bytes 16 (label mod 2 ^ 128)) in
  (aes_pi rks 0 * 2 ^ 128 + aes_pi rks 1)%N.

(* expansion given as data: the pad of the first occurrence of the label *)
Fixpoint expand_table (tbl : list (N * N)) (label : N) : N :=
  match tbl with
  | [] => 0%N
  | (l, v) :: t => if N.eqb l label then v else expand_table t label
  end.

(* IKNP chunking of an m-label extension (ot/iknp.go receive/send): the
   byte-row count of every chunk the receiver sends (K*byteRows bytes each). *)
Fixpoint iknp_chunks (fuel : nat) (n : Z) : list Z :=
  match fuel with
  | O => []
  | S f =>
      if n <=? 0 then []
      else let rows := Z.min ot_chunkRows n in
           (rows + 7) / 8 :: iknp_chunks f (n - rows)
  end.

Definition zsum (l : list Z) : Z := fold_right Z.add 0 l.

(* bytes each party writes to the p2p.Conn during one Mul of m > 0 elements
   (SendData = uint32 length prefix + payload) *)
Definition receiver_traffic (m : Z) : Z :=
  zsum (map (fun br => 4 + ot_K * br) (iknp_chunks (Z.to_nat m) m)) + 4 + 32 * m.
Definition sender_traffic (m : Z) : Z := 4 + 32 * m.
