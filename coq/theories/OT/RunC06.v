(* RunC06.v — executable entry point of the C06 models for the correspondence
   check.  The first atom of the input selects the sub-model:

   1  IKNP session  (1 (seed0 x128) (seed1 x128) Delta (op ...))
        op = (0 (choice bit ...) mal b0 b1)            Receive ‖ Send
           | (1 n (choice word ...) (Rs0 word ...) (Rr0 word ...))   ReceiveBits ‖ SendBits
      output ((chunks sent rcvd) | (chunks Rs-words Rr-words) ...); a chunk
      (the SendData payload) is printed as its 16-byte groups.
      The column PRG streams are AES-128-CTR key streams (zero IV) keyed by
      the seeds, which is what ot.newPrg builds.
   5  the same, with the column key streams given as data:
      (5 (g0 stream x128) (g1 stream x128) Delta (op ...)), stream i = the number
      sum_p byte_p * 256^p of the AES-CTR key-stream bytes the harness computed
      the way ot.newPrg does (the bulk of the cases; Gallina AES is slow)
   2  COT / ROT on one initialised instance (ot/cot.go, ot/rot.go):
      (2 rot (g0 stream x128) (g1 stream x128) Delta (batch ...)),
      batch = ((flag ...) mal b0 b1 seed ((L0 L1) ...)); the MITCCRH block
      cipher is the Gallina AES under the key (tweak as D0) xor seed.
      output per batch: COT ((the 2n labels sent) (result ...)),
                        ROT (((L0 L1) ...) (result ...))
   3  xor layer of Encrypt/DecryptCOCiphertexts on the real masks:
      (3 ((mask0 mask1) ...) (receiver mask ...) (bit ...) ((L0 L1) ...))
      output (((Zero One) ...) (label ...))
   4  RSA OT (ot/rsa.go), one RSA.Send ‖ RSA.Receive batch:
      (4 n e d msz mode ((base exp result) ...) ((l0 l1 x0 x1 k flag) ...));
      mode 0: the model exponentiates itself (Rsa.Zpowmod; small keys),
      mode 1: mpint.Exp is the given table of math/big results (real key sizes)
      output ((v m0' m1' label) ...) — the three integers on the wire and the result
   6  CO single transfer (COSenderXfer / COReceiverXfer) on byte strings:
      (6 (mask0 byte ...) (mask1 byte ...) (receiver mask byte ...) bit (m0 byte ...) (m1 byte ...))
      output ((e0 byte ...) (e1 byte ...) (received byte ...))
   7  ot/label.go, every helper on one input (OT/LabelWire.v):
      (7 (D0 D1) (O0 O1) tweak i (data byte ...)), output = the list of results in
      the order of harness/c06ext.go c06LabelCase
   8  wire format of a CO session (ot/co.go) and the deriveMask inputs:
      (8 (name byte ...) (Ax Ay) ((X Y) ...) (((Z0 Z1) (O0 O1)) ...) ((x y index) ...))
      output (((dir (byte ...)) ...) ((preimage byte ...) ...))                 *)
From Coq Require Import ZArith NArith List Bool Arith.
From Mpc Require Import Gen.Consts Base.Sx Base.Label Base.Aes OT.Iknp OT.Cot OT.Co OT.Rsa.
From Mpc Require OT.LabelWire.
Import ListNotations.
Local Open Scope nat_scope.

(* the code as it is now: ReceiveBits with the tail bytes (commit eae031e) and
   clear(result) in SendBits/ReceiveBits (commit 7d31e72); notes/C06-findings.md *)
Definition c06_tailfix : bool := true.
Definition c06_clear : bool := true.

(* ---- AES-CTR key stream (crypto/cipher.NewCTR with a zero IV) ---------- *)
Definition ctr_stream (seed : N) (blocks : nat) : list N :=
  let rks := aes_schedule (be_bytes 16 seed) in
  flat_map (fun c => aes_encrypt_rk rks (be_bytes 16 (N.of_nat c))) (seq 0 blocks).

Definition stream_fn (ks : list (list N)) (i p : nat) : N := nth p (nth i ks []) 0%N.

(* ---- encodings ---------------------------------------------------------- *)
Fixpoint group16 (fuel : nat) (l : list N) : list N :=
  match fuel with
  | O => []
  | S f => match l with
           | [] => []
           | _ => of_be_bytes (firstn 16 l) :: group16 f (skipn 16 l)
           end
  end.
Definition sx_of_chunk (ch : list N) : sx := ofLN (group16 (length ch) ch).

Definition N_of_words (ws : list N) : N :=
  fold_right (fun w acc => (N.land w 18446744073709551615 + 18446744073709551616 * acc)%N) 0%N ws.
Definition words_of_N (R : N) (m : nat) : list N :=
  map (fun k => N.land (N.shiftr R (64 * N.of_nat k)) 18446744073709551615) (seq 0 m).

Definition op_of_sx (s : sx) : op :=
  if Z.eqb (getZ (nthx 0 s)) 0 then
    OpLabels (getLB (nthx 1 s))
             (if getB (nthx 2 s) then Some (getN (nthx 3 s), getN (nthx 4 s)) else None)
  else
    OpBits (getnat (nthx 1 s)) (N_of_words (getLN (nthx 2 s)))
           (N_of_words (getLN (nthx 3 s))) (N_of_words (getLN (nthx 4 s))).

(* key-stream bytes one column needs for an operation (upper bound) *)
Definition op_need (o : op) : nat :=
  match o with
  | OpLabels b mal => length b / 8 + 2 + match mal with Some _ => 32 | None => 0 end
  | OpBits n _ _ _ => n / 8 + 2
  end.

Definition sx_of_res (o : sx) (r : opres) : sx :=
  match r with
  | ResLabels us sent rcvd _ _ => SL [SL (map sx_of_chunk us); ofLN sent; ofLN rcvd]
  | ResBits us Rs Rr =>
      SL [SL (map sx_of_chunk us);
          ofLN (words_of_N Rs (length (getL (nthx 3 o))));
          ofLN (words_of_N Rr (length (getL (nthx 4 o))))]
  end.

Fixpoint bytes_le (len : nat) (x : N) : list N :=
  match len with
  | O => []
  | S l => N.land x 255 :: bytes_le l (N.shiftr x 8)
  end.

Definition run_iknp (as_data : bool) (inp : sx) : sx :=
  let ops_sx := getL (nthx 4 inp) in
  let ops := map op_of_sx ops_sx in
  let need := fold_left (fun a o => a + op_need o) ops 0 in
  let blocks := need / 16 + 1 in
  let mk := fun s => if as_data then bytes_le need s else ctr_stream s blocks in
  let ks0 := map mk (getLN (nthx 1 inp)) in
  let ks1 := map mk (getLN (nthx 2 inp)) in
  let Delta := getN (nthx 3 inp) in
  match run_ops (stream_fn ks0) (stream_fn ks1) Delta c06_tailfix c06_clear (0, 0) ops with
  | None => sx_err 2
  | Some (rs, _) => SL (map (fun p => sx_of_res (fst p) (snd p)) (combine ops_sx rs))
  end.

(* ---- COT / ROT ----------------------------------------------------------- *)
Definition wire_of_sx (s : sx) : wire := mkWire (getN (nthx 0 s)) (getN (nthx 1 s)).
Definition sx_of_wire (w : wire) : sx := SL [ofN (L0 w); ofN (L1 w)].

(* renewKeys: key = Label{D0: gid, D1: 0} xor startPoint *)
Definition mitccrh_E (seed : N) (n : nat) : N -> N -> N :=
  let scheds := map (fun g => aes_schedule (be_bytes 16 (N.lxor (N.shiftl (N.of_nat g mod 2 ^ 64) 64) seed)))
                    (seq 0 (n + 8)) in
  fun gid x => aes_pi (nth (N.to_nat gid) scheds []) x.

Fixpoint run_cot_batches (rot : bool) (g0 g1 : nat -> nat -> N) (Delta : N) (st : nat * nat) (bs : list sx)
  : list sx :=
  match bs with
  | [] => []
  | b :: rest =>
      let flags := getLB (nthx 0 b) in
      let mal := if getB (nthx 1 b) then Some (getN (nthx 2 b), getN (nthx 3 b)) else None in
      let E := mitccrh_E (getN (nthx 4 b)) (length flags) in
      let wires := map wire_of_sx (getL (nthx 5 b)) in
      match run_op g0 g1 Delta c06_tailfix c06_clear st (OpLabels flags mal) with
      | Some (ResLabels _ data rcvd _ _, st') =>
          let out :=
            if rot then
              match rot_send E Delta data (length flags), rot_receive E rcvd (length flags) with
              | Some ws, Some res => SL [SL (map sx_of_wire ws); ofLN res]
              | _, _ => sx_err 4
              end
            else
              match cot_send E Delta data wires with
              | Some msgs =>
                  match cot_receive E rcvd flags msgs with
                  | Some res => SL [ofLN msgs; ofLN res]
                  | None => sx_err 5
                  end
              | None => sx_err 4
              end in
          out :: run_cot_batches rot g0 g1 Delta st' rest
      | _ => [sx_err 3]
      end
  end.

Definition run_cot (inp : sx) : sx :=
  let bs := getL (nthx 5 inp) in
  let need := fold_left (fun a b => a + length (getL (nthx 0 b)) / 8 + 2 + (if getB (nthx 1 b) then 32 else 0)) bs 0 in
  let ks0 := map (bytes_le need) (getLN (nthx 2 inp)) in
  let ks1 := map (bytes_le need) (getLN (nthx 3 inp)) in
  SL (run_cot_batches (getB (nthx 1 inp)) (stream_fn ks0) (stream_fn ks1) (getN (nthx 4 inp)) (0, 0) bs).

(* ---- CO xor layer ---------------------------------------------------------- *)
Definition pair_of_sx (s : sx) : N * N := (getN (nthx 0 s), getN (nthx 1 s)).
Definition run_co (inp : sx) : sx :=
  let cts := enc_masks (map pair_of_sx (getL (nthx 1 inp))) (map wire_of_sx (getL (nthx 4 inp))) in
  let res := dec_masks (getLN (nthx 2 inp)) (getLB (nthx 3 inp)) cts in
  SL [SL (map (fun c => SL [ofN (fst c); ofN (snd c)]) cts); ofLN res].

(* ---- RSA -------------------------------------------------------------------- *)
Definition pow_table (tab : list sx) (x y : Z) : Z :=
  match find (fun t => Z.eqb (getZ (nthx 0 t)) x && Z.eqb (getZ (nthx 1 t)) y) tab with
  | Some t => getZ (nthx 2 t)
  | None => (-1)%Z
  end.

Definition run_rsa (inp : sx) : sx :=
  let n := getZ (nthx 1 inp) in
  let e := getZ (nthx 2 inp) in
  let d := getZ (nthx 3 inp) in
  let msz := getnat (nthx 4 inp) in
  let powmod := if getB (nthx 5 inp) then pow_table (getL (nthx 6 inp)) else (fun x y => Zpowmod x y n) in
  SL (map (fun t =>
             match rsa_transfer n e d msz powmod (getZ (nthx 0 t)) (getZ (nthx 1 t)) (getZ (nthx 2 t))
                                (getZ (nthx 3 t)) (getZ (nthx 4 t)) (getB (nthx 5 t)) with
             | Some (v, m0p, m1p, r) => SL [SZ v; SZ m0p; SZ m1p; SZ r]
             | None => sx_err 6
             end) (getL (nthx 7 inp))).

(* ---- CO single transfer ------------------------------------------------------ *)
Definition run_co_xfer (inp : sx) : sx :=
  let e := xfer_encrypt (getLN (nthx 1 inp)) (getLN (nthx 2 inp)) (getLN (nthx 5 inp)) (getLN (nthx 6 inp)) in
  SL [ofLN (fst e); ofLN (snd e); ofLN (xfer_decrypt (getLN (nthx 3 inp)) (getB (nthx 4 inp)) (fst e) (snd e))].

(* ---- ot/label.go helpers ------------------------------------------------------ *)
Definition lw_of_sx (s : sx) : Mpc.OT.LabelWire.Label := Mpc.OT.LabelWire.mkLabel (getN (nthx 0 s)) (getN (nthx 1 s)).
Definition sx_of_lw (l : Mpc.OT.LabelWire.Label) : sx := SL [ofN (Mpc.OT.LabelWire.D0 l); ofN (Mpc.OT.LabelWire.D1 l)].

Definition run_label (inp : sx) : sx :=
  let l := lw_of_sx (nthx 1 inp) in
  let o := lw_of_sx (nthx 2 inp) in
  let t := getN (nthx 3 inp) in
  let i := getnat (nthx 4 inp) in
  let bs := getLN (nthx 5 inp) in
  SL [ofB (Mpc.OT.LabelWire.Equal l o); ofB (Mpc.OT.LabelWire.Equal l l); sx_of_lw (Mpc.OT.LabelWire.NewTweak t); ofB (Mpc.OT.LabelWire.GetS l);
      sx_of_lw (Mpc.OT.LabelWire.SetS l true); sx_of_lw (Mpc.OT.LabelWire.SetS l false); sx_of_lw (Mpc.OT.LabelWire.Mul2 l); sx_of_lw (Mpc.OT.LabelWire.Mul4 l);
      sx_of_lw (Mpc.OT.LabelWire.Xor l o); sx_of_lw (Mpc.OT.LabelWire.And l o); ofLN (Mpc.OT.LabelWire.GetData l);
      sx_of_lw (Mpc.OT.LabelWire.SetData (firstn 16 bs)); sx_of_lw (Mpc.OT.LabelWire.SetBytes bs); sx_of_lw (Mpc.OT.LabelWire.NewLabel bs);
      match Mpc.OT.LabelWire.Bit l i with Some b => ofB b | None => sx_err 7 end;
      sx_of_lw (Mpc.OT.LabelWire.SetBit l i false); sx_of_lw (Mpc.OT.LabelWire.SetBit l i true);
      ofN (Mpc.OT.LabelWire.val l)].

(* ---- CO wire format ------------------------------------------------------------ *)
Definition run_co_wire (inp : sx) : sx :=
  let name := getLN (nthx 1 inp) in
  let A := pair_of_sx (nthx 2 inp) in
  let pts := map pair_of_sx (getL (nthx 3 inp)) in
  let cts := map (fun c => (lw_of_sx (nthx 0 c), lw_of_sx (nthx 1 c))) (getL (nthx 4 inp)) in
  SL [SL (map (fun m => SL [ofB (fst m); ofLN (snd m)]) (Mpc.OT.LabelWire.co_session_msgs name A pts cts));
      SL (map (fun p => ofLN (Mpc.OT.LabelWire.mask_preimage (getN (nthx 0 p)) (getN (nthx 1 p)) (getN (nthx 2 p))))
              (getL (nthx 5 inp)))].

Definition run_c06 (inp : sx) : sx :=
  let tag := getZ (nthx 0 inp) in
  if Z.eqb tag 1 then run_iknp false inp
  else if Z.eqb tag 5 then run_iknp true inp
  else if Z.eqb tag 2 then run_cot inp
  else if Z.eqb tag 3 then run_co inp
  else if Z.eqb tag 4 then run_rsa inp
  else if Z.eqb tag 6 then run_co_xfer inp
  else if Z.eqb tag 7 then run_label inp
  else if Z.eqb tag 8 then run_co_wire inp
  else sx_err 1.
