(* ChiStream.v — executable model of the chi coefficient stream of the
   malicious-mode IKNP check (property C15).  Model file: definitions only;
   proofs in ChiStreamProof.v.

   Go sources mirrored (ot/iknp.go):
     newPrg        AES-CTR under the seed label, zero IV
     prg           clear(buf); c.XORKeyStream(buf, buf): the next len(buf) keystream bytes
     prgLabels     for i := range labels { prg(c, buf[:16]); labels[i].SetBytes(buf) }
     the block loops of IKNPSender.Send / IKNPReceiver.Receive (malicious):
        var chi [1024]Label
        for i := 0; i < len(result); i += len(chi) {
            count := min(len(result)-i, len(chi))
            prgLabels(chiPrg, chi[:count])
            vectorInnPrdtSumNoRed(chi[:count], result[i:])        // chi[j] * result[i+j]
            (receiver) chi[j].And(select b[i+j]); x.Xor(chi[j])   // in place
        }
        prgLabels(chiPrg, chi[:256])  ...                          // the check batch
   (ot/label.go: Label.SetBytes / Label.Bytes.)

   Kos.v takes the coefficients as an arbitrary function [chi_of seed i]; this
   file models where they come from: the cipher.Stream is a position in a
   keystream whose 16-byte block number c is [blk c] (AES_seed(counter c) in
   Go; an arbitrary function here), the chi array is a list that is
   overwritten IN PLACE on a prefix (entries >= count keep the labels of the
   previous block), and the loops above are run with that state. *)
From Coq Require Import NArith List Bool Arith.
From Mpc Require Import OT.Gf128 OT.Kos.
Import ListNotations.

Section Stream.
Variable blk : nat -> list N.     (* keystream block c: 16 bytes *)

(* byte p of the keystream of cipher.NewCTR(block, zeroIV) *)
Definition ks_byte (p : nat) : N := nth (p mod 16) (blk (p / 16)) 0%N.

(* prg(c, buf) with the stream at byte position pos: (buf, new position) *)
Definition prg_read (pos len : nat) : list N * nat := (map ks_byte (seq pos len), pos + len).

(* Label.SetBytes: D0 = BigEndian(data[0:8]), D1 = BigEndian(data[8:16]);
   label as a number in polynomial order D0 + 2^64*D1 *)
Definition be_val (l : list N) : N := fold_left (fun acc b => (acc * 256 + b)%N) l 0%N.
Definition label_set_bytes (d : list N) : N :=
  (be_val (firstn 8 d) + 2 ^ 64 * be_val (firstn 8 (skipn 8 d)))%N.

(* prgLabels(c, arr[:count]): the first count entries are overwritten, the
   rest of the array keeps its content (count > len(arr) is a slice-bounds
   panic in Go; it does not occur: count <= len(chi)) *)
Fixpoint prg_labels (pos count : nat) (arr : list N) : list N * nat :=
  match count, arr with
  | S c, _ :: r =>
      let '(buf, pos1) := prg_read pos 16 in
      let '(r', pos2) := prg_labels pos1 c r in
      (label_set_bytes buf :: r', pos2)
  | _, _ => (arr, pos)
  end.

(* vectorInnPrdtSumNoRed(chi[:count], result[i:]): coefficient j meets row i+j *)
Fixpoint pairs_from (i : nat) (cs : list N) : list (N * nat) :=
  match cs with
  | [] => []
  | c :: r => (c, i) :: pairs_from (S i) r
  end.

(* the sender's block loop: the (coefficient, payload row index) pairs that
   are multiplied, the array afterwards, the stream position afterwards *)
Fixpoint chi_loop (fuel pos : nat) (arr : list N) (i n : nat) : list (N * nat) * list N * nat :=
  match fuel with
  | O => ([], arr, pos)
  | S f =>
      if n <=? i then ([], arr, pos)
      else
        let count := min (n - i) (length arr) in
        let '(arr1, pos1) := prg_labels pos count arr in
        let '(ps, arr2, pos2) := chi_loop f pos1 arr1 (i + length arr) n in
        (pairs_from i (firstn count arr1) ++ ps, arr2, pos2)
  end.

(* payload loop then the check batch: (payload pairs, check pairs, position) *)
Definition chi_schedule (pos : nat) (arr : list N) (n : nat) : list (N * nat) * list (N * nat) * nat :=
  let '(ps, arr1, pos1) := chi_loop (S n) pos arr 0 n in
  let '(arr2, pos2) := prg_labels pos1 checkRows arr1 in
  (ps, pairs_from 0 (firstn checkRows arr2), pos2).

(* the receiver's selection loop: chi[j].And(select); x.Xor(chi[j]) — in place *)
Fixpoint mask_sel (cs : list N) (bs : list bool) : list N :=
  match cs, bs with
  | c :: r, b :: bs' => N.land c (sel b) :: mask_sel r bs'
  | _, _ => cs
  end.
Definition xor_all (l : list N) : N := fold_right N.lxor 0%N l.

(* the receiver's block loop over the choices still to be processed:
   (x contribution, array, position) *)
Fixpoint chi_x_loop (fuel pos : nat) (arr : list N) (bs : list bool) : N * list N * nat :=
  match fuel with
  | O => (0%N, arr, pos)
  | S f =>
      match bs with
      | [] => (0%N, arr, pos)
      | _ =>
          let count := min (length bs) (length arr) in
          let '(arr1, pos1) := prg_labels pos count arr in
          let masked := mask_sel (firstn count arr1) (firstn count bs) in
          let arr1' := masked ++ skipn count arr1 in
          let '(x, arr2, pos2) := chi_x_loop f pos1 arr1' (skipn (length arr) bs) in
          (N.lxor (xor_all masked) x, arr2, pos2)
      end
  end.

(* x of IKNPReceiver.Receive(b, result, true) *)
Definition receiver_x (pos : nat) (arr : list N) (b bcv : list bool) : N * nat :=
  let '(x1, arr1, pos1) := chi_x_loop (S (length b)) pos arr b in
  let '(arr2, pos2) := prg_labels pos1 (length bcv) arr1 in
  (N.lxor x1 (xor_all (mask_sel (firstn (length bcv) arr2) bcv)), pos2).

(* the label the stream yields when 16 bytes are drawn at byte position p *)
Definition lab_at (p : nat) : N := label_set_bytes (map ks_byte (seq p 16)).

(* the label made of one whole keystream block *)
Definition lab_block (c : nat) : N := label_set_bytes (map (fun t => nth t (blk c) 0%N) (seq 0 16)).

End Stream.

(* var chi [1024]Label: zero-initialised *)
Definition chi_array0 : list N := repeat 0%N chiBlock.
