(* RsaProof.v — RSA OT delivers the chosen label, from (m^e)^d mod n = m;
   the fixed-width left-padding lemma (be_fixed_of_be) and the PKCS#1 block
   round trip (parse_encryption_block). *)
From Coq Require Import ZArith List Bool Arith Lia Zpow_facts.
From Mpc Require Import OT.Rsa.
Import ListNotations.
Local Open Scope Z_scope.

Definition is_byte (b : Z) : Prop := 0 <= b < 256.

Lemma le_fixed_of_le l : Forall is_byte l -> le_fixed (length l) (of_le l) = l.
Proof.
  induction 1 as [|b l Hb _ IH]; [reflexivity|].
  cbn [length le_fixed of_le]. unfold is_byte in Hb.
  assert (Hm : forall x, (b + 256 * x) mod 256 = b) by (intros; Z.div_mod_to_equations; lia).
  assert (Hd : forall x, (b + 256 * x) / 256 = x) by (intros; Z.div_mod_to_equations; lia).
  rewrite Hm, Hd.
  rewrite IH. reflexivity.
Qed.

(* the fixed-width left-padding lemma: re-encoding the integer of a byte
   block at the block's width gives the block back (leading zeros included) *)
Lemma be_fixed_of_be l : Forall is_byte l -> be_fixed (length l) (of_be l) = l.
Proof.
  intros H. unfold be_fixed, of_be. rewrite <- (rev_length l).
  rewrite le_fixed_of_le by (apply Forall_rev; assumption). apply rev_involutive.
Qed.

Lemma le_fixed_length m v : length (le_fixed m v) = m.
Proof. revert v. induction m; intros v; simpl; auto. Qed.

Lemma le_fixed_bytes m v : Forall is_byte (le_fixed m v).
Proof.
  revert v. induction m; intros v; simpl; constructor; auto.
  unfold is_byte. apply Z.mod_pos_bound. lia.
Qed.

Lemma of_le_le_fixed m v : 0 <= v < 256 ^ Z.of_nat m -> of_le (le_fixed m v) = v.
Proof.
  revert v. induction m as [|m IH]; intros v Hv.
  - simpl in *. lia.
  - cbn [le_fixed of_le]. rewrite Nat2Z.inj_succ, Z.pow_succ_r in Hv by lia.
    rewrite IH.
    + pose proof (Z.div_mod v 256). lia.
    + split; [apply Z.div_pos; lia|]. apply Z.div_lt_upper_bound; lia.
Qed.

Lemma of_be_be_fixed m v : 0 <= v < 256 ^ Z.of_nat m -> of_be (be_fixed m v) = v.
Proof. intros H. unfold of_be, be_fixed. rewrite rev_involutive. apply of_le_le_fixed. assumption. Qed.

Lemma be_fixed_length m v : length (be_fixed m v) = m.
Proof. unfold be_fixed. rewrite rev_length. apply le_fixed_length. Qed.

Lemma be_fixed_bytes m v : Forall is_byte (be_fixed m v).
Proof. unfold be_fixed. apply Forall_rev. apply le_fixed_bytes. Qed.

(* PKCS#1 block type 1: parse (new block) = data *)
Lemma after_zero_pad padLen data : after_zero (repeat 255 padLen ++ 0 :: data) = Some data.
Proof. induction padLen; simpl; auto. Qed.

Lemma parse_encryption_block blockLen data eb :
  encryption_block blockLen data = Some eb ->
  parse_block eb = Some data /\ length eb = blockLen /\ (Forall is_byte data -> Forall is_byte eb).
Proof.
  unfold encryption_block. destruct (Nat.ltb_spec blockLen (3 + length data + 8)); [discriminate|].
  intros E. inversion E; subst eb; clear E.
  split; [|split].
  - unfold parse_block. cbn [length]. rewrite app_length, repeat_length. cbn [length].
    destruct (Nat.ltb_spec (S (S (blockLen - 3 - length data + S (length data)))) 4); [lia|].
    cbn. apply after_zero_pad.
  - cbn [length]. rewrite app_length, repeat_length. cbn [length]. lia.
  - intros Hd. constructor; [unfold is_byte; lia|]. constructor; [unfold is_byte; lia|].
    apply Forall_app. split.
    + apply Forall_forall. intros x Hx. apply repeat_spec in Hx. subst. unfold is_byte. lia.
    + constructor; [unfold is_byte; lia|assumption].
Qed.

(* the executable exponentiation is exponentiation *)
Lemma powmod_pos_spec x p m : 0 < m -> powmod_pos x p m = (x ^ Zpos p) mod m.
Proof.
  intros Hm. induction p as [p IH|p IH|].
  - cbn [powmod_pos]. rewrite IH.
    replace (Zpos p~1) with (Zpos p + Zpos p + 1) by lia.
    rewrite !Z.pow_add_r, Z.pow_1_r by lia.
    rewrite Z.mul_mod_idemp_l by lia.
    set (X := x ^ Z.pos p).
    rewrite (Z.mul_mod (X mod m * (X mod m)) x), (Z.mul_mod (X * X) x) by lia.
    rewrite <- (Z.mul_mod X X) by lia. reflexivity.
  - cbn [powmod_pos]. rewrite IH.
    replace (Zpos p~0) with (Zpos p + Zpos p) by lia.
    rewrite Z.pow_add_r by lia. rewrite <- Z.mul_mod by lia. reflexivity.
  - cbn [powmod_pos]. rewrite Z.pow_1_r. reflexivity.
Qed.

Lemma Zpowmod_spec x y m : 0 < m -> Zpowmod x y m = (x ^ y) mod m.
Proof.
  intros Hm. destruct y as [|p|p]; cbn [Zpowmod].
  - reflexivity.
  - rewrite powmod_pos_spec by assumption. symmetry. apply Zpower_mod. assumption.
  - reflexivity.
Qed.

Example Zpowmod_kat : Zpowmod (-7) 1031 1000003 = ((-7) ^ 1031) mod 1000003.
Proof. vm_compute. reflexivity. Qed.

Section RsaProofs.
  Variables n e d : Z.
  Variable msz : nat.
  Variable powmod : Z -> Z -> Z.
  Hypothesis n_pos : 0 < n.
  Hypothesis powmod_spec : forall x y, powmod x y = (x ^ y) mod n.
  (* RSA correctness for this key pair *)
  Hypothesis rsa_inv : forall m, 0 <= m < n -> ((m ^ e) ^ d) mod n = m.
  Hypothesis msz_ok : (27 <= msz)%nat.     (* room for 3 + 8 padding bytes and a 16-byte label *)

  (* the sender recovers the receiver's k for the chosen index *)
  Lemma send_k_chosen xb k : 0 <= k < n -> send_k d powmod (recv_v n e powmod xb k) xb = k.
  Proof.
    intros Hk. unfold send_k, recv_v. rewrite !powmod_spec.
    rewrite Zpower_mod by assumption.
    rewrite Zminus_mod_idemp_l.
    replace (xb + k ^ e mod n - xb) with (k ^ e mod n) by lia.
    rewrite Z.mod_mod by lia.
    rewrite <- Zpower_mod by assumption.
    apply rsa_inv. assumption.
  Qed.

  Lemma send_recv_msg label v x k :
    0 <= label < 2 ^ 128 -> send_k d powmod v x = k ->
    exists mp, send_msg d msz powmod label v x = Some mp /\ recv_msg msz mp k = Some label.
  Proof.
    intros Hl Hk. unfold send_msg.
    destruct (encryption_block msz (be_fixed 16 label)) as [eb|] eqn:Eeb.
    2:{ unfold encryption_block in Eeb. rewrite be_fixed_length in Eeb.
        destruct (Nat.ltb_spec msz (3 + 16 + 8)); [lia|discriminate]. }
    destruct (parse_encryption_block _ _ _ Eeb) as (Hp & Hlen & Hb).
    exists (of_be eb + send_k d powmod v x). split; [reflexivity|].
    unfold recv_msg. rewrite Hk.
    replace (of_be eb + k - k) with (of_be eb) by lia.
    rewrite <- Hlen. rewrite be_fixed_of_be by (apply Hb, be_fixed_bytes).
    rewrite Hp. f_equal. apply of_be_be_fixed. change (256 ^ Z.of_nat 16) with (2 ^ 128). assumption.
  Qed.

  (* RSA OT: for every pair of labels, every random x0 x1 (any integers),
     every receiver random k in [0, n) and either choice, the receiver ends
     with exactly the chosen label *)
  Theorem rsa_correct l0 l1 x0 x1 k (flag : bool) :
    0 <= l0 < 2 ^ 128 -> 0 <= l1 < 2 ^ 128 -> 0 <= k < n ->
    exists v m0p m1p,
      rsa_transfer n e d msz powmod l0 l1 x0 x1 k flag = Some (v, m0p, m1p, if flag then l1 else l0).
  Proof.
    intros H0 H1 Hk. unfold rsa_transfer. cbv zeta.
    set (v := recv_v n e powmod (if flag then x1 else x0) k).
    destruct flag.
    - destruct (send_recv_msg l1 v x1 k H1 (send_k_chosen x1 k Hk)) as (m1p & Hs1 & Hr1).
      destruct (send_msg d msz powmod l0 v x0) as [m0p|] eqn:Hs0.
      + exists v, m0p, m1p. rewrite Hs1, Hr1. reflexivity.
      + unfold send_msg in Hs0.
        destruct (encryption_block msz (be_fixed 16 l0)) eqn:Eeb; [discriminate|].
        unfold encryption_block in Eeb. rewrite be_fixed_length in Eeb.
        destruct (Nat.ltb_spec msz (3 + 16 + 8)); [lia|discriminate].
    - destruct (send_recv_msg l0 v x0 k H0 (send_k_chosen x0 k Hk)) as (m0p & Hs0 & Hr0).
      destruct (send_msg d msz powmod l1 v x1) as [m1p|] eqn:Hs1.
      + exists v, m0p, m1p. rewrite Hs0, Hr0. reflexivity.
      + unfold send_msg in Hs1.
        destruct (encryption_block msz (be_fixed 16 l1)) eqn:Eeb; [discriminate|].
        unfold encryption_block in Eeb. rewrite be_fixed_length in Eeb.
        destruct (Nat.ltb_spec msz (3 + 16 + 8)); [lia|discriminate].
  Qed.
End RsaProofs.

(* the same with the executable exponentiation: no hypothesis about powmod left *)
Theorem rsa_correct_exec n e d msz :
  0 < n -> (forall m, 0 <= m < n -> ((m ^ e) ^ d) mod n = m) -> (27 <= msz)%nat ->
  forall l0 l1 x0 x1 k (flag : bool),
  0 <= l0 < 2 ^ 128 -> 0 <= l1 < 2 ^ 128 -> 0 <= k < n ->
  exists v m0p m1p,
    rsa_transfer n e d msz (fun x y => Zpowmod x y n) l0 l1 x0 x1 k flag
    = Some (v, m0p, m1p, if flag then l1 else l0).
Proof.
  intros Hn Hinv Hm. apply rsa_correct; auto.
  intros x y. apply Zpowmod_spec. assumption.
Qed.
