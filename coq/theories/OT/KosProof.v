(* KosProof.v — proofs about OT/Kos.v (property C15).

   Part 1  bit vectors (bits_to_N, row_of, byte_of)
   Part 2  the algebra of the check on expanded rows: the sender's 256-bit
           value is  T xor S xor (X xor x^)*Delta  (T, X the honest response
           for the sender's chi, S the error syndrome)
   Part 3  bridge: the chunk loops of receive/send produce exactly the rows
           t_i resp. q_i = t_i xor (b_i ? Delta : 0) xor (e_i & Delta)
   Part 4  the theorems of Props/C15.v *)
From Coq Require Import NArith List Bool Arith Lia.
From Mpc Require Import OT.Gf128 OT.Gf128Proof OT.Kos.
Import ListNotations.

(* ======================================================================== *)
(* Part 1: bit vectors                                                       *)
(* ======================================================================== *)

Lemma bits_to_N_testbit : forall l i, N.testbit (bits_to_N l) (N.of_nat i) = nth i l false.
Proof.
  induction l as [|b l IH]; intros i.
  - simpl. destruct i; reflexivity.
  - cbn [bits_to_N]. destruct i as [|i].
    + simpl N.of_nat. rewrite N.testbit_0_r. reflexivity.
    + rewrite Nat2N.inj_succ, N.testbit_succ_r. simpl. apply IH.
Qed.

Lemma bits_to_N_lt : forall l, (bits_to_N l < 2 ^ N.of_nat (length l))%N.
Proof.
  induction l as [|b l IH].
  - simpl. lia.
  - cbn [bits_to_N length]. rewrite Nat2N.inj_succ, N.pow_succ_r'.
    destruct b; simpl N.b2n; lia.
Qed.

Lemma nth_map_seq : forall {A} (f : nat -> A) k w d, k < w -> nth k (map f (seq 0 w)) d = f k.
Proof.
  intros A f k w d H.
  rewrite (nth_indep _ d (f 0)) by (rewrite map_length, seq_length; exact H).
  rewrite map_nth, seq_nth by exact H. reflexivity.
Qed.

Lemma row_of_testbit : forall f j, j < K -> N.testbit (row_of f) (N.of_nat j) = f j.
Proof. intros f j H. unfold row_of. rewrite bits_to_N_testbit. apply nth_map_seq. exact H. Qed.

Lemma row_of_lt : forall f, (row_of f < 2^128)%N.
Proof.
  intros f. unfold row_of.
  pose proof (bits_to_N_lt (map f (seq 0 K))) as H. rewrite map_length, seq_length in H. exact H.
Qed.

Lemma row_of_high : forall f m, (128 <= m)%N -> N.testbit (row_of f) m = false.
Proof. intros f m H. apply (proj1 (lt_pow2_bits _ 128) (row_of_lt f)). exact H. Qed.

Lemma row_of_ext : forall f g, (forall j, j < K -> f j = g j) -> row_of f = row_of g.
Proof.
  intros f g H. unfold row_of. f_equal. apply map_ext_in. intros j Hj.
  apply in_seq in Hj. apply H. lia.
Qed.

Lemma byte_of_testbit : forall f t, t < 8 -> N.testbit (byte_of f) (N.of_nat t) = f t.
Proof. intros f t H. unfold byte_of. rewrite bits_to_N_testbit. apply nth_map_seq. exact H. Qed.

(* two 128-bit labels are equal iff they agree on bits 0..127 *)
Lemma label_eq_bits : forall a b, (a < 2^128)%N -> (b < 2^128)%N ->
  (forall j, j < K -> N.testbit a (N.of_nat j) = N.testbit b (N.of_nat j)) -> a = b.
Proof.
  intros a b Ha Hb H. apply N.bits_inj; intro m.
  destruct (N.lt_ge_cases m 128) as [Hl|Hg].
  - rewrite <- (N2Nat.id m). apply H. unfold K. lia.
  - rewrite (proj1 (lt_pow2_bits a 128) Ha m Hg), (proj1 (lt_pow2_bits b 128) Hb m Hg). reflexivity.
Qed.

(* bitwise description of a row: row_of commutes with xor / and-with-Delta *)
Lemma row_of_lxor : forall f g, N.lxor (row_of f) (row_of g) = row_of (fun j => xorb (f j) (g j)).
Proof.
  intros f g. apply label_eq_bits.
  - apply lxor_lt_pow2; apply row_of_lt.
  - apply row_of_lt.
  - intros j Hj. rewrite N.lxor_spec, !row_of_testbit by exact Hj. reflexivity.
Qed.

Lemma row_of_land : forall f d,
  N.land (row_of f) d = row_of (fun j => f j && N.testbit d (N.of_nat j)).
Proof.
  intros f d. apply label_eq_bits.
  - apply lt_pow2_bits. intros m Hm. rewrite N.land_spec, row_of_high by exact Hm. reflexivity.
  - apply row_of_lt.
  - intros j Hj. rewrite N.land_spec, !row_of_testbit by exact Hj. reflexivity.
Qed.

Lemma row_of_const : forall d, (d < 2^128)%N -> row_of (fun j => N.testbit d (N.of_nat j)) = d.
Proof.
  intros d Hd. apply label_eq_bits; [apply row_of_lt | exact Hd |].
  intros j Hj. apply row_of_testbit. exact Hj.
Qed.

Lemma row_of_false : row_of (fun _ => false) = 0%N.
Proof.
  apply label_eq_bits; [apply row_of_lt | reflexivity |].
  intros j Hj. rewrite row_of_testbit by exact Hj. reflexivity.
Qed.

Lemma land_ones128 : forall x, (x < 2^128)%N -> N.land x ones128 = x.
Proof. intros x H. unfold ones128. rewrite N.land_ones. apply N.mod_small. exact H. Qed.

Lemma lowbits128_lt : forall x, (lowbits 128 x < 2^128)%N.
Proof. intros x. rewrite lowbits_mod. apply mod_lt_pow2. Qed.

(* ======================================================================== *)
(* Part 2: the algebra of the check                                          *)
(* ======================================================================== *)

(* sum_{k < cnt} chi(s+k) * q(o+k) as a 256-bit polynomial *)
Fixpoint isum (chi q : nat -> N) (s o cnt : nat) : N :=
  match cnt with
  | O => 0%N
  | S c => N.lxor (clmul (chi s) (q o)) (isum chi q (S s) (S o) c)
  end.

(* xor_{k < cnt, b(o+k)} chi(s+k) *)
Fixpoint csum (chi : nat -> N) (b : nat -> bool) (s o cnt : nat) : N :=
  match cnt with
  | O => 0%N
  | S c => N.lxor (if b o then chi s else 0%N) (csum chi b (S s) (S o) c)
  end.

Lemma inn256_isum : forall chi q n s o,
  inn256 (map chi (seq s n)) (map q (seq o n)) = isum chi q s o n.
Proof. induction n; intros s o; simpl; [reflexivity | rewrite IHn; reflexivity]. Qed.

Lemma isum_ext : forall chi q q' n s o,
  (forall i, o <= i < o + n -> q i = q' i) -> isum chi q s o n = isum chi q' s o n.
Proof.
  induction n; intros s o H; simpl; [reflexivity|].
  rewrite (H o) by lia. rewrite (IHn (S s) (S o)); [reflexivity|]. intros i Hi. apply H. lia.
Qed.

Lemma isum_lxor : forall chi q1 q2 n s o,
  isum chi (fun i => N.lxor (q1 i) (q2 i)) s o n = N.lxor (isum chi q1 s o n) (isum chi q2 s o n).
Proof.
  induction n; intros s o; simpl; [reflexivity|].
  rewrite IHn, clmul_lxor_r. rewrite !N.lxor_assoc. f_equal.
  rewrite <- !N.lxor_assoc. f_equal. apply N.lxor_comm.
Qed.

Lemma isum_choice : forall chi (b : nat -> bool) d n s o,
  isum chi (fun i => if b i then d else 0%N) s o n = clmul (csum chi b s o n) d.
Proof.
  induction n; intros s o; simpl; [reflexivity|].
  rewrite IHn, clmul_lxor_l. f_equal. destruct (b o); [reflexivity | rewrite clmul_0_r, clmul_0_l; reflexivity].
Qed.

Lemma syndrome_isum : forall chi delta e start cnt i,
  syndrome chi delta e start i cnt = isum chi (fun k => N.land (e k) delta) (start + i) i cnt.
Proof.
  induction cnt; intros i; simpl; [reflexivity|].
  rewrite IHcnt, Nat.add_succ_r. reflexivity.
Qed.

Lemma xsum_csum : forall chi (b : nat -> bool) n s o,
  (forall i, (chi i < 2^128)%N) ->
  xsum chi s (map b (seq o n)) = csum chi b s o n.
Proof.
  induction n; intros s o H; simpl; [reflexivity|].
  rewrite IHn by exact H. f_equal. destruct (b o); simpl.
  - apply land_ones128, H.
  - apply N.land_0_r.
Qed.

(* inn_prdt only reads min(len) positions *)
Lemma inn256_firstn : forall a rows, inn256 a rows = inn256 a (firstn (length a) rows).
Proof.
  induction a as [|x a IH]; intros [|y rows]; simpl; try reflexivity.
  rewrite <- IH. reflexivity.
Qed.

(* the 1024-blocked loop is the flat sum *)
Lemma inn_blocks_flat : forall fuel chi start rows, length rows <= fuel ->
  inn_blocks fuel chi start rows = split128 (inn256 (map chi (seq start (length rows))) rows).
Proof.
  induction fuel; intros chi start rows H.
  - destruct rows; [reflexivity | simpl in H; lia].
  - destruct rows as [|y rows]; [reflexivity|].
    cbn [inn_blocks]. set (R := y :: rows) in *.
    set (count := min chiBlock (length R)).
    assert (Hc1 : 1 <= count) by (unfold count, chiBlock, R; simpl; lia).
    assert (Hc2 : count <= length R) by (unfold count; lia).
    rewrite IHfuel by (rewrite skipn_length; lia).
    rewrite inn_prdt_split, <- split128_lxor. f_equal.
    assert (E1 : length (skipn count R) = length R - count) by apply skipn_length.
    rewrite E1.
    assert (E2 : seq start (length R) = seq start count ++ seq (start + count) (length R - count)).
    { rewrite <- seq_app. f_equal. lia. }
    rewrite E2, map_app.
    rewrite (inn256_firstn (map chi (seq start count)) R), map_length, seq_length.
    transitivity (inn256 (map chi (seq start count) ++ map chi (seq (start + count) (length R - count)))
                         (firstn count R ++ skipn count R)).
    + rewrite inn256_app; [reflexivity|].
      rewrite map_length, seq_length, firstn_length. lia.
    + rewrite firstn_skipn. reflexivity.
Qed.

Section Check.
  Variable chi : nat -> N.
  Variable delta : N.
  Variable n : nat.
  (* payload batch: receiver rows, choices, error rows;  check batch likewise *)
  Variables t tc : nat -> N.
  Variables b bc : nat -> bool.
  Variables e ec : nat -> N.

  Definition qrow (t : nat -> N) (b : nat -> bool) (e : nat -> N) (i : nat) : N :=
    N.lxor (N.lxor (t i) (if b i then delta else 0%N)) (N.land (e i) delta).

  (* honest response for this chi *)
  Definition honest_T : N := N.lxor (isum chi t 0 0 n) (isum chi tc n 0 checkRows).
  Definition honest_X : N := N.lxor (csum chi b 0 0 n) (csum chi bc n 0 checkRows).
  (* error syndrome *)
  Definition synd : N :=
    N.lxor (isum chi (fun k => N.land (e k) delta) 0 0 n)
           (isum chi (fun k => N.land (ec k) delta) n 0 checkRows).

  (* the 256-bit value the sender compares with (t0, t1) *)
  Definition sender_Q (xh : N) : N :=
    N.lxor (N.lxor (isum chi (qrow t b e) 0 0 n) (isum chi (qrow tc bc ec) n 0 checkRows))
           (clmul xh delta).

  Lemma isum_qrow : forall t b e s o m,
    isum chi (qrow t b e) s o m
    = N.lxor (N.lxor (isum chi t s o m) (clmul (csum chi b s o m) delta))
             (isum chi (fun k => N.land (e k) delta) s o m).
  Proof.
    intros t0 b0 e0 s o m. unfold qrow.
    rewrite (isum_lxor chi (fun i => N.lxor (t0 i) (if b0 i then delta else 0%N))).
    rewrite (isum_lxor chi t0), isum_choice. reflexivity.
  Qed.

  (* Q = T xor S xor (X xor x^) * Delta *)
  Lemma sender_Q_eq : forall xh,
    sender_Q xh = N.lxor (N.lxor honest_T synd) (clmul (N.lxor honest_X xh) delta).
  Proof.
    intros xh. unfold sender_Q, honest_T, honest_X, synd.
    rewrite !isum_qrow, !clmul_lxor_l.
    apply N.bits_inj; intro m. rewrite !N.lxor_spec.
    repeat match goal with |- context [N.testbit ?x m] =>
      is_var x || (let v := fresh "v" in generalize (N.testbit x m); intro v) end.
    repeat match goal with x : bool |- _ => destruct x end; reflexivity.
  Qed.
End Check.

(* sender_check on expanded rows = comparison of the 256-bit value Q *)
Lemma eqb_pair : forall (q : N * N) t0 t1, (N.eqb (fst q) t0 && N.eqb (snd q) t1 = true) <-> q = (t0, t1).
Proof.
  intros [a c] t0 t1; simpl. rewrite andb_true_iff, !N.eqb_eq. split.
  - intros [-> ->]; reflexivity.
  - intros H; inversion H; auto.
Qed.

Lemma sender_check_rows : forall chi delta n t tc b bc e ec xh t0h t1h,
  sender_check chi delta (map (qrow delta t b e) (seq 0 n)) (map (qrow delta tc bc ec) (seq 0 checkRows)) xh t0h t1h = true
  <-> split128 (sender_Q chi delta n t tc b bc e ec xh) = (t0h, t1h).
Proof.
  intros. unfold sender_check. rewrite eqb_pair.
  rewrite !map_length, !seq_length.
  rewrite inn_blocks_flat by (rewrite map_length, seq_length; lia).
  rewrite map_length, seq_length.
  rewrite inn_prdt_split. unfold mul128. rewrite <- !split128_lxor.
  rewrite !inn256_isum. unfold sender_Q. reflexivity.
Qed.

(* ======================================================================== *)
(* Part 3: the chunk loops produce the rows                                  *)
(* ======================================================================== *)

Lemma mapi_from_length : forall {A B} (f : nat -> A -> B) l i, length (mapi_from f i l) = length l.
Proof. induction l; intros i; simpl; [reflexivity | rewrite IHl; reflexivity]. Qed.

Lemma nth_mapi_from : forall {A B} (f : nat -> A -> B) l i k d d',
  k < length l -> nth k (mapi_from f i l) d' = f (i + k) (nth k l d).
Proof.
  induction l as [|x l IH]; intros i k d d' H; simpl in H; [lia|].
  destruct k as [|k]; simpl.
  - rewrite Nat.add_0_r. reflexivity.
  - rewrite (IH (S i) k d d') by lia. f_equal. lia.
Qed.

Lemma create_labels_cols : forall (G : nat -> nat -> N) w cnt,
  create_labels (map (fun j => map (G j) (seq 0 w)) (seq 0 K)) w cnt
  = map (fun r => row_of (fun j => N.testbit (G j (r / 8)) (N.of_nat (r mod 8)))) (seq 0 (min (8 * w) cnt)).
Proof.
  intros G w cnt. unfold create_labels. apply map_ext_in. intros r Hr.
  apply in_seq in Hr. cbv zeta. unfold row_of. rewrite map_map. f_equal.
  apply map_ext_in. intros j Hj.
  rewrite nth_map_seq; [reflexivity|].
  apply Nat.div_lt_upper_bound; lia.
Qed.

Lemma recv_chunk_col : forall g0 g1 bb ofs pos w j k, j < K -> k < w ->
  col_byte (recv_chunk g0 g1 bb ofs pos w) j k
  = N.lxor (N.lxor (g1 j (pos + k)) (g0 j (pos + k))) (bb (ofs / 8 + k)).
Proof.
  intros. unfold col_byte, recv_chunk. cbv zeta.
  rewrite (nth_map_seq _ j K []) by assumption. rewrite nth_map_seq by assumption.
  rewrite nth_map_seq by assumption. reflexivity.
Qed.

Lemma recv_chunk_shape : forall g0 g1 bb ofs pos w,
  length (recv_chunk g0 g1 bb ofs pos w) = K /\
  forall j, j < K -> length (nth j (recv_chunk g0 g1 bb ofs pos w) []) = w.
Proof.
  intros. unfold recv_chunk. cbv zeta. split.
  - rewrite map_length, seq_length. reflexivity.
  - intros j Hj. rewrite (nth_map_seq _ j K []) by assumption. rewrite map_length, seq_length. reflexivity.
Qed.

Lemma byte_of_ext : forall f g, (forall t, t < 8 -> f t = g t) -> byte_of f = byte_of g.
Proof.
  intros f g H. unfold byte_of. f_equal. apply map_ext_in. intros t Ht. apply in_seq in Ht. apply H. lia.
Qed.

Lemma tamper_col_length : forall Ej col row, length (tamper_col Ej row col) = length col.
Proof. induction col; intros row; simpl; [reflexivity | rewrite IHcol; reflexivity]. Qed.

Lemma tamper_col_nth : forall Ej col row k, k < length col ->
  nth k (tamper_col Ej row col) 0%N = N.lxor (nth k col 0%N) (byte_of (fun t => Ej (t + (8 * k + row)))).
Proof.
  induction col as [|v col IH]; intros row k Hk; simpl in Hk; [lia|].
  destruct k as [|k]; cbn [tamper_col nth].
  - reflexivity.
  - rewrite IH by lia. f_equal. apply byte_of_ext. intros t _. f_equal. lia.
Qed.

Lemma tamper_chunk_col : forall E ofs c j k, j < length c -> k < length (nth j c []) ->
  col_byte (tamper_chunk E ofs c) j k = N.lxor (col_byte c j k) (err_byte E j (ofs / 8 + k)).
Proof.
  intros E ofs c j k Hj Hk. unfold col_byte, tamper_chunk, mapi. cbv zeta.
  rewrite (nth_mapi_from _ c 0 j [] []) by assumption. cbn [Nat.add].
  rewrite tamper_col_nth by assumption. f_equal. unfold err_byte.
  apply byte_of_ext. intros t _. f_equal. lia.
Qed.

Lemma chunk_w_tamper : forall E ofs c, chunk_w (tamper_chunk E ofs c) = chunk_w c.
Proof.
  intros E ofs [|col c]; [reflexivity|].
  unfold chunk_w, tamper_chunk, mapi. cbn [mapi_from nth]. apply tamper_col_length.
Qed.

Lemma chunk_w_recv : forall g0 g1 bb ofs pos w, chunk_w (recv_chunk g0 g1 bb ofs pos w) = w.
Proof. intros. unfold chunk_w. apply (proj2 (recv_chunk_shape g0 g1 bb ofs pos w)). unfold K; lia. Qed.

Lemma map_seq_shift : forall {A} (g : nat -> A) a m, map g (seq a m) = map (fun r => g (a + r)) (seq 0 m).
Proof.
  intros A g a m. revert a g. induction m; intros a g; simpl; [reflexivity|].
  rewrite Nat.add_0_r. f_equal. rewrite (IHm (S a)), (IHm 1 (fun r => g (a + r))).
  apply map_ext. intros r. f_equal. lia.
Qed.

(* arithmetic of bit positions *)
Lemma bitpos_div : forall p r, (8 * p + r) / 8 = p + r / 8.
Proof. intros. rewrite (Nat.mul_comm 8 p), Nat.div_add_l by lia. reflexivity. Qed.
Lemma bitpos_mod : forall p r, (8 * p + r) mod 8 = r mod 8.
Proof. intros. rewrite Nat.add_comm, (Nat.mul_comm 8 p), Nat.mod_add by lia. reflexivity. Qed.
Lemma bitpos_recompose : forall o r, o mod 8 = 0 -> 8 * (o / 8 + r / 8) + r mod 8 = o + r.
Proof.
  intros o r H. pose proof (Nat.div_mod o 8). pose proof (Nat.div_mod r 8). lia.
Qed.

(* bit j of the row the sender derives: g0 bit, plus (choice xor error) where Delta selects *)
Definition q_bit (g0 : nat -> nat -> N) (delta : N) (bl : list bool) (E : nat -> nat -> bool)
           (pos ofs r j : nat) : bool :=
  xorb (sbit (g0 j) (8 * pos + r))
       (N.testbit delta (N.of_nat j) && xorb (nth (ofs + r) bl false) (E j (ofs + r))).

Lemma recv_row : forall g0 pos r,
  row_of (fun j => N.testbit (g0 j (pos + r / 8)) (N.of_nat (r mod 8))) = stream_row g0 pos r.
Proof.
  intros. unfold stream_row. apply row_of_ext. intros j _. unfold sbit.
  rewrite bitpos_div, bitpos_mod. reflexivity.
Qed.

Lemma send_row : forall g0 g1 bl delta E ofs pos w r,
  ofs mod 8 = 0 -> r < 8 * w ->
  row_of (fun j =>
    N.testbit (N.lxor (sender_streams g0 g1 delta j (pos + r / 8))
                 (if N.testbit delta (N.of_nat j)
                  then col_byte (tamper_chunk E ofs (recv_chunk g0 g1 (bbuf bl) ofs pos w)) j (r / 8)
                  else 0%N))
              (N.of_nat (r mod 8)))
  = row_of (q_bit g0 delta bl E pos ofs r).
Proof.
  intros g0 g1 bl delta E ofs pos w r Hofs Hr.
  assert (Hk : r / 8 < w) by (apply Nat.div_lt_upper_bound; lia).
  assert (Hm : r mod 8 < 8) by (apply Nat.mod_upper_bound; lia).
  apply row_of_ext. intros j Hj. unfold q_bit, sender_streams, sbit.
  rewrite bitpos_div, bitpos_mod.
  destruct (N.testbit delta (N.of_nat j)).
  - destruct (recv_chunk_shape g0 g1 (bbuf bl) ofs pos w) as [HL HW].
    rewrite tamper_chunk_col by (rewrite ?HL, ?HW; assumption).
    rewrite recv_chunk_col by assumption.
    rewrite !N.lxor_spec. unfold bbuf, err_byte.
    rewrite !byte_of_testbit by exact Hm.
    rewrite !bitpos_recompose by exact Hofs.
    destruct (N.testbit (g1 j (pos + r / 8)) (N.of_nat (r mod 8))),
             (N.testbit (g0 j (pos + r / 8)) (N.of_nat (r mod 8))),
             (nth (ofs + r) bl false), (E j (ofs + r)); reflexivity.
  - rewrite N.lxor_0_r. simpl. rewrite xorb_false_r. reflexivity.
Qed.

Lemma batch_bytes_512 : forall m, batch_bytes (512 + m) = 64 + batch_bytes m.
Proof. intros. unfold batch_bytes. replace (512 + m + 7) with (64 * 8 + (m + 7)) by lia. rewrite Nat.div_add_l by lia. reflexivity. Qed.

Opaque K.
Lemma loop_bridge : forall fuel g0 g1 bl delta E n ofs pos cs ls pos' rest,
  (ofs mod 8 = 0 \/ n <= ofs) -> n - ofs < fuel ->
  receive_loop fuel g0 g1 (bbuf bl) n ofs pos = (cs, ls, pos') ->
  ls = map (stream_row g0 pos) (seq 0 (n - ofs)) /\
  pos' = pos + batch_bytes (n - ofs) /\
  send_loop (tamper_chunks E ofs cs ++ rest) (sender_streams g0 g1 delta) delta n ofs pos
  = Some (map (fun r => row_of (q_bit g0 delta bl E pos ofs r)) (seq 0 (n - ofs)), pos', rest).
Proof.
  induction fuel; intros g0 g1 bl delta E n ofs pos cs ls pos' rest Hofs Hfuel Hrecv; [lia|].
  cbn [receive_loop] in Hrecv.
  destruct (n <=? ofs) eqn:Hle.
  - apply Nat.leb_le in Hle. injection Hrecv as E1 E2 E3; subst cs ls pos'.
    replace (n - ofs) with 0 by lia. cbn [seq map]. unfold batch_bytes. simpl Nat.div.
    rewrite Nat.add_0_r. split; [reflexivity|split; [reflexivity|]].
    simpl. destruct rest; cbn [send_loop]; apply Nat.leb_le in Hle; rewrite Hle; reflexivity.
  - apply Nat.leb_gt in Hle. destruct Hofs as [Hofs|Hofs]; [|lia].
    set (rows := min chunkRows (n - ofs)) in *.
    set (w := (rows + 7) / 8) in *.
    destruct (receive_loop fuel g0 g1 (bbuf bl) n (ofs + rows) (pos + w)) as [[cs1 ls1] pos1] eqn:Hrec.
    injection Hrecv as E1 E2 E3; subst cs ls pos'.
    assert (Hrows1 : 1 <= rows) by (unfold rows, chunkRows; lia).
    assert (Hrows2 : rows <= 512) by (unfold rows, chunkRows; lia).
    assert (Hw8 : rows <= 8 * w).
    { unfold w. pose proof (Nat.div_mod (rows + 7) 8). pose proof (Nat.mod_upper_bound (rows + 7) 8). lia. }
    assert (Hw64 : w <= 64).
    { unfold w. apply Nat.lt_succ_r. apply Nat.div_lt_upper_bound; lia. }
    assert (Hmin : min (8 * w) (n - ofs) = rows).
    { unfold rows, chunkRows in *. destruct (le_lt_dec (n - ofs) 512).
      - rewrite Nat.min_r in * by lia. lia.
      - rewrite (Nat.min_l 512) in * by lia.
        assert (w = 64) by (unfold w; rewrite (Nat.min_l 512) by lia; reflexivity). lia. }
    (* labels of this chunk, receiver and sender side *)
    rewrite create_labels_cols, Hmin.
    cbn [tamper_chunks app send_loop].
    assert (Hle' : (n <=? ofs) = false) by (apply Nat.leb_gt; exact Hle). rewrite Hle'.
    rewrite chunk_w_tamper, chunk_w_recv.
    assert (Hcb : (chunkByteRows <? w) = false) by (apply Nat.ltb_ge; unfold chunkByteRows; exact Hw64).
    rewrite Hcb.
    rewrite create_labels_cols, Hmin.
    (* the rest of the loop *)
    destruct (le_lt_dec (n - ofs) 512) as [Hlast|Hmore].
    + (* last chunk *)
      assert (Er : rows = n - ofs) by (unfold rows, chunkRows; lia).
      destruct (IHfuel g0 g1 bl delta E n (ofs + rows) (pos + w) cs1 ls1 pos1 rest) as [Hls [Hpos _]];
        [right; lia | lia | exact Hrec |].
      replace (n - (ofs + rows)) with 0 in * by lia. cbn [seq map] in Hls. subst ls1.
      assert (Hcs1 : cs1 = []).
      { destruct fuel; cbn [receive_loop] in Hrec; [congruence|].
        assert (Hq : (n <=? ofs + rows) = true) by (apply Nat.leb_le; lia).
        rewrite Hq in Hrec. congruence. }
      subst cs1. unfold batch_bytes in Hpos. simpl Nat.div in Hpos. rewrite Nat.add_0_r in Hpos. subst pos1.
      rewrite app_nil_r. cbn [tamper_chunks app].
      assert (Hsend : send_loop rest (sender_streams g0 g1 delta) delta n (ofs + 8 * w) (pos + w)
                      = Some ([], pos + w, rest)).
      { assert (Hq : (n <=? ofs + 8 * w) = true) by (apply Nat.leb_le; lia).
        destruct rest; cbn [send_loop]; rewrite Hq; reflexivity. }
      rewrite Hsend, app_nil_r. rewrite <- Er.
      split; [|split].
      * apply map_ext_in. intros r Hr. apply recv_row.
      * unfold batch_bytes. fold w. reflexivity.
      * f_equal. f_equal. f_equal. apply map_ext_in. intros r Hr. apply in_seq in Hr.
        apply send_row; [exact Hofs | lia].
    + (* a full chunk of 512 rows *)
      assert (Er : rows = 512) by (unfold rows, chunkRows; lia).
      assert (Ew : w = 64) by (unfold w; rewrite Er; reflexivity).
      destruct (IHfuel g0 g1 bl delta E n (ofs + rows) (pos + w) cs1 ls1 pos1 rest) as [Hls [Hpos Hsend]];
        [left; rewrite Er, Nat.add_mod, Hofs by lia; reflexivity | lia | exact Hrec |].
      replace (ofs + 8 * w) with (ofs + rows) by lia.
      rewrite Hsend. subst ls1 pos1.
      set (m := n - (ofs + rows)) in *.
      assert (En : n - ofs = rows + m) by (unfold m; lia).
      rewrite En.
      rewrite !seq_app, !map_app. cbn [Nat.add].
      rewrite (map_seq_shift (stream_row g0 pos) rows).
      rewrite (map_seq_shift (fun r => row_of (q_bit g0 delta bl E pos ofs r)) rows).
      split; [|split].
      * f_equal.
        -- apply map_ext_in. intros r Hr. apply recv_row.
        -- apply map_ext. intros r. unfold stream_row. apply row_of_ext. intros j _.
           f_equal. lia.
      * rewrite Er, Ew. rewrite batch_bytes_512. lia.
      * f_equal. f_equal. f_equal. f_equal.
        -- apply map_ext_in. intros r Hr. apply in_seq in Hr. apply send_row; [exact Hofs | lia].
        -- apply map_ext. intros r. apply row_of_ext. intros j _. unfold q_bit.
           replace (8 * (pos + w) + r) with (8 * pos + (rows + r)) by lia.
           replace (ofs + rows + r) with (ofs + (rows + r)) by lia. reflexivity.
Qed.
Transparent K.

(* ======================================================================== *)
(* Part 4: the protocol run                                                  *)
(* ======================================================================== *)

Lemma land_lt_pow2 : forall a d k, (a < 2^k)%N -> (N.land a d < 2^k)%N.
Proof.
  intros a d k H. apply lt_pow2_bits. intros m Hm.
  rewrite N.land_spec, (proj1 (lt_pow2_bits a k) H m Hm). reflexivity.
Qed.

(* the sender's row in algebraic form *)
Lemma q_bit_qrow : forall g0 delta bl E pos r, (delta < 2^128)%N ->
  row_of (q_bit g0 delta bl E pos 0 r)
  = qrow delta (stream_row g0 pos) (fun i => nth i bl false) (err_row E) r.
Proof.
  intros g0 delta bl E pos r Hd. unfold qrow. apply label_eq_bits.
  - apply row_of_lt.
  - apply lxor_lt_pow2; [apply lxor_lt_pow2|].
    + apply row_of_lt.
    + destruct (nth r bl false); [exact Hd | reflexivity].
    + apply land_lt_pow2, row_of_lt.
  - intros j Hj. rewrite row_of_testbit by exact Hj.
    rewrite !N.lxor_spec, N.land_spec. unfold stream_row, err_row.
    rewrite !row_of_testbit by exact Hj. unfold q_bit. change (0 + r) with r.
    destruct (nth r bl false); rewrite ?N.bits_0;
      generalize (sbit (g0 j) (8 * pos + r)) as s0;
      generalize (N.testbit delta (N.of_nat j)) as dj; generalize (E j r) as ej; intros ej dj s0;
      destruct s0, dj, ej; reflexivity.
Qed.

Lemma list_as_map_nth : forall (l : list bool), l = map (fun i => nth i l false) (seq 0 (length l)).
Proof.
  induction l as [|x l IH]; [reflexivity|].
  cbn [length seq map nth]. f_equal. rewrite <- seq_shift, map_map. exact IH.
Qed.

Lemma bcv_length : forall b0 b1, length (bcv_of b0 b1) = checkRows.
Proof. intros. unfold bcv_of. rewrite map_length, seq_length. reflexivity. Qed.

Opaque bcv_of checkRows K inn_blocks inn_prdt xsum pxor.
Section Run.
  Variables g0 g1 : nat -> nat -> N.
  Variable chi_of : N -> nat -> N.
  Variable bl : list bool.
  Variables b0 b1 : N.
  Variable pos : nat.
  Variable delta : N.
  Hypothesis Hdelta : (delta < 2^128)%N.

  Let n := length bl.
  Let pos1 := pos + batch_bytes n.
  (* the rows of the two batches, the choices *)
  Definition t_ := stream_row g0 pos.
  Definition tc_ := stream_row g0 (pos + batch_bytes (length bl)).
  Definition b_ := fun i => nth i bl false.
  Definition bc_ := fun i => nth i (bcv_of b0 b1) false.

  Lemma chi_lt : forall seed i, (prg_label chi_of seed i < 2^128)%N.
  Proof. intros. apply lowbits128_lt. Qed.

  (* what the honest receiver outputs and sends *)
  Lemma receiver_run_spec : forall seed tr res pos',
    receiver_run g0 g1 chi_of bl b0 b1 seed pos = (tr, res, pos') ->
    res = map t_ (seq 0 n) /\
    tr_seed tr = seed /\
    tr_x tr = honest_X (prg_label chi_of seed) n b_ bc_ /\
    (tr_t0 tr, tr_t1 tr) = split128 (honest_T (prg_label chi_of seed) n t_ tc_) /\
    pos' = pos + batch_bytes n + batch_bytes checkRows /\
    forall E0 E1,
      send_loop (tamper_chunks E0 0 (tr_payload tr) ++ tamper_chunks E1 0 (tr_check tr))
                (sender_streams g0 g1 delta) delta n 0 pos
      = Some (map (qrow delta t_ b_ (err_row E0)) (seq 0 n), pos1, tamper_chunks E1 0 (tr_check tr)) /\
      send_loop (tamper_chunks E1 0 (tr_check tr)) (sender_streams g0 g1 delta) delta checkRows 0 pos1
      = Some (map (qrow delta tc_ bc_ (err_row E1)) (seq 0 checkRows), pos1 + batch_bytes checkRows, []).
  Proof.
    intros seed tr res pos' H. unfold receiver_run in H.
    destruct (receive g0 g1 bl pos) as [[cs1 res1] p1] eqn:R1.
    destruct (receive g0 g1 (bcv_of b0 b1) p1) as [[cs2 cv] p2] eqn:R2.
    injection H as Htr Hres Hpos. subst res pos'.
    unfold receive in R1, R2. rewrite bcv_length in R2. fold n in R1.
    (* payload batch *)
    pose proof (fun E rest => loop_bridge (S n) g0 g1 bl delta E n 0 pos cs1 res1 p1 rest
                  (or_introl eq_refl) ltac:(lia) R1) as B1.
    destruct (B1 noerr []) as [Hres1 [Hp1 _]]. rewrite Nat.sub_0_r in Hres1, Hp1.
    fold pos1 in Hp1. subst p1.
    pose proof (fun E rest => loop_bridge (S checkRows) g0 g1 (bcv_of b0 b1) delta E checkRows 0 pos1 cs2 cv p2 rest
                  (or_introl eq_refl) ltac:(lia) R2) as B2.
    destruct (B2 noerr []) as [Hcv [Hp2 _]]. rewrite Nat.sub_0_r in Hcv, Hp2.
    set (chi := prg_label chi_of seed) in *.
    assert (Hchi : forall i, (chi i < 2^128)%N) by (intro; apply chi_lt).
    subst tr. cbn [tr_seed tr_x tr_t0 tr_t1 tr_payload tr_check].
    split; [exact Hres1|]. split; [reflexivity|]. split; [|split; [|split]].
    - unfold honest_X. f_equal.
      + rewrite (list_as_map_nth bl) at 1. apply xsum_csum. exact Hchi.
      + rewrite (list_as_map_nth (bcv_of b0 b1)) at 1. rewrite bcv_length. apply xsum_csum. exact Hchi.
    - rewrite <- surjective_pairing.
      rewrite inn_blocks_flat by (rewrite Hres1, map_length, seq_length; fold n; lia).
      rewrite inn_prdt_split, <- split128_lxor. f_equal.
      rewrite Hres1, Hcv, map_length, seq_length. fold n.
      unfold honest_T. rewrite !inn256_isum. reflexivity.
    - subst p2. unfold pos1. reflexivity.
    - intros E0 E1. split.
      + destruct (B1 E0 (tamper_chunks E1 0 cs2)) as [_ [_ Hs]]. rewrite Hs, Nat.sub_0_r.
        f_equal. f_equal. f_equal. apply map_ext. intros r. apply q_bit_qrow. exact Hdelta.
      + destruct (B2 E1 []) as [_ [_ Hs]]. rewrite app_nil_r in Hs. rewrite Hs, Nat.sub_0_r. subst p2.
        f_equal. f_equal. f_equal. apply map_ext. intros r. apply q_bit_qrow. exact Hdelta.
  Qed.

  (* the sender's decision on a tampered message sequence *)
  Lemma sender_run_spec : forall seed tr res pos' E0 E1 seed' xh t0h t1h,
    receiver_run g0 g1 chi_of bl b0 b1 seed pos = (tr, res, pos') ->
    sender_run (sender_streams g0 g1 delta) delta chi_of (tamper E0 E1 seed' xh t0h t1h tr) n pos
    = if sender_check (prg_label chi_of seed') delta
           (map (qrow delta t_ b_ (err_row E0)) (seq 0 n))
           (map (qrow delta tc_ bc_ (err_row E1)) (seq 0 checkRows)) xh t0h t1h
      then Accept (map (qrow delta t_ b_ (err_row E0)) (seq 0 n)) else Reject.
  Proof.
    intros seed tr res pos' E0 E1 seed' xh t0h t1h H.
    destruct (receiver_run_spec _ _ _ _ H) as [_ [_ [_ [_ [_ Hs]]]]].
    destruct (Hs E0 E1) as [S1 S2].
    unfold sender_run, tamper. cbn [tr_payload tr_check tr_seed tr_x tr_t0 tr_t1].
    rewrite S1, S2. reflexivity.
  Qed.

  (* exact acceptance condition: the syndrome equals the deviation of the response *)
  Definition synd_ (chi : nat -> N) (E0 E1 : nat -> nat -> bool) : N :=
    synd chi delta n (err_row E0) (err_row E1).

  Lemma syndrome2_synd : forall chi E0 E1, syndrome2 chi delta E0 E1 n = synd_ chi E0 E1.
  Proof.
    intros. unfold syndrome2, synd_, synd. rewrite !syndrome_isum. rewrite (Nat.add_0_r n). reflexivity.
  Qed.

  Lemma xor_move : forall a s c d, N.lxor (N.lxor a s) c = d <-> s = N.lxor c (N.lxor d a).
  Proof.
    intros a s c d. split; intros H.
    - rewrite <- H. apply N.bits_inj; intro m. rewrite !N.lxor_spec.
      destruct (N.testbit a m), (N.testbit s m), (N.testbit c m); reflexivity.
    - rewrite H. apply N.bits_inj; intro m. rewrite !N.lxor_spec.
      destruct (N.testbit a m), (N.testbit d m), (N.testbit c m); reflexivity.
  Qed.

  Theorem accept_iff : forall seed tr res pos' E0 E1 seed' xh t0h t1h trh resh posh out,
    receiver_run g0 g1 chi_of bl b0 b1 seed pos = (tr, res, pos') ->
    receiver_run g0 g1 chi_of bl b0 b1 seed' pos = (trh, resh, posh) ->
    (t0h < 2^128)%N ->
    (sender_run (sender_streams g0 g1 delta) delta chi_of (tamper E0 E1 seed' xh t0h t1h tr) n pos = Accept out
     <->
     out = map (qrow delta t_ b_ (err_row E0)) (seq 0 n) /\
     syndrome2 (prg_label chi_of seed') delta E0 E1 n
     = N.lxor (clmul (N.lxor xh (tr_x trh)) delta)
              (N.lxor (join128 (t0h, t1h)) (join128 (tr_t0 trh, tr_t1 trh)))).
  Proof.
    intros seed tr res pos' E0 E1 seed' xh t0h t1h trh resh posh out H Hh Ht0.
    rewrite (sender_run_spec _ _ _ _ E0 E1 seed' xh t0h t1h H).
    destruct (receiver_run_spec _ _ _ _ Hh) as [_ [_ [HX [HT _]]]].
    set (chi := prg_label chi_of seed') in *.
    rewrite HX, HT, join_split128, syndrome2_synd. unfold synd_.
    destruct (sender_check chi delta _ _ xh t0h t1h) eqn:Hc.
    - apply sender_check_rows in Hc. rewrite sender_Q_eq in Hc.
      split.
      + intros Ha. injection Ha as <-. split; [reflexivity|].
        apply (f_equal join128) in Hc. rewrite join_split128 in Hc.
        apply xor_move in Hc. rewrite Hc. f_equal. f_equal. apply N.lxor_comm.
      + intros [-> _]. reflexivity.
    - split; [discriminate|]. intros [_ Hs]. exfalso.
      assert (Hc' : sender_check chi delta
                 (map (qrow delta t_ b_ (err_row E0)) (seq 0 n))
                 (map (qrow delta tc_ bc_ (err_row E1)) (seq 0 checkRows)) xh t0h t1h = true).
      { apply sender_check_rows. rewrite sender_Q_eq.
        rewrite <- (join_split128 (N.lxor _ _)).
        assert (Ej : N.lxor (N.lxor (honest_T chi n t_ tc_) (synd chi delta n (err_row E0) (err_row E1)))
                       (clmul (N.lxor (honest_X chi n b_ bc_) xh) delta) = join128 (t0h, t1h)).
        { apply xor_move. rewrite Hs. f_equal. f_equal. apply N.lxor_comm. }
        rewrite Ej, join_split128. apply split128_unique; [exact Ht0 | reflexivity]. }
      rewrite Hc' in Hc. discriminate.
  Qed.

  (* never an I/O error: bit errors keep the message structure *)
  Lemma sender_run_accept_or_reject : forall seed tr res pos' E0 E1 seed' xh t0h t1h,
    receiver_run g0 g1 chi_of bl b0 b1 seed pos = (tr, res, pos') ->
    sender_run (sender_streams g0 g1 delta) delta chi_of (tamper E0 E1 seed' xh t0h t1h tr) n pos
      = Accept (map (qrow delta t_ b_ (err_row E0)) (seq 0 n))
    \/ sender_run (sender_streams g0 g1 delta) delta chi_of (tamper E0 E1 seed' xh t0h t1h tr) n pos = Reject.
  Proof.
    intros. rewrite (sender_run_spec _ _ _ _ E0 E1 seed' xh t0h t1h H).
    destruct (sender_check _ _ _ _ _ _ _); auto.
  Qed.
End Run.
Transparent bcv_of checkRows K inn_blocks inn_prdt xsum pxor.

(* ======================================================================== *)
(* Part 5: the theorems                                                       *)
(* ======================================================================== *)

Lemma mapi_from_id : forall {A} (f : nat -> A -> A) l i, (forall k x, f k x = x) -> mapi_from f i l = l.
Proof. induction l; intros i H; simpl; [reflexivity | rewrite H, IHl by exact H; reflexivity]. Qed.

Lemma err_byte_noerr : forall j k, err_byte noerr j k = 0%N.
Proof. reflexivity. Qed.

Lemma tamper_chunks_noerr : forall cs ofs, tamper_chunks noerr ofs cs = cs.
Proof.
  induction cs as [|c cs IH]; intros ofs; simpl; [reflexivity|].
  rewrite IH. f_equal. unfold tamper_chunk, mapi. cbv zeta. apply mapi_from_id. intros j col.
  generalize (8 * (ofs / 8)). induction col as [|v col IHc]; intros row; cbn [tamper_col]; [reflexivity|].
  rewrite IHc. f_equal. change (byte_of (fun t => noerr j (t + row))) with 0%N. apply N.lxor_0_r.
Qed.

Lemma tamper_noerr : forall tr, tamper_bits noerr noerr tr = tr.
Proof. intros [p c s x t0 t1]. unfold tamper_bits, tamper; simpl. rewrite !tamper_chunks_noerr. reflexivity. Qed.

Lemma err_row_noerr : forall i, err_row noerr i = 0%N.
Proof. intros. unfold err_row, noerr. apply row_of_false. Qed.

Lemma isum_zero : forall chi q n s o, (forall i, o <= i < o + n -> q i = 0%N) -> isum chi q s o n = 0%N.
Proof.
  induction n; intros s o H; simpl; [reflexivity|].
  rewrite (H o) by lia. rewrite clmul_0_r, IHn; [reflexivity|]. intros i Hi. apply H. lia.
Qed.

(* only term i0 is non-zero *)
Lemma isum_single : forall chi q n s o i0,
  (forall i, o <= i < o + n -> i <> i0 -> q i = 0%N) -> o <= i0 < o + n ->
  isum chi q s o n = clmul (chi (s + (i0 - o))) (q i0).
Proof.
  induction n; intros s o i0 H Hi; [lia|]. simpl.
  destruct (Nat.eq_dec o i0) as [->|Hne].
  - rewrite Nat.sub_diag, Nat.add_0_r. rewrite isum_zero; [apply N.lxor_0_r|].
    intros i Hi'. apply H; lia.
  - rewrite (H o) by lia. rewrite clmul_0_r, N.lxor_0_l.
    rewrite (IHn (S s) (S o) i0); [f_equal; f_equal; lia | | lia].
    intros i Hi' Hn. apply H; lia.
Qed.

(* correlation for the original choices, row by row *)
Lemma corr_holds_rows : forall delta (q t : nat -> N) bl o,
  (forall i, i < length bl -> corr_row delta (q (o + i)) (t (o + i)) (nth i bl false) = true) ->
  corr_holds delta (map q (seq o (length bl))) (map t (seq o (length bl))) bl = true.
Proof.
  induction bl as [|x bl IH]; intros o H; [reflexivity|].
  cbn [length seq map corr_holds]. apply andb_true_iff. split.
  - specialize (H 0 ltac:(simpl; lia)). rewrite Nat.add_0_r in H. exact H.
  - apply IH. intros i Hi. specialize (H (S i) ltac:(simpl; lia)).
    rewrite Nat.add_succ_r in H. exact H.
Qed.

Lemma corr_holds_rows_inv : forall delta (q t : nat -> N) bl o,
  corr_holds delta (map q (seq o (length bl))) (map t (seq o (length bl))) bl = true ->
  forall i, i < length bl -> corr_row delta (q (o + i)) (t (o + i)) (nth i bl false) = true.
Proof.
  induction bl as [|x bl IH]; intros o H i Hi; [simpl in Hi; lia|].
  cbn [length seq map corr_holds] in H. apply andb_true_iff in H. destruct H as [H1 H2].
  destruct i as [|i].
  - rewrite Nat.add_0_r. exact H1.
  - rewrite Nat.add_succ_r. apply (IH (S o) H2 i). simpl in Hi. lia.
Qed.

(* a row satisfies the correlation iff its masked error is zero *)
Lemma corr_row_qrow : forall delta t (b : nat -> bool) e i,
  corr_row delta (qrow delta t b e i) (t i) (b i) = true <-> N.land (e i) delta = 0%N.
Proof.
  intros delta t b e i. unfold corr_row, qrow. rewrite N.eqb_eq.
  set (d := N.land (e i) delta). split; intros H.
  - apply N.bits_inj; intro m. rewrite N.bits_0.
    apply (f_equal (fun x => N.testbit x m)) in H.
    destruct (b i); rewrite ?N.lxor_spec, ?N.bits_0 in H;
      destruct (N.testbit (t i) m), (N.testbit delta m), (N.testbit d m); simpl in H; congruence.
  - rewrite H. destruct (b i).
    + rewrite N.lxor_0_r, N.lxor_assoc, N.lxor_nilpotent, N.lxor_0_r. reflexivity.
    + rewrite !N.lxor_0_r. reflexivity.
Qed.

Lemma forall_or_exists_lt : forall n (P : nat -> Prop), (forall i, {P i} + {~ P i}) ->
  (forall i, i < n -> P i) \/ (exists i, i < n /\ ~ P i).
Proof.
  induction n; intros P dec; [left; intros; lia|].
  destruct (IHn P dec) as [H|[i [Hi Hn]]].
  - destruct (dec n) as [Hp|Hp].
    + left. intros i Hi. destruct (Nat.eq_dec i n) as [->|]; [exact Hp | apply H; lia].
    + right. exists n. split; [lia | exact Hp].
  - right. exists i. split; [lia | exact Hn].
Qed.

Section Theorems.
  Variables g0 g1 : nat -> nat -> N.
  Variable chi_of : N -> nat -> N.
  Variable bl : list bool.
  Variables b0 b1 seed : N.
  Variable pos : nat.
  Variable delta : N.
  Hypothesis Hdelta : (delta < 2^128)%N.
  Variables (tr : transcript) (res : list N) (pos' : nat).
  Hypothesis Hrun : receiver_run g0 g1 chi_of bl b0 b1 seed pos = (tr, res, pos').

  Let n := length bl.
  Let S_ := sender_run (sender_streams g0 g1 delta) delta chi_of.

  Lemma tr_t0_lt : (tr_t0 tr < 2^128)%N.
  Proof.
    destruct (receiver_run_spec g0 g1 chi_of bl b0 b1 pos delta Hdelta _ _ _ _ Hrun) as [_ [_ [_ [HT _]]]].
    apply (f_equal fst) in HT. cbn [fst] in HT. rewrite HT. unfold split128. cbn [fst]. apply lowbits128_lt.
  Qed.

  Lemma tr_seed_eq : tr_seed tr = seed.
  Proof. apply (receiver_run_spec g0 g1 chi_of bl b0 b1 pos delta Hdelta _ _ _ _ Hrun). Qed.

  Lemma res_eq : res = map (t_ g0 pos) (seq 0 n).
  Proof. apply (receiver_run_spec g0 g1 chi_of bl b0 b1 pos delta Hdelta _ _ _ _ Hrun). Qed.

  (* the correlation on the sender's outputs <-> no masked error on a payload row *)
  Lemma corr_outputs : forall E0,
    corr_holds delta (map (qrow delta (t_ g0 pos) (b_ bl) (err_row E0)) (seq 0 n)) res bl = true
    <-> forall i, i < n -> N.land (err_row E0 i) delta = 0%N.
  Proof.
    intros E0. rewrite res_eq. unfold n. split.
    - intros H i Hi. pose proof (corr_holds_rows_inv _ _ _ _ _ H i Hi) as Hr.
      simpl Nat.add in Hr. apply corr_row_qrow in Hr. exact Hr.
    - intros H. apply corr_holds_rows. intros i Hi. simpl Nat.add.
      apply (corr_row_qrow delta (t_ g0 pos) (b_ bl)). apply H. exact Hi.
  Qed.

  (* with the response as sent: accept <-> syndrome = 0 *)
  Lemma accept_bits_iff : forall E0 E1 out,
    S_ (tamper_bits E0 E1 tr) n pos = Accept out <->
    out = map (qrow delta (t_ g0 pos) (b_ bl) (err_row E0)) (seq 0 n) /\
    syndrome2 (prg_label chi_of seed) delta E0 E1 n = 0%N.
  Proof.
    intros E0 E1 out. unfold tamper_bits, S_, n. rewrite tr_seed_eq.
    rewrite (accept_iff g0 g1 chi_of bl b0 b1 pos delta Hdelta seed tr res pos' E0 E1 seed
               (tr_x tr) (tr_t0 tr) (tr_t1 tr) tr res pos' out Hrun Hrun tr_t0_lt).
    rewrite !N.lxor_nilpotent. reflexivity.
  Qed.

  (* (1) the honest run is accepted and the outputs are correlated *)
  Theorem honest_accepts :
    exists out, S_ tr n pos = Accept out /\ corr_holds delta out res bl = true.
  Proof.
    exists (map (qrow delta (t_ g0 pos) (b_ bl) (err_row noerr)) (seq 0 n)). split.
    - rewrite <- (tamper_noerr tr) at 1. apply accept_bits_iff. split; [reflexivity|].
      rewrite (syndrome2_synd bl). unfold synd_, synd.
      rewrite !isum_zero; [reflexivity | |]; intros i _; rewrite err_row_noerr; reflexivity.
    - apply corr_outputs. intros i _. rewrite err_row_noerr. reflexivity.
  Qed.

  (* (2) arbitrary bit errors and arbitrary replacement of seed and response *)
  Theorem tamper_sound : forall E0 E1 seed' xh t0h t1h trh resh posh out,
    receiver_run g0 g1 chi_of bl b0 b1 seed' pos = (trh, resh, posh) ->
    S_ (tamper E0 E1 seed' xh t0h t1h tr) n pos = Accept out ->
    corr_holds delta out res bl = true \/
    forge_event (prg_label chi_of seed') delta E0 E1 n
                (N.lxor xh (tr_x trh))
                (N.lxor (join128 (t0h, t1h)) (join128 (tr_t0 trh, tr_t1 trh))).
  Proof.
    intros E0 E1 seed' xh t0h t1h trh resh posh out Hh Ha.
    unfold S_, n in Ha.
    rewrite (sender_run_spec g0 g1 chi_of bl b0 b1 pos delta Hdelta _ _ _ _ E0 E1 seed' xh t0h t1h Hrun) in Ha.
    destruct (sender_check _ _ _ _ xh t0h t1h) eqn:Hc; [|discriminate].
    injection Ha as <-.
    destruct (forall_or_exists_lt n (fun i => N.land (err_row E0 i) delta = 0%N)) as [Hz|[i [Hi Hnz]]].
    - intros i. apply N.eq_dec.
    - left. apply corr_outputs. exact Hz.
    - right. split; [exists i; split; assumption|].
      apply sender_check_rows in Hc. rewrite sender_Q_eq in Hc.
      destruct (receiver_run_spec g0 g1 chi_of bl b0 b1 pos delta Hdelta _ _ _ _ Hh) as [_ [_ [HX [HT _]]]].
      rewrite HX, HT, join_split128, (syndrome2_synd bl). unfold synd_.
      apply (f_equal join128) in Hc. rewrite join_split128 in Hc.
      apply xor_move in Hc. unfold n. rewrite Hc. f_equal. f_equal. apply N.lxor_comm.
  Qed.

  (* (3) errors confined to columns Delta does not select: same outcome as the
     honest run, i.e. accepted with unchanged, correlated outputs *)
  Theorem unselected_column_harmless : forall E0 E1,
    (forall j i, j < K -> E0 j i = true -> N.testbit delta (N.of_nat j) = false) ->
    (forall j i, j < K -> E1 j i = true -> N.testbit delta (N.of_nat j) = false) ->
    S_ (tamper_bits E0 E1 tr) n pos = S_ tr n pos /\
    exists out, S_ (tamper_bits E0 E1 tr) n pos = Accept out /\ corr_holds delta out res bl = true.
  Proof.
    intros E0 E1 H0 H1.
    assert (Z : forall E, (forall j i, j < K -> E j i = true -> N.testbit delta (N.of_nat j) = false) ->
                forall i, N.land (err_row E i) delta = 0%N).
    { intros E HE i. unfold err_row. rewrite row_of_land, <- row_of_false. apply row_of_ext.
      intros j Hj. destruct (E j i) eqn:Ej; [rewrite (HE j i Hj Ej)|]; reflexivity. }
    assert (Hout : map (qrow delta (t_ g0 pos) (b_ bl) (err_row E0)) (seq 0 n)
                   = map (qrow delta (t_ g0 pos) (b_ bl) (err_row noerr)) (seq 0 n)).
    { apply map_ext. intros i. unfold qrow. rewrite (Z E0 H0 i), err_row_noerr. reflexivity. }
    assert (Ha : S_ (tamper_bits E0 E1 tr) n pos = Accept (map (qrow delta (t_ g0 pos) (b_ bl) (err_row E0)) (seq 0 n))).
    { apply accept_bits_iff. split; [reflexivity|].
      rewrite (syndrome2_synd bl). unfold synd_, synd.
      rewrite !isum_zero; [reflexivity | |]; intros i _; apply Z; assumption. }
    split.
    - rewrite Ha, Hout. symmetry. rewrite <- (tamper_noerr tr) at 1. apply accept_bits_iff.
      split; [reflexivity|]. rewrite (syndrome2_synd bl). unfold synd_, synd.
      rewrite !isum_zero; [reflexivity | |]; intros i _; rewrite err_row_noerr; reflexivity.
    - eexists. split; [exact Ha|]. apply corr_outputs. intros i _. apply Z. exact H0.
  Qed.

  Lemma reject_of_not_accept : forall E0 E1,
    (forall out, S_ (tamper_bits E0 E1 tr) n pos <> Accept out) -> S_ (tamper_bits E0 E1 tr) n pos = Reject.
  Proof.
    intros E0 E1 H. unfold tamper_bits, S_, n in *.
    destruct (sender_run_accept_or_reject g0 g1 chi_of bl b0 b1 pos delta Hdelta _ _ _ _ E0 E1
                (tr_seed tr) (tr_x tr) (tr_t0 tr) (tr_t1 tr) Hrun) as [Ha|Hr]; [|exact Hr].
    exfalso. exact (H _ Ha).
  Qed.

  (* (4) all errors in ONE payload row i0, its masked error non-zero (e.g. a
     single flip in a column with Delta_j = 1), chi_i0 non-zero: rejected *)
  Theorem selected_row_detected : forall E0 i0,
    i0 < n ->
    (forall j i, E0 j i = true -> i = i0) ->
    N.land (err_row E0 i0) delta <> 0%N ->
    prg_label chi_of seed i0 <> 0%N ->
    S_ (tamper_bits E0 noerr tr) n pos = Reject.
  Proof.
    intros E0 i0 Hi0 Hrow Hnz Hchi. apply reject_of_not_accept. intros out Ha.
    apply accept_bits_iff in Ha. destruct Ha as [_ Hs].
    rewrite (syndrome2_synd bl) in Hs. unfold synd_, synd in Hs.
    rewrite (isum_zero _ _ checkRows) in Hs by (intros i _; rewrite err_row_noerr; reflexivity).
    rewrite N.lxor_0_r in Hs.
    rewrite (isum_single _ _ n 0 0 i0) in Hs; [| | lia].
    - rewrite Nat.sub_0_r in Hs. simpl Nat.add in Hs.
      destruct (clmul_eq_0 _ _ Hs); contradiction.
    - intros i _ Hne. unfold err_row. rewrite <- (N.land_0_l delta). f_equal.
      rewrite <- row_of_false. apply row_of_ext. intros j _.
      destruct (E0 j i) eqn:Ej; [|reflexivity]. exfalso. apply Hne. exact (Hrow j i Ej).
  Qed.

  (* the same for a row of the 256-row check batch *)
  Theorem selected_check_row_detected : forall E1 i0,
    i0 < checkRows ->
    (forall j i, E1 j i = true -> i = i0) ->
    N.land (err_row E1 i0) delta <> 0%N ->
    prg_label chi_of seed (n + i0) <> 0%N ->
    S_ (tamper_bits noerr E1 tr) n pos = Reject.
  Proof.
    intros E1 i0 Hi0 Hrow Hnz Hchi. apply reject_of_not_accept. intros out Ha.
    apply accept_bits_iff in Ha. destruct Ha as [_ Hs].
    rewrite (syndrome2_synd bl) in Hs. unfold synd_, synd in Hs.
    rewrite (isum_zero _ _ n) in Hs by (intros i _; rewrite err_row_noerr; reflexivity).
    rewrite N.lxor_0_l in Hs.
    rewrite (isum_single _ _ checkRows n 0 i0) in Hs; [| | lia].
    - rewrite Nat.sub_0_r in Hs. destruct (clmul_eq_0 _ _ Hs); contradiction.
    - intros i _ Hne. unfold err_row. rewrite <- (N.land_0_l delta). f_equal.
      rewrite <- row_of_false. apply row_of_ext. intros j _.
      destruct (E1 j i) eqn:Ej; [|reflexivity]. exfalso. apply Hne. exact (Hrow j i Ej).
  Qed.

  (* single flip at (column j0, payload row i0) with Delta_j0 = 1 *)
  Definition flip1 (j0 i0 : nat) : nat -> nat -> bool := fun j i => Nat.eqb j j0 && Nat.eqb i i0.

  Corollary single_flip_detected : forall j0 i0,
    j0 < K -> i0 < n -> N.testbit delta (N.of_nat j0) = true ->
    prg_label chi_of seed i0 <> 0%N ->
    S_ (tamper_bits (flip1 j0 i0) noerr tr) n pos = Reject.
  Proof.
    intros j0 i0 Hj Hi Hd Hchi. apply (selected_row_detected (flip1 j0 i0) i0 Hi); [| |exact Hchi].
    - intros j i H. unfold flip1 in H. apply andb_true_iff in H. destruct H as [_ H].
      apply Nat.eqb_eq in H. exact H.
    - intros H.
      assert (T : N.testbit (N.land (err_row (flip1 j0 i0) i0) delta) (N.of_nat j0) = true).
      { rewrite N.land_spec, Hd. unfold err_row. rewrite row_of_testbit by exact Hj.
        unfold flip1. rewrite !Nat.eqb_refl. reflexivity. }
      rewrite H, N.bits_0 in T. discriminate.
  Qed.

  (* multi-flip: the same column j0 (selected) flipped in the payload rows of
     the set R0 and the check rows of the set R1: accepted iff the chi
     coefficients of those rows xor to zero *)
  Definition colflips (j0 : nat) (R : nat -> bool) : nat -> nat -> bool := fun j i => Nat.eqb j j0 && R i.

  Lemma colflips_row : forall j0 R i, j0 < K -> N.testbit delta (N.of_nat j0) = true ->
    N.land (err_row (colflips j0 R) i) delta = if R i then (2 ^ N.of_nat j0)%N else 0%N.
  Proof.
    intros j0 R i Hj Hd. unfold err_row. rewrite row_of_land.
    apply label_eq_bits.
    - apply row_of_lt.
    - destruct (R i); [|reflexivity]. apply N.pow_lt_mono_r; [lia|]. unfold K in Hj. lia.
    - intros j Hj'. rewrite row_of_testbit by exact Hj'. unfold colflips.
      destruct (R i).
      + rewrite N.pow2_bits_eqb, andb_true_r.
        destruct (Nat.eqb_spec j j0) as [->|Hne].
        * rewrite Hd, N.eqb_refl. reflexivity.
        * simpl. symmetry. apply N.eqb_neq. intros Heq. apply Hne. apply Nat2N.inj. symmetry. exact Heq.
      + rewrite andb_false_r, N.bits_0. reflexivity.
  Qed.

  Theorem column_flips_accept_iff : forall j0 R0 R1 out,
    j0 < K -> N.testbit delta (N.of_nat j0) = true ->
    (S_ (tamper_bits (colflips j0 R0) (colflips j0 R1) tr) n pos = Accept out <->
     out = map (qrow delta (t_ g0 pos) (b_ bl) (err_row (colflips j0 R0))) (seq 0 n) /\
     N.lxor (csum (prg_label chi_of seed) R0 0 0 n) (csum (prg_label chi_of seed) R1 n 0 checkRows) = 0%N).
  Proof.
    intros j0 R0 R1 out Hj Hd. rewrite accept_bits_iff, (syndrome2_synd bl). unfold synd_, synd.
    rewrite (isum_ext _ _ (fun k => if R0 k then (2 ^ N.of_nat j0)%N else 0%N) n)
      by (intros; apply colflips_row; assumption).
    rewrite (isum_ext _ _ (fun k => if R1 k then (2 ^ N.of_nat j0)%N else 0%N) checkRows)
      by (intros; apply colflips_row; assumption).
    rewrite !isum_choice, <- clmul_lxor_l. unfold n.
    split; intros [Ho Hs]; (split; [exact Ho|]).
    - destruct (clmul_eq_0 _ _ Hs) as [H|H]; [exact H|].
      exfalso. revert H. apply N.pow_nonzero. discriminate.
    - rewrite Hs. reflexivity.
  Qed.

  (* ... and whenever it is accepted with a payload row in the set, the
     sender's outputs are inconsistent with the receiver's *)
  Theorem column_flips_break_correlation : forall j0 R0 i,
    j0 < K -> N.testbit delta (N.of_nat j0) = true -> i < n -> R0 i = true ->
    corr_holds delta (map (qrow delta (t_ g0 pos) (b_ bl) (err_row (colflips j0 R0))) (seq 0 n)) res bl = false.
  Proof.
    intros j0 R0 i Hj Hd Hi HR.
    destruct (corr_holds _ _ _ _) eqn:Hc; [|reflexivity]. exfalso.
    pose proof (proj1 (corr_outputs (colflips j0 R0)) Hc i Hi) as Hz.
    rewrite colflips_row, HR in Hz by assumption.
    revert Hz. apply N.pow_nonzero. discriminate.
  Qed.
End Theorems.

(* ======================================================================== *)
(* Part 6: the full "never silently accepts" statement is false              *)
(* ======================================================================== *)

(* A GF(2)-linear dependency among the chi coefficients of a set of rows
   (R0 on the payload batch, R1 on the check batch) lets an adversary flip the
   SAME selected column in all those rows: the sender accepts (the response is
   untouched) and its outputs are inconsistent.  The receiver chooses the seed
   itself and the seed is not bound to the transmitted matrix, so the
   dependency can be computed before the matrix is altered; among more than
   128 coefficients of 128 bits a dependency always exists. *)
Theorem chi_dependency_forge :
  forall g0 g1 chi_of bl b0 b1 seed pos delta tr res pos' j0 R0 R1 i,
    (delta < 2^128)%N ->
    receiver_run g0 g1 chi_of bl b0 b1 seed pos = (tr, res, pos') ->
    j0 < K -> N.testbit delta (N.of_nat j0) = true ->
    i < length bl -> R0 i = true ->
    N.lxor (csum (prg_label chi_of seed) R0 0 0 (length bl))
           (csum (prg_label chi_of seed) R1 (length bl) 0 checkRows) = 0%N ->
    exists out,
      sender_run (sender_streams g0 g1 delta) delta chi_of
                 (tamper_bits (colflips j0 R0) (colflips j0 R1) tr) (length bl) pos = Accept out /\
      corr_holds delta out res bl = false.
Proof.
  intros g0 g1 chi_of bl b0 b1 seed pos delta tr res pos' j0 R0 R1 i Hd Hrun Hj Hdj Hi HR Hdep.
  eexists. split.
  - apply (column_flips_accept_iff g0 g1 chi_of bl b0 b1 seed pos delta Hd tr res pos' Hrun j0 R0 R1 _ Hj Hdj).
    split; [reflexivity | exact Hdep].
  - apply (column_flips_break_correlation g0 g1 chi_of bl b0 b1 seed pos delta Hd tr res pos' Hrun j0 R0 i Hj Hdj Hi HR).
Qed.

(* closed witness: two rows with equal coefficients *)
Theorem never_silent_refuted :
  exists g0 g1 chi_of bl b0 b1 seed pos delta E0 E1 tr res pos' out,
    (delta < 2^128)%N /\
    receiver_run g0 g1 chi_of bl b0 b1 seed pos = (tr, res, pos') /\
    sender_run (sender_streams g0 g1 delta) delta chi_of (tamper_bits E0 E1 tr) (length bl) pos = Accept out /\
    corr_holds delta out res bl = false.
Proof.
  set (g := fun (_ _ : nat) => 0%N). set (chi_of := fun (_ : N) (_ : nat) => 1%N).
  set (bl := [false; false]).
  destruct (receiver_run g g chi_of bl 0%N 0%N 0%N 0) as [[tr res] pos'] eqn:Hrun.
  destruct (chi_dependency_forge g g chi_of bl 0%N 0%N 0%N 0 1%N tr res pos' 0
              (fun i => Nat.ltb i 2) (fun _ => false) 0) as [out [Ha Hc]];
    try reflexivity; try exact Hrun; try (unfold K; simpl; lia).
  exists g, g, chi_of, bl, 0%N, 0%N, 0%N, 0, 1%N,
         (colflips 0 (fun i => Nat.ltb i 2)), (colflips 0 (fun _ => false)), tr, res, pos', out.
  repeat split; assumption.
Qed.

(* ======================================================================== *)
(* Part 7: coefficient positions, multi-flip deviations                      *)
(* ======================================================================== *)

(* The coefficient of a matrix position is a DISTINCT position of the chi
   stream: payload row i uses chi(i), check row k uses chi(n + k).  (The
   1024-row blocks of the payload loop and the final 256-row call of prgLabels
   continue one stream; nothing restarts.) *)
Definition coeff_idx (n batch row : nat) : nat := if Nat.eqb batch 0 then row else n + row.

Lemma coeff_idx_injective : forall n b1 r1 b2 r2,
  b1 <= 1 -> b2 <= 1 -> (b1 = 0 -> r1 < n) -> (b2 = 0 -> r2 < n) ->
  coeff_idx n b1 r1 = coeff_idx n b2 r2 -> b1 = b2 /\ r1 = r2.
Proof.
  intros n b1 r1 b2 r2 H1 H2 Hr1 Hr2. unfold coeff_idx.
  destruct b1 as [|[|b1]]; destruct b2 as [|[|b2]]; simpl; try lia;
    try (specialize (Hr1 eq_refl)); try (specialize (Hr2 eq_refl)); lia.
Qed.

(* the sender's test, with the stream positions explicit:
   sum_{i<n} chi(i)*q_i  xor  sum_{k<256} chi(n+k)*qc_k  xor  x*Delta  =  (t0,t1) *)
Lemma sender_check_positions : forall chi delta (q qc : nat -> N) n x t0 t1,
  sender_check chi delta (map q (seq 0 n)) (map qc (seq 0 checkRows)) x t0 t1 = true <->
  split128 (N.lxor (N.lxor (isum chi q (coeff_idx n 0 0) 0 n) (isum chi qc (coeff_idx n 1 0) 0 checkRows))
                   (clmul x delta)) = (t0, t1).
Proof.
  intros. unfold sender_check. rewrite eqb_pair.
  rewrite !map_length, !seq_length.
  rewrite inn_blocks_flat by (rewrite map_length, seq_length; lia).
  rewrite map_length, seq_length.
  rewrite inn_prdt_split. unfold mul128. rewrite <- !split128_lxor.
  rewrite !inn256_isum. unfold coeff_idx. simpl Nat.eqb. cbv iota. rewrite Nat.add_0_r. reflexivity.
Qed.

Lemma csum_xorb : forall chi R1 R2 m s o,
  csum chi (fun i => xorb (R1 i) (R2 i)) s o m = N.lxor (csum chi R1 s o m) (csum chi R2 s o m).
Proof.
  induction m; intros s o; simpl; [reflexivity|]. rewrite IHm.
  destruct (R1 o), (R2 o); simpl; apply N.bits_inj; intro k; rewrite ?N.lxor_spec, ?N.bits_0;
    destruct (N.testbit (chi s) k), (N.testbit (csum chi R1 (S s) (S o) m) k),
             (N.testbit (csum chi R2 (S s) (S o) m) k); reflexivity.
Qed.

Lemma csum_none : forall chi R m s o, (forall i, o <= i < o + m -> R i = false) -> csum chi R s o m = 0%N.
Proof.
  induction m; intros s o H; simpl; [reflexivity|].
  rewrite (H o) by lia. rewrite IHm; [reflexivity|]. intros i Hi. apply H. lia.
Qed.

Lemma csum_single : forall chi a m s o, o <= a < o + m ->
  csum chi (fun i => Nat.eqb i a) s o m = chi (s + (a - o)).
Proof.
  induction m; intros s o H; [lia|]. simpl.
  destruct (Nat.eqb_spec o a) as [->|Hne].
  - rewrite Nat.sub_diag, Nat.add_0_r. rewrite csum_none; [apply N.lxor_0_r|].
    intros i Hi. apply Nat.eqb_neq. lia.
  - rewrite N.lxor_0_l, IHm by lia. f_equal. lia.
Qed.

Lemma isum_app : forall chi q a b s o,
  isum chi q s o (a + b) = N.lxor (isum chi q s o a) (isum chi q (s + a) (o + a) b).
Proof.
  induction a; intros b s o; simpl.
  - rewrite !Nat.add_0_r. reflexivity.
  - rewrite IHa, N.lxor_assoc. do 2 f_equal; f_equal; lia.
Qed.

(* ---- the symbolic model: coefficients as independent indeterminates ------- *)

(* generic point: Y_i = X^(128 i); products with 128-bit polynomials occupy
   disjoint bit ranges, so a sum vanishes only if every term does *)
Definition gchi (i : nat) : N := (2 ^ (128 * N.of_nat i))%N.

Lemma isum_generic_low : forall d m s o k,
  (k < 128 * N.of_nat s)%N -> N.testbit (isum gchi d s o m) k = false.
Proof.
  induction m; intros s o k Hk; cbn [isum]; [apply N.bits_0|].
  rewrite N.lxor_spec, IHm by lia. unfold gchi. rewrite clmul_pow2_l.
  rewrite N.shiftl_spec_low by exact Hk. reflexivity.
Qed.

Lemma isum_generic_zero : forall d m s o,
  (forall i, (d i < 2^128)%N) -> isum gchi d s o m = 0%N -> forall k, k < m -> d (o + k) = 0%N.
Proof.
  induction m; intros s o Hd Hz k Hk; [lia|]. cbn [isum] in Hz.
  apply N.lxor_eq in Hz. unfold gchi in Hz at 1. rewrite clmul_pow2_l in Hz.
  assert (Hd0 : d o = 0%N).
  { apply N.bits_inj; intro b. rewrite N.bits_0.
    destruct (N.lt_ge_cases b 128) as [Hl|Hg].
    - assert (T : N.testbit (N.shiftl (d o) (128 * N.of_nat s)) (b + 128 * N.of_nat s) = N.testbit (d o) b).
      { rewrite N.shiftl_spec_high' by lia. f_equal. lia. }
      rewrite <- T, Hz. apply isum_generic_low. lia.
    - apply (proj1 (lt_pow2_bits (d o) 128) (Hd o) b Hg). }
  destruct k as [|k]; [rewrite Nat.add_0_r; exact Hd0|].
  rewrite Hd0, N.shiftl_0_l in Hz. symmetry in Hz.
  replace (o + S k) with (S o + k) by lia. apply (IHm (S s) (S o) Hd Hz k). lia.
Qed.

(* in the symbolic model ANY non-empty set of flips that leaves some used row
   inconsistent has a non-zero syndrome: always detected *)
Theorem syndrome2_generic : forall delta E0 E1 n,
  syndrome2 gchi delta E0 E1 n = 0%N <->
  (forall i, i < n -> N.land (err_row E0 i) delta = 0%N) /\
  (forall k, k < checkRows -> N.land (err_row E1 k) delta = 0%N).
Proof.
  intros delta E0 E1 n. unfold syndrome2. rewrite !syndrome_isum. rewrite (Nat.add_0_r n). simpl Nat.add.
  set (d := fun i => if Nat.ltb i n then N.land (err_row E0 i) delta else N.land (err_row E1 (i - n)) delta).
  assert (Hd : forall i, (d i < 2^128)%N).
  { intros i. unfold d. destruct (Nat.ltb i n); apply land_lt_pow2; unfold err_row; apply row_of_lt. }
  assert (E : N.lxor (isum gchi (fun k => N.land (err_row E0 k) delta) 0 0 n)
                     (isum gchi (fun k => N.land (err_row E1 k) delta) n 0 checkRows)
              = isum gchi d 0 0 (n + checkRows)).
  { rewrite isum_app. simpl Nat.add. f_equal.
    - apply isum_ext. intros i Hi. unfold d.
      assert (Hl : Nat.ltb i n = true) by (apply Nat.ltb_lt; lia). rewrite Hl. reflexivity.
    - rewrite <- (Nat.add_0_r n) at 3.
      assert (G : forall m s o, isum gchi (fun k => N.land (err_row E1 k) delta) s o m
                              = isum gchi d s (n + o) m).
      { induction m; intros s o; cbn [isum]; [reflexivity|]. rewrite IHm. f_equal.
        - f_equal. unfold d. assert (Hl : Nat.ltb (n + o) n = false) by (apply Nat.ltb_ge; lia).
          rewrite Hl. f_equal. f_equal. lia.
        - f_equal. lia. }
      apply G. }
  rewrite E. split.
  - intros Hz. pose proof (isum_generic_zero d (n + checkRows) 0 0 Hd Hz) as Hall. split.
    + intros i Hi. specialize (Hall i ltac:(lia)). cbn [Nat.add] in Hall. unfold d in Hall.
      assert (Hl : Nat.ltb i n = true) by (apply Nat.ltb_lt; lia). rewrite Hl in Hall. exact Hall.
    + intros k Hk. specialize (Hall (n + k) ltac:(lia)). cbn [Nat.add] in Hall. unfold d in Hall.
      assert (Hl : Nat.ltb (n + k) n = false) by (apply Nat.ltb_ge; lia). rewrite Hl in Hall.
      replace (n + k - n) with k in Hall by lia. exact Hall.
  - intros [H0 H1]. apply isum_zero. intros i Hi. unfold d.
    destruct (Nat.ltb i n) eqn:Hl.
    + apply H0. apply Nat.ltb_lt. exact Hl.
    + apply H1. apply Nat.ltb_ge in Hl. lia.
Qed.

Section MultiFlip.
  Variables g0 g1 : nat -> nat -> N.
  Variable chi_of : N -> nat -> N.
  Variable bl : list bool.
  Variables b0 b1 seed : N.
  Variable pos : nat.
  Variable delta : N.
  Hypothesis Hdelta : (delta < 2^128)%N.
  Variables (tr : transcript) (res : list N) (pos' : nat).
  Hypothesis Hrun : receiver_run g0 g1 chi_of bl b0 b1 seed pos = (tr, res, pos').

  Let n := length bl.
  Let S_ := sender_run (sender_streams g0 g1 delta) delta chi_of.
  Let chi := prg_label chi_of seed.

  (* any set of flips: a non-zero syndrome is rejected *)
  Theorem multi_flip_detected : forall E0 E1,
    syndrome2 chi delta E0 E1 n <> 0%N -> S_ (tamper_bits E0 E1 tr) n pos = Reject.
  Proof.
    intros E0 E1 Hs.
    apply (reject_of_not_accept g0 g1 chi_of bl b0 b1 seed pos delta Hdelta tr res pos' Hrun).
    intros out Ha.
    apply (accept_bits_iff g0 g1 chi_of bl b0 b1 seed pos delta Hdelta tr res pos' Hrun) in Ha.
    destruct Ha as [_ Ha]. exact (Hs Ha).
  Qed.

  Definition pairset (a b : nat) : nat -> bool := fun i => xorb (Nat.eqb i a) (Nat.eqb i b).
  Definition nowhere : nat -> bool := fun _ => false.

  (* two flips in one selected column, payload rows a <> b: accepted iff the
     two rows have the SAME coefficient *)
  Theorem pair_payload_accept_iff : forall j0 a b out,
    j0 < K -> N.testbit delta (N.of_nat j0) = true -> a < n -> b < n ->
    (S_ (tamper_bits (colflips j0 (pairset a b)) (colflips j0 nowhere) tr) n pos = Accept out <->
     out = map (qrow delta (t_ g0 pos) (b_ bl) (err_row (colflips j0 (pairset a b)))) (seq 0 n) /\
     chi (coeff_idx n 0 a) = chi (coeff_idx n 0 b)).
  Proof.
    intros j0 a b out Hj Hd Ha Hb. unfold S_, n.
    rewrite (column_flips_accept_iff g0 g1 chi_of bl b0 b1 seed pos delta Hdelta tr res pos' Hrun
               j0 (pairset a b) nowhere out Hj Hd).
    unfold pairset. rewrite csum_xorb, !csum_single by (fold n; lia).
    rewrite (csum_none _ nowhere) by reflexivity.
    rewrite N.lxor_0_r, !Nat.sub_0_r. simpl Nat.add. unfold coeff_idx. simpl Nat.eqb. cbv iota.
    fold chi. split; intros [Ho He]; (split; [exact Ho|]).
    - apply N.lxor_eq. exact He.
    - rewrite He. apply N.lxor_nilpotent.
  Qed.

  (* the same position-column in the payload batch (row a) and in the check
     batch (row k): accepted iff chi(a) = chi(n + k) *)
  Theorem pair_payload_check_accept_iff : forall j0 a k out,
    j0 < K -> N.testbit delta (N.of_nat j0) = true -> a < n -> k < checkRows ->
    (S_ (tamper_bits (colflips j0 (fun i => Nat.eqb i a)) (colflips j0 (fun i => Nat.eqb i k)) tr) n pos = Accept out <->
     out = map (qrow delta (t_ g0 pos) (b_ bl) (err_row (colflips j0 (fun i => Nat.eqb i a)))) (seq 0 n) /\
     chi (coeff_idx n 0 a) = chi (coeff_idx n 1 k)).
  Proof.
    intros j0 a k out Hj Hd Ha Hk. unfold S_, n.
    rewrite (column_flips_accept_iff g0 g1 chi_of bl b0 b1 seed pos delta Hdelta tr res pos' Hrun
               j0 (fun i => Nat.eqb i a) (fun i => Nat.eqb i k) out Hj Hd).
    rewrite !csum_single by (fold n; lia).
    rewrite !Nat.sub_0_r. simpl Nat.add. unfold coeff_idx. simpl Nat.eqb. cbv iota.
    fold chi. fold n. split; intros [Ho He]; (split; [exact Ho|]).
    - apply N.lxor_eq. exact He.
    - rewrite He. apply N.lxor_nilpotent.
  Qed.

  (* hence with distinct coefficients both pair shapes are rejected *)
  Corollary pair_payload_detected : forall j0 a b,
    j0 < K -> N.testbit delta (N.of_nat j0) = true -> a < n -> b < n ->
    chi (coeff_idx n 0 a) <> chi (coeff_idx n 0 b) ->
    S_ (tamper_bits (colflips j0 (pairset a b)) (colflips j0 nowhere) tr) n pos = Reject.
  Proof.
    intros j0 a b Hj Hd Ha Hb Hne.
    apply (reject_of_not_accept g0 g1 chi_of bl b0 b1 seed pos delta Hdelta tr res pos' Hrun).
    intros out Hacc. apply pair_payload_accept_iff in Hacc; try assumption. destruct Hacc as [_ He]. exact (Hne He).
  Qed.

  Corollary pair_payload_check_detected : forall j0 a k,
    j0 < K -> N.testbit delta (N.of_nat j0) = true -> a < n -> k < checkRows ->
    chi (coeff_idx n 0 a) <> chi (coeff_idx n 1 k) ->
    S_ (tamper_bits (colflips j0 (fun i => Nat.eqb i a)) (colflips j0 (fun i => Nat.eqb i k)) tr) n pos = Reject.
  Proof.
    intros j0 a k Hj Hd Ha Hk Hne.
    apply (reject_of_not_accept g0 g1 chi_of bl b0 b1 seed pos delta Hdelta tr res pos' Hrun).
    intros out Hacc. apply pair_payload_check_accept_iff in Hacc; try assumption. destruct Hacc as [_ He]. exact (Hne He).
  Qed.

  (* a chi stream that REPEATS a coefficient (e.g. one that restarts for every
     block / for the check batch) is refuted: the two flips cancel, the sender
     accepts and output a is wrong *)
  Theorem repeated_coefficient_payload_check_forge : forall j0 a k,
    j0 < K -> N.testbit delta (N.of_nat j0) = true -> a < n -> k < checkRows ->
    chi (coeff_idx n 0 a) = chi (coeff_idx n 1 k) ->
    exists out,
      S_ (tamper_bits (colflips j0 (fun i => Nat.eqb i a)) (colflips j0 (fun i => Nat.eqb i k)) tr) n pos = Accept out /\
      corr_holds delta out res bl = false.
  Proof.
    intros j0 a k Hj Hd Ha Hk He. eexists. split.
    - apply pair_payload_check_accept_iff; try assumption. split; [reflexivity | exact He].
    - apply (column_flips_break_correlation g0 g1 chi_of bl b0 b1 seed pos delta Hdelta tr res pos' Hrun
               j0 (fun i => Nat.eqb i a) a Hj Hd Ha). apply Nat.eqb_refl.
  Qed.

  Theorem repeated_coefficient_payload_forge : forall j0 a b,
    j0 < K -> N.testbit delta (N.of_nat j0) = true -> a < n -> b < n -> a <> b ->
    chi (coeff_idx n 0 a) = chi (coeff_idx n 0 b) ->
    exists out,
      S_ (tamper_bits (colflips j0 (pairset a b)) (colflips j0 nowhere) tr) n pos = Accept out /\
      corr_holds delta out res bl = false.
  Proof.
    intros j0 a b Hj Hd Ha Hb Hab He. eexists. split.
    - apply pair_payload_accept_iff; try assumption. split; [reflexivity | exact He].
    - apply (column_flips_break_correlation g0 g1 chi_of bl b0 b1 seed pos delta Hdelta tr res pos' Hrun
               j0 (pairset a b) a Hj Hd Ha). unfold pairset. rewrite Nat.eqb_refl.
      destruct (Nat.eqb_spec a b); [contradiction | reflexivity].
  Qed.
End MultiFlip.

(* conjunctions used by Props/C15.v *)
Lemma selected_rows_detected :
  forall g0 g1 chi_of bl b0 b1 seed pos delta, (delta < 2^128)%N ->
  forall tr res pos', receiver_run g0 g1 chi_of bl b0 b1 seed pos = (tr, res, pos') ->
  (forall E0 i0,
    i0 < length bl -> (forall j i, E0 j i = true -> i = i0) ->
    N.land (err_row E0 i0) delta <> 0%N -> prg_label chi_of seed i0 <> 0%N ->
    sender_run (sender_streams g0 g1 delta) delta chi_of (tamper_bits E0 noerr tr) (length bl) pos = Reject) /\
  (forall E1 i0,
    i0 < checkRows -> (forall j i, E1 j i = true -> i = i0) ->
    N.land (err_row E1 i0) delta <> 0%N -> prg_label chi_of seed (length bl + i0) <> 0%N ->
    sender_run (sender_streams g0 g1 delta) delta chi_of (tamper_bits noerr E1 tr) (length bl) pos = Reject).
Proof.
  intros g0 g1 chi_of bl b0 b1 seed pos delta Hd tr res pos' Hrun. split.
  - exact (selected_row_detected g0 g1 chi_of bl b0 b1 seed pos delta Hd tr res pos' Hrun).
  - exact (selected_check_row_detected g0 g1 chi_of bl b0 b1 seed pos delta Hd tr res pos' Hrun).
Qed.

Lemma pair_flip_detected :
  forall g0 g1 chi_of bl b0 b1 seed pos delta, (delta < 2^128)%N ->
  forall tr res pos', receiver_run g0 g1 chi_of bl b0 b1 seed pos = (tr, res, pos') ->
  forall j0, j0 < K -> N.testbit delta (N.of_nat j0) = true ->
  (forall a b, a < length bl -> b < length bl ->
    prg_label chi_of seed (coeff_idx (length bl) 0 a) <> prg_label chi_of seed (coeff_idx (length bl) 0 b) ->
    sender_run (sender_streams g0 g1 delta) delta chi_of
               (tamper_bits (colflips j0 (pairset a b)) (colflips j0 nowhere) tr) (length bl) pos = Reject) /\
  (forall a k, a < length bl -> k < checkRows ->
    prg_label chi_of seed (coeff_idx (length bl) 0 a) <> prg_label chi_of seed (coeff_idx (length bl) 1 k) ->
    sender_run (sender_streams g0 g1 delta) delta chi_of
               (tamper_bits (colflips j0 (fun i => Nat.eqb i a)) (colflips j0 (fun i => Nat.eqb i k)) tr) (length bl) pos = Reject).
Proof.
  intros g0 g1 chi_of bl b0 b1 seed pos delta Hd tr res pos' Hrun j0 Hj Hdj. split.
  - intros a b. exact (pair_payload_detected g0 g1 chi_of bl b0 b1 seed pos delta Hd tr res pos' Hrun j0 a b Hj Hdj).
  - intros a k. exact (pair_payload_check_detected g0 g1 chi_of bl b0 b1 seed pos delta Hd tr res pos' Hrun j0 a k Hj Hdj).
Qed.

Lemma repeated_coefficient_refuted :
  forall g0 g1 chi_of bl b0 b1 seed pos delta, (delta < 2^128)%N ->
  forall tr res pos', receiver_run g0 g1 chi_of bl b0 b1 seed pos = (tr, res, pos') ->
  forall j0, j0 < K -> N.testbit delta (N.of_nat j0) = true ->
  (forall a k, a < length bl -> k < checkRows ->
    prg_label chi_of seed (coeff_idx (length bl) 0 a) = prg_label chi_of seed (coeff_idx (length bl) 1 k) ->
    exists out,
      sender_run (sender_streams g0 g1 delta) delta chi_of
                 (tamper_bits (colflips j0 (fun i => Nat.eqb i a)) (colflips j0 (fun i => Nat.eqb i k)) tr) (length bl) pos = Accept out /\
      corr_holds delta out res bl = false) /\
  (forall a b, a < length bl -> b < length bl -> a <> b ->
    prg_label chi_of seed (coeff_idx (length bl) 0 a) = prg_label chi_of seed (coeff_idx (length bl) 0 b) ->
    exists out,
      sender_run (sender_streams g0 g1 delta) delta chi_of
                 (tamper_bits (colflips j0 (pairset a b)) (colflips j0 nowhere) tr) (length bl) pos = Accept out /\
      corr_holds delta out res bl = false).
Proof.
  intros g0 g1 chi_of bl b0 b1 seed pos delta Hd tr res pos' Hrun j0 Hj Hdj. split.
  - intros a k. exact (repeated_coefficient_payload_check_forge g0 g1 chi_of bl b0 b1 seed pos delta Hd tr res pos' Hrun j0 a k Hj Hdj).
  - intros a b. exact (repeated_coefficient_payload_forge g0 g1 chi_of bl b0 b1 seed pos delta Hd tr res pos' Hrun j0 a b Hj Hdj).
Qed.

(* ======================================================================== *)
(* Part 8: alterations of the challenge response alone                       *)
(* ======================================================================== *)

Section ResponseAlteration.
  Variables g0 g1 : nat -> nat -> N.
  Variable chi_of : N -> nat -> N.
  Variable bl : list bool.
  Variables b0 b1 seed : N.
  Variable pos : nat.
  Variable delta : N.
  Hypothesis Hdelta : (delta < 2^128)%N.
  Variables (tr : transcript) (res : list N) (pos' : nat).
  Hypothesis Hrun : receiver_run g0 g1 chi_of bl b0 b1 seed pos = (tr, res, pos').

  Let n := length bl.
  Let S_ := sender_run (sender_streams g0 g1 delta) delta chi_of.

  (* matrix, seed and x untouched, the 256-bit tag (t0, t1) replaced by ANY
     other pair of naturals: rejected.  The comparison is a full equality of
     both 128-bit halves. *)
  Theorem tag_alteration_rejected : forall t0h t1h,
    (t0h, t1h) <> (tr_t0 tr, tr_t1 tr) ->
    S_ (tamper noerr noerr (tr_seed tr) (tr_x tr) t0h t1h tr) n pos = Reject.
  Proof.
    intros t0h t1h Hne. unfold S_, n.
    rewrite (sender_run_spec g0 g1 chi_of bl b0 b1 pos delta Hdelta _ _ _ _ noerr noerr
               (tr_seed tr) (tr_x tr) t0h t1h Hrun).
    destruct (sender_check _ _ _ _ (tr_x tr) t0h t1h) eqn:Hc; [exfalso | reflexivity].
    destruct (honest_accepts g0 g1 chi_of bl b0 b1 seed pos delta Hdelta tr res pos' Hrun) as [out [Ha _]].
    rewrite <- (tamper_noerr tr) in Ha at 1. unfold tamper_bits in Ha.
    rewrite (sender_run_spec g0 g1 chi_of bl b0 b1 pos delta Hdelta _ _ _ _ noerr noerr
               (tr_seed tr) (tr_x tr) (tr_t0 tr) (tr_t1 tr) Hrun) in Ha.
    destruct (sender_check _ _ _ _ (tr_x tr) (tr_t0 tr) (tr_t1 tr)) eqn:Hh; [|discriminate].
    apply sender_check_rows in Hc. apply sender_check_rows in Hh.
    apply Hne. rewrite <- Hc, <- Hh. reflexivity.
  Qed.

  Lemma lxor_mask_neq : forall a m, m <> 0%N -> N.lxor a m <> a.
  Proof.
    intros a m Hm H. apply Hm. apply (f_equal (N.lxor a)) in H.
    rewrite <- N.lxor_assoc, N.lxor_nilpotent, N.lxor_0_l in H. exact H.
  Qed.

  (* xor-masks on the tag halves; in particular the "mirrored" masks (the same
     64-bit pattern in both 64-bit halves of a label, e.g. bit k and bit k+64) *)
  Corollary tag_mask_rejected : forall m0 m1,
    (m0 <> 0%N \/ m1 <> 0%N) ->
    S_ (tamper noerr noerr (tr_seed tr) (tr_x tr) (N.lxor (tr_t0 tr) m0) (N.lxor (tr_t1 tr) m1) tr) n pos = Reject.
  Proof.
    intros m0 m1 Hm. apply tag_alteration_rejected. intros H. injection H as H0 H1.
    destruct Hm as [Hm|Hm]; [exact (lxor_mask_neq _ _ Hm H0) | exact (lxor_mask_neq _ _ Hm H1)].
  Qed.

  Definition mirrored (m : N) : N := (m + 2^64 * m)%N.

  Corollary mirrored_tag_alteration_rejected : forall k,
    (k < 64)%N ->
    S_ (tamper noerr noerr (tr_seed tr) (tr_x tr) (N.lxor (tr_t0 tr) (mirrored (2^k))) (tr_t1 tr) tr) n pos = Reject /\
    S_ (tamper noerr noerr (tr_seed tr) (tr_x tr) (tr_t0 tr) (N.lxor (tr_t1 tr) (mirrored (2^k))) tr) n pos = Reject.
  Proof.
    intros k Hk.
    assert (Hm : mirrored (2^k) <> 0%N).
    { unfold mirrored. pose proof (N.pow_nonzero 2 k ltac:(discriminate)). lia. }
    split.
    - rewrite <- (N.lxor_0_r (tr_t1 tr)) at 1. apply tag_mask_rejected. left. exact Hm.
    - rewrite <- (N.lxor_0_r (tr_t0 tr)) at 1. apply tag_mask_rejected. right. exact Hm.
  Qed.
End ResponseAlteration.

(* a concrete mirrored mask: bit 3 together with bit 67 *)
Example mirrored_mask_example : mirrored (2^3) = (2^3 + 2^67)%N /\ mirrored (2^3) <> 0%N.
Proof. split; [reflexivity | discriminate]. Qed.
