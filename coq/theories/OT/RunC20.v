(* RunC20.v — executable entry point of the C20 models for the correspondence
   check.  One case = (op args...):

     (0 mode p (labels...) (pads...) (xs...) (ys...))
         one Sender.Mul(xs, p) against one Receiver.Mul(ys, p) (or a slice of
         the element range of one; the model is element-wise).  labels = the
         IKNP labels of these elements (receiver side = sender side, choice
         flags all false).  mode 1: the label expansion is computed by the
         Gallina AES-CTR (pads ignored); mode 0: pads[i] is the expansion of
         labels[i], supplied as data.
         -> (1 (rs...) len(yb) (y blocks...) len(ub) (u blocks...) (us...))
            | (-1 code)
         a block is the big-endian value of one 32-byte block of the message
     (1 (rl bytes) a b)          FxSend(a) / FxReceive(b), rl = NewLabel()
         -> ((L0 L1) flag delivered r xb)
     (2 (rl bytes) (s bytes) b)  FxkSend(s) / FxkReceive(b)
         -> ((L0 L1) flag delivered (r bytes) (xb bytes))
     (3 (l bytes) (pre bytes) label)   bmr.Label methods on their own
         -> (l.ToOT(), pre.FromOT(label), l.Mul(0), l.Mul(1), l.Xor(pre))
     (5 (m...))                  traffic of one Mul of m elements, per m
         -> ((receiver bytes, sender bytes, (byteRows per IKNP chunk...))...)
     (6 mode Delta ((g0 column bytes...) x128) ((g1 column bytes...) x128)
        (labels...) (pads...) ((p (xs...) (ys...))...))
         a whole HISTORY of Mul calls on one Sender/Receiver pair from the
         start of the session (OT/VoleHist.v): the model is given only the
         pair's IKNP set-up — the receiver's 128 column key streams (AES-CTR of
         the base-OT wires' L0 / L1) and the sender's Delta — and the calls;
         it runs the IKNP model for every call at the stream offset the
         earlier calls left, then the exchange.  mode / labels / pads select
         the label expansion as in op 0 (the table is looked up by label VALUE).
         -> ((1 (rs...) (us...)) | (-1 code) ...)   one entry per call  *)
From Coq Require Import ZArith NArith List Bool.
From Mpc Require Import Gen.Consts Base.Sx Base.Codec Base.Label OT.Vole OT.Fx OT.VoleHist.
Import ListNotations.
Open Scope Z_scope.

Definition sx_wire (w : wire) : sx := SL [ofN (L0 w); ofN (L1 w)].

Definition run_vole (inp : sx) : sx :=
  let mode := getZ (nthx 1 inp) in
  let p := getZ (nthx 2 inp) in
  let labels := getLN (nthx 3 inp) in
  let pads := getLN (nthx 4 inp) in
  let xs := getLZ (nthx 5 inp) in
  let ys := getLZ (nthx 6 inp) in
  let expand := if mode =? 1 then expand_aes else expand_table (combine labels pads) in
  match vole_session expand labels labels xs ys p with
  | VErr c => sx_err c
  | VOk o =>
      let m := length xs in
      SL [SZ 1; ofLZ (vo_rs o);
          ofnat (length (vo_yb o)); ofLN (map of_be (blocks32 m (vo_yb o)));
          ofnat (length (vo_ub o)); ofLN (map of_be (blocks32 m (vo_ub o)));
          ofLZ (vo_us o)]
  end.

Definition run_vole_history (inp : sx) : sx :=
  let mode := getZ (nthx 1 inp) in
  let delta := getN (nthx 2 inp) in
  let g0 := cols_fn (map getLN (getL (nthx 3 inp))) in
  let g1 := cols_fn (map getLN (getL (nthx 4 inp))) in
  let labels := getLN (nthx 5 inp) in
  let pads := getLN (nthx 6 inp) in
  let calls := map (fun c => (getLZ (nthx 1 c), getLZ (nthx 2 c), getZ (nthx 0 c))) (getL (nthx 7 inp)) in
  let expand := if mode =? 1 then expand_aes else expand_table (combine labels pads) in
  SL (map (fun r => match r with
                    | VErr c => sx_err c
                    | VOk o => SL [SZ 1; ofLZ (vo_rs o); ofLZ (vo_us o)]
                    end)
          (vole_history g0 g1 delta expand (0%nat, 0%nat) calls)).

Definition run_c20 (inp : sx) : sx :=
  let op := getZ (nthx 0 inp) in
  if op =? 0 then run_vole inp
  else if op =? 1 then
    let '(w, got, r, xb) := fx ot_ideal (getLN (nthx 1 inp)) (getZ (nthx 2 inp)) (getZ (nthx 3 inp)) in
    SL [sx_wire w; ofB (fx_flag (getZ (nthx 3 inp))); ofN got; SZ r; SZ xb]
  else if op =? 2 then
    let '(w, got, r, xb) := fxk ot_ideal (getLN (nthx 1 inp)) (getLN (nthx 2 inp)) (getZ (nthx 3 inp)) in
    SL [sx_wire w; ofB (fx_flag (getZ (nthx 3 inp))); ofN got; ofLN r; ofLN xb]
  else if op =? 3 then
    let l := getLN (nthx 1 inp) in
    let pre := getLN (nthx 2 inp) in
    SL [ofN (to_ot l); ofLN (from_ot pre (getN (nthx 3 inp)));
        ofLN (bmul l 0); ofLN (bmul l 1); ofLN (bxor l pre)]
  else if op =? 5 then
    SL (map (fun m => SL [SZ (receiver_traffic m); SZ (sender_traffic m);
                          ofLZ (iknp_chunks (Z.to_nat m) m)]) (getLZ (nthx 1 inp)))
  else if op =? 6 then run_vole_history inp
  else sx_err 99.
