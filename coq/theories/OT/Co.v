(* Co.v — model of the Chou-Orlandi OT of ot/co.go and of its pure helper
   functions in ot/co_helpers.go over an abstract group.

   The elliptic curve is a Section group (G, gadd, gneg, gzero, smul, Gen);
   deriveMask(x, y, id) — SHA-256 over the point and the index, of which the
   xor in Encrypt/DecryptCOCiphertexts uses the first 16 bytes — is the
   Section function [kdf : G -> N -> N] (per-index domain separation is its
   second argument).  Each helper is split the way the Go loop body is:
   derive the mask(s) from the Diffie-Hellman point, then xor with the label
   bytes; the xor layer ([enc_masks]/[dec_masks]) is executable on real masks
   (RunC06.v).  Scalars are [N].  ensureOnCurve and the nil-curve checks only
   reject inputs; they are not modelled.  No proofs in this file. *)
From Coq Require Import NArith List Bool Arith.
From Mpc Require Import Base.Label.
Import ListNotations.

(* xor layer of EncryptCOCiphertexts: result[idx].Zero = mask0 xor L0, .One = mask1 xor L1 *)
Fixpoint enc_masks (ms : list (N * N)) (wires : list wire) : list (N * N) :=
  match ms, wires with
  | (m0, m1) :: ms', w :: ws => (N.lxor m0 (L0 w), N.lxor m1 (L1 w)) :: enc_masks ms' ws
  | _, _ => []
  end.

(* xor layer of DecryptCOCiphertexts: mask xor (bit ? data.One : data.Zero) *)
Fixpoint dec_masks (ms : list N) (bits : list bool) (cts : list (N * N)) : list N :=
  match ms, bits, cts with
  | m :: ms', b :: bs, ct :: cts' => N.lxor m (if b then snd ct else fst ct) :: dec_masks ms' bs cts'
  | _, _, _ => []
  end.

(* xor(dst, src) of co_helpers.go as a value: dst[:l] ^ src[:l], l the shorter length *)
Definition xor_trunc (a b : list N) : list N := map (fun p => N.lxor (fst p) (snd p)) (combine a b).
(* COSenderXfer.ReceiveB: e0 = xor(mask0[:], m0), e1 = xor(mask1[:], m1) (messages are byte strings) *)
Definition xfer_encrypt (mask0 mask1 m0 m1 : list N) : list N * list N :=
  (xor_trunc mask0 m0, xor_trunc mask1 m1).
(* COReceiverXfer.ReceiveE: xor(mask[:], bit ? e1 : e0) *)
Definition xfer_decrypt (mask : list N) (bit : bool) (e0 e1 : list N) : list N :=
  xor_trunc mask (if bit then e1 else e0).

Section Co.
  Variable G : Type.
  Variables (gadd : G -> G -> G) (gneg : G -> G) (gzero : G) (smul : N -> G -> G) (Gen : G).
  Variable kdf : G -> N -> N.

  (* COSenderSetup: Scalar a, A = a*G, AaInv = -(a*A) *)
  Record setup := mkSetup { s_a : N; s_A : G; s_AaInv : G }.
  Definition GenerateCOSenderSetup (a : N) : setup :=
    let A := smul a Gen in mkSetup a A (gneg (smul a A)).

  (* BuildCOChoices: B = b*G (+ A when the bit is set) *)
  Fixpoint BuildCOChoices (A : G) (scalars : list N) (bits : list bool) : list G :=
    match scalars, bits with
    | b :: ss, bit :: bs =>
        (if bit then gadd (smul b Gen) A else smul b Gen) :: BuildCOChoices A ss bs
    | _, _ => []
    end.

  (* EncryptCOCiphertexts: mask0 = deriveMask(a*B, idx), mask1 = deriveMask(a*B + AaInv, idx) *)
  Fixpoint sender_masks (s : setup) (idx : N) (points : list G) : list (N * N) :=
    match points with
    | [] => []
    | P :: ps =>
        let B := smul (s_a s) P in
        (kdf B idx, kdf (gadd B (s_AaInv s)) idx) :: sender_masks s (idx + 1) ps
    end.
  Definition EncryptCOCiphertexts (s : setup) (points : list G) (wires : list wire) : option (list (N * N)) :=
    if negb (length points =? length wires)%nat then None
    else Some (enc_masks (sender_masks s 0 points) wires).

  (* DecryptCOCiphertexts: mask = deriveMask(b*A, idx) *)
  Fixpoint receiver_masks (A : G) (idx : N) (scalars : list N) : list N :=
    match scalars with
    | [] => []
    | b :: ss => kdf (smul b A) idx :: receiver_masks A (idx + 1) ss
    end.
  Definition DecryptCOCiphertexts (A : G) (scalars : list N) (bits : list bool) (data : list (N * N))
    : option (list N) :=
    if negb ((length scalars =? length bits)%nat && (length data =? length bits)%nat) then None
    else Some (dec_masks (receiver_masks A 0 scalars) bits data).

  (* CO.Send ‖ CO.Receive: setup, choices, ciphertexts, decryption (the byte
     strings on the wire are the big-endian encodings of these values) *)
  Definition co_transfer (a : N) (scalars : list N) (bits : list bool) (wires : list wire) : option (list N) :=
    let s := GenerateCOSenderSetup a in
    let points := BuildCOChoices (s_A s) scalars bits in
    match EncryptCOCiphertexts s points wires with
    | None => None
    | Some cts => DecryptCOCiphertexts (s_A s) scalars bits cts
    end.

  (* COSenderXfer / COReceiverXfer (single transfer, id 0) on label-sized messages *)
  Definition xfer_sender_masks (a : N) (B : G) : N * N :=
    let A := smul a Gen in
    let Ba := smul a B in
    (kdf Ba 0, kdf (gadd Ba (gneg (smul a A))) 0).
  Definition xfer_receiver_point (A : G) (b : N) (bit : bool) : G :=
    if bit then gadd (smul b Gen) A else smul b Gen.
  Definition xfer_receiver_mask (A : G) (b : N) : N := kdf (smul b A) 0.

  (* the whole single transfer on byte strings; [kdfb P] = the 32 mask bytes deriveMask(P, 0) *)
  Variable kdfb : G -> list N.
  Definition xfer_transfer (a b : N) (bit : bool) (m0 m1 : list N) : list N :=
    let A := smul a Gen in
    let B := xfer_receiver_point A b bit in
    let Ba := smul a B in
    let e := xfer_encrypt (kdfb Ba) (kdfb (gadd Ba (gneg (smul a A)))) m0 m1 in
    xfer_decrypt (kdfb (smul b A)) bit (fst e) (snd e).
End Co.
