(* Gf128.v — carry-less multiplication used by the malicious-mode OT extension
   check (property C15).  Model file: definitions only, proofs in Gf128Proof.v.

   Go sources mirrored:
     ot/mul128_generic.go   mul128Generic, clmul64
     ot/mul128.go           mul128 (= mul128Generic when !amd64 || !gc)
     ot/mul128_amd64.go/.s  mul128 -> mul128CLMUL (PCLMULQDQ, Karatsuba) on amd64
     ot/mul128_ref.go       mul128Ref (bit-by-bit reference used by the tests)
     ot/gf128.go            vectorInnPrdtSumNoRed

   Representation.  A Label {D0, D1 uint64} is, for this arithmetic, the
   polynomial  D0 + 2^64 * D1  over GF(2): Label.Bit(i) reads D0 for i < 64 and
   D1 above, mul128Generic takes a.D0 as the LOW limb.  All labels in the OT
   models are therefore [N] in this "polynomial order" (NOT the D0-high order
   of Base/Label.v that the garbling code uses for printing).

   The product is NOT reduced: mul128 returns the 256-bit polynomial product
   as (lo, hi) = (bits 0..127, bits 128..255). *)
From Coq Require Import NArith List Bool.
Import ListNotations.
Local Open Scope N_scope.

(* ---- polynomial multiplication over GF(2) on N (unbounded) -------------- *)

(* a(X) * b(X) by Horner on the bits of a:  (2a'+1)*b = b xor 2*(a'*b). *)
Fixpoint clmul_pos (a : positive) (b : N) : N :=
  match a with
  | xH => b
  | xO a' => N.double (clmul_pos a' b)
  | xI a' => N.lxor b (N.double (clmul_pos a' b))
  end.

Definition clmul (a b : N) : N :=
  match a with
  | N0 => 0
  | Npos p => clmul_pos p b
  end.

(* x mod 2^k and x / 2^k, computed by masking and shifting (linear time in the
   extracted model; Gf128Proof.lowbits_mod / highbits_div give the arithmetic
   reading) *)
Definition lowbits (k x : N) : N := N.land x (N.ones k).
Definition highbits (k x : N) : N := N.shiftr x k.

(* (lo, hi) halves of a 256-bit product *)
Definition split128 (x : N) : N * N := (lowbits 128 x, highbits 128 x).
Definition join128 (p : N * N) : N := fst p + 2^128 * snd p.

(* pairwise xor of (lo, hi) pairs: Label.Xor on both halves *)
Definition pxor (p q : N * N) : N * N := (N.lxor (fst p) (fst q), N.lxor (snd p) (snd q)).

(* ---- ot/mul128_generic.go ------------------------------------------------ *)

(* one iteration of the loop of clmul64 on uint64 values:
     if (b>>i)&1 != 0 { if i == 0 { lo ^= a } else { lo ^= a << i; hi ^= a >> (64-i) } }
   [a << i] wraps at 64 bits. *)
Definition clmul64_step (a b : N) (i : N) (acc : N * N) : N * N :=
  let '(lo, hi) := acc in
  if N.testbit b i then
    if N.eqb i 0 then (N.lxor lo a, hi)
    else (N.lxor lo (lowbits 64 (N.shiftl a i)), N.lxor hi (N.shiftr a (64 - i)))
  else (lo, hi).

Fixpoint clmul64_loop (fuel : nat) (i : N) (a b : N) (acc : N * N) : N * N :=
  match fuel with
  | O => acc
  | S f => clmul64_loop f (N.succ i) a b (clmul64_step a b i acc)
  end.

(* func clmul64(a, b uint64) (lo, hi uint64) *)
Definition clmul64 (a b : N) : N * N := clmul64_loop 64 0 a b (0, 0).

(* func mul128Generic(a, b Label) (lo, hi Label); labels in polynomial order,
   so a.D0 = a mod 2^64 = lowbits 64 a and a.D1 = a / 2^64 = highbits 64 a. *)
Definition mul128_generic (a b : N) : N * N :=
  let a0 := lowbits 64 a in let a1 := highbits 64 a in
  let b0 := lowbits 64 b in let b1 := highbits 64 b in
  let '(p00lo, p00hi) := clmul64 a0 b0 in
  let '(p01lo, p01hi) := clmul64 a0 b1 in
  let '(p10lo, p10hi) := clmul64 a1 b0 in
  let '(p11lo, p11hi) := clmul64 a1 b1 in
  let midLo := N.lxor p01lo p10lo in
  let midHi := N.lxor p01hi p10hi in
  let loD0 := p00lo in
  let loD1 := N.lxor p00hi midLo in
  let hiD0 := N.lxor midHi p11lo in
  let hiD1 := p11hi in
  (loD0 + 2^64 * loD1, hiD0 + 2^64 * hiD1).

(* ---- ot/mul128_ref.go ---------------------------------------------------- *)

(* mul128Ref: r[i+j] ^= a_i & b_j.  Transcribed as: for every set bit i of a
   (i < 128) xor (b mod 2^128) << i into the 256-bit accumulator. *)
Fixpoint mul128_ref_loop (fuel : nat) (i : N) (a b acc : N) : N :=
  match fuel with
  | O => acc
  | S f => mul128_ref_loop f (N.succ i) a b
             (if N.testbit a i then N.lxor acc (N.shiftl b i) else acc)
  end.
Definition mul128_ref (a b : N) : N * N :=
  split128 (mul128_ref_loop 128 0 a (lowbits 128 b) 0).

(* ---- the dispatching mul128 ---------------------------------------------- *)

(* mul128 as the check calls it.  On !amd64 it IS mul128Generic; on amd64 it is
   the PCLMULQDQ routine.  The model takes the specification (the polynomial
   product, split); Gf128Proof.clmul_generic proves mul128_generic equal to it
   for all 128-bit operands, and the correspondence run compares both with the
   function the Go binary really dispatches to. *)
Definition mul128 (a b : N) : N * N := split128 (clmul a b).

(* ---- ot/gf128.go --------------------------------------------------------- *)

(* vectorInnPrdtSumNoRed(a, b): xor of the unreduced products over
   min(len a, len b) positions, low and high halves accumulated separately.
   (Go accumulates left to right; xor is associative-commutative, the order
   is not observable.) *)
Fixpoint inn_prdt (a b : list N) : N * N :=
  match a, b with
  | x :: a', y :: b' => pxor (mul128 x y) (inn_prdt a' b')
  | _, _ => (0, 0)
  end.

(* the same sum as one 256-bit polynomial (used by the proofs) *)
Fixpoint inn256 (a b : list N) : N :=
  match a, b with
  | x :: a', y :: b' => N.lxor (clmul x y) (inn256 a' b')
  | _, _ => 0
  end.
