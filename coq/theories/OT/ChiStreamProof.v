(* ChiStreamProof.v — theorems about the chi coefficient stream (OT/ChiStream.v):
   for EVERY keystream, EVERY array size > 0 and content, EVERY stream position
   and EVERY batch size n, the in-place block loop multiplies payload row i by
   the label drawn at byte position pos + 16*i and by nothing else, and check
   row r by the label at pos + 16*(n+r). *)
From Coq Require Import NArith List Bool Arith Lia.
From Mpc Require Import OT.Gf128 OT.Kos OT.ChiStream.
Import ListNotations.

Section Stream.
Variable blk : nat -> list N.

Notation lab := (lab_at blk).

Lemma map_seq_shift : forall (A : Type) (f : nat -> A) s c,
  map f (seq (S s) c) = map (fun j => f (S j)) (seq s c).
Proof. intros. rewrite <- seq_shift, map_map. reflexivity. Qed.

(* prgLabels on a prefix: count fresh labels, the rest untouched *)
Lemma prg_labels_spec : forall count arr pos,
  count <= length arr ->
  prg_labels blk pos count arr =
    (map (fun j => lab (pos + 16 * j)) (seq 0 count) ++ skipn count arr, pos + 16 * count).
Proof.
  induction count as [|c IH]; intros arr pos Hl.
  - simpl. destruct arr; simpl; f_equal; lia.
  - destruct arr as [|a r]; [simpl in Hl; lia|].
    simpl in Hl. cbn [prg_labels prg_read]. rewrite IH by lia.
    cbn [seq map app skipn]. rewrite map_seq_shift.
    f_equal; [|lia]. f_equal.
    + replace (pos + 16 * 0) with pos by lia. reflexivity.
    + f_equal. apply map_ext. intros j. f_equal. lia.
Qed.

Lemma pairs_from_map : forall c f i,
  pairs_from i (map f (seq 0 c)) = map (fun k => (f (k - i), k)) (seq i c).
Proof.
  induction c as [|c IH]; intros f i; [reflexivity|].
  cbn [seq map pairs_from]. rewrite map_seq_shift, IH. f_equal.
  - f_equal. f_equal. lia.
  - apply map_ext_in. intros k Hk. apply in_seq in Hk. do 2 f_equal. lia.
Qed.

Lemma firstn_app_exact : forall (A : Type) (l r : list A) c, length l = c -> firstn c (l ++ r) = l.
Proof. intros A l r c H. subst c. rewrite firstn_app, Nat.sub_diag, firstn_all. simpl. apply app_nil_r. Qed.

Lemma skipn_app_exact : forall (A : Type) (l r : list A) c, length l = c -> skipn c (l ++ r) = r.
Proof. intros A l r c H. subst c. rewrite skipn_app, Nat.sub_diag, skipn_all. reflexivity. Qed.

(* the block loop from row i on *)
Lemma chi_loop_spec : forall fuel i pos arr n,
  0 < length arr -> n - i <= fuel ->
  exists arr',
    chi_loop blk fuel pos arr i n =
      (map (fun k => (lab (pos + 16 * (k - i)), k)) (seq i (n - i)), arr', pos + 16 * (n - i))
    /\ length arr' = length arr.
Proof.
  induction fuel as [|f IH]; intros i pos arr n HL Hf.
  - replace (n - i) with 0 by lia. simpl. exists arr. split; [f_equal; lia|reflexivity].
  - cbn [chi_loop]. destruct (n <=? i) eqn:Hle.
    + apply Nat.leb_le in Hle. replace (n - i) with 0 by lia. simpl. exists arr. split; [f_equal; lia|reflexivity].
    + apply Nat.leb_gt in Hle.
      set (L := length arr) in *. set (count := min (n - i) L).
      assert (Hc : count <= L) by (unfold count; lia).
      rewrite prg_labels_spec by exact Hc.
      set (fresh := map (fun j => lab (pos + 16 * j)) (seq 0 count)).
      assert (Hfl : length fresh = count) by (unfold fresh; rewrite map_length, seq_length; reflexivity).
      assert (Hlen1 : length (fresh ++ skipn count arr) = L).
      { rewrite app_length, skipn_length, Hfl. fold L. lia. }
      destruct (IH (i + L) (pos + 16 * count) (fresh ++ skipn count arr) n) as [arr' [E Hl']];
        [rewrite Hlen1; exact HL | lia |].
      rewrite E. exists arr'. split; [|rewrite Hl'; exact Hlen1].
      rewrite firstn_app_exact by exact Hfl.
      unfold fresh. rewrite pairs_from_map.
      f_equal; [f_equal|].
      * destruct (le_lt_dec L (n - i)) as [Hge|Hlt].
        -- assert (count = L) by (unfold count; lia).
           assert (Hs : seq i (n - i) = seq i L ++ seq (i + L) (n - (i + L)))
             by (rewrite <- seq_app; f_equal; lia).
           rewrite Hs, map_app. f_equal.
           ++ rewrite H. reflexivity.
           ++ apply map_ext_in. intros k Hk. apply in_seq in Hk. do 2 f_equal. lia.
        -- assert (count = n - i) by (unfold count; lia).
           replace (n - (i + L)) with 0 by lia. rewrite H. simpl. apply app_nil_r.
      * destruct (le_lt_dec L (n - i)); unfold count; lia.
Qed.

(* THE schedule theorem: payload row i < n meets exactly the label at
   pos + 16 i, check row r < 256 exactly the label at pos + 16 (n + r) *)
Theorem chi_schedule_spec : forall pos arr n,
  checkRows <= length arr ->
  chi_schedule blk pos arr n =
    (map (fun i => (lab (pos + 16 * i), i)) (seq 0 n),
     map (fun r => (lab (pos + 16 * (n + r)), r)) (seq 0 checkRows),
     pos + 16 * (n + checkRows)).
Proof.
  intros pos arr n HL. unfold chi_schedule.
  assert (H0 : 0 < length arr) by (unfold checkRows in HL; lia).
  destruct (chi_loop_spec (S n) 0 pos arr n H0 ltac:(lia)) as [arr' [E Hl]].
  rewrite E, prg_labels_spec by (rewrite Hl; exact HL).
  rewrite firstn_app_exact by (rewrite map_length, seq_length; reflexivity).
  rewrite pairs_from_map, Nat.sub_0_r.
  f_equal; [f_equal|lia].
  - apply map_ext. intros k. f_equal. f_equal. lia.
  - apply map_ext. intros k. f_equal. f_equal. lia.
Qed.

(* every payload row index < n is covered by exactly one coefficient *)
Theorem chi_rows_covered_once : forall pos arr n,
  checkRows <= length arr ->
  let '(ps, cs, _) := chi_schedule blk pos arr n in
  map snd ps = seq 0 n /\ map snd cs = seq 0 checkRows /\
  (forall i, i < n -> count_occ Nat.eq_dec (map snd ps) i = 1) /\
  (forall i, n <= i -> count_occ Nat.eq_dec (map snd ps) i = 0).
Proof.
  intros pos arr n HL. rewrite chi_schedule_spec by exact HL.
  rewrite !map_map. cbn [snd]. rewrite !map_id.
  split; [reflexivity|]. split; [reflexivity|]. split; intros i Hi.
  - apply NoDup_count_occ'; [apply seq_NoDup | apply in_seq; lia].
  - apply count_occ_not_In. intros H. apply in_seq in H. lia.
Qed.

Lemma seq_add_map : forall m s b, map (fun t => b + t) (seq s m) = seq (b + s) m.
Proof. induction m as [|m IH]; intros s b; [reflexivity|]. simpl. rewrite IH. f_equal. f_equal. lia. Qed.

(* a label drawn at a block boundary is made of that one keystream block:
   from position 0 coefficient i depends on (keystream block i) only *)
Theorem lab_at_block : forall c, lab (16 * c) = lab_block blk c.
Proof.
  intros c. unfold lab_at, lab_block. f_equal.
  replace (seq (16 * c) 16) with (map (fun t => 16 * c + t) (seq 0 16)).
  2:{ rewrite seq_add_map. f_equal. lia. }
  rewrite map_map. apply map_ext_in. intros t Ht. apply in_seq in Ht.
  unfold ks_byte. f_equal.
  - rewrite Nat.mul_comm, Nat.add_comm, Nat.mod_add by lia. apply Nat.mod_small. lia.
  - f_equal. rewrite Nat.mul_comm, Nat.add_comm, Nat.div_add by lia. rewrite Nat.div_small by lia. reflexivity.
Qed.

End Stream.

(* non-vacuity: the Go array (1024 zero labels) satisfies the hypothesis, and
   the loop really crosses a block boundary in place (n = 1030, identity-like
   keystream: block c is 16 bytes equal to c mod 256) *)
Example chi_array0_ok : checkRows <= length chi_array0.
Proof. vm_compute. lia. Qed.

Example chi_schedule_run :
  let blk := fun c => repeat (N.of_nat (c mod 256)) 16 in
  let '(ps, cs, pos) := chi_schedule blk 0 chi_array0 1030 in
  (length ps, length cs, pos, nth 1027 (map snd ps) 0, N.eqb (fst (nth 1027 ps (0%N, 0))) (lab_block blk 1027)) =
  (1030, 256, 16 * 1286, 1027, true).
Proof. vm_compute. reflexivity. Qed.
