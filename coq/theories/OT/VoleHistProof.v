(* VoleHistProof.v — theorems about OT/VoleHist.v: a vole Sender/Receiver pair
   reused for any history of Mul calls.  The IKNP correlation is no longer a
   hypothesis here: it is discharged by IknpProof.iknp_labels (the executable
   IKNP model of ot/iknp.go, property C06) at whatever stream offset the
   earlier calls of the history left the pair. *)
From Coq Require Import ZArith NArith List Bool Lia Arith.
From Mpc Require Import Gen.Consts Base.Codec OT.Iknp OT.IknpProof OT.Vole OT.VoleProof OT.VoleHist.
Import ListNotations.
Local Open Scope nat_scope.

(* domain of one call: modulus of at most 256 bits, vectors of the same
   length, the receiver's elements in [0, 2^256) *)
Definition vcall_ok (c : vcall) : Prop :=
  let '(xs, ys, p) := c in
  (0 < p <= 2 ^ 256)%Z /\ length ys = length xs /\ Forall (fun y => (0 <= y < 2 ^ 256)%Z) ys.

(* what one finished call must satisfy *)
Definition vcall_shares (c : vcall) (o : vole_out) : Prop :=
  let '(xs, ys, p) := c in
  length (vo_rs o) = length xs /\ length (vo_us o) = length xs /\
  Forall (fun r => (0 <= r < p)%Z) (vo_rs o) /\ Forall (fun u => (0 <= u < p)%Z) (vo_us o) /\
  Forall3 (fun u r xy => ((u - r) mod p = (fst xy * snd xy) mod p)%Z)
          (vo_us o) (vo_rs o) (combine xs ys) /\
  map set_bytes (blocks32 (length xs) (vo_yb o)) = ys /\
  map set_bytes (blocks32 (length xs) (vo_ub o)) = vo_us o.

Section Hist.
  Variables g0 g1 : nat -> nat -> N.
  Variable Delta : N.
  Variable expand : N -> N.
  Hypothesis HD : (Delta < 2 ^ 128)%N.

  (* one extension of m labels with all-false flags at a common offset p0:
     both ends finish at a common offset, labels related by iknp_cot *)
  Lemma run_op_false m p0 :
    exists us sent rcvd cvs cvr p1,
      run_op g0 g1 Delta true true (p0, p0) (OpLabels (repeat false m) None)
      = Some (ResLabels us sent rcvd cvs cvr, (p1, p1)) /\
      iknp_cot Delta (repeat false m) sent rcvd.
  Proof.
    destruct (iknp_labels g0 g1 Delta true true [OpLabels (repeat false m) None] p0 HD)
      as (rs & p1 & Hrun & Hok).
    cbn [run_ops] in Hrun.
    destruct (run_op g0 g1 Delta true true (p0, p0) (OpLabels (repeat false m) None))
      as [[r st']|] eqn:Hop; [|discriminate].
    injection Hrun as Hrs Hst. subst rs st'.
    inversion Hok as [|o r' ops' rs' Hr _]; subst.
    destruct r as [us sent rcvd cvs cvr|]; [|contradiction].
    exists us, sent, rcvd, cvs, cvr, p1. split; [reflexivity|].
    destruct Hr as (Hs & Ht & Hn). unfold iknp_cot. auto.
  Qed.

  Lemma vole_call_ok c p0 : vcall_ok c ->
    exists o p1, vole_call g0 g1 Delta expand (p0, p0) c = (VOk o, (p1, p1)) /\ vcall_shares c o.
  Proof.
    destruct c as [[xs ys] p]. intros (Hp & Hlen & Hys).
    unfold vole_call. rewrite Hlen, Nat.eqb_refl. cbn [negb].
    destruct (length xs =? 0)%nat eqn:Hm.
    - apply Nat.eqb_eq in Hm. exists (mkVoleOut [] [] [] []), p0. split; [reflexivity|].
      destruct xs; [|discriminate]. destruct ys; [|discriminate].
      cbn. repeat split; constructor.
    - destruct (run_op_false (length xs) p0) as (us & sent & rcvd & cvs & cvr & p1 & Hop & Hcot).
      rewrite Hop.
      destruct (vole_session_correct expand Delta sent rcvd xs ys p Hp Hlen Hcot Hys)
        as (o & Ho & _ & H1 & H2 & H3 & H4 & H5 & _ & _ & H6 & H7).
      exists o, p1. split; [rewrite Ho; reflexivity|].
      unfold vcall_shares. tauto.
  Qed.

  (* Every history of Mul calls on one pair — any number of calls, every call
     with its own length (0 included) and its own modulus — started at any
     common stream offset: no call fails and every call returns shares of the
     products. *)
  Theorem vole_history_correct : forall calls p0,
    Forall vcall_ok calls ->
    exists outs, vole_history g0 g1 Delta expand (p0, p0) calls = map VOk outs /\
                 Forall2 vcall_shares calls outs.
  Proof.
    induction calls as [|c calls IH]; intros p0 Hok.
    - exists []. split; [reflexivity|constructor].
    - inversion Hok as [|c' l' Hc Hrest]; subst.
      destruct (vole_call_ok c p0 Hc) as (o & p1 & Hcall & Hsh).
      destruct (IH p1 Hrest) as (outs & Hh & Hall).
      exists (o :: outs). split.
      + cbn [vole_history]. rewrite Hcall, Hh. reflexivity.
      + constructor; assumption.
  Qed.

  (* the two parties' stream offsets stay equal through the whole history
     (they never lose sync, whatever the lengths of the calls) *)
  Theorem vole_offsets_lockstep : forall calls p0,
    Forall vcall_ok calls ->
    Forall (fun st => fst st = snd st) (vole_offsets g0 g1 Delta expand (p0, p0) calls).
  Proof.
    induction calls as [|c calls IH]; intros p0 Hok; [constructor|].
    inversion Hok as [|c' l' Hc Hrest]; subst.
    destruct (vole_call_ok c p0 Hc) as (o & p1 & Hcall & _).
    cbn [vole_offsets]. constructor; [reflexivity|].
    rewrite Hcall. cbn [snd]. apply IH. assumption.
  Qed.
End Hist.

(* a history in which one call has vectors of different lengths ends there *)
Example vole_history_length_mismatch :
  vole_history (fun i r => N.of_nat ((i * 7 + r * 13) mod 256)) (fun i r => N.of_nat ((i + r) mod 256)) 5%N
               (fun l => l) (0, 0) [([1; 2]%Z, [3]%Z, 7%Z); ([1]%Z, [1]%Z, 7%Z)] = [VErr 3].
Proof. vm_compute. reflexivity. Qed.

(* non-vacuity: a history of four calls (lengths 3, 0, 9, 1; moduli 7, 7,
   65537, 2) satisfies the hypotheses and computes; the offsets move by
   ceil(m/8) bytes per call: 0, 1, 1, 3 *)
Definition ex_g0 (i r : nat) : N := N.of_nat ((i * 7 + r * 13 + i * r) mod 256).
Definition ex_g1 (i r : nat) : N := N.of_nat ((i * 3 + r * 5 + 1) mod 256).
Definition ex_calls : list vcall :=
  [([3; 6; -2]%Z, [5; 0; 6]%Z, 7%Z); ([], [], 7%Z);
   ([1; 2; 3; 4; 5; 6; 7; 8; 9]%Z, [9; 8; 7; 6; 5; 4; 3; 2; 1]%Z, 65537%Z); ([1]%Z, [1]%Z, 2%Z)].

Example vole_history_example_ok : Forall vcall_ok ex_calls.
Proof.
  unfold ex_calls. repeat constructor; cbn; try lia.
Qed.

Example vole_history_example_offsets :
  vole_offsets ex_g0 ex_g1 (2 ^ 127 + 5)%N (fun l => l) (0, 0) ex_calls = [(0, 0); (1, 1); (1, 1); (3, 3)].
Proof. vm_compute. reflexivity. Qed.

Example vole_history_example_runs :
  length (vole_history ex_g0 ex_g1 (2 ^ 127 + 5)%N (fun l => l) (0, 0) ex_calls) = 4 /\
  forallb (fun r => match r with VOk _ => true | VErr _ => false end)
          (vole_history ex_g0 ex_g1 (2 ^ 127 + 5)%N (fun l => l) (0, 0) ex_calls) = true.
Proof. vm_compute. split; reflexivity. Qed.
