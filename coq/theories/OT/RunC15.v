(* RunC15.v — executable entry point of the C15 model for the correspondence
   check.  Two kinds of cases:

   (0 (a b) (a b) ...)                        carry-less multiplication
      output: ((gen_lo gen_hi spec_lo spec_hi ref_lo ref_hi) ...)
        gen  = mul128_generic (Go mul128Generic), spec = mul128 = split128 (clmul a b)
        (Go mul128, the dispatching function: PCLMULQDQ on amd64), ref = mul128_ref (Go mul128Ref).

   (1 n pos (choice bits) b0 b1 delta (g0 col...) (g1 col...) ((seed (chi...)) ...) (pattern ...))
      g0/g1 col j: the receiver's PRG stream of column j as ONE little-endian
        number (byte k = bits 8k..8k+7), from stream byte 0;
      chi tables: the labels the chi PRG yields for every seed that occurs;
      pattern = ((col row)... payload flips) ((col row)... check-batch flips) seed' dx dt0 dt1
      output: ((x t0 t1) (receiver labels...) pos' ((status corr sender labels...) ...))
        status 1 = accepted, 0 = "OT extension check failed", -1 = I/O error;
        corr = 1 iff the correlation holds for the receiver's original choices
        on the sender's outputs (only when accepted, else 0).
   (2 n (choice bits) b0 b1 seed)             the chi stream (OT/ChiStream.v)
      the coefficients are NOT handed over: the model expands the seed itself
      (AES-128 key schedule of Label.Bytes(seed), CTR blocks 0 .. n+255, zero IV)
      and runs the receiver's block loop on the in-place chi array.
      output: (x)  = the label x the real IKNPReceiver.Receive(b, res, true) sends.
   All labels are in polynomial order (D0 + 2^64*D1). *)
From Coq Require Import ZArith NArith List Bool Arith.
From Mpc Require Import Gen.Consts Base.Sx Base.Aes OT.Gf128 OT.Kos OT.ChiStream.
Import ListNotations.

(* the first [cnt] bytes of a little-endian number *)
Fixpoint le_bytes (cnt : nat) (x : N) : list N :=
  match cnt with
  | O => []
  | S c => N.land x 255 :: le_bytes c (N.shiftr x 8)
  end.

Definition stream_of (cols : list (list N)) (j k : nat) : N := nth k (nth j cols []) 0%N.

Fixpoint chi_lookup (tabs : list (N * list N)) (seed : N) (i : nat) : N :=
  match tabs with
  | [] => 0%N
  | (s, l) :: r => if N.eqb s seed then nth i l 0%N else chi_lookup r seed i
  end.

(* flips grouped by column once; E col row = parity of the number of (col,row) entries *)
Definition flip_table (fl : list (nat * nat)) : list (list nat) :=
  map (fun j => map snd (filter (fun p => Nat.eqb (fst p) j) fl)) (seq 0 K).
Definition flip_lookup (tab : list (list nat)) (col : nat) : nat -> bool :=
  let rows := nth col tab [] in            (* looked up once per column *)
  fun row => fold_right (fun r acc => xorb (Nat.eqb r row) acc) false rows.

Definition flips_of_sx (s : sx) : list (nat * nat) :=
  map (fun p => (getnat (nthx 0 p), getnat (nthx 1 p))) (getL s).

Definition pair_sx (p : N * N) : list sx := [ofN (fst p); ofN (snd p)].

Definition run_mul (pairs : list sx) : sx :=
  SL (map (fun p => let a := getN (nthx 0 p) in let b := getN (nthx 1 p) in
                    SL (pair_sx (mul128_generic a b) ++ pair_sx (mul128 a b) ++ pair_sx (mul128_ref a b)))
          pairs).

Definition run_kos (inp : sx) : sx :=
  let n := getnat (nthx 1 inp) in
  let pos := getnat (nthx 2 inp) in
  let b := getLB (nthx 3 inp) in
  let b0 := getN (nthx 4 inp) in
  let b1 := getN (nthx 5 inp) in
  let delta := getN (nthx 6 inp) in
  let nbytes := (pos + batch_bytes n + batch_bytes checkRows)%nat in
  let g0 := stream_of (map (le_bytes nbytes) (getLN (nthx 7 inp))) in
  let g1 := stream_of (map (le_bytes nbytes) (getLN (nthx 8 inp))) in
  let tabs := map (fun t => (getN (nthx 0 t), getLN (nthx 1 t))) (getL (nthx 9 inp)) in
  let chi_of := chi_lookup tabs in
  let seed := match tabs with (s, _) :: _ => s | [] => 0%N end in
  let '(tr, res, pos') := receiver_run g0 g1 chi_of b b0 b1 seed pos in
  let s := sender_streams g0 g1 delta in
  let one (p : sx) : sx :=
    let tab0 := flip_table (flips_of_sx (nthx 0 p)) in
    let tab1 := flip_table (flips_of_sx (nthx 1 p)) in
    let E0 := flip_lookup tab0 in
    let E1 := flip_lookup tab1 in
    let tr' := tamper E0 E1 (getN (nthx 2 p))
                      (N.lxor (tr_x tr) (getN (nthx 3 p)))
                      (N.lxor (tr_t0 tr) (getN (nthx 4 p)))
                      (N.lxor (tr_t1 tr) (getN (nthx 5 p))) tr in
    match sender_run s delta chi_of tr' n pos with
    | Accept out => SL (SZ 1 :: ofB (corr_holds delta out res b) :: map ofN out)
    | Reject => SL [SZ 0; SZ 0]
    | IOErr => SL [SZ (-1); SZ 0]
    end in
  if negb (Nat.eqb n (length b)) then sx_err 2 else
  SL [ SL [ofN (tr_x tr); ofN (tr_t0 tr); ofN (tr_t1 tr)];
       ofLN res; ofnat pos';
       SL (map one (getL (nthx 10 inp))) ].

(* Label.Bytes: D0 big-endian then D1 big-endian *)
Definition key_bytes (s : N) : list N :=
  be_bytes 8 (N.land s (N.ones 64)) ++ be_bytes 8 (N.land (N.shiftr s 64) (N.ones 64)).

(* keystream blocks 0 .. m-1 of newPrg(seed): AES_seed(counter c), counter big-endian from the zero IV *)
Definition aes_ctr_block (rks : list (list N)) (c : nat) : list N :=
  aes_encrypt_rk rks (be_bytes 16 (N.of_nat c)).
Definition aes_ctr_blocks (seed : N) (m : nat) : list (list N) :=
  let rks := aes_schedule (key_bytes seed) in map (aes_ctr_block rks) (seq 0 m).

Definition run_chi (inp : sx) : sx :=
  let n := getnat (nthx 1 inp) in
  let b := getLB (nthx 2 inp) in
  let b0 := getN (nthx 3 inp) in
  let b1 := getN (nthx 4 inp) in
  let seed := getN (nthx 5 inp) in
  let blocks := aes_ctr_blocks seed (n + checkRows) in     (* memo of the block function *)
  let blk := fun c => nth c blocks [] in
  if negb (Nat.eqb n (length b)) then sx_err 2 else
  let '(x, _) := receiver_x blk 0 chi_array0 b (bcv_of b0 b1) in
  SL [ofN x].

Definition run_c15 (inp : sx) : sx :=
  match getZ (nthx 0 inp) with
  | 0%Z => run_mul (tl (getL inp))
  | 1%Z => run_kos inp
  | 2%Z => run_chi inp
  | _ => sx_err 1
  end.

(* the constants of the model are those of the source (Gen/Consts.v is
   regenerated from ot/iknp.go on every run) *)
Lemma c15_consts_ok :
  (Z.of_nat K = ot_K /\ Z.of_nat chunkRows = ot_chunkRows /\ Z.of_nat chunkByteRows = ot_chunkByteRows
   /\ Z.of_nat (K * chunkByteRows) = ot_chunkSize)%Z.
Proof. vm_compute. repeat split; reflexivity. Qed.
