(* Iknp.v — executable model of the IKNP OT extension of ot/iknp.go
   (receive / send / createLabels / Send / Receive / SendBits / ReceiveBits),
   working on bytes the way the Go code does.

   Conventions
   * a byte is an [N]; a label is an [N] below 2^128 with D0 the high word
     (Base/Label.v), so Go's Label.Bit(i) — bit i of D0 for i <= 63, bit
     i-64 of D1 otherwise — is [N.testbit l (colbit i)];
   * the 128 column PRGs of the receiver are arbitrary functions
     [g0 g1 : column -> byte position -> byte] (Section variables; for
     execution RunC06.v instantiates them with AES-CTR key streams, which is
     what newPrg builds).  The sender holds, for column i, the stream its base
     OT choice Delta.Bit(i) selected: [sender_g];
   * a cipher.Stream keeps its position between calls: the model carries one
     stream offset per party (every loop iteration draws the same number of
     bytes from every column stream, iknp.go prg(...) calls);
   * the column-major buffers [chunk]/[t]/[out] (column i occupies
     [i*byteRows, (i+1)*byteRows)) are lists of K columns; what crosses the
     wire (SendData(out[:byteRows*128])) is their concatenation, and the
     sender slices the flat message again ([skipn (i*byteRows)]) exactly as
     `xor(t[i*byteRows:(i+1)*byteRows], chunk[i*byteRows:])` does.
     IknpProof.nth_concat_cols ties `buf[j*w+row]` to [nth row (nth j cols)];
   * a packed []uint64 bit vector (choices, result of the *Bits functions) is
     the number sum_k word_k * 2^(64k): `result[idx/64] |= 1 << (idx%64)` is
     [N.lor R (2^idx)], byte k of the little-endian words is [cbyte C k];
   * two boolean parameters select the code version of the packed-bit
     functions: [tailfix]/[clr] = true is the code as it is now (commits
     eae031e and 7d31e72), false the earlier code (kept so that the
     refutations in IknpProof.v remain checkable).
   No proofs in this file. *)
From Coq Require Import NArith ZArith List Bool Arith.
From Mpc Require Import Gen.Consts Base.Label.
Import ListNotations.
Local Open Scope nat_scope.

(* ot/iknp.go constants, regenerated from the source *)
Definition K : nat := Z.to_nat ot_K.
Definition chunkSize : nat := Z.to_nat ot_chunkSize.
Definition chunkByteRows : nat := Z.to_nat ot_chunkByteRows.
Definition chunkRows : nat := Z.to_nat ot_chunkRows.

(* ot/label.go Label.Bit: position of Go bit index j inside the 128-bit number *)
Definition colbit (j : nat) : N :=
  if j <? 64 then N.of_nat (64 + j) else N.of_nat (j - 64).
Definition lbit (l : N) (i : nat) : bool := N.testbit l (colbit i).

(* ot/co_helpers.go xor(dst, src): in place on dst, over the shorter length *)
Fixpoint xor_into (dst src : list N) : list N :=
  match dst, src with
  | d :: ds, s :: ss => N.lxor d s :: xor_into ds ss
  | _, _ => dst
  end.

(* byte k of a packed little-endian []uint64 bit vector *)
Definition cbyte (C : N) (k : nat) : N := N.land (N.shiftr C (8 * N.of_nat k)) 255.

(* receive(): bbuf[i/8] |= 1 << (i%8) for every set flag *)
Definition byte_of_bits (f : nat -> bool) : N :=
  (N.b2n (f 0%nat) + 2 * N.b2n (f 1%nat) + 4 * N.b2n (f 2%nat) + 8 * N.b2n (f 3%nat)
   + 16 * N.b2n (f 4%nat) + 32 * N.b2n (f 5%nat) + 64 * N.b2n (f 6%nat) + 128 * N.b2n (f 7%nat))%N.
Definition pack_bits (b : list bool) : list N :=
  map (fun k => byte_of_bits (fun bit => nth (8 * k + bit) b false)) (seq 0 ((length b + 7) / 8)).

(* createLabels: one output label from the 128 column bytes of a byte-row:
   column j sets Go bit j — `out[bit].D0 |= 1 << j` for j < 64,
   `out[bit].D1 |= 1 << (j-64)` otherwise; the label is D0 * 2^64 + D1 *)
Fixpoint bits_to_N (l : list bool) : N :=
  match l with
  | [] => 0%N
  | b :: r => if b then N.succ_double (bits_to_N r) else N.double (bits_to_N r)
  end.
Definition label_of_bytes (bs : list N) (bit : N) : N :=
  let bits := map (fun b => N.testbit b bit) bs in
  N.lor (N.shiftl (bits_to_N (firstn 64 bits)) 64) (bits_to_N (firstn 64 (skipn 64 bits))).

(* createLabels(l, buf, w): returns the labels written to l[0..end),
   end = min(w*8, len(l)); label row*8+bit takes bit `bit` of buf[j*w+row] *)
Definition createLabels (len_l : nat) (cols : list (list N)) (w : nat) : list N :=
  firstn (Nat.min (w * 8) len_l)
    (flat_map (fun row =>
                 let bs := map (fun col => nth row col 0%N) cols in
                 map (fun bit => label_of_bytes bs (N.of_nat bit)) (seq 0 8))
              (seq 0 w)).

(* clear(result[:(n+63)/64]) on a packed bit vector: the words that hold the
   n result bits are zeroed, further words of a longer buffer keep their contents *)
Definition clear_words (n : nat) (R : N) : N :=
  N.ldiff R (N.ones (N.of_nat (64 * ((n + 63) / 64)))).

Definition set_bits (P : nat -> bool) (ofs m : nat) (R : N) : N :=
  fold_left (fun R row => if P row then N.lor R (N.shiftl 1 (N.of_nat (ofs + row))) else R) (seq 0 m) R.

Section Iknp.
  Variables g0 g1 : nat -> nat -> N.   (* receiver's column PRG streams *)
  Variable Delta : N.                  (* sender's correlation / base-OT choices *)

  (* prg(c, buf): the next len(buf) key-stream bytes *)
  Definition prg (g : nat -> N) (pos len : nat) : list N := map (fun r => g (pos + r)) (seq 0 len).

  (* NewIKNPSender: g0[i] keyed by the base-OT output for flag Delta.Bit(i) *)
  Definition sender_g (i : nat) : nat -> N := if lbit Delta i then g1 i else g0 i.

  (* ---- receiver ------------------------------------------------------- *)
  Definition tcols (pos byteRows : nat) : list (list N) :=
    map (fun i => prg (g0 i) pos byteRows) (seq 0 K).

  (* receive(): tmp = G1 ; tmp ^= chunk column ; tmp ^= bbuf[ofs/8:] *)
  Definition ucols (bbuf : list N) (ofs pos byteRows : nat) : list (list N) :=
    map (fun i => xor_into (xor_into (prg (g1 i) pos byteRows) (prg (g0 i) pos byteRows))
                           (skipn (ofs / 8) bbuf)) (seq 0 K).

  Fixpoint receive_loop (fuel n : nat) (bbuf : list N) (ofs pos : nat)
    : option (list (list N) * list N * nat) :=
    if n <=? ofs then Some ([], [], pos) else
    match fuel with
    | O => None
    | S f =>
        let rows := Nat.min chunkRows (n - ofs) in
        let byteRows := (rows + 7) / 8 in
        let tc := tcols pos byteRows in
        let uc := ucols bbuf ofs pos byteRows in
        match receive_loop f n bbuf (ofs + rows) (pos + byteRows) with
        | None => None
        | Some (us, ls, pos') =>
            Some (firstn (byteRows * 128) (concat uc) :: us,
                  createLabels (n - ofs) tc byteRows ++ ls, pos')
        end
    end.

  (* IKNPReceiver.receive(b, result): messages sent, result, new stream offset *)
  Definition receive (b : list bool) (pos : nat) :=
    receive_loop (length b) (length b) (pack_bits b) 0 pos.

  (* ---- sender --------------------------------------------------------- *)
  Definition qcols (chunk : list N) (pos byteRows : nat) : list (list N) :=
    map (fun i => let t := prg (sender_g i) pos byteRows in
                  if lbit Delta i then xor_into t (skipn (i * byteRows) chunk) else t) (seq 0 K).

  (* IKNPSender.send(n): consumes received chunks until ofs >= n; None = the
     Go code would return an error or block on ReceiveData for ever *)
  Fixpoint send_loop (chunks : list (list N)) (n ofs pos : nat) {struct chunks}
    : option (list N * list (list N) * nat) :=
    if n <=? ofs then Some ([], chunks, pos) else
    match chunks with
    | [] => None
    | ch :: rest =>
        if negb (length ch mod K =? 0) then None else
        let byteRows := length ch / K in
        let q := qcols ch pos byteRows in
        match send_loop rest n (ofs + byteRows * 8) (pos + byteRows) with
        | None => None
        | Some (ls, rem, pos') => Some (createLabels (n - ofs) q byteRows ++ ls, rem, pos')
        end
    end.
  Definition send (chunks : list (list N)) (n pos : nat) := send_loop chunks n 0 pos.

  (* ---- Send / Receive with the malicious flag ------------------------- *)
  (* Receive(b, result, malicious): in malicious mode a second receive() over
     256 random choice flags (bits of the random labels b0 b1) follows; the
     consistency check computed from it is property C15 and not modelled. *)
  Definition bcv_of (b0 b1 : N) : list bool :=
    map (lbit b0) (seq 0 128) ++ map (lbit b1) (seq 0 128).

  Definition Receive (b : list bool) (mal : option (N * N)) (pos : nat)
    : option (list (list N) * list N * list N * nat) :=
    match receive b pos with
    | None => None
    | Some (us, ls, pos1) =>
        match mal with
        | None => Some (us, ls, [], pos1)
        | Some (b0, b1) =>
            match receive (bcv_of b0 b1) pos1 with
            | None => None
            | Some (us2, cv, pos2) => Some (us ++ us2, ls, cv, pos2)
            end
        end
    end.

  Definition Send (chunks : list (list N)) (n : nat) (mal : bool) (pos : nat)
    : option (list N * list N * list (list N) * nat) :=
    match send chunks n pos with
    | None => None
    | Some (ls, rem, pos1) =>
        if mal then
          match send rem 256 pos1 with
          | None => None
          | Some (cv, rem2, pos2) => Some (ls, cv, rem2, pos2)
          end
        else Some (ls, [], rem, pos1)
    end.

  (* ---- packed-bit form ------------------------------------------------ *)
  (* SendBits(n, result): R is the result vector.  [clr = true] is the code as
     it is now (commit 7d31e72: clear(result[:(n+63)/64]) first); [clr = false]
     is the earlier code, which OR-ed into the existing contents. *)
  Fixpoint sendbits_loop (chunks : list (list N)) (n ofs pos : nat) (R : N) {struct chunks}
    : option (N * list (list N) * nat) :=
    if n <=? ofs then Some (R, chunks, pos) else
    match chunks with
    | [] => None
    | ch :: rest =>
        if negb (length ch mod K =? 0) then None else
        let byteRows := length ch / K in
        let rows := byteRows * 8 in
        let q := qcols ch pos byteRows in
        let col0 := nth 0 q [] in                       (* t[:byteRows] *)
        let maxRows := Nat.min rows (n - ofs) in
        let R' := set_bits (fun row => N.testbit (nth (row / 8) col0 0%N) (N.of_nat (row mod 8))) ofs maxRows R in
        sendbits_loop rest n (ofs + maxRows) (pos + byteRows) R'
    end.
  Definition SendBits (clr : bool) (chunks : list (list N)) (n : nat) (R : N) (pos : nat) :=
    sendbits_loop chunks n 0 pos (if clr then clear_words n R else R).

  (* ReceiveBits(choices, result, n).  [tailfix = true] is the code as it is
     now (commit eae031e: after the words = byteRows/8 whole 64-bit choice
     words, the remaining byteRows mod 8 bytes are XOR-ed into tmp as well);
     [tailfix = false] is the earlier code, which stopped after the whole
     words (finding F4, kept as a regression record). *)
  Definition xor_choice_bytes (tmp : list N) (C : N) (byteOfs lim : nat) : list N :=
    map (fun p => if fst p <? lim then N.lxor (snd p) (cbyte C (byteOfs + fst p)) else snd p)
        (combine (seq 0 (length tmp)) tmp).

  Definition ucols_bits (tailfix : bool) (C : N) (ofs pos byteRows : nat) : list (list N) :=
    let wordOffset := ofs / 64 in
    let words := byteRows / 8 in
    let lim := if tailfix then byteRows else 8 * words in
    map (fun i => xor_choice_bytes (xor_into (prg (g1 i) pos byteRows) (prg (g0 i) pos byteRows))
                                   C (8 * wordOffset) lim) (seq 0 K).

  Fixpoint recvbits_loop (tailfix : bool) (fuel n : nat) (C : N) (ofs pos : nat) (R : N)
    : option (list (list N) * N * nat) :=
    if n <=? ofs then Some ([], R, pos) else
    match fuel with
    | O => None
    | S f =>
        let rows := Nat.min chunkRows (n - ofs) in
        let byteRows := (rows + 7) / 8 in
        let tc := tcols pos byteRows in
        let uc := ucols_bits tailfix C ofs pos byteRows in
        let labelsBuf := createLabels chunkRows tc byteRows in
        let R' := set_bits (fun row => lbit (nth row labelsBuf 0%N) 0) ofs rows R in
        match recvbits_loop tailfix f n C (ofs + rows) (pos + byteRows) R' with
        | None => None
        | Some (us, R'', pos') => Some (firstn (byteRows * K) (concat uc) :: us, R'', pos')
        end
    end.
  Definition ReceiveBits (tailfix clr : bool) (C : N) (n : nat) (R : N) (pos : nat) :=
    recvbits_loop tailfix n n C 0 pos (if clr then clear_words n R else R).

  (* ---- a session: any sequence of operations on one initialised pair -- *)
  Inductive op :=
  | OpLabels (b : list bool) (mal : option (N * N))   (* Receive(b,·,mal) ‖ Send(len b, mal) *)
  | OpBits (n : nat) (C Rs0 Rr0 : N).                 (* ReceiveBits(C,Rr0,n) ‖ SendBits(n,Rs0) *)

  Inductive opres :=
  | ResLabels (us : list (list N)) (sent rcvd cvs cvr : list N)
  | ResBits (us : list (list N)) (Rs Rr : N).

  (* state: (receiver stream offset, sender stream offset).  None: the two
     parties lose sync (leftover or missing chunks) or a loop errors out. *)
  Definition run_op (tailfix clr : bool) (st : nat * nat) (o : op) : option (opres * (nat * nat)) :=
    let '(rpos, spos) := st in
    match o with
    | OpLabels b mal =>
        match Receive b mal rpos with
        | None => None
        | Some (us, rl, cvr, rpos') =>
            match Send us (length b) (match mal with Some _ => true | None => false end) spos with
            | Some (sl, cvs, [], spos') => Some (ResLabels us sl rl cvs cvr, (rpos', spos'))
            | _ => None
            end
        end
    | OpBits n C Rs0 Rr0 =>
        match ReceiveBits tailfix clr C n Rr0 rpos with
        | None => None
        | Some (us, Rr, rpos') =>
            match SendBits clr us n Rs0 spos with
            | Some (Rs, [], spos') => Some (ResBits us Rs Rr, (rpos', spos'))
            | _ => None
            end
        end
    end.

  Fixpoint run_ops (tailfix clr : bool) (st : nat * nat) (ops : list op)
    : option (list opres * (nat * nat)) :=
    match ops with
    | [] => Some ([], st)
    | o :: rest =>
        match run_op tailfix clr st o with
        | None => None
        | Some (r, st') =>
            match run_ops tailfix clr st' rest with
            | None => None
            | Some (rs, st'') => Some (r :: rs, st'')
            end
        end
    end.
End Iknp.
