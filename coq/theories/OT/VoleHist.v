(* VoleHist.v — executable model of a vole.Sender / vole.Receiver PAIR USED FOR
   A WHOLE HISTORY of Mul calls (/repo/vole/vole.go Sender.Mul, Receiver.Mul on
   one session; /repo/ot/iknp.go IKNPSender.Send, IKNPReceiver.Receive below
   them).

   OT/Vole.v models one Mul given the IKNP labels of its positions.  Here the
   labels are no longer inputs: every Mul of m > 0 elements first runs
   iknp.Receive(flags = false^m, labels, false) against iknp.Send(m, false) of
   the executable IKNP model OT/Iknp.v (column PRG streams g0/g1 of the
   receiver, the sender holding stream Delta.Bit(i) of column i, createLabels,
   chunking), which carries the stream offsets of both parties from call to
   call — a cipher.Stream keeps its position, so the labels of the k-th Mul
   depend on the lengths of all earlier Mul calls of the session — and then
   the exchange [vole_session] of OT/Vole.v on the labels the two IKNP ends
   returned.  A Mul of an empty vector returns (nil, nil) before touching the
   extension (both functions test m == 0 first), so it leaves the streams where
   they are.  After the first failing Mul the history ends (the protocol has
   no resynchronisation).  No proofs in this file. *)
From Coq Require Import ZArith NArith List Bool.
From Mpc Require Import Gen.Consts Base.Codec OT.Iknp OT.Vole.
Import ListNotations.

(* one call: Sender.Mul(xs, p) against Receiver.Mul(ys, p) *)
Definition vcall : Type := (list Z * list Z * Z)%type.

Section VoleHist.
  Variables g0 g1 : nat -> nat -> N.   (* receiver's column streams: column -> byte position -> byte *)
  Variable Delta : N.                  (* IKNPSender.Delta = the sender's base-OT choices *)
  Variable expand : N -> N.            (* prgExpandLabel + SetBytes *)

  (* state: (receiver stream offset, sender stream offset) as in Iknp.run_op *)
  Definition vole_call (st : nat * nat) (c : vcall) : vres vole_out * (nat * nat) :=
    let '(xs, ys, p) := c in
    let m := length xs in
    if negb (length ys =? m)%nat then (VErr 3, st)
    else if (m =? 0)%nat then (VOk (mkVoleOut [] [] [] []), st)
    else
      match run_op g0 g1 Delta true true st (OpLabels (repeat false m) None) with
      | Some (ResLabels _ sent rcvd _ _, st') => (vole_session expand sent rcvd xs ys p, st')
      | _ => (VErr 1, st)
      end.

  Fixpoint vole_history (st : nat * nat) (calls : list vcall) : list (vres vole_out) :=
    match calls with
    | [] => []
    | c :: rest =>
        match vole_call st c with
        | (VOk o, st') => VOk o :: vole_history st' rest
        | (VErr e, _) => [VErr e]
        end
    end.

  (* the stream offsets before every call of the history (bookkeeping view) *)
  Fixpoint vole_offsets (st : nat * nat) (calls : list vcall) : list (nat * nat) :=
    match calls with
    | [] => []
    | c :: rest => st :: vole_offsets (snd (vole_call st c)) rest
    end.
End VoleHist.

(* column streams given as data: cols[i][r] (0 beyond the data) *)
Definition cols_fn (cols : list (list N)) (i r : nat) : N := nth r (nth i cols []) 0%N.
