(* LabelWire.v — (a) ot/label.go function by function on the two uint64 words
   of ot.Label (the N view of Base/Label.v is [val]); (b) the wire formats of
   ot/co.go (CO.InitSender / Send / Receive) and the per-index mask preimage
   of ot/co_helpers.go deriveMask: what is handed to IO.SendData, in which
   order, with which lengths and encodings, and how the peer decodes it.
   Model only; proofs in OT/LabelWireProof.v. *)
From Coq Require Import NArith List Bool Arith.
From Mpc Require Import Base.Codec.
Import ListNotations.
Open Scope N_scope.

(* ---- (a) ot/label.go ------------------------------------------------------ *)
Definition M64 : N := 2 ^ 64.
Definition u64 (x : N) : N := x mod M64.                 (* uint64 wrap *)

(* type Label struct { D0 uint64; D1 uint64 } *)
Record Label := mkLabel { D0 : N; D1 : N }.
Definition wf (l : Label) : Prop := D0 l < M64 /\ D1 l < M64.

(* the 128-bit number of Base/Label.v: D0 is the high word *)
Definition val (l : Label) : N := D0 l * M64 + D1 l.
Definition of_val (x : N) : Label := mkLabel (u64 (x / M64)) (u64 x).

(* func (l Label) Equal(o Label) bool *)
Definition Equal (l o : Label) : bool := N.eqb (D0 l) (D0 o) && N.eqb (D1 l) (D1 o).
(* func NewTweak(tweak uint32) Label *)
Definition NewTweak (t : N) : Label := mkLabel 0 (t mod 2 ^ 32).
(* func (l Label) S() bool *)
Definition GetS (l : Label) : bool := negb (N.eqb (N.land (D0 l) 0x8000000000000000) 0).
(* func (l *Label) SetS(set bool) *)
Definition SetS (l : Label) (set : bool) : Label :=
  if set then mkLabel (N.lor (D0 l) 0x8000000000000000) (D1 l)
  else mkLabel (N.land (D0 l) 0x7fffffffffffffff) (D1 l).
(* func (l *Label) Mul2() *)
Definition Mul2 (l : Label) : Label :=
  mkLabel (N.lor (u64 (N.shiftl (D0 l) 1)) (N.shiftr (D1 l) 63)) (u64 (N.shiftl (D1 l) 1)).
(* func (l *Label) Mul4() *)
Definition Mul4 (l : Label) : Label :=
  mkLabel (N.lor (u64 (N.shiftl (D0 l) 2)) (N.shiftr (D1 l) 62)) (u64 (N.shiftl (D1 l) 2)).
(* func (l *Label) Xor(o Label) / And(o Label) *)
Definition Xor (l o : Label) : Label := mkLabel (N.lxor (D0 l) (D0 o)) (N.lxor (D1 l) (D1 o)).
Definition And (l o : Label) : Label := mkLabel (N.land (D0 l) (D0 o)) (N.land (D1 l) (D1 o)).
(* func (l Label) GetData(buf *LabelData): binary.BigEndian.PutUint64 twice *)
Definition GetData (l : Label) : list N := be 8 (D0 l) ++ be 8 (D1 l).
(* func (l *Label) SetData(data *LabelData): binary.BigEndian.Uint64 twice *)
Definition SetData (data : list N) : Label :=
  mkLabel (of_be (firstn 8 data)) (of_be (firstn 8 (skipn 8 data))).
(* func (l Label) Bytes(buf *LabelData) []byte / func (l *Label) SetBytes(data []byte):
   the same codecs; SetBytes reads data[0:16] of a possibly longer slice *)
Definition Bytes (l : Label) : list N := GetData l.
Definition SetBytes (data : list N) : Label := SetData (firstn 16 data).
(* func NewLabel(rand io.Reader): 16 bytes of the stream, SetData *)
Definition NewLabel (stream : list N) : Label := SetData (firstn 16 stream).
(* func (l Label) Bit(i int) uint, 0 <= i <= 127 (panics otherwise: None) *)
Definition Bit (l : Label) (i : nat) : option bool :=
  if (127 <? i)%nat then None
  else Some (if (63 <? i)%nat then N.testbit (D1 l) (N.of_nat (i - 64)) else N.testbit (D0 l) (N.of_nat i)).
(* func (l *Label) SetBit(i int, b uint), b in {0,1}, 0 <= i <= 127 *)
Definition SetBit (l : Label) (i : nat) (b : bool) : Label :=
  if b then
    if (64 <=? i)%nat then mkLabel (D0 l) (N.lor (D1 l) (2 ^ N.of_nat (i - 64)))
    else mkLabel (N.lor (D0 l) (2 ^ N.of_nat i)) (D1 l)
  else
    if (64 <=? i)%nat then mkLabel (D0 l) (N.ldiff (D1 l) (2 ^ N.of_nat (i - 64)))
    else mkLabel (N.ldiff (D0 l) (2 ^ N.of_nat i)) (D1 l).

(* ---- (b) wire formats ----------------------------------------------------- *)
(* A message = one IO.SendData payload; [true] = written by the OT receiver. *)
Definition msg : Type := bool * list N.

(* copy(dst[:16], src) into a zeroed LabelData, then Label.SetData *)
Definition copy16 (src : list N) : list N := firstn 16 (src ++ repeat 0 16).

(* CO.InitSender: SendString(curve name) *)
Definition co_init_msgs (name : list N) : list msg := [(false, name)].
(* CO.Send, first flight: setup.Ax.Bytes(), setup.Ay.Bytes() (minimal big-endian) *)
Definition co_A_msgs (A : N * N) : list msg := [(false, big_bytes (fst A)); (false, big_bytes (snd A))].
(* CO.Receive: points[i].X.Bytes(), points[i].Y.Bytes() for i = 0.. *)
Definition co_point_msgs (points : list (N * N)) : list msg :=
  flat_map (fun p => [(true, big_bytes (fst p)); (true, big_bytes (snd p))]) points.
(* CO.Send, second flight: ct[i].Zero[:], ct[i].One[:] — 16 bytes each;
   the ciphertexts are the LabelData of mask xor label *)
Definition co_ct_msgs (cts : list (Label * Label)) : list msg :=
  flat_map (fun c => [(false, GetData (fst c)); (false, GetData (snd c))]) cts.

(* the complete session on one connection, in the order of the SendData calls *)
Definition co_session_msgs (name : list N) (A : N * N) (points : list (N * N)) (cts : list (Label * Label))
  : list msg :=
  co_init_msgs name ++ co_A_msgs A ++ co_point_msgs points ++ co_ct_msgs cts.

(* the peer's decoders: ReceiveBigInt = SetBytes of the payload; the points in
   CO.Send; the ciphertexts in CO.Receive (copy into LabelData) *)
Definition co_decode_A (ms : list (list N)) : option (N * N) :=
  match ms with
  | [x; y] => Some (of_be x, of_be y)
  | _ => None
  end.
Fixpoint co_decode_points (n : nat) (ms : list (list N)) : option (list (N * N)) :=
  match n, ms with
  | O, [] => Some []
  | S n', x :: y :: rest =>
      match co_decode_points n' rest with
      | Some ps => Some ((of_be x, of_be y) :: ps)
      | None => None
      end
  | _, _ => None
  end.
Fixpoint co_decode_cts (n : nat) (ms : list (list N)) : option (list (Label * Label)) :=
  match n, ms with
  | O, [] => Some []
  | S n', z :: o :: rest =>
      match co_decode_cts n' rest with
      | Some cs => Some ((SetData (copy16 z), SetData (copy16 o)) :: cs)
      | None => None
      end
  | _, _ => None
  end.

Definition payloads (from_receiver : bool) (ms : list msg) : list (list N) :=
  map snd (filter (fun m => Bool.eqb (fst m) from_receiver) ms).

(* ot/co_helpers.go deriveMask: the SHA-256 input for point (x, y) and index id:
   x.Bytes() ‖ y.Bytes() ‖ 8-byte big-endian id (per-index domain separation) *)
Definition mask_preimage (x y id : N) : list N := big_bytes x ++ big_bytes y ++ be 8 id.
(* the domain-separation suffix read back *)
Definition preimage_index (pre : list N) : N := of_be (skipn (length pre - 8) pre).
