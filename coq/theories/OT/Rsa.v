(* Rsa.v — model of the RSA based OT of ot/rsa.go (RSA.Send / RSA.Receive,
   and the Sender/Receiver transfer objects, which compute the same values).

   Integers are [Z] (math/big), bytes are [Z] in [0,256).  The key (n, e, d)
   and the message size are Section variables.  mpint.Exp(x, y, n) is the
   Section function [powmod x y]; the theorems take it to be [(x ^ y) mod n]
   (Go's Int.Exp returns the Euclidean residue also for a negative base,
   Coq's [mod] by a positive modulus does the same).  [Zpowmod] is an
   executable square-and-multiply instance (proved equal to [(x ^ y) mod m]
   in RsaProof.v); for real key sizes RunC06.v instantiates [powmod] with the
   table of the exponentiation results the harness computed with math/big.
   big.Int.SetBytes is [of_be]; `mbBytes := make([]byte, size);
   copy(mbBytes[size-len(b):], b)` with b = x.Bytes() is the fixed-width
   big-endian encoding [be_fixed size x] (for 0 <= x < 256^size; otherwise
   the Go code panics or mis-parses — the theorem shows it cannot happen).
   pkcs1 block type 1 padding is deterministic (0xff).  No proofs here. *)
From Coq Require Import ZArith List Bool Arith.
Import ListNotations.
Local Open Scope Z_scope.

Fixpoint of_le (l : list Z) : Z :=
  match l with [] => 0 | b :: r => b + 256 * of_le r end.
Definition of_be (l : list Z) : Z := of_le (rev l).          (* big.Int.SetBytes *)
Fixpoint le_fixed (m : nat) (v : Z) : list Z :=
  match m with O => [] | S m' => v mod 256 :: le_fixed m' (v / 256) end.
Definition be_fixed (m : nat) (v : Z) : list Z := rev (le_fixed m v).

(* pkcs1.NewEncryptionBlock(BT1, blockLen, data): EB = 00 || 01 || FF..FF || 00 || D *)
Definition encryption_block (blockLen : nat) (data : list Z) : option (list Z) :=
  if (blockLen <? 3 + length data + 8)%nat then None
  else Some (0 :: 1 :: repeat 255 (blockLen - 3 - length data) ++ 0 :: data).

(* pkcs1.ParseEncryptionBlock *)
Fixpoint after_zero (l : list Z) : option (list Z) :=
  match l with
  | [] => None
  | x :: r => if x =? 0 then Some r else after_zero r
  end.
Definition parse_block (block : list Z) : option (list Z) :=
  if (length block <? 4)%nat then None else
  match block with
  | b0 :: b1 :: rest =>
      if negb (b0 =? 0) then None
      else if negb ((b1 =? 1) || (b1 =? 2)) then None
      else after_zero rest
  | _ => None
  end.

(* executable modular exponentiation (left-to-right binary) *)
Fixpoint powmod_pos (x : Z) (y : positive) (m : Z) : Z :=
  match y with
  | xH => x mod m
  | xO y' => let r := powmod_pos x y' m in (r * r) mod m
  | xI y' => let r := powmod_pos x y' m in ((r * r) mod m * x) mod m
  end.
Definition Zpowmod (x y m : Z) : Z :=
  match y with
  | Z0 => 1 mod m
  | Zpos p => powmod_pos (x mod m) p m
  | Zneg _ => 0
  end.

Section Rsa.
  Variables n e d : Z.
  Variable msz : nat.        (* messageSize() *)
  Variable powmod : Z -> Z -> Z.   (* mpint.Exp(x, y, n) *)

  (* receiver: v = (x_b + k^e mod n) mod n *)
  Definition recv_v (xb k : Z) : Z := (xb + powmod k e) mod n.
  (* sender: k_i = (v - x_i)^d mod n *)
  Definition send_k (v x : Z) : Z := powmod (v - x) d.
  (* sender: m_i' = EB(label_i) + k_i   (label bytes = Label.GetData, big endian) *)
  Definition send_msg (label v x : Z) : option Z :=
    match encryption_block msz (be_fixed 16 label) with
    | None => None
    | Some eb => Some (of_be eb + send_k v x)
    end.
  (* receiver: parse the left-padded bytes of m_b' - k, SetBytes the data *)
  Definition recv_msg (mbp k : Z) : option Z :=
    match parse_block (be_fixed msz (mbp - k)) with
    | None => None
    | Some data => Some (of_be data)
    end.

  (* one RSA.Send ‖ RSA.Receive iteration: x0 x1 the sender's random
     messages, k the receiver's random number; returns (v, m0', m1', label) *)
  Definition rsa_transfer (l0 l1 x0 x1 k : Z) (flag : bool) : option (Z * Z * Z * Z) :=
    let v := recv_v (if flag then x1 else x0) k in
    match send_msg l0 v x0, send_msg l1 v x1 with
    | Some m0p, Some m1p =>
        match recv_msg (if flag then m1p else m0p) k with
        | Some r => Some (v, m0p, m1p, r)
        | None => None
        end
    | _, _ => None
    end.
End Rsa.
