(* Kos.v — executable model of the malicious-mode ("KOS-style") consistency
   check of the IKNP OT extension (property C15).  Model file: definitions
   only; proofs in KosProof.v.

   Go sources mirrored (ot/iknp.go):
     IKNPReceiver.receive / IKNPReceiver.Receive(b, result, malicious=true)
     IKNPSender.send      / IKNPSender.Send(n, malicious=true)
     createLabels, prgLabels, prg;   ot/gf128.go vectorInnPrdtSumNoRed;
     ot/label.go Label.Bit/Xor/And/SetBytes.
   (OT/Iknp.v of property C06 models the honest data path independently; this
   file is self-contained on purpose.)

   Conventions.
   * A label is an [N] in polynomial order: bit j of the number is
     Label.Bit(j) (D0 = bits 0..63, D1 = bits 64..127), see Gf128.v.
   * A byte is an [N] < 256.  The K = 128 PRG streams of the receiver are
     arbitrary functions  g0 g1 : column -> byte index -> byte  (AES-CTR under
     the base-OT keys in Go; nothing about them is assumed).  The sender holds,
     for column j, the stream selected by bit j of Delta.
   * A transmitted chunk (one SendData) is kept as its K columns of byteRows
     bytes: column i is the Go slice chunk[i*byteRows:(i+1)*byteRows].  Row r of
     the chunk is bit (r mod 8) of byte (r / 8) of every column.
   * The chi coefficients are an arbitrary function of the seed:
     chi_of : seed -> index -> N, truncated to the label width (prgLabels fills
     16-byte labels).  Index i is the i-th label drawn from the chi PRG: rows
     0..n-1 of the payload batch, then the 256 rows of the check batch.
   * The whole protocol is one-directional (receiver -> sender): payload chunks,
     check chunks, seed, x, t0, t1.  [transcript] is that message sequence; the
     in-transit adversary is a function on transcripts. *)
From Coq Require Import NArith List Bool Arith.
From Mpc Require Import OT.Gf128.
Import ListNotations.

Definition K : nat := 128.              (* ot.K *)
Definition chunkRows : nat := 512.      (* chunkRows *)
Definition chunkByteRows : nat := 64.   (* chunkByteRows *)
Definition chiBlock : nat := 1024.      (* var chi [1024]Label *)
Definition checkRows : nat := 256.      (* the extra "choice vector" batch *)

Definition ones128 : N := N.ones 128.   (* select1 *)

(* ---- bits ---------------------------------------------------------------- *)

Fixpoint bits_to_N (l : list bool) : N :=
  match l with
  | [] => 0
  | b :: r => (2 * bits_to_N r + N.b2n b)%N
  end.

(* a 128-bit label from its bits: bit j = f j *)
Definition row_of (f : nat -> bool) : N := bits_to_N (map f (seq 0 K)).

(* a byte from 8 bits *)
Definition byte_of (f : nat -> bool) : N := bits_to_N (map f (seq 0 8)).

(* bbuf[k] of IKNPReceiver.receive: choice bits packed little-endian *)
Definition bbuf (b : list bool) (k : nat) : N := byte_of (fun t => nth (8 * k + t) b false).

(* ---- createLabels -------------------------------------------------------- *)

(* createLabels(l, buf, w): buf is column-major; here it is given as its
   columns, [nth k (nth j cols)] = buf[j*w + k].  Label number r (= row*8 + bit)
   gets bit j = (buf[j*w + r/8] >> (r%8)) & 1; only min(8w, len l) labels are
   written. *)
Definition create_labels (cols : list (list N)) (w cnt : nat) : list N :=
  map (fun r => let kb := r / 8 in let bit := N.of_nat (r mod 8) in
                bits_to_N (map (fun col => N.testbit (nth kb col 0%N) bit) cols))
      (seq 0 (min (8 * w) cnt)).

(* ---- IKNPReceiver.receive ------------------------------------------------ *)

Definition chunk := list (list N).     (* K columns of byteRows bytes *)

Definition recv_chunk (g0 g1 : nat -> nat -> N) (bb : nat -> N) (ofs pos w : nat) : chunk :=
  let bbs := map (fun k => bb (ofs / 8 + k)) (seq 0 w) in      (* bbuf[ofs/8:], shared by all columns *)
  map (fun j => map (fun k => N.lxor (N.lxor (g1 j (pos + k)) (g0 j (pos + k))) (nth k bbs 0%N))
                    (seq 0 w))
      (seq 0 K).

(* the chunk loop; [pos] = bytes already drawn from every stream.
   returns (chunks sent, result labels, new stream position) *)
Fixpoint receive_loop (fuel : nat) (g0 g1 : nat -> nat -> N) (bb : nat -> N) (n ofs pos : nat)
  : list chunk * list N * nat :=
  match fuel with
  | O => ([], [], pos)
  | S f =>
      if n <=? ofs then ([], [], pos)
      else
        let rows := min chunkRows (n - ofs) in
        let w := (rows + 7) / 8 in
        let out := recv_chunk g0 g1 bb ofs pos w in
        let chunk := map (fun j => map (fun k => g0 j (pos + k)) (seq 0 w)) (seq 0 K) in
        let labels := create_labels chunk w (n - ofs) in
        let '(cs, ls, pos') := receive_loop f g0 g1 bb n (ofs + rows) (pos + w) in
        (out :: cs, labels ++ ls, pos')
  end.

Definition receive (g0 g1 : nat -> nat -> N) (b : list bool) (pos : nat) : list chunk * list N * nat :=
  receive_loop (S (length b)) g0 g1 (bbuf b) (length b) 0 pos.

(* ---- IKNPSender.send ----------------------------------------------------- *)

Definition col_byte (c : chunk) (j k : nat) : N := nth k (nth j c []) 0%N.
Definition chunk_w (c : chunk) : nat := length (nth 0 c []).   (* byteRows = len(chunk)/K *)

(* consumes chunks from the wire until ofs >= n; None = ran out of messages
   (Go would block in ReceiveData) or a chunk larger than the [chunkSize]byte
   scratch array (Go panics with a slice bound error).
   returns (labels, new stream position, unread messages) *)
Fixpoint send_loop (cs : list chunk) (s : nat -> nat -> N) (delta : N) (n ofs pos : nat)
  : option (list N * nat * list chunk) :=
  match cs with
  | [] => if n <=? ofs then Some ([], pos, []) else None
  | c :: cs' =>
      if n <=? ofs then Some ([], pos, cs)
      else
        let w := chunk_w c in
        if chunkByteRows <? w then None
        else
          let t := map (fun j => let dj := N.testbit delta (N.of_nat j) in
                                 map (fun k => N.lxor (s j (pos + k)) (if dj then col_byte c j k else 0%N))
                                     (seq 0 w))
                       (seq 0 K) in
          let labels := create_labels t w (n - ofs) in
          match send_loop cs' s delta n (ofs + 8 * w) (pos + w) with
          | Some (ls, pos', rest) => Some (labels ++ ls, pos', rest)
          | None => None
          end
  end.

(* ---- the chi stream and the inner products -------------------------------- *)

(* prgLabels: the i-th label drawn from the PRG keyed with [seed] *)
Definition prg_label (chi_of : N -> nat -> N) (seed : N) (i : nat) : N := lowbits 128 (chi_of seed i).

(* the loop `for i := 0; i < len(result); i += len(chi)` : blocks of 1024
   consecutive chi labels against the next 1024 rows *)
Fixpoint inn_blocks (fuel : nat) (chi : nat -> N) (start : nat) (rows : list N) : N * N :=
  match fuel with
  | O => (0%N, 0%N)
  | S f =>
      match rows with
      | [] => (0%N, 0%N)
      | _ =>
          let count := min chiBlock (length rows) in
          pxor (inn_prdt (map chi (seq start count)) rows)
               (inn_blocks f chi (start + count) (skipn count rows))
      end
  end.

(* x ^= chi[j] & (b ? select1 : select0) *)
Definition sel (b : bool) : N := if b then ones128 else 0%N.
Fixpoint xsum (chi : nat -> N) (start : nat) (b : list bool) : N :=
  match b with
  | [] => 0%N
  | c :: r => N.lxor (N.land (chi start) (sel c)) (xsum chi (S start) r)
  end.

(* ---- IKNPReceiver.Receive(b, result, true) -------------------------------- *)

Record transcript := mkTr {
  tr_payload : list chunk;   (* SendData messages of receive(b) *)
  tr_check : list chunk;     (* SendData messages of receive(bcv) *)
  tr_seed : N;               (* seed2 *)
  tr_x : N; tr_t0 : N; tr_t1 : N
}.

(* bcv[i] = b0.Bit(i) (i < 128) / b1.Bit(i-128) *)
Definition bcv_of (b0 b1 : N) : list bool :=
  map (fun i => if i <? 128 then N.testbit b0 (N.of_nat i) else N.testbit b1 (N.of_nat (i - 128)))
      (seq 0 checkRows).

(* b0 b1 seed: the three labels the receiver draws from its random source.
   returns (transcript, result labels, new stream position) *)
Definition receiver_run (g0 g1 : nat -> nat -> N) (chi_of : N -> nat -> N)
           (b : list bool) (b0 b1 seed : N) (pos : nat) : transcript * list N * nat :=
  let n := length b in
  let '(cs1, res, pos1) := receive g0 g1 b pos in
  let bcv := bcv_of b0 b1 in
  let '(cs2, cv, pos2) := receive g0 g1 bcv pos1 in
  let chi := prg_label chi_of seed in
  let t := pxor (inn_blocks (S n) chi 0 res) (inn_prdt (map chi (seq n checkRows)) cv) in
  let x := N.lxor (xsum chi 0 b) (xsum chi n bcv) in
  (mkTr cs1 cs2 seed x (fst t) (snd t), res, pos2).

(* ---- IKNPSender.Send(n, true) ---------------------------------------------- *)

Inductive sres := Accept (out : list N) | Reject | IOErr.

(* the sender's stream for column j is the one its base-OT choice Delta_j selected *)
Definition sender_streams (g0 g1 : nat -> nat -> N) (delta : N) (j : nat) : nat -> N :=
  if N.testbit delta (N.of_nat j) then g1 j else g0 j.

(* the check on already-expanded rows: q = sum chi_i*q_i  xor  x*Delta  ==  (t0,t1) *)
Definition sender_check (chi : nat -> N) (delta : N) (result cv : list N) (x t0 t1 : N) : bool :=
  let n := length result in
  let q := pxor (pxor (inn_blocks (S n) chi 0 result)
                      (inn_prdt (map chi (seq n (length cv))) cv))
                (mul128 x delta) in
  N.eqb (fst q) t0 && N.eqb (snd q) t1.

Definition sender_run (s : nat -> nat -> N) (delta : N) (chi_of : N -> nat -> N)
           (tr : transcript) (n pos : nat) : sres :=
  match send_loop (tr_payload tr ++ tr_check tr) s delta n 0 pos with
  | None => IOErr
  | Some (result, pos1, rest) =>
      match send_loop rest s delta checkRows 0 pos1 with
      | None => IOErr
      | Some (cv, _, _) =>
          if sender_check (prg_label chi_of (tr_seed tr)) delta result cv (tr_x tr) (tr_t0 tr) (tr_t1 tr)
          then Accept result else Reject
      end
  end.

(* ---- the in-transit adversary ---------------------------------------------- *)

(* an xor-error pattern on one batch: E col row = true iff that bit of the
   extension matrix is flipped *)
Definition err_byte (E : nat -> nat -> bool) (j kb : nat) : N := byte_of (fun t => E j (8 * kb + t)).

Fixpoint mapi_from {A B} (f : nat -> A -> B) (i : nat) (l : list A) : list B :=
  match l with
  | [] => []
  | x :: r => f i x :: mapi_from f (S i) r
  end.
Definition mapi {A B} (f : nat -> A -> B) (l : list A) : list B := mapi_from f 0 l.

(* one column: byte k is xored with the error bits of rows row+8k .. row+8k+7
   (running row counter: no multiplication/division per byte in the extracted model) *)
Fixpoint tamper_col (Ej : nat -> bool) (row : nat) (col : list N) : list N :=
  match col with
  | [] => []
  | v :: r => N.lxor v (byte_of (fun t => Ej (t + row))) :: tamper_col Ej (8 + row) r
  end.

(* rows ofs .. ofs+8w-1 of the batch travel in this chunk: byte k of column j
   is xored with err_byte E j (ofs/8 + k) *)
Definition tamper_chunk (E : nat -> nat -> bool) (ofs : nat) (c : chunk) : chunk :=
  let start := 8 * (ofs / 8) in
  mapi (fun j col => tamper_col (E j) start col) c.

Fixpoint tamper_chunks (E : nat -> nat -> bool) (ofs : nat) (cs : list chunk) : list chunk :=
  match cs with
  | [] => []
  | c :: r => tamper_chunk E ofs c :: tamper_chunks E (ofs + 8 * chunk_w c) r
  end.

(* the message sequence after the adversary: bit errors E0 on the payload
   batch, E1 on the check batch; seed and response replaced by arbitrary values *)
Definition tamper (E0 E1 : nat -> nat -> bool) (seed' x' t0' t1' : N) (tr : transcript) : transcript :=
  mkTr (tamper_chunks E0 0 (tr_payload tr)) (tamper_chunks E1 0 (tr_check tr)) seed' x' t0' t1'.

(* bit errors only, response as sent *)
Definition tamper_bits (E0 E1 : nat -> nat -> bool) (tr : transcript) : transcript :=
  tamper E0 E1 (tr_seed tr) (tr_x tr) (tr_t0 tr) (tr_t1 tr) tr.

Definition noerr : nat -> nat -> bool := fun _ _ => false.

(* ---- row-level view (what the theorems are stated over) -------------------- *)

(* bit p of a byte stream read as a little-endian bit sequence *)
Definition sbit (s : nat -> N) (p : nat) : bool := N.testbit (s (p / 8)) (N.of_nat (p mod 8)).

(* row i of the matrix a batch starting at stream byte [pos] expands to *)
Definition stream_row (s : nat -> nat -> N) (pos i : nat) : N := row_of (fun j => sbit (s j) (8 * pos + i)).

(* row i of the error pattern as a 128-bit mask *)
Definition err_row (E : nat -> nat -> bool) (i : nat) : N := row_of (fun j => E j i).

(* stream bytes consumed by a batch of n rows *)
Definition batch_bytes (n : nat) : nat := (n + 7) / 8.

(* the correlation for the receiver's ORIGINAL choices:  t_i = q_i xor b_i*Delta *)
Definition corr_row (delta : N) (q t : N) (b : bool) : bool := N.eqb t (if b then N.lxor q delta else q).
Fixpoint corr_holds (delta : N) (qs ts : list N) (bs : list bool) : bool :=
  match qs, ts, bs with
  | q :: qs', t :: ts', b :: bs' => corr_row delta q t b && corr_holds delta qs' ts' bs'
  | [], [], [] => true
  | _, _, _ => false
  end.

(* sum over i < cnt of chi(start+i) * (e(i) & Delta): the error syndrome *)
Fixpoint syndrome (chi : nat -> N) (delta : N) (e : nat -> N) (start i cnt : nat) : N :=
  match cnt with
  | O => 0%N
  | S c => N.lxor (clmul (chi (start + i)) (N.land (e i) delta)) (syndrome chi delta e start (S i) c)
  end.

(* the whole syndrome of an error pattern (payload rows then check rows) *)
Definition syndrome2 (chi : nat -> N) (delta : N) (E0 E1 : nat -> nat -> bool) (n : nat) : N :=
  N.lxor (syndrome chi delta (err_row E0) 0 0 n) (syndrome chi delta (err_row E1) n 0 checkRows).

(* some payload row is inconsistent *)
Definition inconsistent (delta : N) (E0 : nat -> nat -> bool) (n : nat) : Prop :=
  exists i, i < n /\ N.land (err_row E0 i) delta <> 0%N.

(* THE forge event: the matrix the sender holds is inconsistent on a payload
   row and yet the GF(2)-linear relation
        sum_i chi_i * (e_i & Delta)  =  dx * Delta  xor  dt
   holds among the chi coefficients (dx, dt = deviation of the response from
   the honest response for the seed the sender received; dt is 256 bits). *)
Definition forge_event (chi : nat -> N) (delta : N) (E0 E1 : nat -> nat -> bool) (n : nat) (dx dt : N) : Prop :=
  inconsistent delta E0 n /\ syndrome2 chi delta E0 E1 n = N.lxor (clmul dx delta) dt.
