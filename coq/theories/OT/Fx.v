(* Fx.v — executable model of /repo/bmr/fx.go (FxSend, FxReceive, FxkSend,
   FxkReceive) and of the bmr.Label operations of /repo/bmr/wire.go they use
   (Xor, Mul, ToOT, FromOT), over an abstract 1-out-of-2 OT.

   bmr.Label is [k/8]byte with k = bmr.k (regenerated constant bmr_k): a list
   of k/8 bytes here.  ot.Label is the 128-bit integer D0*2^64 + D1
   (Base/Label.v).  The OT is a Section variable [ot : wire -> bool -> N]
   (what the receiver obtains for an offered wire and a choice flag); the
   theorems assume [ot w c = pick w c]; execution uses [ot_ideal].
   The random label of FxSend/FxkSend (bmr.NewLabel, crypto/rand) is an
   input.  No proofs in this file. *)
From Coq Require Import ZArith NArith List Bool Lia.
From Mpc Require Import Gen.Consts Base.Codec Base.Label.
Import ListNotations.
Open Scope Z_scope.

(* len(Label) = k/8 *)
Definition klen : nat := Z.to_nat (bmr_k / 8).
Definition blabel := list N.
Definition bzero : blabel := repeat 0%N klen.

(* Label.Xor: for i < len(l): l[i] ^= o[i] *)
Definition bxor (a b : blabel) : blabel :=
  map (fun xy => N.lxor (fst xy) (snd xy)) (combine a b).

(* Label.Mul: l[i] *= byte(b) (uint8 arithmetic) *)
Definition bmul (l : blabel) (b : Z) : blabel :=
  map (fun x => ((x * Z.to_N (b mod 256)) mod 256)%N) l.

(* Label.ToOT: label.D0 = uint64(binary.BigEndian.Uint32(l[:])); D1 = 0.
   (Uint32 reads the first four bytes; it would panic for len(l) < 4.) *)
Definition to_ot (l : blabel) : N := (of_be (firstn 4 l) * 2 ^ 64)%N.

(* Label.FromOT: binary.BigEndian.PutUint32(l[:], uint32(label.D0)); the
   bytes after the fourth keep their value. *)
Definition from_ot (l : blabel) (x : N) : blabel :=
  be 4 ((x / 2 ^ 64) mod 2 ^ 32)%N ++ skipn 4 l.

(* l[0] = v *)
Definition set0 (l : blabel) (v : N) : blabel :=
  match l with
  | [] => []
  | _ :: t => v :: t
  end.

(* uint(l[0] & 1) *)
Definition low_bit0 (l : blabel) : Z := Z.of_N (N.land (hd 0%N l) 1).

(* FxSend(oti, a) with rl the label NewLabel() returned: the wire handed to
   oti.Send and the returned share r. *)
Definition fx_send (rl : blabel) (a : Z) : wire * Z :=
  let x0 := rl in
  let al := set0 bzero (Z.to_N (a mod 256)) in       (* al[0] = byte(a) *)
  let x1 := bxor rl al in
  (mkWire (to_ot x0) (to_ot x1), low_bit0 rl).

(* FxReceive(oti, b): flags = {b == 1}; the share computed from the label
   oti.Receive delivered. *)
Definition fx_flag (b : Z) : bool := b =? 1.
Definition fx_receive (got : N) : Z := low_bit0 (from_ot bzero got).

(* FxkSend(oti, s) with r the label NewLabel() returned *)
Definition fxk_send (r s : blabel) : wire * blabel :=
  let x0 := r in
  let x1 := bxor r s in
  (mkWire (to_ot x0) (to_ot x1), r).

(* FxkReceive(oti, b) *)
Definition fxk_receive (got : N) : blabel := from_ot bzero got.

Section FxOT.
  (* the OT functionality: label delivered for an offered wire and a flag *)
  Variable ot : wire -> bool -> N.

  (* one FxSend(a) against one FxReceive(b): (wire, delivered label, r, xb) *)
  Definition fx (rl : blabel) (a b : Z) : wire * N * Z * Z :=
    let '(w, r) := fx_send rl a in
    let got := ot w (fx_flag b) in
    (w, got, r, fx_receive got).

  (* one FxkSend(s) against one FxkReceive(b) *)
  Definition fxk (rl s : blabel) (b : Z) : wire * N * blabel * blabel :=
    let '(w, r) := fxk_send rl s in
    let got := ot w (fx_flag b) in
    (w, got, r, fxk_receive got).
End FxOT.

Definition ot_ideal (w : wire) (c : bool) : N := pick w c.
