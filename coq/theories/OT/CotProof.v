(* CotProof.v — COT and ROT (OT/Cot.v) deliver the chosen label, given the
   IKNP relation between the sender's and the receiver's extension outputs;
   composed with OT/IknpProof.v for the end-to-end statements.
   The lemma that matters is the pad/cipher index lemma: the sender hashes
   pad[2(j-i)+b] with cipher (j-i) of the batch, the receiver hashes pad[j-i]
   with cipher (j-i), and batch number i/8 renews the keys to tweaks
   i .. i+7 on both sides — so position q is always hashed under tweak q. *)
From Coq Require Import NArith ZArith List Bool Arith Lia ZifyNat ZifyN.
From Mpc Require Import Gen.Consts Base.Label OT.Iknp OT.IknpProof OT.Cot.
Import ListNotations.
Local Open Scope nat_scope.

Ltac Zify.zify_post_hook ::= Z.div_mod_to_equations.

Lemma bs_eq : otBatchSize = 8. Proof. reflexivity. Qed.
Global Opaque otBatchSize.

Section CotProofs.
  Variable E : N -> N -> N.
  Variable Delta : N.

  (* MITCCRH: H_k(x) = E_k(x) xor x *)
  Definition hsh (k x : N) : N := N.lxor x (E k x).

  Lemma Hash_fresh g cs blks h :
    0 < h -> length blks = otBatchSize * h ->
    Hash E (mkM otBatchSize g cs otBatchSize) blks otBatchSize h
    = Some (mkM otBatchSize (g + N.of_nat otBatchSize)
                (map (fun i => (g + N.of_nat i)%N) (seq 0 otBatchSize)) otBatchSize,
            map (fun idx => hsh (g + N.of_nat (idx / h)) (nth idx blks 0%N)) (seq 0 (otBatchSize * h))).
  Proof.
    intros Hh Hlen. pose proof bs_eq as Hbs. unfold Hash. cbn [m_batch m_keyUsed m_gid m_ciphers].
    rewrite Nat.ltb_irrefl, Nat.mod_same, Hlen, !Nat.eqb_refl by lia.
    cbn [negb orb]. cbv zeta. unfold renewKeys. cbn [m_batch m_keyUsed m_gid m_ciphers].
    f_equal. f_equal.
    apply map_ext_in. intros idx Hin. apply in_seq in Hin.
    assert (idx / h < otBatchSize) by (apply Nat.div_lt_upper_bound; lia).
    rewrite Nat.add_0_l, nth_map_seq by assumption. reflexivity.
  Qed.

  (* ---- COT.Send ---------------------------------------------------------- *)
  Definition cot_pad (data : list N) (wires : list wire) (q b : nat) : N :=
    let d := nth q data 0%N in
    let w := nth q wires w0 in
    N.lxor (hsh (N.of_nat q) (if b =? 0 then d else N.lxor d Delta)) (if b =? 0 then L0 w else L1 w).

  Lemma cot_send_loop_spec data wires :
    forall fuel i cs pad,
      length pad = 2 * otBatchSize -> length wires - i <= fuel ->
      exists out,
        cot_send_loop E Delta fuel (mkM otBatchSize (N.of_nat i) cs otBatchSize) pad data wires i = Some out /\
        length out = 2 * (length wires - i) /\
        forall q b, i <= q < length wires -> b < 2 ->
          nth (2 * (q - i) + b) out 0%N = cot_pad data wires q b.
  Proof.
    pose proof bs_eq as Hbs. set (n := length wires).
    induction fuel as [|fuel IH]; intros i cs pad Hpad Hfuel.
    { exists []. cbn [cot_send_loop]. fold n. destruct (Nat.leb_spec n i); [|lia].
      split; [reflexivity|]. split; [simpl; lia|]. intros; lia. }
    cbn [cot_send_loop]. fold n. destruct (Nat.leb_spec n i) as [Hle|Hlt].
    { exists []. split; [reflexivity|]. split; [simpl; lia|]. intros; lia. }
    unfold cot_send_step. fold n. cbv zeta.
    remember (Nat.min (i + otBatchSize) n - i) as cnt eqn:Hcnt.
    rewrite Hash_fresh by (try lia; rewrite map_length, seq_length; lia).
    rewrite !map_length, !seq_length.
    match goal with |- context [firstn (2 * cnt) ?l] => set (pad3 := l) end.
    assert (Hl3 : length pad3 = 2 * otBatchSize)
      by (unfold pad3; rewrite map_length, seq_length; lia).
    assert (H3 : forall idx, idx < 2 * cnt ->
              nth idx pad3 0%N = cot_pad data wires (i + idx / 2) (idx mod 2)).
    { intros idx Hidx. unfold pad3.
      rewrite nth_map_seq by lia.
      destruct (Nat.ltb_spec idx (2 * cnt)); [|lia].
      rewrite nth_map_seq by lia. rewrite Hpad.
      rewrite nth_map_seq by lia.
      destruct (Nat.ltb_spec idx (2 * cnt)); [|lia].
      unfold cot_pad. cbv zeta.
      replace (N.of_nat i + N.of_nat (idx / 2))%N with (N.of_nat (i + idx / 2)) by lia.
      reflexivity. }
    replace (N.of_nat i + N.of_nat otBatchSize)%N with (N.of_nat (i + otBatchSize)) by lia.
    destruct (IH (i + otBatchSize) (map (fun i0 => (N.of_nat i + N.of_nat i0)%N) (seq 0 otBatchSize)) pad3 Hl3)
      as (rest & HR & HLr & Hrest); [lia|].
    rewrite HR. exists (firstn (2 * cnt) pad3 ++ rest).
    split; [reflexivity|].
    assert (Hlf : length (firstn (2 * cnt) pad3) = 2 * cnt) by (rewrite firstn_length; lia).
    split; [rewrite app_length, Hlf, HLr; lia|].
    intros q b Hq Hb.
    destruct (Nat.lt_ge_cases q (i + otBatchSize)) as [Hin|Hout].
    - rewrite app_nth1 by lia. rewrite nth_firstn_lt by lia.
      rewrite H3 by lia.
      replace (i + (2 * (q - i) + b) / 2) with q by lia.
      replace ((2 * (q - i) + b) mod 2) with b by lia. reflexivity.
    - rewrite app_nth2 by lia. rewrite Hlf.
      replace (2 * (q - i) + b - 2 * cnt) with (2 * (q - (i + otBatchSize)) + b) by lia.
      apply Hrest; lia.
  Qed.

  (* ---- COT.Receive ------------------------------------------------------- *)
  Lemma cot_recv_loop_spec rcvd flags msgs :
    length rcvd = length flags ->
    forall fuel i cs pad,
      length pad = otBatchSize -> length flags - i <= fuel ->
      exists out,
        cot_recv_loop E fuel (mkM otBatchSize (N.of_nat i) cs otBatchSize) pad rcvd flags msgs i = Some out /\
        length out = length flags - i /\
        forall q, i <= q < length flags ->
          nth (q - i) out 0%N
          = N.lxor (if nth q flags false then nth (2 * q + 1) msgs 0%N else nth (2 * q) msgs 0%N)
                   (hsh (N.of_nat q) (nth q rcvd 0%N)).
  Proof.
    intros Hrl. pose proof bs_eq as Hbs. set (n := length flags) in *.
    induction fuel as [|fuel IH]; intros i cs pad Hpad Hfuel.
    { exists []. cbn [cot_recv_loop]. fold n. destruct (Nat.leb_spec n i); [|lia].
      split; [reflexivity|]. split; [simpl; lia|]. intros; lia. }
    cbn [cot_recv_loop]. fold n. destruct (Nat.leb_spec n i) as [Hle|Hlt].
    { exists []. split; [reflexivity|]. split; [simpl; lia|]. intros; lia. }
    unfold cot_recv_step. fold n. cbv zeta.
    remember (Nat.min otBatchSize (n - i)) as cnt eqn:Hcnt.
    rewrite Hash_fresh by (try lia; rewrite map_length, seq_length; lia).
    rewrite Nat.mul_1_r.
    match goal with |- context [cot_recv_loop E fuel _ ?p2 rcvd flags msgs (i + otBatchSize)] => set (pad2 := p2) end.
    match goal with |- context [Some (?o ++ _)] => set (out := o) end.
    assert (Hl2 : length pad2 = otBatchSize)
      by (unfold pad2; rewrite map_length, seq_length; lia).
    replace (N.of_nat i + N.of_nat otBatchSize)%N with (N.of_nat (i + otBatchSize)) by lia.
    destruct (IH (i + otBatchSize) (map (fun i0 => (N.of_nat i + N.of_nat i0)%N) (seq 0 otBatchSize)) pad2 Hl2)
      as (rest & HR & HLr & Hrest); [lia|].
    rewrite HR. exists (out ++ rest).
    split; [reflexivity|].
    assert (Hlo : length out = cnt) by (unfold out; rewrite map_length, seq_length; reflexivity).
    split; [rewrite app_length, Hlo, HLr; lia|].
    intros q Hq.
    destruct (Nat.lt_ge_cases q (i + otBatchSize)) as [Hin|Hout].
    - rewrite app_nth1 by lia. unfold out. rewrite nth_map_seq by lia. cbv zeta.
      replace (i + (q - i)) with q by lia.
      f_equal. unfold pad2. rewrite nth_map_seq by lia.
      rewrite Nat.div_1_r.
      replace (N.of_nat i + N.of_nat (q - i))%N with (N.of_nat q) by lia.
      f_equal. rewrite nth_map_seq by lia. rewrite Hpad.
      destruct (Nat.ltb_spec (q - i) (Nat.min otBatchSize (length rcvd - i))); [|lia].
      f_equal. lia.
    - rewrite app_nth2 by lia. rewrite Hlo.
      replace (q - i - cnt) with (q - (i + otBatchSize)) by lia.
      apply Hrest; lia.
  Qed.

  (* COT: the receiver ends with exactly the chosen label *)
  Theorem cot_correct data rcvd flags wires :
    length wires = length flags -> length rcvd = length flags ->
    (forall q, q < length flags ->
       nth q rcvd 0%N = N.lxor (nth q data 0%N) (if nth q flags false then Delta else 0%N)) ->
    exists msgs result,
      cot_send E Delta data wires = Some msgs /\
      cot_receive E rcvd flags msgs = Some result /\
      length result = length flags /\
      forall q, q < length flags -> nth q result 0%N = pick (nth q wires w0) (nth q flags false).
  Proof.
    intros Hw Hr Hrel. pose proof bs_eq as Hbs.
    destruct (cot_send_loop_spec data wires (length wires) 0 (repeat 0%N otBatchSize)
                (repeat 0%N (2 * otBatchSize))) as (msgs & HS & HLs & Hs);
      [apply repeat_length|lia|].
    destruct (cot_recv_loop_spec rcvd flags msgs Hr (length flags) 0 (repeat 0%N otBatchSize)
                (repeat 0%N otBatchSize)) as (res & HR & HLr & Hres);
      [apply repeat_length|lia|].
    exists msgs, res. unfold cot_send, cot_receive, NewMITCCRH.
    split; [exact HS|]. split; [exact HR|]. split; [lia|].
    intros q Hq. specialize (Hres q). rewrite Nat.sub_0_r in Hres. rewrite Hres by lia.
    pose proof (Hs q 0) as H0. pose proof (Hs q 1) as H1.
    rewrite Nat.sub_0_r in H0, H1. rewrite Nat.add_0_r in H0.
    rewrite Hrel by assumption.
    unfold pick. destruct (nth q flags false).
    - rewrite H1 by lia. unfold cot_pad. cbv zeta. cbn [Nat.eqb].
      generalize (hsh (N.of_nat q) (N.lxor (nth q data 0%N) Delta)), (L1 (nth q wires w0)).
      intros a c. xor_solve.
    - rewrite H0 by lia. unfold cot_pad. cbv zeta. cbn [Nat.eqb]. rewrite N.lxor_0_r.
      generalize (hsh (N.of_nat q) (nth q data 0%N)), (L0 (nth q wires w0)).
      intros a c. xor_solve.
  Qed.

  (* ---- ROT ---------------------------------------------------------------- *)
  Lemma rot_send_loop_spec data n :
    forall fuel i cs pad,
      length pad = 2 * otBatchSize -> n - i <= fuel ->
      exists out,
        rot_send_loop E Delta fuel (mkM otBatchSize (N.of_nat i) cs otBatchSize) pad data n i = Some out /\
        length out = n - i /\
        forall q, i <= q < n ->
          nth (q - i) out w0
          = mkWire (hsh (N.of_nat q) (nth q data 0%N)) (hsh (N.of_nat q) (N.lxor (nth q data 0%N) Delta)).
  Proof.
    pose proof bs_eq as Hbs.
    induction fuel as [|fuel IH]; intros i cs pad Hpad Hfuel.
    { exists []. cbn [rot_send_loop]. destruct (Nat.leb_spec n i); [|lia].
      split; [reflexivity|]. split; [simpl; lia|]. intros; lia. }
    cbn [rot_send_loop]. destruct (Nat.leb_spec n i) as [Hle|Hlt].
    { exists []. split; [reflexivity|]. split; [simpl; lia|]. intros; lia. }
    unfold rot_send_step. cbv zeta.
    remember (Nat.min (i + otBatchSize) n - i) as cnt eqn:Hcnt.
    rewrite Hash_fresh by (try lia; rewrite map_length, seq_length; lia).
    match goal with |- context [rot_send_loop E Delta fuel _ ?p2 data n (i + otBatchSize)] => set (pad2 := p2) end.
    match goal with |- context [Some (?o ++ _)] => set (out := o) end.
    assert (Hl2 : length pad2 = 2 * otBatchSize)
      by (unfold pad2; rewrite map_length, seq_length; lia).
    replace (N.of_nat i + N.of_nat otBatchSize)%N with (N.of_nat (i + otBatchSize)) by lia.
    destruct (IH (i + otBatchSize) (map (fun i0 => (N.of_nat i + N.of_nat i0)%N) (seq 0 otBatchSize)) pad2 Hl2)
      as (rest & HR & HLr & Hrest); [lia|].
    rewrite HR. exists (out ++ rest).
    split; [reflexivity|].
    assert (Hlo : length out = cnt) by (unfold out; rewrite map_length, seq_length; reflexivity).
    split; [rewrite app_length, Hlo, HLr; lia|].
    intros q Hq.
    destruct (Nat.lt_ge_cases q (i + otBatchSize)) as [Hin|Hout].
    - rewrite app_nth1 by lia. unfold out.
      rewrite nth_indep with (d' := mkWire (nth (2 * 0) pad2 0%N) (nth (2 * 0 + 1) pad2 0%N))
        by (rewrite map_length, seq_length; lia).
      rewrite (map_nth (fun j => mkWire (nth (2 * j) pad2 0%N) (nth (2 * j + 1) pad2 0%N))), seq_nth by lia.
      rewrite Nat.add_0_l. unfold pad2.
      rewrite !nth_map_seq by lia. rewrite ?Hpad.
      rewrite ?nth_map_seq by lia.
      destruct (Nat.ltb_spec (2 * (q - i)) (2 * cnt)); [|lia].
      destruct (Nat.ltb_spec (2 * (q - i) + 1) (2 * cnt)); [|lia].
      replace (2 * (q - i) / 2) with (q - i) by lia.
      replace ((2 * (q - i) + 1) / 2) with (q - i) by lia.
      replace (2 * (q - i) mod 2) with 0 by lia.
      replace ((2 * (q - i) + 1) mod 2) with 1 by lia.
      cbn [Nat.eqb].
      replace (N.of_nat i + N.of_nat (q - i))%N with (N.of_nat q) by lia.
      replace (i + (q - i)) with q by lia. reflexivity.
    - rewrite app_nth2 by lia. rewrite Hlo.
      replace (q - i - cnt) with (q - (i + otBatchSize)) by lia.
      apply Hrest; lia.
  Qed.

  Lemma rot_recv_loop_spec rcvd n :
    length rcvd = n ->
    forall fuel i cs pad,
      length pad = otBatchSize -> n - i <= fuel ->
      exists out,
        rot_recv_loop E fuel (mkM otBatchSize (N.of_nat i) cs otBatchSize) pad rcvd n i = Some out /\
        length out = n - i /\
        forall q, i <= q < n -> nth (q - i) out 0%N = hsh (N.of_nat q) (nth q rcvd 0%N).
  Proof.
    intros Hrl. pose proof bs_eq as Hbs.
    induction fuel as [|fuel IH]; intros i cs pad Hpad Hfuel.
    { exists []. cbn [rot_recv_loop]. destruct (Nat.leb_spec n i); [|lia].
      split; [reflexivity|]. split; [simpl; lia|]. intros; lia. }
    cbn [rot_recv_loop]. destruct (Nat.leb_spec n i) as [Hle|Hlt].
    { exists []. split; [reflexivity|]. split; [simpl; lia|]. intros; lia. }
    unfold rot_recv_step. cbv zeta.
    rewrite Hash_fresh by (try lia; rewrite map_length, seq_length; lia).
    rewrite Nat.mul_1_r.
    match goal with |- context [rot_recv_loop E fuel _ ?p2 rcvd n (i + otBatchSize)] => set (pad2 := p2) end.
    match goal with |- context [Some (firstn ?c pad2 ++ _)] => set (cnt := c) end.
    assert (Hl2 : length pad2 = otBatchSize)
      by (unfold pad2; rewrite map_length, seq_length; lia).
    assert (Hc : cnt = Nat.min otBatchSize (n - i)) by (unfold cnt; rewrite Hl2, Hrl; reflexivity).
    replace (N.of_nat i + N.of_nat otBatchSize)%N with (N.of_nat (i + otBatchSize)) by lia.
    destruct (IH (i + otBatchSize) (map (fun i0 => (N.of_nat i + N.of_nat i0)%N) (seq 0 otBatchSize)) pad2 Hl2)
      as (rest & HR & HLr & Hrest); [lia|].
    rewrite HR. exists (firstn cnt pad2 ++ rest).
    split; [reflexivity|].
    assert (Hlo : length (firstn cnt pad2) = cnt) by (rewrite firstn_length; lia).
    split; [rewrite app_length, Hlo, HLr; lia|].
    intros q Hq.
    destruct (Nat.lt_ge_cases q (i + otBatchSize)) as [Hin|Hout].
    - rewrite app_nth1 by lia. rewrite nth_firstn_lt by lia.
      unfold pad2. rewrite nth_map_seq by lia. rewrite Nat.div_1_r.
      replace (N.of_nat i + N.of_nat (q - i))%N with (N.of_nat q) by lia.
      f_equal. rewrite nth_map_seq by lia. rewrite Hpad.
      destruct (Nat.ltb_spec (q - i) (Nat.min otBatchSize (length rcvd - i))); [|lia].
      f_equal. lia.
    - rewrite app_nth2 by lia. rewrite Hlo.
      replace (q - i - cnt) with (q - (i + otBatchSize)) by lia.
      apply Hrest; lia.
  Qed.

  (* ROT: the receiver's label is the sender's output label selected by its flag *)
  Theorem rot_correct data rcvd flags :
    length rcvd = length flags ->
    (forall q, q < length flags ->
       nth q rcvd 0%N = N.lxor (nth q data 0%N) (if nth q flags false then Delta else 0%N)) ->
    exists wires result,
      rot_send E Delta data (length flags) = Some wires /\
      rot_receive E rcvd (length flags) = Some result /\
      length wires = length flags /\ length result = length flags /\
      forall q, q < length flags -> nth q result 0%N = pick (nth q wires w0) (nth q flags false).
  Proof.
    intros Hr Hrel. pose proof bs_eq as Hbs.
    destruct (rot_send_loop_spec data (length flags) (length flags) 0 (repeat 0%N otBatchSize)
                (repeat 0%N (2 * otBatchSize))) as (ws & HS & HLs & Hs);
      [apply repeat_length|lia|].
    destruct (rot_recv_loop_spec rcvd (length flags) Hr (length flags) 0 (repeat 0%N otBatchSize)
                (repeat 0%N otBatchSize)) as (res & HR & HLr & Hres);
      [apply repeat_length|lia|].
    exists ws, res. unfold rot_send, rot_receive, NewMITCCRH.
    split; [exact HS|]. split; [exact HR|]. split; [lia|]. split; [lia|].
    intros q Hq. specialize (Hres q). specialize (Hs q). rewrite Nat.sub_0_r in Hres, Hs.
    rewrite Hres, Hs by lia. rewrite Hrel by assumption.
    unfold pick. destruct (nth q flags false); cbn [L0 L1]; [reflexivity|].
    rewrite N.lxor_0_r. reflexivity.
  Qed.
End CotProofs.

(* ---- end to end over the IKNP model ------------------------------------------ *)
(* One COT / ROT batch on an initialised IKNP pair at a common stream offset
   p, in either adversary mode: the IKNP layer runs in lock step and the
   receiver's result is, position by position, the label its flag selects. *)
Theorem cot_over_iknp g0 g1 Delta E tailfix clr p (flags : list bool) (mal : option (N * N)) (wires : list wire) :
  (Delta < 2 ^ 128)%N -> length wires = length flags ->
  exists us data rcvd cvs cvr p' msgs result,
    run_op g0 g1 Delta tailfix clr (p, p) (OpLabels flags mal) = Some (ResLabels us data rcvd cvs cvr, (p', p')) /\
    cot_send E Delta data wires = Some msgs /\
    cot_receive E rcvd flags msgs = Some result /\
    length result = length flags /\
    forall q, q < length flags -> nth q result 0%N = pick (nth q wires w0) (nth q flags false).
Proof.
  intros HD Hw.
  destruct (run_op_ok g0 g1 Delta HD tailfix clr (OpLabels flags mal) p) as (r & p' & Hrun & Hok).
  destruct r as [us data rcvd cvs cvr|]; cbn [op_ok] in Hok; [|contradiction].
  destruct Hok as (Hls & Hlr & Hrel).
  destruct (cot_correct E Delta data rcvd flags wires Hw Hlr Hrel) as (msgs & res & H1 & H2 & H3 & H4).
  exists us, data, rcvd, cvs, cvr, p', msgs, res. auto.
Qed.

Theorem rot_over_iknp g0 g1 Delta E tailfix clr p (flags : list bool) (mal : option (N * N)) :
  (Delta < 2 ^ 128)%N ->
  exists us data rcvd cvs cvr p' wires result,
    run_op g0 g1 Delta tailfix clr (p, p) (OpLabels flags mal) = Some (ResLabels us data rcvd cvs cvr, (p', p')) /\
    rot_send E Delta data (length flags) = Some wires /\
    rot_receive E rcvd (length flags) = Some result /\
    length wires = length flags /\ length result = length flags /\
    forall q, q < length flags -> nth q result 0%N = pick (nth q wires w0) (nth q flags false).
Proof.
  intros HD.
  destruct (run_op_ok g0 g1 Delta HD tailfix clr (OpLabels flags mal) p) as (r & p' & Hrun & Hok).
  destruct r as [us data rcvd cvs cvr|]; cbn [op_ok] in Hok; [|contradiction].
  destruct Hok as (Hls & Hlr & Hrel).
  destruct (rot_correct E Delta data rcvd flags Hlr Hrel) as (ws & res & H1 & H2 & H3 & H4 & H5).
  exists us, data, rcvd, cvs, cvr, p', ws, res. repeat (split; [assumption|]). assumption.
Qed.
