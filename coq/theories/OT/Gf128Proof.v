(* Gf128Proof.v — proofs about OT/Gf128.v (property C15).
   - clmul is commutative, bilinear over xor, compatible with shifts, has no
     zero divisors (GF(2)[X] is an integral domain) and respects degrees;
   - clmul64 (the Go loop) is the split polynomial product of 64-bit operands;
   - mul128_generic (the Go limb decomposition) = split128 (clmul a b) for all
     128-bit operands;  mul128_ref likewise;
   - split/join/xor bookkeeping for the 256-bit unreduced inner product. *)
From Coq Require Import NArith List Bool Lia.
From Mpc Require Import OT.Gf128.
Import ListNotations.
Local Open Scope N_scope.

(* ------------------------------------------------------------------------ *)
(* bit-level toolkit                                                        *)
(* ------------------------------------------------------------------------ *)

Lemma double_lxor : forall a b, N.double (N.lxor a b) = N.lxor (N.double a) (N.double b).
Proof.
  intros a b. apply N.bits_inj; intro m.
  rewrite N.lxor_spec, !N.double_spec.
  destruct (N.eq_dec m 0) as [->|Hm].
  - rewrite !N.testbit_even_0. reflexivity.
  - destruct (N.succ_pred m Hm). rewrite <- (N.succ_pred m Hm), !N.double_bits_succ, N.lxor_spec. reflexivity.
Qed.

Lemma double_shiftl : forall a, N.double a = N.shiftl a 1.
Proof. intros a. rewrite N.double_spec, N.shiftl_mul_pow2. change (2^1) with 2. lia. Qed.

Lemma lt_pow2_bits : forall x k, x < 2^k <-> (forall m, k <= m -> N.testbit x m = false).
Proof.
  intros x k; split.
  - intros Hx m Hm. rewrite <- (N.mod_small x (2^k) Hx). apply N.mod_pow2_bits_high; assumption.
  - intros H. assert (E : x mod 2^k = x).
    { apply N.bits_inj; intro m. destruct (N.lt_ge_cases m k) as [Hl|Hg].
      - apply N.mod_pow2_bits_low; assumption.
      - rewrite N.mod_pow2_bits_high by assumption. symmetry; apply H; assumption. }
    rewrite <- E. apply N.mod_lt. apply N.pow_nonzero. discriminate.
Qed.

Lemma lxor_lt_pow2 : forall a b k, a < 2^k -> b < 2^k -> N.lxor a b < 2^k.
Proof.
  intros a b k Ha Hb. apply lt_pow2_bits; intros m Hm.
  rewrite N.lxor_spec.
  rewrite (proj1 (lt_pow2_bits a k) Ha m Hm), (proj1 (lt_pow2_bits b k) Hb m Hm). reflexivity.
Qed.

Lemma mod_pow2_lxor : forall a b k, (N.lxor a b) mod 2^k = N.lxor (a mod 2^k) (b mod 2^k).
Proof.
  intros a b k. apply N.bits_inj; intro m. rewrite N.lxor_spec.
  destruct (N.lt_ge_cases m k) as [Hl|Hg].
  - rewrite !N.mod_pow2_bits_low by assumption. apply N.lxor_spec.
  - rewrite !N.mod_pow2_bits_high by assumption. reflexivity.
Qed.

Lemma div_pow2_lxor : forall a b k, (N.lxor a b) / 2^k = N.lxor (a / 2^k) (b / 2^k).
Proof. intros a b k. rewrite <- !N.shiftr_div_pow2. apply N.shiftr_lxor. Qed.

(* disjoint supports: addition is xor *)
Lemma add_shift_lxor : forall lo hi k, lo < 2^k -> lo + 2^k * hi = N.lxor lo (N.shiftl hi k).
Proof.
  intros lo hi k Hlo. rewrite N.shiftl_mul_pow2, (N.mul_comm hi).
  apply N.add_nocarry_lxor.
  apply N.bits_inj; intro m. rewrite N.land_spec, N.bits_0.
  destruct (N.lt_ge_cases m k) as [Hl|Hg].
  - rewrite N.mul_comm, <- N.shiftl_mul_pow2, N.shiftl_spec_low by assumption. apply andb_false_r.
  - rewrite (proj1 (lt_pow2_bits lo k) Hlo m Hg). reflexivity.
Qed.

Lemma split_lxor_shift : forall x k, x = N.lxor (x mod 2^k) (N.shiftl (x / 2^k) k).
Proof.
  intros x k. rewrite <- add_shift_lxor.
  - rewrite N.add_comm. apply N.div_mod. apply N.pow_nonzero; discriminate.
  - apply N.mod_lt. apply N.pow_nonzero; discriminate.
Qed.

Lemma div_lt_pow2 : forall x n k, x < 2^(n + k) -> x / 2^k < 2^n.
Proof.
  intros x n k H. apply N.div_lt_upper_bound.
  - apply N.pow_nonzero; discriminate.
  - rewrite <- N.pow_add_r, N.add_comm. exact H.
Qed.

(* ------------------------------------------------------------------------ *)
(* split128 / join128 / pxor                                                *)
(* ------------------------------------------------------------------------ *)

Lemma lowbits_mod : forall k x, lowbits k x = x mod 2^k.
Proof. intros. apply N.land_ones. Qed.

Lemma highbits_div : forall k x, highbits k x = x / 2^k.
Proof. intros. apply N.shiftr_div_pow2. Qed.

Lemma split128_eq : forall x, split128 x = (x mod 2^128, x / 2^128).
Proof. intros. unfold split128. rewrite lowbits_mod, highbits_div. reflexivity. Qed.

Lemma split128_lxor : forall a b, split128 (N.lxor a b) = pxor (split128 a) (split128 b).
Proof. intros a b. rewrite !split128_eq. unfold pxor; cbn [fst snd]. rewrite mod_pow2_lxor, div_pow2_lxor. reflexivity. Qed.

Lemma join_split128 : forall x, join128 (split128 x) = x.
Proof.
  intros x. rewrite split128_eq. unfold join128; cbn [fst snd]. rewrite N.add_comm. symmetry.
  apply N.div_mod. apply N.pow_nonzero; discriminate.
Qed.

Lemma split128_inj : forall a b, split128 a = split128 b -> a = b.
Proof. intros a b H. rewrite <- (join_split128 a), <- (join_split128 b), H. reflexivity. Qed.

Lemma split128_0 : split128 0 = (0, 0).
Proof. reflexivity. Qed.

Lemma split128_unique : forall x lo hi, lo < 2^128 -> lo + 2^128 * hi = x -> split128 x = (lo, hi).
Proof.
  intros x lo hi Hlo E. rewrite split128_eq. f_equal.
  - symmetry. apply (N.mod_unique x (2^128) hi lo Hlo). rewrite <- E. lia.
  - symmetry. apply (N.div_unique x (2^128) hi lo Hlo). rewrite <- E. lia.
Qed.

Lemma pxor_comm : forall p q, pxor p q = pxor q p.
Proof. intros [a b] [c d]. unfold pxor; simpl. rewrite (N.lxor_comm a), (N.lxor_comm b). reflexivity. Qed.

Lemma pxor_assoc : forall p q r, pxor (pxor p q) r = pxor p (pxor q r).
Proof. intros [a b] [c d] [e f]. unfold pxor; simpl. rewrite !N.lxor_assoc. reflexivity. Qed.

Lemma pxor_0_r : forall p, pxor p (0, 0) = p.
Proof. intros [a b]. unfold pxor; simpl. rewrite !N.lxor_0_r. reflexivity. Qed.

Lemma pxor_0_l : forall p, pxor (0, 0) p = p.
Proof. intros [a b]. unfold pxor; simpl. reflexivity. Qed.

(* ------------------------------------------------------------------------ *)
(* clmul: ring laws                                                          *)
(* ------------------------------------------------------------------------ *)

Lemma clmul_pos_0_r : forall p, clmul_pos p 0 = 0.
Proof. induction p; simpl; rewrite ?IHp; reflexivity. Qed.

Lemma clmul_pos_lxor_r : forall p b c,
  clmul_pos p (N.lxor b c) = N.lxor (clmul_pos p b) (clmul_pos p c).
Proof.
  induction p; intros b c; simpl.
  - rewrite IHp, double_lxor.
    rewrite !N.lxor_assoc. f_equal.
    rewrite <- !N.lxor_assoc. rewrite (N.lxor_comm c). reflexivity.
  - rewrite IHp, double_lxor. reflexivity.
  - reflexivity.
Qed.

Lemma clmul_pos_double_r : forall p b, clmul_pos p (N.double b) = N.double (clmul_pos p b).
Proof.
  induction p; intros b; simpl.
  - rewrite IHp, double_lxor. reflexivity.
  - rewrite IHp. reflexivity.
  - reflexivity.
Qed.

Lemma clmul_pos_1_r : forall p, clmul_pos p 1 = Npos p.
Proof. induction p; simpl; rewrite ?IHp; reflexivity. Qed.

Lemma succ_double_lxor : forall b, N.succ_double b = N.lxor 1 (N.double b).
Proof. intros [|q]; reflexivity. Qed.

Lemma clmul_pos_comm : forall p q, clmul_pos p (Npos q) = clmul_pos q (Npos p).
Proof.
  induction p; intros q; simpl.
  - change (Npos p~1) with (N.succ_double (Npos p)).
    rewrite succ_double_lxor, clmul_pos_lxor_r, clmul_pos_1_r, clmul_pos_double_r, IHp. reflexivity.
  - change (Npos p~0) with (N.double (Npos p)).
    rewrite clmul_pos_double_r, IHp. reflexivity.
  - rewrite clmul_pos_1_r. reflexivity.
Qed.

Lemma clmul_0_l : forall b, clmul 0 b = 0.
Proof. reflexivity. Qed.

Lemma clmul_0_r : forall a, clmul a 0 = 0.
Proof. intros [|p]; simpl; [reflexivity | apply clmul_pos_0_r]. Qed.

Lemma clmul_comm : forall a b, clmul a b = clmul b a.
Proof.
  intros [|p] [|q]; simpl; try reflexivity.
  - symmetry; apply clmul_pos_0_r.
  - apply clmul_pos_0_r.
  - apply clmul_pos_comm.
Qed.

Lemma clmul_1_l : forall b, clmul 1 b = b.
Proof. reflexivity. Qed.

Lemma clmul_1_r : forall a, clmul a 1 = a.
Proof. intros a. rewrite clmul_comm. reflexivity. Qed.

(* bilinearity *)
Lemma clmul_lxor_r : forall a b c, clmul a (N.lxor b c) = N.lxor (clmul a b) (clmul a c).
Proof. intros [|p] b c; simpl; [reflexivity | apply clmul_pos_lxor_r]. Qed.

Lemma clmul_lxor_l : forall a b c, clmul (N.lxor a b) c = N.lxor (clmul a c) (clmul b c).
Proof. intros a b c. rewrite (clmul_comm (N.lxor a b) c), (clmul_comm a c), (clmul_comm b c). apply clmul_lxor_r. Qed.

Lemma clmul_double_r : forall a b, clmul a (N.double b) = N.double (clmul a b).
Proof. intros [|p] b; simpl; [reflexivity | apply clmul_pos_double_r]. Qed.

Lemma clmul_double_l : forall a b, clmul (N.double a) b = N.double (clmul a b).
Proof. intros a b. rewrite (clmul_comm (N.double a) b), (clmul_comm a b). apply clmul_double_r. Qed.

Lemma clmul_shiftl_l : forall a b k, clmul (N.shiftl a k) b = N.shiftl (clmul a b) k.
Proof.
  intros a b k. induction k using N.peano_ind.
  - rewrite !N.shiftl_0_r. reflexivity.
  - rewrite !N.shiftl_succ_r, clmul_double_l, IHk. reflexivity.
Qed.

Lemma clmul_shiftl_r : forall a b k, clmul a (N.shiftl b k) = N.shiftl (clmul a b) k.
Proof. intros a b k. rewrite clmul_comm, clmul_shiftl_l, clmul_comm. reflexivity. Qed.

Lemma clmul_pow2_l : forall k b, clmul (2^k) b = N.shiftl b k.
Proof. intros k b. rewrite <- (N.shiftl_1_l k), clmul_shiftl_l, clmul_1_l. reflexivity. Qed.

Lemma clmul_pow2_r : forall a k, clmul a (2^k) = N.shiftl a k.
Proof. intros a k. rewrite clmul_comm. apply clmul_pow2_l. Qed.

(* ------------------------------------------------------------------------ *)
(* no zero divisors                                                          *)
(* ------------------------------------------------------------------------ *)

Lemma double_eq_0 : forall a, N.double a = 0 -> a = 0.
Proof. intros [|p]; simpl; [reflexivity | discriminate]. Qed.

Lemma clmul_pos_odd_nonzero : forall q p, clmul_pos p~1 (Npos q) <> 0.
Proof.
  induction q; intros p.
  - (* q odd: the product is odd *)
    cbn [clmul_pos]. intro H.
    assert (T : N.testbit (N.lxor (Npos q~1) (N.double (clmul_pos p (Npos q~1)))) 0 = true).
    { rewrite N.lxor_spec, N.double_spec, N.testbit_even_0. reflexivity. }
    rewrite H in T. discriminate.
  - change (Npos q~0) with (N.double (Npos q)).
    rewrite clmul_pos_double_r. intro H. apply double_eq_0 in H. exact (IHq p H).
  - rewrite clmul_pos_1_r. discriminate.
Qed.

Lemma clmul_pos_nonzero : forall p q, clmul_pos p (Npos q) <> 0.
Proof.
  induction p; intros q.
  - apply clmul_pos_odd_nonzero.
  - simpl. intro H. apply double_eq_0 in H. exact (IHp q H).
  - simpl. discriminate.
Qed.

(* GF(2)[X] is an integral domain *)
Theorem clmul_eq_0 : forall a b, clmul a b = 0 -> a = 0 \/ b = 0.
Proof.
  intros [|p] [|q] H; auto.
  exfalso. exact (clmul_pos_nonzero p q H).
Qed.

Corollary clmul_neq_0 : forall a b, a <> 0 -> b <> 0 -> clmul a b <> 0.
Proof. intros a b Ha Hb H. destruct (clmul_eq_0 a b H); contradiction. Qed.

(* cancellation *)
Corollary clmul_cancel_r : forall a b c, c <> 0 -> clmul a c = clmul b c -> a = b.
Proof.
  intros a b c Hc H.
  assert (E : clmul (N.lxor a b) c = 0) by (rewrite clmul_lxor_l, H; apply N.lxor_nilpotent).
  destruct (clmul_eq_0 _ _ E) as [E1|E1]; [apply N.lxor_eq; exact E1 | contradiction].
Qed.

(* ------------------------------------------------------------------------ *)
(* degrees                                                                   *)
(* ------------------------------------------------------------------------ *)

Lemma double_lt_pow2 : forall x k, x < 2^k -> N.double x < 2^(N.succ k).
Proof. intros x k H. rewrite N.double_spec, N.pow_succ_r'. lia. Qed.

Lemma clmul_pos_bound : forall p b n m, Npos p < 2^n -> b < 2^m -> clmul_pos p b < 2^(n + m).
Proof.
  induction p; intros b n m Hp Hb.
  - (* p~1 = 2p+1 *)
    destruct (N.eq_dec n 0) as [->|Hn]; [simpl in Hp; lia|].
    rewrite <- (N.succ_pred n Hn) in *. set (n' := N.pred n) in *.
    assert (Hp' : Npos p < 2^n').
    { rewrite N.pow_succ_r' in Hp. change (Npos p~1) with (2 * Npos p + 1) in Hp. lia. }
    simpl. apply lxor_lt_pow2.
    + eapply N.lt_le_trans; [exact Hb|]. apply N.pow_le_mono_r; lia.
    + rewrite N.add_succ_l. apply double_lt_pow2. apply IHp; assumption.
  - destruct (N.eq_dec n 0) as [->|Hn]; [simpl in Hp; lia|].
    rewrite <- (N.succ_pred n Hn) in *. set (n' := N.pred n) in *.
    assert (Hp' : Npos p < 2^n').
    { rewrite N.pow_succ_r' in Hp. change (Npos p~0) with (2 * Npos p) in Hp. lia. }
    simpl. rewrite N.add_succ_l. apply double_lt_pow2. apply IHp; assumption.
  - simpl. eapply N.lt_le_trans; [exact Hb|]. apply N.pow_le_mono_r; lia.
Qed.

Lemma clmul_bound : forall a b n m, a < 2^n -> b < 2^m -> clmul a b < 2^(n + m).
Proof.
  intros [|p] b n m Ha Hb; simpl.
  - apply N.neq_0_lt_0. apply N.pow_nonzero; discriminate.
  - apply clmul_pos_bound; assumption.
Qed.

(* ------------------------------------------------------------------------ *)
(* clmul64: the Go loop computes the split product                           *)
(* ------------------------------------------------------------------------ *)

Definition split64 (x : N) : N * N := (x mod 2^64, x / 2^64).

Lemma mod_pow2_succ : forall b i,
  b mod 2^(N.succ i) = N.lxor (b mod 2^i) (if N.testbit b i then 2^i else 0).
Proof.
  intros b i. apply N.bits_inj; intro m. rewrite N.lxor_spec.
  destruct (N.lt_ge_cases m i) as [Hl|Hg].
  - rewrite !N.mod_pow2_bits_low by lia.
    destruct (N.testbit b i).
    + rewrite N.pow2_bits_false by lia. rewrite xorb_false_r; reflexivity.
    + rewrite N.bits_0, xorb_false_r; reflexivity.
  - rewrite (N.mod_pow2_bits_high b i m) by assumption. simpl.
    destruct (N.eq_dec m i) as [->|Hne].
    + rewrite N.mod_pow2_bits_low by lia.
      destruct (N.testbit b i); [rewrite N.pow2_bits_true | rewrite N.bits_0]; reflexivity.
    + rewrite N.mod_pow2_bits_high by lia.
      destruct (N.testbit b i); [rewrite N.pow2_bits_false by lia | rewrite N.bits_0]; reflexivity.
Qed.

Lemma clmul64_step_spec : forall a b i,
  a < 2^64 -> i < 64 ->
  clmul64_step a b i (split64 (clmul (b mod 2^i) a))
  = split64 (clmul (b mod 2^(N.succ i)) a).
Proof.
  intros a b i Ha Hi. unfold clmul64_step, split64. rewrite lowbits_mod.
  rewrite mod_pow2_succ, clmul_lxor_l.
  destruct (N.testbit b i).
  - rewrite clmul_pow2_l.
    rewrite mod_pow2_lxor, div_pow2_lxor.
    destruct (N.eqb_spec i 0) as [->|Hne].
    + rewrite N.shiftl_0_r, (N.mod_small a) by exact Ha.
      rewrite (N.div_small a) by exact Ha. rewrite N.lxor_0_r. reflexivity.
    + rewrite <- (N.shiftr_div_pow2 (N.shiftl a i)), N.shiftr_shiftl_r by lia. reflexivity.
  - rewrite clmul_0_l, N.lxor_0_r. reflexivity.
Qed.

Lemma clmul64_loop_spec : forall fuel a b i,
  a < 2^64 -> i + N.of_nat fuel <= 64 ->
  clmul64_loop fuel i a b (split64 (clmul (b mod 2^i) a))
  = split64 (clmul (b mod 2^(i + N.of_nat fuel)) a).
Proof.
  induction fuel; intros a b i Ha Hi.
  - simpl. rewrite N.add_0_r. reflexivity.
  - cbn [clmul64_loop]. rewrite Nat2N.inj_succ in Hi.
    rewrite clmul64_step_spec by (try assumption; lia).
    rewrite IHfuel by (try assumption; lia). do 4 f_equal. rewrite Nat2N.inj_succ. lia.
Qed.

Theorem clmul64_spec : forall a b, a < 2^64 -> b < 2^64 -> clmul64 a b = split64 (clmul a b).
Proof.
  intros a b Ha Hb. unfold clmul64.
  assert (E : (0, 0) = split64 (clmul (b mod 2^0) a)).
  { change (2^0) with 1. rewrite N.mod_1_r. reflexivity. }
  rewrite E.
  rewrite clmul64_loop_spec by (simpl; lia).
  change (0 + N.of_nat 64) with 64. rewrite (N.mod_small b) by exact Hb.
  rewrite clmul_comm. reflexivity.
Qed.

(* ------------------------------------------------------------------------ *)
(* mul128_generic = split128 (clmul a b)                                     *)
(* ------------------------------------------------------------------------ *)

Lemma mod_lt_pow2 : forall x k, x mod 2^k < 2^k.
Proof. intros. apply N.mod_lt. apply N.pow_nonzero; discriminate. Qed.

Theorem clmul_generic : forall a b, a < 2^128 -> b < 2^128 ->
  mul128_generic a b = split128 (clmul a b).
Proof.
  intros a b Ha Hb. unfold mul128_generic. rewrite !lowbits_mod, !highbits_div.
  set (a0 := a mod 2^64). set (a1 := a / 2^64).
  set (b0 := b mod 2^64). set (b1 := b / 2^64).
  assert (Ha0 : a0 < 2^64) by apply mod_lt_pow2.
  assert (Hb0 : b0 < 2^64) by apply mod_lt_pow2.
  assert (Ha1 : a1 < 2^64) by (apply div_lt_pow2; exact Ha).
  assert (Hb1 : b1 < 2^64) by (apply div_lt_pow2; exact Hb).
  rewrite !clmul64_spec by assumption. unfold split64.
  set (p00 := clmul a0 b0). set (p01 := clmul a0 b1).
  set (p10 := clmul a1 b0). set (p11 := clmul a1 b1).
  assert (B00 : p00 < 2^(64+64)) by (apply clmul_bound; assumption).
  assert (B01 : p01 < 2^(64+64)) by (apply clmul_bound; assumption).
  assert (B10 : p10 < 2^(64+64)) by (apply clmul_bound; assumption).
  assert (B11 : p11 < 2^(64+64)) by (apply clmul_bound; assumption).
  symmetry. apply split128_unique.
  - (* lo < 2^128 *)
    assert (N.lxor (p00 / 2^64) (N.lxor (p01 mod 2^64) (p10 mod 2^64)) < 2^64).
    { apply lxor_lt_pow2; [apply div_lt_pow2; exact B00 | apply lxor_lt_pow2; apply mod_lt_pow2]. }
    pose proof (mod_lt_pow2 p00 64). change (2^128) with (2^64 * 2^64). nia.
  - (* the value *)
    assert (M1 : N.lxor (p00 / 2^64) (N.lxor (p01 mod 2^64) (p10 mod 2^64)) < 2^64).
    { apply lxor_lt_pow2; [apply div_lt_pow2; exact B00 | apply lxor_lt_pow2; apply mod_lt_pow2]. }
    assert (M2 : N.lxor (N.lxor (p01 / 2^64) (p10 / 2^64)) (p11 mod 2^64) < 2^64).
    { apply lxor_lt_pow2; [apply lxor_lt_pow2; apply div_lt_pow2; assumption | apply mod_lt_pow2]. }
    rewrite (add_shift_lxor (p00 mod 2^64)) by apply mod_lt_pow2.
    rewrite (add_shift_lxor (N.lxor (N.lxor (p01 / 2^64) (p10 / 2^64)) (p11 mod 2^64))) by exact M2.
    rewrite add_shift_lxor.
    2:{ apply lxor_lt_pow2.
        - eapply N.lt_le_trans; [apply mod_lt_pow2|]. apply N.pow_le_mono_r; lia.
        - apply lt_pow2_bits. intros m Hm.
          rewrite N.shiftl_spec_high' by lia.
          apply (proj1 (lt_pow2_bits _ 64) M1). lia. }
    (* right-hand side: expand a and b into limbs *)
    match goal with |- ?L = _ => set (LHS := L) end.
    rewrite (split_lxor_shift a 64), (split_lxor_shift b 64).
    fold a0 a1 b0 b1.
    rewrite !clmul_lxor_l, !clmul_lxor_r, !clmul_shiftl_l, !clmul_shiftl_r.
    fold p00 p01 p10 p11.
    rewrite (split_lxor_shift p00 64) at 1.
    rewrite (split_lxor_shift p01 64) at 1.
    rewrite (split_lxor_shift p10 64) at 1.
    rewrite (split_lxor_shift p11 64) at 1.
    subst LHS.
    rewrite !N.shiftl_lxor, !N.shiftl_shiftl.
    change (64 + 64) with 128. change (64 + 128) with 192. change (128 + 64) with 192.
    (* both sides are xors of the same eight terms *)
    apply N.bits_inj; intro m. rewrite !N.lxor_spec.
    repeat match goal with |- context [N.testbit ?t m] =>
      is_var t || (let x := fresh "t" in generalize (N.testbit t m); intro x) end.
    repeat match goal with x : bool |- _ => destruct x end; reflexivity.
Qed.

(* ------------------------------------------------------------------------ *)
(* mul128_ref                                                                *)
(* ------------------------------------------------------------------------ *)

Lemma mul128_ref_loop_spec : forall fuel a b i,
  mul128_ref_loop fuel i a b (clmul (a mod 2^i) b) = clmul (a mod 2^(i + N.of_nat fuel)) b.
Proof.
  induction fuel; intros a b i.
  - simpl. rewrite N.add_0_r. reflexivity.
  - cbn [mul128_ref_loop].
    replace (if N.testbit a i then N.lxor (clmul (a mod 2^i) b) (N.shiftl b i) else clmul (a mod 2^i) b)
      with (clmul (a mod 2^(N.succ i)) b).
    + rewrite IHfuel. do 3 f_equal. rewrite Nat2N.inj_succ. lia.
    + rewrite mod_pow2_succ, clmul_lxor_l. destruct (N.testbit a i).
      * rewrite clmul_pow2_l. reflexivity.
      * rewrite clmul_0_l, N.lxor_0_r. reflexivity.
Qed.

Theorem mul128_ref_spec : forall a b, a < 2^128 -> b < 2^128 -> mul128_ref a b = split128 (clmul a b).
Proof.
  intros a b Ha Hb. unfold mul128_ref. rewrite lowbits_mod.
  assert (E : 0 = clmul (a mod 2^0) (b mod 2^128)).
  { change (2^0) with 1. rewrite N.mod_1_r. reflexivity. }
  rewrite E at 2.
  rewrite mul128_ref_loop_spec. change (0 + N.of_nat 128) with 128.
  rewrite !N.mod_small by assumption. reflexivity.
Qed.

(* ------------------------------------------------------------------------ *)
(* the unreduced inner product                                               *)
(* ------------------------------------------------------------------------ *)

Lemma inn_prdt_split : forall a b, inn_prdt a b = split128 (inn256 a b).
Proof.
  induction a as [|x a IH]; intros [|y b]; simpl; try reflexivity.
  rewrite split128_lxor, IH. reflexivity.
Qed.

Lemma inn256_app : forall a1 b1 a2 b2, length a1 = length b1 ->
  inn256 (a1 ++ a2) (b1 ++ b2) = N.lxor (inn256 a1 b1) (inn256 a2 b2).
Proof.
  induction a1 as [|x a1 IH]; intros [|y b1] a2 b2 H; simpl in *; try discriminate.
  - reflexivity.
  - rewrite IH by lia. rewrite N.lxor_assoc. reflexivity.
Qed.

Lemma inn256_nil_r : forall a, inn256 a [] = 0.
Proof. intros [|x a]; reflexivity. Qed.
