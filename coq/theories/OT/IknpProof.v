(* IknpProof.v — proofs about the IKNP model (OT/Iknp.v).
   Route: list/bit lemmas -> createLabels is a transpose (label_bit,
   createLabels_nth) -> one chunk: q = t xor x*Delta column by column
   (qcols_nth) -> joint induction over the chunk loops of receiver and sender
   (labels_loops, bits_loops) -> sessions of arbitrary operations (run_ops). *)
From Coq Require Import NArith ZArith List Bool Arith Lia Btauto ZifyNat ZifyN.
From Mpc Require Import Gen.Consts Base.Label OT.Iknp.
Import ListNotations.
Local Open Scope nat_scope.

Ltac Zify.zify_post_hook ::= Z.div_mod_to_equations.

(* ---- constants (regenerated from ot/iknp.go; a changed constant breaks here) *)
Lemma K_eq : K = 128. Proof. reflexivity. Qed.
Lemma chunkByteRows_eq : chunkByteRows = 64. Proof. reflexivity. Qed.
Lemma chunkRows_eq : chunkRows = 512. Proof. reflexivity. Qed.
Lemma chunk_consts : chunkRows = chunkByteRows * 8 /\ chunkSize = chunkByteRows * K.
Proof. split; reflexivity. Qed.
Global Opaque K chunkByteRows chunkRows chunkSize.

(* ---- lists -------------------------------------------------------------- *)
Lemma nth_map_seq {A} (f : nat -> A) len r d : r < len -> nth r (map f (seq 0 len)) d = f r.
Proof.
  intros H. rewrite nth_indep with (d' := f 0) by (rewrite map_length, seq_length; lia).
  rewrite map_nth, seq_nth by lia. reflexivity.
Qed.

Lemma nth_firstn_lt {A} (l : list A) n k d : k < n -> nth k (firstn n l) d = nth k l d.
Proof.
  revert n k. induction l as [|a l IH]; intros n k H.
  - rewrite firstn_nil. reflexivity.
  - destruct n; [lia|]. destruct k; simpl; [reflexivity|]. apply IH. lia.
Qed.

Lemma nth_skipn_add {A} (l : list A) n k d : nth k (skipn n l) d = nth (n + k) l d.
Proof.
  revert l. induction n as [|n IH]; intros l; [reflexivity|].
  destruct l; simpl; [destruct k; reflexivity|]. apply IH.
Qed.

Lemma xor_into_length a b : length (xor_into a b) = length a.
Proof. revert b. induction a as [|x a IH]; intros [|y b]; simpl; auto. Qed.

Lemma xor_into_nth a b r :
  r < length a -> r < length b -> nth r (xor_into a b) 0%N = N.lxor (nth r a 0%N) (nth r b 0%N).
Proof.
  revert b r. induction a as [|x a IH]; intros [|y b] r Ha Hb; simpl in *; try lia.
  destruct r; [reflexivity|]. apply IH; lia.
Qed.

Lemma nth_nil_N r : nth r (@nil N) 0%N = 0%N.
Proof. destruct r; reflexivity. Qed.

(* flat_map of blocks of 8 *)
Lemma flat_map8_length {A} (f : nat -> list A) w :
  (forall r, length (f r) = 8) -> length (flat_map f (seq 0 w)) = w * 8.
Proof.
  intros Hf. induction w as [|w IH]; [reflexivity|].
  rewrite seq_S, flat_map_app, app_length, IH. simpl. rewrite app_nil_r, Hf. lia.
Qed.

Lemma flat_map8_nth {A} (f : nat -> list A) w k d :
  (forall r, length (f r) = 8) -> k < w * 8 ->
  nth k (flat_map f (seq 0 w)) d = nth (k mod 8) (f (k / 8)) d.
Proof.
  intros Hf. induction w as [|w IH]; intros Hk; [lia|].
  rewrite seq_S, flat_map_app. change (flat_map f [0 + w]) with (f w ++ []). rewrite app_nil_r.
  destruct (Nat.lt_ge_cases k (w * 8)) as [Hlt|Hge].
  - rewrite app_nth1 by (rewrite flat_map8_length; auto). auto.
  - rewrite app_nth2 by (rewrite flat_map8_length; auto).
    rewrite flat_map8_length by auto.
    replace (k / 8) with w by lia. replace (k mod 8) with (k - w * 8) by lia. reflexivity.
Qed.

(* concatenation of m columns of width w: the flat index of the Go buffers *)
Lemma concat_cols_length (F : nat -> list N) w m :
  (forall i, length (F i) = w) -> length (concat (map F (seq 0 m))) = m * w.
Proof.
  intros HF. induction m as [|m IH]; [reflexivity|].
  rewrite seq_S, map_app, concat_app, app_length, IH. simpl. rewrite app_nil_r, HF. lia.
Qed.

(* buf[j*w + row] of the column-major buffer is byte `row` of column j *)
Lemma nth_concat_cols (F : nat -> list N) w m j r :
  (forall i, length (F i) = w) -> j < m -> r < w ->
  nth (j * w + r) (concat (map F (seq 0 m))) 0%N = nth r (F j) 0%N.
Proof.
  intros HF. induction m as [|m IH]; intros Hj Hr; [lia|].
  rewrite seq_S, map_app, concat_app. simpl. rewrite app_nil_r.
  destruct (Nat.eq_dec j m) as [->|Hne].
  - rewrite app_nth2 by (rewrite (concat_cols_length F w); auto; lia).
    rewrite (concat_cols_length F w) by auto. f_equal. lia.
  - assert (Hlt : j * w + r < length (concat (map F (seq 0 m)))).
    { rewrite (concat_cols_length F w) by auto.
      assert ((j + 1) * w <= m * w) by (apply Nat.mul_le_mono_r; lia). lia. }
    rewrite app_nth1 by exact Hlt. apply IH; lia.
Qed.

(* ---- bits --------------------------------------------------------------- *)
Lemma bits_to_N_spec l k : N.testbit (bits_to_N l) (N.of_nat k) = nth k l false.
Proof.
  revert k. induction l as [|b l IH]; intros k.
  - simpl bits_to_N. rewrite N.bits_0. destruct k; reflexivity.
  - simpl bits_to_N. destruct k as [|k].
    + simpl. destruct b.
      * rewrite N.succ_double_spec. apply N.testbit_odd_0.
      * rewrite N.double_spec. apply N.testbit_even_0.
    + rewrite Nat2N.inj_succ. simpl nth. destruct b.
      * rewrite N.succ_double_spec, N.testbit_odd_succ by apply N.le_0_l. apply IH.
      * rewrite N.double_spec, N.testbit_even_succ by apply N.le_0_l. apply IH.
Qed.

(* Go bit index j (Label.Bit) <-> bit position p of the 128-bit number *)
Definition colinv (p : nat) : nat := if p <? 64 then p + 64 else p - 64.

Lemma colbit_colinv p : p < 128 -> colbit (colinv p) = N.of_nat p.
Proof.
  intros H. unfold colbit, colinv.
  destruct (p <? 64) eqn:E.
  - apply Nat.ltb_lt in E. replace (p + 64 <? 64) with false by (symmetry; apply Nat.ltb_ge; lia).
    f_equal. lia.
  - apply Nat.ltb_ge in E. replace (p - 64 <? 64) with true by (symmetry; apply Nat.ltb_lt; lia).
    f_equal. lia.
Qed.

Lemma colinv_lt p : p < 128 -> colinv p < 128.
Proof. unfold colinv. destruct (p <? 64) eqn:E; [apply Nat.ltb_lt in E|apply Nat.ltb_ge in E]; lia. Qed.

Lemma colinv_64 : colinv 64 = 0. Proof. reflexivity. Qed.

Lemma lbit_colinv D p : p < 128 -> lbit D (colinv p) = N.testbit D (N.of_nat p).
Proof. intros H. unfold lbit. rewrite colbit_colinv by assumption. reflexivity. Qed.

Lemma testbit_high D p : (D < 2 ^ 128)%N -> 128 <= p -> N.testbit D (N.of_nat p) = false.
Proof.
  intros HD Hp. rewrite <- (N.mod_small D (2 ^ 128)) by assumption.
  apply N.mod_pow2_bits_high. lia.
Qed.

(* createLabels is a transpose: bit p of the label built from a byte-row is
   bit `bit` of the byte of column colinv p *)
Lemma label_bit bs bit p :
  N.testbit (label_of_bytes bs bit) (N.of_nat p)
  = if p <? 128 then N.testbit (nth (colinv p) bs 0%N) bit else false.
Proof.
  unfold label_of_bytes. cbv zeta. rewrite N.lor_spec.
  set (bits := map (fun b => N.testbit b bit) bs).
  assert (Hb : forall k, nth k bits false = N.testbit (nth k bs 0%N) bit).
  { intros k. unfold bits.
    change false with ((fun b => N.testbit b bit) 0%N) at 1. apply map_nth. }
  destruct (Nat.lt_ge_cases p 64) as [Hlt|Hge].
  - rewrite N.shiftl_spec_low by lia. rewrite orb_false_l.
    rewrite bits_to_N_spec, nth_firstn_lt, nth_skipn_add, Hb by assumption.
    replace (p <? 128) with true by (symmetry; apply Nat.ltb_lt; lia).
    unfold colinv. replace (p <? 64) with true by (symmetry; apply Nat.ltb_lt; lia).
    f_equal. f_equal. lia.
  - rewrite N.shiftl_spec_high by lia.
    replace (N.of_nat p - 64)%N with (N.of_nat (p - 64)) by lia.
    rewrite !bits_to_N_spec.
    rewrite (nth_overflow (firstn 64 (skipn 64 bits))) by (rewrite firstn_length; lia).
    rewrite orb_false_r.
    destruct (Nat.lt_ge_cases p 128) as [Hlt|Hge2].
    + replace (p <? 128) with true by (symmetry; apply Nat.ltb_lt; lia).
      rewrite nth_firstn_lt, Hb by lia.
      unfold colinv. replace (p <? 64) with false by (symmetry; apply Nat.ltb_ge; lia).
      reflexivity.
    + replace (p <? 128) with false by (symmetry; apply Nat.ltb_ge; lia).
      apply nth_overflow. rewrite firstn_length. lia.
Qed.

Lemma createLabels_length len cols w : length (createLabels len cols w) = Nat.min (w * 8) len.
Proof.
  unfold createLabels. rewrite firstn_length, flat_map8_length.
  - lia.
  - intros r. rewrite map_length, seq_length. reflexivity.
Qed.

Lemma createLabels_nth len cols w k :
  k < Nat.min (w * 8) len ->
  nth k (createLabels len cols w) 0%N
  = label_of_bytes (map (fun col => nth (k / 8) col 0%N) cols) (N.of_nat (k mod 8)).
Proof.
  intros Hk. unfold createLabels. rewrite nth_firstn_lt by assumption.
  rewrite flat_map8_nth.
  - cbv zeta. rewrite nth_map_seq by lia. reflexivity.
  - intros r. rewrite map_length, seq_length. reflexivity.
  - lia.
Qed.

Lemma nth_map_cols (cols : list (list N)) r j :
  nth j (map (fun col => nth r col 0%N) cols) 0%N = nth r (nth j cols []) 0%N.
Proof.
  rewrite <- (map_nth (fun col => nth r col 0%N) cols [] j).
  f_equal. symmetry. apply nth_nil_N.
Qed.

(* bit p of label k of a transposed matrix *)
Lemma createLabels_bit len cols w k p :
  k < Nat.min (w * 8) len ->
  N.testbit (nth k (createLabels len cols w) 0%N) (N.of_nat p)
  = if p <? 128 then N.testbit (nth (k / 8) (nth (colinv p) cols []) 0%N) (N.of_nat (k mod 8)) else false.
Proof.
  intros Hk. rewrite createLabels_nth, label_bit by assumption.
  destruct (p <? 128); [|reflexivity].
  rewrite nth_map_cols. reflexivity.
Qed.

Lemma byte_of_bits_spec f bit : bit < 8 -> N.testbit (byte_of_bits f) (N.of_nat bit) = f bit.
Proof.
  intros H. unfold byte_of_bits.
  do 8 (destruct bit as [|bit];
        [destruct (f 0), (f 1), (f 2), (f 3), (f 4), (f 5), (f 6), (f 7); reflexivity|]).
  lia.
Qed.

Lemma pack_bits_length b : length (pack_bits b) = (length b + 7) / 8.
Proof. unfold pack_bits. rewrite map_length, seq_length. reflexivity. Qed.

Lemma pack_bits_bit b i :
  i < length b -> N.testbit (nth (i / 8) (pack_bits b) 0%N) (N.of_nat (i mod 8)) = nth i b false.
Proof.
  intros H. unfold pack_bits. rewrite nth_map_seq by lia.
  rewrite byte_of_bits_spec by lia. f_equal. lia.
Qed.

Lemma cbyte_bit C k bit :
  bit < 8 -> N.testbit (cbyte C k) (N.of_nat bit) = N.testbit C (N.of_nat (8 * k + bit)).
Proof.
  intros H. unfold cbyte. rewrite N.land_spec, N.shiftr_spec by apply N.le_0_l.
  change 255%N with (N.ones 8). rewrite N.ones_spec_low by lia. rewrite andb_true_r.
  f_equal. lia.
Qed.

Lemma set_bits_spec P ofs m R i :
  N.testbit (set_bits P ofs m R) (N.of_nat i)
  = N.testbit R (N.of_nat i) || ((ofs <=? i) && (i <? ofs + m) && P (i - ofs)).
Proof.
  unfold set_bits. revert R. induction m as [|m IH]; intros R.
  - cbn [seq fold_left].
    destruct (Nat.leb_spec ofs i), (Nat.ltb_spec i (ofs + 0)); try lia;
      cbn [andb]; rewrite orb_false_r; reflexivity.
  - rewrite seq_S, fold_left_app. cbn [fold_left]. rewrite Nat.add_0_l.
    pose proof (IH R) as H1.
    set (R1 := fold_left _ (seq 0 m) R) in *.
    assert (Hb : N.testbit (if P m then N.lor R1 (N.shiftl 1 (N.of_nat (ofs + m))) else R1) (N.of_nat i)
                 = N.testbit R1 (N.of_nat i) || (P m && (ofs + m =? i))).
    { destruct (P m); [|rewrite orb_false_r; reflexivity].
      rewrite N.lor_spec, N.shiftl_1_l, N.pow2_bits_eqb. f_equal. rewrite andb_true_l.
      destruct (Nat.eqb_spec (ofs + m) i), (N.eqb_spec (N.of_nat (ofs + m)) (N.of_nat i));
        try reflexivity; lia. }
    rewrite Hb, H1.
    destruct (Nat.eqb_spec (ofs + m) i) as [E|E].
    + subst i. replace (ofs + m - ofs) with m by lia.
      destruct (Nat.leb_spec ofs (ofs + m)); [|lia].
      destruct (Nat.ltb_spec (ofs + m) (ofs + m)); [lia|].
      destruct (Nat.ltb_spec (ofs + m) (ofs + S m)); [|lia].
      cbn [andb]. rewrite orb_false_r, andb_true_r. reflexivity.
    + rewrite andb_false_r, orb_false_r.
      destruct (Nat.ltb_spec i (ofs + m)), (Nat.ltb_spec i (ofs + S m)); try lia; reflexivity.
Qed.

Lemma nth_map_combine_seq {A} (f : nat * N -> A) (l : list N) r d :
  r < length l -> nth r (map f (combine (seq 0 (length l)) l)) d = f (r, nth r l 0%N).
Proof.
  intros H.
  rewrite nth_indep with (d' := f (0, 0%N))
    by (rewrite map_length, combine_length, seq_length; lia).
  rewrite map_nth, combine_nth by (rewrite seq_length; reflexivity).
  rewrite seq_nth by lia. reflexivity.
Qed.

Section Proofs.
  Variables g0 g1 : nat -> nat -> N.
  Variable Delta : N.
  Hypothesis HDelta : (Delta < 2 ^ 128)%N.

  Lemma prg_length g pos len : length (prg g pos len) = len.
  Proof. unfold prg. rewrite map_length, seq_length. reflexivity. Qed.

  Lemma prg_nth g pos len r : r < len -> nth r (prg g pos len) 0%N = g (pos + r).
  Proof. intros H. unfold prg. rewrite nth_map_seq by assumption. reflexivity. Qed.

  Lemma tcols_nth pos w i r :
    i < K -> r < w -> nth r (nth i (tcols g0 pos w) []) 0%N = g0 i (pos + r).
  Proof. intros Hi Hr. unfold tcols. rewrite nth_map_seq by assumption. apply prg_nth. assumption. Qed.

  (* the u column of the receiver: G1 xor G0 xor x, byte by byte *)
  Definition ucol_spec (F : nat -> list N) (pos w : nat) (xs : nat -> N) : Prop :=
    (forall i, length (F i) = w) /\
    (forall i r, i < K -> r < w ->
       nth r (F i) 0%N = N.lxor (N.lxor (g1 i (pos + r)) (g0 i (pos + r))) (xs r)).

  Lemma ucols_spec bbuf ofs pos w :
    ofs / 8 + w <= length bbuf ->
    exists F, ucols g0 g1 bbuf ofs pos w = map F (seq 0 K)
              /\ ucol_spec F pos w (fun r => nth (ofs / 8 + r) bbuf 0%N).
  Proof.
    intros Hlen.
    exists (fun i => xor_into (xor_into (prg (g1 i) pos w) (prg (g0 i) pos w)) (skipn (ofs / 8) bbuf)).
    split; [reflexivity|]. split.
    - intros i. rewrite !xor_into_length. apply prg_length.
    - intros i r Hi Hr.
      rewrite xor_into_nth.
      + rewrite xor_into_nth by (rewrite prg_length; assumption).
        rewrite !prg_nth by assumption. rewrite nth_skipn_add. reflexivity.
      + rewrite xor_into_length, prg_length. assumption.
      + rewrite skipn_length. lia.
  Qed.

  Lemma ucols_bits_spec tailfix C ofs pos w :
    exists F, ucols_bits g0 g1 tailfix C ofs pos w = map F (seq 0 K)
              /\ ucol_spec F pos w
                   (fun r => if r <? (if tailfix then w else 8 * (w / 8))
                             then cbyte C (8 * (ofs / 64) + r) else 0%N).
  Proof.
    exists (fun i => xor_choice_bytes (xor_into (prg (g1 i) pos w) (prg (g0 i) pos w)) C
                       (8 * (ofs / 64)) (if tailfix then w else 8 * (w / 8))).
    split; [reflexivity|]. split.
    - intros i. unfold xor_choice_bytes.
      rewrite map_length, combine_length, seq_length, xor_into_length, prg_length. lia.
    - intros i r Hi Hr. unfold xor_choice_bytes.
      rewrite nth_map_combine_seq by (rewrite xor_into_length, prg_length; assumption).
      cbn [fst snd].
      rewrite xor_into_nth by (rewrite prg_length; assumption).
      rewrite !prg_nth by assumption.
      destruct (r <? _); [reflexivity|]. rewrite N.lxor_0_r. reflexivity.
  Qed.

  (* what crosses the wire *)
  Lemma chunk_length (F : nat -> list N) w : (forall i, length (F i) = w) ->
    length (concat (map F (seq 0 K))) = K * w.
  Proof. intros HF. apply concat_cols_length. assumption. Qed.

  Lemma chunk_firstn (F : nat -> list N) w n : (forall i, length (F i) = w) -> n = w * K ->
    firstn n (concat (map F (seq 0 K))) = concat (map F (seq 0 K)).
  Proof.
    intros HF ->. apply firstn_all2. rewrite (chunk_length F w) by assumption. lia.
  Qed.

  Lemma K_pos : 0 < K. Proof. rewrite K_eq. lia. Qed.

  Lemma chunk_div (F : nat -> list N) w : (forall i, length (F i) = w) ->
    length (concat (map F (seq 0 K))) / K = w /\ length (concat (map F (seq 0 K))) mod K = 0.
  Proof.
    intros HF. rewrite (chunk_length F w) by assumption. pose proof K_pos. split.
    - rewrite Nat.mul_comm. apply Nat.div_mul. lia.
    - rewrite Nat.mul_comm. apply Nat.mod_mul. lia.
  Qed.

  (* the sender's matrix: q = t xor x*Delta, column by column *)
  Lemma qcols_nth F w xs pos i r :
    ucol_spec F pos w xs -> i < K -> r < w ->
    nth r (nth i (qcols g0 g1 Delta (concat (map F (seq 0 K))) pos w) []) 0%N
    = N.lxor (g0 i (pos + r)) (if lbit Delta i then xs r else 0%N).
  Proof.
    intros [HF HU] Hi Hr. unfold qcols. rewrite nth_map_seq by assumption.
    unfold sender_g. destruct (lbit Delta i).
    - rewrite xor_into_nth.
      + rewrite prg_nth by assumption. rewrite nth_skipn_add.
        rewrite (nth_concat_cols F w) by assumption.
        rewrite HU by assumption.
        generalize (g1 i (pos + r)), (g0 i (pos + r)), (xs r). intros a b c. xor_solve.
      + rewrite prg_length. assumption.
      + rewrite skipn_length, (chunk_length F w) by assumption.
        assert ((i + 1) * w <= K * w) by (apply Nat.mul_le_mono_r; lia). lia.
    - rewrite prg_nth by assumption. rewrite N.lxor_0_r. reflexivity.
  Qed.

  Lemma qcols_col0 F w xs pos r :
    ucol_spec F pos w xs -> r < w ->
    nth r (nth 0 (qcols g0 g1 Delta (concat (map F (seq 0 K))) pos w) []) 0%N
    = N.lxor (g0 0 (pos + r)) (if lbit Delta 0 then xs r else 0%N).
  Proof. intros HU Hr. apply qcols_nth; auto. apply K_pos. Qed.

  (* one chunk: every label of the sender differs from the receiver's by x_k * Delta *)
  Lemma chunk_labels F w xs pos len k :
    ucol_spec F pos w xs -> k < Nat.min (w * 8) len ->
    nth k (createLabels len (tcols g0 pos w) w) 0%N
    = N.lxor (nth k (createLabels len (qcols g0 g1 Delta (concat (map F (seq 0 K))) pos w) w) 0%N)
             (if N.testbit (xs (k / 8)) (N.of_nat (k mod 8)) then Delta else 0%N).
  Proof.
    intros HU Hk. apply N.bits_inj. intros p.
    rewrite <- (N2Nat.id p). set (q := N.to_nat p). clearbody q. clear p.
    rewrite N.lxor_spec, !createLabels_bit by assumption.
    destruct (Nat.ltb_spec q 128) as [Hq|Hq].
    - assert (Hj : colinv q < K) by (rewrite K_eq; apply colinv_lt; assumption).
      assert (Hr : k / 8 < w) by lia.
      rewrite tcols_nth, (qcols_nth F w xs) by assumption.
      rewrite N.lxor_spec, lbit_colinv by assumption.
      destruct (N.testbit Delta (N.of_nat q)) eqn:ED,
               (N.testbit (xs (k / 8)) (N.of_nat (k mod 8))) eqn:EX;
        cbv iota; rewrite ?N.lxor_spec, ?N.bits_0, ?ED, ?EX; btauto.
    - destruct (N.testbit (xs (k / 8)) (N.of_nat (k mod 8)));
        rewrite ?N.bits_0, ?(testbit_high Delta q) by assumption; reflexivity.
  Qed.
  (* ---- unfolding equations of the loops ---------------------------------- *)
  Lemma receive_loop_S f n bbuf ofs pos :
    receive_loop g0 g1 (S f) n bbuf ofs pos =
    if n <=? ofs then Some ([], [], pos) else
      let rows := Nat.min chunkRows (n - ofs) in
      let byteRows := (rows + 7) / 8 in
      match receive_loop g0 g1 f n bbuf (ofs + rows) (pos + byteRows) with
      | None => None
      | Some (us, ls, pos') =>
          Some (firstn (byteRows * 128) (concat (ucols g0 g1 bbuf ofs pos byteRows)) :: us,
                createLabels (n - ofs) (tcols g0 pos byteRows) byteRows ++ ls, pos')
      end.
  Proof. reflexivity. Qed.

  Lemma receive_loop_done f n bbuf ofs pos :
    n <= ofs -> receive_loop g0 g1 f n bbuf ofs pos = Some ([], [], pos).
  Proof.
    intros H. destruct f.
    - change (receive_loop g0 g1 0 n bbuf ofs pos) with (if n <=? ofs then Some (@nil (list N), @nil N, pos) else None).
      destruct (Nat.leb_spec n ofs); [reflexivity|lia].
    - rewrite receive_loop_S. destruct (Nat.leb_spec n ofs); [reflexivity|lia].
  Qed.

  Lemma send_loop_cons ch rest n ofs pos :
    send_loop g0 g1 Delta (ch :: rest) n ofs pos =
    if n <=? ofs then Some ([], ch :: rest, pos) else
      if negb (length ch mod K =? 0) then None else
      let byteRows := length ch / K in
      match send_loop g0 g1 Delta rest n (ofs + byteRows * 8) (pos + byteRows) with
      | None => None
      | Some (ls, rem, pos') =>
          Some (createLabels (n - ofs) (qcols g0 g1 Delta ch pos byteRows) byteRows ++ ls, rem, pos')
      end.
  Proof. reflexivity. Qed.

  Lemma send_loop_done chunks n ofs pos :
    n <= ofs -> send_loop g0 g1 Delta chunks n ofs pos = Some ([], chunks, pos).
  Proof.
    intros H. destruct chunks.
    - change (send_loop g0 g1 Delta [] n ofs pos) with (if n <=? ofs then Some (@nil N, @nil (list N), pos) else None).
      destruct (Nat.leb_spec n ofs); [reflexivity|lia].
    - rewrite send_loop_cons. destruct (Nat.leb_spec n ofs); [reflexivity|lia].
  Qed.

  (* joint induction over the chunks of one receive()/send() pair *)
  Lemma labels_loops (b : list bool) :
    forall fuel ofs pos rest,
      (ofs mod 8 = 0 \/ length b <= ofs) -> length b - ofs <= fuel ->
      exists us rl sl pos',
        receive_loop g0 g1 fuel (length b) (pack_bits b) ofs pos = Some (us, rl, pos') /\
        send_loop g0 g1 Delta (us ++ rest) (length b) ofs pos = Some (sl, rest, pos') /\
        length rl = length b - ofs /\ length sl = length b - ofs /\
        forall k, k < length b - ofs ->
          nth k rl 0%N = N.lxor (nth k sl 0%N) (if nth (ofs + k) b false then Delta else 0%N).
  Proof.
    set (n := length b). set (bbuf := pack_bits b).
    assert (Hdone : forall fuel ofs pos rest, n <= ofs ->
      exists us rl sl pos',
        receive_loop g0 g1 fuel n bbuf ofs pos = Some (us, rl, pos') /\
        send_loop g0 g1 Delta (us ++ rest) n ofs pos = Some (sl, rest, pos') /\
        length rl = n - ofs /\ length sl = n - ofs /\
        forall k, k < n - ofs ->
          nth k rl 0%N = N.lxor (nth k sl 0%N) (if nth (ofs + k) b false then Delta else 0%N)).
    { intros fuel ofs pos rest H. exists [], [], [], pos.
      rewrite receive_loop_done, send_loop_done by assumption.
      repeat split; simpl; intros; lia. }
    induction fuel as [|fuel IH]; intros ofs pos rest Hal Hfuel.
    { apply Hdone. lia. }
    destruct (Nat.le_gt_cases n ofs) as [Hle|Hlt]; [apply Hdone; assumption|].
    destruct Hal as [Hal|Hal]; [|lia].
    pose proof chunkRows_eq as HCR.
    rewrite receive_loop_S. destruct (Nat.leb_spec n ofs) as [?|_]; [lia|]. cbv zeta.
    remember (Nat.min chunkRows (n - ofs)) as rows eqn:Hrows.
    remember ((rows + 7) / 8) as w eqn:Hw.
    assert (Hbb : ofs / 8 + w <= length bbuf).
    { unfold bbuf. rewrite pack_bits_length. fold n. lia. }
    destruct (ucols_spec bbuf ofs pos w Hbb) as [F [HFe HU]].
    rewrite HFe. rewrite (chunk_firstn F w) by (try apply HU; rewrite K_eq; reflexivity).
    set (chunk := concat (map F (seq 0 K))).
    (* the remaining chunks *)
    assert (Htail : exists us' rl' sl' pos'',
      receive_loop g0 g1 fuel n bbuf (ofs + rows) (pos + w) = Some (us', rl', pos'') /\
      send_loop g0 g1 Delta (us' ++ rest) n (ofs + w * 8) (pos + w) = Some (sl', rest, pos'') /\
      length rl' = n - (ofs + rows) /\ length sl' = n - (ofs + rows) /\
      forall k, k < n - (ofs + rows) ->
        nth k rl' 0%N = N.lxor (nth k sl' 0%N) (if nth (ofs + rows + k) b false then Delta else 0%N)).
    { destruct (Nat.le_gt_cases (n - ofs) chunkRows) as [Hlast|Hfull].
      - exists [], [], [], (pos + w).
        rewrite receive_loop_done, send_loop_done by lia.
        repeat split; simpl; intros; lia.
      - replace (ofs + w * 8) with (ofs + rows) by lia.
        apply IH; lia. }
    destruct Htail as (us' & rl' & sl' & pos'' & HR & HS & HLr & HLs & Hrel).
    rewrite HR.
    exists (chunk :: us'), (createLabels (n - ofs) (tcols g0 pos w) w ++ rl'),
           (createLabels (n - ofs) (qcols g0 g1 Delta chunk pos w) w ++ sl'), pos''.
    split; [reflexivity|].
    destruct (chunk_div F w (proj1 HU)) as [Hdiv Hmod]. fold chunk in Hdiv, Hmod.
    split.
    { rewrite <- app_comm_cons, send_loop_cons.
      destruct (Nat.leb_spec n ofs) as [?|_]; [lia|].
      rewrite Hmod, Nat.eqb_refl. cbn [negb]. cbv zeta. rewrite Hdiv, HS. reflexivity. }
    assert (Hmin : Nat.min (w * 8) (n - ofs) = rows) by lia.
    split; [rewrite app_length, createLabels_length; lia|].
    split; [rewrite app_length, createLabels_length; lia|].
    intros k Hk.
    destruct (Nat.lt_ge_cases k rows) as [Hkr|Hkr].
    - rewrite !app_nth1 by (rewrite createLabels_length; lia).
      unfold chunk. rewrite (chunk_labels F w _ pos (n - ofs) k HU) by lia.
      f_equal.
      replace (ofs / 8 + k / 8) with ((ofs + k) / 8) by lia.
      replace (k mod 8) with ((ofs + k) mod 8) by lia.
      unfold bbuf. rewrite pack_bits_bit by (fold n; lia). reflexivity.
    - rewrite !app_nth2 by (rewrite createLabels_length; lia).
      rewrite !createLabels_length, Hmin.
      rewrite Hrel by lia. replace (ofs + rows + (k - rows)) with (ofs + k) by lia. reflexivity.
  Qed.

  (* ---- packed-bit form --------------------------------------------------- *)
  Lemma recvbits_loop_S tailfix f n C ofs pos R :
    recvbits_loop g0 g1 tailfix (S f) n C ofs pos R =
    if n <=? ofs then Some ([], R, pos) else
      let rows := Nat.min chunkRows (n - ofs) in
      let byteRows := (rows + 7) / 8 in
      let labelsBuf := createLabels chunkRows (tcols g0 pos byteRows) byteRows in
      let R' := set_bits (fun row => lbit (nth row labelsBuf 0%N) 0) ofs rows R in
      match recvbits_loop g0 g1 tailfix f n C (ofs + rows) (pos + byteRows) R' with
      | None => None
      | Some (us, R'', pos') =>
          Some (firstn (byteRows * K) (concat (ucols_bits g0 g1 tailfix C ofs pos byteRows)) :: us, R'', pos')
      end.
  Proof. reflexivity. Qed.

  Lemma recvbits_loop_done tailfix f n C ofs pos R :
    n <= ofs -> recvbits_loop g0 g1 tailfix f n C ofs pos R = Some ([], R, pos).
  Proof.
    intros H. destruct f.
    - change (recvbits_loop g0 g1 tailfix 0 n C ofs pos R)
        with (if n <=? ofs then Some (@nil (list N), R, pos) else None).
      destruct (Nat.leb_spec n ofs); [reflexivity|lia].
    - rewrite recvbits_loop_S. destruct (Nat.leb_spec n ofs); [reflexivity|lia].
  Qed.

  Lemma sendbits_loop_cons ch rest n ofs pos R :
    sendbits_loop g0 g1 Delta (ch :: rest) n ofs pos R =
    if n <=? ofs then Some (R, ch :: rest, pos) else
      if negb (length ch mod K =? 0) then None else
      let byteRows := length ch / K in
      let col0 := nth 0 (qcols g0 g1 Delta ch pos byteRows) [] in
      let maxRows := Nat.min (byteRows * 8) (n - ofs) in
      sendbits_loop g0 g1 Delta rest n (ofs + maxRows) (pos + byteRows)
        (set_bits (fun row => N.testbit (nth (row / 8) col0 0%N) (N.of_nat (row mod 8))) ofs maxRows R).
  Proof. reflexivity. Qed.

  Lemma sendbits_loop_done chunks n ofs pos R :
    n <= ofs -> sendbits_loop g0 g1 Delta chunks n ofs pos R = Some (R, chunks, pos).
  Proof.
    intros H. destruct chunks.
    - change (sendbits_loop g0 g1 Delta [] n ofs pos R)
        with (if n <=? ofs then Some (R, @nil (list N), pos) else None).
      destruct (Nat.leb_spec n ofs); [reflexivity|lia].
    - rewrite sendbits_loop_cons. destruct (Nat.leb_spec n ofs); [reflexivity|lia].
  Qed.

  Lemma set_bits_S P ofs m R :
    set_bits P ofs (S m) R =
    (if P m then N.lor (set_bits P ofs m R) (N.shiftl 1 (N.of_nat (ofs + m))) else set_bits P ofs m R).
  Proof. unfold set_bits. rewrite seq_S, fold_left_app. reflexivity. Qed.

  Lemma set_bits_ext P P' ofs m R :
    (forall row, row < m -> P row = P' row) -> set_bits P ofs m R = set_bits P' ofs m R.
  Proof.
    induction m as [|m IH]; intros H; [reflexivity|].
    rewrite !set_bits_S, IH by (intros; apply H; lia). rewrite H by lia. reflexivity.
  Qed.

  (* the receiver's output bit i: bit of column 0 of its t matrix *)
  Definition rho (ofs pos i : nat) : bool :=
    N.testbit (g0 0 (pos + (i - ofs) / 8)) (N.of_nat ((i - ofs) mod 8)).
  (* whether choice bit i reaches the u matrix in ReceiveBits *)
  Definition cov (tailfix : bool) (n i : nat) : bool := tailfix || (i / 64 <? (n + 7) / 64).

  Ltac guards :=
    repeat match goal with
           | |- context [?a <=? ?b] => destruct (Nat.leb_spec a b); try lia
           | |- context [?a <? ?b] => destruct (Nat.ltb_spec a b); try lia
           end;
    cbn [andb orb]; rewrite ?orb_false_r, ?orb_true_r, ?andb_true_r, ?andb_false_r.

  Lemma bits_loops tailfix C n :
    forall fuel ofs pos Rr Rs rest,
      (ofs mod 512 = 0 \/ n <= ofs) -> n - ofs <= fuel ->
      exists us Rr' Rs' pos',
        recvbits_loop g0 g1 tailfix fuel n C ofs pos Rr = Some (us, Rr', pos') /\
        sendbits_loop g0 g1 Delta (us ++ rest) n ofs pos Rs = Some (Rs', rest, pos') /\
        forall i,
          N.testbit Rr' (N.of_nat i)
          = N.testbit Rr (N.of_nat i) || ((ofs <=? i) && (i <? n) && rho ofs pos i) /\
          N.testbit Rs' (N.of_nat i)
          = N.testbit Rs (N.of_nat i)
            || ((ofs <=? i) && (i <? n)
                && xorb (rho ofs pos i) (lbit Delta 0 && cov tailfix n i && N.testbit C (N.of_nat i))).
  Proof.
    assert (Hdone : forall fuel ofs pos Rr Rs rest, n <= ofs ->
      exists us Rr' Rs' pos',
        recvbits_loop g0 g1 tailfix fuel n C ofs pos Rr = Some (us, Rr', pos') /\
        sendbits_loop g0 g1 Delta (us ++ rest) n ofs pos Rs = Some (Rs', rest, pos') /\
        forall i,
          N.testbit Rr' (N.of_nat i)
          = N.testbit Rr (N.of_nat i) || ((ofs <=? i) && (i <? n) && rho ofs pos i) /\
          N.testbit Rs' (N.of_nat i)
          = N.testbit Rs (N.of_nat i)
            || ((ofs <=? i) && (i <? n)
                && xorb (rho ofs pos i) (lbit Delta 0 && cov tailfix n i && N.testbit C (N.of_nat i)))).
    { intros fuel ofs pos Rr Rs rest H. exists [], Rr, Rs, pos.
      rewrite recvbits_loop_done, sendbits_loop_done by assumption.
      split; [reflexivity|]. split; [reflexivity|].
      intros i. split; guards; reflexivity. }
    induction fuel as [|fuel IH]; intros ofs pos Rr Rs rest Hal Hfuel.
    { apply Hdone. lia. }
    destruct (Nat.le_gt_cases n ofs) as [Hle|Hlt]; [apply Hdone; assumption|].
    destruct Hal as [Hal|Hal]; [|lia].
    pose proof chunkRows_eq as HCR.
    rewrite recvbits_loop_S. destruct (Nat.leb_spec n ofs) as [?|_]; [lia|]. cbv zeta.
    remember (Nat.min chunkRows (n - ofs)) as rows eqn:Hrows.
    remember ((rows + 7) / 8) as w eqn:Hw.
    destruct (ucols_bits_spec tailfix C ofs pos w) as [F [HFe HU]].
    rewrite HFe. rewrite (chunk_firstn F w) by (try apply HU; reflexivity).
    set (chunk := concat (map F (seq 0 K))).
    set (xs := fun r => if r <? (if tailfix then w else 8 * (w / 8))
                        then cbyte C (8 * (ofs / 64) + r) else 0%N) in *.
    (* closed forms of the two bit predicates on this chunk *)
    assert (HPr : forall row, row < rows ->
              lbit (nth row (createLabels chunkRows (tcols g0 pos w) w) 0%N) 0 = rho ofs pos (ofs + row)).
    { intros row Hrow. unfold lbit. change (colbit 0) with (N.of_nat 64).
      rewrite createLabels_bit by lia. change (64 <? 128) with true. cbv iota.
      rewrite colinv_64, tcols_nth by (try apply K_pos; lia).
      unfold rho. replace (ofs + row - ofs) with row by lia. reflexivity. }
    assert (HPs : forall row, row < rows ->
              N.testbit (nth (row / 8) (nth 0 (qcols g0 g1 Delta chunk pos w) []) 0%N) (N.of_nat (row mod 8))
              = xorb (rho ofs pos (ofs + row))
                     (lbit Delta 0 && cov tailfix n (ofs + row) && N.testbit C (N.of_nat (ofs + row)))).
    { intros row Hrow. unfold chunk. rewrite (qcols_col0 F w xs) by (try assumption; lia).
      rewrite N.lxor_spec. unfold rho. replace (ofs + row - ofs) with row by lia. f_equal.
      destruct (lbit Delta 0); [|rewrite N.bits_0; reflexivity]. rewrite andb_true_l.
      unfold xs, cov.
      assert (Hcv : (row / 8 <? (if tailfix then w else 8 * (w / 8)))
                    = (tailfix || ((ofs + row) / 64 <? (n + 7) / 64))).
      { destruct tailfix; cbn [orb].
        - apply Nat.ltb_lt. lia.
        - destruct (Nat.ltb_spec (row / 8) (8 * (w / 8))), (Nat.ltb_spec ((ofs + row) / 64) ((n + 7) / 64));
            try reflexivity; lia. }
      rewrite Hcv. destruct (tailfix || _); [|rewrite N.bits_0; reflexivity].
      rewrite cbyte_bit by lia. rewrite andb_true_l. f_equal. lia. }
    (* the remaining chunks *)
    set (Rr1 := set_bits (fun row => lbit (nth row (createLabels chunkRows (tcols g0 pos w) w) 0%N) 0) ofs rows Rr).
    set (Rs1 := set_bits (fun row => N.testbit (nth (row / 8) (nth 0 (qcols g0 g1 Delta chunk pos w) []) 0%N)
                                               (N.of_nat (row mod 8))) ofs rows Rs).
    assert (Htail : exists us' Rr' Rs' pos'',
      recvbits_loop g0 g1 tailfix fuel n C (ofs + rows) (pos + w) Rr1 = Some (us', Rr', pos'') /\
      sendbits_loop g0 g1 Delta (us' ++ rest) n (ofs + rows) (pos + w) Rs1 = Some (Rs', rest, pos'') /\
      forall i,
        N.testbit Rr' (N.of_nat i)
        = N.testbit Rr1 (N.of_nat i) || ((ofs + rows <=? i) && (i <? n) && rho ofs pos i) /\
        N.testbit Rs' (N.of_nat i)
        = N.testbit Rs1 (N.of_nat i)
          || ((ofs + rows <=? i) && (i <? n)
              && xorb (rho ofs pos i) (lbit Delta 0 && cov tailfix n i && N.testbit C (N.of_nat i)))).
    { destruct (Nat.le_gt_cases (n - ofs) chunkRows) as [Hlast|Hfull].
      - exists [], Rr1, Rs1, (pos + w).
        rewrite recvbits_loop_done, sendbits_loop_done by lia.
        split; [reflexivity|]. split; [reflexivity|].
        intros i. split; guards; reflexivity.
      - destruct (IH (ofs + rows) (pos + w) Rr1 Rs1 rest) as (us' & Rr' & Rs' & pos'' & HR & HS & Hb);
          [lia|lia|].
        exists us', Rr', Rs', pos''. split; [exact HR|]. split; [exact HS|].
        intros i. destruct (Hb i) as [Hb1 Hb2]. rewrite Hb1, Hb2.
        assert (Hrho : ofs + rows <= i -> rho (ofs + rows) (pos + w) i = rho ofs pos i).
        { intros Hi. unfold rho.
          replace (pos + w + (i - (ofs + rows)) / 8) with (pos + (i - ofs) / 8) by lia.
          replace ((i - (ofs + rows)) mod 8) with ((i - ofs) mod 8) by lia. reflexivity. }
        split.
        + destruct (Nat.leb_spec (ofs + rows) i); [rewrite Hrho by assumption|]; reflexivity.
        + destruct (Nat.leb_spec (ofs + rows) i); [rewrite Hrho by assumption|]; reflexivity. }
    destruct Htail as (us' & Rr' & Rs' & pos'' & HR & HS & Hb).
    fold Rr1. rewrite HR.
    exists (chunk :: us'), Rr', Rs', pos''.
    split; [reflexivity|].
    destruct (chunk_div F w (proj1 HU)) as [Hdiv Hmod]. fold chunk in Hdiv, Hmod.
    split.
    { rewrite <- app_comm_cons, sendbits_loop_cons.
      destruct (Nat.leb_spec n ofs) as [?|_]; [lia|].
      rewrite Hmod, Nat.eqb_refl. cbn [negb]. cbv zeta. rewrite Hdiv.
      replace (Nat.min (w * 8) (n - ofs)) with rows by lia. fold Rs1. exact HS. }
    intros i. destruct (Hb i) as [Hb1 Hb2]. rewrite Hb1, Hb2.
    unfold Rr1, Rs1.
    rewrite (set_bits_ext _ (fun row => rho ofs pos (ofs + row)) ofs rows Rr HPr).
    rewrite (set_bits_ext _ (fun row => xorb (rho ofs pos (ofs + row))
                (lbit Delta 0 && cov tailfix n (ofs + row) && N.testbit C (N.of_nat (ofs + row)))) ofs rows Rs HPs).
    rewrite !set_bits_spec.
    split.
    - destruct (Nat.leb_spec ofs i), (Nat.ltb_spec i (ofs + rows)), (Nat.leb_spec (ofs + rows) i),
        (Nat.ltb_spec i n); try lia; cbn [andb orb];
        rewrite ?orb_false_r; try reflexivity.
      replace (ofs + (i - ofs)) with i by lia. reflexivity.
    - destruct (Nat.leb_spec ofs i), (Nat.ltb_spec i (ofs + rows)), (Nat.leb_spec (ofs + rows) i),
        (Nat.ltb_spec i n); try lia; cbn [andb orb];
        rewrite ?orb_false_r; try reflexivity.
      replace (ofs + (i - ofs)) with i by lia. reflexivity.
  Qed.
End Proofs.

(* ---- sessions --------------------------------------------------------------- *)
(* what an operation must deliver.  Label form: received_i = sent_i xor
   choice_i*Delta.  Packed-bit form: r_i = s_i xor (choice_i and
   Delta.Bit(0)) at every position i < n the choice reaches the u matrix
   ([cov]: all of them with the tail fix); at the other positions r_i = s_i.
   The result buffers may hold anything when they are cleared first (clr),
   otherwise they must be fresh. *)
Definition op_ok (Delta : N) (tailfix clr : bool) (o : op) (r : opres) : Prop :=
  match o, r with
  | OpLabels b _, ResLabels _ sent rcvd _ _ =>
      length sent = length b /\ length rcvd = length b /\
      forall i, i < length b ->
        nth i rcvd 0%N = N.lxor (nth i sent 0%N) (if nth i b false then Delta else 0%N)
  | OpBits n C Rs0 Rr0, ResBits _ Rs Rr =>
      (clr = true \/ (Rs0 = 0%N /\ Rr0 = 0%N)) ->
      forall i, i < n ->
        N.testbit Rr (N.of_nat i)
        = xorb (N.testbit Rs (N.of_nat i))
               (lbit Delta 0 && cov tailfix n i && N.testbit C (N.of_nat i))
  | _, _ => False
  end.

Lemma bcv_of_length b0 b1 : length (bcv_of b0 b1) = 256.
Proof. unfold bcv_of. rewrite app_length, !map_length, !seq_length. reflexivity. Qed.

Lemma clear_words_bit n R i : i < n -> N.testbit (clear_words n R) (N.of_nat i) = false.
Proof.
  intros H. unfold clear_words. rewrite N.ldiff_spec, N.ones_spec_low by lia.
  apply andb_false_r.
Qed.

Section Sessions.
  Variables g0 g1 : nat -> nat -> N.
  Variable Delta : N.
  Hypothesis HDelta : (Delta < 2 ^ 128)%N.
  Variables tailfix clr : bool.

  Lemma receive_send b p rest :
    exists us rl sl p',
      receive g0 g1 b p = Some (us, rl, p') /\
      send g0 g1 Delta (us ++ rest) (length b) p = Some (sl, rest, p') /\
      length rl = length b /\ length sl = length b /\
      forall k, k < length b ->
        nth k rl 0%N = N.lxor (nth k sl 0%N) (if nth k b false then Delta else 0%N).
  Proof.
    destruct (labels_loops g0 g1 Delta HDelta b (length b) 0 p rest) as (us & rl & sl & p' & H1 & H2 & H3 & H4 & H5);
      [left; reflexivity|lia|].
    exists us, rl, sl, p'. unfold receive, send.
    rewrite Nat.sub_0_r in *. repeat split; auto.
  Qed.

  Lemma run_op_ok o p :
    exists r p', run_op g0 g1 Delta tailfix clr (p, p) o = Some (r, (p', p')) /\ op_ok Delta tailfix clr o r.
  Proof.
    destruct o as [b mal|n C Rs0 Rr0].
    - (* label form *)
      destruct mal as [[b0 b1]|].
      + destruct (receive_send b p []) as (us & rl & sl & p1 & HR & _ & _ & _ & _).
        destruct (receive_send (bcv_of b0 b1) p1 []) as (us2 & cv & cvs & p2 & HR2 & HS2 & _ & _ & _).
        destruct (receive_send b p us2) as (us' & rl' & sl' & p1' & HR' & HS' & HLr & HLs & Hrel).
        rewrite HR in HR'. inversion HR'; subst us' rl' p1'. clear HR'.
        rewrite app_nil_r, bcv_of_length in HS2.
        exists (ResLabels (us ++ us2) sl' rl cvs cv), p2. split.
        * unfold run_op, Receive, Send. rewrite HR, HR2, HS', HS2. reflexivity.
        * cbn [op_ok]. auto.
      + destruct (receive_send b p []) as (us & rl & sl & p1 & HR & HS & HLr & HLs & Hrel).
        rewrite app_nil_r in HS.
        exists (ResLabels us sl rl [] []), p1. split.
        * unfold run_op, Receive, Send. rewrite HR, HS. reflexivity.
        * cbn [op_ok]. auto.
    - (* packed-bit form *)
      set (Rr1 := if clr then clear_words n Rr0 else Rr0).
      set (Rs1 := if clr then clear_words n Rs0 else Rs0).
      destruct (bits_loops g0 g1 Delta HDelta tailfix C n n 0 p Rr1 Rs1 [])
        as (us & Rr & Rs & p' & HR & HS & Hb); [left; reflexivity|lia|].
      rewrite app_nil_r in HS.
      exists (ResBits us Rs Rr), p'. split.
      + unfold run_op, ReceiveBits, SendBits. fold Rr1 Rs1. rewrite HR, HS. reflexivity.
      + cbn [op_ok]. intros Hfresh i Hi. destruct (Hb i) as [H1 H2]. rewrite H1, H2.
        assert (Hz : N.testbit Rr1 (N.of_nat i) = false /\ N.testbit Rs1 (N.of_nat i) = false).
        { unfold Rr1, Rs1. destruct Hfresh as [->|[-> ->]].
          - split; apply clear_words_bit; assumption.
          - destruct clr; rewrite ?clear_words_bit by assumption; rewrite ?N.bits_0; split; reflexivity. }
        destruct Hz as [-> ->]. cbn [orb].
        destruct (Nat.leb_spec 0 i); [|lia]. destruct (Nat.ltb_spec i n); [|lia]. cbn [andb].
        destruct (rho g0 0 p i), (lbit Delta 0 && cov tailfix n i && N.testbit C (N.of_nat i)); reflexivity.
  Qed.

  (* any sequence of operations: both parties stay in lock step (equal
     stream offsets, every chunk consumed) and every operation delivers *)
  Theorem run_ops_ok ops : forall p,
    exists rs p', run_ops g0 g1 Delta tailfix clr (p, p) ops = Some (rs, (p', p'))
                  /\ Forall2 (op_ok Delta tailfix clr) ops rs.
  Proof.
    induction ops as [|o ops IH]; intros p.
    - exists [], p. split; [reflexivity|constructor].
    - destruct (run_op_ok o p) as (r & p1 & Hr & Hok).
      destruct (IH p1) as (rs & p2 & Hrs & Hoks).
      exists (r :: rs), p2. split.
      + cbn [run_ops]. rewrite Hr, Hrs. reflexivity.
      + constructor; assumption.
  Qed.
End Sessions.

(* ---- the statements used by Props/C06.v ------------------------------------ *)

(* label form, any session, any code version *)
Theorem iknp_labels g0 g1 Delta tailfix clr ops p :
  (Delta < 2 ^ 128)%N ->
  exists rs p', run_ops g0 g1 Delta tailfix clr (p, p) ops = Some (rs, (p', p')) /\
    Forall2 (fun o r => match o, r with
                        | OpLabels b _, ResLabels _ sent rcvd _ _ =>
                            length sent = length b /\ length rcvd = length b /\
                            forall i, i < length b ->
                              nth i rcvd 0%N = N.lxor (nth i sent 0%N) (if nth i b false then Delta else 0%N)
                        | OpLabels _ _, ResBits _ _ _ => False
                        | OpBits _ _ _ _, _ => True
                        end) ops rs.
Proof.
  intros HD. destruct (run_ops_ok g0 g1 Delta HD tailfix clr ops p) as (rs & p' & H & Hok).
  exists rs, p'. split; [assumption|].
  clear H. induction Hok as [|o r ops' rs' Ho _ IH]; [constructor|]. constructor; [|assumption].
  destruct o, r; cbn [op_ok] in Ho; auto.
Qed.

Theorem iknp_lockstep g0 g1 Delta tailfix clr ops p :
  (Delta < 2 ^ 128)%N ->
  exists rs p', run_ops g0 g1 Delta tailfix clr (p, p) ops = Some (rs, (p', p')).
Proof.
  intros HD. destruct (run_ops_ok g0 g1 Delta HD tailfix clr ops p) as (rs & p' & H & _). eauto.
Qed.

Lemma cov_full tailfix n i : (tailfix = true \/ n mod 64 = 0) -> i < n -> cov tailfix n i = true.
Proof.
  intros [->|H] Hi; unfold cov; [reflexivity|].
  rewrite orb_true_iff. right. apply Nat.ltb_lt. lia.
Qed.

(* packed-bit form, the code as it is now (tail fix and clear(result)): for
   every session, every bit batch of every count n and whatever the result
   buffers held before satisfies r_i = s_i xor b_i*Delta.Bit(0) for all i < n *)
Theorem iknp_bits g0 g1 Delta ops p :
  (Delta < 2 ^ 128)%N ->
  exists rs p', run_ops g0 g1 Delta true true (p, p) ops = Some (rs, (p', p')) /\
    Forall2 (fun o r => match o, r with
                        | OpBits n C _ _, ResBits _ Rs Rr =>
                            forall i, i < n ->
                              N.testbit Rr (N.of_nat i)
                              = xorb (N.testbit Rs (N.of_nat i)) (lbit Delta 0 && N.testbit C (N.of_nat i))
                        | OpBits _ _ _ _, ResLabels _ _ _ _ _ => False
                        | OpLabels _ _, _ => True
                        end) ops rs.
Proof.
  intros HD. destruct (run_ops_ok g0 g1 Delta HD true true ops p) as (rs & p' & H & Hok).
  exists rs, p'. split; [assumption|].
  clear H. induction Hok as [|o r ops' rs' Ho _ IH]; [constructor|]. constructor; [|assumption].
  destruct o, r; cbn [op_ok] in Ho; auto.
  intros i Hi. rewrite (Ho (or_introl eq_refl) i Hi). unfold cov. cbn [orb]. rewrite andb_true_r. reflexivity.
Qed.

(* ---- regression record: the code before commits eae031e / 7d31e72 ------------- *)
(* exact behaviour of every bit operation for any code version: choice bit i
   reaches the u matrix iff tailfix or i/64 < (n+7)/64 *)
Theorem iknp_bits_exact g0 g1 Delta tailfix clr ops p :
  (Delta < 2 ^ 128)%N ->
  exists rs p', run_ops g0 g1 Delta tailfix clr (p, p) ops = Some (rs, (p', p')) /\
    Forall2 (fun o r => match o, r with
                        | OpBits n C Rs0 Rr0, ResBits _ Rs Rr =>
                            (clr = true \/ (Rs0 = 0%N /\ Rr0 = 0%N)) -> forall i, i < n ->
                              N.testbit Rr (N.of_nat i)
                              = xorb (N.testbit Rs (N.of_nat i))
                                  (lbit Delta 0 && (tailfix || (i / 64 <? (n + 7) / 64)) && N.testbit C (N.of_nat i))
                        | OpBits _ _ _ _, ResLabels _ _ _ _ _ => False
                        | OpLabels _ _, _ => True
                        end) ops rs.
Proof.
  intros HD. destruct (run_ops_ok g0 g1 Delta HD tailfix clr ops p) as (rs & p' & H & Hok).
  exists rs, p'. split; [assumption|].
  clear H. induction Hok as [|o r ops' rs' Ho _ IH]; [constructor|]. constructor; [|assumption].
  destruct o, r; cbn [op_ok] in Ho; auto.
Qed.

(* the earlier code was right exactly for counts that are multiples of 64 (fresh buffers) *)
Theorem iknp_bits_prefix_partial g0 g1 Delta ops p :
  (Delta < 2 ^ 128)%N ->
  exists rs p', run_ops g0 g1 Delta false false (p, p) ops = Some (rs, (p', p')) /\
    Forall2 (fun o r => match o, r with
                        | OpBits n C Rs0 Rr0, ResBits _ Rs Rr =>
                            n mod 64 = 0 -> Rs0 = 0%N -> Rr0 = 0%N -> forall i, i < n ->
                              N.testbit Rr (N.of_nat i)
                              = xorb (N.testbit Rs (N.of_nat i)) (lbit Delta 0 && N.testbit C (N.of_nat i))
                        | OpBits _ _ _ _, ResLabels _ _ _ _ _ => False
                        | OpLabels _ _, _ => True
                        end) ops rs.
Proof.
  intros HD. destruct (run_ops_ok g0 g1 Delta HD false false ops p) as (rs & p' & H & Hok).
  exists rs, p'. split; [assumption|].
  clear H. induction Hok as [|o r ops' rs' Ho _ IH]; [constructor|]. constructor; [|assumption].
  destruct o, r; cbn [op_ok] in Ho; auto.
  intros Hc H1 H2 i Hi. rewrite (Ho (or_intror (conj H1 H2)) i Hi).
  rewrite cov_full by auto. rewrite andb_true_r. reflexivity.
Qed.

(* refutation of the full packed-bit statement for the earlier code (F4):
   all-zero PRG streams, Delta = bit 0 only, n = 65, all-ones choices;
   position 64 is delivered wrongly *)
Definition refute_g (_ _ : nat) : N := 0%N.
Definition refute_Delta : N := N.shiftl 1 64.
Definition refute_n : nat := 65.
Definition refute_C : N := N.ones 65.

Theorem iknp_bits_prefix_refuted :
  (refute_Delta < 2 ^ 128)%N /\
  exists us Rs Rr p',
    run_ops refute_g refute_g refute_Delta false false (0, 0) [OpBits refute_n refute_C 0 0]
    = Some ([ResBits us Rs Rr], p') /\
    exists i, i < refute_n /\
      N.testbit Rr (N.of_nat i)
      <> xorb (N.testbit Rs (N.of_nat i)) (lbit refute_Delta 0 && N.testbit refute_C (N.of_nat i)).
Proof.
  split; [reflexivity|].
  assert (E : exists x, run_ops refute_g refute_g refute_Delta false false (0, 0) [OpBits refute_n refute_C 0 0] = x)
    by eauto.
  destruct E as [x E]. vm_compute in E.
  match type of E with
  | Some ([ResBits ?us ?Rs ?Rr], ?p') = _ => exists us, Rs, Rr, p'
  end.
  split.
  - vm_compute. reflexivity.
  - exists 64. split; [unfold refute_n; lia|]. vm_compute. discriminate.
Qed.

(* F4b: without clear(result) a dirty receiver buffer breaks the relation
   (n = 64, zero streams, zero choices, receiver buffer holding a stale 1) *)
Example iknp_bits_prefix_dirty_refuted :
  match run_ops refute_g refute_g refute_Delta true false (0, 0) [OpBits 64 0 0 1] with
  | Some ([ResBits _ Rs Rr], _) => N.testbit Rr 0 = true /\ N.testbit Rs 0 = false
  | _ => False
  end.
Proof. vm_compute. split; reflexivity. Qed.

(* non-vacuity: the inputs of both refutations are delivered correctly by the code as it is now *)
Example iknp_bits_now_example :
  match run_ops refute_g refute_g refute_Delta true true (0, 0)
                [OpBits refute_n refute_C 0 0; OpBits 64 0 0 1] with
  | Some ([ResBits _ Rs Rr; ResBits _ Rs2 Rr2], _) =>
      forallb (fun i => Bool.eqb (N.testbit Rr (N.of_nat i))
                          (xorb (N.testbit Rs (N.of_nat i)) (lbit refute_Delta 0 && N.testbit refute_C (N.of_nat i))))
              (seq 0 refute_n)
      && N.eqb Rr2 Rs2
  | _ => false
  end = true.
Proof. vm_compute. reflexivity. Qed.

(* non-vacuity of the label statement: a concrete two-chunk session *)
Example iknp_labels_example :
  match run_ops (fun i p => N.of_nat ((i * 7 + p * 13) mod 256)) (fun i p => N.of_nat ((i * 11 + p * 5 + 3) mod 256))
                (N.ones 128) true true (0, 0) [OpLabels (map (fun i => Nat.odd i) (seq 0 515)) None] with
  | Some ([ResLabels us sent rcvd _ _], (p1, p2)) =>
      (length us =? 2) && (p1 =? 65) && (p2 =? 65) &&
      forallb (fun i => N.eqb (nth i rcvd 0%N) (N.lxor (nth i sent 0%N) (if Nat.odd i then N.ones 128 else 0%N))) (seq 0 515)
  | _ => false
  end = true.
Proof. vm_compute. reflexivity. Qed.
