(* LabelWireProof.v — theorems about OT/LabelWire.v: the two-word ot.Label
   operations against the 128-bit number view of Base/Label.v (and Iknp.lbit),
   the LabelData codecs, and round trips of the CO wire format. *)
From Coq Require Import NArith List Bool Arith Lia ZifyN ZifyNat.
From Mpc Require Import Base.Codec Base.CodecProof Base.Label OT.Iknp OT.LabelWire.
Import ListNotations.
Open Scope N_scope.

(* ---- tools ---------------------------------------------------------------- *)
Lemma lt_pow2_bits a k : a < 2 ^ k <-> (forall m, k <= m -> N.testbit a m = false).
Proof.
  split.
  - intros H m Hm. rewrite <- (N.mod_small a (2 ^ k)) by exact H.
    apply N.mod_pow2_bits_high. exact Hm.
  - intros H. assert (E : a mod 2 ^ k = a).
    { apply N.bits_inj. intro m. destruct (N.lt_ge_cases m k) as [Hm|Hm].
      + apply N.mod_pow2_bits_low; exact Hm.
      + rewrite N.mod_pow2_bits_high by exact Hm. symmetry. apply H. exact Hm. }
    rewrite <- E. apply N.mod_lt. apply N.pow_nonzero. lia.
Qed.

Lemma bits_hi a m : a < M64 -> 64 <= m -> N.testbit a m = false.
Proof. intros H Hm. exact (proj1 (lt_pow2_bits a 64) H m Hm). Qed.
Lemma lt_M64 a : (forall m, 64 <= m -> N.testbit a m = false) -> a < M64.
Proof. intros H. exact (proj2 (lt_pow2_bits a 64) H). Qed.

Lemma firstn_app_len {A} (a b : list A) n : length a = n -> firstn n (a ++ b) = a.
Proof. intros <-. induction a; simpl; congruence. Qed.
Lemma skipn_app_len {A} (a b : list A) n : length a = n -> skipn n (a ++ b) = b.
Proof. intros <-. induction a; simpl; congruence. Qed.

Lemma Forall_firstn' {A} (P : A -> Prop) n : forall l, Forall P l -> Forall P (firstn n l).
Proof. induction n as [|n IH]; intros [|a l] H; cbn; try constructor; inversion H; subst; auto. Qed.
Lemma Forall_skipn' {A} (P : A -> Prop) n : forall l, Forall P l -> Forall P (skipn n l).
Proof. induction n as [|n IH]; intros [|a l] H; cbn; try assumption; inversion H; subst; auto. Qed.

Lemma land_pow2 a k : N.land a (2 ^ k) = if N.testbit a k then 2 ^ k else 0.
Proof.
  apply N.bits_inj. intro m. rewrite N.land_spec, N.pow2_bits_eqb.
  destruct (N.eqb_spec k m) as [->|Hne].
  - destruct (N.testbit a m) eqn:E; [rewrite N.pow2_bits_true|rewrite N.bits_0]; reflexivity.
  - rewrite andb_false_r. destruct (N.testbit a k).
    + rewrite N.pow2_bits_false by exact Hne. reflexivity.
    + rewrite N.bits_0. reflexivity.
Qed.

Lemma M64_pow : M64 = 2 ^ 64. Proof. reflexivity. Qed.
Lemma M64_256 : M64 = 256 ^ N.of_nat 8. Proof. reflexivity. Qed.

Lemma val_div l : wf l -> val l / M64 = D0 l.
Proof. intros [_ H1]. symmetry. apply N.div_unique with (r := D1 l); [exact H1|unfold val; lia]. Qed.
Lemma val_mod l : wf l -> val l mod M64 = D1 l.
Proof. intros [_ H1]. symmetry. apply N.mod_unique with (q := D0 l); [exact H1|unfold val; lia]. Qed.
Lemma val_lt l : wf l -> val l < 2 ^ 128.
Proof. intros [H0 H1]. unfold val, M64 in *. change (2 ^ 128) with (2 ^ 64 * 2 ^ 64). nia. Qed.

Lemma val_inj a b : wf a -> wf b -> val a = val b -> a = b.
Proof.
  intros Ha Hb E. destruct a as [a0 a1], b as [b0 b1].
  pose proof (val_div _ Ha) as D. pose proof (val_mod _ Ha) as M.
  rewrite E, (val_div _ Hb) in D. rewrite E, (val_mod _ Hb) in M. simpl in *. congruence.
Qed.

Lemma val_lor l : wf l -> val l = N.lor (N.shiftl (D0 l) 64) (D1 l).
Proof.
  intros [_ H1]. unfold val. rewrite <- N.lxor_lor, <- N.add_nocarry_lxor.
  - rewrite N.shiftl_mul_pow2. reflexivity.
  - apply N.bits_inj. intro m. rewrite N.land_spec, N.bits_0.
    destruct (N.lt_ge_cases m 64) as [Hm|Hm].
    + rewrite N.shiftl_spec_low by exact Hm. reflexivity.
    + rewrite (proj1 (lt_pow2_bits (D1 l) 64) H1 m Hm). apply andb_false_r.
  - apply N.bits_inj. intro m. rewrite N.land_spec, N.bits_0.
    destruct (N.lt_ge_cases m 64) as [Hm|Hm].
    + rewrite N.shiftl_spec_low by exact Hm. reflexivity.
    + rewrite (proj1 (lt_pow2_bits (D1 l) 64) H1 m Hm). apply andb_false_r.
Qed.

Lemma val_bit l n : wf l ->
  N.testbit (val l) n = if n <? 64 then N.testbit (D1 l) n else N.testbit (D0 l) (n - 64).
Proof.
  intros H. rewrite (val_lor _ H), N.lor_spec. destruct H as [_ H1].
  destruct (N.ltb_spec n 64) as [Hn|Hn].
  - rewrite N.shiftl_spec_low by exact Hn. reflexivity.
  - rewrite N.shiftl_spec_high' by exact Hn.
    rewrite (proj1 (lt_pow2_bits (D1 l) 64) H1 n Hn). apply orb_false_r.
Qed.

(* ---- Equal ------------------------------------------------------------------ *)
Lemma Equal_eq a b : Equal a b = true <-> a = b.
Proof.
  destruct a as [a0 a1], b as [b0 b1]. unfold Equal. simpl.
  rewrite andb_true_iff, !N.eqb_eq. split.
  - intros [-> ->]. reflexivity.
  - intros E. inversion E. auto.
Qed.

Lemma Equal_val a b : wf a -> wf b -> Equal a b = (val a =? val b).
Proof.
  intros Ha Hb. destruct (Equal a b) eqn:E.
  - apply Equal_eq in E. subst. symmetry. apply N.eqb_refl.
  - symmetry. apply N.eqb_neq. intro V. apply (val_inj _ _ Ha Hb) in V.
    apply Equal_eq in V. congruence.
Qed.

(* ---- Xor / And ------------------------------------------------------------- *)
Lemma wf_Xor a b : wf a -> wf b -> wf (Xor a b).
Proof.
  intros [A0 A1] [B0 B1]. split; apply lt_M64; intros m Hm; cbn [Xor D0 D1];
    rewrite N.lxor_spec, !bits_hi by assumption; reflexivity.
Qed.

Lemma val_Xor a b : wf a -> wf b -> val (Xor a b) = lxor (val a) (val b).
Proof.
  intros Ha Hb. unfold lxor. apply N.bits_inj. intro n.
  rewrite (val_bit _ n (wf_Xor _ _ Ha Hb)), N.lxor_spec, (val_bit _ n Ha), (val_bit _ n Hb).
  destruct (n <? 64); cbn [Xor D0 D1]; apply N.lxor_spec.
Qed.

Lemma wf_And a b : wf a -> wf b -> wf (And a b).
Proof.
  intros [A0 A1] [B0 B1]. split; apply lt_M64; intros m Hm; cbn [And D0 D1];
    rewrite N.land_spec, !bits_hi by assumption; reflexivity.
Qed.

Lemma val_And a b : wf a -> wf b -> val (And a b) = N.land (val a) (val b).
Proof.
  intros Ha Hb. apply N.bits_inj. intro n.
  rewrite (val_bit _ n (wf_And _ _ Ha Hb)), N.land_spec, (val_bit _ n Ha), (val_bit _ n Hb).
  destruct (n <? 64); cbn [And D0 D1]; apply N.land_spec.
Qed.

(* ---- Mul2 / Mul4 ------------------------------------------------------------ *)
Lemma lor_even_small q h : h < 2 -> N.lor (2 * q) h = 2 * q + h.
Proof.
  intros H. destruct h as [|[h|h|]]; try lia.
  - rewrite N.lor_0_r. lia.
  - destruct q; reflexivity.
Qed.
Lemma lor_quad_small q h : h < 4 -> N.lor (4 * q) h = 4 * q + h.
Proof.
  intros H. destruct h as [|[[h|h|]|[h|h|]|]]; try lia.
  - rewrite N.lor_0_r. lia.
  - destruct q; reflexivity.
  - destruct q; reflexivity.
  - destruct q; reflexivity.
Qed.

Lemma Mul_k_spec (k : N) l : wf l -> 0 < k -> k < 64 ->
  forall d0 d1,
  d0 = (D0 l * 2 ^ k) mod M64 + D1 l / 2 ^ (64 - k) ->
  d1 = (D1 l * 2 ^ k) mod M64 ->
  (d0 < M64 /\ d1 < M64) /\ d0 * M64 + d1 = (val l * 2 ^ k) mod 2 ^ 128.
Proof.
  intros [H0 H1] Hk0 Hk d0 d1 -> ->. unfold val.
  set (P := 2 ^ (64 - k)). set (Q := 2 ^ k).
  assert (HPQ : P * Q = M64).
  { unfold P, Q, M64. rewrite <- N.pow_add_r. f_equal. lia. }
  assert (HP : 0 < P) by (unfold P; apply N.neq_0_lt_0, N.pow_nonzero; lia).
  assert (HQ : 0 < Q) by (unfold Q; apply N.neq_0_lt_0, N.pow_nonzero; lia).
  pose proof (N.div_mod (D0 l) P ltac:(lia)) as E0.
  pose proof (N.mod_lt (D0 l) P ltac:(lia)) as L0.
  pose proof (N.div_mod (D1 l) P ltac:(lia)) as E1.
  pose proof (N.mod_lt (D1 l) P ltac:(lia)) as L1.
  set (g := D0 l / P) in *. set (q := D0 l mod P) in *.
  set (h := D1 l / P) in *. set (r := D1 l mod P) in *.
  assert (Hh : h < Q) by (apply N.div_lt_upper_bound; lia).
  assert (Hg : g < Q) by (apply N.div_lt_upper_bound; lia).
  clearbody g q h r. clearbody P Q.
  assert (B : q * Q + h < M64).
  { rewrite <- HPQ. assert ((q + 1) * Q <= P * Q) by (apply N.mul_le_mono_r; lia). lia. }
  assert (B1 : r * Q < M64).
  { rewrite <- HPQ. assert ((r + 1) * Q <= P * Q) by (apply N.mul_le_mono_r; lia). lia. }
  assert (M0 : (D0 l * Q) mod M64 = q * Q).
  { symmetry. apply N.mod_unique with (q := g); [lia|]. rewrite E0, <- HPQ. ring. }
  assert (M1 : (D1 l * Q) mod M64 = r * Q).
  { symmetry. apply N.mod_unique with (q := h); [exact B1|]. rewrite E1, <- HPQ. ring. }
  rewrite M0, M1.
  split; [split; assumption|].
  change (2 ^ 128) with (M64 * M64).
  apply N.mod_unique with (q := g).
  - assert ((q * Q + h + 1) * M64 <= M64 * M64) by (apply N.mul_le_mono_r; lia). lia.
  - rewrite E0, E1, <- HPQ. ring.
Qed.

Lemma Mul2_spec l : wf l -> wf (Mul2 l) /\ val (Mul2 l) = mul2 (val l).
Proof.
  intros H. pose proof H as [H0 H1].
  assert (Hh : D1 l / 2 ^ 63 < 2) by (apply N.div_lt_upper_bound; unfold M64 in *; lia).
  assert (E : N.lor (u64 (N.shiftl (D0 l) 1)) (N.shiftr (D1 l) 63)
              = (D0 l * 2 ^ 1) mod M64 + D1 l / 2 ^ (64 - 1)).
  { unfold u64. rewrite N.shiftl_mul_pow2, N.shiftr_div_pow2.
    change (64 - 1) with 63.
    pose proof (N.div_mod (D0 l * 2 ^ 1) M64 ltac:(unfold M64; lia)) as DM.
    assert (Ev : (D0 l * 2 ^ 1) mod M64 = 2 * ((D0 l * 2 ^ 1) mod M64 / 2)).
    { pose proof (N.div_mod ((D0 l * 2 ^ 1) mod M64) 2 ltac:(lia)) as X.
      assert (((D0 l * 2 ^ 1) mod M64) mod 2 = 0).
      { change M64 with (2 * 2 ^ 63). rewrite N.mod_mul_r by lia.
        change (2 ^ 1) with 2. rewrite N.mod_mul by lia.
        rewrite N.add_0_l. rewrite N.mul_comm, N.mod_mul by lia. reflexivity. }
      lia. }
    rewrite Ev at 1. rewrite lor_even_small by exact Hh. rewrite <- Ev. reflexivity. }
  destruct (Mul_k_spec 1 l H ltac:(lia) ltac:(lia) _ _ E eq_refl) as [W V].
  split.
  - unfold wf, Mul2. cbn [D0 D1]. unfold u64 at 2. rewrite (N.shiftl_mul_pow2 (D1 l)). exact W.
  - unfold val at 1, Mul2. cbn [D0 D1]. unfold u64 at 2. rewrite (N.shiftl_mul_pow2 (D1 l)).
    rewrite V. reflexivity.
Qed.

Lemma Mul4_spec l : wf l -> wf (Mul4 l) /\ val (Mul4 l) = mul4 (val l).
Proof.
  intros H. pose proof H as [H0 H1].
  assert (Hh : D1 l / 2 ^ 62 < 4) by (apply N.div_lt_upper_bound; unfold M64 in *; lia).
  assert (E : N.lor (u64 (N.shiftl (D0 l) 2)) (N.shiftr (D1 l) 62)
              = (D0 l * 2 ^ 2) mod M64 + D1 l / 2 ^ (64 - 2)).
  { unfold u64. rewrite N.shiftl_mul_pow2, N.shiftr_div_pow2.
    change (64 - 2) with 62.
    assert (Ev : (D0 l * 2 ^ 2) mod M64 = 4 * ((D0 l * 2 ^ 2) mod M64 / 4)).
    { pose proof (N.div_mod ((D0 l * 2 ^ 2) mod M64) 4 ltac:(lia)) as X.
      assert (((D0 l * 2 ^ 2) mod M64) mod 4 = 0).
      { change M64 with (4 * 2 ^ 62). rewrite N.mod_mul_r by lia.
        change (2 ^ 2) with 4. rewrite N.mod_mul by lia.
        rewrite N.add_0_l. rewrite N.mul_comm, N.mod_mul by lia. reflexivity. }
      lia. }
    rewrite Ev at 1. rewrite lor_quad_small by exact Hh. rewrite <- Ev. reflexivity. }
  destruct (Mul_k_spec 2 l H ltac:(lia) ltac:(lia) _ _ E eq_refl) as [W V].
  split.
  - unfold wf, Mul4. cbn [D0 D1]. unfold u64 at 2. rewrite (N.shiftl_mul_pow2 (D1 l)). exact W.
  - unfold val at 1, Mul4. cbn [D0 D1]. unfold u64 at 2. rewrite (N.shiftl_mul_pow2 (D1 l)).
    rewrite V. reflexivity.
Qed.

(* ---- S / SetS / NewTweak ----------------------------------------------------- *)
Lemma GetS_bit l : GetS l = N.testbit (D0 l) 63.
Proof.
  unfold GetS. change 0x8000000000000000 with (2 ^ 63). rewrite land_pow2.
  destruct (N.testbit (D0 l) 63); reflexivity.
Qed.

Lemma GetS_sbit l : wf l -> GetS l = sbit (val l).
Proof. intros H. unfold sbit. rewrite (val_bit _ 127 H), GetS_bit. reflexivity. Qed.

Lemma wf_SetS l b : wf l -> wf (SetS l b).
Proof.
  intros [H0 H1]. unfold SetS. destruct b; (split; [|exact H1]); cbn [D0];
    apply lt_M64; intros m Hm.
  - rewrite N.lor_spec, bits_hi by assumption.
    change 0x8000000000000000 with (2 ^ 63). rewrite N.pow2_bits_false by lia. reflexivity.
  - rewrite N.land_spec, bits_hi by assumption. reflexivity.
Qed.

Lemma GetS_SetS l b : GetS (SetS l b) = b.
Proof.
  rewrite GetS_bit. unfold SetS. destruct b; cbn [D0].
  - rewrite N.lor_spec. change 0x8000000000000000 with (2 ^ 63).
    rewrite N.pow2_bits_true. apply orb_true_r.
  - rewrite N.land_spec. change 0x7fffffffffffffff with (N.ones 63).
    rewrite N.ones_spec_high by lia. apply andb_false_r.
Qed.

Lemma val_SetS_true l : wf l -> val (SetS l true) = setS (val l).
Proof.
  intros H. unfold setS. apply N.bits_inj. intro n.
  rewrite (val_bit _ n (wf_SetS l true H)), N.lor_spec, (val_bit _ n H), N.pow2_bits_eqb.
  unfold SetS. cbn [D0 D1]. change 0x8000000000000000 with (2 ^ 63).
  destruct (N.ltb_spec n 64) as [Hn|Hn].
  - destruct (N.eqb_spec 127 n); [lia|]. rewrite orb_false_r. reflexivity.
  - rewrite N.lor_spec, N.pow2_bits_eqb. f_equal.
    destruct (N.eqb_spec 63 (n - 64)), (N.eqb_spec 127 n); try reflexivity; lia.
Qed.

Lemma NewTweak_spec t : wf (NewTweak t) /\ val (NewTweak t) = tweak t.
Proof.
  unfold wf, NewTweak, val, tweak. cbn [D0 D1].
  pose proof (N.mod_lt t (2 ^ 32) ltac:(lia)) as H. unfold M64. split; [split|]; lia.
Qed.

(* ---- LabelData codecs ---------------------------------------------------------- *)
Lemma be_add_high k : forall c x, be k (c * 256 ^ N.of_nat k + x) = be k x.
Proof.
  induction k as [|k IH]; intros c x; [reflexivity|].
  cbn [be].
  replace (c * 256 ^ N.of_nat (S k) + x) with (x + (c * 256 ^ N.of_nat k) * 256)
    by (rewrite Nat2N.inj_succ, N.pow_succ_r'; lia).
  rewrite N.div_add by lia. rewrite N.mod_add by lia.
  rewrite (N.add_comm (x / 256)). rewrite IH. reflexivity.
Qed.

Lemma be_app a b : forall x, be (a + b) x = be a (x / 256 ^ N.of_nat b) ++ be b x.
Proof.
  induction b as [|b IH]; intros x.
  - rewrite Nat.add_0_r. cbn. rewrite N.div_1_r, app_nil_r. reflexivity.
  - rewrite Nat.add_succ_r. cbn [be]. rewrite IH, app_assoc. f_equal. f_equal.
    rewrite Nat2N.inj_succ, N.pow_succ_r', N.div_div by (try apply N.pow_nonzero; lia).
    reflexivity.
Qed.

Lemma be_of_be : forall l, Forall (fun b => b < 256) l -> be (length l) (of_be l) = l.
Proof.
  induction l as [|b l IH] using rev_ind; intros HF; [reflexivity|].
  apply Forall_app in HF as [HF1 HF2]. inversion HF2 as [|? ? Hb _]; subst.
  rewrite app_length. simpl length. rewrite Nat.add_1_r. cbn [be]. rewrite of_be_app.
  rewrite N.div_add_l by lia. rewrite N.div_small by exact Hb. rewrite N.add_0_r.
  rewrite IH by exact HF1. f_equal. f_equal.
  rewrite N.add_comm, N.mod_add by lia. apply N.mod_small. exact Hb.
Qed.

Lemma GetData_be16 l : wf l -> GetData l = be 16 (val l).
Proof.
  intros H. unfold GetData. change 16%nat with (8 + 8)%nat. rewrite be_app.
  rewrite <- M64_256, (val_div _ H). f_equal.
  unfold val. rewrite M64_256. apply eq_sym, be_add_high.
Qed.

Lemma GetData_length l : length (GetData l) = 16%nat.
Proof. unfold GetData. rewrite app_length, !be_length. reflexivity. Qed.

Lemma of_be_GetData l : wf l -> of_be (GetData l) = val l.
Proof.
  intros H. rewrite (GetData_be16 _ H), of_be_be. apply N.mod_small.
  change (256 ^ N.of_nat 16) with (2 ^ 128). apply val_lt. exact H.
Qed.

Lemma SetData_GetData l : wf l -> SetData (GetData l) = l.
Proof.
  intros [H0 H1]. destruct l as [d0 d1]. unfold SetData, GetData, wf in *. cbn [D0 D1] in *.
  rewrite firstn_app_len by apply be_length. rewrite skipn_app_len by apply be_length.
  rewrite firstn_all2 by (rewrite be_length; lia).
  rewrite !of_be_be, <- M64_256, !N.mod_small by assumption. reflexivity.
Qed.

Lemma of_be_bound : forall l, Forall (fun b => b < 256) l -> of_be l < 256 ^ N.of_nat (length l).
Proof.
  induction l as [|b l IH] using rev_ind; intros HF; [cbn; lia|].
  apply Forall_app in HF as [HF1 HF2]. inversion HF2 as [|? ? Hb _]; subst.
  rewrite of_be_app, app_length. simpl length. rewrite Nat.add_1_r, Nat2N.inj_succ, N.pow_succ_r'.
  specialize (IH HF1). lia.
Qed.

Lemma wf_SetData d : Forall (fun b => b < 256) d -> wf (SetData d).
Proof.
  intros HF. unfold wf, SetData. cbn [D0 D1]. rewrite M64_256. split.
  - eapply N.lt_le_trans; [apply of_be_bound, Forall_firstn'; exact HF|].
    apply N.pow_le_mono_r; [lia|]. rewrite firstn_length. lia.
  - eapply N.lt_le_trans; [apply of_be_bound, Forall_firstn', Forall_skipn'; exact HF|].
    apply N.pow_le_mono_r; [lia|]. rewrite firstn_length. lia.
Qed.

Lemma GetData_SetData d : length d = 16%nat -> Forall (fun b => b < 256) d -> GetData (SetData d) = d.
Proof.
  intros HL HF. unfold GetData, SetData. cbn [D0 D1].
  assert (L1 : length (firstn 8 d) = 8%nat) by (rewrite firstn_length; lia).
  assert (L2 : length (firstn 8 (skipn 8 d)) = 8%nat) by (rewrite firstn_length, skipn_length; lia).
  assert (X : forall l, length l = 8%nat -> Forall (fun b => b < 256) l -> be 8 (of_be l) = l)
    by (intros l0 <- HF0; apply be_of_be; exact HF0).
  rewrite (X _ L1 (Forall_firstn' _ _ _ HF)).
  rewrite (X _ L2 (Forall_firstn' _ _ _ (Forall_skipn' _ _ _ HF))).
  rewrite (firstn_all2 (skipn 8 d)) by (rewrite skipn_length; lia).
  apply firstn_skipn.
Qed.

(* NewLabel: the label's 16 data bytes are the first 16 bytes of the stream, in order *)
Lemma NewLabel_bytes s : (16 <= length s)%nat -> Forall (fun b => b < 256) s ->
  wf (NewLabel s) /\ GetData (NewLabel s) = firstn 16 s.
Proof.
  intros HL HF. unfold NewLabel. split.
  - apply wf_SetData, Forall_firstn'. exact HF.
  - apply GetData_SetData; [rewrite firstn_length; lia|apply Forall_firstn'; exact HF].
Qed.

(* ---- Bit ------------------------------------------------------------------------ *)
Lemma Bit_lbit l i : wf l -> (i < 128)%nat -> Bit l i = Some (lbit (val l) i).
Proof.
  intros H Hi. unfold Bit, lbit, colbit.
  destruct (Nat.ltb_spec 127 i); [lia|]. f_equal.
  rewrite (val_bit _ _ H).
  destruct (Nat.ltb_spec 63 i), (Nat.ltb_spec i 64); try lia.
  - destruct (N.ltb_spec (N.of_nat (i - 64)) 64); [reflexivity|lia].
  - destruct (N.ltb_spec (N.of_nat (64 + i)) 64); [lia|]. f_equal. lia.
Qed.

(* ---- the CO wire format ------------------------------------------------------------ *)
Lemma payloads_app d a b : payloads d (a ++ b) = payloads d a ++ payloads d b.
Proof. unfold payloads. rewrite filter_app, map_app. reflexivity. Qed.

Lemma payloads_points_r ps :
  payloads true (co_point_msgs ps) = flat_map (fun p => [big_bytes (fst p); big_bytes (snd p)]) ps.
Proof.
  unfold payloads, co_point_msgs. induction ps as [|p ps IH]; [reflexivity|].
  cbn [flat_map app filter map fst snd Bool.eqb]. rewrite IH. reflexivity.
Qed.
Lemma payloads_points_s ps : payloads false (co_point_msgs ps) = [].
Proof.
  unfold payloads, co_point_msgs. induction ps as [|p ps IH]; [reflexivity|].
  cbn [flat_map app filter map fst snd Bool.eqb]. exact IH.
Qed.
Lemma payloads_cts_s cts :
  payloads false (co_ct_msgs cts) = flat_map (fun c => [GetData (fst c); GetData (snd c)]) cts.
Proof.
  unfold payloads, co_ct_msgs. induction cts as [|c cts IH]; [reflexivity|].
  cbn [flat_map app filter map fst snd Bool.eqb]. rewrite IH. reflexivity.
Qed.
Lemma payloads_cts_r cts : payloads true (co_ct_msgs cts) = [].
Proof.
  unfold payloads, co_ct_msgs. induction cts as [|c cts IH]; [reflexivity|].
  cbn [flat_map app filter map fst snd Bool.eqb]. exact IH.
Qed.

Lemma decode_points_roundtrip ps :
  co_decode_points (length ps) (flat_map (fun p => [big_bytes (fst p); big_bytes (snd p)]) ps) = Some ps.
Proof.
  induction ps as [|[x y] ps IH]; [reflexivity|]. cbn [length flat_map app co_decode_points fst snd].
  rewrite IH, !big_bytes_roundtrip. reflexivity.
Qed.

Lemma copy16_GetData l : copy16 (GetData l) = GetData l.
Proof. unfold copy16. apply firstn_app_len, GetData_length. Qed.

Lemma decode_cts_roundtrip cts : Forall (fun c => wf (fst c) /\ wf (snd c)) cts ->
  co_decode_cts (length cts) (flat_map (fun c => [GetData (fst c); GetData (snd c)]) cts) = Some cts.
Proof.
  induction 1 as [|[z o] cts [Hz Ho] _ IH]; [reflexivity|].
  cbn [length flat_map app co_decode_cts fst snd] in *.
  rewrite IH, !copy16_GetData, !SetData_GetData by assumption. reflexivity.
Qed.

Lemma flat_map_pair_length {A B} (f g : A -> B) l : length (flat_map (fun a => [f a; g a]) l) = (2 * length l)%nat.
Proof. induction l; cbn; lia. Qed.

(* Every value the CO sender and receiver write is read back unchanged by the
   peer's decoder, for every curve name, every point coordinates (any size),
   every number of transfers and all 128-bit ciphertexts. *)
Theorem co_wire_roundtrip (name : list N) (A : N * N) (pts : list (N * N)) (cts : list (Label * Label)) :
  Forall (fun c => wf (fst c) /\ wf (snd c)) cts ->
  let s := payloads false (co_session_msgs name A pts cts) in
  let r := payloads true (co_session_msgs name A pts cts) in
  hd [] s = name /\
  co_decode_A (firstn 2 (skipn 1 s)) = Some A /\
  co_decode_points (length pts) r = Some pts /\
  co_decode_cts (length cts) (skipn 3 s) = Some cts /\
  length s = (3 + 2 * length cts)%nat /\ length r = (2 * length pts)%nat /\
  Forall (fun m => length m = 16%nat) (skipn 3 s).
Proof.
  intros HW s r. subst s r. unfold co_session_msgs.
  rewrite !payloads_app, payloads_points_s, payloads_points_r, payloads_cts_s, payloads_cts_r.
  destruct A as [ax ay]. cbn [co_init_msgs co_A_msgs payloads filter map fst snd Bool.eqb app hd skipn firstn].
  rewrite app_nil_r. cbn [co_decode_A]. rewrite !big_bytes_roundtrip.
  repeat split.
  - apply decode_points_roundtrip.
  - apply decode_cts_roundtrip. exact HW.
  - cbn [length]. rewrite flat_map_pair_length. lia.
  - apply flat_map_pair_length.
  - clear HW. induction cts as [|c cts IH]; cbn; [constructor|].
    constructor; [apply GetData_length|]. constructor; [apply GetData_length|]. exact IH.
Qed.

Example co_wire_roundtrip_nonvacuous :
  Forall (fun c => wf (fst c) /\ wf (snd c)) [(mkLabel 1 2, mkLabel (M64 - 1) 0)].
Proof. repeat constructor; cbn; unfold M64; lia. Qed.

(* deriveMask: the index is recoverable from the hash input, so the inputs for
   two different indices differ whatever the points are *)
Lemma preimage_index_spec x y id : id < 2 ^ 64 -> preimage_index (mask_preimage x y id) = id.
Proof.
  intros H. unfold preimage_index, mask_preimage. rewrite app_assoc.
  rewrite app_length, be_length, Nat.add_sub.
  rewrite skipn_app_len by reflexivity. rewrite of_be_be. apply N.mod_small. exact H.
Qed.

Theorem mask_preimage_separates x y x' y' id id' :
  id < 2 ^ 64 -> id' < 2 ^ 64 -> id <> id' -> mask_preimage x y id <> mask_preimage x' y' id'.
Proof.
  intros H H' Hne E. apply Hne.
  rewrite <- (preimage_index_spec x y id H), <- (preimage_index_spec x' y' id' H'), E. reflexivity.
Qed.

(* ---- assembled statements (Props/C06.v) ------------------------------------------- *)
Theorem label_ops_spec (a b : Label) (t : N) (s : bool) : wf a -> wf b ->
  (wf (Xor a b) /\ val (Xor a b) = N.lxor (val a) (val b)) /\
  (wf (And a b) /\ val (And a b) = N.land (val a) (val b)) /\
  (wf (Mul2 a) /\ val (Mul2 a) = (val a * 2) mod 2 ^ 128) /\
  (wf (Mul4 a) /\ val (Mul4 a) = (val a * 4) mod 2 ^ 128) /\
  GetS a = N.testbit (val a) 127 /\
  (wf (SetS a s) /\ GetS (SetS a s) = s) /\ val (SetS a true) = N.lor (val a) (2 ^ 127) /\
  Equal a b = (val a =? val b) /\ (Equal a b = true <-> a = b) /\
  (wf (NewTweak t) /\ val (NewTweak t) = t mod 2 ^ 32) /\
  val a < 2 ^ 128.
Proof.
  intros Ha Hb.
  split; [split; [apply wf_Xor; assumption|apply val_Xor; assumption]|].
  split; [split; [apply wf_And; assumption|apply val_And; assumption]|].
  split; [exact (Mul2_spec a Ha)|]. split; [exact (Mul4_spec a Ha)|].
  split; [exact (GetS_sbit a Ha)|].
  split; [split; [apply wf_SetS; assumption|apply GetS_SetS]|].
  split; [exact (val_SetS_true a Ha)|].
  split; [apply Equal_val; assumption|]. split; [apply Equal_eq|].
  split; [exact (NewTweak_spec t)|]. apply val_lt. exact Ha.
Qed.

Theorem label_data_spec (l : Label) : wf l ->
  length (GetData l) = 16%nat /\ GetData l = be 16 (val l) /\ of_be (GetData l) = val l /\
  SetData (GetData l) = l /\ SetBytes (Bytes l) = l.
Proof.
  intros H. split; [apply GetData_length|]. split; [apply GetData_be16; exact H|].
  split; [apply of_be_GetData; exact H|]. split; [apply SetData_GetData; exact H|].
  unfold SetBytes, Bytes. rewrite firstn_all2 by (rewrite GetData_length; lia).
  apply SetData_GetData. exact H.
Qed.

Theorem label_data_inv (d s : list N) :
  (length d = 16%nat -> Forall (fun b => b < 256) d -> wf (SetData d) /\ GetData (SetData d) = d) /\
  ((16 <= length s)%nat -> Forall (fun b => b < 256) s -> wf (NewLabel s) /\ GetData (NewLabel s) = firstn 16 s).
Proof.
  split.
  - intros HL HF. split; [apply wf_SetData; exact HF|apply GetData_SetData; assumption].
  - apply NewLabel_bytes.
Qed.

Example label_ops_nonvacuous : wf (mkLabel (M64 - 1) (M64 - 1)) /\ wf (mkLabel 0 0).
Proof. unfold wf, M64. cbn [D0 D1]. lia. Qed.
Example Mul2_carry : Mul2 (mkLabel 0x8000000000000001 0x8000000000000000) = mkLabel 3 0.
Proof. vm_compute. reflexivity. Qed.
