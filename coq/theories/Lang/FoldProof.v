(* FoldProof.v — theorems about the constant-folding model of Lang/Fold.v (C12).

   1. the full statement "folded result as seen by the program = circuit" is
      FALSE of the faithful model: one concrete witness per failing class
      (vm_compute), each replayed on the implementation by the harness;
   2. totality is false too (big-path Add/Sub and mixed-width Add panic) and
      true on the small path (invariant [smallc], closed under folding);
   3. positive theorems, for ALL widths 1..64 and ALL values in the classes
      where the statement holds.                                            *)
From Coq Require Import ZArith Znumtheory List Bool Lia Btauto.
From Mpc Require Import Lang.Fold.
Import ListNotations.
Open Scope Z_scope.

(* ------------------------------------------------------------------ *)
(* arithmetic helpers                                                   *)
Lemma pow2_pos n : 0 <= n -> 0 < 2 ^ n.
Proof. intros; apply Z.pow_pos_nonneg; lia. Qed.

Lemma pow2_le a b : 0 <= a <= b -> 2 ^ a <= 2 ^ b.
Proof. intros; apply Z.pow_le_mono_r; lia. Qed.

Lemma mod_mod_pow2 x j m : 0 <= j <= m -> (x mod 2 ^ m) mod 2 ^ j = x mod 2 ^ j.
Proof.
  intros H. symmetry. apply Zmod_div_mod; try (apply pow2_pos; lia).
  exists (2 ^ (m - j)). rewrite <- Z.pow_add_r by lia. f_equal; lia.
Qed.

Lemma u64_wrap x : u64 (wrap_s64 x) = u64 x.
Proof.
  unfold u64, wrap_s64.
  rewrite Zminus_mod, Zmod_mod, <- Zminus_mod. f_equal; lia.
Qed.

Lemma wrap_mod j y : 0 <= j <= 64 -> (wrap_s64 y) mod 2 ^ j = y mod 2 ^ j.
Proof.
  intros H. rewrite <- (mod_mod_pow2 (wrap_s64 y) j 64 H), <- (mod_mod_pow2 y j 64 H).
  f_equal. apply u64_wrap.
Qed.

Lemma wrap_id x : - 2 ^ 63 <= x < 2 ^ 63 -> wrap_s64 x = x.
Proof. intros H; unfold wrap_s64. rewrite Z.mod_small; lia. Qed.

Lemma wrap_range x : - 2 ^ 63 <= wrap_s64 x < 2 ^ 63.
Proof.
  unfold wrap_s64. pose proof (Z.mod_pos_bound (x + 2 ^ 63) (2 ^ 64) ltac:(lia)). lia.
Qed.

Lemma u64_range x : 0 <= u64 x < 2 ^ 64.
Proof. unfold u64; apply Z.mod_pos_bound; lia. Qed.

(* bit length of the small path: between 1 and 64, and the value fits *)
Definition bl (v : Z) : Z := Z.max 1 (Z.log2 v + 1).
Lemma bl_bounds v j : 0 <= v < 2 ^ j -> 1 <= j -> 1 <= bl v <= j /\ v < 2 ^ bl v.
Proof.
  intros Hv Hj. unfold bl.
  destruct (Z.eq_dec v 0) as [->|Hn].
  - change (Z.max 1 (Z.log2 0 + 1)) with 1. change (2 ^ 1) with 2. lia.
  - assert (0 < v) by lia.
    assert (Z.log2 v < j) by (apply Z.log2_lt_pow2; lia).
    pose proof (Z.log2_spec v H) as [_ Hs]. pose proof (Z.log2_nonneg v).
    rewrite Z.max_r by lia. replace (Z.succ (Z.log2 v)) with (Z.log2 v + 1) in Hs by lia. lia.
Qed.

Lemma BitLen_small m : isSmall m = true -> BitLen m = bl (u64 (small m)).
Proof. intros H; unfold BitLen; rewrite H; reflexivity. Qed.

Lemma BitLen_small_le64 m : isSmall m = true -> 1 <= BitLen m <= 64.
Proof.
  intros H. rewrite BitLen_small by assumption.
  pose proof (u64_range (small m)). apply (bl_bounds _ 64); lia.
Qed.

(* ------------------------------------------------------------------ *)
(* the key lemma: what the program sees after setSmall + Constant       *)
Lemma setSmall_seen k N mn x : 1 <= N <= 64 ->
  exists v, setSmall N x = Ok v /\ mbits v = N /\
    forall c, c = constant v (mkT k N mn) ->
      const_wires c = x mod 2 ^ N /\ tmin (ctype c) <= N /\ tk (ctype c) = k /\
      N <= tbits (ctype c) <= 64 /\ (N = 32 -> tbits (ctype c) = 32) /\
      (exists t m, c = CI t m /\ mbits m <= 64 /\ 0 < tbits t <= 64).
Proof.
  intros HN. unfold setSmall.
  destruct (64 <? N) eqn:E; [apply Z.ltb_lt in E; lia|].
  eexists; split; [reflexivity|]. split; [reflexivity|].
  intros c ->.
  set (V := x mod 2 ^ N).
  assert (HV : 0 <= V < 2 ^ N) by (apply Z.mod_pos_bound, pow2_pos; lia).
  assert (Hu : (u64 x) mod 2 ^ N = V) by (unfold u64; apply mod_mod_pow2; lia).
  rewrite Hu.
  assert (HV64 : 0 <= V < 2 ^ 64) by (pose proof (pow2_le N 64 ltac:(lia)); lia).
  assert (Hus : u64 (wrap_s64 (wrap_s64 V)) = V)
    by (rewrite !u64_wrap; unfold u64; apply Z.mod_small; lia).
  destruct (bl_bounds V N HV ltac:(lia)) as [Hbl HVbl].
  unfold constant.
  assert (Hsm : isSmall {| mbits := N; mval := wrap_s64 V |} = true)
    by (unfold isSmall; simpl; apply Z.leb_le; lia).
  assert (Hus' : forall b, u64 (small {| mbits := b; mval := wrap_s64 V |}) = V)
    by (intro; unfold small; simpl mval; exact Hus).
  rewrite (BitLen_small _ Hsm), !Hus'.
  set (bits := if 64 <? bl V then bl V else if 32 <? bl V then 64 else 32).
  assert (Hbits : (bits = 32 \/ bits = 64) /\ bl V <= bits /\ (bl V <= 32 -> bits = 32)).
  { unfold bits. destruct (64 <? bl V) eqn:E1; [apply Z.ltb_lt in E1; lia|].
    destruct (32 <? bl V) eqn:E2; [apply Z.ltb_lt in E2|apply Z.ltb_ge in E2]; lia. }
  destruct Hbits as [Hb [Hb2 Hb3]].
  assert (Hsm2 : isSmall {| mbits := bits; mval := wrap_s64 V |} = true)
    by (unfold isSmall; simpl; apply Z.leb_le; lia).
  simpl ctype. simpl tmin. simpl tk. simpl tbits.
  repeat split; try lia.
  - unfold const_wires. cbn [mval mbits tbits]. rewrite Hsm2. rewrite (BitLen_small _ Hsm2), Hus'.
    unfold small; simpl mval. simpl tbits.
    rewrite Z.min_r by lia.
    rewrite !wrap_mod by lia. apply Z.mod_small; lia.
  - do 2 eexists; split; [reflexivity|]. simpl. lia.
Qed.

(* ------------------------------------------------------------------ *)
(* small-path invariant and totality                                    *)
Definition smallc (c : cval) : Prop :=
  match c with
  | CI t m => 0 < tbits t <= 64 /\ mbits m <= 64
  | CB _ => True
  end.

Lemma constant_smallc v t : 0 < tbits t <= 64 -> isSmall v = true -> smallc (constant v t).
Proof.
  intros Ht Hs. unfold constant, smallc. simpl.
  pose proof (BitLen_small_le64 v Hs).
  destruct (64 <? BitLen v) eqn:E1; [apply Z.ltb_lt in E1; lia|].
  destruct (32 <? BitLen v); lia.
Qed.

Lemma setSmall_ok N x : N <= 64 -> exists v, setSmall N x = Ok v /\ mbits v = N.
Proof.
  intros H. unfold setSmall. destruct (64 <? N) eqn:E; [apply Z.ltb_lt in E; lia|].
  eexists; split; reflexivity.
Qed.

(* every mpa operation of the folder, receiver and operands at most 64 bits wide *)
Lemma mop_small (f : mint -> mint -> mint -> res mint) z x y :
  In f [mAdd; mSub; mMul; mAnd; mOr; mXor; mAndNot; mDiv; mMod] ->
  mbits z <= 64 -> mbits x <= 64 -> mbits y <= 64 ->
  exists v, f z x y = Ok v /\ mbits v <= 64.
Proof.
  intros Hin Hz Hx Hy.
  assert (Hs : isSmall z = true) by (apply Z.leb_le; assumption).
  simpl in Hin.
  repeat (destruct Hin as [<-|Hin]); try contradiction;
    unfold mAdd, mSub, mMul, mAnd, mOr, mXor, mAndNot, mDiv, mMod; rewrite Hs;
    try (destruct (small y =? 0));
    match goal with |- exists v, setSmall ?n ?a = _ /\ _ =>
      destruct (setSmall_ok n a ltac:(lia)) as [v [-> Hv]]; exists v; split; [reflexivity|lia] end.
Qed.

Lemma mshift_small (f : mint -> mint -> Z -> res mint) z x n :
  In f [mLsh; mRsh] -> mbits z <= 64 ->
  exists v, f z x n = Ok v /\ mbits v <= 64.
Proof.
  intros Hin Hz.
  assert (Hs : isSmall z = true) by (apply Z.leb_le; assumption).
  simpl in Hin.
  repeat (destruct Hin as [<-|Hin]); try contradiction; unfold mLsh, mRsh; rewrite Hs;
    match goal with |- exists v, setSmall ?n ?a = _ /\ _ =>
      destruct (setSmall_ok n a ltac:(lia)) as [v [-> Hv]]; exists v; split; [reflexivity|lia] end.
Qed.

(* Folding two constants of at most 64 bits never panics, and the result is
   again such a constant (so nested folds never panic either). *)
Theorem evalConst_small_total op l r :
  smallc l -> smallc r ->
  match evalConst op l r with
  | Ok c => smallc c
  | Err _ => True
  | Panic _ => False
  end.
Proof.
  intros Hl Hr. unfold evalConst, resultTypeCC.
  destruct l as [tl x|a], r as [tr y|b]; simpl in Hl, Hr.
  - (* int, int *)
    destruct Hl as [Htl Hx], Hr as [Htr Hy].
    assert (Hnew : mNew (tbits tl) = Ok (mkM (tbits tl) 0)).
    { unfold mNew. destruct (tbits tl =? 0) eqn:E; [apply Z.eqb_eq in E; lia|reflexivity]. }
    assert (A : forall f, In f [mAdd; mSub; mMul; mAnd; mOr; mXor; mAndNot; mDiv; mMod] ->
      match (do z <- mNew (tbits tl); do v <- f z x y; Ok (constant v tl)) with
      | Ok c => smallc c | Err _ => True | Panic _ => False end).
    { intros f Hf. rewrite Hnew. simpl.
      destruct (mop_small f (mkM (tbits tl) 0) x y Hf) as [v [-> Hv]]; simpl; try lia.
      apply constant_smallc; [lia|apply Z.leb_le; lia]. }
    assert (S : forall f, In f [mLsh; mRsh] ->
      match (do z <- mNew (tbits tl); do v <- f z x (u64 (Int64 y)); Ok (constant v tl)) with
      | Ok c => smallc c | Err _ => True | Panic _ => False end).
    { intros f Hf. rewrite Hnew. simpl.
      destruct (mshift_small f (mkM (tbits tl) 0) x (u64 (Int64 y)) Hf) as [v [-> Hv]]; simpl; try lia.
      apply constant_smallc; [lia|apply Z.leb_le; lia]. }
    destruct op; simpl;
      try (destruct (kind_eqb (tk tl) (tk tr)); simpl; [|exact I]);
      try (destruct (intlike (tk tl) && intlike (tk tr)); simpl; [|exact I]);
      try exact I;
      first [ apply A; simpl; tauto | apply S; simpl; tauto ].
  - destruct op; simpl; try exact I; destruct (tk tl); simpl; exact I.
  - destruct op; simpl; try exact I; destruct (tk tr); simpl; exact I.
  - destruct op; simpl; exact I.
Qed.

Lemma literal_smallc a : 0 <= a < 2 ^ 64 -> exists c, literal a = Ok c /\
  (exists t m, c = CI t m /\ mbits m <= 64 /\ (tbits t = 32 \/ tbits t = 64)).
Proof.
  intros Ha. unfold literal, setBig.
  destruct ((- 2 ^ 63 <=? a) && (a <? 2 ^ 63)) eqn:E.
  - destruct (setSmall_ok 64 a ltac:(lia)) as [v [-> Hv]]. simpl.
    eexists; split; [reflexivity|]. unfold constant.
    assert (Hs : isSmall v = true) by (apply Z.leb_le; lia).
    pose proof (BitLen_small_le64 v Hs).
    do 2 eexists; split; [reflexivity|]. simpl.
    destruct (64 <? BitLen v) eqn:E1; [apply Z.ltb_lt in E1; lia|].
    destruct (32 <? BitLen v); lia.
  - assert (Hb : 2 ^ 63 <= a).
    { apply andb_false_iff in E. destruct E as [E|E]; [apply Z.leb_gt in E|apply Z.ltb_ge in E]; lia. }
    simpl. eexists; split; [reflexivity|]. unfold constant.
    assert (Hl : Z.log2 a = 63).
    { apply Z.log2_unique; lia. }
    assert (Hbl : BitLen {| mbits := bitlen_abs a + (if 0 <? a then 1 else 0); mval := a |} = 64).
    { unfold BitLen, isSmall, bitlen_abs, big; simpl mbits; simpl mval.
      destruct (a =? 0) eqn:E0; [apply Z.eqb_eq in E0; lia|].
      rewrite Z.abs_eq by lia. rewrite Hl.
      destruct (0 <? a) eqn:E1; [|apply Z.ltb_ge in E1; lia]. reflexivity. }
    rewrite Hbl. do 2 eexists; split; [reflexivity|]. simpl. lia.
Qed.

(* a typed constant T(a) of a type of at most 64 bits satisfies the invariant *)
Lemma operand_smallc k n a : 0 < n <= 64 -> 0 <= a < 2 ^ 64 ->
  exists c, operand k n a = Ok c /\ smallc c.
Proof.
  intros Hn Ha. unfold operand.
  destruct (literal_smallc a Ha) as [c [-> [t [m [-> [Hm Ht]]]]]]. simpl.
  eexists; split; [reflexivity|]. simpl. lia.
Qed.

Lemma unaryMinus_small c : smallc c ->
  match unaryMinus c with Ok c' => smallc c' | Err _ => True | Panic _ => False end.
Proof.
  destruct c as [t m|b]; simpl; [|trivial].
  intros [Ht Hm]. unfold mSub.
  assert (Hs : isSmall (mkM (tbits t) 0) = true) by (apply Z.leb_le; simpl; lia).
  rewrite Hs. destruct (setSmall_ok (tbits t) (wrap_s64 (small (mkM (tbits t) 0) - small m)) ltac:(lia)) as [v [Hv Hb]].
  simpl mbits. rewrite Hv. simpl. apply constant_smallc; [lia|apply Z.leb_le; lia].
Qed.

(* ------------------------------------------------------------------ *)
(* positive theorems, small path (every width 1..64, every value)       *)

(* operands as the folder holds them: a constant of declared type k/N whose
   container holds sx with sx = a (mod 2^N), a the N-bit wire value the
   run-time variant receives.  Covers T(a) for every N, and the canonical
   two's complement negatives of int32 / int64. *)
Definition holds (c : cval) (k : kind) (N a : Z) : Prop :=
  exists t m, c = CI t m /\ tk t = k /\ tbits t = N /\ mbits m <= 64 /\ (small m) mod 2 ^ N = a.

Definition ring_like (op : binop) : bool :=
  match op with OSub | OMul | OBand | OBor | OBxor | OBclr => true | _ => false end.

Lemma mod_land x N : 0 <= N -> x mod 2 ^ N = Z.land x (Z.ones N).
Proof. intros; symmetry; apply Z.land_ones; assumption. Qed.

Lemma bitop_mod (f : Z -> Z -> Z) (g : bool -> bool -> bool) x y N :
  0 <= N -> g false false = false ->
  (forall a b i, 0 <= i -> Z.testbit (f a b) i = g (Z.testbit a i) (Z.testbit b i)) ->
  (f x y) mod 2 ^ N = (f (x mod 2 ^ N) (y mod 2 ^ N)) mod 2 ^ N.
Proof.
  intros HN Hg Hf. rewrite !mod_land by assumption.
  apply Z.bits_inj'; intros i Hi.
  rewrite !Z.land_spec, !Hf, !Z.land_spec by assumption.
  destruct (Z.testbit (Z.ones N) i); rewrite ?andb_true_r, ?andb_false_r, ?Hg; reflexivity.
Qed.

(* - * & | ^ &^ : the wires of the folded constant are exactly the circuit's
   output, the constant has the operands' kind and is assignable to the
   declared type (MinBits <= N), for every width 1..64 and all values. *)
Local Opaque constant.
Theorem fold_ring_small op k N l r a b :
  ring_like op = true -> 1 <= N <= 64 -> holds l k N a -> holds r k N b ->
  exists c, evalConst op l r = Ok c /\
    const_wires c = snd (circuit_sem op k N a b) /\
    tk (ctype c) = k /\ tmin (ctype c) <= N /\ N <= tbits (ctype c) <= 64 /\
    (N = 32 -> tbits (ctype c) = 32) /\ smallc c.
Proof.
  intros Hop HN (tl & x & -> & Hk1 & Hb1 & Hx & Ha) (tr & y & -> & Hk2 & Hb2 & Hy & Hb).
  destruct tl as [kl bl' ml]; destruct tr as [kr br mr]; simpl in *; subst kl kr bl' br.
  unfold evalConst, resultTypeCC.
  assert (Hke : kind_eqb k k = true) by (destruct k; reflexivity).
  assert (Hnew : mNew N = Ok (mkM N 0)).
  { unfold mNew. destruct (N =? 0) eqn:E; [apply Z.eqb_eq in E; lia|reflexivity]. }
  assert (Hs : isSmall (mkM N 0) = true) by (apply Z.leb_le; simpl; lia).
  assert (Hmin : Z.min N (Z.max N N + 1) = N) by lia.
  destruct op; try discriminate Hop; simpl; rewrite Hke; simpl; rewrite Hnew; simpl;
    unfold mSub, mMul, mAnd, mOr, mXor, mAndNot; rewrite Hs; simpl mbits;
    match goal with |- context [setSmall N ?e] =>
      destruct (setSmall_seen k N ml e HN) as [v [-> [_ Hc]]] end; simpl;
    eexists; (split; [reflexivity|]);
    match goal with |- context [constant ?v ?t] =>
      destruct (Hc (constant v t) eq_refl) as (Hw & Hm & Hkk & Htb & H32 & (t' & m' & Heq & Hm' & Ht')) end;
    rewrite Hw; unfold circuit_sem, instr_sem; simpl;
    (split; [|split; [assumption|split; [assumption|split; [assumption|split;
       [assumption|rewrite Heq; simpl; lia]]]]]).
  - rewrite wrap_mod, Hmin by lia. rewrite Zminus_mod, Ha, Hb. reflexivity.
  - rewrite wrap_mod by lia. rewrite Zmult_mod, Ha, Hb. reflexivity.
  - rewrite (bitop_mod Z.land andb) by (try lia; try reflexivity; intros; apply Z.land_spec).
    rewrite Ha, Hb; reflexivity.
  - rewrite (bitop_mod Z.lor orb) by (try lia; try reflexivity; intros; apply Z.lor_spec).
    rewrite Ha, Hb; reflexivity.
  - rewrite (bitop_mod Z.lxor xorb) by (try lia; try reflexivity; intros; apply Z.lxor_spec).
    rewrite Ha, Hb; reflexivity.
  - rewrite (bitop_mod Z.ldiff (fun p q => p && negb q)) by (try lia; try reflexivity; intros; apply Z.ldiff_spec).
    rewrite Ha, Hb; reflexivity.
Qed.

(* + : same conclusion when the wider of the two containers has the declared
   width (always the case for N = 32, and for N = 64 as soon as one operand is
   at least 2^32; otherwise Add truncates the sum to 32 bits — finding F6b). *)
Theorem fold_add_small k N ml mr x y a b :
  1 <= N <= 64 -> Z.max (mbits x) (mbits y) = N ->
  (small x) mod 2 ^ N = a -> (small y) mod 2 ^ N = b ->
  exists c, evalConst OAdd (CI (mkT k N ml) x) (CI (mkT k N mr) y) = Ok c /\
    const_wires c = snd (circuit_sem OAdd k N a b) /\
    tk (ctype c) = k /\ tmin (ctype c) <= N /\ N <= tbits (ctype c) <= 64 /\
    (N = 32 -> tbits (ctype c) = 32) /\ smallc c.
Proof.
  intros HN Hmax Ha Hb. unfold evalConst, resultTypeCC.
  assert (Hke : kind_eqb k k = true) by (destruct k; reflexivity).
  assert (Hnew : mNew N = Ok (mkM N 0)).
  { unfold mNew. destruct (N =? 0) eqn:E; [apply Z.eqb_eq in E; lia|reflexivity]. }
  assert (Hs : isSmall (mkM N 0) = true) by (apply Z.leb_le; simpl; lia).
  simpl. rewrite Hke. simpl. rewrite Hnew. simpl. unfold mAdd. rewrite Hs, Hmax.
  match goal with |- context [setSmall N ?e] =>
    destruct (setSmall_seen k N ml e HN) as [v [-> [_ Hc]]] end. simpl.
  eexists; split; [reflexivity|].
  match goal with |- context [constant ?v ?t] =>
    destruct (Hc (constant v t) eq_refl) as (Hw & Hm & Hkk & Htb & H32 & (t' & m' & Heq & Hm' & Ht')) end.
  rewrite Hw. unfold circuit_sem, instr_sem. simpl.
  split; [|split; [assumption|split; [assumption|split; [assumption|split;
       [assumption|rewrite Heq; simpl; lia]]]]].
  rewrite wrap_mod by lia. rewrite Zplus_mod, Ha, Hb. reflexivity.
Qed.

(* / and % on operands that are non-negative both as intN/uintN values and as
   int64 (the whole of uintN for N <= 63, the non-negative half of intN, and
   uint64 values below 2^63), division by zero included: the folded wires are
   the circuit's output for every width 1..64. *)
Definition nonneg_bound (k : kind) (N : Z) : Z := match k with KInt => 2 ^ (N - 1) | _ => 2 ^ N end.

Lemma m1_mod N : 1 <= N -> (-1) mod 2 ^ N = 2 ^ N - 1.
Proof.
  intros H. pose proof (pow2_pos N ltac:(lia)). pose proof (pow2_le 1 N ltac:(lia)).
  change (2 ^ 1) with 2 in *.
  symmetry. apply Z.mod_unique with (q := -1); lia.
Qed.

Theorem fold_divmod_nonneg op k N ml mr x y a b :
  (op = ODiv \/ op = OMod) -> k <> KBool -> 1 <= N <= 64 ->
  mval x = a -> mval y = b -> 0 <= a < 2 ^ 63 -> 0 <= b < 2 ^ 63 ->
  a < nonneg_bound k N -> b < nonneg_bound k N ->
  exists c, evalConst op (CI (mkT k N ml) x) (CI (mkT k N mr) y) = Ok c /\
    const_wires c = snd (circuit_sem op k N a b) /\
    tk (ctype c) = k /\ tmin (ctype c) <= N /\ N <= tbits (ctype c) <= 64 /\
    (N = 32 -> tbits (ctype c) = 32) /\ smallc c.
Proof.
  intros Hop Hk HN Hx Hy Ha Hb Hab Hbb. unfold evalConst, resultTypeCC.
  assert (Hke : kind_eqb k k = true) by (destruct k; reflexivity).
  assert (Hnew : mNew N = Ok (mkM N 0)).
  { unfold mNew. destruct (N =? 0) eqn:E; [apply Z.eqb_eq in E; lia|reflexivity]. }
  assert (Hs : isSmall (mkM N 0) = true) by (apply Z.leb_le; simpl; lia).
  assert (Hsx : small x = a) by (unfold small; rewrite Hx; apply wrap_id; lia).
  assert (Hsy : small y = b) by (unfold small; rewrite Hy; apply wrap_id; lia).
  assert (HpN : 0 < 2 ^ N) by (apply pow2_pos; lia).
  assert (Hmx : Z.max N N = N) by lia.
  assert (Hsem : forall v, v = (if b =? 0 then (if match op with ODiv => true | _ => false end then 2 ^ N - 1 else a mod 2 ^ N)
                                else (if match op with ODiv => true | _ => false end then (a / b) mod 2 ^ N else (a mod b) mod 2 ^ N)) ->
                           v = snd (circuit_sem op k N a b)).
  { intros v ->. unfold circuit_sem, instr_sem, idiv_q, idiv_r, udiv_q, udiv_r, absn. rewrite Hmx.
    assert (Hm1 : (2 ^ N - 1) mod 2 ^ N = 2 ^ N - 1) by (apply Z.mod_small; lia).
    destruct Hop as [-> | ->]; destruct k; try congruence; simpl in Hab, Hbb |- *;
      try (assert (Ea : (a <? 2 ^ (N - 1)) = true) by (apply Z.ltb_lt; lia); rewrite Ea);
      try (assert (Eb : (b <? 2 ^ (N - 1)) = true) by (apply Z.ltb_lt; lia); rewrite Eb);
      simpl; destruct (b =? 0); try rewrite Hm1; reflexivity. }
  destruct Hop as [-> | ->]; simpl; rewrite Hke; simpl; rewrite Hnew; simpl;
    unfold mDiv, mMod; rewrite Hs, Hsx, Hsy; simpl mbits;
    destruct (b =? 0) eqn:Eb0;
    match goal with |- context [setSmall N ?e] =>
      destruct (setSmall_seen k N ml e HN) as [v [-> [_ Hc]]] end; simpl;
    (eexists; split; [reflexivity|]);
    match goal with |- context [constant ?v ?t] =>
      destruct (Hc (constant v t) eq_refl) as (Hw & Hm & Hkk & Htb & H32 & (t' & m' & Heq & Hm' & Ht')) end;
    (split; [|split; [assumption|split; [assumption|split; [assumption|split;
       [assumption|rewrite Heq; simpl; lia]]]]]);
    rewrite Hw; apply Hsem.
  - apply m1_mod; lia.
  - apply Z.eqb_neq in Eb0.
    rewrite Z.quot_div_nonneg by lia.
    assert (0 <= a / b <= a) by (split; [apply Z.div_pos; lia|apply Z.div_le_upper_bound; nia]).
    rewrite wrap_id by lia. reflexivity.
  - reflexivity.
  - apply Z.eqb_neq in Eb0. rewrite Z.rem_mod_nonneg by lia. reflexivity.
Qed.

(* >> of such a non-negative operand by a literal count cnt >= 0 *)
Theorem fold_rsh_nonneg k N ml tr x y a cnt :
  k <> KBool -> tk tr <> KBool -> 1 <= N <= 64 -> mval x = a -> 0 <= a < 2 ^ 63 -> a < nonneg_bound k N ->
  u64 (Int64 y) = cnt -> 0 <= cnt ->
  exists c, evalConst ORsh (CI (mkT k N ml) x) (CI tr y) = Ok c /\
    const_wires c = snd (circuit_sem ORsh k N a cnt) /\
    tk (ctype c) = k /\ tmin (ctype c) <= N /\ N <= tbits (ctype c) <= 64 /\
    (N = 32 -> tbits (ctype c) = 32) /\ smallc c.
Proof.
  intros Hk Hkr HN Hx Ha Hab Hcnt Hc0. unfold evalConst, resultTypeCC.
  assert (Hil : intlike k && intlike (tk tr) = true) by (destruct k, (tk tr); try congruence; reflexivity).
  assert (Hnew : mNew N = Ok (mkM N 0)).
  { unfold mNew. destruct (N =? 0) eqn:E; [apply Z.eqb_eq in E; lia|reflexivity]. }
  assert (Hs : isSmall (mkM N 0) = true) by (apply Z.leb_le; simpl; lia).
  assert (Hsx : small x = a) by (unfold small; rewrite Hx; apply wrap_id; lia).
  simpl. rewrite Hil. simpl. rewrite Hnew. simpl. unfold mRsh. rewrite Hs, Hsx, Hcnt. simpl mbits.
  match goal with |- context [setSmall N ?e] =>
    destruct (setSmall_seen k N ml e HN) as [v [-> [_ Hc]]] end. simpl.
  eexists; split; [reflexivity|].
  match goal with |- context [constant ?v ?t] =>
    destruct (Hc (constant v t) eq_refl) as (Hw & Hm & Hkk & Htb & H32 & (t' & m' & Heq & Hm' & Ht')) end.
  split; [|split; [assumption|split; [assumption|split; [assumption|split;
       [assumption|rewrite Heq; simpl; lia]]]]].
  rewrite Hw. unfold circuit_sem, instr_sem. simpl.
  destruct k; try congruence; simpl in Hab |- *; try reflexivity.
  unfold sgn_at. assert (Ea : (a <? 2 ^ (N - 1)) = true) by (apply Z.ltb_lt; lia). rewrite Ea. reflexivity.
Qed.

Local Transparent constant.

(* ------------------------------------------------------------------ *)
(* the full statement and its refutation                                *)
Definition representable (k : kind) (n a : Z) : Prop :=
  match k with
  | KUint => 0 <= a < 2 ^ n
  | KInt => - 2 ^ (n - 1) <= a < 2 ^ (n - 1)
  | KBool => a = 0 \/ a = 1
  end.

(* a typed constant of value a as the program writes it: T(a), or -T(|a|) *)
Definition typed (k : kind) (n a : Z) : res cval :=
  if 0 <=? a then operand k n a else neg_operand n (- a).

(* (what the program sees of the folded constant, what the circuit computes);
   for shifts b is the literal shift count *)
Definition fold_at (op : binop) (k : kind) (n a b : Z) : res ((kind * Z * Z) * (kind * Z * Z)) :=
  do l <- typed k n a;
  do r <- (if is_shift op then literal b else typed k n b);
  do s <- fold op l r;
  Ok (s, circuit_sem op k n (a mod 2 ^ n) (if is_shift op then b else b mod 2 ^ n)).

Definition seen_eqb (x y : kind * Z * Z) : bool :=
  let '(k1, w1, v1) := x in let '(k2, w2, v2) := y in kind_eqb k1 k2 && (w1 =? w2) && (v1 =? v2).

(* the property as stated: for every operator, type and representable operands
   the folder answers, and its answer is what the circuit computes *)
Definition C12_claim : Prop :=
  forall op k n a b, 0 < n -> representable k n a -> (is_shift op = true \/ representable k n b) ->
    (is_shift op = true -> 0 <= b) ->
    exists s, fold_at op k n a b = Ok (s, s).

Theorem fold_eq_circuit_refuted : ~ C12_claim.
Proof.
  intros H. destruct (H ODiv KInt 32 (-6) 3) as [s Hs]; try (simpl; lia); try (right; simpl; lia); try discriminate.
  vm_compute in Hs. congruence.
Qed.

(* one witness per failing class: (op, kind, width, a, b).  [differs] = the
   folder's answer is not the circuit's (or the folder errs / panics). *)
Definition differs (w : binop * kind * Z * Z * Z) : bool :=
  let '(op, k, n, a, b) := w in
  match fold_at op k n a b with
  | Ok (s, c) => negb (seen_eqb s c)
  | _ => true
  end.

Definition witnesses : list (binop * kind * Z * Z * Z) :=
  [ (ODiv, KInt, 32, -6, 3);               (* F6a  small Div on raw int64: 1431655763, circuit -2 *)
    (OMod, KInt, 32, -7, 3);               (* F6a  0, circuit 1 *)
    (ORsh, KInt, 32, -8, 1);               (* F6a  2147483644, circuit -4 *)
    (ODiv, KUint, 64, 2 ^ 63, 2);          (* F6a  uint64 top bit divides as a negative int64 *)
    (ORsh, KUint, 64, 2 ^ 63, 1);          (* F6a  0xC000000000000000, circuit 0x4000000000000000 *)
    (OAdd, KUint, 8, 200, 100);            (* F6b  uint32 constant 300, circuit uint8 44 *)
    (OAdd, KUint, 64, 2 ^ 32 - 1, 1);      (* F6b  0, circuit 2^32 *)
    (OSub, KInt, 8, 1, 7);                 (* F6c  int32 constant 250, circuit int8 -6 *)
    (OMul, KInt, 8, -6, 2);                (* F6c  -int8(6) is the int32 constant 250: 500 *)
    (OAdd, KInt, 8, 1, 2);                 (* F6c  value 3 but 32 wires wide (Type.Bits widened) *)
    (OLt, KInt, 8, -6, 1);                 (* F6c  false, circuit true *)
    (OLt, KUint, 32, 2 ^ 31, 1);           (* F6e  true, circuit false *)
    (OLt, KInt, 64, 2 ^ 31, 1);            (* F6e  true, circuit false *)
    (OAdd, KUint, 128, 1, 2);              (* F6f  panic "Output already assigned" *)
    (OSub, KUint, 65, 2, 1);               (* F6f  panic *)
    (ODiv, KUint, 128, 3 * 2 ^ 99, 3);     (* F6g  big Div through the signed divider *)
    (OMod, KUint, 128, 2 ^ 100 + 5, 7);    (* F6g  4, circuit 0 *)
    (ODiv, KUint, 65, 3800051367, 0);      (* F6g  division by zero folds to 1 *)
    (OLt, KUint, 128, 2 ^ 100, 5);         (* F6h  true, circuit false *)
    (OLt, KInt, 128, -6, -5);              (* F6h  false, circuit true *)
    (ORsh, KInt, 128, -8, 1) ].            (* F6i  2^127-4, circuit -4 *)

Lemma witnesses_differ : forallb differs witnesses = true.
Proof. vm_compute. reflexivity. Qed.

(* the replayed numbers themselves *)
Example w_div : fold_at ODiv KInt 32 (-6) 3 = Ok ((KInt, 32, 1431655763), (KInt, 32, 4294967294)).
Proof. vm_compute. reflexivity. Qed.
Example w_mod : fold_at OMod KInt 32 (-7) 3 = Ok ((KInt, 32, 0), (KInt, 32, 1)).
Proof. vm_compute. reflexivity. Qed.
Example w_rsh : fold_at ORsh KInt 32 (-8) 1 = Ok ((KInt, 32, 2147483644), (KInt, 32, 4294967292)).
Proof. vm_compute. reflexivity. Qed.
Example w_add8 : fold_at OAdd KUint 8 200 100 = Ok ((KUint, 32, 300), (KUint, 8, 44)).
Proof. vm_compute. reflexivity. Qed.
Example w_add64 : fold_at OAdd KUint 64 (2 ^ 32 - 1) 1 = Ok ((KUint, 64, 0), (KUint, 64, 2 ^ 32)).
Proof. vm_compute. reflexivity. Qed.
Example w_panic : fold_at OAdd KUint 128 1 2 = Panic P_OUTPUT.
Proof. vm_compute. reflexivity. Qed.
(* the widened Type.Bits is visible to a consumer: b / (int8(1)+int8(2)) with
   b = -6 at run time gives 83; with the 8-bit constant the circuit gives -2 *)
Example w_widen_consumer :
  run_program KInt 8 (EBin ODiv (EIn KInt 8 250) (EBin OAdd (ECast KInt 8 (ELit 1)) (ECast KInt 8 (ELit 2)))) = Ok 83 /\
  run_program KInt 8 (EBin ODiv (EIn KInt 8 250) (ECast KInt 8 (ELit 3))) = Ok 254.
Proof. split; vm_compute; reflexivity. Qed.
(* intN(-x) keeps the 32-bit container: int40(-6) = 4294967290 *)
Example w_cast : run_program KInt 40 (ECast KInt 40 (ENeg (ELit 6))) = Ok 4294967290.
Proof. vm_compute. reflexivity. Qed.

(* totality fails: representable operands on which the folder panics *)
Theorem fold_total_refuted :
  exists op k n a b l r, 0 < n /\ representable k n a /\ representable k n b /\
    typed k n a = Ok l /\ typed k n b = Ok r /\ is_panic (evalConst op l r) = true.
Proof.
  exists OAdd, KUint, 128, 1, 2. do 2 eexists.
  split; [lia|]. split; [simpl; lia|]. split; [simpl; lia|].
  split; [vm_compute; reflexivity|]. split; [vm_compute; reflexivity|].
  vm_compute. reflexivity.
Qed.
(* operands of different widths (each representable in its own type) reach
   setSmall with bits > 64 *)
Example w_panic_mixed :
  (do l <- typed KUint 8 255; do r <- typed KUint 128 (2 ^ 128 - 1); evalConst OAdd l r) = Panic P_SETSMALL.
Proof. vm_compute. reflexivity. Qed.

(* non-vacuity of [holds]: the forms the programs use *)
Example holds_cast : exists c, operand KUint 8 200 = Ok c /\ holds c KUint 8 200.
Proof. eexists; split; [vm_compute; reflexivity|]. do 2 eexists. repeat split; vm_compute; congruence. Qed.
Example holds_neg32 : exists c, neg_operand 32 6 = Ok c /\ holds c KInt 32 (2 ^ 32 - 6).
Proof. eexists; split; [vm_compute; reflexivity|]. do 2 eexists. repeat split; vm_compute; congruence. Qed.
Example holds_neg64 : exists c, neg_operand 64 6 = Ok c /\ holds c KInt 64 (2 ^ 64 - 6).
Proof. eexists; split; [vm_compute; reflexivity|]. do 2 eexists. repeat split; vm_compute; congruence. Qed.
