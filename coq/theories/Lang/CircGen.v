(* CircGen.v — Gallina model of the SSA -> circuit step of /repo/compiler:
     compiler/ssa/circuitgen.go   Program.CompileCircuit (up to and including
                                  prog.Circuit(cc)), Program.Circuit
     compiler/ssa/program.go      NewProgram (input wires), DefineConstants
     compiler/ssa/wire_allocator.go  Wires / SetWires (value -> wires)
   on top of the gate-emitting monad Builders/Emit.v (circuits.Compiler) and the
   builder transcriptions Builders/*.v (reused, not duplicated).

   SSA programs are the terms of Lang/Ssa.v (the compiler's listing with values
   numbered: inputs 0..k-1, the j-th value-defining instruction defines value
   k+j).  The wire allocator maps a value to its wires by Value.Equal / HashCode;
   here the map is the list [vals] indexed by value number:
     walloc.Wires(v, bits) of a known value      -> nth i vals []
     walloc.Wires( *instr.Out, bits) (new value)  -> fresh_n bits (calloc.Wires)
     walloc.SetWires( *instr.Out, o)              -> the list o itself
   either way the wires registered for instr.Out are appended to [vals].  Go
   builders write into the destination slice they are given and may replace
   elements of it (z[i] = cc.ZeroWire()); alloc.wires shares that slice, so the
   value is registered with the list the builder returns.
   Constants (Program.DefineConstants): cw wires, bit b = OneWire if the bit is
   set else ZeroWire; the operand loop of Program.Circuit then casts every
   operand to the width of its declared type (cut, or padded with the top wire
   for types.TInt, with ZeroWire otherwise).

   A wire is its allocation number (Emit.v): program input wires are 0..n-1 in
   declaration order (NewProgram), every later wire is numbered in allocation
   order; Go's *Wire has no number before Compiler.Compile, the correspondence
   check renumbers both gate lists canonically (first appearance).

   Modelled opcodes: all of Lang/Ssa.v — iadd uadd isub usub imult umult idiv
   udiv imod umod band bor bxor bclr, the 8 ordered comparisons, eq neq and or
   not mov smov lshift rshift srshift slice amov index phi concat bts btc,
   builtin (circuits.Hamming, the only builtin ast/builtin.go emits), circ (the
   embedding of a parsed native circuit: Lang/CircEmbed.v), and ret.
   NOT modelled: the floating point opcodes (no case in Program.Circuit
   either); gc is a no-op of Program.Circuit ([Ounsupported] registers no wires
   and emits nothing).
   Errors/panics of the Go code (slice bounds from >= to, NewMUX width
   mismatch, a destination shorter than a copied range ...) have no
   counterpart: the monad is total; the executable predicate [cg_wf] below
   lists the side conditions under which the instruction is compiled without
   error AND its gates compute the instruction's meaning (CircGenProof.v).

   No proofs in this file. *)
From Coq Require Import ZArith NArith List Bool Arith.
From Mpc Require Import Gen.Thresholds Lang.Mini Lang.Ssa Builders.Emit Builders.Adder Builders.Sub
  Builders.Mult Builders.Div Builders.Cmp Builders.Mux Builders.Index Builders.Bitwise Builders.Hamming
  Lang.CircEmbed.
Import ListNotations.
Open Scope monad_scope.
Local Open Scope nat_scope.

Fixpoint mapM {A B} (f : A -> M B) (l : list A) : M (list B) :=
  match l with
  | [] => ret []
  | a :: r => b <- f a;; bs <- mapM f r;; ret (b :: bs)
  end.

(* consecutive wire numbers from .. from+n-1 *)
Definition wrng (from : N) (n : nat) : list wire := map (fun i => (from + N.of_nat i)%N) (seq 0 n).

(* Program.DefineConstants: "if c.Bit(bit) { w = one } else { w = zero }" *)
Definition const_wires (zw ow : wire) (cw : nat) (cv : N) : list wire :=
  map (fun b => if N.testbit cv (N.of_nat b) then ow else zw) (seq 0 cw).

(* Program.Circuit, loop over instr.In: "if len(w) != int(in.Type.Bits) { ... }" *)
Definition cg_resize (w : list wire) (t : sty) : M (list wire) :=
  let n := s_bits t in
  if Nat.eqb (length w) n then ret w
  else
    pad <- (if s_signed t && Nat.ltb 0 (length w) then ret (last w 0%N) else zero_wire);;
    (* "if bit < len(w) { cw[bit] = w[bit] } else { cw[bit] = pad }" *)
    ret (map (fun bit => nth bit w pad) (seq 0 n)).

(* prog.walloc.Wires(in, in.Type.Bits) + the cast above.  A constant's wires
   were registered by DefineConstants from cc.ZeroWire()/cc.OneWire(), which
   exist since CompileCircuit (zero_wire/one_wire return the same wires). *)
Definition cg_opnd (vals : list (list wire)) (o : opnd) : M (list wire) :=
  match o with
  | OVar i t => cg_resize (nth i vals []) t
  | OConst cw cv t =>
      zw <- zero_wire;; ow <- one_wire;;
      cg_resize (const_wires zw ow cw cv) t
  end.

(* "for i := 0; i < int(instr.Out.Type.Bits); i++ { cc.INV(wires[0][i], o[i]) }" *)
Fixpoint inv_loop (x o : list wire) : M unit :=
  match x, o with
  | xi :: x', oi :: o' => cc_inv xi oi;; inv_loop x' o'
  | _, _ => ret tt
  end.

Section CG.
(* circuits.multiplierArrayTresholds (Gen/Thresholds.v), Params.CircMultArrayTreshold *)
Variable tbl : list (nat * nat).
Variable thr : nat.

(* the switch of Program.Circuit on instr.Op; ws = the operand wires ("wires");
   result = wires registered for instr.Out *)
Definition cg_body (i : instr) (ws : list (list wire)) : M (list wire) :=
  let w0 := nth 0 ws [] in
  let w1 := nth 1 ws [] in
  let w2 := nth 2 ws [] in
  let ob := s_bits (i_out i) in
  let cst := fun k => opnd_const (arg k (i_args i)) in
  (* builders writing into freshly allocated output wires *)
  let bld := fun (b : list wire -> M (list wire)) => o <- fresh_n ob;; b o in
  let bldu := fun (b : list wire -> M unit) => o <- fresh_n ob;; b o;; ret o in
  (* outputs wired by SetWires: bit -> wire *)
  let wired := fun (f : nat -> wire) => ret (map f (seq 0 ob)) in
  match i_op i with
  | Oiadd | Ouadd => bld (new_adder w0 w1)
  | Oisub | Ousub => bld (new_subtractor w0 w1)
  | Oimult | Oumult => bld (new_multiplier tbl thr w0 w1)
  | Oidiv => bldu (fun o => new_idivider w0 w1 o [])
  | Oudiv => bldu (fun o => new_udivider w0 w1 o [])
  | Oimod => bldu (fun o => new_idivider w0 w1 [] o)
  | Oumod => bldu (fun o => new_udivider w0 w1 [] o)
  | Oband => bldu (binary_and w0 w1)
  | Obclr => bldu (binary_clear w0 w1)
  | Obor => bldu (binary_or w0 w1)
  | Obxor => bldu (binary_xor w0 w1)
  | Oilt => bldu (int_lt w0 w1)
  | Oult => bldu (uint_lt w0 w1)
  | Oile => bldu (int_le w0 w1)
  | Oule => bldu (uint_le w0 w1)
  | Oigt => bldu (int_gt w0 w1)
  | Ougt => bldu (uint_gt w0 w1)
  | Oige => bldu (int_ge w0 w1)
  | Ouge => bldu (uint_ge w0 w1)
  | Oeq => bldu (eq_comparator w0 w1)
  | Oneq => bldu (neq_comparator w0 w1)
  | Oand => bldu (logical_and w0 w1)
  | Oor => bldu (logical_or w0 w1)
  | Onot => bldu (inv_loop w0)
  | Omov => z <- zero_wire;; wired (fun b => nth b w0 z)
  | Osmov => let sg := last w0 0%N in wired (fun b => nth b w0 sg)
  | Olshift =>
      z <- zero_wire;;
      let c := cst 1 in
      wired (fun b => if Nat.leb c b then nth (b - c) w0 z else z)
  | Orshift => z <- zero_wire;; let c := cst 1 in wired (fun b => nth (b + c) w0 z)
  | Osrshift => let sg := last w0 0%N in let c := cst 1 in wired (fun b => nth (b + c) w0 sg)
  | Oslice =>
      z <- zero_wire;;
      let from := cst 1 in let to := cst 2 in
      wired (fun b => if Nat.ltb b (to - from) then nth (from + b) w0 z else z)
  | Oamov =>
      z <- zero_wire;;
      let from := cst 2 in let to := cst 3 in
      wired (fun b => if Nat.ltb b from || Nat.leb to b then nth b w1 z else nth (b - from) w0 z)
  | Oindex => bld (new_index (i_aux i) (skipn (cst 1) w0) w2)
  | Ophi => bldu (new_mux w0 w1 w2)
  | Oconcat => ret (w0 ++ w1)        (* copy(o, wires[0]); o[len(wires[0])+i] = wires[1][i] *)
  | Obts => bld (bit_set_test w0 (cst 1))
  | Obtc => bld (bit_clr_test w0 (cst 1))
  | Ohamming => bld (hamming w0 w1)  (* instr.Builtin(cc, wires[0], wires[1], o) *)
  | Ounsupported => ret []
  | Ocirc ins c => embed_circ ins ob c ws   (* case Circ: Lang/CircEmbed.v *)
  end.

(* one step: operand wires, then the switch *)
Definition cg_instr (vals : list (list wire)) (i : instr) : M (list wire) :=
  ws <- mapM (cg_opnd vals) (i_args i);;
  cg_body i ws.

(* the loop over prog.Steps *)
Fixpoint cg_code (code : list instr) (vals : list (list wire)) : M (list (list wire)) :=
  match code with
  | [] => ret vals
  | i :: r => o <- cg_instr vals i;; cg_code r (vals ++ [o])
  end.

(* case Ret: "o := cc.Calloc.Wire(); cc.ID(w, o); cc.OutputWires = append(...)" *)
Definition cg_ret_wire (w : wire) : M wire := o <- fresh;; cc_id w o;; ret o.

(* NewProgram: one walloc.Wires per input argument, in order *)
Fixpoint input_wires (from : N) (ws : list nat) : list (list wire) :=
  match ws with
  | [] => []
  | w :: r => wrng from w :: input_wires (from + N.of_nat w)%N r
  end.

Definition total_bits (ws : list nat) : nat := fold_right Nat.add 0 ws.

(* CompileCircuit: DefineConstants(cc.ZeroWire(), cc.OneWire()); prog.Circuit(cc).
   Result: the output wires, one list per operand of ret. *)
Definition cg_prog (p : sprog) : M (list (list wire)) :=
  _ <- zero_wire;; _ <- one_wire;;
  vals <- cg_code (sp_code p) (input_wires 0 (sp_inputs p));;
  rws <- mapM (cg_opnd vals) (sp_rets p);;
  mapM (mapM cg_ret_wire) rws.

Record ccirc : Type := mkCC {
  cc_ninp : nat;                 (* number of input wires (0..ninp-1) *)
  cc_gates : list gate;          (* Compiler.Gates after prog.Circuit, newest first *)
  cc_outs : list (list wire) }.  (* Compiler.OutputWires, per returned value *)

Definition circuit_of_ssa_gen (tg : bool) (p : sprog) : ccirc :=
  let n := total_bits (sp_inputs p) in
  let '(outs, s) := cg_prog p (st0 (N.of_nat n) tg) in
  mkCC n (gates s) outs.

(* ---- side conditions (executable) ----
   Per instruction: the operand count of the opcode and the width relations
   under which (a) the Go code reports no error / does not index out of range
   and (b) the builder computes the opcode's meaning in Lang/Ssa.v (e.g. a
   result wider than the operands of an adder would see the carry, which
   [arith] drops).  An operand naming an undefined value has no wires and the
   value 0 on both sides, so no definedness condition is needed.
   Division: the divider theorems of C07 assume a non-zero divisor and quotient
   and remainder destinations of full width; circuitgen passes nil for one of
   them.  Lang/CircGenDivProof.v re-proves NewUDivider / NewIDivider for that
   calling convention, for a zero divisor, for operands of any two widths (the
   narrower one is zero padded, also by NewIDivider) and for a destination
   narrower than the operands (ssagen types x / 5 by x, the literal sits in a
   32-bit container).
   circ: the sub-circuit meets [circ_ok] (Circuit.wf, single assignment, inputs
   and outputs disjoint), its input widths add up to its number of input wires,
   the result has its number of output wires, no argument is wider than its input.
   NOT covered (cg_wf_instr = false): the opcodes Lang/Ssa.v does not model. *)
Definition is_const (o : opnd) : bool := match o with OConst _ _ _ => true | _ => false end.

(* circ: one argument per input of the sub-circuit, none wider than that input
   (ast/builtin.go nativeCircuit rejects a wider argument; a narrower one must
   be a constant there — the padding itself does not care) *)
Fixpoint args_fit (a : list opnd) (ins : list nat) : bool :=
  match a, ins with
  | [], [] => true
  | x :: ar, n :: nr => Nat.leb (opnd_bits x) n && args_fit ar nr
  | _, _ => false
  end.

Definition cg_wf_instr (i : instr) : bool :=
  let a := i_args i in
  let b0 := opnd_bits (arg 0 a) in
  let b1 := opnd_bits (arg 1 a) in
  let b2 := opnd_bits (arg 2 a) in
  let ob := s_bits (i_out i) in
  let mx := Nat.max b0 b1 in
  let nargs := fun n => Nat.eqb (length a) n in
  let cst := fun k => opnd_const (arg k a) in
  match i_op i with
  | Oiadd | Ouadd | Oimult | Oumult | Oisub | Ousub =>
      nargs 2 && Nat.leb 1 ob && Nat.leb ob mx
  | Oband | Obor | Obxor | Obclr => nargs 2 && Nat.leb 1 mx && Nat.leb ob mx
  | Oudiv | Oumod => nargs 2 && Nat.leb 1 mx && Nat.leb ob mx
  | Oidiv | Oimod => nargs 2 && Nat.leb 1 mx && Nat.leb 1 ob && Nat.leb ob mx
  | Oult | Oule | Ougt | Ouge | Oeq | Oneq => nargs 2 && Nat.leb 1 mx && Nat.eqb ob 1
  | Oilt | Oile | Oigt | Oige => nargs 2 && Nat.leb 1 mx && Nat.eqb ob 1
  | Oand | Oor => nargs 2 && Nat.eqb b0 1 && Nat.eqb b1 1 && Nat.eqb ob 1
  | Onot => nargs 1 && Nat.leb ob b0
  | Omov => nargs 1
  | Osmov => nargs 1 && Nat.leb 1 b0
  | Olshift | Orshift => nargs 2 && is_const (arg 1 a)
  | Osrshift => nargs 2 && is_const (arg 1 a) && Nat.leb 1 b0
  | Oslice =>
      nargs 3 && is_const (arg 1 a) && is_const (arg 2 a) &&
      Nat.ltb (cst 1) (cst 2) && Nat.leb (cst 2 - cst 1) ob
  | Oamov =>
      nargs 4 && is_const (arg 2 a) && is_const (arg 3 a) && Nat.ltb (cst 2) (cst 3)
  | Oindex =>
      nargs 3 && is_const (arg 1 a) && Nat.leb 1 (i_aux i) && Nat.eqb ob (i_aux i) &&
      Nat.leb (cst 1) b0 && Nat.leb 1 ((b0 - cst 1) / i_aux i) &&
      Nat.eqb ((b0 - cst 1) mod i_aux i) 0 && Nat.leb 1 b2
  | Ophi => nargs 3 && Nat.eqb b0 1 && Nat.eqb ob (Nat.max b1 b2)
  | Oconcat => nargs 2 && Nat.eqb ob (b0 + b1)
  | Obts | Obtc => nargs 2 && is_const (arg 1 a) && Nat.eqb ob 1
  | Ohamming => nargs 2 && Nat.leb 2 mx && Nat.leb 1 ob
  | Ounsupported => false
  | Ocirc ins c =>
      args_fit a ins && Nat.eqb (tot ins) (Circuit.ninputs c) && Nat.eqb ob (Circuit.noutputs c) && circ_ok c
  end.

(* GMW target: NewUDivider dispatches to the Goldschmidt divider, which is not
   exact (C07: F31-F33) — division is excluded there *)
Definition is_div (o : opcode) : bool :=
  match o with Oidiv | Oudiv | Oimod | Oumod => true | _ => false end.
Definition ok_tg (tg : bool) (i : instr) : bool := negb tg || negb (is_div (i_op i)).

(* at least one input wire (circuits.NewCompiler: "no inputs defined");
   InputWires[0] is wire 0 *)
Definition cg_wf (p : sprog) : bool :=
  Nat.leb 1 (total_bits (sp_inputs p)) && forallb cg_wf_instr (sp_code p).

(* per target: tg = false Yao, tg = true GMW (no division) *)
Definition cg_wf_tg (tg : bool) (p : sprog) : bool :=
  cg_wf p && forallb (ok_tg tg) (sp_code p).

End CG.

(* the configuration of utils.NewParams() (what compiler.New(params).Compile uses by
   default): Yao target, CircMultArrayTreshold = 0, the shipped threshold table *)
Definition circuit_of_ssa (p : sprog) : ccirc :=
  circuit_of_ssa_gen multiplierArrayTresholds 0 false p.

(* ---- evaluation of the generated circuit ---- *)
Definition env_of_bits (bs : list bool) : Emit.env := fun w => nth (N.to_nat w) bs false.

Definition bits_of_N (w : nat) (v : N) : list bool :=
  map (fun i => N.testbit v (N.of_nat i)) (seq 0 w).

(* the bits on the input wires: argument k occupies the next (width k) wires,
   least significant bit first (circuit.Circuit.Compute / IO layout) *)
Fixpoint input_bits (ws : list nat) (inp : list N) : list bool :=
  match ws with
  | [] => []
  | w :: r => match inp with
              | v :: vr => bits_of_N w v ++ input_bits r vr
              | [] => repeat false w ++ input_bits r []
              end
  end.

(* gate-by-gate evaluation in emission order, outputs as numbers (LSB first) *)
Definition eval_circuit (c : ccirc) (bs : list bool) : list N :=
  map (valN (eval_rev (cc_gates c) (env_of_bits bs))) (cc_outs c).
