(* HashtabProof.v — the chained hash table of WireAllocator refines the finite
   map: for EVERY hash function (collisions arbitrary) and every sequence of
   lookup / allocate / assign / gc operations, the chained table — with the
   move-to-front rule of lookup and the unlinking remove — returns exactly what
   the finite map returns. *)
From Coq Require Import NArith List Bool Arith Lia.
From Mpc Require Import Lang.Gc Lang.Hashtab.
Import ListNotations.

Section P.
  Variable V : Type.
  Variable hash : N -> nat.

  Notation chain := (chain V).
  Notation table := (table V).

  (* ---- association lists *)
  Lemma lookup_nat_set_eq {A} b (c : A) t : lookup_nat b (set_nat b c t) = Some c.
  Proof.
    induction t as [|[b' c'] t IH]; simpl; [rewrite Nat.eqb_refl; reflexivity|].
    destruct (Nat.eqb b b') eqn:E; simpl; [rewrite Nat.eqb_refl; reflexivity | rewrite E; exact IH].
  Qed.

  Lemma lookup_nat_set_neq {A} b b' (c : A) t : b <> b' -> lookup_nat b' (set_nat b c t) = lookup_nat b' t.
  Proof.
    intros H. induction t as [|[b2 c2] t IH]; simpl.
    - destruct (Nat.eqb b' b) eqn:E; [apply Nat.eqb_eq in E; congruence | reflexivity].
    - destruct (Nat.eqb b b2) eqn:E; simpl.
      + apply Nat.eqb_eq in E. subst b2. destruct (Nat.eqb b' b) eqn:E2; [apply Nat.eqb_eq in E2; congruence | reflexivity].
      + destruct (Nat.eqb b' b2); [reflexivity | exact IH].
  Qed.

  Lemma bucket_set_eq t b c : bucket V (set_bucket V t b c) b = c.
  Proof. unfold bucket, set_bucket. rewrite lookup_nat_set_eq. reflexivity. Qed.

  Lemma bucket_set_neq t b b' c : b <> b' -> bucket V (set_bucket V t b c) b' = bucket V t b'.
  Proof. intros H. unfold bucket, set_bucket. rewrite lookup_nat_set_neq by exact H. reflexivity. Qed.

  (* ---- one chain *)
  Lemma find_pos_lookup k : forall (c : chain) n,
    match find_pos V k c n with Some (p, v) => lookup k c = Some v /\ n < p | None => lookup k c = None end.
  Proof.
    induction c as [|[k' v] t IH]; intros n; simpl; [reflexivity|].
    destruct (N.eqb k k'); [split; [reflexivity | lia]|].
    specialize (IH (S n)). destruct (find_pos V k t (S n)) as [[p v']|]; [|exact IH].
    destruct IH as [H1 H2]. split; [exact H1 | lia].
  Qed.

  Lemma lookup_remove_first_neq k k' (c : chain) : k <> k' -> lookup k' (remove_first V k c) = lookup k' c.
  Proof.
    intros H. induction c as [|[k2 v2] t IH]; simpl; [reflexivity|].
    destruct (N.eqb k k2) eqn:E.
    - apply N.eqb_eq in E. subst k2. destruct (N.eqb k' k) eqn:E2; [apply N.eqb_eq in E2; congruence | reflexivity].
    - simpl. destruct (N.eqb k' k2); [reflexivity | exact IH].
  Qed.

  Lemma keys_remove_first_incl k (c : chain) x : In x (map fst (remove_first V k c)) -> In x (map fst c).
  Proof.
    induction c as [|[k2 v2] t IH]; simpl; [auto|].
    destruct (N.eqb k k2); simpl; [auto|]. intros [H|H]; auto.
  Qed.

  Lemma NoDup_remove_first k (c : chain) : NoDup (map fst c) -> NoDup (map fst (remove_first V k c)).
  Proof.
    induction c as [|[k2 v2] t IH]; simpl; [auto|]. intros H. inversion H as [|? ? Hn Hd]; subst.
    destruct (N.eqb k k2); [exact Hd|]. simpl. constructor; [|apply IH, Hd].
    intros Hi. apply Hn. eapply keys_remove_first_incl; eauto.
  Qed.

  Lemma lookup_none_notin k (c : chain) : lookup k c = None -> ~ In k (map fst c).
  Proof.
    induction c as [|[k2 v2] t IH]; simpl; [auto|].
    destruct (N.eqb k k2) eqn:E; [discriminate|]. apply N.eqb_neq in E. intros H [H1|H1]; [congruence | exact (IH H H1)].
  Qed.

  Lemma notin_lookup_none k (c : chain) : ~ In k (map fst c) -> lookup k c = None.
  Proof.
    induction c as [|[k2 v2] t IH]; simpl; [auto|]. intros H.
    destruct (N.eqb k k2) eqn:E; [apply N.eqb_eq in E; subst; exfalso; apply H; auto | apply IH; auto].
  Qed.

  Lemma remove_first_notin k (c : chain) : NoDup (map fst c) -> ~ In k (map fst (remove_first V k c)).
  Proof.
    induction c as [|[k2 v2] t IH]; simpl; [auto|]. intros H. inversion H as [|? ? Hn Hd]; subst.
    destruct (N.eqb k k2) eqn:E.
    - apply N.eqb_eq in E. subst k2. exact Hn.
    - apply N.eqb_neq in E. simpl. intros [H1|H1]; [congruence | exact (IH Hd H1)].
  Qed.

  Lemma lookup_chain_update_eq k v (c : chain) : lookup k c <> None -> lookup k (chain_update V k v c) = Some v.
  Proof.
    induction c as [|[k2 v2] t IH]; simpl; [congruence|].
    destruct (N.eqb k k2) eqn:E; simpl; [rewrite N.eqb_refl; reflexivity | rewrite E; exact IH].
  Qed.

  Lemma lookup_chain_update_neq k k' v (c : chain) : k <> k' -> lookup k' (chain_update V k v c) = lookup k' c.
  Proof.
    intros H. induction c as [|[k2 v2] t IH]; simpl; [reflexivity|].
    destruct (N.eqb k k2) eqn:E; simpl.
    - apply N.eqb_eq in E. subst k2. destruct (N.eqb k' k) eqn:E2; [apply N.eqb_eq in E2; congruence | reflexivity].
    - destruct (N.eqb k' k2); [reflexivity | exact IH].
  Qed.

  Lemma keys_chain_update k v (c : chain) : map fst (chain_update V k v c) = map fst c.
  Proof.
    induction c as [|[k2 v2] t IH]; simpl; [reflexivity|].
    destruct (N.eqb k k2) eqn:E; simpl; [apply N.eqb_eq in E; subst; reflexivity | rewrite IH; reflexivity].
  Qed.

  (* lookup on a chain: finds what the association list holds, and the chain
     afterwards (moved to front or not) holds the same associations *)
  Lemma chain_lookup_spec k (c : chain) : NoDup (map fst c) ->
    match chain_lookup V k c with
    | None => lookup k c = None
    | Some (v, c') => lookup k c = Some v /\ NoDup (map fst c') /\ forall k', lookup k' c' = lookup k' c
    end.
  Proof.
    intros Hnd. unfold chain_lookup. pose proof (find_pos_lookup k c 0) as H.
    destruct (find_pos V k c 0) as [[p v]|]; [|exact H]. destruct H as [H _].
    split; [exact H|]. destruct (2 <? p); [|split; [exact Hnd | reflexivity]].
    split.
    - simpl. constructor; [apply remove_first_notin, Hnd | apply NoDup_remove_first, Hnd].
    - intros k'. simpl. destruct (N.eqb k' k) eqn:E.
      + apply N.eqb_eq in E. subst k'. symmetry. exact H.
      + apply N.eqb_neq in E. apply lookup_remove_first_neq. congruence.
  Qed.

  (* ---- finite-map side *)
  Lemma m_lookup_set_key_eq k (v : V) m : lookup k (set_key k v m) = Some v.
  Proof.
    induction m as [|[k' a'] t IH]; simpl; [rewrite N.eqb_refl; reflexivity|].
    destruct (N.eqb k k') eqn:E; simpl; [rewrite N.eqb_refl; reflexivity | rewrite E; exact IH].
  Qed.

  Lemma m_lookup_set_key_neq k k' (v : V) m : k <> k' -> lookup k' (set_key k v m) = lookup k' m.
  Proof.
    intros H. induction m as [|[k2 a2] t IH]; simpl.
    - destruct (N.eqb k' k) eqn:E; [apply N.eqb_eq in E; congruence | reflexivity].
    - destruct (N.eqb k k2) eqn:E; simpl.
      + apply N.eqb_eq in E. subst k2. destruct (N.eqb k' k) eqn:E2; [apply N.eqb_eq in E2; congruence | reflexivity].
      + destruct (N.eqb k' k2); [reflexivity | exact IH].
  Qed.

  Lemma m_keys_set_key k (v : V) m : lookup k m <> None -> map fst (set_key k v m) = map fst m.
  Proof.
    induction m as [|[k2 a2] t IH]; simpl; [congruence|].
    destruct (N.eqb k k2) eqn:E; simpl.
    - apply N.eqb_eq in E. subst. reflexivity.
    - intros H. rewrite IH by exact H. reflexivity.
  Qed.

  Lemma remove_first_remove_key k (m : list (N * V)) : remove_first V k m = remove_key k m.
  Proof. induction m as [|[k2 v2] t IH]; simpl; [reflexivity|]. destruct (N.eqb k k2); [reflexivity | rewrite IH; reflexivity]. Qed.

  (* ---- the simulation *)
  Definition ht_inv (t : table) (m : list (N * V)) : Prop :=
    (forall k, lookup k (bucket V t (hash k)) = lookup k m) /\
    (forall b, NoDup (map fst (bucket V t b))) /\ NoDup (map fst m).

  Lemma t_lookup_spec k t m : ht_inv t m ->
    fst (t_lookup V hash k t) = lookup k m /\ ht_inv (snd (t_lookup V hash k t)) m.
  Proof.
    intros (H1 & H2 & H3). unfold t_lookup.
    pose proof (chain_lookup_spec k (bucket V t (hash k)) (H2 _)) as Hc.
    destruct (chain_lookup V k (bucket V t (hash k))) as [[v c']|].
    - destruct Hc as (Hv & Hnd & Hsame). simpl. split; [rewrite <- H1; symmetry; exact Hv|].
      split; [|split; [|exact H3]].
      + intros k'. destruct (Nat.eq_dec (hash k) (hash k')) as [E|E].
        * rewrite <- E, bucket_set_eq, Hsame, E. apply H1.
        * rewrite bucket_set_neq by exact E. apply H1.
      + intros b. destruct (Nat.eq_dec (hash k) b) as [<-|E]; [rewrite bucket_set_eq; exact Hnd | rewrite bucket_set_neq by exact E; apply H2].
    - simpl. split; [rewrite <- H1; symmetry; exact Hc | repeat split; auto].
  Qed.

  Lemma step_sim o t m : ht_inv t m ->
    fst (chain_step V hash o t) = fst (map_step V o m) /\
    ht_inv (snd (chain_step V hash o t)) (snd (map_step V o m)).
  Proof.
    intros HI. destruct o as [k|k v|k v|k]; cbn [chain_step map_step].
    - (* lookup *)
      destruct (t_lookup_spec k t m HI) as [R I']. split; [exact R | exact I'].
    - (* alloc *)
      destruct (t_lookup_spec k t m HI) as [R I'].
      destruct (t_lookup V hash k t) as [r t']. cbn [fst snd] in R, I'. subst r.
      destruct (lookup k m) as [v0|] eqn:L; cbn [fst snd]; [split; [reflexivity | exact I']|].
      split; [reflexivity|]. destruct I' as (H1 & H2 & H3). unfold t_insert.
      split; [|split].
      + intros k'. cbn [lookup]. destruct (Nat.eq_dec (hash k) (hash k')) as [E|E].
        * rewrite <- E, bucket_set_eq. cbn [lookup]. destruct (N.eqb k' k); [reflexivity|]. rewrite E. apply H1.
        * rewrite bucket_set_neq by exact E. destruct (N.eqb k' k) eqn:E2; [apply N.eqb_eq in E2; subst; congruence | apply H1].
      + intros b. destruct (Nat.eq_dec (hash k) b) as [<-|E]; [|rewrite bucket_set_neq by exact E; apply H2].
        rewrite bucket_set_eq. cbn [map fst]. constructor; [|apply H2].
        apply lookup_none_notin. rewrite H1. exact L.
      + cbn [map fst]. constructor; [apply lookup_none_notin, L | exact H3].
    - (* assign in place *)
      destruct (t_lookup_spec k t m HI) as [R I'].
      destruct (t_lookup V hash k t) as [r t']. cbn [fst snd] in R, I'. subst r.
      destruct (lookup k m) as [v0|] eqn:L; cbn [fst snd]; [|split; [reflexivity | exact I']].
      split; [reflexivity|]. destruct I' as (H1 & H2 & H3).
      assert (Lc : lookup k (bucket V t' (hash k)) <> None) by (rewrite H1, L; discriminate).
      split; [|split].
      + intros k'. destruct (Nat.eq_dec (hash k) (hash k')) as [E|E].
        * rewrite <- E, bucket_set_eq. destruct (N.eq_dec k k') as [<-|Ek].
          -- rewrite lookup_chain_update_eq by exact Lc. symmetry. apply m_lookup_set_key_eq.
          -- rewrite lookup_chain_update_neq, m_lookup_set_key_neq by exact Ek. rewrite E. apply H1.
        * rewrite bucket_set_neq by exact E. rewrite m_lookup_set_key_neq by (intros ->; congruence). apply H1.
      + intros b. destruct (Nat.eq_dec (hash k) b) as [<-|E]; [|rewrite bucket_set_neq by exact E; apply H2].
        rewrite bucket_set_eq, keys_chain_update. apply H2.
      + rewrite m_keys_set_key by (rewrite L; discriminate). exact H3.
    - (* gc *)
      destruct HI as (H1 & H2 & H3). unfold t_remove.
      pose proof (find_pos_lookup k (bucket V t (hash k)) 0) as Hf.
      destruct (find_pos V k (bucket V t (hash k)) 0) as [[p v]|]; cbn [fst snd].
      + destruct Hf as [Hf _]. split; [rewrite <- H1; symmetry; exact Hf|].
        split; [|split].
        * intros k'. destruct (Nat.eq_dec (hash k) (hash k')) as [E|E].
          -- rewrite <- E, bucket_set_eq. destruct (N.eq_dec k k') as [<-|Ek].
             ++ rewrite (notin_lookup_none k _ (remove_first_notin k _ (H2 _))).
                symmetry. apply notin_lookup_none. rewrite <- remove_first_remove_key. apply remove_first_notin, H3.
             ++ rewrite lookup_remove_first_neq by exact Ek. rewrite <- remove_first_remove_key, lookup_remove_first_neq by exact Ek.
                rewrite E. apply H1.
          -- rewrite bucket_set_neq by exact E. rewrite <- remove_first_remove_key, lookup_remove_first_neq by (intros ->; congruence). apply H1.
        * intros b. destruct (Nat.eq_dec (hash k) b) as [<-|E]; [|rewrite bucket_set_neq by exact E; apply H2].
          rewrite bucket_set_eq. apply NoDup_remove_first, H2.
        * rewrite <- remove_first_remove_key. apply NoDup_remove_first, H3.
      + split; [rewrite <- H1; symmetry; exact Hf|].
        assert (Hm : remove_key k m = m).
        { rewrite H1 in Hf. clear -Hf. induction m as [|[k2 v2] t0 IH]; [reflexivity|]. simpl in *.
          destruct (N.eqb k k2); [discriminate|]. rewrite IH by exact Hf. reflexivity. }
        rewrite Hm. repeat split; auto.
  Qed.

  Theorem ht_refines : forall ops t m, ht_inv t m ->
    fst (chain_run V hash ops t) = fst (map_run V ops m) /\
    ht_inv (snd (chain_run V hash ops t)) (snd (map_run V ops m)).
  Proof.
    induction ops as [|o rest IH]; intros t m HI; [split; [reflexivity | exact HI]|].
    cbn [chain_run map_run]. destruct (step_sim o t m HI) as [R I'].
    destruct (chain_step V hash o t) as [r t1]. destruct (map_step V o m) as [r' m1]. cbn [fst snd] in R, I'. subst r'.
    destruct (IH t1 m1 I') as [R2 I2].
    destruct (chain_run V hash rest t1) as [rs t2]. destruct (map_run V rest m1) as [rs' m2]. cbn [fst snd] in *.
    split; [rewrite R2; reflexivity | exact I2].
  Qed.

  Lemma ht_inv_empty : ht_inv [] [].
  Proof. split; [intros k; reflexivity|]. split; [intros b; unfold bucket; simpl; constructor | constructor]. Qed.
End P.

(* For every hash function and every operation sequence, starting from the
   empty table: the chained table answers every operation exactly as the finite
   map does, and afterwards holds exactly the same associations. *)
Theorem hashtab_refines_map (V : Type) (hash : N -> nat) (ops : list (hop V)) :
  fst (chain_run V hash ops []) = fst (map_run V ops []) /\
  forall k, lookup k (bucket V (snd (chain_run V hash ops [])) (hash k)) = lookup k (snd (map_run V ops [])).
Proof.
  destruct (ht_refines V hash ops [] [] (ht_inv_empty V hash)) as [R (H1 & _)]. split; [exact R | exact H1].
Qed.
