(* FoldClassProof.v — soundness of the executable classifier Fold.fold_ok_class
   (C12): on every (operator, type, operand values) it accepts, for EVERY width
   and value, the folder answers and the folded constant is what the circuit
   computes.  Second proof file of the C12 model (Lang/Fold.v); builds on
   Lang/FoldProof.v. *)
From Coq Require Import ZArith Znumtheory List Bool Lia Btauto.
From Mpc Require Import Lang.Fold Lang.FoldProof.
Import ListNotations.
Open Scope Z_scope.

(* ------------------------------------------------------------------ *)
(* bit lengths and containers                                           *)
Lemma bl_unique v j : 1 <= j -> 2 ^ (j - 1) <= v < 2 ^ j -> bl v = j.
Proof.
  intros Hj Hv. unfold bl.
  assert (0 < 2 ^ (j - 1)) by (apply pow2_pos; lia).
  assert (Z.log2 v = j - 1) by (apply Z.log2_unique; [lia|]; replace (Z.succ (j - 1)) with j by lia; lia).
  lia.
Qed.

Lemma contb_cases mb : 1 <= mb ->
  (mb <= 32 /\ contb mb = 32) \/ (32 < mb <= 64 /\ contb mb = 64) \/ (64 < mb /\ contb mb = mb).
Proof.
  intros H. unfold contb.
  destruct (64 <? mb) eqn:E1; [apply Z.ltb_lt in E1; lia|apply Z.ltb_ge in E1].
  destruct (32 <? mb) eqn:E2; [apply Z.ltb_lt in E2|apply Z.ltb_ge in E2]; lia.
Qed.

Lemma bitlen_abs_spec a : 0 < a -> 1 <= bitlen_abs a /\ 2 ^ (bitlen_abs a - 1) <= a < 2 ^ bitlen_abs a.
Proof.
  intros H. unfold bitlen_abs. destruct (a =? 0) eqn:E; [apply Z.eqb_eq in E; lia|].
  rewrite Z.abs_eq by lia. pose proof (Z.log2_spec a H) as [H1 H2]. pose proof (Z.log2_nonneg a).
  replace (Z.log2 a + 1 - 1) with (Z.log2 a) by lia.
  replace (Z.succ (Z.log2 a)) with (Z.log2 a + 1) in H2 by lia. lia.
Qed.

(* blen: bit length of a literal; the value fits *)
Lemma blen_spec a : 0 <= a -> 1 <= blen a /\ a < 2 ^ blen a /\ (forall j, 1 <= j -> a < 2 ^ j -> blen a <= j).
Proof.
  intros Ha. unfold blen. destruct (a <? 2 ^ 64) eqn:E; [apply Z.ltb_lt in E|apply Z.ltb_ge in E].
  - fold (bl a). destruct (bl_bounds a 64 ltac:(lia) ltac:(lia)) as [H1 H2].
    split; [lia|]. split; [assumption|]. intros j Hj Hlt.
    destruct (bl_bounds a j ltac:(lia) Hj). lia.
  - destruct (bitlen_abs_spec a ltac:(lia)) as [H1 [H2 H3]].
    split; [lia|]. split; [assumption|]. intros j Hj Hlt.
    destruct (Z_lt_le_dec j (bitlen_abs a)) as [Hc|Hc]; [|lia].
    pose proof (pow2_le j (bitlen_abs a - 1) ltac:(lia)). lia.
Qed.

Lemma cont_spec a : 0 <= a ->
  blen a <= cont a /\ a < 2 ^ cont a /\ 32 <= cont a /\
  (a < 2 ^ 64 -> cont a = 32 \/ cont a = 64) /\
  (forall n, 64 < n -> a < 2 ^ n -> cont a <= n).
Proof.
  intros Ha. destruct (blen_spec a Ha) as [H1 [H2 H3]]. unfold cont.
  destruct (contb_cases (blen a) H1) as [[Hc ->]|[[Hc ->]|[Hc ->]]].
  - repeat split; try lia. pose proof (pow2_le (blen a) 32 ltac:(lia)). lia.
  - repeat split; try lia. pose proof (pow2_le (blen a) 64 ltac:(lia)). lia.
  - repeat split; try lia.
    + intros Hlt. specialize (H3 64 ltac:(lia) Hlt). lia.
    + intros n Hn Hlt. apply H3; lia.
Qed.

(* ------------------------------------------------------------------ *)
(* BasicLit.Eval / cast: the exact constant of a literal a >= 0          *)
Lemma literal_repr a : 0 <= a ->
  literal a = Ok (CI (mkT KInt (cont a) (blen a)) (mkM (cont a) a)).
Proof.
  intros Ha. unfold literal, setBig.
  destruct (cont_spec a Ha) as [Hc1 [Hc2 [Hc3 _]]].
  destruct ((- 2 ^ 63 <=? a) && (a <? 2 ^ 63)) eqn:E.
  - apply andb_true_iff in E. destruct E as [_ E]. apply Z.ltb_lt in E.
    unfold setSmall. simpl (64 <? 64). cbn iota.
    assert (Hm : wrap_s64 (u64 a mod 2 ^ 64) = a).
    { unfold u64. rewrite Zmod_mod, Z.mod_small by lia. apply wrap_id; lia. }
    rewrite Hm. simpl bind. unfold constant.
    assert (Hs : isSmall (mkM 64 a) = true) by reflexivity.
    rewrite (BitLen_small _ Hs). unfold small; simpl mval.
    assert (Hu : u64 (wrap_s64 a) = a) by (rewrite u64_wrap; unfold u64; apply Z.mod_small; lia).
    rewrite Hu.
    assert (Hb : blen a = bl a) by (unfold blen, bl; destruct (a <? 2 ^ 64) eqn:E2; [reflexivity|apply Z.ltb_ge in E2; lia]).
    unfold cont. rewrite Hb. fold (contb (bl a)). simpl tbits. simpl tk.
    rewrite Z.max_r by (unfold cont in Hc3; rewrite Hb in Hc3; lia). reflexivity.
  - assert (Hb : 2 ^ 63 <= a).
    { apply andb_false_iff in E. destruct E as [E|E]; [apply Z.leb_gt in E|apply Z.ltb_ge in E]; lia. }
    destruct (bitlen_abs_spec a ltac:(lia)) as [B1 [B2 B3]].
    assert (B64 : 64 <= bitlen_abs a).
    { destruct (Z_lt_le_dec (bitlen_abs a) 64) as [Hc|Hc]; [|lia].
      pose proof (pow2_le (bitlen_abs a) 63 ltac:(lia)). lia. }
    assert (Hpos : (0 <? a) = true) by (apply Z.ltb_lt; lia). rewrite Hpos.
    simpl bind. unfold constant.
    assert (Hns : isSmall (mkM (bitlen_abs a + 1) a) = false) by (unfold isSmall; simpl; apply Z.leb_gt; lia).
    assert (HBL : BitLen (mkM (bitlen_abs a + 1) a) = bitlen_abs a) by (unfold BitLen; rewrite Hns; reflexivity).
    rewrite HBL.
    assert (Hb2 : blen a = bitlen_abs a).
    { unfold blen. destruct (a <? 2 ^ 64) eqn:E2; [apply Z.ltb_lt in E2|reflexivity].
      fold (bl a). apply bl_unique; [lia|].
      assert (bitlen_abs a = 64).
      { destruct (Z_lt_le_dec 64 (bitlen_abs a)) as [Hc|Hc]; [|lia].
        pose proof (pow2_le 64 (bitlen_abs a - 1) ltac:(lia)). lia. }
      lia. }
    unfold cont. rewrite Hb2. fold (contb (bitlen_abs a)). simpl tbits. simpl tk. simpl mval.
    rewrite Z.max_r by (unfold cont in Hc3; rewrite Hb2 in Hc3; lia). reflexivity.
Qed.

Definition tminc (n a : Z) : Z := if n <? blen a then n else blen a.

Lemma operand_repr k n a : 0 <= a ->
  operand k n a = Ok (CI (mkT k n (tminc n a)) (mkM (cont a) a)).
Proof. intros Ha. unfold operand. rewrite (literal_repr a Ha). reflexivity. Qed.

(* ------------------------------------------------------------------ *)
(* a constant whose container is at most 64 bits wide and holds V        *)
Lemma cw_small k W mn cb s V :
  cb <= 64 -> u64 s = V -> - 2 ^ 63 <= s < 2 ^ 63 -> bl V <= W ->
  const_wires (CI (mkT k W mn) (mkM cb s)) = V /\ BitLen (mkM cb s) = bl V.
Proof.
  intros Hcb Hu Hs HW.
  assert (Hsm : isSmall (mkM cb s) = true) by (apply Z.leb_le; simpl; lia).
  assert (Hsmall : small (mkM cb s) = s) by (unfold small; simpl; apply wrap_id; lia).
  assert (HBL : BitLen (mkM cb s) = bl V) by (rewrite (BitLen_small _ Hsm), Hsmall, Hu; reflexivity).
  split; [|assumption].
  unfold const_wires. rewrite Hsm, HBL, Hsmall. simpl tbits.
  pose proof (u64_range s) as Hr. rewrite Hu in Hr.
  destruct (bl_bounds V 64 Hr ltac:(lia)) as [Hb1 Hb2].
  rewrite Z.min_r by lia.
  rewrite <- (mod_mod_pow2 s (bl V) 64) by lia. fold (u64 s). rewrite Hu.
  apply Z.mod_small; lia.
Qed.

(* setSmall to M bits followed by Generator.Constant with a declared type of N
   bits, when the masked value fits the declared type *)
Lemma setSmall_constant k N mn M x :
  1 <= N <= 64 -> 1 <= M <= 64 -> x mod 2 ^ M < 2 ^ N ->
  exists v, setSmall M x = Ok v /\
    constant v (mkT k N mn) =
      CI (mkT k (Z.max N (contb (bl (x mod 2 ^ M)))) (bl (x mod 2 ^ M)))
         (mkM (contb (bl (x mod 2 ^ M))) (wrap_s64 (x mod 2 ^ M))).
Proof.
  intros HN HM Hfit. unfold setSmall.
  destruct (64 <? M) eqn:E; [apply Z.ltb_lt in E; lia|].
  eexists; split; [reflexivity|].
  set (V := x mod 2 ^ M) in *.
  assert (HV : 0 <= V < 2 ^ M) by (apply Z.mod_pos_bound, pow2_pos; lia).
  assert (Hu : (u64 x) mod 2 ^ M = V) by (unfold u64; apply mod_mod_pow2; lia).
  rewrite Hu.
  assert (HV64 : 0 <= V < 2 ^ 64) by (pose proof (pow2_le M 64 ltac:(lia)); lia).
  unfold constant.
  assert (Hsm : isSmall (mkM M (wrap_s64 V)) = true) by (apply Z.leb_le; simpl; lia).
  rewrite (BitLen_small _ Hsm). unfold small; simpl mval.
  rewrite !u64_wrap. unfold u64. rewrite (Z.mod_small V) by lia.
  fold (bl V). fold (contb (bl V)). reflexivity.
Qed.

Lemma small_result_facts k N V :
  1 <= N <= 64 -> 0 <= V < 2 ^ N ->
  let c := CI (mkT k (Z.max N (contb (bl V))) (bl V)) (mkM (contb (bl V)) (wrap_s64 V)) in
  const_wires c = V /\ tk (ctype c) = k /\ tmin (ctype c) <= N /\ N <= tbits (ctype c) <= 64 /\
  (N = 32 -> tbits (ctype c) = 32) /\ smallc c.
Proof.
  intros HN HV c.
  assert (HV64 : 0 <= V < 2 ^ 64) by (pose proof (pow2_le N 64 ltac:(lia)); lia).
  destruct (bl_bounds V N HV ltac:(lia)) as [Hb1 Hb2].
  destruct (contb_cases (bl V) ltac:(lia)) as [[Hc Hcb]|[[Hc Hcb]|[Hc Hcb]]]; try lia;
    pose proof (wrap_range V) as Hw;
    assert (Hu : u64 (wrap_s64 V) = V) by (rewrite u64_wrap; unfold u64; apply Z.mod_small; lia);
    destruct (cw_small k (Z.max N (contb (bl V))) (bl V) (contb (bl V)) (wrap_s64 V) V
                ltac:(lia) Hu Hw ltac:(lia)) as [Hcw _];
    unfold c; simpl ctype; simpl tk; simpl tmin; simpl tbits; simpl smallc;
    (split; [exact Hcw|]); repeat split; try lia.
Qed.

(* ------------------------------------------------------------------ *)
(* typed operands: T(a) and -T(x)                                        *)
Definition rep_val (n a : Z) : Z :=
  if 0 <=? a then a else if n <=? 64 then wrap_s64 (2 ^ n + a) else 2 ^ n + a.

Lemma neg_operand_small n x : (n = 32 \/ n = 64) -> 0 < x <= 2 ^ (n - 1) ->
  neg_operand n x = Ok (CI (mkT KInt n n) (mkM n (wrap_s64 (2 ^ n - x)))).
Proof.
  intros Hn Hx. unfold neg_operand. rewrite (operand_repr KInt n x ltac:(lia)). simpl bind.
  unfold unaryMinus. simpl tbits. unfold mSub.
  assert (Hs : isSmall (mkM n 0) = true) by (apply Z.leb_le; simpl; lia). rewrite Hs. simpl mbits.
  assert (Hp : 2 ^ (n - 1) <= 2 ^ 63) by (apply pow2_le; lia).
  assert (Hpn : 2 ^ n = 2 * 2 ^ (n - 1)) by (rewrite <- Z.pow_succ_r by lia; f_equal; lia).
  assert (HV : (wrap_s64 (small (mkM n 0) - small (mkM (cont x) x))) mod 2 ^ n = 2 ^ n - x).
  { rewrite wrap_mod by lia. unfold small; simpl mval.
    rewrite (wrap_id 0) by lia.
    destruct (Z.eq_dec x (2 ^ 63)) as [->|Hne].
    - assert (n = 64) by (destruct Hn as [->| ->]; [replace (32 - 1) with 31 in Hx by lia; lia|reflexivity]). subst n.
      vm_compute. reflexivity.
    - rewrite (wrap_id x) by lia.
      symmetry. apply Z.mod_unique with (q := -1); lia. }
  destruct (setSmall_constant KInt n (tminc n x) n
              (wrap_s64 (small (mkM n 0) - small (mkM (cont x) x))) ltac:(lia) ltac:(lia))
    as [v [-> Hc]].
  { rewrite HV. lia. }
  simpl bind. rewrite Hc, HV.
  assert (Hbl : bl (2 ^ n - x) = n) by (apply bl_unique; lia).
  rewrite Hbl.
  assert (Hcb : contb n = n) by (destruct Hn; subst; reflexivity).
  rewrite Hcb, Z.max_id. reflexivity.
Qed.

Lemma neg_operand_big n x : 64 < n -> 0 < x <= 2 ^ (n - 1) ->
  neg_operand n x = Ok (CI (mkT KInt n n) (mkM n (2 ^ n - x))).
Proof.
  intros Hn Hx. unfold neg_operand. rewrite (operand_repr KInt n x ltac:(lia)). simpl bind.
  unfold unaryMinus. simpl tbits. unfold mSub.
  assert (Hs : isSmall (mkM n 0) = false) by (apply Z.leb_gt; simpl; lia). rewrite Hs.
  assert (Hpn : 2 ^ n = 2 * 2 ^ (n - 1)) by (rewrite <- Z.pow_succ_r by lia; f_equal; lia).
  assert (Hp0 : 0 < 2 ^ (n - 1)) by (apply pow2_pos; lia).
  destruct (cont_spec x ltac:(lia)) as [_ [Hc2 [Hc3 [_ Hc5]]]].
  specialize (Hc5 n Hn ltac:(lia)).
  unfold bigAddSub. simpl mbits.
  rewrite (Z.max_l n (cont x)) by lia. rewrite Z.max_id.
  assert (E : (n + 1 <? n) = false) by (apply Z.ltb_ge; lia). rewrite E.
  unfold inval, big; simpl mval; simpl mbits.
  rewrite Z.mod_0_l by lia. rewrite (Z.mod_small x) by lia.
  assert (HV : (0 - x) mod 2 ^ n = 2 ^ n - x) by (symmetry; apply Z.mod_unique with (q := -1); lia).
  rewrite HV. simpl bind. unfold constant.
  assert (Hns : isSmall (mkM n (2 ^ n - x)) = false) by (apply Z.leb_gt; simpl; lia).
  assert (Hbl : bitlen_abs (2 ^ n - x) = n).
  { destruct (bitlen_abs_spec (2 ^ n - x) ltac:(lia)) as [B1 [B2 B3]].
    destruct (Z_lt_le_dec (bitlen_abs (2 ^ n - x)) n) as [Hc|Hc].
    - pose proof (pow2_le (bitlen_abs (2 ^ n - x)) (n - 1) ltac:(lia)). lia.
    - destruct (Z_lt_le_dec n (bitlen_abs (2 ^ n - x))) as [Hd|Hd]; [|lia].
      pose proof (pow2_le n (bitlen_abs (2 ^ n - x) - 1) ltac:(lia)). lia. }
  unfold BitLen. rewrite Hns. unfold big; simpl mval. rewrite Hbl.
  assert (E2 : (64 <? n) = true) by (apply Z.ltb_lt; lia). rewrite E2.
  simpl. rewrite Z.max_id. reflexivity.
Qed.

(* ------------------------------------------------------------------ *)
(* the canonical typed operand and the facts the folder relies on        *)
Definition tmv (n a : Z) : Z := if 0 <=? a then tminc n a else n.
Definition rep (n a : Z) : mint := mkM (contv n a) (rep_val n a).

Lemma reprb_spec k n a : reprb k n a = true -> k <> KBool -> 0 < n ->
  (k = KUint /\ 0 <= a < 2 ^ n) \/ (k = KInt /\ - 2 ^ (n - 1) <= a < 2 ^ (n - 1)).
Proof.
  intros H Hk Hn. destruct k; simpl in H; try congruence;
    apply andb_true_iff in H; destruct H as [H1 H2];
    apply Z.leb_le in H1; apply Z.ltb_lt in H2; [right|left]; split; (reflexivity || lia).
Qed.

Lemma pow2_half n : 0 < n -> 2 ^ n = 2 * 2 ^ (n - 1).
Proof. intros; rewrite <- Z.pow_succ_r by lia; f_equal; lia. Qed.

Lemma typed_repr k n a : k <> KBool -> 0 < n -> reprb k n a = true -> canon n a = true ->
  typed k n a = Ok (CI (mkT k n (tmv n a)) (rep n a)).
Proof.
  intros Hk Hn Hr Hc. unfold typed, tmv, rep, contv, rep_val.
  destruct (0 <=? a) eqn:E.
  - apply Z.leb_le in E. assert (E2 : (a <? 0) = false) by (apply Z.ltb_ge; lia). rewrite E2.
    apply operand_repr; assumption.
  - apply Z.leb_gt in E. assert (E2 : (a <? 0) = true) by (apply Z.ltb_lt; lia). rewrite E2.
    destruct (reprb_spec k n a Hr Hk Hn) as [[-> Hb]|[-> Hb]]; [lia|].
    unfold canon in Hc. assert (E3 : (0 <=? a) = false) by (apply Z.leb_gt; lia). rewrite E3 in Hc. simpl in Hc.
    destruct (n <=? 64) eqn:E4; [apply Z.leb_le in E4|apply Z.leb_gt in E4].
    + assert (Hn2 : n = 32 \/ n = 64).
      { apply orb_true_iff in Hc. destruct Hc as [Hc|Hc]; [|apply Z.ltb_lt in Hc; lia].
        apply orb_true_iff in Hc. destruct Hc as [Hc|Hc]; apply Z.eqb_eq in Hc; lia. }
      rewrite (neg_operand_small n (- a) Hn2 ltac:(lia)). replace (2 ^ n - - a) with (2 ^ n + a) by lia. reflexivity.
    + rewrite (neg_operand_big n (- a) ltac:(lia) ltac:(lia)). replace (2 ^ n - - a) with (2 ^ n + a) by lia. reflexivity.
Qed.

Lemma neg_canon_small n a : canon n a = true -> a < 0 -> n <= 64 -> n = 32 \/ n = 64.
Proof.
  intros Hc Ha Hn. unfold canon in Hc.
  assert (E3 : (0 <=? a) = false) by (apply Z.leb_gt; lia). rewrite E3 in Hc. simpl in Hc.
  apply orb_true_iff in Hc. destruct Hc as [Hc|Hc]; [|apply Z.ltb_lt in Hc; lia].
  apply orb_true_iff in Hc. destruct Hc as [Hc|Hc]; apply Z.eqb_eq in Hc; lia.
Qed.

Lemma rep_small k n a : k <> KBool -> 0 < n <= 64 -> reprb k n a = true -> canon n a = true ->
  mbits (rep n a) <= 64 /\ (small (rep n a)) mod 2 ^ n = a mod 2 ^ n.
Proof.
  intros Hk Hn Hr Hc. unfold rep, contv, rep_val, small. simpl mbits. simpl mval.
  pose proof (pow2_le n 64 ltac:(lia)) as Hp.
  destruct (reprb_spec k n a Hr Hk ltac:(lia)) as [[-> Hb]|[-> Hb]].
  - assert (E : (a <? 0) = false) by (apply Z.ltb_ge; lia).
    assert (E' : (0 <=? a) = true) by (apply Z.leb_le; lia). rewrite E, E'.
    destruct (cont_spec a ltac:(lia)) as [_ [_ [_ [H64 _]]]]. specialize (H64 ltac:(lia)).
    split; [lia|]. apply wrap_mod; lia.
  - pose proof (pow2_half n ltac:(lia)) as Hh. assert (0 < 2 ^ (n - 1)) by (apply pow2_pos; lia).
    destruct (a <? 0) eqn:E; [apply Z.ltb_lt in E|apply Z.ltb_ge in E].
    + assert (E' : (0 <=? a) = false) by (apply Z.leb_gt; lia). rewrite E'.
      assert (E4 : (n <=? 64) = true) by (apply Z.leb_le; lia). rewrite E4.
      split; [lia|]. rewrite !wrap_mod by lia.
      rewrite Z.add_comm. replace (a + 2 ^ n) with (a + 1 * 2 ^ n) by lia. apply Z_mod_plus_full.
    + assert (E' : (0 <=? a) = true) by (apply Z.leb_le; lia). rewrite E'.
      destruct (cont_spec a ltac:(lia)) as [_ [_ [_ [H64 _]]]]. specialize (H64 ltac:(lia)).
      split; [lia|]. apply wrap_mod; lia.
Qed.

Lemma rep_big k n a : k <> KBool -> 64 < n -> reprb k n a = true -> canon n a = true ->
  32 <= mbits (rep n a) <= n /\ big (rep n a) = a mod 2 ^ n /\
  0 <= a mod 2 ^ n < 2 ^ mbits (rep n a) /\ inval (rep n a) = a mod 2 ^ n.
Proof.
  intros Hk Hn Hr Hc. unfold inval, rep, contv, rep_val, big. simpl mbits. simpl mval.
  pose proof (pow2_half n ltac:(lia)) as Hh. assert (0 < 2 ^ (n - 1)) by (apply pow2_pos; lia).
  assert (Hcase : (0 <= a < 2 ^ n) \/ (- 2 ^ (n - 1) <= a < 0)).
  { destruct (reprb_spec k n a Hr Hk ltac:(lia)) as [[-> Hb]|[-> Hb]]; lia. }
  destruct Hcase as [Hb|Hb].
  - assert (E : (a <? 0) = false) by (apply Z.ltb_ge; lia).
    assert (E' : (0 <=? a) = true) by (apply Z.leb_le; lia). rewrite E, E'.
    destruct (cont_spec a ltac:(lia)) as [_ [Hc2 [Hc3 [_ Hc5]]]]. specialize (Hc5 n Hn ltac:(lia)).
    rewrite (Z.mod_small a (2 ^ n)) by lia. rewrite (Z.mod_small a) by lia. lia.
  - assert (E : (a <? 0) = true) by (apply Z.ltb_lt; lia).
    assert (E' : (0 <=? a) = false) by (apply Z.leb_gt; lia). rewrite E, E'.
    assert (E4 : (n <=? 64) = false) by (apply Z.leb_gt; lia). rewrite E4.
    assert (Hm : a mod 2 ^ n = 2 ^ n + a) by (symmetry; apply Z.mod_unique with (q := -1); lia).
    rewrite Hm. rewrite (Z.mod_small (2 ^ n + a)) by lia. lia.
Qed.

Lemma rep_mval n a : 0 <= a -> mval (rep n a) = a.
Proof.
  intros Ha. unfold rep, rep_val. simpl. assert (E' : (0 <=? a) = true) by (apply Z.leb_le; lia).
  rewrite E'. reflexivity.
Qed.

(* Z.land with a single bit *)
Lemma land_pow2 v j : 0 <= j -> Z.land v (2 ^ j) = if Z.testbit v j then 2 ^ j else 0.
Proof.
  intros Hj. apply Z.bits_inj'; intros i Hi.
  rewrite Z.land_spec, Z.pow2_bits_eqb by lia.
  destruct (Z.eqb_spec j i) as [->|Hne].
  - destruct (Z.testbit v i); [rewrite Z.pow2_bits_true by lia; reflexivity|rewrite Z.bits_0; reflexivity].
  - rewrite andb_false_r. destruct (Z.testbit v j); [rewrite Z.pow2_bits_false by lia|rewrite Z.bits_0]; reflexivity.
Qed.

Lemma testbit_top v j : 0 <= j -> 0 <= v < 2 ^ (j + 1) -> Z.testbit v j = (2 ^ j <=? v).
Proof.
  intros Hj Hv. assert (Hp : 0 < 2 ^ j) by (apply pow2_pos; lia).
  assert (Hs : 2 ^ (j + 1) = 2 * 2 ^ j) by (rewrite Z.pow_add_r by lia; lia).
  pose proof (Z.testbit_spec' v j Hj) as Hb.
  destruct (2 ^ j <=? v) eqn:E; [apply Z.leb_le in E|apply Z.leb_gt in E].
  - assert (v / 2 ^ j = 1) by (symmetry; apply Z.div_unique with (r := v - 2 ^ j); lia).
    rewrite H in Hb. destruct (Z.testbit v j); simpl in Hb; [reflexivity|discriminate].
  - rewrite Z.div_small in Hb by lia. destruct (Z.testbit v j); simpl in Hb; [discriminate|reflexivity].
Qed.

(* Int64() reads the operand's value exactly on cmp_exact *)
Lemma rep_int64 k n a : k <> KBool -> 0 < n -> reprb k n a = true -> canon n a = true ->
  cmp_exact n a = true -> isSmall (rep n a) = true /\ Int64 (rep n a) = a.
Proof.
  intros Hk Hn Hr Hc Hx. unfold cmp_exact in Hx.
  assert (Hcases : (a < 0 /\ n <= 64) \/ (0 <= a < 2 ^ 31) \/ (2 ^ 32 <= a < 2 ^ 63)).
  { apply orb_true_iff in Hx. destruct Hx as [Hx|Hx].
    - apply orb_true_iff in Hx. destruct Hx as [Hx|Hx]; apply andb_true_iff in Hx; destruct Hx as [H1 H2].
      + left. apply Z.ltb_lt in H1. apply Z.leb_le in H2. lia.
      + right; left. apply Z.leb_le in H1. apply Z.ltb_lt in H2. lia.
    - right; right. apply andb_true_iff in Hx; destruct Hx as [H1 H2].
      apply Z.leb_le in H1. apply Z.ltb_lt in H2. lia. }
  unfold rep, contv, rep_val, Int64, isSmall. simpl mbits.
  destruct Hcases as [[Ha Hn64]|[Ha|Ha]].
  - assert (E : (a <? 0) = true) by (apply Z.ltb_lt; lia).
    assert (E' : (0 <=? a) = false) by (apply Z.leb_gt; lia). rewrite E, E'.
    assert (E4 : (n <=? 64) = true) by (apply Z.leb_le; lia). rewrite E4.
    split; [reflexivity|]. unfold small; simpl mval.
    assert (Hb : - 2 ^ (n - 1) <= a).
    { destruct (reprb_spec k n a Hr Hk Hn) as [[-> Hb]|[-> Hb]]; lia. }
    destruct (neg_canon_small n a Hc Ha Hn64) as [->| ->].
    + replace (32 - 1) with 31 in * by lia.
      rewrite (wrap_id (2 ^ 32 + a)) by lia. rewrite (wrap_id (2 ^ 32 + a)) by lia.
      simpl (32 =? 64). cbn [orb].
      rewrite land_pow2 by lia. rewrite (testbit_top (2 ^ 32 + a) 31) by lia.
      assert (E5 : (2 ^ 31 <=? 2 ^ 32 + a) = true) by (apply Z.leb_le; lia). rewrite E5.
      simpl (2 ^ 31 =? 0). cbn iota. rewrite wrap_id by lia. lia.
    + simpl (64 =? 64). cbn [orb].
      replace (64 - 1) with 63 in * by lia.
      assert (Hw : wrap_s64 (2 ^ 64 + a) = a).
      { unfold wrap_s64. replace (2 ^ 64 + a + 2 ^ 63) with (a + 2 ^ 63 + 1 * 2 ^ 64) by lia.
        rewrite Z_mod_plus_full. rewrite Z.mod_small by lia. lia. }
      rewrite Hw. apply wrap_id; lia.
  - assert (E : (a <? 0) = false) by (apply Z.ltb_ge; lia).
    assert (E' : (0 <=? a) = true) by (apply Z.leb_le; lia). rewrite E, E'.
    assert (Hct : cont a = 32).
    { destruct (blen_spec a ltac:(lia)) as [B1 [B2 B3]]. specialize (B3 31 ltac:(lia) ltac:(lia)).
      unfold cont. destruct (contb_cases (blen a) B1) as [[? ->]|[[? ?]|[? ?]]]; lia. }
    rewrite Hct. split; [reflexivity|]. unfold small; simpl mval. rewrite wrap_id by lia.
    simpl (32 =? 64). cbn [orb]. replace (32 - 1) with 31 by lia.
    rewrite land_pow2 by lia. rewrite (testbit_top a 31) by lia.
    assert (E5 : (2 ^ 31 <=? a) = false) by (apply Z.leb_gt; lia). rewrite E5. reflexivity.
  - assert (E : (a <? 0) = false) by (apply Z.ltb_ge; lia).
    assert (E' : (0 <=? a) = true) by (apply Z.leb_le; lia). rewrite E, E'.
    assert (Hct : cont a = 64).
    { destruct (blen_spec a ltac:(lia)) as [B1 [B2 B3]]. specialize (B3 64 ltac:(lia) ltac:(lia)).
      assert (32 < blen a).
      { destruct (Z_lt_le_dec 32 (blen a)); [assumption|].
        pose proof (pow2_le (blen a) 32 ltac:(lia)). lia. }
      unfold cont. destruct (contb_cases (blen a) B1) as [[? ?]|[[? ->]|[? ?]]]; lia. }
    rewrite Hct. split; [reflexivity|]. unfold small; simpl mval. rewrite wrap_id by lia.
    reflexivity.
Qed.

(* ------------------------------------------------------------------ *)
(* what "folded right" means                                            *)
(* the folded constant c has kind k, its wires spell v, it is assignable to a
   declared type of n bits, and when n is a container width (32, or >= 64) the
   constant is exactly n bits wide *)
Definition good (c : cval) (k : kind) (n v : Z) : Prop :=
  tk (ctype c) = k /\ const_wires c = v /\ tmin (ctype c) <= n /\
  ((n = 32 \/ 64 <= n) -> tbits (ctype c) = n).

Lemma good_of_small c k N v :
  const_wires c = v -> tk (ctype c) = k -> tmin (ctype c) <= N -> N <= tbits (ctype c) <= 64 ->
  (N = 32 -> tbits (ctype c) = 32) -> good c k N v.
Proof. intros; unfold good; repeat split; try assumption. intros [->|?]; [auto|lia]. Qed.

Lemma good_result_small k N V : 1 <= N <= 64 -> 0 <= V < 2 ^ N ->
  good (CI (mkT k (Z.max N (contb (bl V))) (bl V)) (mkM (contb (bl V)) (wrap_s64 V))) k N V.
Proof.
  intros HN HV. destruct (small_result_facts k N V HN HV) as (H1 & H2 & H3 & H4 & H5 & _).
  apply good_of_small; assumption.
Qed.

Lemma cw_small2 k W mn m V :
  mbits m <= 64 -> u64 (small m) = V -> bl V <= W ->
  const_wires (CI (mkT k W mn) m) = V /\ BitLen m = bl V.
Proof.
  intros Hcb Hu HW.
  assert (Hsm : isSmall m = true) by (apply Z.leb_le; lia).
  assert (HBL : BitLen m = bl V) by (rewrite (BitLen_small _ Hsm), Hu; reflexivity).
  split; [|assumption].
  unfold const_wires. rewrite Hsm, HBL. simpl tbits.
  pose proof (u64_range (small m)) as Hr. rewrite Hu in Hr.
  destruct (bl_bounds V 64 Hr ltac:(lia)) as [Hb1 Hb2].
  rewrite Z.min_r by lia.
  rewrite <- (mod_mod_pow2 (small m) (bl V) 64) by lia. fold (u64 (small m)). rewrite Hu.
  apply Z.mod_small; lia.
Qed.

(* Generator.Constant of a big-path result V (container mb) for a declared
   type of n > 64 bits *)
Lemma good_result_big k n mn mb V :
  64 < n -> 0 <= V < 2 ^ n -> (mb <= 64 -> V < 2 ^ 64) ->
  good (constant (mkM mb V) (mkT k n mn)) k n V.
Proof.
  intros Hn HV Hmb. unfold constant. simpl tk. simpl tbits. simpl mval.
  assert (HL : exists L, BitLen (mkM mb V) = L /\ 0 <= L <= n /\
                 ((L <= 64 /\ V < 2 ^ 64 /\ (L = bl V \/ (V = 0 /\ L = 0))) \/ (64 < L /\ L = bitlen_abs V /\ V < 2 ^ L))).
  { unfold BitLen, isSmall. simpl mbits.
    destruct (mb <=? 64) eqn:E; [apply Z.leb_le in E|apply Z.leb_gt in E].
    - specialize (Hmb E). unfold small; simpl mval.
      rewrite u64_wrap. unfold u64. rewrite Z.mod_small by lia. fold (bl V).
      destruct (bl_bounds V 64 ltac:(lia) ltac:(lia)) as [B1 B2].
      exists (bl V). split; [reflexivity|]. split; [lia|]. left. repeat split; try lia.
    - unfold big; simpl mval. destruct (Z.eq_dec V 0) as [->|Hne].
      + exists 0. split; [reflexivity|]. split; [lia|]. left. split; [lia|]. split; [lia|]. right; split; reflexivity.
      + destruct (bitlen_abs_spec V ltac:(lia)) as [B1 [B2 B3]].
        assert (bitlen_abs V <= n).
        { destruct (Z_lt_le_dec n (bitlen_abs V)) as [Hc|Hc]; [|lia].
          pose proof (pow2_le n (bitlen_abs V - 1) ltac:(lia)). lia. }
        exists (bitlen_abs V). split; [reflexivity|]. split; [lia|].
        destruct (Z_lt_le_dec 64 (bitlen_abs V)) as [Hc|Hc].
        * right. repeat split; try lia.
        * left. pose proof (pow2_le (bitlen_abs V) 64 ltac:(lia)).
          split; [lia|]. split; [lia|]. left. symmetry. apply bl_unique; lia. }
  destruct HL as [L [-> [HLn Hcase]]].
  destruct Hcase as [[HL64 [HV64 HLbl]]|[HL64 [HLb HVL]]].
  - (* new container 32 / 64 *)
    set (cb := if 64 <? L then L else if 32 <? L then 64 else 32).
    assert (Hcbv : cb = 32 \/ cb = 64).
    { unfold cb. destruct (64 <? L) eqn:E1; [apply Z.ltb_lt in E1; lia|]. destruct (32 <? L); lia. }
    assert (Hu : u64 (small (mkM cb V)) = V)
      by (unfold small; simpl mval; rewrite u64_wrap; unfold u64; apply Z.mod_small; lia).
    destruct (bl_bounds V 64 ltac:(lia) ltac:(lia)) as [B1 B2].
    destruct (cw_small2 k (Z.max n cb) L (mkM cb V) V ltac:(simpl; lia) Hu ltac:(lia)) as [Hcw _].
    unfold good. simpl ctype. simpl tk. simpl tmin. simpl tbits.
    repeat split; try assumption; try lia.
  - (* container = bit length > 64 *)
    assert (E1 : (64 <? L) = true) by (apply Z.ltb_lt; lia). rewrite E1.
    unfold good. simpl ctype. simpl tk. simpl tmin. simpl tbits.
    repeat split; try lia.
    unfold const_wires.
    assert (Hns : isSmall (mkM L V) = false) by (apply Z.leb_gt; simpl; lia). rewrite Hns.
    unfold BitLen. rewrite Hns. unfold big; simpl mval. simpl tbits. rewrite <- HLb.
    rewrite Z.min_r by lia. apply Z.mod_small; lia.
Qed.

(* ------------------------------------------------------------------ *)
(* per-operator theorems on the folder's representation                 *)
Lemma mNew_ok N : 0 < N -> mNew N = Ok (mkM N 0).
Proof. intros H. unfold mNew. destruct (N =? 0) eqn:E; [apply Z.eqb_eq in E; lia|reflexivity]. Qed.

Lemma kind_eqb_refl k : kind_eqb k k = true.
Proof. destruct k; reflexivity. Qed.

(* << by a literal count, small path, all values *)
Theorem fold_lsh_small k N ml tr x y A cnt :
  k <> KBool -> tk tr <> KBool -> 1 <= N <= 64 -> (small x) mod 2 ^ N = A ->
  u64 (Int64 y) = cnt -> 0 <= cnt ->
  exists c, evalConst OLsh (CI (mkT k N ml) x) (CI tr y) = Ok c /\
    good c k N (snd (circuit_sem OLsh k N A cnt)).
Proof.
  intros Hk Hkr HN HA Hcnt Hc0. unfold evalConst, resultTypeCC.
  assert (Hil : intlike k && intlike (tk tr) = true) by (destruct k, (tk tr); try congruence; reflexivity).
  simpl. rewrite Hil. simpl. rewrite (mNew_ok N) by lia. simpl. unfold mLsh.
  assert (Hs : isSmall (mkM N 0) = true) by (apply Z.leb_le; simpl; lia). rewrite Hs, Hcnt. simpl mbits.
  set (e := if 64 <=? cnt then 0 else wrap_s64 (small x * 2 ^ cnt)).
  assert (He : e mod 2 ^ N = (A * 2 ^ cnt) mod 2 ^ N).
  { unfold e. destruct (64 <=? cnt) eqn:E; [apply Z.leb_le in E|apply Z.leb_gt in E].
    - rewrite Z.mod_0_l by (pose proof (pow2_pos N ltac:(lia)); lia).
      symmetry. apply Z.mod_divide; [pose proof (pow2_pos N ltac:(lia)); lia|].
      apply Z.divide_mul_r. exists (2 ^ (cnt - N)). rewrite <- Z.pow_add_r by lia. f_equal; lia.
    - rewrite wrap_mod by lia. rewrite <- HA. symmetry.
      rewrite Zmult_mod, Zmod_mod, <- Zmult_mod. reflexivity. }
  assert (HV : 0 <= e mod 2 ^ N < 2 ^ N) by (apply Z.mod_pos_bound, pow2_pos; lia).
  destruct (setSmall_constant k N ml N e HN HN ltac:(lia)) as [v [-> Hc]]. simpl.
  eexists; split; [reflexivity|]. rewrite Hc.
  unfold circuit_sem, instr_sem. simpl snd. rewrite <- He.
  apply good_result_small; assumption.
Qed.

(* + without overflow of the narrower of (container, declared type) *)
Theorem fold_add_nooverflow k N ml mr x y a b :
  1 <= N <= 64 -> 32 <= mbits x <= 64 -> 32 <= mbits y <= 64 ->
  mval x = a -> mval y = b -> 0 <= a < 2 ^ 63 -> 0 <= b < 2 ^ 63 ->
  a + b < 2 ^ (Z.min (Z.max (mbits x) (mbits y)) N) ->
  exists c, evalConst OAdd (CI (mkT k N ml) x) (CI (mkT k N mr) y) = Ok c /\
    good c k N (snd (circuit_sem OAdd k N a b)).
Proof.
  intros HN Hx Hy Ha Hb Har Hbr Hsum. unfold evalConst, resultTypeCC.
  simpl. rewrite kind_eqb_refl. simpl. rewrite (mNew_ok N) by lia. simpl. unfold mAdd.
  assert (Hs : isSmall (mkM N 0) = true) by (apply Z.leb_le; simpl; lia). rewrite Hs.
  set (M := Z.max (mbits x) (mbits y)) in *.
  assert (HM : 32 <= M <= 64) by (unfold M; lia).
  assert (Hsx : small x = a) by (unfold small; rewrite Ha; apply wrap_id; lia).
  assert (Hsy : small y = b) by (unfold small; rewrite Hb; apply wrap_id; lia).
  rewrite Hsx, Hsy.
  assert (HlM : a + b < 2 ^ M) by (pose proof (pow2_le (Z.min M N) M ltac:(lia)); lia).
  assert (HlN : a + b < 2 ^ N) by (pose proof (pow2_le (Z.min M N) N ltac:(lia)); lia).
  assert (HV : (wrap_s64 (a + b)) mod 2 ^ M = a + b) by (rewrite wrap_mod by lia; apply Z.mod_small; lia).
  destruct (setSmall_constant k N ml M (wrap_s64 (a + b)) HN ltac:(lia) ltac:(lia)) as [v [-> Hc]]. simpl.
  eexists; split; [reflexivity|]. rewrite Hc, HV.
  unfold circuit_sem, instr_sem. simpl snd. rewrite (Z.mod_small (a + b)) by lia.
  apply good_result_small; lia.
Qed.

(* representable values are read back from their wires *)
Lemma sg_repr k n a : k <> KBool -> 0 < n -> reprb k n a = true ->
  (match k with KInt => sgn_at n (a mod 2 ^ n) | _ => a mod 2 ^ n end) = a.
Proof.
  intros Hk Hn Hr. pose proof (pow2_half n Hn) as Hh. assert (0 < 2 ^ (n - 1)) by (apply pow2_pos; lia).
  destruct (reprb_spec k n a Hr Hk Hn) as [[-> Hb]|[-> Hb]].
  - apply Z.mod_small; lia.
  - unfold sgn_at. destruct (Z_lt_le_dec a 0) as [Hneg|Hpos].
    + assert (Hm : a mod 2 ^ n = 2 ^ n + a) by (symmetry; apply Z.mod_unique with (q := -1); lia).
      rewrite Hm. assert (E : (2 ^ n + a <? 2 ^ (n - 1)) = false) by (apply Z.ltb_ge; lia). rewrite E. lia.
    + rewrite Z.mod_small by lia. assert (E : (a <? 2 ^ (n - 1)) = true) by (apply Z.ltb_lt; lia).
      rewrite E. reflexivity.
Qed.

(* comparisons: both containers at most 64 bits wide and read exactly by Int64 *)
Theorem fold_cmp_exact op k n tl tr x y a b :
  is_cmp op = true -> k <> KBool -> 0 < n -> reprb k n a = true -> reprb k n b = true ->
  isSmall x = true -> isSmall y = true -> Int64 x = a -> Int64 y = b ->
  exists c, evalConst op (CI tl x) (CI tr y) = Ok c /\
    good c KBool 1 (snd (circuit_sem op k n (a mod 2 ^ n) (b mod 2 ^ n))).
Proof.
  intros Hop Hk Hn Hra Hrb Hsx Hsy Hia Hib.
  pose proof (sg_repr k n a Hk Hn Hra) as Sa. pose proof (sg_repr k n b Hk Hn Hrb) as Sb.
  assert (Hcmp : Cmp x y = cmpZ a b) by (unfold Cmp; rewrite Hsx, Hsy, Hia, Hib; reflexivity).
  assert (Hmx : Z.max n n = n) by lia.
  assert (Heq : (a mod 2 ^ n =? b mod 2 ^ n) = (a =? b)).
  { destruct (Z.eqb_spec a b) as [->|Hne]; [apply Z.eqb_refl|].
    apply Z.eqb_neq. intros Hc. apply Hne. rewrite <- Sa, <- Sb. rewrite Hc. reflexivity. }
  unfold evalConst, resultTypeCC. rewrite Hop. simpl.
  unfold circuit_sem. rewrite Hop. simpl. unfold instr_sem. rewrite Hmx.
  destruct op; try discriminate Hop; simpl; eexists; (split; [reflexivity|]);
    unfold good; simpl; rewrite Hcmp; unfold cmpZ;
    try rewrite Heq;
    rewrite ?Sa, ?Sb;
    (repeat split; try lia);
    destruct (a <? b) eqn:E1; destruct (b <? a) eqn:E2;
    try (apply Z.ltb_lt in E1); try (apply Z.ltb_ge in E1); try (apply Z.ltb_lt in E2); try (apply Z.ltb_ge in E2);
    try lia; simpl;
    repeat match goal with
    | |- context [?p <=? ?q] => destruct (Z.leb_spec p q); try lia
    | |- context [?p =? ?q] => destruct (Z.eqb_spec p q); try lia
    end; try reflexivity; try lia.
Qed.

(* ------------------------------------------------------------------ *)
(* big path (declared width n > 64)                                     *)
Lemma bitop_range (f : Z -> Z -> Z) (g : bool -> bool -> bool) A B n :
  0 <= n -> g false false = false ->
  (forall a b i, 0 <= i -> Z.testbit (f a b) i = g (Z.testbit a i) (Z.testbit b i)) ->
  0 <= A < 2 ^ n -> 0 <= B < 2 ^ n -> 0 <= f A B < 2 ^ n.
Proof.
  intros Hn Hg Hf HA HB.
  assert (He : f A B = (f A B) mod 2 ^ n).
  { apply Z.bits_inj'; intros i Hi. destruct (Z_lt_le_dec i n) as [Hlt|Hge].
    - rewrite Z.mod_pow2_bits_low by lia. reflexivity.
    - rewrite Z.mod_pow2_bits_high by lia. rewrite Hf by lia.
      rewrite <- (Z.mod_small A (2 ^ n)) by lia. rewrite <- (Z.mod_small B (2 ^ n)) by lia.
      rewrite !Z.mod_pow2_bits_high by lia. exact Hg. }
  rewrite He. apply Z.mod_pos_bound, pow2_pos; lia.
Qed.

(* ubig() is big() on every non-negative value *)
Lemma ubig_nonneg x : 0 <= big x -> ubig x = big x.
Proof.
  unfold ubig, big. intros H. assert (E : (mval x <? 0) = false) by (apply Z.ltb_ge; lia).
  rewrite E, andb_false_r. reflexivity.
Qed.

Definition big_binop (op : binop) : bool :=
  match op with OBand | OBor | OBxor | OBclr | OMul | OAdd | OSub => true | _ => false end.

Theorem fold_big_binop op k n ml mr x y A B :
  big_binop op = true -> 64 < n ->
  32 <= mbits x <= n -> 32 <= mbits y <= n ->
  big x = A -> inval x = A -> 0 <= A < 2 ^ n -> big y = B -> inval y = B -> 0 <= B < 2 ^ n ->
  (match op with OAdd | OSub => n - 1 <= Z.max (mbits x) (mbits y) | _ => True end) ->
  exists c, evalConst op (CI (mkT k n ml) x) (CI (mkT k n mr) y) = Ok c /\
    good c k n (snd (circuit_sem op k n A B)).
Proof.
  intros Hop Hn Hx Hy HbA HiA HA HbB HiB HB Hpan.
  assert (HuA : ubig x = A) by (rewrite ubig_nonneg; lia).
  assert (HuB : ubig y = B) by (rewrite ubig_nonneg; lia).
  unfold evalConst, resultTypeCC.
  assert (Hs : isSmall (mkM n 0) = false) by (apply Z.leb_gt; simpl; lia).
  assert (Hmx : Z.max n n = n) by lia.
  assert (Hmin : Z.min n (n + 1) = n) by lia.
  assert (Hp : 0 < 2 ^ n) by (apply pow2_pos; lia).
  assert (Hw : Z.max (Z.max (mbits x) (mbits y)) n = n) by lia.
  destruct op; try discriminate Hop; simpl; rewrite kind_eqb_refl; simpl; rewrite (mNew_ok n) by lia; simpl;
    unfold mAdd, mSub, mMul, mAnd, mOr, mXor, mAndNot, bigAddSub, bigMul; rewrite Hs; simpl mbits;
    rewrite ?Hw, ?HuA, ?HuB, ?HbA, ?HbB, ?HiA, ?HiB;
    try (assert (E : (Z.max (mbits x) (mbits y) + 1 <? n) = false) by (apply Z.ltb_ge; lia); rewrite E);
    simpl; (eexists; split; [reflexivity|]);
    unfold circuit_sem, instr_sem; simpl snd; rewrite ?Hmx, ?Hmin.
  - apply good_result_big; [lia|apply Z.mod_pos_bound; lia|lia].
  - apply good_result_big; [lia|apply Z.mod_pos_bound; lia|lia].
  - apply good_result_big; [lia|apply Z.mod_pos_bound; lia|lia].
  - pose proof (bitop_range Z.land andb A B n ltac:(lia) eq_refl ltac:(intros; apply Z.land_spec) HA HB).
    rewrite Z.mod_small by lia. apply good_result_big; lia.
  - pose proof (bitop_range Z.lor orb A B n ltac:(lia) eq_refl ltac:(intros; apply Z.lor_spec) HA HB).
    rewrite Z.mod_small by lia. apply good_result_big; lia.
  - pose proof (bitop_range Z.lxor xorb A B n ltac:(lia) eq_refl ltac:(intros; apply Z.lxor_spec) HA HB).
    rewrite Z.mod_small by lia. apply good_result_big; lia.
  - pose proof (bitop_range Z.ldiff (fun p q => p && negb q) A B n ltac:(lia) eq_refl ltac:(intros; apply Z.ldiff_spec) HA HB).
    rewrite Z.mod_small by lia. apply good_result_big; lia.
Qed.

(* the clearing loop of the big-path Lsh is "mod 2^w" on non-negative values *)
Lemma lsh_clear_nonneg w v : 0 <= w -> 0 <= v -> lsh_clear w v = v mod 2 ^ w.
Proof.
  intros Hw Hv. unfold lsh_clear, bitlen_abs.
  destruct (v =? 0) eqn:E0.
  - apply Z.eqb_eq in E0. subst v.
    assert (E : (0 <=? w) = true) by (apply Z.leb_le; lia). rewrite E.
    rewrite Z.mod_0_l; [reflexivity|]. pose proof (pow2_pos w Hw). lia.
  - apply Z.eqb_neq in E0. assert (Hpos : 0 < v) by lia.
    rewrite Z.abs_eq by lia.
    pose proof (Z.log2_spec v Hpos) as [_ Hlt]. pose proof (Z.log2_nonneg v) as Hl0.
    replace (Z.succ (Z.log2 v)) with (Z.log2 v + 1) in Hlt by lia.
    destruct (Z.log2 v + 1 <=? w) eqn:E; [apply Z.leb_le in E|apply Z.leb_gt in E].
    + symmetry. apply Z.mod_small. pose proof (pow2_le (Z.log2 v + 1) w ltac:(lia)). lia.
    + rewrite (Z.mod_small v (2 ^ (Z.log2 v + 1))) by lia. lia.
Qed.

Theorem fold_big_lsh k n ml tr x y A cnt :
  k <> KBool -> tk tr <> KBool -> 64 < n -> big x = A -> 0 <= A -> u64 (Int64 y) = cnt -> 0 <= cnt ->
  exists c, evalConst OLsh (CI (mkT k n ml) x) (CI tr y) = Ok c /\
    good c k n (snd (circuit_sem OLsh k n A cnt)).
Proof.
  intros Hk Hkr Hn HbA HA0 Hcnt Hc0.
  assert (HuA : ubig x = A) by (rewrite ubig_nonneg; lia).
  unfold evalConst, resultTypeCC.
  assert (Hil : intlike k && intlike (tk tr) = true) by (destruct k, (tk tr); try congruence; reflexivity).
  assert (Hs : isSmall (mkM n 0) = false) by (apply Z.leb_gt; simpl; lia).
  assert (Hp : 0 < 2 ^ n) by (apply pow2_pos; lia).
  assert (Hpc : 0 < 2 ^ cnt) by (apply pow2_pos; lia).
  simpl. rewrite Hil. simpl. rewrite (mNew_ok n) by lia. simpl. unfold mLsh. rewrite Hs, Hcnt, HuA. simpl mbits.
  rewrite lsh_clear_nonneg by nia. simpl.
  eexists; split; [reflexivity|]. unfold circuit_sem, instr_sem. simpl snd.
  apply good_result_big; [lia|apply Z.mod_pos_bound; lia|lia].
Qed.

Theorem fold_big_rsh k n ml tr x y A cnt :
  k <> KBool -> tk tr <> KBool -> 64 < n -> big x = A -> 0 <= A < 2 ^ mbits x -> 32 <= mbits x <= n ->
  A < nonneg_bound k n -> u64 (Int64 y) = cnt -> 0 <= cnt ->
  exists c, evalConst ORsh (CI (mkT k n ml) x) (CI tr y) = Ok c /\
    good c k n (snd (circuit_sem ORsh k n A cnt)).
Proof.
  intros Hk Hkr Hn HbA HA Hxb Hnb Hcnt Hc0.
  assert (HuA : ubig x = A) by (rewrite ubig_nonneg; lia).
  unfold evalConst, resultTypeCC.
  assert (Hil : intlike k && intlike (tk tr) = true) by (destruct k, (tk tr); try congruence; reflexivity).
  assert (Hs : isSmall (mkM n 0) = false) by (apply Z.leb_gt; simpl; lia).
  assert (Hp : 0 < 2 ^ n) by (apply pow2_pos; lia).
  assert (Hpc : 0 < 2 ^ cnt) by (apply pow2_pos; lia).
  assert (HAn : A < 2 ^ n) by (pose proof (pow2_le (mbits x) n ltac:(lia)); lia).
  assert (Hsh : Z.shiftr A cnt = A / 2 ^ cnt) by (apply Z.shiftr_div_pow2; lia).
  assert (Hq : 0 <= A / 2 ^ cnt <= A) by (split; [apply Z.div_pos; lia|apply Z.div_le_upper_bound; nia]).
  simpl. rewrite Hil. simpl. rewrite (mNew_ok n) by lia. simpl. unfold mRsh. rewrite Hs, Hcnt, HuA. simpl.
  eexists; split; [reflexivity|]. unfold circuit_sem, instr_sem. simpl snd.
  assert (Hsg : (match k with KInt => sgn_at n A | _ => A end) = A).
  { destruct k; try congruence. simpl in Hnb. unfold sgn_at.
    assert (E : (A <? 2 ^ (n - 1)) = true) by (apply Z.ltb_lt; lia). rewrite E. reflexivity. }
  rewrite Hsg, Hsh. rewrite Z.mod_small by lia.
  apply good_result_big; [lia|lia|]. intros Hm. pose proof (pow2_le (mbits x) 64 ltac:(lia)). lia.
Qed.

(* unary minus, both paths *)
Theorem fold_neg_small k N ml x A :
  k <> KBool -> 1 <= N <= 64 -> (small x) mod 2 ^ N = A ->
  exists c, unaryMinus (CI (mkT k N ml) x) = Ok c /\ good c k N (snd (circuit_neg k N A)).
Proof.
  intros Hk HN HA. unfold unaryMinus. simpl tbits. unfold mSub.
  assert (Hs : isSmall (mkM N 0) = true) by (apply Z.leb_le; simpl; lia). rewrite Hs. simpl mbits.
  set (e := wrap_s64 (small (mkM N 0) - small x)).
  assert (He : e mod 2 ^ N = (0 - A) mod 2 ^ N).
  { unfold e. rewrite wrap_mod by lia. unfold small at 1; simpl mval. rewrite (wrap_id 0) by lia.
    rewrite <- HA. rewrite (Zminus_mod 0 (small x)), (Zminus_mod 0 (small x mod 2 ^ N)), Zmod_mod. reflexivity. }
  assert (HV : 0 <= e mod 2 ^ N < 2 ^ N) by (apply Z.mod_pos_bound, pow2_pos; lia).
  destruct (setSmall_constant k N ml N e HN HN ltac:(lia)) as [v [-> Hc]]. simpl.
  eexists; split; [reflexivity|]. rewrite Hc.
  unfold circuit_neg, instr_sem. simpl snd.
  assert (Hmin : Z.min N (Z.max 32 N + 1) = N) by lia. rewrite Hmin.
  replace (- A) with (0 - A) by lia. rewrite <- He.
  apply good_result_small; assumption.
Qed.

Theorem fold_neg_big k n ml x A :
  k <> KBool -> 64 < n -> mbits x <= n -> inval x = A ->
  exists c, unaryMinus (CI (mkT k n ml) x) = Ok c /\ good c k n (snd (circuit_neg k n A)).
Proof.
  intros Hk Hn Hxb HiA. unfold unaryMinus. simpl tbits. unfold mSub.
  assert (Hs : isSmall (mkM n 0) = false) by (apply Z.leb_gt; simpl; lia). rewrite Hs.
  assert (Hp : 0 < 2 ^ n) by (apply pow2_pos; lia).
  unfold bigAddSub. simpl mbits. rewrite (Z.max_l n (mbits x)) by lia. rewrite Z.max_id.
  assert (E : (n + 1 <? n) = false) by (apply Z.ltb_ge; lia). rewrite E. rewrite HiA.
  assert (H0 : inval (mkM n 0) = 0) by (unfold inval, big; simpl; apply Z.mod_0_l; lia). rewrite H0.
  simpl. eexists; split; [reflexivity|].
  unfold circuit_neg, instr_sem. simpl snd.
  assert (Hmin : Z.min n (Z.max 32 n + 1) = n) by lia. rewrite Hmin.
  replace (0 - A) with (- A) by lia.
  apply good_result_big; [lia|apply Z.mod_pos_bound; lia|lia].
Qed.

(* ------------------------------------------------------------------ *)
(* soundness of the classifier                                          *)
Definition typedv (k : kind) (n a : Z) : res cval :=
  match k with KBool => Ok (CB (negb (a =? 0))) | _ => typed k n a end.
Definition rhs (op : binop) (k : kind) (n b : Z) : res cval :=
  if is_shift op then literal b else typedv k n b.
Definition target (op : binop) (k : kind) (n a b : Z) : kind * Z * Z :=
  circuit_sem op k n (a mod 2 ^ n) (if is_shift op then b else b mod 2 ^ n).
Definition goodt (c : cval) (s : kind * Z * Z) : Prop := good c (fst (fst s)) (snd (fst s)) (snd s).

Ltac andb_split :=
  repeat match goal with
  | H : _ && _ = true |- _ => apply andb_true_iff in H; destruct H
  end.

Lemma count_int64 b : count_ok b = true ->
  0 <= b /\ literal b = Ok (CI (mkT KInt (cont b) (blen b)) (mkM (cont b) b)) /\
  u64 (Int64 (mkM (cont b) b)) = b.
Proof.
  intros H. unfold count_ok in H. andb_split.
  apply Z.leb_le in H. apply Z.ltb_lt in H0.
  split; [assumption|]. split; [apply literal_repr; assumption|].
  assert (Hr : reprb KInt 32 b = true).
  { simpl. apply andb_true_iff; split; [apply Z.leb_le|apply Z.ltb_lt]; replace (32 - 1) with 31 by lia; lia. }
  assert (Hc : canon 32 b = true) by (unfold canon; assert (E : (0 <=? b) = true) by (apply Z.leb_le; lia); rewrite E; reflexivity).
  assert (Hx : cmp_exact 32 b = true).
  { unfold cmp_exact. assert (E1 : (0 <=? b) = true) by (apply Z.leb_le; lia).
    assert (E2 : (b <? 2 ^ 31) = true) by (apply Z.ltb_lt; lia). rewrite E1, E2. simpl. rewrite orb_true_r. reflexivity. }
  destruct (rep_int64 KInt 32 b ltac:(congruence) ltac:(lia) Hr Hc Hx) as [_ Hi].
  unfold rep, contv, rep_val in Hi.
  assert (E : (b <? 0) = false) by (apply Z.ltb_ge; lia).
  assert (E' : (0 <=? b) = true) by (apply Z.leb_le; lia). rewrite E, E' in Hi.
  rewrite Hi. unfold u64. apply Z.mod_small; lia.
Qed.

Lemma good_conv c k N v :
  (exists c', c' = c /\ const_wires c = v /\ tk (ctype c) = k /\ tmin (ctype c) <= N /\
     N <= tbits (ctype c) <= 64 /\ (N = 32 -> tbits (ctype c) = 32) /\ smallc c) -> good c k N v.
Proof. intros (c' & _ & H1 & H2 & H3 & H4 & H5 & _). apply good_of_small; assumption. Qed.

Lemma contv_bounds k n a : k <> KBool -> 0 < n <= 64 -> reprb k n a = true -> canon n a = true ->
  32 <= contv n a <= 64.
Proof.
  intros Hk Hn Hr Hc. unfold contv. destruct (a <? 0) eqn:E; [apply Z.ltb_lt in E|apply Z.ltb_ge in E].
  - destruct (neg_canon_small n a Hc E ltac:(lia)); lia.
  - pose proof (pow2_le n 64 ltac:(lia)).
    assert (a < 2 ^ 64).
    { destruct (reprb_spec k n a Hr Hk ltac:(lia)) as [[-> Hb]|[-> Hb]]; [lia|].
      pose proof (pow2_le (n - 1) 64 ltac:(lia)). lia. }
    destruct (cont_spec a E) as [_ [_ [? [H64 _]]]]. specialize (H64 H0). lia.
Qed.

Ltac cmp_case o k n a b Hk Hn0 Hra Hca Hrb Hcb H5 Hl Hr :=
  let Hea := fresh "Hea" in let Heb := fresh "Heb" in
  let Sa := fresh "Sa" in let Ia := fresh "Ia" in let Sb := fresh "Sb" in let Ib := fresh "Ib" in
  let c := fresh "c" in let Hc := fresh "Hc" in let Hg := fresh "Hg" in
  apply andb_true_iff in H5; destruct H5 as [Hea Heb];
  destruct (rep_int64 k n a Hk Hn0 Hra Hca Hea) as [Sa Ia];
  destruct (rep_int64 k n b Hk Hn0 Hrb Hcb Heb) as [Sb Ib];
  destruct (fold_cmp_exact o k n (mkT k n (tmv n a)) (mkT k n (tmv n b)) (rep n a) (rep n b) a b
              eq_refl Hk Hn0 Hra Hrb Sa Sb Ia Ib) as [c [Hc Hg]];
  do 3 eexists; (split; [exact Hl|]); (split; [exact Hr|]); (split; [exact Hc|]);
  unfold circuit_sem in *; simpl in *; exact Hg.

Theorem sound_small op k n a b :
  k <> KBool -> n <= 64 -> fold_ok_class op k n a b = true ->
  exists l r c, typedv k n a = Ok l /\ rhs op k n b = Ok r /\ evalConst op l r = Ok c /\
    goodt c (target op k n a b).
Proof.
  intros Hk Hn64 H.
  assert (Hty : typedv k n a = typed k n a) by (destruct k; try congruence; reflexivity).
  assert (Htyb : typedv k n b = typed k n b) by (destruct k; try congruence; reflexivity).
  assert (Hcls : (0 <? n) && reprb k n a && canon n a &&
      (if is_shift op then count_ok b else reprb k n b && canon n b) &&
      (match op with
         | OSub | OMul | OBand | OBor | OBxor | OBclr | OLsh => true
         | OAdd =>
             let M := Z.max (contv n a) (contv n b) in
             (M =? n) || ((0 <=? a) && (0 <=? b) && (a <? 2 ^ 63) && (b <? 2 ^ 63) &&
                          (a + b <? 2 ^ (Z.min M n)))
         | ODiv | OMod => (0 <=? a) && (0 <=? b) && (a <? 2 ^ 63) && (b <? 2 ^ 63)
         | ORsh => (0 <=? a) && (a <? 2 ^ 63)
         | OLt | OLe | OGt | OGe | OEq | ONeq => cmp_exact n a && cmp_exact n b
         | OLand | OLor => false
         end) = true).
  { unfold fold_ok_class in H. assert (E : (n <=? 64) = true) by (apply Z.leb_le; lia).
    rewrite E in H. destruct k; try congruence; exact H. }
  clear H.
  apply andb_true_iff in Hcls; destruct Hcls as [Hcls H5].
  apply andb_true_iff in Hcls; destruct Hcls as [Hcls H4].
  apply andb_true_iff in Hcls; destruct Hcls as [Hcls Hca].
  apply andb_true_iff in Hcls; destruct Hcls as [Hn0 Hra].
  apply Z.ltb_lt in Hn0.
  pose proof (typed_repr k n a Hk Hn0 Hra Hca) as Hl.
  destruct (rep_small k n a Hk ltac:(lia) Hra Hca) as [Hxa Hsa].
  pose proof (contv_bounds k n a Hk ltac:(lia) Hra Hca) as Hcva.
  unfold rhs, target, goodt. rewrite Hty.
  destruct (is_shift op) eqn:Esh.
  - (* shifts *)
    destruct (count_int64 b H4) as [Hb0 [Hlit Hcnt]].
    destruct op; try discriminate Esh; simpl in H5.
    + destruct (fold_lsh_small k n (tmv n a) (mkT KInt (cont b) (blen b)) (rep n a) (mkM (cont b) b)
                  (a mod 2 ^ n) b Hk ltac:(simpl; congruence) ltac:(lia) Hsa Hcnt Hb0) as [c [Hc Hg]].
      do 3 eexists. split; [exact Hl|]. split; [exact Hlit|]. split; [exact Hc|]. exact Hg.
    + apply andb_true_iff in H5; destruct H5 as [H H0]. apply Z.leb_le in H. apply Z.ltb_lt in H0.
      assert (Hbound : a < nonneg_bound k n).
      { destruct (reprb_spec k n a Hra Hk Hn0) as [[-> Hb]|[-> Hb]]; simpl; lia. }
      destruct (fold_rsh_nonneg k n (tmv n a) (mkT KInt (cont b) (blen b)) (rep n a) (mkM (cont b) b)
                  a b Hk ltac:(simpl; congruence) ltac:(lia) (rep_mval n a H) ltac:(lia) Hbound Hcnt Hb0)
        as [c [Hc Hg]].
      do 3 eexists. split; [exact Hl|]. split; [exact Hlit|]. split; [exact Hc|].
      rewrite (Z.mod_small a) by (destruct (reprb_spec k n a Hra Hk Hn0) as [[-> Hb]|[-> Hb]];
        [lia|pose proof (pow2_half n Hn0); lia]).
      simpl fst. simpl snd. apply good_conv. exists c. split; [reflexivity|]. exact Hg.
  - (* two typed operands *)
    rewrite Htyb. apply andb_true_iff in H4; destruct H4 as [Hrb Hcb].
    pose proof (typed_repr k n b Hk Hn0 Hrb Hcb) as Hr.
    destruct (rep_small k n b Hk ltac:(lia) Hrb Hcb) as [Hxb Hsb].
    pose proof (contv_bounds k n b Hk ltac:(lia) Hrb Hcb) as Hcvb.
    assert (Hcirc : forall o, is_shift o = false -> is_cmp o = false -> is_logic o = false ->
       circuit_sem o k n (a mod 2 ^ n) (b mod 2 ^ n) = (k, n, snd (circuit_sem o k n (a mod 2 ^ n) (b mod 2 ^ n))))
      by (intros o E1 E2 E3; unfold circuit_sem; rewrite E1, E2, E3; reflexivity).
    assert (Hholds_a : holds (CI (mkT k n (tmv n a)) (rep n a)) k n (a mod 2 ^ n))
      by (do 2 eexists; repeat split; try reflexivity; assumption).
    assert (Hholds_b : holds (CI (mkT k n (tmv n b)) (rep n b)) k n (b mod 2 ^ n))
      by (do 2 eexists; repeat split; try reflexivity; assumption).
    assert (Hnn : forall v, reprb k n v = true -> 0 <= v -> v mod 2 ^ n = v /\ v < nonneg_bound k n).
    { intros v Hrv Hv. destruct (reprb_spec k n v Hrv Hk Hn0) as [[-> Hb]|[-> Hb]]; simpl;
        (split; [apply Z.mod_small|]); try lia; pose proof (pow2_half n Hn0); lia. }
    destruct op; try discriminate Esh; try discriminate H5; simpl in H5.
    all: try match goal with
      | |- context [circuit_sem ?o _ _ _ _] =>
        match o with
        | OSub => idtac | OMul => idtac | OBand => idtac | OBor => idtac | OBxor => idtac | OBclr => idtac
        end;
        destruct (fold_ring_small o k n _ _ _ _ eq_refl ltac:(lia) Hholds_a Hholds_b) as [c [Hc Hg]];
        do 3 eexists; (split; [exact Hl|]); (split; [exact Hr|]); (split; [exact Hc|]);
        rewrite Hcirc by reflexivity; simpl fst; simpl snd; apply good_conv; exists c; split; [reflexivity|exact Hg]
      end.
    + (* add *)
      apply orb_true_iff in H5. destruct H5 as [HM|Hno].
      * apply Z.eqb_eq in HM.
        destruct (fold_add_small k n (tmv n a) (tmv n b) (rep n a) (rep n b) (a mod 2 ^ n) (b mod 2 ^ n)
                    ltac:(lia) HM Hsa Hsb) as [c [Hc Hg]].
        do 3 eexists. split; [exact Hl|]. split; [exact Hr|]. split; [exact Hc|].
        rewrite Hcirc by reflexivity. simpl fst; simpl snd. apply good_conv. exists c. split; [reflexivity|exact Hg].
      * apply andb_true_iff in Hno; destruct Hno as [Hno H0].
        apply andb_true_iff in Hno; destruct Hno as [Hno H1].
        apply andb_true_iff in Hno; destruct Hno as [Hno H2].
        apply andb_true_iff in Hno; destruct Hno as [H H3].
        apply Z.leb_le in H. apply Z.leb_le in H3. apply Z.ltb_lt in H2. apply Z.ltb_lt in H1. apply Z.ltb_lt in H0.
        destruct (Hnn a Hra H) as [Ma _]. destruct (Hnn b Hrb H3) as [Mb _].
        destruct (fold_add_nooverflow k n (tmv n a) (tmv n b) (rep n a) (rep n b) a b
                    ltac:(lia) Hcva Hcvb (rep_mval n a H) (rep_mval n b H3) ltac:(lia) ltac:(lia) H0) as [c [Hc Hg]].
        do 3 eexists. split; [exact Hl|]. split; [exact Hr|]. split; [exact Hc|].
        rewrite Hcirc by reflexivity. rewrite Ma, Mb. exact Hg.
    + (* div *)
      apply andb_true_iff in H5; destruct H5 as [H5 H0].
      apply andb_true_iff in H5; destruct H5 as [H5 H1].
      apply andb_true_iff in H5; destruct H5 as [H H2].
      apply Z.leb_le in H. apply Z.leb_le in H2. apply Z.ltb_lt in H1. apply Z.ltb_lt in H0.
      destruct (Hnn a Hra H) as [Ma Ba]. destruct (Hnn b Hrb H2) as [Mb Bb].
      destruct (fold_divmod_nonneg ODiv k n (tmv n a) (tmv n b) (rep n a) (rep n b) a b
                  (or_introl eq_refl) Hk ltac:(lia) (rep_mval n a H) (rep_mval n b H2) ltac:(lia) ltac:(lia) Ba Bb) as [c [Hc Hg]].
      do 3 eexists. split; [exact Hl|]. split; [exact Hr|]. split; [exact Hc|].
      rewrite Hcirc by reflexivity. rewrite Ma, Mb. simpl fst; simpl snd. apply good_conv. exists c. split; [reflexivity|exact Hg].
    + (* mod *)
      apply andb_true_iff in H5; destruct H5 as [H5 H0].
      apply andb_true_iff in H5; destruct H5 as [H5 H1].
      apply andb_true_iff in H5; destruct H5 as [H H2].
      apply Z.leb_le in H. apply Z.leb_le in H2. apply Z.ltb_lt in H1. apply Z.ltb_lt in H0.
      destruct (Hnn a Hra H) as [Ma Ba]. destruct (Hnn b Hrb H2) as [Mb Bb].
      destruct (fold_divmod_nonneg OMod k n (tmv n a) (tmv n b) (rep n a) (rep n b) a b
                  (or_intror eq_refl) Hk ltac:(lia) (rep_mval n a H) (rep_mval n b H2) ltac:(lia) ltac:(lia) Ba Bb) as [c [Hc Hg]].
      do 3 eexists. split; [exact Hl|]. split; [exact Hr|]. split; [exact Hc|].
      rewrite Hcirc by reflexivity. rewrite Ma, Mb. simpl fst; simpl snd. apply good_conv. exists c. split; [reflexivity|exact Hg].
    + cmp_case OLt k n a b Hk Hn0 Hra Hca Hrb Hcb H5 Hl Hr.
    + cmp_case OLe k n a b Hk Hn0 Hra Hca Hrb Hcb H5 Hl Hr.
    + cmp_case OGt k n a b Hk Hn0 Hra Hca Hrb Hcb H5 Hl Hr.
    + cmp_case OGe k n a b Hk Hn0 Hra Hca Hrb Hcb H5 Hl Hr.
    + cmp_case OEq k n a b Hk Hn0 Hra Hca Hrb Hcb H5 Hl Hr.
    + cmp_case ONeq k n a b Hk Hn0 Hra Hca Hrb Hcb H5 Hl Hr.
Qed.

Theorem sound_big op k n a b :
  k <> KBool -> 64 < n -> fold_ok_class op k n a b = true ->
  exists l r c, typedv k n a = Ok l /\ rhs op k n b = Ok r /\ evalConst op l r = Ok c /\
    goodt c (target op k n a b).
Proof.
  intros Hk Hn64 H.
  assert (Hty : typedv k n a = typed k n a) by (destruct k; try congruence; reflexivity).
  assert (Htyb : typedv k n b = typed k n b) by (destruct k; try congruence; reflexivity).
  assert (Hcls : (0 <? n) && reprb k n a && canon n a &&
      (if is_shift op then count_ok b else reprb k n b && canon n b) &&
      (match op with
         | OBand | OBor | OBxor | OBclr | OMul | OLsh => true
         | OAdd | OSub => n - 1 <=? Z.max (contv n a) (contv n b)
         | ORsh => 0 <=? a
         | OLt | OLe | OGt | OGe | OEq | ONeq => cmp_exact n a && cmp_exact n b
         | ODiv | OMod | OLand | OLor => false
         end) = true).
  { unfold fold_ok_class in H. assert (E : (n <=? 64) = false) by (apply Z.leb_gt; lia).
    rewrite E in H. destruct k; try congruence; exact H. }
  clear H.
  apply andb_true_iff in Hcls; destruct Hcls as [Hcls H5].
  apply andb_true_iff in Hcls; destruct Hcls as [Hcls H4].
  apply andb_true_iff in Hcls; destruct Hcls as [Hcls Hca].
  apply andb_true_iff in Hcls; destruct Hcls as [Hn0 Hra].
  apply Z.ltb_lt in Hn0.
  pose proof (typed_repr k n a Hk Hn0 Hra Hca) as Hl.
  destruct (rep_big k n a Hk Hn64 Hra Hca) as [Hxa [Hba [HAa Hia]]].
  assert (HpA : 0 <= a mod 2 ^ n < 2 ^ n) by (apply Z.mod_pos_bound, pow2_pos; lia).
  unfold rhs, target, goodt. rewrite Hty.
  destruct (is_shift op) eqn:Esh.
  - destruct (count_int64 b H4) as [Hb0 [Hlit Hcnt]].
    destruct op; try discriminate Esh; simpl in H5.
    + destruct (fold_big_lsh k n (tmv n a) (mkT KInt (cont b) (blen b)) (rep n a) (mkM (cont b) b)
                  (a mod 2 ^ n) b Hk ltac:(simpl; congruence) Hn64 Hba (proj1 HpA) Hcnt Hb0) as [c [Hc Hg]].
      do 3 eexists. split; [exact Hl|]. split; [exact Hlit|]. split; [exact Hc|]. exact Hg.
    + apply Z.leb_le in H5.
      assert (Hbound : a mod 2 ^ n < nonneg_bound k n).
      { destruct (reprb_spec k n a Hra Hk Hn0) as [[-> Hb]|[-> Hb]]; simpl;
          rewrite Z.mod_small; try lia; pose proof (pow2_half n Hn0); lia. }
      destruct (fold_big_rsh k n (tmv n a) (mkT KInt (cont b) (blen b)) (rep n a) (mkM (cont b) b)
                  (a mod 2 ^ n) b Hk ltac:(simpl; congruence) Hn64 Hba HAa Hxa Hbound Hcnt Hb0) as [c [Hc Hg]].
      do 3 eexists. split; [exact Hl|]. split; [exact Hlit|]. split; [exact Hc|]. exact Hg.
  - rewrite Htyb. apply andb_true_iff in H4; destruct H4 as [Hrb Hcb].
    pose proof (typed_repr k n b Hk Hn0 Hrb Hcb) as Hr.
    destruct (rep_big k n b Hk Hn64 Hrb Hcb) as [Hxb [Hbb [HAb Hib]]].
    assert (HpB : 0 <= b mod 2 ^ n < 2 ^ n) by (apply Z.mod_pos_bound, pow2_pos; lia).
    assert (Hmb : mbits (rep n a) = contv n a /\ mbits (rep n b) = contv n b) by (split; reflexivity).
    destruct Hmb as [Hma Hmbb].
    assert (Hcirc : forall o, is_shift o = false -> is_cmp o = false -> is_logic o = false ->
       circuit_sem o k n (a mod 2 ^ n) (b mod 2 ^ n) = (k, n, snd (circuit_sem o k n (a mod 2 ^ n) (b mod 2 ^ n))))
      by (intros o E1 E2 E3; unfold circuit_sem; rewrite E1, E2, E3; reflexivity).
    destruct op; try discriminate Esh; try discriminate H5; simpl in H5.
    all: try match goal with
      | |- context [circuit_sem ?o _ _ _ _] =>
        match o with
        | OAdd => idtac | OSub => idtac | OMul => idtac | OBand => idtac | OBor => idtac | OBxor => idtac | OBclr => idtac
        end;
        destruct (fold_big_binop o k n (tmv n a) (tmv n b) (rep n a) (rep n b) (a mod 2 ^ n) (b mod 2 ^ n)
                    eq_refl Hn64 Hxa Hxb Hba Hia HpA Hbb Hib HpB
                    ltac:(simpl; try exact I; unfold rep; simpl; apply Z.leb_le; exact H5)) as [c [Hc Hg]];
        do 3 eexists; (split; [exact Hl|]); (split; [exact Hr|]); (split; [exact Hc|]);
        rewrite Hcirc by reflexivity; exact Hg
      end.
    + cmp_case OLt k n a b Hk Hn0 Hra Hca Hrb Hcb H5 Hl Hr.
    + cmp_case OLe k n a b Hk Hn0 Hra Hca Hrb Hcb H5 Hl Hr.
    + cmp_case OGt k n a b Hk Hn0 Hra Hca Hrb Hcb H5 Hl Hr.
    + cmp_case OGe k n a b Hk Hn0 Hra Hca Hrb Hcb H5 Hl Hr.
    + cmp_case OEq k n a b Hk Hn0 Hra Hca Hrb Hcb H5 Hl Hr.
    + cmp_case ONeq k n a b Hk Hn0 Hra Hca Hrb Hcb H5 Hl Hr.
Qed.

(* boolean constants *)
Theorem sound_bool op a b : fold_ok_class op KBool 1 a b = true ->
  exists l r c, typedv KBool 1 a = Ok l /\ rhs op KBool 1 b = Ok r /\ evalConst op l r = Ok c /\
    goodt c (target op KBool 1 a b).
Proof.
  intros H. unfold fold_ok_class in H.
  assert (Hab : (a = 0 \/ a = 1) /\ (b = 0 \/ b = 1) /\ (op = OEq \/ op = ONeq \/ op = OLand \/ op = OLor)).
  { destruct op; try discriminate H; simpl in H;
      apply andb_true_iff in H; destruct H as [Ha Hb];
      apply orb_true_iff in Ha; apply orb_true_iff in Hb;
      (split; [destruct Ha as [Ha|Ha]; apply Z.eqb_eq in Ha; lia|]);
      (split; [destruct Hb as [Hb|Hb]; apply Z.eqb_eq in Hb; lia|]); tauto. }
  destruct Hab as [[-> | ->] [[-> | ->] [-> | [-> | [-> | ->]]]]];
    do 3 eexists; (split; [reflexivity|]); (split; [reflexivity|]); (split; [reflexivity|]);
    vm_compute; repeat split; intros; try discriminate; try lia; destruct H0; lia.
Qed.

(* THE theorem: on every input the classifier accepts — every operator, both
   signednesses and bool, every width, every value — the operands T(a) / -T(|a|)
   exist, the folder answers, and the folded constant has the circuit's result
   kind, exactly the circuit's output bits as wires, is assignable to the declared
   type, and (declared width 32 or >= 64) has exactly the declared width. *)
Theorem fold_ok_class_sound op k n a b : fold_ok_class op k n a b = true ->
  exists l r c, typedv k n a = Ok l /\ rhs op k n b = Ok r /\ evalConst op l r = Ok c /\
    goodt c (target op k n a b).
Proof.
  intros H. destruct (kind_eqb k KBool) eqn:E.
  - assert (k = KBool) by (destruct k; try discriminate; reflexivity). subst k.
    assert (n = 1).
    { unfold fold_ok_class in H. destruct op; try discriminate H;
        apply andb_true_iff in H; destruct H as [H _]; apply andb_true_iff in H; destruct H as [H _];
        apply Z.eqb_eq in H; exact H. }
    subst n. apply sound_bool; assumption.
  - assert (Hk : k <> KBool) by (intros ->; discriminate).
    destruct (Z_le_gt_dec n 64); [apply sound_small|apply sound_big]; try assumption; lia.
Qed.

(* exact class: the program-visible triple (kind, Type.Bits, wires) IS the circuit's *)
Theorem fold_exact_class_sound op k n a b : fold_exact_class op k n a b = true ->
  exists l r c, typedv k n a = Ok l /\ rhs op k n b = Ok r /\ evalConst op l r = Ok c /\
    seen c = target op k n a b /\ tmin (ctype c) <= snd (fst (target op k n a b)).
Proof.
  intros H. unfold fold_exact_class in H. apply andb_true_iff in H. destruct H as [Hok Hex].
  destruct (fold_ok_class_sound op k n a b Hok) as (l & r & c & Hl & Hr & Hc & Hg).
  exists l, r, c. repeat split; try assumption.
  - unfold goodt, good in Hg. destruct Hg as (G1 & G2 & G3 & G4).
    unfold seen. unfold target, circuit_sem in *.
    destruct (is_cmp op || is_logic op) eqn:Ecl.
    + simpl in *. destruct c as [t m|bb].
      * exfalso. revert Hc. unfold evalConst, resultTypeCC. rewrite Ecl. simpl.
        destruct l, r; simpl; try discriminate;
          destruct op; try discriminate Ecl; simpl; try discriminate;
          repeat match goal with |- context [mNew ?z] => destruct (mNew z); simpl; try discriminate end.
      * simpl in *. rewrite <- G2. reflexivity.
    + assert (Hw : n = 32 \/ 64 <= n).
      { simpl in Hex.
        apply orb_true_iff in Hex. destruct Hex as [Hex|Hex]; [apply Z.eqb_eq in Hex|apply Z.leb_le in Hex]; lia. }
      destruct (is_shift op); simpl in *; rewrite (G4 Hw), G1, G2; reflexivity.
  - unfold goodt, good in Hg. tauto.
Qed.

(* unary minus *)
Theorem neg_ok_class_sound k n a : neg_ok_class k n a = true ->
  exists l c, typed k n a = Ok l /\ unaryMinus l = Ok c /\
    good c k n (snd (circuit_neg k n (a mod 2 ^ n))).
Proof.
  intros H. unfold neg_ok_class in H.
  apply andb_true_iff in H; destruct H as [H Hca].
  apply andb_true_iff in H; destruct H as [H Hra].
  apply andb_true_iff in H; destruct H as [Hk Hn0].
  assert (Hk' : k <> KBool) by (intros ->; discriminate). apply Z.ltb_lt in Hn0.
  rewrite (typed_repr k n a Hk' Hn0 Hra Hca).
  destruct (Z_le_gt_dec n 64).
  - destruct (rep_small k n a Hk' ltac:(lia) Hra Hca) as [_ Hs].
    destruct (fold_neg_small k n (tmv n a) (rep n a) (a mod 2 ^ n) Hk' ltac:(lia) Hs) as [c [Hc Hg]].
    do 2 eexists. split; [reflexivity|]. split; [exact Hc|exact Hg].
  - destruct (rep_big k n a Hk' ltac:(lia) Hra Hca) as [Hxa [_ [_ Hia]]].
    destruct (fold_neg_big k n (tmv n a) (rep n a) (a mod 2 ^ n) Hk' ltac:(lia) ltac:(lia) Hia) as [c [Hc Hg]].
    do 2 eexists. split; [reflexivity|]. split; [exact Hc|exact Hg].
Qed.

(* ! *)
Theorem not_sound b : exists c, unaryNot (CB b) = Ok c /\
  seen c = (KBool, 1, 1 - (if b then 1 else 0)).
Proof. eexists; split; [reflexivity|]. destruct b; reflexivity. Qed.

(* ------------------------------------------------------------------ *)
(* the constant table: constants interned by name                       *)
Lemma BitLen_nonneg m : 0 <= BitLen m.
Proof.
  unfold BitLen. destruct (isSmall m); [lia|].
  unfold bitlen_abs. destruct (big m =? 0); [lia|]. pose proof (Z.log2_nonneg (Z.abs (big m))). lia.
Qed.

(* Same name = same printed value [mval].  For constants produced by
   Generator.Constant the container is a function of that value, so two constants
   of one name carry the same mpa.Int.  (A small mpa.Int holds a 64-bit value; a
   big one is never negative — both are invariants of mpint.go.) *)
Definition fits (v : mint) : Prop :=
  (isSmall v = true -> - 2 ^ 63 <= mval v < 2 ^ 64) /\ (isSmall v = false -> 0 <= mval v).

Lemma BitLen_container v1 v2 : fits v1 -> fits v2 -> mval v1 = mval v2 ->
  contb (BitLen v1) = contb (BitLen v2).
Proof.
  intros [F1 G1] [F2 G2] He. unfold BitLen, small, big.
  destruct (isSmall v1) eqn:E1, (isSmall v2) eqn:E2; rewrite <- ?He; try reflexivity.
  - specialize (F1 eq_refl). specialize (G2 eq_refl). rewrite <- He in G2.
    rewrite u64_wrap. unfold u64. rewrite Z.mod_small by lia.
    unfold bitlen_abs. destruct (mval v1 =? 0) eqn:E0.
    + apply Z.eqb_eq in E0. rewrite E0. reflexivity.
    + apply Z.eqb_neq in E0. rewrite Z.abs_eq by lia.
      pose proof (Z.log2_nonneg (mval v1)). rewrite Z.max_r by lia. reflexivity.
  - specialize (F2 eq_refl). specialize (G1 eq_refl). rewrite <- He in F2.
    rewrite u64_wrap. unfold u64. rewrite Z.mod_small by lia.
    unfold bitlen_abs. destruct (mval v1 =? 0) eqn:E0.
    + apply Z.eqb_eq in E0. rewrite E0. reflexivity.
    + apply Z.eqb_neq in E0. rewrite Z.abs_eq by lia.
      pose proof (Z.log2_nonneg (mval v1)). rewrite Z.max_r by lia. reflexivity.
Qed.

Theorem same_name_same_mint v1 v2 t1 t2 : fits v1 -> fits v2 -> mval v1 = mval v2 ->
  exists m t1' t2', constant v1 t1 = CI t1' m /\ constant v2 t2 = CI t2' m /\
    cname (constant v1 t1) = cname (constant v2 t2).
Proof.
  intros F1 F2 He. pose proof (BitLen_container v1 v2 F1 F2 He) as Hc. unfold contb in Hc.
  unfold constant. rewrite Hc, He. do 3 eexists. repeat split.
Qed.

(* What a consumer receives from the shared entry.  c1 = CI t1 m is the constant
   registered first under the name, CI t2 m a later constant of the same name;
   Generator.Constant guarantees BitLen m <= Type.Bits of the entry.  Unless the
   consumer's constant is a WIDER intN and the entry's top wire is 1 (then the
   shared wires are sign-extended: finding F6k), the consumer receives exactly
   the wires its own constant denotes. *)
Theorem shared_wires_partial tbl t1 t2 m :
  tlookup (mval m) tbl = Some (CI t1 m) -> 0 <= tbits t2 -> BitLen m <= tbits t1 ->
  ~ (tk t2 = KInt /\ tbits t1 < tbits t2 /\ Z.testbit (const_wires (CI t1 m)) (tbits t1 - 1) = true) ->
  lookup_wires tbl (CI t2 m) = const_wires (CI t2 m).
Proof.
  intros Hl Hw2 HL Hno. unfold lookup_wires. rewrite Hl. unfold extend_wires.
  pose proof (BitLen_nonneg m) as HL0.
  set (X := if isSmall m then small m else big m).
  assert (C1 : const_wires (CI t1 m) = X mod 2 ^ BitLen m)
    by (unfold const_wires; fold X; rewrite Z.min_r by lia; reflexivity).
  assert (C2 : const_wires (CI t2 m) = X mod 2 ^ Z.min (tbits t2) (BitLen m)) by reflexivity.
  simpl ctype. rewrite C2.
  destruct (tbits t1 =? tbits t2) eqn:E1; [apply Z.eqb_eq in E1|apply Z.eqb_neq in E1].
  - rewrite C1. rewrite Z.min_r by lia. reflexivity.
  - destruct (tbits t2 <? tbits t1) eqn:E2; [apply Z.ltb_lt in E2|apply Z.ltb_ge in E2].
    + rewrite C1. destruct (Z_le_gt_dec (BitLen m) (tbits t2)) as [Hc|Hc].
      * rewrite Z.min_r by lia.
        pose proof (Z.mod_pos_bound X (2 ^ BitLen m) ltac:(apply pow2_pos; lia)).
        pose proof (pow2_le (BitLen m) (tbits t2) ltac:(lia)).
        apply Z.mod_small; lia.
      * rewrite Z.min_l by lia. apply mod_mod_pow2; lia.
    + destruct (kind_eqb (tk t2) KInt && (0 <? tbits t1) && Z.testbit (const_wires (CI t1 m)) (tbits t1 - 1)) eqn:E3.
      * exfalso. apply Hno. apply andb_true_iff in E3. destruct E3 as [E3 E5].
        apply andb_true_iff in E3. destruct E3 as [E3 E4].
        split; [destruct (tk t2); try discriminate; reflexivity|]. split; [lia|exact E5].
      * rewrite C1. rewrite Z.min_r by lia. reflexivity.
Qed.

(* ... and the exception is real: uint32(0x40000000)+uint32(0x40000000) registered
   first, int64(0x40000000)+int64(0x40000000) consumed later: both folds are in the
   exact class, both constants are named 2147483648, and the second one is seen as
   0xffffffff80000000. *)
Theorem shared_constant_refuted :
  exists c1 c2,
    fold_exact_class OAdd KUint 32 (2 ^ 30) (2 ^ 30) = true /\
    fold_exact_class OAdd KInt 64 (2 ^ 30) (2 ^ 30) = true /\
    (do l <- typed KUint 32 (2 ^ 30); evalConst OAdd l l) = Ok c1 /\
    (do l <- typed KInt 64 (2 ^ 30); evalConst OAdd l l) = Ok c2 /\
    cname c1 = cname c2 /\
    const_wires c2 = 2 ^ 31 /\
    lookup_wires (intern (intern [] c1) c2) c2 = 2 ^ 64 - 2 ^ 31.
Proof. do 2 eexists. repeat split; vm_compute; reflexivity. Qed.

Example multi_f6k :
  run_multi [ mkItem KUint 32 (EBin OAdd (ECast KUint 32 (ELit (2 ^ 30))) (ECast KUint 32 (ELit (2 ^ 30)))) 1 0;
              mkItem KInt 64 (EBin OAdd (ECast KInt 64 (ELit (2 ^ 30))) (ECast KInt 64 (ELit (2 ^ 30)))) 1 0 ]
  = Ok ([2 ^ 31; 2 ^ 31; 2 ^ 31; 2 ^ 31], [2 ^ 31; 2 ^ 64 - 2 ^ 31]).
Proof. vm_compute. reflexivity. Qed.

(* ------------------------------------------------------------------ *)
(* the same expression folded at several types                          *)

(* T(A) for every T carries the same mpa.Int (a cast copies the ssa.Value and
   shares the *mpa.Int): uint32(A) and uint64(A) differ in the declared type only *)
Theorem casts_share_the_mint k1 n1 k2 n2 a : 0 <= a ->
  exists t1 t2 m, operand k1 n1 a = Ok (CI t1 m) /\ operand k2 n2 a = Ok (CI t2 m).
Proof. intros Ha. rewrite !operand_repr by assumption. do 3 eexists. split; reflexivity. Qed.

(* ... and the fold of those operands depends on the declared type: A = B = 100000,
   a * b is 1410065408 at uint32 and 10000000000 at uint64.  Hence no function of
   the operator and the operand mpa.Int objects alone (a memo keyed by them) can
   agree with the folder: Binary.Eval is a function of the TYPED operands. *)
Example mul_at_two_types :
  exists m t32 t64,
    operand KUint 32 100000 = Ok (CI t32 m) /\ operand KUint 64 100000 = Ok (CI t64 m) /\
    (do c <- evalConst OMul (CI t32 m) (CI t32 m); Ok (const_wires c)) = Ok 1410065408 /\
    (do c <- evalConst OMul (CI t64 m) (CI t64 m); Ok (const_wires c)) = Ok 10000000000.
Proof. do 3 eexists. repeat split; vm_compute; reflexivity. Qed.

Theorem fold_needs_the_operand_types :
  ~ exists memo : binop -> mint -> mint -> res cval,
      forall op t1 t2 m1 m2, evalConst op (CI t1 m1) (CI t2 m2) = memo op m1 m2.
Proof.
  intros [memo H].
  pose (m := mkM 32 100000).
  pose (t32 := mkT KUint 32 17). pose (t64 := mkT KUint 64 17).
  pose proof (H OMul t32 t32 m m) as H1. pose proof (H OMul t64 t64 m m) as H2.
  rewrite <- H2 in H1. vm_compute in H1. discriminate H1.
Qed.

(* In the model every call of the helper is folded on its own: the values the
   calls produce do not depend on the constant table, the names emitted so far
   or the calls before — only on each call's own typed operands. *)
Theorem calls_fold_independently calls : forall tbl names t n ps,
  reg_calls calls tbl names = Ok (t, n, ps) ->
  res_map (fun c => do v <- eval (cex c); consumer_prep (item_of_call c) v) calls = Ok ps.
Proof.
  induction calls as [|c rest IH]; intros tbl names t n ps H; simpl in H |- *.
  - inversion H. reflexivity.
  - destruct (res_map eval (cargs c)) as [avals| |]; simpl in H; try discriminate.
    destruct (eval (cex c)) as [v| |]; simpl in H |- *; try discriminate.
    destruct (consumer_prep (item_of_call c) v) as [p| |]; simpl in H |- *; try discriminate.
    destruct (reg_calls rest _ _) as [[[t' n'] ps']| |] eqn:E; simpl in H; try discriminate.
    inversion H; subst. rewrite (IH _ _ _ _ _ E). reflexivity.
Qed.
