(* CircGenDivProof.v — NewUDivider as circuitgen.go calls it: udiv passes nil for
   the remainder, umod passes nil for the quotient (Builders/Div.v models nil
   as []), operands of any two widths (ZeroPad), and NO assumption on the
   divisor: the restoring long division of NewUDividerLong yields the all-ones
   quotient and the dividend as remainder for a zero divisor — the values
   Mini.arith fixes for x / 0 and x % 0.  Generalises Builders/DivProof.v
   (okm_udiv_long_loop: full-width q and rret, non-zero divisor). *)
From Coq Require Import ZArith Znumtheory NArith List Bool Arith Lia.
From Mpc Require Import Builders.Emit Builders.EmitProof Builders.Sub Builders.Mux Builders.Div
     Builders.SubProof Builders.MuxProof Builders.DivProof
     Builders.StructProof Builders.StructAdder Builders.StructArith Builders.StructKs Builders.StructDiv.
Import ListNotations.
Open Scope N_scope.

Definition dq (A B : N) (m : nat) : N := if B =? 0 then 2 ^ N.of_nat m - 1 else A / B.
Definition dr (A B : N) : N := if B =? 0 then A else A mod B.

Lemma okm_qbit_opt tw i q n : (i < n)%nat -> (length q = n \/ q = []) ->
  okm false (if Nat.ltb i (length q)
             then bind zero_wire (fun z => bind one_wire (fun o =>
                    new_mux [tw] [z] [o] (firstn 1 (skipn i q))))
             else ret tt)
      (fun _ e => length q = n -> valN e (firstn 1 (skipn i q)) = if e tw then 0 else 1).
Proof.
  intros Hi [L| ->].
  - eapply okm_weaken; [apply okm_qbit; lia|]. auto.
  - cbn [length Nat.ltb Nat.leb]. apply okm_ret. intros e H. cbn in H. lia.
Qed.

Lemma okp_next_r_opt i (rret r1 : list wire) : (length rret = length r1 \/ rret = []) ->
  okp false (if Nat.eqb i 0
             then let k := Nat.min (length rret) (length r1) in
                  bind (fresh_n (length r1 - k)) (fun fr => ret (firstn k rret ++ fr))
             else fresh_n (length r1))
      (fun nr => length nr = length r1 /\ (i = 0%nat -> length rret = length r1 -> nr = rret))
      (fun _ _ => True).
Proof.
  intros [L| ->].
  - eapply okp_weaken; [apply okp_next_r; exact L| |]; cbv beta; auto.
    intros a [H1 H2]. split; auto.
  - destruct (Nat.eqb i 0) eqn:E.
    + cbv zeta. cbn [length Nat.min firstn app]. rewrite Nat.sub_0_r.
      eapply okp_bind; [apply okp_fresh_n|]. intros fr Lf. cbv beta.
      apply okp_ret; auto. split; [exact Lf|]. intros _ H. cbn in H.
      destruct r1; [destruct fr; [reflexivity|discriminate]|discriminate].
    + apply Nat.eqb_neq in E. eapply okp_weaken; [apply okp_fresh_n | |]; cbv beta; auto.
      intros a H. split; auto. intros; lia.
Qed.

Lemma okm_udiv_long_loop_gen n : forall ra k i b q rret r,
  (k + length ra = n)%nat -> i = (length ra - 1)%nat ->
  length b = n -> (length q = n \/ q = []) -> (length rret = n \/ rret = []) -> length r = n ->
  okm false (udiv_long_loop ra i b q rret r)
      (fun _ e =>
         (valN e b <> 0 -> valN e r < valN e b) -> valN e r < 2 ^ N.of_nat k ->
         let A := valN e r * 2 ^ N.of_nat (length ra) + valN e (rev ra) in
         (length q = n -> valN e (firstn (length ra) q) = dq A (valN e b) (length ra)) /\
         (ra = [] \/ length rret = n -> valN e (final_r ra r rret) = dr A (valN e b))).
Proof.
  induction ra as [|ai ra IH]; intros k i b q rret r Hk Hi Lb Lq Lrr Lr.
  - cbn [udiv_long_loop]. apply okm_ret. intros e Hb _. cbn [length rev final_r firstn].
    rewrite valN_nil. change (2 ^ N.of_nat 0) with 1. rewrite N.mul_1_r, N.add_0_r.
    unfold dq, dr. destruct (N.eqb_spec (valN e b) 0) as [E|E].
    + split; reflexivity.
    + specialize (Hb E). rewrite N.div_small, N.mod_small by assumption. auto.
  - cbn [udiv_long_loop]. cbv zeta.
    remember (ai :: removelast r) as r1 eqn:Er1. cbn [length] in *.
    assert (Lr1 : length r1 = n).
    { subst r1. cbn [length]. rewrite removelast_len. lia. }
    eapply okm_bind_p; [apply okp_fresh_n | intros d0 Ld0; cbv beta in Ld0 |- *].
    eapply okm_bind_p; [apply okp_new_subtractor_yao; lia | intros diff Ld; cbv beta in Ld |- *].
    assert (Hne : diff <> []) by (intros ->; cbn in Ld; lia).
    destruct (exists_last Hne) as (dl & tw & ->). clear Hne.
    rewrite app_length in Ld. cbn [length] in Ld.
    assert (Ldl : length dl = n) by lia.
    replace (length (dl ++ [tw]) - 1)%nat with (length dl) by (rewrite app_length; cbn; lia).
    rewrite skipn_app, skipn_all, Nat.sub_diag. cbn [skipn app].
    rewrite firstn_app, firstn_all, Nat.sub_diag. cbn [firstn]. rewrite app_nil_r.
    eapply okm_bind; [apply (okm_qbit_opt tw i q n); [lia|exact Lq] | intros u1; cbv beta].
    eapply okm_bind_p; [apply okp_next_r_opt; rewrite Lr1; exact Lrr | intros nr [Lnr Hnr]; cbv beta].
    eapply okm_bind; [apply okm_new_mux; lia | intros u2; cbv beta].
    eapply okm_weaken.
    { apply (IH (S k) (i - 1)%nat b q rret nr); try lia; assumption. }
    cbv beta. intros _ e HI Hmux _ Hq Hsub _ Hb Hkk. cbv zeta.
    set (B := valN e b) in *. set (R := valN e r) in *.
    assert (Hpk : 2 ^ N.of_nat (S k) <= 2 ^ N.of_nat n) by (apply N.pow_le_mono_r; lia).
    rewrite pow2_S in Hpk.
    assert (HR1 : valN e r1 = N.b2n (e ai) + 2 * R).
    { subst r1. rewrite valN_cons, valN_removelast, Lr. f_equal. f_equal.
      apply N.mod_small. fold R.
      eapply N.lt_le_trans; [exact Hkk|]. apply N.pow_le_mono_r; lia. }
    pose proof (b2n_le1 (e ai)) as Hai.
    assert (HB : B < 2 ^ N.of_nat n) by (unfold B; rewrite <- Lb; apply valN_lt).
    assert (HDn : valN e dl < 2 ^ N.of_nat n) by (rewrite <- Ldl; apply valN_lt).
    rewrite valN_app, valN_cons, valN_nil, Ldl in Hsub.
    rewrite Ld0, Lr1 in Hsub. replace (n + 1)%nat with (S n) in Hsub by lia.
    rewrite pow2_S in Hsub.
    apply div_borrow_arith in Hsub; try lia.
    set (M := 2 ^ N.of_nat (length ra)) in *.
    assert (M1 : 1 <= M) by (unfold M; pose proof (pow2_pos (length ra)); lia).
    assert (Hrev : valN e r1 * M + valN e (rev ra)
                   = R * 2 ^ N.of_nat (S (length ra)) + valN e (rev (ai :: ra))).
    { cbn [rev]. rewrite valN_app, valN_cons, valN_nil, rev_length, pow2_S, HR1.
      fold M. ring. }
    rewrite <- Hrev. cbn [final_r].
    change (match q with [] => [] | a :: l => a :: firstn (length ra) l end) with (firstn (S (length ra)) q).
    assert (HQsplit : length q = n ->
              valN e (firstn (S (length ra)) q) =
              valN e (firstn (length ra) q) + M * (if e tw then 0 else 1)).
    { intros L. rewrite firstn_S_split, valN_app, firstn_length.
      replace (Nat.min (length ra) (length q)) with (length ra) by lia.
      replace i with (length ra) in Hq by lia. rewrite (Hq L). reflexivity. }
    assert (Hfin : length rret = n -> final_r ra nr rret = rret).
    { intros L. destruct ra; cbn [final_r]; auto; apply Hnr; [cbn in Hi; lia | lia]. }
    destruct Hsub as [[Ht Hlt] | [Ht Heq]]; rewrite Ht in *.
    + (* borrow: quotient bit 0, remainder unchanged; B <> 0 *)
      assert (HNR : valN e nr = valN e r1) by exact Hmux.
      assert (HB0 : B <> 0) by lia.
      destruct HI as [HQ HRm]; try (rewrite ?HNR, ?pow2_S; lia).
      rewrite HNR in HQ, HRm. unfold dq, dr in *.
      replace (B =? 0) with false in * by (symmetry; apply N.eqb_neq; exact HB0).
      split.
      * intros L. rewrite (HQsplit L), (HQ L). lia.
      * intros [Habs|L]; [discriminate|]. rewrite <- (Hfin L). apply HRm. right. exact L.
    + (* no borrow: quotient bit 1, remainder r1 - b *)
      assert (HNR : valN e nr = valN e dl) by exact Hmux.
      destruct HI as [HQ HRm].
      { intros HB0. specialize (Hb HB0). rewrite HNR. lia. }
      { rewrite HNR, pow2_S. lia. }
      rewrite HNR in HQ, HRm. unfold dq, dr in *.
      destruct (N.eqb_spec B 0) as [HB0|HB0].
      * (* zero divisor: all-ones quotient, the remainder accumulates the dividend *)
        assert (Ed : valN e dl = valN e r1) by lia. rewrite Ed in *.
        split.
        -- intros L. rewrite (HQsplit L), (HQ L). rewrite pow2_S. fold M. lia.
        -- intros [Habs|L]; [discriminate|]. rewrite <- (Hfin L). apply HRm. right. exact L.
      * destruct (div_step_final (valN e r1) B (valN e dl) 1 (valN e (rev ra)) M HB0 ltac:(lia)) as [D1 D2].
        split.
        -- intros L. rewrite (HQsplit L), (HQ L). exact D1.
        -- intros [Habs|L]; [discriminate|]. rewrite <- (Hfin L). rewrite <- D2. apply HRm. right. exact L.
Qed.

(* NewUDividerLong, any operand widths, quotient and/or remainder destination
   (nil or max(len a, len b) wires), any divisor *)
Theorem okm_udivider_long_gen a b q rret n :
  n = Nat.max (length a) (length b) -> (1 <= n)%nat ->
  (length q = n \/ q = []) -> (length rret = n \/ rret = []) ->
  okm false (udivider_long a b q rret)
      (fun _ e => (length q = n -> valN e q = dq (valN e a) (valN e b) n) /\
                  (length rret = n -> valN e rret = dr (valN e a) (valN e b))).
Proof.
  intros En Hn Lq Lrr. unfold udivider_long.
  eapply okm_bind_p; [apply okp_zero_pad|]. intros [a' b'] [Sa Sb]. cbn [fst snd] in *. cbv beta iota.
  pose proof (pad_shape_len _ _ _ Sa) as La. pose proof (pad_shape_len _ _ _ Sb) as Lb.
  assert (La' : length a' = n) by lia. assert (Lb' : length b' = n) by lia.
  eapply okm_bind_p with (R := fun r : list wire => length r = n) (P := fun r e => valN e r = 0).
  { replace (Nat.eqb (length a') 0) with false by (symmetry; apply Nat.eqb_neq; lia).
    eapply okp_bind; [apply okp_of_okm, okm_zero|]. intros z _. cbv beta.
    apply okp_ret; [rewrite repeat_length; exact La'|]. intros e Hz. apply valN_repeat0. exact Hz. }
  intros r0 Lr0. cbv beta.
  eapply okm_weaken.
  { apply (okm_udiv_long_loop_gen n (rev a') 0%nat (length a' - 1)%nat b' q rret r0);
      rewrite ?rev_length; try lia; assumption. }
  cbv beta. intros _ e HI Hr0 [Za Zb]. cbn [fst snd] in *. cbv zeta in HI.
  rewrite rev_length, rev_involutive, Hr0, N.mul_0_l, N.add_0_l in HI.
  rewrite (pad_val e a' a _ Sa Za), (pad_val e b' b _ Sb Zb), La' in HI.
  destruct HI as [HQ HR]; [intros H; lia | cbn; lia |].
  split.
  - intros L. specialize (HQ L). rewrite <- L, firstn_all in HQ. rewrite L in HQ. exact HQ.
  - intros L. assert (Hfin : final_r (rev a') r0 rret = rret).
    { destruct (rev a') eqn:E; [|reflexivity].
      apply (f_equal (@length wire)) in E. rewrite rev_length in E. cbn in E. lia. }
    rewrite <- Hfin. apply HR. right. exact L.
Qed.

Corollary okm_new_udivider_q a b q :
  (1 <= Nat.max (length a) (length b))%nat -> length q = Nat.max (length a) (length b) ->
  okm false (new_udivider a b q [])
      (fun _ e => valN e q = dq (valN e a) (valN e b) (length q)).
Proof.
  intros Hn Lq s W G. unfold new_udivider, bind, target_gmw. rewrite G.
  destruct (okm_udivider_long_gen a b q [] _ eq_refl Hn (or_introl Lq) (or_intror eq_refl) s W G)
    as (u & s' & E & W' & X & HP).
  exists u, s'. split; [exact E|]. split; [exact W'|]. split; [exact X|].
  intros e S. rewrite Lq. apply (HP e S). exact Lq.
Qed.

Corollary okm_new_udivider_r a b r :
  (1 <= Nat.max (length a) (length b))%nat -> length r = Nat.max (length a) (length b) ->
  okm false (new_udivider a b [] r)
      (fun _ e => valN e r = dr (valN e a) (valN e b)).
Proof.
  intros Hn Lr s W G. unfold new_udivider, bind, target_gmw. rewrite G.
  destruct (okm_udivider_long_gen a b [] r _ eq_refl Hn (or_intror eq_refl) (or_introl Lr) s W G)
    as (u & s' & E & W' & X & HP).
  exists u, s'. split; [exact E|]. split; [exact W'|]. split; [exact X|].
  intros e S. apply (HP e S). exact Lr.
Qed.

(* ---- destinations narrower than the operands: the low bits ----
   (ssagen types a division by the left operand: "x / 5" with x : uint24 has a
   24-wire result while the literal sits in a 32-bit container) *)
Lemma okm_qbit_le tw i q :
  okm false (if Nat.ltb i (length q)
             then bind zero_wire (fun z => bind one_wire (fun o =>
                    new_mux [tw] [z] [o] (firstn 1 (skipn i q))))
             else ret tt)
      (fun _ e => (i < length q)%nat -> valN e (firstn 1 (skipn i q)) = if e tw then 0 else 1).
Proof.
  destruct (Nat.ltb i (length q)) eqn:E.
  - apply Nat.ltb_lt in E. pose proof (okm_qbit tw i q E) as K.
    replace (Nat.ltb i (length q)) with true in K by (symmetry; apply Nat.ltb_lt; exact E).
    eapply okm_weaken; [exact K|]. auto.
  - apply Nat.ltb_ge in E. apply okm_ret. intros e H. lia.
Qed.

Lemma okp_next_r_le i (rret r1 : list wire) : (length rret <= length r1)%nat ->
  okp false (if Nat.eqb i 0
             then let k := Nat.min (length rret) (length r1) in
                  bind (fresh_n (length r1 - k)) (fun fr => ret (firstn k rret ++ fr))
             else fresh_n (length r1))
      (fun nr => length nr = length r1 /\ (i = 0%nat -> firstn (length rret) nr = rret))
      (fun _ _ => True).
Proof.
  intros L. destruct (Nat.eqb i 0) eqn:E.
  - cbv zeta. replace (Nat.min (length rret) (length r1)) with (length rret) by lia.
    rewrite firstn_all.
    eapply okp_bind; [apply okp_fresh_n|]. intros fr Lf. cbv beta in Lf |- *.
    apply okp_ret; auto. split; [rewrite app_length; lia|]. intros _.
    rewrite firstn_app, firstn_all, Nat.sub_diag. cbn [firstn]. apply app_nil_r.
  - apply Nat.eqb_neq in E. eapply okp_weaken; [apply okp_fresh_n | |]; cbv beta; auto.
    intros a H. split; auto. intros; lia.
Qed.

Lemma mod_add_pow2 x y m k : (k <= m)%nat ->
  (x + 2 ^ N.of_nat m * y) mod 2 ^ N.of_nat k = x mod 2 ^ N.of_nat k.
Proof.
  intros H. replace (N.of_nat m) with (N.of_nat k + N.of_nat (m - k)) by lia.
  rewrite N.pow_add_r.
  replace (x + 2 ^ N.of_nat k * 2 ^ N.of_nat (m - k) * y) with (x + (2 ^ N.of_nat (m - k) * y) * 2 ^ N.of_nat k) by ring.
  apply N.mod_add. apply N.pow_nonzero. discriminate.
Qed.

Lemma okm_udiv_long_loop_le n : forall ra k i b q rret r,
  (k + length ra = n)%nat -> i = (length ra - 1)%nat ->
  length b = n -> (length q <= n)%nat -> (length rret <= n)%nat -> length r = n ->
  okm false (udiv_long_loop ra i b q rret r)
      (fun _ e =>
         (valN e b <> 0 -> valN e r < valN e b) -> valN e r < 2 ^ N.of_nat k ->
         let A := valN e r * 2 ^ N.of_nat (length ra) + valN e (rev ra) in
         valN e (firstn (length ra) q) = dq A (valN e b) (length ra) mod 2 ^ N.of_nat (length q) /\
         match ra with
         | [] => valN e r = dr A (valN e b)
         | _ :: _ => valN e rret = dr A (valN e b) mod 2 ^ N.of_nat (length rret)
         end).
Proof.
  induction ra as [|ai ra IH]; intros k i b q rret r Hk Hi Lb Lq Lrr Lr.
  - cbn [udiv_long_loop]. apply okm_ret. intros e Hb _. cbn [length rev firstn].
    rewrite valN_nil. change (2 ^ N.of_nat 0) with 1. rewrite N.mul_1_r, N.add_0_r.
    assert (Z0 : 0 mod 2 ^ N.of_nat (length q) = 0) by (apply N.mod_0_l, N.pow_nonzero; discriminate).
    unfold dq, dr. destruct (N.eqb_spec (valN e b) 0) as [E|E].
    + change (2 ^ N.of_nat 0 - 1) with 0. rewrite Z0. split; reflexivity.
    + specialize (Hb E).
      rewrite (N.div_small (valN e r) (valN e b)), (N.mod_small (valN e r) (valN e b)) by assumption.
      rewrite Z0. auto.
  - cbn [udiv_long_loop]. cbv zeta.
    remember (ai :: removelast r) as r1 eqn:Er1. cbn [length] in *.
    assert (Lr1 : length r1 = n).
    { subst r1. cbn [length]. rewrite removelast_len. lia. }
    eapply okm_bind_p; [apply okp_fresh_n | intros d0 Ld0; cbv beta in Ld0 |- *].
    eapply okm_bind_p; [apply okp_new_subtractor_yao; lia | intros diff Ld; cbv beta in Ld |- *].
    assert (Hne : diff <> []) by (intros ->; cbn in Ld; lia).
    destruct (exists_last Hne) as (dl & tw & ->). clear Hne.
    rewrite app_length in Ld. cbn [length] in Ld.
    assert (Ldl : length dl = n) by lia.
    replace (length (dl ++ [tw]) - 1)%nat with (length dl) by (rewrite app_length; cbn; lia).
    rewrite skipn_app, skipn_all, Nat.sub_diag. cbn [skipn app].
    rewrite firstn_app, firstn_all, Nat.sub_diag. cbn [firstn]. rewrite app_nil_r.
    eapply okm_bind; [apply (okm_qbit_le tw i q) | intros u1; cbv beta].
    eapply okm_bind_p; [apply okp_next_r_le; lia | intros nr [Lnr Hnr]; cbv beta].
    eapply okm_bind; [apply okm_new_mux; lia | intros u2; cbv beta].
    eapply okm_weaken.
    { apply (IH (S k) (i - 1)%nat b q rret nr); try lia; assumption. }
    cbv beta. intros _ e HI Hmux _ Hq Hsub _ Hb Hkk. cbv zeta.
    set (B := valN e b) in *. set (R := valN e r) in *.
    assert (Hpk : 2 ^ N.of_nat (S k) <= 2 ^ N.of_nat n) by (apply N.pow_le_mono_r; lia).
    rewrite pow2_S in Hpk.
    assert (HR1 : valN e r1 = N.b2n (e ai) + 2 * R).
    { subst r1. rewrite valN_cons, valN_removelast, Lr. f_equal. f_equal.
      apply N.mod_small. fold R.
      eapply N.lt_le_trans; [exact Hkk|]. apply N.pow_le_mono_r; lia. }
    pose proof (b2n_le1 (e ai)) as Hai.
    assert (HB : B < 2 ^ N.of_nat n) by (unfold B; rewrite <- Lb; apply valN_lt).
    assert (HDn : valN e dl < 2 ^ N.of_nat n) by (rewrite <- Ldl; apply valN_lt).
    rewrite valN_app, valN_cons, valN_nil, Ldl in Hsub.
    rewrite Ld0, Lr1 in Hsub. replace (n + 1)%nat with (S n) in Hsub by lia.
    rewrite pow2_S in Hsub.
    apply div_borrow_arith in Hsub; try lia.
    set (m := length ra) in *.
    set (M := 2 ^ N.of_nat m) in *.
    assert (M1 : 1 <= M) by (unfold M; pose proof (pow2_pos m); lia).
    set (L := valN e (rev ra)) in *.
    assert (HL : L < M) by (unfold L, M, m; rewrite <- (rev_length ra); apply valN_lt).
    assert (Hrev : valN e r1 * M + L = R * 2 ^ N.of_nat (S m) + valN e (rev (ai :: ra))).
    { cbn [rev]. rewrite valN_app, valN_cons, valN_nil, rev_length, pow2_S, HR1.
      fold m M L. ring. }
    rewrite <- Hrev.
    change (match q with [] => [] | a :: l => a :: firstn m l end) with (firstn (S m) q).
    set (A1 := valN e r1 * M + L) in *.
    (* the three outcomes of the step: quotient bit qb, new remainder NR *)
    assert (Key : exists qb : N,
              (if e tw then 0 else 1) = qb /\
              (B <> 0 -> valN e nr < B) /\ valN e nr < 2 ^ N.of_nat (S k) /\
              dq A1 B (S m) = dq (valN e nr * M + L) B m + M * qb /\
              dq (valN e nr * M + L) B m < M /\
              dr A1 B = dr (valN e nr * M + L) B).
    { destruct Hsub as [[Ht Hlt] | [Ht Heq]]; rewrite Ht in *.
      - assert (HNR : valN e nr = valN e r1) by exact Hmux.
        assert (HB0 : B <> 0) by lia.
        exists 0. rewrite HNR. unfold dq, dr.
        replace (B =? 0) with false by (symmetry; apply N.eqb_neq; exact HB0).
        split; [reflexivity|]. split; [intros _; exact Hlt|]. split; [rewrite pow2_S; lia|].
        split; [fold A1; lia|]. split; [|reflexivity].
        fold A1. apply N.div_lt_upper_bound; [exact HB0|]. unfold A1. nia.
      - assert (HNR : valN e nr = valN e dl) by exact Hmux.
        exists 1. rewrite HNR. unfold dq, dr.
        destruct (N.eqb_spec B 0) as [HB0|HB0].
        + assert (Ed : valN e dl = valN e r1) by lia. rewrite Ed. fold A1.
          split; [reflexivity|]. split; [intros K; contradiction|]. split; [rewrite pow2_S; lia|].
          split; [rewrite pow2_S; fold M; lia|]. split; [lia|reflexivity].
        + destruct (div_step_final (valN e r1) B (valN e dl) 1 L M HB0 ltac:(lia)) as [D1 D2].
          fold A1 in D1, D2.
          split; [reflexivity|]. split; [intros _; specialize (Hb HB0); lia|].
          split; [rewrite pow2_S; lia|].
          split; [rewrite <- D1; lia|]. split; [|symmetry; exact D2].
          apply N.div_lt_upper_bound; [exact HB0|]. specialize (Hb HB0). nia. }
    destruct Key as (qb & Eqb & K1 & K2 & KQ & KB & KR).
    destruct HI as [HQ HRm]; [exact K1|exact K2|].
    fold M L in HQ, HRm. rewrite KQ, KR.
    split.
    + destruct (Nat.ltb m (length q)) eqn:Emq.
      * apply Nat.ltb_lt in Emq.
        rewrite firstn_S_split, valN_app, firstn_length.
        replace (Nat.min m (length q)) with m by lia.
        replace i with m in Hq by lia. rewrite (Hq Emq), Eqb, HQ. fold M.
        assert (PM : 2 * M <= 2 ^ N.of_nat (length q)).
        { unfold M. rewrite <- pow2_S. apply N.pow_le_mono_r; lia. }
        assert (Qb : qb <= 1) by (rewrite <- Eqb; destruct (e tw); lia).
        rewrite !N.mod_small by nia. reflexivity.
      * apply Nat.ltb_ge in Emq. rewrite !firstn_all2 in * by lia.
        rewrite HQ. unfold M. symmetry. apply mod_add_pow2. exact Emq.
    + destruct ra as [|aj ra'].
      * cbn [length] in *. assert (Hi0 : i = 0%nat) by lia.
        rewrite <- (Hnr Hi0) at 1. rewrite valN_firstn. f_equal. exact HRm.
      * exact HRm.
Qed.

Theorem okm_udivider_long_le a b q rret n :
  n = Nat.max (length a) (length b) -> (1 <= n)%nat ->
  (length q <= n)%nat -> (length rret <= n)%nat ->
  okm false (udivider_long a b q rret)
      (fun _ e => valN e q = dq (valN e a) (valN e b) n mod 2 ^ N.of_nat (length q) /\
                  valN e rret = dr (valN e a) (valN e b) mod 2 ^ N.of_nat (length rret)).
Proof.
  intros En Hn Lq Lrr. unfold udivider_long.
  eapply okm_bind_p; [apply okp_zero_pad|]. intros [a' b'] [Sa Sb]. cbn [fst snd] in *. cbv beta iota.
  pose proof (pad_shape_len _ _ _ Sa) as La. pose proof (pad_shape_len _ _ _ Sb) as Lb.
  assert (La' : length a' = n) by lia. assert (Lb' : length b' = n) by lia.
  eapply okm_bind_p with (R := fun r : list wire => length r = n) (P := fun r e => valN e r = 0).
  { replace (Nat.eqb (length a') 0) with false by (symmetry; apply Nat.eqb_neq; lia).
    eapply okp_bind; [apply okp_of_okm, okm_zero|]. intros z _. cbv beta.
    apply okp_ret; [rewrite repeat_length; exact La'|]. intros e Hz. apply valN_repeat0. exact Hz. }
  intros r0 Lr0. cbv beta.
  eapply okm_weaken.
  { apply (okm_udiv_long_loop_le n (rev a') 0%nat (length a' - 1)%nat b' q rret r0);
      rewrite ?rev_length; try lia; assumption. }
  cbv beta. intros _ e HI Hr0 [Za Zb]. cbn [fst snd] in *. cbv zeta in HI.
  rewrite rev_length, rev_involutive, Hr0, N.mul_0_l, N.add_0_l in HI.
  rewrite (pad_val e a' a _ Sa Za), (pad_val e b' b _ Sb Zb), La' in HI.
  destruct HI as [HQ HR]; [intros H; lia | cbn; lia |].
  rewrite firstn_all2 in HQ by lia. split; [exact HQ|].
  destruct (rev a') eqn:E; [|exact HR].
  apply (f_equal (@length wire)) in E. rewrite rev_length in E. cbn in E. lia.
Qed.

Corollary okm_new_udivider_q_le a b q :
  (1 <= Nat.max (length a) (length b))%nat -> (length q <= Nat.max (length a) (length b))%nat ->
  okm false (new_udivider a b q [])
      (fun _ e => valN e q = dq (valN e a) (valN e b) (Nat.max (length a) (length b))
                             mod 2 ^ N.of_nat (length q)).
Proof.
  intros Hn Lq s W G. unfold new_udivider, bind, target_gmw. rewrite G.
  destruct (okm_udivider_long_le a b q [] _ eq_refl Hn Lq ltac:(cbn; lia) s W G)
    as (u & s' & E & W' & X & HP).
  exists u, s'. split; [exact E|]. split; [exact W'|]. split; [exact X|].
  intros e S. apply (HP e S).
Qed.

Corollary okm_new_udivider_r_le a b r :
  (1 <= Nat.max (length a) (length b))%nat -> (length r <= Nat.max (length a) (length b))%nat ->
  okm false (new_udivider a b [] r)
      (fun _ e => valN e r = dr (valN e a) (valN e b) mod 2 ^ N.of_nat (length r)).
Proof.
  intros Hn Lr s W G. unfold new_udivider, bind, target_gmw. rewrite G.
  destruct (okm_udivider_long_le a b [] r _ eq_refl Hn ltac:(cbn; lia) Lr s W G)
    as (u & s' & E & W' & X & HP).
  exists u, s'. split; [exact E|]. split; [exact W'|]. split; [exact X|].
  intros e S. apply (HP e S).
Qed.

(* ---------------------------------------------------------------- signed *)
(* NewIDivider = sign handling (prefix) followed by the unsigned division of
   the magnitudes and the conditional negation of the quotient (suffix) *)
Open Scope monad_scope.
Definition idiv_prefix (a b : list wire) : M (list wire * list wire * wire * wire) :=
  '(a, b) <- zero_pad a b;;
  z0 <- zero_wire;;
  let zero_ := [z0] in
  let neg0 := z0 in
  let alast := skipn (length a - 1) a in
  let blast := skipn (length b - 1) b in
  neg1 <- fresh;;
  cc_inv neg0 neg1;;
  a1 <- fresh_n (length a);;
  a1 <- new_subtractor zero_ a a1;;
  neg2 <- fresh;;
  new_mux alast [neg1] [neg0] [neg2];;
  a2 <- fresh_n (length a);;
  new_mux alast a1 a a2;;
  neg3 <- fresh;;
  cc_inv neg2 neg3;;
  b1 <- fresh_n (length b);;
  b1 <- new_subtractor zero_ b b1;;
  neg4 <- fresh;;
  new_mux blast [neg3] [neg2] [neg4];;
  b2 <- fresh_n (length b);;
  new_mux blast b1 b b2;;
  ret (a2, b2, neg4, z0).

Definition idiv_suffix (p : list wire * list wire * wire * wire) (q r : list wire) : M unit :=
  let '(a2, b2, neg4, z0) := p in
  if Nat.eqb (length q) 0 then new_udivider a2 b2 q r
  else
    q0 <- fresh_n (length q);;
    new_udivider a2 b2 q0 r;;
    q1 <- fresh_n (length q);;
    q1 <- new_subtractor [z0] q0 q1;;
    new_mux [neg4] q1 q0 q.

Lemma idiv_split a b q r s :
  new_idivider a b q r s = bind (idiv_prefix a b) (fun p => idiv_suffix p q r) s.
Proof.
  unfold new_idivider, idiv_prefix, idiv_suffix, bind, ret.
  destruct (zero_pad a b s) as [[a' b'] s0].
  repeat match goal with
         | |- context [let (_, _) := ?m ?s in _] =>
             lazymatch m with
             | context [let (_, _) := _ in _] => fail
             | _ => destruct (m s) as [? ?]
             end
         end; try reflexivity.
Qed.

Lemma okm_ext t {A} (m m' : M A) (P : A -> env -> Prop) :
  (forall s, m s = m' s) -> okm t m' P -> okm t m P.
Proof. intros H K s W G. rewrite H. apply K; assumption. Qed.

Local Ltac ost L x h :=
  eapply okp_bind; [apply L; try (cbn [length]; lia) | intros x h; cbv beta in h |- *].
Local Ltac osm L x :=
  eapply okp_bind; [apply okp_of_okm, L; try (cbn [length]; lia) | intros x _; cbv beta].

Lemma valN_last_testbit (e : env) : forall x : list wire, x <> [] ->
  N.testbit (valN e x) (N.of_nat (length x - 1)) = e (last x 0).
Proof.
  induction x as [|w x IH]; intros H; [congruence|].
  destruct x as [|w' x'].
  - cbn [length last]. rewrite valN_cons, valN_nil. cbn [Nat.sub N.of_nat].
    rewrite N.mul_0_r, N.add_0_r. apply N.b2n_bit0.
  - change (last (w :: w' :: x') 0) with (last (w' :: x') 0). rewrite <- IH by discriminate.
    rewrite valN_cons, N.add_comm. cbn [length].
    replace (S (S (length x')) - 1)%nat with (S (S (length x') - 1)) by lia.
    rewrite Nat2N.inj_succ, N.testbit_succ_r. reflexivity.
Qed.

(* sign handling: a2 = |a|, b2 = |b| as n-bit patterns (n = the wider operand; the
   narrower one is ZERO padded, so its sign bit reads 0), neg4 = sign(a) xor sign(b) *)
Lemma okp_idiv_prefix a b n :
  n = Nat.max (length a) (length b) -> (1 <= n)%nat ->
  okp false (idiv_prefix a b)
      (fun p => let '(a2, b2, neg4, z0) := p in length a2 = n /\ length b2 = n)
      (fun p e => let '(a2, b2, neg4, z0) := p in
         let sa := N.testbit (valN e a) (N.of_nat (n - 1)) in
         let sb := N.testbit (valN e b) (N.of_nat (n - 1)) in
         e z0 = false /\
         valN e a2 = (if sa then negN n (valN e a) else valN e a) /\
         valN e b2 = (if sb then negN n (valN e b) else valN e b) /\
         e neg4 = xorb sa sb).
Proof.
  intros En Hn. unfold idiv_prefix.
  eapply okp_bind; [apply okp_zero_pad|]. intros [a' b'] [Sa Sb]. cbn [fst snd] in *. cbv beta iota.
  pose proof (pad_shape_len _ _ _ Sa) as La. pose proof (pad_shape_len _ _ _ Sb) as Lb.
  assert (La' : length a' = n) by lia. assert (Lb' : length b' = n) by lia.
  osm okm_zero z0. cbv zeta.
  rewrite (skipn_last (0 : wire) a'), (skipn_last (0 : wire) b') by lia.
  set (aw := last a' (0 : wire)). set (bw := last b' (0 : wire)).
  osm okm_fresh neg1. osm okm_cc_inv u1.
  ost okp_fresh_n a10 La10. ost okp_new_subtractor_yao a1 La1.
  osm okm_fresh neg2. osm okm_new_mux_bits u2.
  ost okp_fresh_n a2 La2. osm okm_new_mux u3.
  osm okm_fresh neg3. osm okm_cc_inv u4.
  ost okp_fresh_n b10 Lb10. ost okp_new_subtractor_yao b1 Lb1.
  osm okm_fresh neg4. osm okm_new_mux_bits u5.
  ost okp_fresh_n b2 Lb2. osm okm_new_mux u6.
  apply okp_ret; [split; lia|].
  intros e Hb2 _ Hneg4 _ Hb1 _ Hneg3 _ Ha2 _ Hneg2 _ Ha1 _ Hneg1 _ Hz0 [Za Zb].
  cbn [fst snd] in *. cbv zeta.
  apply (zero_sub_val e z0 a' a10) in Ha1; auto.
  apply (zero_sub_val e z0 b' b10) in Hb1; auto; try lia.
  cbn [map] in Hneg2, Hneg4. rewrite Hz0 in Hneg1. cbn in Hneg1.
  assert (E2 : e neg2 = e aw).
  { destruct (e aw); inversion Hneg2; congruence. }
  assert (E4 : e neg4 = xorb (e aw) (e bw)).
  { rewrite Hneg3, E2 in Hneg4. destruct (e bw); inversion Hneg4 as [HH]; rewrite HH;
      destruct (e aw); reflexivity. }
  rewrite Ha1 in Ha2. rewrite Hb1 in Hb2.
  assert (Na : a' <> []) by (intros ->; cbn in La'; lia).
  assert (Nb : b' <> []) by (intros ->; cbn in Lb'; lia).
  pose proof (valN_last_testbit e a' Na) as Ta. pose proof (valN_last_testbit e b' Nb) as Tb.
  fold aw in Ta. fold bw in Tb.
  rewrite (pad_val e a' a _ Sa Za) in *. rewrite (pad_val e b' b _ Sb Zb) in *.
  rewrite La' in *. rewrite Lb' in *. rewrite Ta, Tb. auto.
Qed.

(* imod: NewIDivider(cc, a, b, nil, r) *)
Theorem okm_new_idivider_r a b r :
  (1 <= Nat.max (length a) (length b))%nat -> length r = Nat.max (length a) (length b) ->
  okm false (new_idivider a b [] r)
      (fun _ e =>
         let n := Nat.max (length a) (length b) in
         let sa := N.testbit (valN e a) (N.of_nat (n - 1)) in
         let sb := N.testbit (valN e b) (N.of_nat (n - 1)) in
         let A := if sa then negN n (valN e a) else valN e a in
         let B := if sb then negN n (valN e b) else valN e b in
         valN e r = dr A B).
Proof.
  intros Hn Lr. eapply okm_ext; [intros s; apply idiv_split|].
  eapply okm_bind_p; [apply (okp_idiv_prefix a b _ eq_refl Hn)|].
  intros [[[a2 b2] neg4] z0] [La2 Lb2]. cbv beta. unfold idiv_suffix. cbn [length Nat.eqb].
  eapply okm_weaken; [apply okm_new_udivider_r; lia|]. cbv beta.
  intros _ e H (Hz & HA & HB & HN). cbv zeta. rewrite H, HA, HB. reflexivity.
Qed.

(* idiv: NewIDivider(cc, a, b, q, nil) *)
Theorem okm_new_idivider_q a b q :
  (1 <= Nat.max (length a) (length b))%nat -> length q = Nat.max (length a) (length b) ->
  okm false (new_idivider a b q [])
      (fun _ e =>
         let n := Nat.max (length a) (length b) in
         let sa := N.testbit (valN e a) (N.of_nat (n - 1)) in
         let sb := N.testbit (valN e b) (N.of_nat (n - 1)) in
         let A := if sa then negN n (valN e a) else valN e a in
         let B := if sb then negN n (valN e b) else valN e b in
         valN e q = if xorb sa sb then negN n (dq A B n) else dq A B n).
Proof.
  intros Hn Lq. eapply okm_ext; [intros s; apply idiv_split|].
  eapply okm_bind_p; [apply (okp_idiv_prefix a b _ eq_refl Hn)|].
  intros [[[a2 b2] neg4] z0] [La2 Lb2]. cbv beta. unfold idiv_suffix.
  replace (Nat.eqb (length q) 0) with false by (symmetry; apply Nat.eqb_neq; lia).
  eapply okm_bind_p; [apply okp_fresh_n|]. intros q0 Lq0. cbv beta in Lq0 |- *.
  eapply okm_bind; [apply okm_new_udivider_q; lia|]. intros u7. cbv beta.
  eapply okm_bind_p; [apply okp_fresh_n|]. intros q10 Lq10. cbv beta in Lq10 |- *.
  eapply okm_bind_p; [apply okp_new_subtractor_yao; cbn [length]; lia|]. intros q1 Lq1. cbv beta in Lq1 |- *.
  eapply okm_weaken; [apply okm_new_mux; lia|]. cbv beta.
  intros _ e Hq Hq1 _ Hdiv _ (Hz & HA & HB & HN). cbv zeta.
  apply (zero_sub_val e z0 q0 q10) in Hq1; auto; try lia.
  rewrite Lq0, Lq in Hq1. rewrite Hq1, HN in Hq. rewrite Hq, Hdiv, HA, HB, Lq0, Lq. reflexivity.
Qed.

(* ---- signed division into a destination narrower than the operands ---- *)
Lemma dq_lt A B n : A < 2 ^ N.of_nat n -> dq A B n < 2 ^ N.of_nat n.
Proof.
  intros H. unfold dq. destruct (N.eqb_spec B 0) as [E|E].
  - pose proof (pow2_pos n). lia.
  - eapply N.le_lt_trans; [|exact H]. apply N.div_le_upper_bound; [exact E|]. nia.
Qed.

Lemma negN_mod n k x : (k <= n)%nat -> x <= 2 ^ N.of_nat n ->
  negN k (x mod 2 ^ N.of_nat k) = negN n x mod 2 ^ N.of_nat k.
Proof.
  intros Hk Hx. unfold negN.
  assert (Pk : 2 ^ N.of_nat k <> 0) by (apply N.pow_nonzero; discriminate).
  assert (Pn : 2 ^ N.of_nat n <> 0) by (apply N.pow_nonzero; discriminate).
  pose proof (N.mod_lt x _ Pk) as Hy.
  assert (En : 2 ^ N.of_nat n = 2 ^ N.of_nat (n - k) * 2 ^ N.of_nat k).
  { rewrite <- N.pow_add_r. f_equal. lia. }
  apply N2Z.inj.
  rewrite !N2Z.inj_mod, !N2Z.inj_sub by lia. rewrite N2Z.inj_mod.
  set (K := Z.of_N (2 ^ N.of_nat k)). set (M := Z.of_N (2 ^ N.of_nat n)). set (X := Z.of_N x).
  assert (EM : M = (Z.of_N (2 ^ N.of_nat (n - k)) * K)%Z) by (unfold M, K; rewrite En, N2Z.inj_mul; reflexivity).
  assert (K0 : (0 < K)%Z) by (unfold K; lia).
  assert (M0 : (0 < M)%Z) by (unfold M; lia).
  rewrite <- (Zmod_div_mod K M) by (auto; exists (Z.of_N (2 ^ N.of_nat (n - k))); exact EM).
  replace (K - X mod K)%Z with (0 - X mod K + 1 * K)%Z by lia.
  rewrite Z_mod_plus_full, Zminus_mod_idemp_r.
  rewrite EM. replace (Z.of_N (2 ^ N.of_nat (n - k)) * K - X)%Z with (0 - X + Z.of_N (2 ^ N.of_nat (n - k)) * K)%Z by lia.
  rewrite Z_mod_plus_full. reflexivity.
Qed.

Theorem okm_new_idivider_r_le a b r :
  (1 <= Nat.max (length a) (length b))%nat -> (length r <= Nat.max (length a) (length b))%nat ->
  okm false (new_idivider a b [] r)
      (fun _ e =>
         let n := Nat.max (length a) (length b) in
         let sa := N.testbit (valN e a) (N.of_nat (n - 1)) in
         let sb := N.testbit (valN e b) (N.of_nat (n - 1)) in
         let A := if sa then negN n (valN e a) else valN e a in
         let B := if sb then negN n (valN e b) else valN e b in
         valN e r = dr A B mod 2 ^ N.of_nat (length r)).
Proof.
  intros Hn Lr. eapply okm_ext; [intros s; apply idiv_split|].
  eapply okm_bind_p; [apply (okp_idiv_prefix a b _ eq_refl Hn)|].
  intros [[[a2 b2] neg4] z0] [La2 Lb2]. cbv beta. unfold idiv_suffix. cbn [length Nat.eqb].
  eapply okm_weaken; [apply okm_new_udivider_r_le; lia|]. cbv beta.
  intros _ e H (Hz & HA & HB & HN). cbv zeta. rewrite H, HA, HB. reflexivity.
Qed.

Theorem okm_new_idivider_q_le a b q :
  (1 <= Nat.max (length a) (length b))%nat ->
  (1 <= length q)%nat -> (length q <= Nat.max (length a) (length b))%nat ->
  okm false (new_idivider a b q [])
      (fun _ e =>
         let n := Nat.max (length a) (length b) in
         let sa := N.testbit (valN e a) (N.of_nat (n - 1)) in
         let sb := N.testbit (valN e b) (N.of_nat (n - 1)) in
         let A := if sa then negN n (valN e a) else valN e a in
         let B := if sb then negN n (valN e b) else valN e b in
         valN e q = (if xorb sa sb then negN n (dq A B n) else dq A B n) mod 2 ^ N.of_nat (length q)).
Proof.
  intros Hn Hq1 Lq. eapply okm_ext; [intros s; apply idiv_split|].
  eapply okm_bind_p; [apply (okp_idiv_prefix a b _ eq_refl Hn)|].
  intros [[[a2 b2] neg4] z0] [La2 Lb2]. cbv beta. unfold idiv_suffix.
  replace (Nat.eqb (length q) 0) with false by (symmetry; apply Nat.eqb_neq; lia).
  eapply okm_bind_p; [apply okp_fresh_n|]. intros q0 Lq0. cbv beta in Lq0 |- *.
  eapply okm_bind; [apply okm_new_udivider_q_le; lia|]. intros u7. cbv beta.
  eapply okm_bind_p; [apply okp_fresh_n|]. intros q10 Lq10. cbv beta in Lq10 |- *.
  eapply okm_bind_p; [apply okp_new_subtractor_yao; cbn [length]; lia|]. intros q1 Lq1. cbv beta in Lq1 |- *.
  eapply okm_weaken; [apply okm_new_mux; lia|]. cbv beta.
  intros _ e Hq Hq1' _ Hdiv _ (Hz & HA & HB & HN). cbv zeta.
  apply (zero_sub_val e z0 q0 q10) in Hq1'; auto; try lia.
  assert (Bd : valN e a2 < 2 ^ N.of_nat (Nat.max (length a) (length b))) by (rewrite <- La2; apply valN_lt).
  rewrite HA in Bd.
  rewrite Hq, HN, Hq1', Hdiv, HA, HB, La2, Lb2, Nat.max_id, Lq0.
  match goal with |- (if ?c then _ else _) = _ => destruct c end; [|reflexivity].
  apply negN_mod; [lia|]. apply N.lt_le_incl, dq_lt. exact Bd.
Qed.

(* ---- structure: single assignment / defined before use ---- *)
Section IS.
Variable ninp : N.
Notation defd := (defd ninp). Notation pend := (pend ninp). Notation wfst := (wfst ninp).
Notation step := (step ninp). Notation oks := (@oks ninp _).

Lemma oks_ext {A} (m m' : M A) s (Q : A -> st -> Prop) : m s = m' s -> oks m' s Q -> oks m s Q.
Proof. intros H (a & s' & E & K). exists a, s'. rewrite H. auto. Qed.

(* the sign handling writes only wires it allocates itself: every wire pending
   before is still pending (step s s' []) *)
Lemma idiv_prefix_s s a b n :
  gmw s = false -> wfst s -> Forall (defd s) a -> Forall (defd s) b ->
  n = Nat.max (length a) (length b) -> (1 <= n)%nat ->
  oks (idiv_prefix a b) s
      (fun p s' => let '(a2, b2, neg4, z0) := p in
         step s s' [] /\ Forall (defd s') a2 /\ Forall (defd s') b2 /\ defd s' neg4 /\ defd s' z0 /\
         length a2 = n /\ length b2 = n).
Proof.
  intros G W Fa Fb En Hn. unfold idiv_prefix.
  sbind zero_pad_s. intros [a' b'] s1 W1 (S1 & Fa' & Fb' & La' & Lb'). cbn [fst snd] in *.
  cbv beta iota zeta. rewrite <- En in La', Lb'.
  sbind zero_s. intros z0 s2 W2 (S2 & Dz0). cbv beta.
  destruct (skipn_last1 a') as (ca & Eca & Ica); [lia|].
  destruct (skipn_last1 b') as (cb & Ecb & Icb); [lia|].
  rewrite Eca, Ecb.
  assert (Dca : defd s1 ca) by (rewrite Forall_forall in Fa'; auto).
  assert (Dcb : defd s1 cb) by (rewrite Forall_forall in Fb'; auto).
  pose proof (step_trans _ _ _ _ _ _ S1 S2) as S02. cbn [app] in S02.
  (* neg1 = INV(neg0) *)
  sbind fresh_s. intros neg1 s3 W3 (E3 & P3 & S3 & N3). cbv beta.
  pose proof (step_trans _ _ _ _ _ _ S02 S3) as S03. cbn [app] in S03.
  eapply oks_bind; [apply cc_inv_s; [auto|sdb|exact P3]|]. intros _ s4 W4 (S4 & D4). cbv beta.
  adv S03 S4 S04 fr1.
  (* a1 = 0 - a *)
  sbind fresh_n_s. intros a10 s5 W5 (S5 & ND5 & L5 & P5). cbv beta.
  pose proof (step_trans _ _ _ _ _ _ S04 S5) as S05. cbn [app] in S05.
  eapply oks_bind; [apply new_subtractor_yao_s; auto|].
  { rewrite (step_gmw _ _ _ _ S05). exact G. }
  { constructor; [sdb|constructor]. }
  { sfd. }
  { eapply Forall_pend_of; eauto. }
  { lia. }
  { cbn [length]. lia. }
  intros a1 s6 W6 (S6 & F6 & L6). cbv beta.
  adv S05 S6 S06 ltac:(frn P5).
  (* neg2 = a[last] ? neg1 : neg0 *)
  sbind fresh_s. intros neg2 s7 W7 (E7 & P7 & S7 & N7). cbv beta.
  pose proof (step_trans _ _ _ _ _ _ S06 S7) as S07. cbn [app] in S07.
  eapply oks_bind; [apply new_mux_s; auto|].
  { sdb. }
  { constructor; [sdb|constructor]. }
  { constructor; [sdb|constructor]. }
  { constructor; [intros []|constructor]. }
  intros _ s8 W8 (S8 & F8). cbv beta.
  assert (D8 : defd s8 neg2) by (apply Forall_cons_iff in F8 as (D & _); exact D).
  adv S07 S8 S08 fr1.
  (* a2 = a[last] ? a1 : a *)
  sbind fresh_n_s. intros a2 s9 W9 (S9 & ND9 & L9 & P9). cbv beta.
  pose proof (step_trans _ _ _ _ _ _ S08 S9) as S09. cbn [app] in S09.
  eapply oks_bind; [apply new_mux_s; auto|].
  { sdb. }
  { sfd. }
  { sfd. }
  { eapply Forall_pend_of; eauto. }
  { lia. }
  intros _ s10 W10 (S10 & F10). cbv beta.
  adv S09 S10 S010 ltac:(frn P9).
  (* neg3 = INV(neg2) *)
  sbind fresh_s. intros neg3 s11 W11 (E11 & P11 & S11 & N11). cbv beta.
  pose proof (step_trans _ _ _ _ _ _ S010 S11) as S011. cbn [app] in S011.
  eapply oks_bind; [apply cc_inv_s; [auto|sdb|exact P11]|]. intros _ s12 W12 (S12 & D12). cbv beta.
  adv S011 S12 S012 fr1.
  (* b1 = 0 - b *)
  sbind fresh_n_s. intros b10 s13 W13 (S13 & ND13 & L13 & P13). cbv beta.
  pose proof (step_trans _ _ _ _ _ _ S012 S13) as S013. cbn [app] in S013.
  eapply oks_bind; [apply new_subtractor_yao_s; auto|].
  { rewrite (step_gmw _ _ _ _ S013). exact G. }
  { constructor; [sdb|constructor]. }
  { sfd. }
  { eapply Forall_pend_of; eauto. }
  { lia. }
  { cbn [length]. lia. }
  intros b1 s14 W14 (S14 & F14 & L14). cbv beta.
  adv S013 S14 S014 ltac:(frn P13).
  (* neg4 = b[last] ? neg3 : neg2 *)
  sbind fresh_s. intros neg4 s15 W15 (E15 & P15 & S15 & N15). cbv beta.
  pose proof (step_trans _ _ _ _ _ _ S014 S15) as S015. cbn [app] in S015.
  eapply oks_bind; [apply new_mux_s; auto|].
  { sdb. }
  { constructor; [sdb|constructor]. }
  { constructor; [sdb|constructor]. }
  { constructor; [intros []|constructor]. }
  intros _ s16 W16 (S16 & F16). cbv beta.
  assert (D16 : defd s16 neg4) by (apply Forall_cons_iff in F16 as (D & _); exact D).
  adv S015 S16 S016 fr1.
  (* b2 = b[last] ? b1 : b *)
  sbind fresh_n_s. intros b2 s17 W17 (S17 & ND17 & L17 & P17). cbv beta.
  pose proof (step_trans _ _ _ _ _ _ S016 S17) as S017. cbn [app] in S017.
  eapply oks_bind; [apply new_mux_s; auto|].
  { sdb. }
  { sfd. }
  { sfd. }
  { eapply Forall_pend_of; eauto. }
  { lia. }
  intros _ s18 W18 (S18 & F18). cbv beta.
  adv S017 S18 S018 ltac:(frn P17).
  apply oks_ret; [exact W18|]. split; [exact S018|]. split; [sfd|]. split; [exact F18|].
  split; [sdb|]. split; [sdb|]. lia.
Qed.

(* imod: NewIDivider(cc, a, b, nil, r) *)
Lemma new_idivider_r_s s a b r :
  gmw s = false -> wfst s -> Forall (defd s) a -> Forall (defd s) b ->
  Forall (pend s) r -> NoDup r ->
  (1 <= Nat.max (length a) (length b))%nat -> (length r <= Nat.max (length a) (length b))%nat ->
  oks (new_idivider a b [] r) s (fun _ s' => step s s' r /\ Forall (defd s') r).
Proof.
  intros G W Fa Fb Pr ND Hn Lr. eapply oks_ext; [apply idiv_split|].
  eapply oks_bind; [apply (idiv_prefix_s s a b _ G W Fa Fb eq_refl Hn)|].
  intros [[[a2 b2] neg4] z0] s1 W1 (S1 & Fa2 & Fb2 & Dn & Dz & La2 & Lb2). cbv beta.
  unfold idiv_suffix. cbn [length Nat.eqb].
  eapply oks_conseq;
    [apply (new_udivider_yao_s ninp s1 a2 b2 [] r); cbn [app]; auto;
     [rewrite (step_gmw _ _ _ _ S1); exact G | eapply Forall_pend_step0; eauto | lia]|].
  cbv beta. intros u s2 W2 (S2 & _ & Fr). cbn [app] in S2. split.
  - exact (step_trans _ _ _ _ _ _ S1 S2).
  - rewrite firstn_all2 in Fr by lia. exact Fr.
Qed.

(* idiv: NewIDivider(cc, a, b, q, nil) *)
Lemma new_idivider_q_s s a b q :
  gmw s = false -> wfst s -> Forall (defd s) a -> Forall (defd s) b ->
  Forall (pend s) q -> NoDup q ->
  (1 <= Nat.max (length a) (length b))%nat -> (1 <= length q)%nat ->
  (length q <= Nat.max (length a) (length b))%nat ->
  oks (new_idivider a b q []) s (fun _ s' => step s s' q /\ Forall (defd s') q).
Proof.
  intros G W Fa Fb Pq ND Hn Hq1 Lq. eapply oks_ext; [apply idiv_split|].
  eapply oks_bind; [apply (idiv_prefix_s s a b _ G W Fa Fb eq_refl Hn)|].
  intros [[[a2 b2] neg4] z0] s1 W1 (S1 & Fa2 & Fb2 & Dn & Dz & La2 & Lb2). cbv beta.
  unfold idiv_suffix.
  replace (Nat.eqb (length q) 0) with false by (symmetry; apply Nat.eqb_neq; lia).
  (* q0 = |a| / |b| *)
  sbind fresh_n_s. intros q0 s2 W2 (S2 & ND2 & L2 & P2). cbv beta.
  pose proof (step_trans _ _ _ _ _ _ S1 S2) as S02. cbn [app] in S02.
  eapply oks_bind; [apply (new_udivider_yao_s ninp s2 a2 b2 q0 []); rewrite ?app_nil_r; auto|].
  { rewrite (step_gmw _ _ _ _ S02). exact G. }
  { sfd. }
  { sfd. }
  { eapply Forall_pend_of; eauto. }
  { lia. }
  intros u3 s3 W3 (S3 & Fq0 & _). cbv beta. rewrite app_nil_r in S3.
  rewrite firstn_all2 in Fq0 by lia.
  assert (S03 : step s s3 []).
  { pose proof (step_next _ _ _ _ S1).
    eapply step_weaken_fresh; [eapply step_trans; [exact S02|exact S3]|]. cbn [app].
    intros w Hw. right. apply P2 in Hw. destruct Hw. unfold wire in *. lia. }
  (* q1 = 0 - q0 *)
  sbind fresh_n_s. intros q10 s4 W4 (S4 & ND4 & L4 & P4). cbv beta.
  pose proof (step_trans _ _ _ _ _ _ S03 S4) as S04. cbn [app] in S04.
  eapply oks_bind; [apply new_subtractor_yao_s; auto|].
  { rewrite (step_gmw _ _ _ _ S04). exact G. }
  { constructor; [sdb|constructor]. }
  { sfd. }
  { eapply Forall_pend_of; eauto. }
  { lia. }
  { cbn [length]. lia. }
  intros q1 s5 W5 (S5 & F5 & L5). cbv beta.
  assert (S05 : step s s5 []).
  { pose proof (step_next _ _ _ _ S03).
    eapply step_weaken_fresh; [eapply step_trans; [exact S04|exact S5]|]. cbn [app].
    intros w Hw. right. apply P4 in Hw. destruct Hw. unfold wire in *. lia. }
  eapply oks_conseq; [apply new_mux_s; auto|].
  { sdb. }
  { sfd. }
  { eapply Forall_pend_step0; eauto. }
  { lia. }
  cbv beta. intros _ s6 W6 (S6 & Fq). split; [|exact Fq].
  exact (step_trans _ _ _ _ _ _ S05 S6).
Qed.
End IS.
