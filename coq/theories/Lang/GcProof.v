(* GcProof.v — lemmas about Lang/Gc.v (property C05):
   - the rewiring functions commute with any map on what is rewired (the same
     code rewires wire ids and bits);
   - Program.GC only inserts gc instructions. *)
From Coq Require Import NArith ZArith List Bool Arith Lia.
From Mpc Require Import Lang.Gc.
Import ListNotations.
Local Open Scope nat_scope.

Section RewireMap.
  Variables (A B : Type) (f : A -> B) (z : A).

  Lemma lastd_map l : f (lastd A z l) = lastd B (f z) (map f l).
  Proof.
    unfold lastd. induction l as [|x t IH]; [reflexivity|].
    destruct t; [reflexivity|]. exact IH.
  Qed.

  Lemma nth_map k l : f (nth k l z) = nth k (map f l) (f z).
  Proof. symmetry. apply map_nth. Qed.

  Lemma nth_ins_map (ins : list (list A)) k : nth k (map (map f) ins) [] = map f (nth k ins []).
  Proof. change (@nil B) with (map f []). apply map_nth. Qed.

  Lemma pad_operand_map sg bits w :
    map f (pad_operand A z sg bits w) = pad_operand B (f z) sg bits (map f w).
  Proof.
    unfold pad_operand. rewrite map_length.
    destruct (Nat.eqb (length w) bits); [reflexivity|].
    rewrite map_map. apply map_ext. intros bit.
    destruct (bit <? length w); [apply nth_map|].
    destruct (sg && negb (Nat.eqb (length w) 0)); [apply lastd_map | reflexivity].
  Qed.

  Lemma skipn_map' n (l : list A) : map f (skipn n l) = skipn n (map f l).
  Proof. symmetry. apply skipn_map. Qed.

  Lemma alias_ids_map o ins cs old obits :
    option_map (map f) (alias_ids A z o ins cs old obits)
    = alias_ids B (f z) o (map (map f) ins) cs (map f old) obits.
  Proof.
    unfold alias_ids. rewrite !nth_ins_map, !map_length.
    destruct o; try reflexivity.
    - (* Concat *)
      destruct (length old <=? length (nth 0 ins []) + length (nth 1 ins [])); [|reflexivity].
      simpl. f_equal. rewrite map_map. apply map_ext. intros bit.
      destruct (bit <? length (nth 0 ins [])); apply nth_map.
    - (* Lshift *)
      destruct (nth 1 cs 0%Z <? 0)%Z; [reflexivity|].
      simpl. f_equal. rewrite map_map. apply map_ext. intros bit.
      destruct (_ && _); [apply nth_map | reflexivity].
    - (* Rshift *)
      destruct (nth 1 cs 0%Z <? 0)%Z; [reflexivity|].
      simpl. f_equal. rewrite map_map. apply map_ext. intros bit.
      destruct (_ <? _); [apply nth_map | reflexivity].
    - (* Srshift *)
      destruct (nth 1 cs 0%Z <? 0)%Z; [reflexivity|].
      remember (nth 0 ins []) as w0 eqn:E. clear E.
      destruct w0 as [|x t]; [reflexivity|].
      cbn [map option_map]. f_equal. rewrite map_map. apply map_ext. intros bit.
      change (f x :: map f t) with (map f (x :: t)).
      destruct (_ <? _); [apply nth_map | apply lastd_map].
    - (* Slice *)
      destruct (_ || _); [reflexivity|].
      destruct (length old <? _); [reflexivity|].
      simpl. f_equal. rewrite map_app, map_map, skipn_map'. f_equal.
      apply map_ext. intros k. destruct (_ <? _); [apply nth_map | reflexivity].
    - (* Mov *)
      destruct (length old <? obits); [reflexivity|].
      simpl. f_equal. rewrite map_app, map_map, skipn_map'. f_equal.
      apply map_ext. intros bit. destruct (_ <? _); [apply nth_map | reflexivity].
    - (* Smov *)
      remember (nth 0 ins []) as w0 eqn:E. clear E.
      destruct w0 as [|x t]; [reflexivity|].
      cbn [map].
      destruct (length old <? obits); [reflexivity|].
      cbn [option_map]. f_equal. rewrite map_app, map_map, skipn_map'. f_equal.
      apply map_ext. intros bit.
      change (f x :: map f t) with (map f (x :: t)).
      destruct (_ <? _); [apply nth_map | apply lastd_map].
    - (* Amov *)
      destruct (_ || _); [reflexivity|].
      destruct (length old <? obits); [reflexivity|].
      simpl. f_equal. rewrite map_app, map_map, skipn_map'. f_equal.
      apply map_ext. intros bit.
      destruct (_ || _); destruct (_ <? _); try apply nth_map; reflexivity.
  Qed.
End RewireMap.

(* ------------------------------------------------------------------ *)
(** * Program.GC only inserts gc instructions *)

Definition not_gc (s : instr) : bool := match iop s with OGC => false | _ => true end.

Lemma gc_ins_only_gc live ins : forall set gs set',
  gc_ins live ins set = (gs, set') -> filter not_gc gs = [].
Proof.
  induction ins as [|i rest IH]; intros set gs set' H; simpl in H.
  - inversion H. reflexivity.
  - destruct (vconst i); [eapply IH; eauto|].
    destruct (gc_ins live rest (vid i :: set)) as [gs1 set1] eqn:E.
    inversion H; subst. rewrite filter_app. rewrite (IH _ _ _ E), app_nil_r.
    destruct (mem (vid i) set); [reflexivity|]. destruct (live set (vid i)); reflexivity.
Qed.

Lemma gc_back_filter live : forall rsteps set,
  forallb not_gc rsteps = true ->
  filter not_gc (gc_back live rsteps set) = rsteps.
Proof.
  induction rsteps as [|s rest IH]; intros set H; simpl; [reflexivity|].
  simpl in H. apply andb_prop in H as [Hs Hr].
  destruct (gc_ins live (iin s) set) as [gs set1] eqn:E.
  rewrite filter_app, (gc_ins_only_gc _ _ _ _ _ E). simpl. rewrite Hs. f_equal. apply IH, Hr.
Qed.

Lemma filter_rev {A} (p : A -> bool) l : filter p (rev l) = rev (filter p l).
Proof.
  induction l as [|x t IH]; [reflexivity|]. simpl. rewrite filter_app, IH. simpl.
  destruct (p x); simpl; [reflexivity | apply app_nil_r].
Qed.

Lemma forallb_rev {A} (p : A -> bool) l : forallb p (rev l) = forallb p l.
Proof.
  induction l as [|x t IH]; [reflexivity|]. simpl. rewrite forallb_app, IH. simpl.
  rewrite andb_true_r. apply andb_comm.
Qed.

Theorem gc_only_inserts concat deep steps g :
  forallb not_gc steps = true -> gc_gen concat deep steps = Some g ->
  filter not_gc g = steps.
Proof.
  intros Hn H. unfold gc_gen in H.
  assert (Hr : forallb not_gc (rev steps) = true) by (rewrite forallb_rev; exact Hn).
  assert (Hinv : rev (rev steps) = steps) by apply rev_involutive.
  remember (rev steps) as rs eqn:E.
  destruct rs as [|last r]; [discriminate|].
  destruct (iop last); try discriminate.
  match type of H with Some (rev ?x) = _ => remember x as gb eqn:Egb end.
  injection H as <-.
  rewrite filter_rev. subst gb. rewrite gc_back_filter by exact Hr. exact Hinv.
Qed.

(* ------------------------------------------------------------------ *)
(** * Program.GC with alias chains: the static liveness property

   [fdesc steps u]: u and every value derived from u by alias instructions
   (one forward pass suffices: a value is defined before it is used).
   Main result [gc_fixed_form]: the list Program.GC returns is the original
   list with, after each step s, gc instructions for some non-constant
   operands of s, each at most once, such that no value derived from a freed
   value is an operand of a later step. *)

Lemma mem_In x l : mem x l = true <-> In x l.
Proof.
  unfold mem. rewrite existsb_exists. split.
  - intros (y & Hy & E). apply N.eqb_eq in E. subst. exact Hy.
  - intros H. exists x. split; [exact H | apply N.eqb_refl].
Qed.

Lemma mem_false x l : mem x l = false <-> ~ In x l.
Proof. rewrite <- mem_In. destruct (mem x l); split; congruence. Qed.

Lemma mem_remove x y l : mem x (remove y l) = mem x l && negb (N.eqb y x).
Proof.
  unfold remove, mem. induction l as [|h t IH]; [reflexivity|]. simpl.
  destruct (N.eqb y h) eqn:E; simpl.
  - apply N.eqb_eq in E. subst h. rewrite IH.
    destruct (N.eqb x y) eqn:E2; simpl.
    + apply N.eqb_eq in E2. subst. rewrite N.eqb_refl. simpl. rewrite andb_false_r. reflexivity.
    + reflexivity.
  - rewrite IH. destruct (N.eqb x h) eqn:E2; simpl; [|reflexivity].
    apply N.eqb_eq in E2. subst h. rewrite E. reflexivity.
Qed.

Definition fstep (D : list N) (s : instr) : list N :=
  if is_alias_op (iop s) && existsb (fun a => mem a D) (nc_ins s) then
    match iout s with Some o => vid o :: D | None => D end
  else D.

Definition fdesc (steps : list instr) (u : N) : list N := fold_left fstep steps [u].

Definition ncops_l (l : list instr) : list N := flat_map nc_ins l.
Definition outs_l (l : list instr) : list N := flat_map outs_of l.

Lemma fstep_mono D s x : In x D -> In x (fstep D s).
Proof. unfold fstep. destruct (_ && _); [|auto]. destruct (iout s); simpl; auto. Qed.

Lemma fold_fstep_mono l : forall D x, In x D -> In x (fold_left fstep l D).
Proof. induction l as [|s l IH]; intros D x H; simpl; [exact H|]. apply IH, fstep_mono, H. Qed.

Lemma fstep_in D s x : In x (fstep D s) -> In x D \/ In x (outs_of s).
Proof.
  unfold fstep. destruct (_ && _); [|auto]. destruct (iout s) as [o|] eqn:E; [|auto].
  intros [H|H]; [|auto]. right. unfold outs_of. rewrite E. left. exact H.
Qed.

Lemma fold_fstep_in l : forall D x, In x (fold_left fstep l D) -> In x D \/ In x (outs_l l).
Proof.
  induction l as [|s l IH]; intros D x H; simpl in *; [auto|].
  apply IH in H as [H|H].
  - apply fstep_in in H as [H|H]; [auto|]. right. unfold outs_l. simpl. apply in_or_app. auto.
  - right. unfold outs_l. simpl. apply in_or_app. auto.
Qed.

Lemma in_nc_ins s a : In a (nc_ins s) <-> exists i, In i (iin s) /\ vconst i = false /\ vid i = a.
Proof.
  unfold nc_ins. rewrite in_map_iff. split.
  - intros (i & E & H). apply filter_In in H as [H1 H2]. exists i. repeat split; auto.
    destruct (vconst i); [discriminate | reflexivity].
  - intros (i & H1 & H2 & H3). exists i. split; [exact H3|]. apply filter_In. rewrite H2. auto.
Qed.

Lemma gc_alias_op_true o : gc_alias_op true o = is_alias_op o.
Proof. destruct o; reflexivity. Qed.

Lemma in_aliases_of steps s o a :
  In s steps -> is_alias_op (iop s) = true -> iout s = Some o -> In a (nc_ins s) ->
  In (vid o) (aliases_of true steps a).
Proof.
  intros Hs Hop Ho Ha. unfold aliases_of. apply in_flat_map. exists s. split; [exact Hs|].
  rewrite gc_alias_op_true, Hop, Ho. apply in_flat_map.
  apply in_nc_ins in Ha as (i & Hi & Hc & Hv). exists i. split; [exact Hi|].
  rewrite Hc, Hv, N.eqb_refl. simpl. auto.
Qed.

Lemma ald_mono al set : forall f x, alias_live_deep f al set x = true -> alias_live_deep (S f) al set x = true.
Proof.
  induction f as [|f IH]; intros x H; [discriminate|].
  cbn [alias_live_deep] in *. apply existsb_exists in H as (a & Ha & H). apply existsb_exists.
  exists a. split; [exact Ha|]. apply orb_true_iff in H as [H|H]; apply orb_true_iff; [auto|].
  right. apply IH, H.
Qed.

Lemma ald_mono_k al set k : forall f x, alias_live_deep f al set x = true -> alias_live_deep (f + k) al set x = true.
Proof.
  induction k as [|k IH]; intros f x H; [rewrite Nat.add_0_r; exact H|].
  rewrite Nat.add_succ_r. apply ald_mono, IH, H.
Qed.

Lemma ald_step al set f a x :
  In x (al a) -> mem x set || alias_live_deep f al set x = true -> alias_live_deep (S f) al set a = true.
Proof. intros Hx H. cbn [alias_live_deep]. apply existsb_exists. exists x. auto. Qed.

(* Claim A: a descendant of u that is in the live set makes the deep check succeed *)
Lemma fdesc_live steps0 set u : forall todo done D,
  steps0 = done ++ todo ->
  (forall x, In x D -> x <> u -> forall f,
      mem x set || alias_live_deep f (aliases_of true steps0) set x = true ->
      alias_live_deep (f + length done) (aliases_of true steps0) set u = true) ->
  forall x, In x (fold_left fstep todo D) -> x <> u -> forall f,
      mem x set || alias_live_deep f (aliases_of true steps0) set x = true ->
      alias_live_deep (f + length steps0) (aliases_of true steps0) set u = true.
Proof.
  induction todo as [|t todo IH]; intros done D E HD x Hx Hne f Hf.
  - simpl in Hx. rewrite app_nil_r in E. subst done. eapply HD; eauto.
  - simpl in Hx. refine (IH (done ++ [t]) (fstep D t) _ _ x Hx Hne f Hf).
    + rewrite <- app_assoc. exact E.
    + clear x Hx Hne f Hf. intros x Hx Hne f Hf. rewrite app_length. simpl.
      unfold fstep in Hx.
      destruct (is_alias_op (iop t) && existsb (fun a => mem a D) (nc_ins t)) eqn:C.
      2:{ replace (f + (length done + 1)) with (S (f + length done)) by lia. apply ald_mono. eapply HD; eauto. }
      destruct (iout t) as [o|] eqn:Eo.
      2:{ replace (f + (length done + 1)) with (S (f + length done)) by lia. apply ald_mono. eapply HD; eauto. }
      destruct Hx as [Hx|Hx].
      2:{ replace (f + (length done + 1)) with (S (f + length done)) by lia. apply ald_mono. eapply HD; eauto. }
      subst x. apply andb_prop in C as [Cop Cex]. apply existsb_exists in Cex as (a & Ha & HaD).
      apply mem_In in HaD.
      assert (Hal : In (vid o) (aliases_of true steps0 a)).
      { eapply in_aliases_of; eauto. rewrite E. apply in_or_app. right. left. reflexivity. }
      pose proof (ald_step _ set f a (vid o) Hal Hf) as Hs.
      destruct (N.eq_dec a u) as [->|Hau].
      * replace (f + (length done + 1)) with (S f + length done) by lia. apply ald_mono_k, Hs.
      * replace (f + (length done + 1)) with (S f + length done) by lia.
        apply (HD a HaD Hau (S f)). rewrite Hs. apply orb_true_r.
Qed.

Lemma fdesc_not_live steps0 set u x :
  alias_live_deep (length steps0) (aliases_of true steps0) set u = false ->
  In x (fdesc steps0 u) -> x <> u -> mem x set = false.
Proof.
  intros Hd Hx Hne. destruct (mem x set) eqn:M; [|reflexivity].
  exfalso. unfold fdesc in Hx.
  assert (H : alias_live_deep (0 + length steps0) (aliases_of true steps0) set u = true).
  { apply (fdesc_live steps0 set u steps0 [] [u] eq_refl) with (x := x); auto.
    - intros y [Hy|[]] Hyu. subst y. contradiction.
    - rewrite M. reflexivity. }
  simpl in H. rewrite H in Hd. discriminate.
Qed.

(* ---- well-formedness in positional form *)
Definition wfl (defd : list N) (steps : list instr) : Prop :=
  forall A t B, steps = A ++ t :: B ->
    (forall x, In x (nc_ins t) -> In x (outs_l A ++ defd)) /\
    (forall o, In o (outs_of t) -> ~ In o (outs_l A ++ defd)).

Lemma forallb_mem l defd : forallb (fun i => mem i defd) l = true -> forall x, In x l -> In x defd.
Proof. intros H x Hx. rewrite forallb_forall in H. apply mem_In, H, Hx. Qed.

Lemma forallb_nmem l defd : forallb (fun o => negb (mem o defd)) l = true -> forall x, In x l -> ~ In x defd.
Proof.
  intros H x Hx. rewrite forallb_forall in H. specialize (H x Hx).
  apply mem_false. destruct (mem x defd); [discriminate | reflexivity].
Qed.

Lemma wf_steps_wfl : forall steps defd, wf_steps defd steps = true -> wfl defd steps.
Proof.
  induction steps as [|s rest IH]; intros defd H A t B E.
  - destruct A; discriminate.
  - destruct rest as [|s2 rest'].
    + (* last step *)
      destruct A as [|a A]; [|destruct A; discriminate].
      injection E as <- <-. cbn [wf_steps] in H.
      destruct (iop s); try discriminate.
      apply andb_prop in H as [H Hr]. apply andb_prop in H as [Hi Ho].
      split.
      * intros x Hx. simpl. eapply forallb_mem; eauto.
      * intros o Ho'. unfold outs_of in Ho'. destruct (iout s); [discriminate|].
        destruct (iret s); [destruct Ho'| discriminate].
    + remember (s2 :: rest') as rest eqn:Er.
      assert (Hc : forallb (fun i => mem i defd) (nc_ins s) = true /\
                   forallb (fun o => negb (mem o defd)) (outs_of s) = true /\
                   wf_steps (outs_of s ++ defd) rest = true).
      { subst rest. cbn [wf_steps] in H. destruct (iop s); try discriminate;
          repeat (apply andb_prop in H as [H ?]); repeat split; assumption. }
      destruct Hc as (Hi & Ho & Hw).
      destruct A as [|a A].
      * injection E as <- <-. split.
        -- intros x Hx. simpl. eapply forallb_mem; eauto.
        -- intros o Ho'. simpl. eapply forallb_nmem; eauto.
      * injection E as <- E. specialize (IH _ Hw A t B E) as [I1 I2].
        unfold outs_l in *. simpl. split.
        -- intros x Hx. specialize (I1 x Hx). rewrite <- app_assoc.
           apply in_app_or in I1 as [I|I]; apply in_or_app; [right; apply in_or_app; auto|].
           apply in_app_or in I as [I|I]; [auto | right; apply in_or_app; auto].
        -- intros o Ho' Hin. apply (I2 o Ho'). rewrite <- app_assoc in Hin.
           apply in_app_or in Hin as [I|I]; apply in_or_app; [right; apply in_or_app; auto|].
           apply in_app_or in I as [I|I]; [auto | right; apply in_or_app; auto].
Qed.

(* a value known before [later] starts is not defined inside [later] *)
Lemma wfl_not_later defd E s later x :
  wfl defd (E ++ s :: later) -> In x (outs_l (E ++ [s]) ++ defd) -> ~ In x (outs_l later).
Proof.
  intros W Hx Hl. unfold outs_l in Hl. apply in_flat_map in Hl as (t & Ht & Hxt).
  apply in_split in Ht as (L1 & L2 & ->).
  specialize (W (E ++ s :: L1) t L2). rewrite <- app_assoc in W. specialize (W eq_refl) as [_ W2].
  apply (W2 x Hxt). apply in_app_or in Hx as [Hx|Hx]; apply in_or_app; [left | auto].
  unfold outs_l in *. rewrite flat_map_app in *. apply in_app_or in Hx as [Hx|Hx]; apply in_or_app; [auto|].
  right. simpl in *. rewrite app_nil_r in Hx. apply in_or_app. auto.
Qed.

(* ---- the core: a value that dies with no live descendant has no descendant
   that is read later *)
Definition needed_in (later : list instr) (set : list N) : Prop :=
  forall x, In x (ncops_l later) -> ~ In x (outs_l later) -> mem x set = true.

Lemma fold_fstep_later_noop later : forall D,
  (forall x, In x D -> ~ In x (ncops_l later)) -> fold_left fstep later D = D.
Proof.
  induction later as [|t later IH]; intros D H; [reflexivity|]. simpl.
  assert (E : fstep D t = D).
  { unfold fstep. destruct (is_alias_op (iop t)); [|reflexivity]. simpl.
    destruct (existsb (fun a => mem a D) (nc_ins t)) eqn:C; [|reflexivity].
    apply existsb_exists in C as (a & Ha & HaD). apply mem_In in HaD.
    exfalso. apply (H a HaD). unfold ncops_l. simpl. apply in_or_app. auto. }
  rewrite E. apply IH. intros x Hx Hl. apply (H x Hx). unfold ncops_l in *. simpl. apply in_or_app. auto.
Qed.

Lemma no_live_desc defd steps0 E s later set u :
  wfl defd steps0 -> steps0 = E ++ s :: later ->
  In u (nc_ins s) -> needed_in later set -> mem u set = false ->
  alias_live_deep (length steps0) (aliases_of true steps0) set u = false ->
  forall w, In w (fdesc steps0 u) -> ~ In w (ncops_l later).
Proof.
  intros W E0 Hu Hn Hmu Hd.
  assert (Hu' : In u (outs_l E ++ defd)) by (apply (proj1 (W E s later E0)); exact Hu).
  (* phase 1: everything collected up to and including s is known before [later] *)
  set (D1 := fold_left fstep (E ++ [s]) [u]).
  assert (HD1 : forall x, In x D1 -> In x (outs_l (E ++ [s]) ++ defd)).
  { intros x Hx. apply fold_fstep_in in Hx as [[Hx|[]]|Hx].
    - subst x. unfold outs_l in *. rewrite flat_map_app. apply in_app_or in Hu' as [H|H]; apply in_or_app; [left; apply in_or_app; auto | auto].
    - apply in_or_app. auto. }
  assert (Hfd : fdesc steps0 u = fold_left fstep later D1).
  { unfold fdesc, D1. rewrite E0. replace (E ++ s :: later) with ((E ++ [s]) ++ later) by (rewrite <- app_assoc; reflexivity).
    apply fold_left_app. }
  assert (Hin1 : forall x, In x D1 -> In x (fdesc steps0 u)).
  { intros x Hx. rewrite Hfd. apply fold_fstep_mono, Hx. }
  assert (HD1n : forall x, In x D1 -> ~ In x (ncops_l later)).
  { intros x Hx Hl.
    assert (Hno : ~ In x (outs_l later)).
    { apply (wfl_not_later defd E s later x); [rewrite <- E0; exact W | apply HD1, Hx]. }
    pose proof (Hn x Hl Hno) as Hm.
    destruct (N.eq_dec x u) as [->|Hne]; [congruence|].
    rewrite (fdesc_not_live steps0 set u x Hd (Hin1 x Hx) Hne) in Hm. discriminate. }
  intros w Hw. rewrite Hfd, (fold_fstep_later_noop later D1 HD1n) in Hw. apply HD1n, Hw.
Qed.

(* ---- gc_ins *)
Definition gcid (g : instr) : N := match igc g with Some v => vid v | None => 0%N end.

Lemma gc_ins_spec live : forall ins set gs set',
  gc_ins live ins set = (gs, set') ->
  (forall x, In x set -> In x set') /\
  (forall i, In i ins -> vconst i = false -> In (vid i) set') /\
  Forall (fun g => exists i, In i ins /\ vconst i = false /\ g = gc_instr i /\
                   exists sx, (forall x, In x set -> In x sx) /\ mem (vid i) sx = false /\ live sx (vid i) = false) gs /\
  NoDup (map gcid gs) /\ (forall g, In g gs -> ~ In (gcid g) set).
Proof.
  induction ins as [|i rest IH]; intros set gs set' H; simpl in H.
  - inversion H; subst. repeat split; auto; try constructor. intros i [].
  - destruct (vconst i) eqn:Ci.
    + specialize (IH _ _ _ H) as (I1 & I2 & I3 & I4 & I5). repeat split; auto.
      * intros j [->|Hj] Hc; [congruence | auto].
      * eapply Forall_impl; [|exact I3]. intros g (j & Hj & R). exists j. split; [right; exact Hj | exact R].
    + destruct (gc_ins live rest (vid i :: set)) as [gs1 set1] eqn:E. inversion H; subst. clear H.
      specialize (IH _ _ _ E) as (I1 & I2 & I3 & I4 & I5).
      assert (I3' : Forall (fun g => exists i0, In i0 (i :: rest) /\ vconst i0 = false /\ g = gc_instr i0 /\
                     exists sx, (forall x, In x set -> In x sx) /\ mem (vid i0) sx = false /\ live sx (vid i0) = false) gs1).
      { eapply Forall_impl; [|exact I3]. intros g (j & Hj & Hc & Hg & sx & S1 & S2 & S3).
        exists j. repeat split; auto. right; exact Hj. exists sx. repeat split; auto. intros x Hx. apply S1. right. exact Hx. }
      split; [intros x Hx; apply I1; right; exact Hx|].
      split; [intros j [->|Hj] Hc; [apply I1; left; reflexivity | auto]|].
      destruct (mem (vid i) set) eqn:M; [|destruct (live set (vid i)) eqn:Lv].
      * simpl. repeat split; auto. intros g Hg Hin. apply (I5 g Hg). right. exact Hin.
      * simpl. repeat split; auto. intros g Hg Hin. apply (I5 g Hg). right. exact Hin.
      * cbn [app map]. split; [|split].
        -- constructor; [|exact I3']. exists i. repeat split; auto. left; reflexivity.
           exists set. repeat split; auto.
        -- constructor; [|exact I4]. cbn [gcid gc_instr igc]. intros Hin.
           apply in_map_iff in Hin as (g & Eg & Hg). apply (I5 g Hg). left. symmetry. exact Eg.
        -- intros g [<-|Hg] Hin.
           ++ cbn [gcid gc_instr igc] in Hin. apply mem_false in M. contradiction.
           ++ apply (I5 g Hg). right. exact Hin.
Qed.

(* ---- the forward form of Program.GC's result *)
Definition good_gcs (steps0 : list instr) (s : instr) (later G : list instr) : Prop :=
  Forall (fun g => exists i, g = gc_instr i /\ vconst i = false /\ In (vid i) (nc_ins s) /\
                   forall w, In w (fdesc steps0 (vid i)) -> ~ In w (ncops_l later)) G /\
  NoDup (map gcid G).

Inductive gcform (steps0 : list instr) : list instr -> list instr -> Prop :=
| gcform_nil : gcform steps0 [] []
| gcform_cons s later G g :
    gcform steps0 later g -> good_gcs steps0 s later G -> gcform steps0 (s :: later) (s :: G ++ g).

Lemma rev_good_gcs steps0 s later G : good_gcs steps0 s later G -> good_gcs steps0 s later (rev G).
Proof.
  intros [H1 H2]. split.
  - apply Forall_rev, H1.
  - rewrite map_rev. apply NoDup_rev, H2.
Qed.

Lemma gc_back_form defd steps0 : wfl defd steps0 ->
  forall rsteps set later gl,
    steps0 = rev rsteps ++ later -> gcform steps0 later gl -> needed_in later set ->
    gcform steps0 steps0
      (rev (gc_back (alias_live_deep (length steps0) (aliases_of true steps0)) rsteps set) ++ gl).
Proof.
  intros W. induction rsteps as [|s rest IH]; intros set later gl E Hf Hn.
  - simpl in *. subst later. exact Hf.
  - cbn [gc_back].
    destruct (gc_ins (alias_live_deep (length steps0) (aliases_of true steps0)) (iin s) set) as [gs set1] eqn:Eg.
    pose proof (gc_ins_spec _ _ _ _ _ Eg) as (G1 & G2 & G3 & G4 & G5).
    simpl in E. rewrite <- app_assoc in E. simpl in E.
    rewrite rev_app_distr. cbn [rev app]. rewrite <- !app_assoc. cbn [app].
    apply (IH _ (s :: later) (s :: rev gs ++ gl) E).
    + constructor; [exact Hf|]. apply rev_good_gcs. split; [|exact G4].
      eapply Forall_impl; [|exact G3].
      intros g (i & Hi & Hc & Hg & sx & S1 & S2 & S3). exists i. repeat split; auto.
      * apply in_nc_ins. exists i. auto.
      * apply (no_live_desc defd steps0 (rev rest) s later sx (vid i) W E); auto.
        -- apply in_nc_ins. exists i. auto.
        -- intros x Hx Hno. apply mem_In, S1, mem_In, Hn; auto.
    + intros x Hx Hno. unfold ncops_l, outs_l in Hx, Hno. simpl in Hx, Hno.
      assert (Hx1 : In x set1).
      { apply in_app_or in Hx as [Hx|Hx].
        - apply in_nc_ins in Hx as (i & Hi & Hc & <-). apply G2; auto.
        - apply G1, mem_In, Hn; [exact Hx|]. intros Hl. apply Hno, in_or_app. auto. }
      destruct (iout s) as [o|] eqn:Eo; [|apply mem_In, Hx1].
      rewrite mem_remove. apply andb_true_intro. split; [apply mem_In, Hx1|].
      destruct (N.eqb (vid o) x) eqn:Eq; [|reflexivity]. apply N.eqb_eq in Eq. exfalso. apply Hno.
      apply in_or_app. left. unfold outs_of. rewrite Eo. left. exact Eq.
Qed.

Theorem gc_fixed_form args steps g :
  wf_ssa args steps = true -> gc_fixed steps = Some g -> gcform steps steps g.
Proof.
  intros Hwf H. apply wf_steps_wfl in Hwf. unfold gc_fixed, gc_gen in H.
  pose proof (gc_back_form args steps Hwf (rev steps)) as F.
  remember (rev steps) as rs eqn:E.
  destruct rs as [|last r]; [discriminate|].
  destruct (iop last); try discriminate.
  match type of H with Some (rev ?x) = _ => remember x as gb eqn:Egb end.
  injection H as <-. subst gb.
  rewrite <- (app_nil_r (rev _)).
  apply (F _ [] []).
  - rewrite E, rev_involutive, app_nil_r. reflexivity.
  - constructor.
  - intros x [].
Qed.

(* ---- "derived by alias instructions": reflexive-transitive closure of the
   alias edges (operand -> result of concat/shift/slice/mov/smov/amov) *)
Definition alias_edge (steps : list instr) (a b : N) : Prop :=
  exists t o, In t steps /\ is_alias_op (iop t) = true /\ iout t = Some o /\ vid o = b /\ In a (nc_ins t).

Inductive derived (steps : list instr) (u : N) : N -> Prop :=
| derived_refl : derived steps u u
| derived_step a b : derived steps u a -> alias_edge steps a b -> derived steps u b.

Lemma fdesc_closed defd steps0 k a b :
  wfl defd steps0 -> In a (fdesc steps0 k) -> alias_edge steps0 a b -> In b (fdesc steps0 k).
Proof.
  intros W Ha (t & o & Ht & Hop & Ho & <- & Hat).
  apply in_split in Ht as (A & B & E).
  destruct (W A t B E) as [W1 W2]. specialize (W1 a Hat).
  unfold fdesc in *. rewrite E in *. rewrite fold_left_app in *. cbn [fold_left] in *.
  set (DA := fold_left fstep A [k]) in *.
  assert (HaDA : In a DA).
  { destruct (fold_fstep_in B _ _ Ha) as [H|H].
    - apply fstep_in in H as [H|H]; [exact H|].
      exfalso. apply (W2 a H). exact W1.
    - exfalso. unfold outs_l in H. apply in_flat_map in H as (t2 & Ht2 & Hx).
      apply in_split in Ht2 as (B1 & B2 & ->).
      pose proof (W (A ++ t :: B1) t2 B2) as W3. rewrite <- app_assoc in W3. specialize (W3 eq_refl) as [_ W3].
      apply (W3 a Hx). unfold outs_l. rewrite flat_map_app.
      apply in_app_or in W1 as [H|H]; apply in_or_app; [left; apply in_or_app; auto | auto]. }
  apply fold_fstep_mono. unfold fstep. rewrite Hop. simpl.
  replace (existsb (fun a0 => mem a0 DA) (nc_ins t)) with true.
  - rewrite Ho. left. reflexivity.
  - symmetry. apply existsb_exists. exists a. split; [exact Hat | apply mem_In, HaDA].
Qed.

Lemma derived_fdesc defd steps0 u w : wfl defd steps0 -> derived steps0 u w -> In w (fdesc steps0 u).
Proof.
  intros W H. induction H as [|a b _ IH He].
  - unfold fdesc. apply fold_fstep_mono. left. reflexivity.
  - eapply fdesc_closed; eauto.
Qed.

Lemma nc_ins_gc i : nc_ins (gc_instr i) = [].
Proof. reflexivity. Qed.

Lemma gcform_ncops steps0 later g : gcform steps0 later g -> ncops_l g = ncops_l later.
Proof.
  induction 1 as [|s later G g Hf IH [HG _]]; [reflexivity|].
  unfold ncops_l in *. cbn [flat_map]. rewrite flat_map_app, IH. f_equal.
  replace (flat_map nc_ins G) with (@nil N); [reflexivity|].
  induction HG as [|x G (i & -> & _) _ IHG]; [reflexivity|]. cbn [flat_map]. rewrite <- IHG. reflexivity.
Qed.

Lemma wf_not_gc : forall steps defd, wf_steps defd steps = true -> Forall (fun s => iop s <> OGC) steps.
Proof.
  induction steps as [|s rest IH]; intros defd H; [constructor|].
  destruct rest as [|s2 rest'].
  - cbn [wf_steps] in H. constructor; [|constructor]. destruct (iop s); discriminate.
  - remember (s2 :: rest') as rest eqn:Er.
    assert (Hc : iop s <> OGC /\ wf_steps (outs_of s ++ defd) rest = true).
    { subst rest. cbn [wf_steps] in H. destruct (iop s); try discriminate;
        repeat (apply andb_prop in H as [H ?]); split; try assumption; discriminate. }
    destruct Hc as [Hc Hw]. constructor; [exact Hc | eapply IH; eauto].
Qed.

Lemma gcs_ncops steps0 s later G : good_gcs steps0 s later G -> forall l1 l2, G = l1 ++ l2 -> ncops_l l2 = [].
Proof.
  intros [HG _] l1 l2 ->. apply Forall_app in HG as [_ HG].
  induction HG as [|x l (i & -> & _) _ IHG]; [reflexivity|]. unfold ncops_l in *. cbn [flat_map]. exact IHG.
Qed.

Lemma gcform_static defd steps0 : wfl defd steps0 ->
  forall later g, gcform steps0 later g -> Forall (fun s => iop s <> OGC) later ->
  forall A i B, g = A ++ gc_instr i :: B ->
    forall w, derived steps0 (vid i) w -> ~ In w (ncops_l B).
Proof.
  intros W later g F. induction F as [|s later G g' Hf IH HG]; intros Hng A i B E w Hd.
  - destruct A; discriminate.
  - inversion Hng as [|? ? Hs Hl]; subst.
    destruct A as [|a A].
    + injection E as E _. subst s. exfalso. apply Hs. reflexivity.
    + injection E as _ E. apply app_eq_app in E as (l & [[E1 E2]|[E1 E2]]).
      * destruct l as [|x l'].
        -- simpl in E2. exact (IH Hl [] i B (eq_sym E2) w Hd).
        -- injection E2 as <- E2. subst B.
           unfold ncops_l. rewrite flat_map_app. fold (ncops_l l') (ncops_l g').
           rewrite (gcs_ncops _ _ _ _ HG (A ++ [gc_instr i]) l') by (rewrite <- app_assoc; exact E1).
           rewrite (gcform_ncops _ _ _ Hf). simpl.
           destruct HG as [HG _]. rewrite E1 in HG. apply Forall_app in HG as [_ HG].
           inversion HG as [|? ? (i' & Ei & _ & _ & Hno) _]; subst.
           assert (i = i') by (unfold gc_instr in Ei; congruence). subst i'.
           apply Hno. eapply derived_fdesc; eauto.
      * (* the gc instruction is in g' *)
        exact (IH Hl l i B E2 w Hd).
Qed.

(* The static liveness theorem of Program.GC as it is now: when a gc
   instruction frees u, no value derived from u by alias instructions — u
   itself included — is an operand of any later step. *)
Theorem gc_fixed_static args steps g :
  wf_ssa args steps = true -> gc_fixed steps = Some g ->
  forall A i B, g = A ++ gc_instr i :: B ->
    forall w, derived steps (vid i) w -> ~ In w (ncops_l B).
Proof.
  intros Hwf Hg. eapply gcform_static.
  - apply wf_steps_wfl, Hwf.
  - eapply gc_fixed_form; eauto.
  - eapply wf_not_gc, Hwf.
Qed.

(* non-vacuity: the old one-level check violates the same statement *)

(* ------------------------------------------------------------------ *)
(** * Where rewired elements come from, and how many there are *)
Lemma skipn_In {A} n : forall (l : list A) x, In x (skipn n l) -> In x l.
Proof.
  induction n as [|n IH]; intros l x H; [exact H|]. destruct l; [destruct H|]. right. apply IH, H.
Qed.

Section RewireIncl.
  Variables (A : Type) (z : A).

  Lemma lastd_in (l : list A) : l <> [] -> In (lastd A z l) l.
  Proof.
    unfold lastd. induction l as [|x t IH]; [congruence|]. intros _.
    destruct t; [left; reflexivity|]. right. apply IH. discriminate.
  Qed.

  Lemma in_nth_ins (ins : list (list A)) j x : In x (nth j ins []) -> exists w, In w ins /\ In x w.
  Proof.
    intros H. destruct (Nat.lt_ge_cases j (length ins)) as [L|L].
    - exists (nth j ins []). split; [apply nth_In, L | exact H].
    - rewrite nth_overflow in H by exact L. destruct H.
  Qed.

  Lemma pad_operand_incl sg bits w x : In x (pad_operand A z sg bits w) -> x = z \/ In x w.
  Proof.
    unfold pad_operand. destruct (Nat.eqb (length w) bits); [auto|].
    intros H. apply in_map_iff in H as (bit & <- & _).
    destruct (bit <? length w) eqn:E; [right; apply nth_In, Nat.ltb_lt, E|].
    destruct sg; simpl; [|auto]. destruct (Nat.eqb (length w) 0) eqn:E0; simpl; [auto|].
    right. apply lastd_in. intros ->. discriminate.
  Qed.

  Lemma pad_operand_length sg bits w : length (pad_operand A z sg bits w) = bits.
  Proof.
    unfold pad_operand. destruct (Nat.eqb (length w) bits) eqn:E; [apply Nat.eqb_eq, E|].
    rewrite map_length, seq_length. reflexivity.
  Qed.

  Ltac pick_nth H :=
    match type of H with
    | (if ?c then _ else _) = _ => destruct c eqn:?E
    end.

  Lemma alias_ids_incl o ins cs old obits r :
    alias_ids A z o ins cs old obits = Some r ->
    forall x, In x r -> x = z \/ In x old \/ exists w, In w ins /\ In x w.
  Proof.
    unfold alias_ids. intros H x Hx.
    assert (N0 : forall k, k < length (nth 0 ins []) -> exists w, In w ins /\ In (nth k (nth 0 ins []) z) w)
      by (intros k Hk; apply (in_nth_ins ins 0), nth_In, Hk).
    assert (N1 : forall k, k < length (nth 1 ins []) -> exists w, In w ins /\ In (nth k (nth 1 ins []) z) w)
      by (intros k Hk; apply (in_nth_ins ins 1), nth_In, Hk).
    destruct o; try discriminate.
    - (* Concat *)
      destruct (_ <=? _) eqn:G; [|discriminate]. injection H as <-. apply Nat.leb_le in G.
      apply in_map_iff in Hx as (bit & <- & Hb). apply in_seq in Hb.
      destruct (bit <? length (nth 0 ins [])) eqn:E.
      + right. right. apply N0, Nat.ltb_lt, E.
      + apply Nat.ltb_ge in E. right. right. apply N1. lia.
    - destruct (_ <? _)%Z; [discriminate|]. injection H as <-.
      apply in_map_iff in Hx as (bit & <- & _).
      destruct (_ && _) eqn:E; [|auto]. apply andb_prop in E as [_ E]. right. right. apply N0, Nat.ltb_lt, E.
    - destruct (_ <? _)%Z; [discriminate|]. injection H as <-.
      apply in_map_iff in Hx as (bit & <- & _).
      destruct (_ <? _) eqn:E; [|auto]. right. right. apply N0, Nat.ltb_lt, E.
    - destruct (_ <? _)%Z; [discriminate|].
      destruct (nth 0 ins []) as [|a t] eqn:E0; [discriminate|]. rewrite <- E0 in H, N0. injection H as <-.
      apply in_map_iff in Hx as (bit & <- & _).
      destruct (_ <? _) eqn:E; [right; right; apply N0, Nat.ltb_lt, E|].
      right. right. apply (in_nth_ins ins 0). apply lastd_in. rewrite E0. discriminate.
    - destruct (_ || _); [discriminate|]. destruct (length old <? _); [discriminate|]. injection H as <-.
      apply in_app_or in Hx as [Hx|Hx].
      + apply in_map_iff in Hx as (k & <- & _). destruct (_ <? _) eqn:E; [|auto].
        right. right. apply N0, Nat.ltb_lt, E.
      + right. left. eapply skipn_In; eauto.
    - destruct (length old <? obits); [discriminate|]. injection H as <-.
      apply in_app_or in Hx as [Hx|Hx].
      + apply in_map_iff in Hx as (k & <- & _). destruct (_ <? _) eqn:E; [|auto].
        right. right. apply N0, Nat.ltb_lt, E.
      + right. left. eapply skipn_In; eauto.
    - destruct (nth 0 ins []) as [|a t] eqn:E0; [discriminate|].
      rewrite <- E0 in H, N0.
      destruct (length old <? obits); [discriminate|]. injection H as <-.
      apply in_app_or in Hx as [Hx|Hx].
      + apply in_map_iff in Hx as (k & <- & _). destruct (_ <? _) eqn:E; [right; right; apply N0, Nat.ltb_lt, E|].
        right. right. apply (in_nth_ins ins 0). apply lastd_in. rewrite E0. discriminate.
      + right. left. eapply skipn_In; eauto.
    - destruct (_ || _); [discriminate|]. destruct (length old <? obits); [discriminate|]. injection H as <-.
      apply in_app_or in Hx as [Hx|Hx].
      + apply in_map_iff in Hx as (k & <- & _).
        destruct (_ || _); destruct (_ <? _) eqn:E; auto; right; right; [apply N1 | apply N0]; apply Nat.ltb_lt, E.
      + right. left. eapply skipn_In; eauto.
  Qed.

  Lemma alias_ids_length o ins cs old obits r :
    alias_ids A z o ins cs old obits = Some r -> length r = length old.
  Proof.
    unfold alias_ids. intros H. destruct o; try discriminate.
    - destruct (_ <=? _); [|discriminate]. injection H as <-. rewrite map_length, seq_length. reflexivity.
    - destruct (_ <? _)%Z; [discriminate|]. injection H as <-. rewrite map_length, seq_length. reflexivity.
    - destruct (_ <? _)%Z; [discriminate|]. injection H as <-. rewrite map_length, seq_length. reflexivity.
    - destruct (_ <? _)%Z; [discriminate|]. destruct (nth 0 ins []); [discriminate|]. injection H as <-.
      rewrite map_length, seq_length. reflexivity.
    - destruct (_ || _); [discriminate|]. destruct (length old <? _) eqn:E; [discriminate|]. injection H as <-.
      apply Nat.ltb_ge in E. rewrite app_length, map_length, seq_length, skipn_length. lia.
    - destruct (length old <? obits) eqn:E; [discriminate|]. injection H as <-.
      apply Nat.ltb_ge in E. rewrite app_length, map_length, seq_length, skipn_length. lia.
    - destruct (nth 0 ins []); [discriminate|]. destruct (length old <? obits) eqn:E; [discriminate|]. injection H as <-.
      apply Nat.ltb_ge in E. rewrite app_length, map_length, seq_length, skipn_length. lia.
    - destruct (_ || _); [discriminate|]. destruct (length old <? obits) eqn:E; [discriminate|]. injection H as <-.
      apply Nat.ltb_ge in E. rewrite app_length, map_length, seq_length, skipn_length. lia.
  Qed.
End RewireIncl.
