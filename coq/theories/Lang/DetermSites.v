(* DetermSites.v — C08: the tie between the model sites of Lang/Determ.v and the
   regenerated inventory Gen/MapSites.v (which is keyed by file and function
   names, hence Coq strings; kept out of the extracted model).  No proofs. *)
From Coq Require Import List NArith Bool String.
From Mpc Require Import Gen.MapSites Lang.Determ.
Import ListNotations.
Open Scope string_scope.
Open Scope list_scope.

(* (file, enclosing function) identifying the site in the regenerated inventory *)
Definition msite_loc (m : msite) : string * string :=
  match m with
  | MS_parse => ("compiler/compiler.go", "Compiler.parse")
  | MS_init => ("compiler/ast/package.go", "Package.Init")
  | MS_consts => ("compiler/ssa/program.go", "Program.DefineConstants")
  | MS_typestring => ("types/types.go", "Type.String")
  | MS_maxop => ("compiler/ssa/instructions.go", "init")
  end.

Definition is_order_sensitive (s : site) : bool :=
  match s_class s with OrderSensitive => true | _ => false end.

Definition site_at (loc : string * string) (s : site) : bool :=
  String.eqb (s_file s) (fst loc) && String.eqb (s_func s) (snd loc).

(* class of a location according to the inventory: OrderSensitive when one of
   the map-range statements there is, or when there is none (a site the model
   relies on must be present). *)
Definition class_at (inv : list site) (loc : string * string) : site_class :=
  if existsb (fun s => site_at loc s && is_order_sensitive s) inv then OrderSensitive
  else match find (site_at loc) inv with
       | Some s => s_class s
       | None => OrderSensitive
       end.

Definition present_at (inv : list site) (loc : string * string) : bool := existsb (site_at loc) inv.

(* the class assignment of the CURRENT source tree *)
Definition cur (m : msite) : site_class := class_at MapSites.sites (msite_loc m).

(* what the model assumes about each site: the two import loops are emit loops
   (the model iterates them in raw oracle order unless the inventory says the
   keys are sorted first), the others have a fixed shape. *)
Definition class_allowed (m : msite) (c : site_class) : bool :=
  match m, c with
  | MS_parse, (SortedAfter | OrderSensitive) => true
  | MS_init, (SortedAfter | OrderSensitive) => true
  | MS_consts, SortedAfter => true
  | MS_typestring, LookupOnly => true
  | MS_maxop, CommutativeAccumulate => true
  | _, _ => false
  end.

Definition model_matches_inventory : bool :=
  forallb (fun m => present_at MapSites.sites (msite_loc m) && class_allowed m (cur m)) model_sites.

(* string rendering of a byte text, to tie the two renderings of the tables *)
Fixpoint text_of_string (s : string) : text :=
  match s with
  | EmptyString => []
  | String c r => N.of_nat (Ascii.nat_of_ascii c) :: text_of_string r
  end.
Definition table_text (t : lookup_table) : list (text * text) :=
  map (fun kv => (text_of_string (fst kv), text_of_string (snd kv))) (t_entries t).
Definition table_named (var : string) : list (text * text) :=
  match find (fun t => String.eqb (t_var t) var) lookup_tables with
  | Some t => table_text t
  | None => []
  end.

(* side condition of the LookupOnly class on the regenerated tables: the
   compared component has no duplicates (and the literal was fully constant) *)
Fixpoint nodup_strings (l : list string) : bool :=
  match l with
  | [] => true
  | x :: t => negb (existsb (String.eqb x) t) && nodup_strings t
  end.
Definition table_injective (t : lookup_table) : bool :=
  t_complete t &&
  (if String.eqb (t_component t) "value" then nodup_strings (map snd (t_entries t))
   else if String.eqb (t_component t) "key" then nodup_strings (map fst (t_entries t))
   else false).

(* the configuration is read-only during a compilation: the only write to a
   utils.Params field reachable from the compile roots that is admitted is the
   documented symbol table of the intern() builtin (parameter state by design:
   LoadSymbolIDs/SaveSymbolIDs) *)
Definition param_write_allowed (s : site) : bool :=
  String.eqb (s_func s) "Intern.intern" && String.eqb (s_expr s) "SymbolIDs".
