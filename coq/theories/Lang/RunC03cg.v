(* RunC03cg.v — executable entry point of the SSA -> circuit model (Lang/CircGen.v)
   for the C03 correspondence check, modes 4/5 (Yao target) and 6/7 (GMW target)
   of run_c03:

     input   (mode ssa ((input values...) ...))      ssa as in Lang/RunC03.v (mode 1):
             the listing the real compiler printed, decoded by RunC03.dec_sprog
     output  (ngates (nXOR nXNOR nAND nOR nINV) hash wfc dbu wf ((outputs...) ...) gates)

   ngates / per-operation counts / hash / gates: the gate list [circuit_of_ssa]
   emits for the listing, in emission order, wires canonically renumbered (input
   wires keep 0..n-1, every other wire is numbered by first appearance as A, B,
   O of each gate) — to be compared with Compiler.Gates of the real compiler
   right after prog.Circuit(cc), i.e. BEFORE ConstPropagate / ShortCircuitXORZero
   / Prune / Compile, renumbered the same way.  hash: h' = (h*m + v) mod 2^64
   over the two words op+8a, b+2^32 o of every gate, m = 1 + 2^7 + 2^23 (odd, so
   a change of any single word always changes the hash; written with shifts
   because the extracted model computes on binary numbers).
   gates = the full list ((op a b o)...) in modes 5 and 7, () in modes 4 and 6.
   wfc / dbu: single assignment and defined-before-use of that list;
   wf: the hypothesis [cg_wf_tg tg] of the theorems circuitgen_correct (Yao) /
   circuitgen_correct_gmw, evaluated on this program; outputs: gate-by-gate evaluation of the model's circuit on each
   input vector (one number per returned value). *)
From Coq Require Import ZArith NArith List Bool Arith FMapPositive.
From Mpc Require Import Gen.Consts Gen.Thresholds Base.Sx Lang.Mini Lang.Ssa Lang.CircGen
  Builders.Emit Builders.EvalFast Builders.RunC07.
Import ListNotations.

Definition cg_mask64 : N := 18446744073709551615.
Definition cg_hash_step (h v : N) : N :=
  N.land (h + N.shiftl h 7 + N.shiftl h 23 + v) cg_mask64.
Definition cg_hash_gate (h : N) (g : gate) : N :=
  cg_hash_step (cg_hash_step h (Z.to_N (op_code (g_op g)) + 8 * g_a g)) (g_b g + N.shiftl (g_o g) 32).
Definition cg_hash_gates (gs : list gate) : N := fold_left cg_hash_gate gs 1%N.

Definition count_op (o : gop) (gs : list gate) : nat :=
  length (filter (fun g => Z.eqb (op_code (g_op g)) (op_code o)) gs).

(* tg = false: the configuration of utils.NewParams() (= circuit_of_ssa p);
   tg = true: Params.Target = utils.TargetGMW *)
Definition run_c03cg (tg full : bool) (p : sprog) (vectors : list (list N)) : sx :=
  let c := circuit_of_ssa_gen multiplierArrayTresholds 0 tg p in
  let ninp := N.of_nat (cc_ninp c) in
  let '(cg, _) := canon_gates ninp (mkCanon (PositiveMap.empty N) ninp)
                              (rev_append (cc_gates c) []) [] in
  let outs := fun v =>
    let e := evalm (cc_gates c) (env_of_bits (input_bits (sp_inputs p) v)) in
    ofLN (map (valN e) (cc_outs c)) in
  SL [ ofnat (length cg);
       SL (map (fun o => ofnat (count_op o cg)) [XOR; XNOR; AND; OR; INV]);
       ofN (cg_hash_gates cg);
       ofB (wfc_fast ninp cg (PositiveMap.empty unit));
       ofB (dbu_fast ninp cg (PositiveMap.empty unit));
       ofB (cg_wf_tg tg p);
       SL (map outs vectors);
       if full then SL (map (fun g => SL [SZ (op_code (g_op g)); ofN (g_a g); ofN (g_b g); ofN (g_o g)]) cg)
       else SL [] ].
