(* DetermProof.v — C08: permutation invariance of the three insensitive loop
   classes, determinism of the model of Lang/Determ.v when no site is
   order-sensitive, and the refutation for the current source (finding F5:
   Package.Init and Compiler.parse range over the Imports map). *)
From Coq Require Import List NArith Bool String Arith Lia Permutation Sorted.
From Mpc Require Import Gen.MapSites Lang.Determ Lang.DetermSites.
Import ListNotations.
Open Scope list_scope.

(* ================================================================== *)
(* 0.  Oracles                                                         *)
(* ================================================================== *)

Definition oracle_ok (o : oracle) : Prop := forall A s ctx (l : list A), Permutation (o A s ctx l) l.

Lemma o_id_ok : oracle_ok o_id.
Proof. intros A s ctx l. apply Permutation_refl. Qed.

Lemma o_rev_ok : oracle_ok o_rev.
Proof. intros A s ctx l. apply Permutation_sym, Permutation_rev. Qed.

(* ================================================================== *)
(* 1.  SortedAfter: sorting makes the collect order irrelevant          *)
(* ================================================================== *)

Lemma NoDup_map_inj : forall (A B : Type) (k : A -> B) (l : list A),
    NoDup (map k l) -> forall a b, In a l -> In b l -> k a = k b -> a = b.
Proof.
  intros A B k. induction l as [|x t IH]; intros Hnd a b Ha Hb Hk; [destruct Ha|].
  simpl in Hnd. inversion Hnd as [|? ? Hnotin Hnd']; subst.
  destruct Ha as [Ha|Ha], Hb as [Hb|Hb]; subst.
  - reflexivity.
  - exfalso. apply Hnotin. rewrite Hk. apply in_map; exact Hb.
  - exfalso. apply Hnotin. rewrite <- Hk. apply in_map; exact Ha.
  - apply IH; assumption.
Qed.

Section SortBy.
  Context {A : Type} (k : A -> N).

  Definition le_k (a b : A) : Prop := (k a <= k b)%N.

  Lemma insert_by_perm : forall x l, Permutation (insert_by k x l) (x :: l).
  Proof.
    intros x l. induction l as [|y t IH]; simpl.
    - apply Permutation_refl.
    - destruct (N.leb (k x) (k y)).
      + apply Permutation_refl.
      + eapply perm_trans. { apply perm_skip, IH. } apply perm_swap.
  Qed.

  Lemma sort_by_perm : forall l, Permutation (sort_by k l) l.
  Proof.
    induction l as [|x t IH]; simpl.
    - apply perm_nil.
    - eapply perm_trans. { apply insert_by_perm. } apply perm_skip, IH.
  Qed.

  Lemma insert_by_sorted : forall x l, StronglySorted le_k l -> StronglySorted le_k (insert_by k x l).
  Proof.
    intros x l Hs. induction Hs as [|y t Hs IH Hall]; simpl.
    - constructor; constructor.
    - destruct (N.leb (k x) (k y)) eqn:E.
      + apply N.leb_le in E. constructor.
        * constructor; assumption.
        * constructor; [exact E|].
          eapply Forall_impl; [|exact Hall]. intros a Ha. unfold le_k in *. lia.
      + apply N.leb_gt in E. constructor; [exact IH|].
        apply Forall_forall. intros z Hz.
        apply (Permutation_in z (insert_by_perm x t)) in Hz.
        destruct Hz as [Hz|Hz]; [subst z; unfold le_k; lia|].
        rewrite Forall_forall in Hall. apply Hall; exact Hz.
  Qed.

  Lemma sort_by_sorted : forall l, StronglySorted le_k (sort_by k l).
  Proof.
    induction l as [|x t IH]; simpl.
    - constructor.
    - apply insert_by_sorted, IH.
  Qed.

  (* two sorted permutations of a list whose elements are determined by their keys are equal *)
  Lemma sorted_perm_unique : forall l1 l2,
      StronglySorted le_k l1 -> StronglySorted le_k l2 -> Permutation l1 l2 ->
      (forall a b, In a l1 -> In b l1 -> k a = k b -> a = b) ->
      l1 = l2.
  Proof.
    induction l1 as [|a t1 IH]; intros l2 H1 H2 Hp Hinj.
    - apply Permutation_nil in Hp. symmetry; exact Hp.
    - destruct l2 as [|b t2].
      { apply Permutation_sym, Permutation_nil in Hp. discriminate. }
      assert (Hab : a = b).
      { inversion H1 as [|? ? Hs1 Hall1]; subst. inversion H2 as [|? ? Hs2 Hall2]; subst.
        assert (Ha2 : In a (b :: t2)) by (eapply Permutation_in; [exact Hp | left; reflexivity]).
        assert (Hb1 : In b (a :: t1)) by (eapply Permutation_in; [apply Permutation_sym; exact Hp | left; reflexivity]).
        destruct Ha2 as [Hba|Ha2]; [symmetry; exact Hba|].
        destruct Hb1 as [Hab|Hb1]; [exact Hab|].
        rewrite Forall_forall in Hall1, Hall2.
        pose proof (Hall1 b Hb1) as L1. pose proof (Hall2 a Ha2) as L2. unfold le_k in *.
        apply Hinj; [left; reflexivity | right; exact Hb1 | lia]. }
      subst b. f_equal.
      inversion H1; subst. inversion H2; subst.
      apply IH; try assumption.
      + eapply Permutation_cons_inv; exact Hp.
      + intros x y Hx Hy. apply Hinj; right; assumption.
  Qed.

  Theorem sort_by_perm_invariant : forall l1 l2,
      Permutation l1 l2 -> NoDup (map k l1) -> sort_by k l1 = sort_by k l2.
  Proof.
    intros l1 l2 Hp Hnd.
    apply (sorted_perm_unique).
    - apply sort_by_sorted.
    - apply sort_by_sorted.
    - eapply perm_trans; [apply sort_by_perm|]. eapply perm_trans; [exact Hp|]. apply Permutation_sym, sort_by_perm.
    - intros a b Ha Hb. apply (NoDup_map_inj _ _ k l1 Hnd).
      + eapply Permutation_in; [apply sort_by_perm | exact Ha].
      + eapply Permutation_in; [apply sort_by_perm | exact Hb].
  Qed.
End SortBy.

(* keys themselves (sort.Strings of the aliases): no side condition *)
Lemma sort_keys_perm_invariant : forall l1 l2 : list N,
    Permutation l1 l2 -> sort_by (fun x => x) l1 = sort_by (fun x => x) l2.
Proof.
  intros l1 l2 Hp. apply (sorted_perm_unique (fun x : N => x)).
  - apply sort_by_sorted.
  - apply sort_by_sorted.
  - eapply perm_trans; [apply sort_by_perm|]. eapply perm_trans; [exact Hp|]. apply Permutation_sym, sort_by_perm.
  - intros a b _ _ H; exact H.
Qed.

(* Program.DefineConstants: the wire assignment does not depend on the order in
   which the Constants map is ranged *)
Theorem define_constants_perm : forall l1 l2 : list (N * nat),
    Permutation l1 l2 -> NoDup (map fst l1) -> define_constants l1 = define_constants l2.
Proof.
  intros l1 l2 Hp Hnd. unfold define_constants. f_equal. apply sort_by_perm_invariant; assumption.
Qed.

(* REFUTED without the uniqueness hypothesis: two entries of one name and
   different widths (the same numeric constant used at 32 and at 64 bits,
   a constant table keyed by name AND width): the map order decides which
   width is wired. *)
Theorem define_constants_ties_refuted :
  exists l1 l2 : list (N * nat), Permutation l1 l2 /\ define_constants l1 <> define_constants l2.
Proof.
  exists [(5%N, 32); (5%N, 64)], [(5%N, 64); (5%N, 32)]. split; [apply perm_swap|].
  vm_compute. intros Heq; discriminate Heq.
Qed.

Example define_constants_ties_first_wins :
  define_constants [(5%N, 32); (7%N, 8); (5%N, 64)] = [IConst 5 0 32; IConst 7 32 8]
  /\ define_constants [(5%N, 64); (7%N, 8); (5%N, 32)] = [IConst 5 0 64; IConst 7 64 8].
Proof. split; vm_compute; reflexivity. Qed.

(* ================================================================== *)
(* 2.  LookupOnly: unique match                                         *)
(* ================================================================== *)

Theorem find_unique_perm : forall (A : Type) (p : A -> bool) (l1 l2 : list A),
    Permutation l1 l2 ->
    (forall a b, In a l1 -> In b l1 -> p a = true -> p b = true -> a = b) ->
    find p l1 = find p l2.
Proof.
  intros A p l1 l2 Hp Huniq.
  destruct (find p l1) as [a|] eqn:E1; destruct (find p l2) as [b|] eqn:E2.
  - apply find_some in E1. apply find_some in E2. destruct E1 as [Ia Pa], E2 as [Ib Pb].
    f_equal. apply Huniq; try assumption.
    eapply Permutation_in; [apply Permutation_sym; exact Hp | exact Ib].
  - apply find_some in E1. destruct E1 as [Ia Pa].
    pose proof (find_none _ _ E2 a (Permutation_in _ Hp Ia)) as C. congruence.
  - apply find_some in E2. destruct E2 as [Ib Pb].
    pose proof (find_none _ _ E1 b (Permutation_in _ (Permutation_sym Hp) Ib)) as C. congruence.
  - reflexivity.
Qed.

(* ================================================================== *)
(* 3.  CommutativeAccumulate                                            *)
(* ================================================================== *)

Theorem fold_comm_perm : forall (A S : Type) (f : S -> A -> S),
    (forall s a b, f (f s a) b = f (f s b) a) ->
    forall l1 l2, Permutation l1 l2 -> forall s, fold_left f l1 s = fold_left f l2 s.
Proof.
  intros A S f Hc l1 l2 Hp. induction Hp; intros s; simpl.
  - reflexivity.
  - apply IHHp.
  - rewrite Hc. reflexivity.
  - rewrite IHHp1. apply IHHp2.
Qed.

(* ================================================================== *)
(* 4.  The model: congruence in the key-order function                  *)
(* ================================================================== *)

Lemma fold_left_ext_in : forall (A B : Type) (f g : B -> A -> B) (l : list A) (b : B),
    (forall b a, In a l -> f b a = g b a) -> fold_left f l b = fold_left g l b.
Proof.
  intros A B f g l. induction l as [|x t IH]; intros b H; simpl; [reflexivity|].
  rewrite H by (left; reflexivity). apply IH. intros b' a Ha. apply H. right; exact Ha.
Qed.

Lemma parse_ext : forall fuel rk1 rk2 fs pkgs p,
    (forall ctx l, rk1 MS_parse ctx l = rk2 MS_parse ctx l) ->
    parse fuel rk1 fs pkgs p = parse fuel rk2 fs pkgs p.
Proof.
  induction fuel as [|f IH]; intros rk1 rk2 fs pkgs p H; simpl; [reflexivity|].
  rewrite H. apply fold_left_ext_in. intros acc alias _.
  destruct acc as [pk|e]; [|reflexivity].
  destruct (assoc_get alias pk); [reflexivity|].
  destruct (find_pkg fs (import_path p alias)); [|reflexivity].
  apply IH. exact H.
Qed.

Lemma pkg_init_ext : forall fuel rk1 rk2 pkgs st p,
    (forall ctx l, rk1 MS_init ctx l = rk2 MS_init ctx l) ->
    pkg_init fuel rk1 pkgs st p = pkg_init fuel rk2 pkgs st p.
Proof.
  induction fuel as [|f IH]; intros rk1 rk2 pkgs st p H; simpl; [reflexivity|].
  destruct (memN (p_name p) (g_init st)); [reflexivity|].
  rewrite H.
  match goal with |- match ?a with _ => _ end = match ?b with _ => _ end => assert (E : a = b) end.
  { apply fold_left_ext_in. intros acc alias _.
    destruct acc as [s|e]; [|reflexivity].
    destruct (assoc_get alias pkgs); [|reflexivity].
    apply IH. exact H. }
  rewrite E. reflexivity.
Qed.

(* ------------------------------------------------------------------ *)
(* invariants needed at the DefineConstants site: one entry per name   *)

Lemma add_constant_nodup : forall cs c, NoDup (map fst cs) -> NoDup (map fst (add_constant cs c)).
Proof.
  intros cs c Hnd. unfold add_constant.
  destruct (existsb (fun x => N.eqb (fst x) (fst c)) cs) eqn:E; [exact Hnd|].
  rewrite map_app. simpl.
  apply (Permutation_NoDup (l := fst c :: map fst cs)).
  { apply Permutation_cons_append. }
  constructor; [|exact Hnd].
  intros Hx. apply in_map_iff in Hx. destruct Hx as [y [Hy Iy]].
  assert (existsb (fun x => N.eqb (fst x) (fst c)) cs = true) as C.
  { apply existsb_exists. exists y. split; [exact Iy|]. rewrite Hy. apply N.eqb_refl. }
  congruence.
Qed.

Lemma fold_left_sum_inr : forall (A S E : Type) (f : S -> A -> S + E) (l : list A) (e : E),
    fold_left (fun acc a => match acc with inl s => f s a | inr e => inr e end) l (inr e) = inr e.
Proof. intros A S E f l e. induction l as [|x t IH]; simpl; [reflexivity | exact IH]. Qed.

Lemma fold_left_sum_inv : forall (A S E : Type) (P : S -> Prop) (f : S -> A -> S + E) (l : list A),
    (forall s a s', P s -> f s a = inl s' -> P s') ->
    forall s r, P s ->
      fold_left (fun acc a => match acc with inl s => f s a | inr e => inr e end) l (inl s) = inl r -> P r.
Proof.
  intros A S E P f l Hstep. induction l as [|x t IH]; intros s r Ps H; simpl in H.
  - inversion H; subst; exact Ps.
  - destruct (f s x) as [s1|e] eqn:Efx.
    + eapply IH; [eapply Hstep; eassumption | exact H].
    + rewrite fold_left_sum_inr in H. discriminate.
Qed.

Definition consts_ok (st : gen) : Prop := NoDup (map fst (g_consts st)).

Lemma fold_define_constant_ok : forall cs st, consts_ok st -> consts_ok (fold_left define_constant cs st).
Proof.
  induction cs as [|c t IH]; intros st H; simpl; [exact H|].
  apply IH. unfold consts_ok, define_constant; simpl. apply add_constant_nodup; exact H.
Qed.

Lemma fold_define_type_consts : forall p ts st, g_consts (fold_left (define_type p) ts st) = g_consts st.
Proof. intros p ts. induction ts as [|t r IH]; intros st; simpl; [reflexivity|]. rewrite IH. reflexivity. Qed.

Lemma pkg_init_consts_ok : forall fuel rk pkgs st p st',
    consts_ok st -> pkg_init fuel rk pkgs st p = inl st' -> consts_ok st'.
Proof.
  induction fuel as [|f IH]; intros rk pkgs st p st' Hok H; simpl in H; [discriminate|].
  destruct (memN (p_name p) (g_init st)).
  { inversion H; subst; exact Hok. }
  match type of H with match ?F with _ => _ end = _ => destruct F as [st2|e] eqn:EF end; [|discriminate].
  inversion H; subst; clear H.
  assert (Hok2 : consts_ok st2).
  { eapply (fold_left_sum_inv _ _ _ consts_ok
              (fun s alias => match assoc_get alias pkgs with
                              | Some q => pkg_init f rk pkgs s q
                              | None => inr (err_imported_not_used, alias)
                              end)); [| |exact EF].
    - intros s a s' Ps Hs. destruct (assoc_get a pkgs) as [q|]; [|discriminate].
      eapply IH; eassumption.
    - exact Hok. }
  unfold consts_ok, emit_vars; simpl. rewrite fold_define_type_consts.
  apply fold_define_constant_ok. exact Hok2.
Qed.

(* ------------------------------------------------------------------ *)
(* text equality and the tables                                         *)

Lemma text_eqb_eq : forall a b : text, text_eqb a b = true <-> a = b.
Proof.
  induction a as [|x s IH]; destruct b as [|y t]; simpl; split; intros H; try reflexivity; try discriminate.
  - apply andb_true_iff in H. destruct H as [H1 H2]. apply N.eqb_eq in H1. apply IH in H2. subst; reflexivity.
  - inversion H; subst. rewrite N.eqb_refl. simpl. apply IH. reflexivity.
Qed.

Fixpoint nodup_text (l : list text) : bool :=
  match l with
  | [] => true
  | x :: t => negb (existsb (text_eqb x) t) && nodup_text t
  end.

Lemma nodup_text_ok : forall l, nodup_text l = true -> NoDup l.
Proof.
  induction l as [|x t IH]; simpl; intros H; [constructor|].
  apply andb_true_iff in H. destruct H as [H1 H2]. constructor; [|apply IH; exact H2].
  intros Hin. apply negb_true_iff in H1.
  assert (existsb (text_eqb x) t = true) as C.
  { apply existsb_exists. exists x. split; [exact Hin | apply text_eqb_eq; reflexivity]. }
  congruence.
Qed.

(* the regenerated types.Types is injective on the compared component *)
Lemma types_table_values_nodup : NoDup (map snd table_types_Types).
Proof. apply nodup_text_ok. vm_compute. reflexivity. Qed.

(* Type.String does not depend on the iteration order of an injective table *)
Theorem type_string_in_perm : forall tbl1 tbl2 t,
    Permutation tbl1 tbl2 -> NoDup (map snd tbl1) -> type_string_in tbl1 t = type_string_in tbl2 t.
Proof.
  intros tbl1 tbl2 t Hp Hnd. unfold type_string_in.
  rewrite (find_unique_perm _ (fun kv => text_eqb (snd kv) t) tbl1 tbl2 Hp); [reflexivity|].
  intros a b Ia Ib Pa Pb. apply text_eqb_eq in Pa. apply text_eqb_eq in Pb.
  apply (NoDup_map_inj _ _ snd tbl1 Hnd); [assumption | assumption | congruence].
Qed.

Lemma type_string_det : forall o1 o2 t, oracle_ok o1 -> oracle_ok o2 -> type_string o1 t = type_string o2 t.
Proof.
  intros o1 o2 t H1 H2. unfold type_string.
  rewrite (type_string_in_perm _ table_types_Types t (H1 _ MS_typestring 0%N table_types_Types)).
  - symmetry. apply type_string_in_perm.
    + apply H2.
    + eapply Permutation_NoDup; [apply Permutation_map, Permutation_sym, H2|]. exact types_table_values_nodup.
  - eapply Permutation_NoDup; [apply Permutation_map, Permutation_sym, H1|]. exact types_table_values_nodup.
Qed.

Lemma max_len_perm : forall l1 l2, Permutation l1 l2 -> max_len l1 = max_len l2.
Proof.
  intros l1 l2 Hp. unfold max_len. apply fold_comm_perm; [|exact Hp].
  intros s a b. lia.
Qed.

Lemma max_operand_length_det : forall o1 o2, oracle_ok o1 -> oracle_ok o2 ->
    max_operand_length o1 = max_operand_length o2.
Proof.
  intros o1 o2 H1 H2. unfold max_operand_length.
  rewrite (max_len_perm _ _ (H1 _ MS_maxop 0%N table_compiler_ssa_operands)).
  symmetry. apply max_len_perm. apply H2.
Qed.

(* ================================================================== *)
(* 5.  Determinism of the model                                         *)
(* ================================================================== *)

Lemma range_keys_sorted_det : forall cls o1 o2 s, cls s = SortedAfter -> oracle_ok o1 -> oracle_ok o2 ->
    forall ctx l, range_keys cls o1 s ctx l = range_keys cls o2 s ctx l.
Proof.
  intros cls o1 o2 s Hc H1 H2 ctx l. unfold range_keys. rewrite Hc.
  apply sort_keys_perm_invariant.
  eapply perm_trans; [apply H1 | apply Permutation_sym, H2].
Qed.

Theorem compile_in_gen_deterministic_cls : forall r cls,
    cls MS_parse = SortedAfter -> cls MS_init = SortedAfter ->
    forall o1 o2, oracle_ok o1 -> oracle_ok o2 ->
    forall cs fs main, compile_in_gen r cls o1 cs fs main = compile_in_gen r cls o2 cs fs main.
Proof.
  intros r cls Hp Hi o1 o2 H1 H2 cs fs main. unfold compile_in_gen.
  generalize (if r then cs0 else cs). clear cs. intros cs. cbv zeta.
  rewrite (parse_ext _ (range_keys cls o1) (range_keys cls o2)) by (apply range_keys_sorted_det; assumption).
  destruct (parse _ (range_keys cls o2) fs (cs_packages cs) main) as [pkgs|[code arg]]; [|reflexivity].
  rewrite (pkg_init_ext _ (range_keys cls o1) (range_keys cls o2)) by (apply range_keys_sorted_det; assumption).
  destruct (pkg_init _ (range_keys cls o2) pkgs _ main) as [st|[code arg]] eqn:EI; [|reflexivity].
  destruct (instantiate (p_calls main) _) as [calls inst].
  assert (Hok : consts_ok st).
  { eapply pkg_init_consts_ok; [|exact EI]. unfold consts_ok; simpl. constructor. }
  assert (Ets : map (fun t => ITypeStr (type_string o1 t)) (p_sig main)
                = map (fun t => ITypeStr (type_string o2 t)) (p_sig main)).
  { apply map_ext. intros t. f_equal. apply type_string_det; assumption. }
  assert (Edc : define_constants (o1 _ MS_consts 0%N (g_consts st))
                = define_constants (o2 _ MS_consts 0%N (g_consts st))).
  { rewrite (define_constants_perm _ (g_consts st) (H1 _ MS_consts 0%N (g_consts st))).
    - symmetry. apply define_constants_perm; [apply H2|].
      eapply Permutation_NoDup; [apply Permutation_map, Permutation_sym, H2 | exact Hok].
    - eapply Permutation_NoDup; [apply Permutation_map, Permutation_sym, H1 | exact Hok]. }
  rewrite Ets, Edc, (max_operand_length_det o1 o2 H1 H2). reflexivity.
Qed.

(* for ANY class assignment that has both import loops sorted *)
Theorem compile_in_deterministic_cls : forall cls,
    cls MS_parse = SortedAfter -> cls MS_init = SortedAfter ->
    forall o1 o2, oracle_ok o1 -> oracle_ok o2 ->
    forall cs fs main, compile_in cls o1 cs fs main = compile_in cls o2 cs fs main.
Proof. exact (compile_in_gen_deterministic_cls true). Qed.

(* ------------------------------------------------------------------ *)
(* the class assignment of the current source                           *)

Lemma class_at_order_sensitive : forall inv loc,
    class_at inv loc = OrderSensitive -> present_at inv loc = true ->
    exists s, In s inv /\ s_class s = OrderSensitive.
Proof.
  intros inv loc Hc Hp. unfold class_at in Hc.
  destruct (existsb (fun s => site_at loc s && is_order_sensitive s) inv) eqn:E.
  - apply existsb_exists in E. destruct E as [s [Is Hs]]. apply andb_true_iff in Hs. destruct Hs as [_ Hs].
    exists s. split; [exact Is|]. unfold is_order_sensitive in Hs. destruct (s_class s); try discriminate; reflexivity.
  - destruct (find (site_at loc) inv) as [s|] eqn:F.
    + apply find_some in F. exists s. split; [apply F | exact Hc].
    + unfold present_at in Hp. apply existsb_exists in Hp. destruct Hp as [s [Is Hs]].
      pose proof (find_none _ _ F s Is) as C. congruence.
Qed.

Lemma model_matches_inventory_ok : model_matches_inventory = true.
Proof. vm_compute. reflexivity. Qed.

Lemma cur_emit_sorted : (forall s, In s MapSites.sites -> s_class s <> OrderSensitive) ->
    forall m, In m [MS_parse; MS_init] -> cur m = SortedAfter.
Proof.
  intros H m Hm.
  pose proof model_matches_inventory_ok as M. unfold model_matches_inventory in M.
  rewrite forallb_forall in M.
  assert (Im : In m model_sites) by (destruct Hm as [<-|[<-|[]]]; simpl; auto).
  specialize (M m Im). apply andb_true_iff in M. destruct M as [Mp Ma].
  destruct (cur m) eqn:E.
  - reflexivity.
  - destruct Hm as [<-|[<-|[]]]; discriminate.
  - destruct Hm as [<-|[<-|[]]]; discriminate.
  - exfalso. destruct (class_at_order_sensitive _ _ E Mp) as [s [Is Cs]]. exact (H s Is Cs).
Qed.

(* C08: when the regenerated inventory has no order-sensitive site, the model of
   the current source yields one listing (and one Compiler state) whatever the
   runtime's map iteration orders are, for every program, package directory and
   Compiler history. *)
Theorem compile_deterministic :
    (forall s, In s MapSites.sites -> s_class s <> OrderSensitive) ->
    forall o1 o2, oracle_ok o1 -> oracle_ok o2 ->
    forall cs fs main, compile_in cur o1 cs fs main = compile_in cur o2 cs fs main.
Proof.
  intros H o1 o2 H1 H2 cs fs main.
  apply compile_in_deterministic_cls; try assumption; apply cur_emit_sorted; simpl; auto.
Qed.

Corollary compile_fresh_deterministic :
    (forall s, In s MapSites.sites -> s_class s <> OrderSensitive) ->
    forall o1 o2, oracle_ok o1 -> oracle_ok o2 -> forall p, compile cur o1 p = compile cur o2 p.
Proof. intros H o1 o2 H1 H2 p. unfold compile. rewrite (compile_deterministic H o1 o2 H1 H2). reflexivity. Qed.

(* non-vacuity of compile_in_deterministic_cls: the class assignment of the
   repaired source (both import loops sorted) *)
Definition cls_fixed (m : msite) : site_class :=
  match m with
  | MS_parse | MS_init | MS_consts => SortedAfter
  | MS_typestring => LookupOnly
  | MS_maxop => CommutativeAccumulate
  end.

(* witness program: main imports two packages that define one variable each *)
Definition w_p2 : pkg := mkPkg 2 2 [] [] [(7%N, 8)] [] [mkV 1 0] [] [].
Definition w_p3 : pkg := mkPkg 3 3 [] [] [(5%N, 4)] [9%N] [mkV 1 1] [] [].
Definition w_main : pkg := mkPkg 1 1 [2; 3]%N [] [] [] [] [[49]%N; [51]%N] [(2, 1); (3, 1); (2, 1)]%N.
Definition w_prog : prog := (w_main, [w_p2; w_p3]).

Example fixed_model_same_listing : compile cls_fixed o_id w_prog = compile cls_fixed o_rev w_prog.
Proof. vm_compute. reflexivity. Qed.

Example fixed_model_listing_nontrivial :
  compile cls_fixed o_rev w_prog =
  [IBlock 2 1 0; ITypeId 3 9 2147483648; IBlock 3 1 1; IMain 1 1; ICall 2 1 0; ICall 3 1 0; ICall 2 1 1;
   ITypeStr (Some [98; 111; 111; 108]%N); ITypeStr (Some [117; 105; 110; 116]%N);
   IConst 5 0 4; IConst 7 4 8; IPad 7]%N.
Proof. vm_compute. reflexivity. Qed.

(* ================================================================== *)
(* 6.  Refutations                                                      *)
(* ================================================================== *)

(* only "sorted or not" matters of the classes of the two import loops *)
Definition sortedb (c : site_class) : bool := match c with SortedAfter => true | _ => false end.

Lemma range_keys_cls_ext : forall cls1 cls2 o s, sortedb (cls1 s) = sortedb (cls2 s) ->
    forall ctx l, range_keys cls1 o s ctx l = range_keys cls2 o s ctx l.
Proof. intros cls1 cls2 o s H ctx l. unfold range_keys. destruct (cls1 s), (cls2 s); try discriminate; reflexivity. Qed.

Lemma compile_in_cls_ext : forall r cls1 cls2 o cs fs main,
    sortedb (cls1 MS_parse) = sortedb (cls2 MS_parse) -> sortedb (cls1 MS_init) = sortedb (cls2 MS_init) ->
    compile_in_gen r cls1 o cs fs main = compile_in_gen r cls2 o cs fs main.
Proof.
  intros r cls1 cls2 o cs fs main Hp Hi. unfold compile_in_gen.
  generalize (if r then cs0 else cs). clear cs. intros cs. cbv zeta.
  rewrite (parse_ext _ (range_keys cls1 o) (range_keys cls2 o)) by (apply range_keys_cls_ext; assumption).
  destruct (parse _ (range_keys cls2 o) fs (cs_packages cs) main) as [pkgs|[code arg]]; [|reflexivity].
  rewrite (pkg_init_ext _ (range_keys cls1 o) (range_keys cls2 o)) by (apply range_keys_cls_ext; assumption).
  reflexivity.
Qed.

Definition cls_b (bp bi : bool) (m : msite) : site_class :=
  match m with
  | MS_parse => if bp then SortedAfter else OrderSensitive
  | MS_init => if bi then SortedAfter else OrderSensitive
  | _ => cls_fixed m
  end.

Lemma compile_in_cls_b : forall r cls o cs fs main,
    compile_in_gen r cls o cs fs main
    = compile_in_gen r (cls_b (sortedb (cls MS_parse)) (sortedb (cls MS_init))) o cs fs main.
Proof.
  intros. apply compile_in_cls_ext; simpl.
  - destruct (sortedb (cls MS_parse)); reflexivity.
  - destruct (sortedb (cls MS_init)); reflexivity.
Qed.

(* a loop that emits in raw map order is order-dependent: whichever class
   assignment leaves Package.Init unsorted *)
Lemma init_raw_order_refuted : forall cls, cls MS_init <> SortedAfter ->
    compile cls o_id w_prog <> compile cls o_rev w_prog.
Proof.
  intros cls Hc. unfold compile, compile_in. rewrite !(compile_in_cls_b true cls).
  assert (E : sortedb (cls MS_init) = false) by (destruct (cls MS_init); try reflexivity; congruence).
  rewrite E. destruct (sortedb (cls MS_parse)); vm_compute; intros Heq; discriminate Heq.
Qed.


(* histories: a compilation does not depend on what the Compiler compiled before
   (compiler.go drops the package cache when a compilation starts) *)
Theorem compile_in_history_independent : forall cls o cs cs' fs main,
    snd (compile_in cls o cs fs main) = snd (compile_in cls o cs' fs main).
Proof. intros. reflexivity. Qed.

Theorem reuse_same : forall cls o1 o2 p, compile_again cls o1 o2 p = compile cls o2 p.
Proof. intros. reflexivity. Qed.

(* ---- regression records (the source before the repairs 0752aff and 8ae24d4) ---- *)

(* F5: with Package.Init ranging over the Imports map in raw order the listing
   depended on the iteration order: init_raw_order_refuted above, for every
   class assignment with cls MS_init <> SortedAfter. *)

(* F14: a Compiler that keeps its package cache (reset = false) skips the
   initialisation of the cached packages at the second compilation and carries
   the function instance counters over: for every class assignment the second
   listing differs from the first. *)
Definition compile_again_noreset (cls : msite -> site_class) (o1 o2 : oracle) (p : prog) : listing :=
  snd (compile_in_gen false cls o2 (fst (compile_in_gen false cls o1 cs0 (snd p) (fst p))) (snd p) (fst p)).

Theorem reuse_refuted_without_reset : forall cls,
    exists (p : prog) (o : oracle), oracle_ok o /\
      compile_again_noreset cls o o p <> snd (compile_in_gen false cls o cs0 (snd p) (fst p)).
Proof.
  intros cls. exists w_prog, o_id. split; [exact o_id_ok|].
  unfold compile_again_noreset. rewrite !(compile_in_cls_b false cls).
  destruct (sortedb (cls MS_init)); destruct (sortedb (cls MS_parse)); vm_compute; intros Heq; discriminate Heq.
Qed.

(* the function instance counters alone (a program without package variables):
   labels f#0 g#0 f#1 at the first compilation, f#2 g#1 f#3 at the second *)
Definition w_calls : prog :=
  (mkPkg 1 1 [2]%N [] [] [] [] [] [(2, 1); (2, 2); (2, 1)]%N, [mkPkg 2 2 [] [] [] [] [] [] []]).

Example func_instances_first :
  compile cls_fixed o_id w_calls = [IMain 0 0; ICall 2 1 0; ICall 2 2 0; ICall 2 1 1; IPad 7]%N.
Proof. vm_compute. reflexivity. Qed.

Example func_instances_regression :
  compile_again_noreset cls_fixed o_id o_id w_calls = [IMain 0 0; ICall 2 1 2; ICall 2 2 1; ICall 2 1 3; IPad 7]%N.
Proof. vm_compute. reflexivity. Qed.

(* ---- alias clashes: the package table is keyed by alias ---- *)

(* main (path 1) imports lib/codec (alias 2, path 20) and proto (alias 3, path 3);
   proto imports legacy/codec (alias 2, path 21).  The two codec packages differ
   in the size of their init block (1 resp. 2 instructions). *)
Definition c_lib : pkg := mkPkg 2 20 [] [] [] [] [mkV 1 0] [] [].
Definition c_legacy : pkg := mkPkg 2 21 [] [] [] [] [mkV 2 0] [] [].
Definition c_proto : pkg := mkPkg 3 3 [2]%N [(2, 21)]%N [] [] [mkV 1 0] [] [].
Definition c_main : pkg := mkPkg 1 1 [2; 3]%N [(2, 20); (3, 3)]%N [] [] [] [] [].
Definition c_prog : prog := (c_main, [c_lib; c_legacy; c_proto]).

(* current source (imports parsed in sorted alias order): lib/codec is parsed
   first and owns the alias; legacy/codec is never parsed - for every oracle *)
Example alias_clash_sorted_winner : forall o, oracle_ok o ->
  compile cls_fixed o c_prog = compile cls_fixed o_id c_prog.
Proof. intros o Ho. unfold compile. apply f_equal. apply compile_in_deterministic_cls; try reflexivity; [exact Ho | exact o_id_ok]. Qed.

Example alias_clash_sorted_listing :
  compile cls_fixed o_id c_prog = [IBlock 2 1 0; IBlock 3 1 0; IMain 0 0; IPad 7]%N.
Proof. vm_compute. reflexivity. Qed.

(* regression record (seeded defect: Compiler.parse ranging over the Imports map
   again): with raw-order parsing the other path can win the alias and the
   program is compiled against a different package *)
Example alias_clash_parse_order_refuted :
  compile (cls_b false true) o_rev c_prog = [IBlock 2 2 0; IBlock 3 1 0; IMain 0 0; IPad 7]%N
  /\ compile (cls_b false true) o_id c_prog <> compile (cls_b false true) o_rev c_prog.
Proof. split; [vm_compute; reflexivity | vm_compute; intros Heq; discriminate Heq]. Qed.

(* sort.SliceStable of the GMW target: equal keys keep their order *)
Example gmw_order_stable :
  gmw_order (fun g : nat * bool * nat => fst g)
            [(1, false, 10); (0, false, 11); (1, true, 12); (0, false, 13); (1, false, 14); (0, true, 15)]
  = [(0, true, 15); (0, false, 11); (0, false, 13); (1, true, 12); (1, false, 10); (1, false, 14)].
Proof. vm_compute. reflexivity. Qed.

(* ================================================================== *)
(* 7.  Enumerated oracles are oracles                                   *)
(* ================================================================== *)

Lemma insert_all_perm : forall (A : Type) (x : A) (l l' : list A), In l' (insert_all x l) -> Permutation l' (x :: l).
Proof.
  intros A x. induction l as [|y t IH]; intros l' H; simpl in H.
  - destruct H as [<-|[]]. apply Permutation_refl.
  - destruct H as [<-|H]; [apply Permutation_refl|].
    apply in_map_iff in H. destruct H as [r [<- Ir]].
    eapply perm_trans; [apply perm_skip, IH, Ir | apply perm_swap].
Qed.

Lemma perms_perm : forall (A : Type) (l l' : list A), In l' (perms l) -> Permutation l' l.
Proof.
  intros A. induction l as [|x t IH]; intros l' H; simpl in H.
  - destruct H as [<-|[]]. apply perm_nil.
  - apply in_flat_map in H. destruct H as [r [Ir Il]].
    eapply perm_trans; [apply insert_all_perm; exact Il | apply perm_skip, IH, Ir].
Qed.

Lemma oracle_of_table_ok : forall t, oracle_ok (oracle_of_table t).
Proof.
  intros t A s ctx l. unfold oracle_of_table.
  destruct s; try apply Permutation_refl.
  destruct (assoc_get ctx t) as [i|]; [|apply Permutation_refl].
  destruct (nth_in_or_default i (perms l) l) as [Hin|Heq].
  - apply perms_perm; exact Hin.
  - rewrite Heq. apply Permutation_refl.
Qed.

(* ================================================================== *)
(* 8.  Obligations on the regenerated inventory                         *)
(* ================================================================== *)

Lemma no_goroutines : MapSites.go_sites = [].
Proof. reflexivity. Qed.

Lemma lookup_tables_injective : forallb table_injective MapSites.lookup_tables = true.
Proof. vm_compute. reflexivity. Qed.

Lemma tables_consistent :
  table_named "Types" = table_types_Types /\ table_named "operands" = table_compiler_ssa_operands.
Proof. split; vm_compute; reflexivity. Qed.

(* ================================================================== *)
(* 9.  Completeness of the enumerated oracles                           *)
(* ================================================================== *)

Lemma insert_all_in : forall (A : Type) (x : A) (a b : list A), In (a ++ x :: b) (insert_all x (a ++ b)).
Proof.
  intros A x. induction a as [|y a IH]; intros b; simpl.
  - destruct b; simpl; left; reflexivity.
  - right. apply in_map. apply IH.
Qed.

Lemma perms_complete : forall (A : Type) (l l' : list A), Permutation l' l -> In l' (perms l).
Proof.
  intros A. induction l as [|x t IH]; intros l' Hp.
  - apply Permutation_sym, Permutation_nil in Hp. subst. left; reflexivity.
  - assert (Hin : In x l') by (eapply Permutation_in; [apply Permutation_sym; exact Hp | left; reflexivity]).
    apply in_split in Hin. destruct Hin as [a [b ->]].
    simpl. apply in_flat_map. exists (a ++ b). split.
    + apply IH. apply Permutation_sym. eapply Permutation_cons_app_inv. apply Permutation_sym. exact Hp.
    + apply insert_all_in.
Qed.

Lemma insert_all_length : forall (A : Type) (x : A) (l : list A), List.length (insert_all x l) = S (List.length l).
Proof. intros A x. induction l as [|y t IH]; simpl; [reflexivity|]. rewrite List.map_length, IH. reflexivity. Qed.

Lemma flat_map_length_const : forall (A B : Type) (f : A -> list B) (c : nat) (L : list A),
    (forall r, In r L -> List.length (f r) = c) -> List.length (flat_map f L) = List.length L * c.
Proof.
  intros A B f c. induction L as [|r t IH]; intros H; simpl; [reflexivity|].
  rewrite app_length, H by (left; reflexivity). rewrite IH by (intros; apply H; right; assumption). reflexivity.
Qed.

Lemma perms_length : forall (A : Type) (l : list A), List.length (perms l) = fact (List.length l).
Proof.
  intros A. induction l as [|x t IH]; [reflexivity|].
  change (perms (x :: t)) with (flat_map (insert_all x) (perms t)).
  rewrite (flat_map_length_const _ _ _ (S (List.length t))).
  - rewrite IH. simpl. lia.
  - intros r Hr. rewrite insert_all_length. f_equal. apply Permutation_length. apply perms_perm. exact Hr.
Qed.

(* the index of a permutation among the enumerated ones *)
Lemma perm_index : forall (A : Type) (l l' : list A), Permutation l' l ->
    exists i, i < fact (List.length l) /\ nth i (perms l) l = l'.
Proof.
  intros A l l' Hp. destruct (In_nth _ _ l (perms_complete _ _ _ Hp)) as [i [Hi Hn]].
  exists i. split; [rewrite <- perms_length; exact Hi | exact Hn].
Qed.

Lemma assoc_get_cons_other : forall (B : Type) k k' (v : B) t, k <> k' -> assoc_get k ((k', v) :: t) = assoc_get k t.
Proof.
  intros B k k' v t Hne. unfold assoc_get. simpl.
  destruct (N.eqb k' k) eqn:E; [apply N.eqb_eq in E; congruence | reflexivity].
Qed.

Lemma assoc_get_cons_same : forall (B : Type) k (v : B) t, assoc_get k ((k, v) :: t) = Some v.
Proof. intros. unfold assoc_get. simpl. rewrite N.eqb_refl. reflexivity. Qed.

(* Every permutation oracle coincides, on the key lists the model hands to it at
   the Package.Init site for the packages of a program, with one of the
   enumerated table oracles. *)
Theorem enumerated_oracles_complete : forall (o : oracle) (ps : list pkg),
    oracle_ok o -> NoDup (map p_path ps) ->
    exists t, In t (all_tables ps) /\
      forall p, In p ps ->
        oracle_of_table t N MS_init (p_path p) (p_imports p) = o N MS_init (p_path p) (p_imports p).
Proof.
  intros o ps Hok. induction ps as [|q ps IH]; intros Hnd.
  - exists []. split; [left; reflexivity | intros p []].
  - simpl in Hnd. inversion Hnd as [|? ? Hnotin Hnd']; subst.
    destruct (IH Hnd') as [t [It Ht]].
    destruct (perm_index _ (p_imports q) (o N MS_init (p_path q) (p_imports q)) (Hok _ _ _ _)) as [i [Hi Hn]].
    exists ((p_path q, i) :: t). split.
    + simpl. apply in_flat_map. exists i. split; [apply in_seq; lia | apply in_map; exact It].
    + intros p [<-|Hp].
      * unfold oracle_of_table. rewrite assoc_get_cons_same. exact Hn.
      * assert (Hne : p_path p <> p_path q).
        { intros E. apply Hnotin. rewrite <- E. apply in_map. exact Hp. }
        specialize (Ht p Hp). unfold oracle_of_table in *.
        rewrite assoc_get_cons_other by exact Hne. exact Ht.
Qed.

(* pkg_init only consults the key-order function on (name, imports) of the
   packages it visits *)
Lemma pkg_init_ext_on : forall fuel rk1 rk2 pkgs st p,
    (forall q, q = p \/ In q (map snd pkgs) -> rk1 MS_init (p_path q) (p_imports q) = rk2 MS_init (p_path q) (p_imports q)) ->
    pkg_init fuel rk1 pkgs st p = pkg_init fuel rk2 pkgs st p.
Proof.
  induction fuel as [|f IH]; intros rk1 rk2 pkgs st p H; simpl; [reflexivity|].
  destruct (memN (p_name p) (g_init st)); [reflexivity|].
  rewrite (H p) by (left; reflexivity).
  match goal with |- match ?a with _ => _ end = match ?b with _ => _ end => assert (E : a = b) end.
  { apply fold_left_ext_in. intros acc alias _.
    destruct acc as [s|e]; [|reflexivity].
    destruct (assoc_get alias pkgs) as [q|] eqn:G; [|reflexivity].
    apply IH. intros q' [->|Hq']; apply H; right; [|exact Hq'].
    unfold assoc_get in G. destruct (find (fun kv => N.eqb (fst kv) alias) pkgs) as [kv|] eqn:F; [|discriminate].
    inversion G; subst. apply find_some in F. apply in_map. apply F. }
  rewrite E. reflexivity.
Qed.

(* consequently: for every class assignment, the package initialisation (hence
   the sequence of init blocks the correspondence check compares) under any
   permutation oracle is the one under some enumerated table *)
Theorem pkg_init_enumerated : forall (cls : msite -> site_class) (o : oracle) (ps : list pkg),
    oracle_ok o -> NoDup (map p_path ps) ->
    exists t, In t (all_tables ps) /\
      forall fuel pkgs st p, In p ps -> (forall q, In q (map snd pkgs) -> In q ps) ->
        pkg_init fuel (range_keys cls o) pkgs st p = pkg_init fuel (range_keys cls (oracle_of_table t)) pkgs st p.
Proof.
  intros cls o ps Hok Hnd. destruct (enumerated_oracles_complete o ps Hok Hnd) as [t [It Ht]].
  exists t. split; [exact It|]. intros fuel pkgs st p Hp Hsub.
  apply pkg_init_ext_on. intros q Hq.
  assert (Iq : In q ps) by (destruct Hq as [->|Hq]; [exact Hp | apply Hsub; exact Hq]).
  unfold range_keys. rewrite (Ht q Iq). reflexivity.
Qed.
