(* Gc.v — executable model of the SSA-level liveness / wire recycling that
   streaming mode depends on:
     compiler/ssa/program.go         Program.GC            -> [gc_gen], [gc_now], [gc_fixed]
     compiler/ssa/wire_allocator.go  WireAllocator         -> [walloc], [assigned_ids], [gc_wires], ...
     compiler/ssa/streamer.go        the wire-id rewiring of the alias
                                     instructions          -> [alias_ids] (polymorphic in the
                                     element type: the same function rewires ids and bits)
   The instruction list is kept as far as streaming cares: per step the
   opcode class, the operand values (identity, const flag, type width, signed
   flag, constant integer), the result value(s), the gc operand and the index
   of the boolean circuit of the step.  No proofs here (see GcProof.v). *)
From Coq Require Import NArith ZArith List Bool Arith.
Import ListNotations.

(* ------------------------------------------------------------------ *)
(** * Instructions *)

(* opcode classes of streamer.go's switch; every operator that is handled by
   the [default:] branch (circuitGenerators) is [OGen] *)
Inductive opc :=
| OConcat | OLshift | ORshift | OSrshift | OSlice | OMov | OSmov | OAmov
| ORet | OCirc | OGC | OGen.

(* one operand occurrence (ssa.Value as streaming sees it).  [vid] numbers the
   equivalence classes of Value.Equal (Const, Name, Scope, Version, PtrInfo) —
   the key of WireAllocator's hash; for non-constant values it is in
   bijection with Value.ID, the bit index Program.GC uses (the harness checks
   the bijection on every program). *)
Record val := mkVal {
  vid : N;
  vconst : bool;        (* Value.Const *)
  vbits : nat;          (* Value.Type.Bits *)
  vsigned : bool;       (* Value.Type.Type == types.TInt *)
  vcint : Z             (* Value.ConstInt() (0 when not an integer constant) *)
}.

Record instr := mkInstr {
  iop : opc;
  iin : list val;        (* Instr.In *)
  iout : option val;     (* Instr.Out *)
  iret : list val;       (* Instr.Ret (Circ only) *)
  igc : option val;      (* Instr.GC *)
  icirc : nat            (* index into the circuit table (Circ, Gen) *)
}.

Definition gc_instr (v : val) : instr := mkInstr OGC [] None [] (Some v) 0.

(* ------------------------------------------------------------------ *)
(** * Program.GC (compiler/ssa/program.go) *)

Definition mem (x : N) (s : list N) : bool := existsb (N.eqb x) s.
Definition remove (x : N) (s : list N) : list N := filter (fun y => negb (N.eqb x y)) s.

(* the case list of the "Collect value aliases" loop.  [concat] says whether
   Concat is in the list (it is not in the code as it is now). *)
Definition gc_alias_op (concat : bool) (o : opc) : bool :=
  match o with
  | OLshift | ORshift | OSrshift | OSlice | OMov | OSmov | OAmov => true
  | OConcat => concat
  | _ => false
  end.

(* aliases[v]: the Out of every alias instruction that has v as a
   non-constant input, in program order (one entry per occurrence) *)
Definition aliases_of (concat : bool) (steps : list instr) (v : N) : list N :=
  flat_map (fun s =>
    if gc_alias_op concat (iop s) then
      match iout s with
      | Some o => flat_map (fun i => if negb (vconst i) && N.eqb (vid i) v then [vid o] else []) (iin s)
      | None => []
      end
    else []) steps.

(* "Check if input aliases are live": one level (the code as it is now) *)
Definition alias_live_1 (al : N -> list N) (set : list N) (v : N) : bool :=
  existsb (fun a => mem a set) (al v).

(* the same check following alias chains (the proposed fix); [fuel] bounds
   the chain length (the alias graph of an SSA program is acyclic and a chain
   is never longer than the program) *)
Fixpoint alias_live_deep (fuel : nat) (al : N -> list N) (set : list N) (v : N) : bool :=
  match fuel with
  | O => false
  | S f => existsb (fun a => mem a set || alias_live_deep f al set a) (al v)
  end.

Section GC.
  Variable live : list N -> N -> bool.   (* set -> dying value -> some alias is live *)

  (* the loop over step.Instr.In of one step: returns the gc instructions to
     append (in append order) and the new set *)
  Fixpoint gc_ins (ins : list val) (set : list N) : list instr * list N :=
    match ins with
    | [] => ([], set)
    | i :: rest =>
        if vconst i then gc_ins rest set
        else
          let g := if mem (vid i) set then []
                   else if live set (vid i) then [] else [gc_instr i] in
          let '(gs, set') := gc_ins rest (vid i :: set) in
          (g ++ gs, set')
    end.

  (* the backwards loop; produces [steps] in append order (reversed at the end) *)
  Fixpoint gc_back (rsteps : list instr) (set : list N) : list instr :=
    match rsteps with
    | [] => []
    | s :: rest =>
        let '(gs, set1) := gc_ins (iin s) set in
        let set2 := match iout s with Some o => remove (vid o) set1 | None => set1 end in
        gs ++ s :: gc_back rest set2
    end.
End GC.

(* Program.GC; None = the two panics (empty program, last step not ret) *)
Definition gc_gen (concat deep : bool) (steps : list instr) : option (list instr) :=
  match rev steps with
  | [] => None
  | last :: _ =>
      match iop last with
      | ORet =>
          let al := aliases_of concat steps in
          let live := if deep then alias_live_deep (length steps) al else alias_live_1 al in
          (* every In of the last instruction is marked, constants included *)
          let set0 := map vid (iin last) in
          Some (rev (gc_back live (rev steps) set0))
      | _ => None
      end
  end.

Definition gc_old := gc_gen false false.     (* program.go before d266b2f/f274b03 *)
Definition gc_fixed := gc_gen true true.     (* program.go now: Concat is an alias op, alias chains are followed *)
(* NOW: what /repo contains at present (commits d266b2f, f274b03) *)
Definition gc_now := gc_fixed.

(* ---- Program.GC with the visited set of aliasLive written out
   (program.go: `aliasLive(id, seen)`, called with a fresh map per queried
   input, and the shortcut `len(aliases[in.ID]) == 0`).  [shared] = true is the
   variant in which ONE visited set is cleared per step and shared by the
   queries of all inputs of the step (not the code: kept as a refuted
   variant, see StreamProof.v). *)
Fixpoint alias_live_seen (fuel : nat) (al : N -> list N) (set : list N) (id : N) (seen : list N)
  : bool * list N :=
  match fuel with
  | O => (false, seen)
  | S f =>
      if mem id seen then (false, seen)
      else
        (fix loop (l : list N) (seen : list N) : bool * list N :=
           match l with
           | [] => (false, seen)
           | a :: t =>
               if mem a set then (true, seen)
               else
                 let '(r, seen') := alias_live_seen f al set a seen in
                 if r then (true, seen') else loop t seen'
           end) (al id) (id :: seen)
  end.

Fixpoint gc_ins_seen (shared : bool) (fuel : nat) (al : N -> list N) (ins : list val) (set seen : list N)
  : list instr * list N :=
  match ins with
  | [] => ([], set)
  | i :: rest =>
      if vconst i then gc_ins_seen shared fuel al rest set seen
      else
        let '(g, seen1) :=
          if mem (vid i) set then ([], seen)
          else
            match al (vid i) with
            | [] => ([gc_instr i], seen)
            | _ =>
                let '(lv, seen') := alias_live_seen fuel al set (vid i) (if shared then seen else []) in
                (if lv then [] else [gc_instr i], if shared then seen' else seen)
            end in
        let '(gs, set') := gc_ins_seen shared fuel al rest (vid i :: set) seen1 in
        (g ++ gs, set')
  end.

Fixpoint gc_back_seen (shared : bool) (fuel : nat) (al : N -> list N) (rsteps : list instr) (set : list N)
  : list instr :=
  match rsteps with
  | [] => []
  | s :: rest =>
      (* clear(seen) at the top of the step (shared variant); fresh per query otherwise *)
      let '(gs, set1) := gc_ins_seen shared fuel al (iin s) set [] in
      let set2 := match iout s with Some o => remove (vid o) set1 | None => set1 end in
      gs ++ s :: gc_back_seen shared fuel al rest set2
  end.

Definition gc_gen_seen (shared : bool) (steps : list instr) : option (list instr) :=
  match rev steps with
  | [] => None
  | last :: _ =>
      match iop last with
      | ORet =>
          let al := aliases_of true steps in
          Some (rev (gc_back_seen shared (S (S (length steps))) al (rev steps) (map vid (iin last))))
      | _ => None
      end
  end.

Definition gc_visited := gc_gen_seen false.       (* program.go as it is, visited set and all *)
Definition gc_shared_seen := gc_gen_seen true.    (* one visited set per step: refuted *)

(* ------------------------------------------------------------------ *)
(** * WireAllocator (compiler/ssa/wire_allocator.go), ids only

   An entry is allocByValue: [ebase] (None = circuits.UnassignedID), the ids
   of the *circuits.Wire array ([ewires], None = nil) and the id array
   ([eids], None = nil).  A block on a free list is always normalised to
   base+i by GCWires before it is pushed, so a free list is a stack of block
   bases.  freeWires is write-only in streaming mode (Wires/AssignedWires are
   not called after the first GCWires) and is not modelled; freeHdrs only
   recycles memory. *)
Record entry := mkEntry { ebase : option N; ewires : option (list N); eids : option (list N) }.

Record walloc := mkWalloc {
  whash : list (N * entry);          (* value key -> allocation *)
  wfree : list (nat * list N);       (* freeIDs: bits -> stack of block bases (head = top) *)
  wnext : N                          (* nextWireID *)
}.

Definition walloc0 : walloc := mkWalloc [] [] 0.

Fixpoint lookup {A} (k : N) (l : list (N * A)) : option A :=
  match l with
  | [] => None
  | (k', a) :: t => if N.eqb k k' then Some a else lookup k t
  end.

Fixpoint remove_key {A} (k : N) (l : list (N * A)) : list (N * A) :=
  match l with
  | [] => []
  | (k', a) :: t => if N.eqb k k' then t else (k', a) :: remove_key k t
  end.

Fixpoint set_key {A} (k : N) (a : A) (l : list (N * A)) : list (N * A) :=
  match l with
  | [] => [(k, a)]
  | (k', a') :: t => if N.eqb k k' then (k, a) :: t else (k', a') :: set_key k a t
  end.

Fixpoint lookup_nat {A} (k : nat) (l : list (nat * A)) : option A :=
  match l with
  | [] => None
  | (k', a) :: t => if Nat.eqb k k' then Some a else lookup_nat k t
  end.

Fixpoint set_nat {A} (k : nat) (a : A) (l : list (nat * A)) : list (nat * A) :=
  match l with
  | [] => [(k, a)]
  | (k', a') :: t => if Nat.eqb k k' then (k, a) :: t else (k', a') :: set_nat k a t
  end.

(* ids base, base+1, ..., base+bits-1 *)
Definition block (base : N) (bits : nat) : list N :=
  map (fun i => (base + N.of_nat i)%N) (seq 0 bits).

(* newIDs: pop the free list of [bits]; None = a fresh array of UnassignedID *)
Definition new_ids (w : walloc) (bits : nat) : option N * walloc :=
  match lookup_nat bits (wfree w) with
  | Some (b :: rest) => (Some b, mkWalloc (whash w) (set_nat bits rest (wfree w)) (wnext w))
  | _ => (None, w)
  end.

(* NextWireID *)
Definition next_wire_id (w : walloc) : N * walloc :=
  (wnext w, mkWalloc (whash w) (wfree w) (wnext w + 1)).

(* AssignedIDs *)
Definition assigned_ids (w : walloc) (v : N) (bits : nat) : list N * walloc :=
  match lookup v (whash w) with
  | None =>
      (* alloc(bits, v, false, true) *)
      if Nat.eqb bits 0 then
        (* header only; base = nextWireID; ids = newIDs(0) = [] *)
        ([], mkWalloc ((v, mkEntry (Some (wnext w)) None (Some [])) :: whash w) (wfree w) (wnext w))
      else
        match new_ids w bits with
        | (Some b, w1) =>
            (* recycled block: base = ids[0] *)
            let ids := block b bits in
            (ids, mkWalloc ((v, mkEntry (Some b) None (Some ids)) :: whash w1) (wfree w1) (wnext w1))
        | (None, w1) =>
            let ids := block (wnext w1) bits in
            (ids, mkWalloc ((v, mkEntry (Some (wnext w1)) None (Some ids)) :: whash w1) (wfree w1)
                           (wnext w1 + N.of_nat bits))
        end
  | Some e =>
      match eids e with
      | Some ids => (ids, w)
      | None =>
          (* alloc.ids = newIDs(bits) — pops a free block only to overwrite it
             with the wires' ids *)
          let '(_, w1) := new_ids w bits in
          let ids := match ewires e with Some ws => firstn bits ws ++ repeat 0%N (bits - length ws) | None => [] end in
          (ids, mkWalloc (set_key v (mkEntry (ebase e) (ewires e) (Some ids)) (whash w1)) (wfree w1) (wnext w1))
      end
  end.

(* overwrite the id array of an allocated value in place (the alias
   instructions write out[bit] = id into the slice AssignedIDs returned) *)
Definition set_ids (w : walloc) (v : N) (ids : list N) : walloc :=
  match lookup v (whash w) with
  | Some e => mkWalloc (set_key v (mkEntry (ebase e) (ewires e) (Some ids)) (whash w)) (wfree w) (wnext w)
  | None => w
  end.

(* Wires (NewProgram: unassigned wires for a program argument) followed by the
   SetID loop of Program.Stream: the argument's wires get the next ids *)
Definition input_wires (w : walloc) (v : N) (bits : nat) : walloc :=
  match lookup v (whash w) with
  | Some _ => w
  | None =>
      mkWalloc ((v, mkEntry None (Some (block (wnext w) bits)) None) :: whash w) (wfree w)
               (wnext w + N.of_nat bits)
  end.

(* AssignedWires for a fresh value (ZeroWire / OneWire) *)
Definition assigned_wires (w : walloc) (v : N) (bits : nat) : list N * walloc :=
  match lookup v (whash w) with
  | Some e => (match ewires e with Some ws => ws | None => [] end, w)
  | None =>
      let ids := block (wnext w) bits in
      (ids, mkWalloc ((v, mkEntry (Some (wnext w)) (Some ids) (Some ids)) :: whash w) (wfree w)
                     (wnext w + N.of_nat bits))
  end.

(* Allocated / SetWires (DefineConstants) *)
Definition allocated (w : walloc) (v : N) : bool :=
  match lookup v (whash w) with Some _ => true | None => false end.
Definition set_wires (w : walloc) (v : N) (ids : list N) : walloc :=
  mkWalloc ((v, mkEntry (match ids with [] => None | b :: _ => Some b end) (Some ids) (Some ids)) :: whash w)
           (wfree w) (wnext w).

Definition push_free (bits : nat) (b : N) (fl : list (nat * list N)) : list (nat * list N) :=
  set_nat bits (b :: match lookup_nat bits fl with Some l => l | None => [] end) fl.

(* GCWires; None = panic "GC: %s not known" *)
Definition gc_wires (w : walloc) (v : N) : option walloc :=
  match lookup v (whash w) with
  | None => None
  | Some e =>
      let base1 :=
        match ewires e with
        | Some (w0 :: _) => match ebase e with None => Some w0 | b => b end
        | _ => ebase e
        end in
      let fl :=
        match eids e with
        | Some (i0 :: rest) =>
            let b := match base1 with None => i0 | Some b => b end in
            push_free (S (length rest)) b (wfree w)
        | _ => wfree w
        end in
      Some (mkWalloc (remove_key v (whash w)) fl (wnext w))
  end.

(* ------------------------------------------------------------------ *)
(** * The rewiring of the alias instructions (compiler/ssa/streamer.go, and
      the same loops in circuitgen.go), polymorphic in what is rewired *)

Section Rewire.
  Variable A : Type.
  Variable z : A.                      (* the zero wire *)

  Definition lastd (l : list A) : A := last l z.

  (* the operand loop at the top of the step: "Const values are cast to
     different value sizes.  Make sure wire length matches type size." *)
  Definition pad_operand (signed : bool) (bits : nat) (w : list A) : list A :=
    if Nat.eqb (length w) bits then w
    else
      let pad := if signed && negb (Nat.eqb (length w) 0) then lastd w else z in
      map (fun bit => if bit <? length w then nth bit w z else pad) (seq 0 bits).

  Definition nz (c : Z) : nat := Z.to_nat c.

  (* the new content of out[0..]; None = a Go error return or an index panic.
     [ins] are the padded operands, [cs] their ConstInt, [old] the current
     content of the out array, [obits] = Out.Type.Bits *)
  Definition alias_ids (o : opc) (ins : list (list A)) (cs : list Z) (old : list A) (obits : nat)
    : option (list A) :=
    let w0 := nth 0 ins [] in
    let w1 := nth 1 ins [] in
    match o with
    | OConcat =>
        if length old <=? length w0 + length w1 then
          Some (map (fun bit => if bit <? length w0 then nth bit w0 z else nth (bit - length w0) w1 z)
                    (seq 0 (length old)))
        else None
    | OLshift =>
        let c := nth 1 cs 0%Z in
        if (c <? 0)%Z then None else
        Some (map (fun bit => if (nz c <=? bit) && (bit - nz c <? length w0) then nth (bit - nz c) w0 z else z)
                  (seq 0 (length old)))
    | ORshift | OSrshift =>
        let c := nth 1 cs 0%Z in
        if (c <? 0)%Z then None else
        match o, w0 with
        | OSrshift, [] => None
        | _, _ =>
            let sign := match o with OSrshift => lastd w0 | _ => z end in
            Some (map (fun bit => if bit + nz c <? length w0 then nth (bit + nz c) w0 z else sign)
                      (seq 0 (length old)))
        end
    | OSlice =>
        let from := nth 1 cs 0%Z in
        let to := nth 2 cs 0%Z in
        if (from <? 0)%Z || (to <=? from)%Z then None else
        let n := (nz to - nz from)%nat in
        if length old <? n then None else
        Some (map (fun k => if nz from + k <? length w0 then nth (nz from + k) w0 z else z) (seq 0 n)
              ++ skipn n old)
    | OMov | OSmov =>
        match o, w0 with
        | OSmov, [] => None
        | _, _ =>
            if length old <? obits then None else
            let sign := match o with OSmov => lastd w0 | _ => z end in
            Some (map (fun bit => if bit <? length w0 then nth bit w0 z else sign) (seq 0 obits)
                  ++ skipn obits old)
        end
    | OAmov =>
        let w2 := nth 0 ins [] in      (* v *)
        let arr := nth 1 ins [] in     (* arr *)
        let from := nth 2 cs 0%Z in
        let to := nth 3 cs 0%Z in
        if (from <? 0)%Z || (to <=? from)%Z then None else
        if length old <? obits then None else
        Some (map (fun bit =>
                     if (bit <? nz from) || (nz to <=? bit)
                     then (if bit <? length arr then nth bit arr z else z)
                     else (if bit - nz from <? length w2 then nth (bit - nz from) w2 z else z))
                  (seq 0 obits)
              ++ skipn obits old)
    | _ => None
    end.
End Rewire.

Definition is_alias_op (o : opc) : bool :=
  match o with
  | OConcat | OLshift | ORshift | OSrshift | OSlice | OMov | OSmov | OAmov => true
  | _ => false
  end.

(* ------------------------------------------------------------------ *)
(** * Well-formed step lists (what ast/ssagen.go produces): single static
      assignment, definition before use, arguments never redefined, the last
      step (and only it) is ret.  [args] are the ids of the program arguments. *)

Definition outs_of (s : instr) : list N :=
  match iout s with Some o => [vid o] | None => [] end ++ map vid (iret s).

Definition nc_ins (s : instr) : list N :=
  map vid (filter (fun i => negb (vconst i)) (iin s)).

Fixpoint wf_steps (defd : list N) (steps : list instr) : bool :=
  match steps with
  | [] => false
  | [s] =>
      match iop s with
      | ORet => forallb (fun i => mem i defd) (nc_ins s)
                && match iout s with None => true | Some _ => false end
                && match iret s with [] => true | _ => false end
      | _ => false
      end
  | s :: rest =>
      match iop s with
      | ORet | OGC => false
      | _ =>
          forallb (fun i => mem i defd) (nc_ins s)
          && forallb (fun o => negb (mem o defd)) (outs_of s)
          && (match iop s, iout s with
              | OCirc, None => true
              | OCirc, Some _ => false
              | _, Some o => negb (vconst o) && match iret s with [] => true | _ => false end
              | _, None => false
              end)
          && (fix nodup (l : list N) : bool :=
                match l with [] => true | x :: t => negb (mem x t) && nodup t end) (outs_of s)
          && forallb (fun r => negb (vconst r)) (iret s)
          && wf_steps (outs_of s ++ defd) rest
      end
  end.

Definition wf_ssa (args : list N) (steps : list instr) : bool := wf_steps args steps.
