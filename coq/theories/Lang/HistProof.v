(* HistProof.v — C08, histories: a compilation step that leaves the params object
   unchanged and whose output does not depend on the Compiler state gives, after
   ANY history, the output of a fresh compilation; the multiplier-threshold
   selection of the current source is such a step; a getter that stores its
   default into the params object is not (regression record, seeded C08-4). *)
From Coq Require Import List Arith Bool Lia.
From Mpc Require Import Gen.Thresholds Gen.MapSites Lang.Determ Lang.DetermProof Lang.Hist.
Import ListNotations.

Section Generic.
  Variables (P S X O : Type).
  Variable step : P -> S -> X -> P * S * O.

  Lemma run_params_readonly : params_readonly P S X O step ->
    forall hist p s, fst (run P S X O step hist p s) = p.
  Proof.
    intros Hro. induction hist as [|x t IH]; intros p s; simpl; [reflexivity|].
    rewrite IH. apply Hro.
  Qed.

  (* the general statement: all histories, shared params object, same or new Compiler *)
  Theorem history_independent :
    params_readonly P S X O step -> state_irrelevant P S X O step ->
    forall (same_compiler : bool) (s0 : S) (hist : list X) (p : P) (x : X),
      after P S X O step same_compiler s0 hist p x = fresh P S X O step s0 p x.
  Proof.
    intros Hro Hst same s0 hist p x. unfold after, fresh.
    rewrite (run_params_readonly Hro). apply Hst.
  Qed.
End Generic.

(* the model of Lang/Determ.v as a step: the configuration (class assignment,
   oracle) is a function argument that compile_in does not return *)
Definition step_compile (cfg : (msite -> site_class) * oracle) (cs : cstate) (x : prog)
  : ((msite -> site_class) * oracle) * cstate * listing :=
  let r := compile_in (fst cfg) (snd cfg) cs (snd x) (fst x) in (cfg, fst r, snd r).

Lemma step_compile_params_readonly : params_readonly _ _ _ _ step_compile.
Proof. intros p s x. reflexivity. Qed.

Lemma step_compile_state_irrelevant : state_irrelevant _ _ _ _ step_compile.
Proof. intros p s s' x. reflexivity. Qed.

Theorem compile_history_independent : forall same_compiler hist cfg x,
    after _ _ _ _ step_compile same_compiler cs0 hist cfg x = compile (fst cfg) (snd cfg) x.
Proof.
  intros. rewrite (history_independent _ _ _ _ step_compile step_compile_params_readonly step_compile_state_irrelevant).
  reflexivity.
Qed.

(* the multiplier threshold selection of the current source *)
Lemma step_mult_params_readonly : params_readonly _ _ _ _ step_mult.
Proof. intros p s x. reflexivity. Qed.

Lemma step_mult_state_irrelevant : state_irrelevant _ _ _ _ step_mult.
Proof. intros p s s' x. reflexivity. Qed.

Theorem mult_history_independent : forall same_compiler hist p x,
    after _ _ _ _ step_mult same_compiler tt hist p x = fresh _ _ _ _ step_mult tt p x.
Proof. intros. apply history_independent; [exact step_mult_params_readonly | exact step_mult_state_irrelevant]. Qed.

(* non-vacuity on the regenerated table: uint16 is tuned, uint8 is not *)
Example thresholds_16_8 :
  fresh _ _ _ _ step_mult tt (mkParams 0) [16; 8] = [9; 21].
Proof. vm_compute. reflexivity. Qed.

(* REFUTED for a storing getter: after compiling a multiplication of an untuned
   width (8) with the same params object, a multiplication of a tuned width (16)
   is built with threshold 21 instead of its table value *)
Theorem storing_getter_history_refuted :
  exists (hist : list (list nat)) (p : params) (x : list nat),
    after _ _ _ _ step_mult_storing false tt hist p x <> fresh _ _ _ _ step_mult_storing tt p x.
Proof.
  exists [[8]], (mkParams 0), [16]. vm_compute. intros Heq; discriminate Heq.
Qed.

Lemma storing_getter_not_readonly : ~ params_readonly _ _ _ _ step_mult_storing.
Proof.
  intros H. specialize (H (mkParams 0) tt [8]). vm_compute in H. discriminate H.
Qed.
