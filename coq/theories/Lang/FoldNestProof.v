(* FoldNestProof.v — NESTED folds across a cast (C12), third proof file of the
   model Lang/Fold.v.

   FoldProof / FoldClassProof speak about operators whose operands are typed
   LITERALS T(a), -T(a).  An operand that was itself folded at another width and
   then cast arrives in another shape: the cast keeps the mpa.Int (Fold.cast
   changes only the type), so a 64-bit fold result with bit 63 set is a small
   Int with a NEGATIVE value (i64 < 0, values == nil), a big-path result keeps
   its container, ...  This file states what holds for EVERY such operand:

   [held m]          the invariant of an mpa.Int after Generator.Constant re-sized
                     it (Fold.constant), negative small values included;
   [constant_held]   Constant establishes it for every small Int and every
                     non-negative big Int (all literals, all small-path results,
                     all results of the big-path adder / subtractor / multiplier);
   [held_wires]      the wires the program sees of a held constant of a type at
                     least as wide as its container are its container's bits
                     (inval: what mpa.Int.bin feeds to the circuit);
   [nested_wide_arith]  for * + - at a declared width n > 64 and ANY two held
                     operands (any earlier folds, any casts, containers <= n) the
                     folder's result is the circuit's result on exactly the wires
                     the program sees of the operands;
   [nested_wide_bitops]  the same for & | ^ &^ (the big path reads ubig(): repair of
                     finding F6m); [nested_wide_shift_repaired]: the former F6m
                     witnesses uint128(-uint64(5)) << 64 and >> 63 now agree. *)
From Coq Require Import ZArith Znumtheory List Bool Lia.
From Mpc Require Import Lang.Fold Lang.FoldProof Lang.FoldClassProof.
Import ListNotations.
Open Scope Z_scope.

Definition held (m : mint) : Prop :=
  (mbits m <= 64 -> BitLen m <= mbits m) /\
  (64 < mbits m -> 0 <= mval m < 2 ^ mbits m).

(* the mpa.Int of a constant *)
Definition mint_of (c : cval) : mint := match c with CI _ m => m | CB _ => mkM 1 0 end.

Lemma contb_ge L : L <= contb L.
Proof.
  unfold contb. destruct (64 <? L) eqn:E1; [lia|apply Z.ltb_ge in E1].
  destruct (32 <? L) eqn:E2; [lia|apply Z.ltb_ge in E2; lia].
Qed.

Lemma contb_small L : L <= 64 -> contb L <= 64.
Proof.
  intros H. unfold contb. destruct (64 <? L) eqn:E1; [apply Z.ltb_lt in E1; lia|].
  destruct (32 <? L); lia.
Qed.

(* Generator.Constant leaves a held mpa.Int behind, for every small Int (any
   int64 value, negative ones included) and every non-negative big Int. *)
Lemma constant_held v t : (isSmall v = true \/ 0 <= mval v) -> held (mint_of (constant v t)).
Proof.
  intros Hv. unfold constant. simpl mint_of. fold (contb (BitLen v)).
  set (L := BitLen v).
  destruct (isSmall v) eqn:Es.
  - (* small: the same value, re-sized to the container of its bit length *)
    pose proof (BitLen_small_le64 v Es) as HL. fold L in HL.
    pose proof (contb_small L ltac:(lia)) as Hc. pose proof (contb_ge L) as Hg.
    split; simpl mbits; simpl mval; [|lia]. intros _.
    assert (Es' : isSmall (mkM (contb L) (mval v)) = true) by (apply Z.leb_le; simpl; lia).
    assert (HLeq : BitLen (mkM (contb L) (mval v)) = L).
    { rewrite (BitLen_small _ Es'). unfold L. rewrite (BitLen_small _ Es). reflexivity. }
    rewrite HLeq. exact Hg.
  - destruct Hv as [Hv|Hv]; [discriminate|].
    assert (HLb : L = bitlen_abs (mval v)) by (unfold L, BitLen; rewrite Es; reflexivity).
    destruct (Z.eq_dec (mval v) 0) as [H0|Hn0].
    + (* zero *)
      assert (HL0 : L = 0) by (rewrite HLb, H0; reflexivity).
      rewrite HL0. change (contb 0) with 32.
      split; simpl mbits; simpl mval; [|lia]. intros _.
      rewrite H0. vm_compute. discriminate.
    + destruct (bitlen_abs_spec (mval v) ltac:(lia)) as [B1 [B2 B3]]. rewrite <- HLb in *.
      pose proof (contb_ge L) as Hg.
      destruct (Z_lt_le_dec 64 L) as [Hbig|Hsm].
      * (* stays big *)
        assert (Hcb : contb L = L) by (unfold contb; assert (E : (64 <? L) = true) by (apply Z.ltb_lt; lia); rewrite E; reflexivity).
        rewrite Hcb. split; simpl mbits; simpl mval; [lia|]. intros _. lia.
      * (* a non-negative value below 2^64 in a 32/64-bit container *)
        pose proof (contb_small L Hsm) as Hc.
        split; simpl mbits; simpl mval; [|lia]. intros _.
        assert (Es' : isSmall (mkM (contb L) (mval v)) = true) by (apply Z.leb_le; simpl; lia).
        rewrite (BitLen_small _ Es'). unfold small. simpl mval. rewrite u64_wrap.
        pose proof (pow2_le L 64 ltac:(lia)).
        unfold u64. rewrite Z.mod_small by lia.
        rewrite (bl_unique (mval v) L) by lia. exact Hg.
Qed.

(* What the program sees of a held constant whose type is at least as wide as
   its container: the container's bits, i.e. the value mpa.Int.bin feeds into the
   circuits of the big path. *)
Lemma held_wires k n mn m : held m -> 0 < mbits m <= n ->
  const_wires (CI (mkT k n mn) m) = inval m.
Proof.
  intros [Hs Hb] Hn. unfold const_wires, inval. simpl tbits.
  destruct (isSmall m) eqn:Es.
  - assert (H64 : mbits m <= 64) by (apply Z.leb_le; exact Es).
    specialize (Hs H64). rewrite (BitLen_small _ Es) in *.
    set (U := u64 (small m)) in *.
    assert (HU : 0 <= U < 2 ^ 64) by apply u64_range.
    destruct (bl_bounds U 64 HU ltac:(lia)) as [B1 B2].
    rewrite Z.min_r by lia.
    assert (HUm : U = u64 (mval m)) by (unfold U, small; apply u64_wrap).
    unfold small, big. rewrite wrap_mod by lia.
    assert (E1 : (mval m) mod 2 ^ bl U = U).
    { rewrite <- (mod_mod_pow2 (mval m) (bl U) 64) by lia. fold (u64 (mval m)). rewrite <- HUm.
      apply Z.mod_small; lia. }
    assert (E2 : (mval m) mod 2 ^ mbits m = U).
    { rewrite <- (mod_mod_pow2 (mval m) (mbits m) 64) by lia. fold (u64 (mval m)). rewrite <- HUm.
      apply Z.mod_small. pose proof (pow2_le (bl U) (mbits m) ltac:(lia)). lia. }
    rewrite E1, E2. reflexivity.
  - assert (H64 : 64 < mbits m) by (apply Z.leb_gt; exact Es).
    specialize (Hb H64). unfold big.
    assert (HL : BitLen m = bitlen_abs (mval m)) by (unfold BitLen; rewrite Es; reflexivity).
    rewrite HL. rewrite (Z.mod_small (mval m) (2 ^ mbits m)) by lia.
    destruct (Z.eq_dec (mval m) 0) as [H0|Hn0].
    + rewrite H0. apply Z.mod_0_l. apply Z.pow_nonzero; [lia|]. apply Z.min_glb; [lia|]. vm_compute. discriminate.
    + destruct (bitlen_abs_spec (mval m) ltac:(lia)) as [B1 [B2 B3]].
      assert (bitlen_abs (mval m) <= mbits m).
      { destruct (Z_lt_le_dec (mbits m) (bitlen_abs (mval m))) as [Hc|Hc]; [|lia].
        pose proof (pow2_le (mbits m) (bitlen_abs (mval m) - 1) ltac:(lia)). lia. }
      rewrite Z.min_r by lia. apply Z.mod_small; lia.
Qed.

Lemma inval_range m : 0 < mbits m -> 0 <= inval m < 2 ^ mbits m.
Proof. intros H. unfold inval. apply Z.mod_pos_bound, pow2_pos; lia. Qed.

Definition wide_arith (op : binop) : bool :=
  match op with OMul | OAdd | OSub => true | _ => false end.

(* * + - at a declared width n > 64 on ANY two held operands of that type (results
   of earlier folds at any width brought here by casts, literals, negative small
   values included): the folder answers and the folded constant is the circuit's
   result on exactly the wires the program sees of the two operands.  (+ and -
   panic when both containers are more than one bit shorter than n: finding F6f.) *)
Theorem nested_wide_arith op k n ml mr x y :
  wide_arith op = true -> 64 < n -> held x -> held y ->
  0 < mbits x <= n -> 0 < mbits y <= n ->
  (match op with OAdd | OSub => n - 1 <= Z.max (mbits x) (mbits y) | _ => True end) ->
  exists c, evalConst op (CI (mkT k n ml) x) (CI (mkT k n mr) y) = Ok c /\
    good c k n (snd (circuit_sem op k n (const_wires (CI (mkT k n ml) x)) (const_wires (CI (mkT k n mr) y)))).
Proof.
  intros Hop Hn Hx Hy Hbx Hby Hpan.
  rewrite (held_wires k n ml x Hx Hbx), (held_wires k n mr y Hy Hby).
  pose proof (inval_range x ltac:(lia)) as HA. pose proof (inval_range y ltac:(lia)) as HB.
  pose proof (pow2_le (mbits x) n ltac:(lia)) as Hpx. pose proof (pow2_le (mbits y) n ltac:(lia)) as Hpy.
  set (A := inval x) in *. set (B := inval y) in *.
  unfold evalConst, resultTypeCC.
  assert (Hs : isSmall (mkM n 0) = false) by (apply Z.leb_gt; simpl; lia).
  assert (Hmx : Z.max n n = n) by lia.
  assert (Hmin : Z.min n (n + 1) = n) by lia.
  assert (Hp : 0 < 2 ^ n) by (apply pow2_pos; lia).
  assert (Hw : Z.max (Z.max (mbits x) (mbits y)) n = n) by lia.
  destruct op; try discriminate Hop; simpl; rewrite kind_eqb_refl; simpl; rewrite (mNew_ok n) by lia; simpl;
    unfold mAdd, mSub, mMul, bigAddSub, bigMul; rewrite Hs; simpl mbits; rewrite ?Hw;
    try (assert (E : (Z.max (mbits x) (mbits y) + 1 <? n) = false) by (apply Z.ltb_ge; lia); rewrite E);
    fold A; fold B; simpl; (eexists; split; [reflexivity|]);
    unfold circuit_sem, instr_sem; simpl snd; rewrite ?Hmx, ?Hmin;
    (apply good_result_big; [lia|apply Z.mod_pos_bound; lia|lia]).
Qed.

(* The operand of the seeded-defect class: T2(uint64(0) - uint64(a)), 0 < a <= 2^63,
   is a held constant with a NEGATIVE value in a 64-bit container; its wires are
   2^64 - a. *)
Example nested_operand_negative_small :
  exists t m, (do l <- operand KUint 64 0; do r <- operand KUint 64 5; do c <- evalConst OSub l r; cast KUint 128 c)
              = Ok (CI t m) /\ mval m = -5 /\ mbits m = 64 /\ tbits t = 128 /\ const_wires (CI t m) = 2 ^ 64 - 5.
Proof. exists (mkT KUint 128 64), (mkM 64 (-5)). repeat split; vm_compute; reflexivity. Qed.

Example nested_mul_witness :
  run_program KUint 128
    (EBin OMul (ECast KUint 128 (EBin OSub (ECast KUint 64 (ELit 0)) (ECast KUint 64 (ELit 5)))) (ECast KUint 128 (ELit 3)))
  = Ok (3 * 2 ^ 64 - 15).
Proof. vm_compute. reflexivity. Qed.

(* F6m REPAIRED (mpint.go ubig()): the big path of & | ^ &^ << >> reads its operands
   as the non-negative number their bits spell. *)
Definition inrange (m : mint) : Prop := mbits m <= 64 -> - 2 ^ 63 <= mval m < 2 ^ 64.

Lemma ubig_inval m : held m -> inrange m -> 0 < mbits m -> ubig m = inval m.
Proof.
  intros [Hs Hb] Hr Hp. unfold ubig, inval, big.
  destruct (isSmall m) eqn:Es.
  - assert (H64 : mbits m <= 64) by (apply Z.leb_le; exact Es).
    specialize (Hs H64). specialize (Hr H64). rewrite (BitLen_small _ Es) in Hs.
    set (U := u64 (small m)) in *.
    assert (HU : 0 <= U < 2 ^ 64) by apply u64_range.
    destruct (bl_bounds U 64 HU ltac:(lia)) as [B1 B2].
    assert (HUm : U = (mval m) mod 2 ^ 64) by (unfold U, small; rewrite u64_wrap; reflexivity).
    assert (E2 : (mval m) mod 2 ^ mbits m = U).
    { rewrite <- (mod_mod_pow2 (mval m) (mbits m) 64) by lia. rewrite <- HUm.
      apply Z.mod_small. pose proof (pow2_le (bl U) (mbits m) ltac:(lia)). lia. }
    rewrite E2. simpl andb.
    destruct (mval m <? 0) eqn:En; [symmetry; exact HUm|].
    apply Z.ltb_ge in En. rewrite HUm. symmetry. apply Z.mod_small. lia.
  - assert (H64 : 64 < mbits m) by (apply Z.leb_gt; exact Es).
    specialize (Hb H64). simpl andb. symmetry. apply Z.mod_small. lia.
Qed.

Definition wide_bitop (op : binop) : bool :=
  match op with OBand | OBor | OBxor | OBclr => true | _ => false end.

(* & | ^ &^ at a declared width n > 64 on ANY two held operands (folded 64-bit
   constants with bit 63 set included): the folded constant is the circuit's result
   on exactly the wires the program sees of the operands. *)
Theorem nested_wide_bitops op k n ml mr x y :
  wide_bitop op = true -> 64 < n -> held x -> held y -> inrange x -> inrange y ->
  0 < mbits x <= n -> 0 < mbits y <= n ->
  exists c, evalConst op (CI (mkT k n ml) x) (CI (mkT k n mr) y) = Ok c /\
    good c k n (snd (circuit_sem op k n (const_wires (CI (mkT k n ml) x)) (const_wires (CI (mkT k n mr) y)))).
Proof.
  intros Hop Hn Hx Hy Rx Ry Hbx Hby.
  rewrite (held_wires k n ml x Hx Hbx), (held_wires k n mr y Hy Hby).
  pose proof (ubig_inval x Hx Rx ltac:(lia)) as Ux. pose proof (ubig_inval y Hy Ry ltac:(lia)) as Uy.
  pose proof (inval_range x ltac:(lia)) as HA0. pose proof (inval_range y ltac:(lia)) as HB0.
  pose proof (pow2_le (mbits x) n ltac:(lia)) as Hpx. pose proof (pow2_le (mbits y) n ltac:(lia)) as Hpy.
  set (A := inval x) in *. set (B := inval y) in *.
  assert (HA : 0 <= A < 2 ^ n) by lia. assert (HB : 0 <= B < 2 ^ n) by lia.
  unfold evalConst, resultTypeCC.
  assert (Hs : isSmall (mkM n 0) = false) by (apply Z.leb_gt; simpl; lia).
  assert (Hmx : Z.max n n = n) by lia.
  assert (Hp : 0 < 2 ^ n) by (apply pow2_pos; lia).
  destruct op; try discriminate Hop; simpl; rewrite kind_eqb_refl; simpl; rewrite (mNew_ok n) by lia; simpl;
    unfold mAnd, mOr, mXor, mAndNot; rewrite Hs; simpl mbits; rewrite Ux, Uy;
    simpl; (eexists; split; [reflexivity|]);
    unfold circuit_sem, instr_sem; simpl snd; rewrite ?Hmx.
  - pose proof (bitop_range Z.land andb A B n ltac:(lia) eq_refl ltac:(intros; apply Z.land_spec) HA HB).
    rewrite Z.mod_small by lia. apply good_result_big; lia.
  - pose proof (bitop_range Z.lor orb A B n ltac:(lia) eq_refl ltac:(intros; apply Z.lor_spec) HA HB).
    rewrite Z.mod_small by lia. apply good_result_big; lia.
  - pose proof (bitop_range Z.lxor xorb A B n ltac:(lia) eq_refl ltac:(intros; apply Z.lxor_spec) HA HB).
    rewrite Z.mod_small by lia. apply good_result_big; lia.
  - pose proof (bitop_range Z.ldiff (fun p q => p && negb q) A B n ltac:(lia) eq_refl ltac:(intros; apply Z.ldiff_spec) HA HB).
    rewrite Z.mod_small by lia. apply good_result_big; lia.
Qed.

(* the former F6m witnesses: constant variant = run-time variant *)
Definition f6m_const : expr :=
  EBin OLsh (ECast KUint 128 (ENeg (ECast KUint 64 (ELit 5)))) (ELit 64).
Definition f6m_runtime : expr :=
  EBin OLsh (ECast KUint 128 (ENeg (EIn KUint 64 5))) (ELit 64).

Theorem nested_wide_shift_repaired :
  run_program KUint 128 f6m_const = Ok ((2 ^ 64 - 5) * 2 ^ 64) /\
  run_program KUint 128 f6m_runtime = Ok ((2 ^ 64 - 5) * 2 ^ 64) /\
  run_program KUint 128 (EBin ORsh (ECast KUint 128 (ENeg (ECast KUint 64 (ELit 1)))) (ELit 63)) = Ok 1.
Proof. repeat split; vm_compute; reflexivity. Qed.
