(* LowerProof.v — the lowering scheme of Lang/Lower.v implements the reference
   semantics of Lang/Mini.v:  eval_ssa (lower p) inp = exec_mini p inp. *)
From Coq Require Import ZArith NArith List Bool Lia.
From Mpc Require Import Lang.Mini Lang.Ssa Lang.Lower.
Import ListNotations.
Local Open Scope nat_scope.

(* ------------------------------------------------------------ arithmetic *)
Lemma pow2_nz w : pow2 w <> 0%N.
Proof. unfold pow2. apply N.pow_nonzero. discriminate. Qed.

Lemma norm_lt w n : (norm w n < pow2 w)%N.
Proof. unfold norm. apply N.mod_lt. apply pow2_nz. Qed.

Lemma norm_small w n : (n < pow2 w)%N -> norm w n = n.
Proof. intro H. unfold norm. apply N.mod_small. exact H. Qed.

Lemma norm_norm w n : norm w (norm w n) = norm w n.
Proof. apply norm_small. apply norm_lt. Qed.

Lemma norm_0 w : norm w 0 = 0%N.
Proof. unfold norm. apply N.mod_0_l. apply pow2_nz. Qed.

Lemma of_Z_lt w z : (of_Z w z < pow2 w)%N.
Proof.
  unfold of_Z.
  assert (Hp : (0 < Z.of_N (pow2 w))%Z).
  { pose proof (pow2_nz w). lia. }
  pose proof (Z.mod_pos_bound z (Z.of_N (pow2 w)) Hp) as [H1 H2].
  apply N2Z.inj_lt. rewrite Z2N.id by exact H1. exact H2.
Qed.

Lemma norm_of_Z w z : norm w (of_Z w z) = of_Z w z.
Proof. apply norm_small. apply of_Z_lt. Qed.

Lemma norm1_ofb b : norm 1 (ofb b) = ofb b.
Proof. destruct b; reflexivity. Qed.

Lemma arith_norm op sg w a b :
  norm (res_width op w) (arith op sg w a b) = arith op sg w a b.
Proof.
  destruct op; unfold res_width; simpl; unfold arith;
    try apply norm_of_Z; try apply norm_norm; try apply norm1_ofb.
  - destruct (_ =? 0)%Z; [destruct (_ <? 0)%Z|]; apply norm_of_Z.
  - destruct (_ =? 0)%Z; apply norm_of_Z.
Qed.

(* ------------------------------------------------------- value lists *)
Lemma run_code_app a b vs : run_code (a ++ b) vs = run_code b (run_code a vs).
Proof. unfold run_code. apply fold_left_app. Qed.

Lemma run_code_extends c : forall vs,
  exists tail, run_code c vs = vs ++ tail /\ length tail = length c.
Proof.
  induction c as [|i c IH]; intro vs.
  - exists []. simpl. rewrite app_nil_r. auto.
  - simpl. destruct (IH (step vs i)) as [t [E L]].
    unfold run_code in *. rewrite E. unfold step. rewrite <- app_assoc.
    eexists. split; [reflexivity|]. simpl. rewrite L. reflexivity.
Qed.

Definition wfo (n : nat) (o : opnd) : Prop :=
  match o with OVar i _ => i < n | OConst _ _ _ => True end.

(* operand o is defined in vs and has value v *)
Definition ok (vs : list sval) (o : opnd) (v : N) : Prop :=
  opnd_val vs o = v /\ wfo (length vs) o.

Lemma opnd_val_app vs t o : wfo (length vs) o -> opnd_val (vs ++ t) o = opnd_val vs o.
Proof.
  destruct o as [i ty|cw cv ty]; simpl; intro H; [|reflexivity].
  rewrite app_nth1 by exact H. reflexivity.
Qed.

Lemma ok_app vs t o v : ok vs o v -> ok (vs ++ t) o v.
Proof.
  intros [H1 H2]. split.
  - rewrite opnd_val_app by exact H2. exact H1.
  - destruct o; simpl in *; [rewrite app_length; lia|exact I].
Qed.

Lemma Forall2_ok_app vs t os vals : Forall2 (ok vs) os vals -> Forall2 (ok (vs ++ t)) os vals.
Proof. induction 1; constructor; auto using ok_app. Qed.

Lemma resize_same sg w n : resize w n (mkSty sg w) = norm w n.
Proof.
  unfold resize. simpl. rewrite Nat.ltb_irrefl, andb_false_r. apply norm_norm.
Qed.


(* the value defined by one emitted instruction *)
Lemma emit1_run vs op args out aux c o :
  emit1 (length vs) op args out aux = (c, o) ->
  let v := norm (s_bits out) (eval_instr vs (mkInstr op args out aux)) in
  run_code c vs = vs ++ [(s_bits out, v)] /\
  ok (vs ++ [(s_bits out, v)]) o v /\ opnd_bits o = s_bits out /\ length c = 1.
Proof.
  unfold emit1. intro E. inversion E; subst; clear E. simpl.
  split; [reflexivity|]. split; [|split; reflexivity].
  split.
  - simpl. rewrite nth_middle. destruct out as [sg w]. simpl.
    rewrite resize_same. apply norm_norm.
  - simpl. rewrite app_length. simpl. lia.
Qed.

(* ------------------------------------------------------- environments *)
(* compile-time bindings, run-time environment and typing environment are
   aligned pointwise *)
Inductive env_ok (vs : list sval) : cenv -> env -> tenv -> Prop :=
| EO_nil : env_ok vs [] [] []
| EO_cons x o v w ce en G :
    ok vs o v -> opnd_bits o = w -> env_ok vs ce en G ->
    env_ok vs ((x, o) :: ce) ((x, v) :: en) ((x, w) :: G).

Lemma env_ok_app vs t ce en G : env_ok vs ce en G -> env_ok (vs ++ t) ce en G.
Proof. induction 1; constructor; auto using ok_app. Qed.

Lemma env_ok_lookup vs ce en G x w :
  env_ok vs ce en G -> tlookup x G = Some w ->
  ok vs (clookup x ce) (lookup x en) /\ opnd_bits (clookup x ce) = w.
Proof.
  induction 1; simpl; intro T; [discriminate|].
  destruct (Nat.eqb x x0); [inversion T; subst; auto|auto].
Qed.

Lemma env_ok_update vs ce en G x o v w :
  env_ok vs ce en G -> tlookup x G = Some w -> ok vs o v -> opnd_bits o = w ->
  env_ok vs (cupdate x o ce) (update x v en) G.
Proof.
  induction 1; simpl; intros T Ho Hb; [constructor|].
  destruct (Nat.eqb x x0) eqn:E.
  - inversion T; subst. constructor; auto.
  - constructor; auto.
Qed.

Lemma env_ok_length vs ce en G : env_ok vs ce en G -> length ce = length en /\ length ce = length G.
Proof. induction 1; simpl; [auto|]. destruct IHenv_ok. split; congruence. Qed.

Lemma env_ok_skipn vs k ce en G : env_ok vs ce en G -> env_ok vs (skipn k ce) (skipn k en) (skipn k G).
Proof.
  intro H. revert k. induction H; intro k; destruct k; simpl; try constructor; auto.
Qed.

Lemma opt_is_true o w : opt_is o w = true -> o = Some w.
Proof. destruct o; simpl; [|discriminate]. intro H. apply Nat.eqb_eq in H. congruence. Qed.

Lemma opnd_const_kconst k : opnd_const (kconst k) = k.
Proof. unfold kconst, opnd_const. apply Nat2N.id. Qed.

Lemma s_bits_res_sty op t : s_bits (res_sty op t) = res_width op (width t).
Proof. unfold res_sty, res_width. destruct (is_cmp op || is_logical op); reflexivity. Qed.

(* the instruction chosen for an operator computes the operator *)
Lemma eval_bin_instr op sg vs oa ob out aux :
  eval_instr vs (mkInstr (opcode_of op sg) [oa; ob] out aux)
  = arith op sg (Nat.max (opnd_bits oa) (opnd_bits ob)) (opnd_val vs oa) (opnd_val vs ob).
Proof. destruct op, sg; reflexivity. Qed.

Lemma eval_sub_instr (sg : bool) vs oa ob out aux :
  eval_instr vs (mkInstr (if sg then Oisub else Ousub) [oa; ob] out aux)
  = arith Sub sg (Nat.max (opnd_bits oa) (opnd_bits ob)) (opnd_val vs oa) (opnd_val vs ob).
Proof. destruct sg; reflexivity. Qed.

Lemma const0_val vs t : opnd_val vs (OConst (width t) 0 (sty_of t)) = 0%N.
Proof. unfold opnd_val, sty_of. rewrite resize_same. apply norm_0. Qed.
Lemma const0_bits t : opnd_bits (OConst (width t) 0 (sty_of t)) = width t.
Proof. reflexivity. Qed.

Lemma eval_not vs oa out aux :
  eval_instr vs (mkInstr Onot [oa] out aux)
  = N.lxor (pow2 (s_bits out) - 1) (norm (s_bits out) (opnd_val vs oa)).
Proof. reflexivity. Qed.
Lemma eval_lshift vs oa ob out aux :
  eval_instr vs (mkInstr Olshift [oa; ob] out aux)
  = norm (s_bits out) (norm (opnd_bits oa) (opnd_val vs oa) * pow2 (opnd_const ob)).
Proof. reflexivity. Qed.
Lemma eval_rshift (sg : bool) vs oa ob out aux :
  eval_instr vs (mkInstr (if sg then Osrshift else Orshift) [oa; ob] out aux)
  = of_Z (s_bits out) (Z.shiftr (to_Z sg (opnd_bits oa) (opnd_val vs oa)) (Z.of_nat (opnd_const ob))).
Proof. destruct sg; reflexivity. Qed.
Lemma eval_cast (sg : bool) vs oa out aux :
  eval_instr vs (mkInstr (if sg then Osmov else Omov) [oa] out aux)
  = if sg then of_Z (s_bits out) (to_Z true (opnd_bits oa) (opnd_val vs oa))
    else norm (s_bits out) (opnd_val vs oa).
Proof. destruct sg; reflexivity. Qed.
Lemma eval_mov vs oa out aux :
  eval_instr vs (mkInstr Omov [oa] out aux) = norm (s_bits out) (opnd_val vs oa).
Proof. reflexivity. Qed.
Lemma eval_slice vs oa ob oc out aux :
  eval_instr vs (mkInstr Oslice [oa; ob; oc] out aux)
  = slice_sem (opnd_const ob) (opnd_const oc - opnd_const ob) (opnd_val vs oa).
Proof. reflexivity. Qed.
Lemma eval_index vs oa ob oc out aux :
  eval_instr vs (mkInstr Oindex [oa; ob; oc] out aux)
  = index_sem (Nat.div (opnd_bits oa - opnd_const ob) aux) aux
              (opnd_val vs oa / pow2 (opnd_const ob)) (opnd_val vs oc).
Proof. reflexivity. Qed.
Lemma eval_amov vs ov oa ob oc out aux :
  eval_instr vs (mkInstr Oamov [ov; oa; ob; oc] out aux)
  = store_sem (s_bits out) (opnd_const ob) (opnd_const oc - opnd_const ob)
              (opnd_val vs oa) (opnd_val vs ov).
Proof. reflexivity. Qed.
Lemma eval_phi vs oc ot of' out aux :
  eval_instr vs (mkInstr Ophi [oc; ot; of'] out aux)
  = if N.odd (opnd_val vs oc) then opnd_val vs ot else opnd_val vs of'.
Proof. reflexivity. Qed.

Lemma emit_after vs tail1 c1 op args out aux ci o v :
  run_code c1 vs = vs ++ tail1 -> length tail1 = length c1 ->
  emit1 (length vs + length c1) op args out aux = (ci, o) ->
  norm (s_bits out) (eval_instr (vs ++ tail1) (mkInstr op args out aux)) = v ->
  exists tail, run_code (c1 ++ ci) vs = vs ++ tail /\ length tail = length (c1 ++ ci) /\
     ok (vs ++ tail) o v /\ opnd_bits o = s_bits out.
Proof.
  intros R L E V.
  assert (Hl : length (vs ++ tail1) = length vs + length c1) by (rewrite app_length; lia).
  rewrite <- Hl in E. apply emit1_run in E. cbv zeta in E. rewrite V in E.
  destruct E as [E1 [E2 [E3 E4]]].
  exists (tail1 ++ [(s_bits out, v)]).
  rewrite run_code_app, R, E1, <- app_assoc. split; [reflexivity|].
  split; [rewrite !app_length; simpl; lia|].
  split; [rewrite app_assoc; exact E2|exact E3].
Qed.

(* two sub-expressions in sequence *)
Lemma two_runs vs ca cb t1 t2 :
  run_code ca vs = vs ++ t1 -> length t1 = length ca ->
  run_code cb (vs ++ t1) = (vs ++ t1) ++ t2 -> length t2 = length cb ->
  run_code (ca ++ cb) vs = vs ++ (t1 ++ t2) /\ length (t1 ++ t2) = length (ca ++ cb).
Proof.
  intros R1 L1 R2 L2. rewrite run_code_app, R1, R2, <- app_assoc. split; [reflexivity|].
  rewrite !app_length. lia.
Qed.

Opaque emit1.

Lemma max_same w : Nat.max w w = w.
Proof. apply Nat.max_id. Qed.

Theorem lower_expr_ok : forall e ce en G vs wd c o,
  env_ok vs ce en G -> wt_expr G e = Some wd ->
  lower_expr ce e (length vs) = (c, o) ->
  exists tail, run_code c vs = vs ++ tail /\ length tail = length c /\
     ok (vs ++ tail) o (eval e en) /\ opnd_bits o = wd.
Proof.
  induction e; intros ce en G vs wd c o HE HT HL; simpl in HT, HL.
  - (* EVar *)
    inversion HL; subst. exists []. rewrite app_nil_r. simpl.
    destruct (env_ok_lookup _ _ _ _ _ _ HE HT). auto.
  - (* ELit *)
    inversion HL; subst. inversion HT; subst. exists []. rewrite app_nil_r. simpl.
    split; [reflexivity|]. split; [reflexivity|]. split; [|reflexivity].
    split; [|exact I]. simpl. unfold sty_of. rewrite resize_same. apply norm_norm.
  - (* EBin *)
    destruct (opt_is (wt_expr G e1) (width t)) eqn:T1; [|discriminate].
    destruct (opt_is (wt_expr G e2) (width t)) eqn:T2; [|discriminate].
    simpl in HT.
    destruct (negb (is_logical op) || Nat.eqb (width t) 1); [|discriminate].
    inversion HT; subst; clear HT.
    apply opt_is_true in T1. apply opt_is_true in T2.
    destruct (lower_expr ce e1 (length vs)) as [ca oa] eqn:La.
    destruct (IHe1 _ _ _ _ _ _ _ HE T1 La) as [t1 [R1 [L1 [O1 B1]]]].
    assert (Hl : length (vs ++ t1) = length vs + length ca) by (rewrite app_length; lia).
    rewrite <- Hl in HL.
    destruct (lower_expr ce e2 (length (vs ++ t1))) as [cb ob] eqn:Lb.
    destruct (IHe2 _ _ _ _ _ _ _ (env_ok_app _ t1 _ _ _ HE) T2 Lb) as [t2 [R2 [L2 [O2 B2]]]].
    destruct (two_runs _ _ _ _ _ R1 L1 R2 L2) as [R12 L12].
    rewrite Hl in HL.
    destruct (emit1 _ _ _ _ _) as [ci o'] eqn:Ei in HL. inversion HL; subst; clear HL.
    rewrite app_assoc.
    replace (length vs + length ca + length cb) with (length vs + length (ca ++ cb)) in Ei
      by (rewrite app_length; lia).
    destruct (emit_after _ _ _ _ _ _ _ _ _ (bin_sem op t (eval e1 en) (eval e2 en)) R12 L12 Ei)
      as [tail [Q1 [Q2 [Q3 Q4]]]].
    + rewrite eval_bin_instr, B1, B2, max_same, s_bits_res_sty.
      rewrite app_assoc. destruct O2 as [O2 _]. rewrite O2.
      apply (ok_app _ t2) in O1. destruct O1 as [O1 _]. rewrite O1.
      unfold bin_sem. apply arith_norm.
    + exists tail. rewrite s_bits_res_sty in Q4. auto.
  - (* ENeg *)
    destruct (opt_is (wt_expr G e) (width t)) eqn:T1; [|discriminate].
    inversion HT; subst; clear HT. apply opt_is_true in T1.
    destruct (lower_expr ce e (length vs)) as [ca oa] eqn:La.
    destruct (IHe _ _ _ _ _ _ _ HE T1 La) as [t1 [R1 [L1 [O1 B1]]]].
    destruct (emit1 _ _ _ _ _) as [ci o'] eqn:Ei in HL. inversion HL; subst; clear HL.
    destruct (emit_after _ _ _ _ _ _ _ _ _ (neg_sem t (eval e en)) R1 L1 Ei)
      as [tail [Q1 [Q2 [Q3 Q4]]]]; [|exists tail; auto].
    rewrite eval_sub_instr. destruct O1 as [O1 _].
    rewrite O1, B1, const0_val, const0_bits, max_same.
    unfold neg_sem. apply (arith_norm Sub).
  - (* ENot *)
    destruct (opt_is (wt_expr G e) 1) eqn:T1; [|discriminate].
    inversion HT; subst; clear HT. apply opt_is_true in T1.
    destruct (lower_expr ce e (length vs)) as [ca oa] eqn:La.
    destruct (IHe _ _ _ _ _ _ _ HE T1 La) as [t1 [R1 [L1 [O1 B1]]]].
    destruct (emit1 _ _ _ _ _) as [ci o'] eqn:Ei in HL. inversion HL; subst; clear HL.
    destruct (emit_after _ _ _ _ _ _ _ _ _ (not_sem (eval e en)) R1 L1 Ei)
      as [tail [Q1 [Q2 [Q3 Q4]]]]; [|exists tail; auto].
    rewrite eval_not. destruct O1 as [O1 _]. rewrite O1. reflexivity.
  - (* EShl *)
    destruct (opt_is (wt_expr G e) (width t)) eqn:T1; [|discriminate].
    inversion HT; subst; clear HT. apply opt_is_true in T1.
    destruct (lower_expr ce e (length vs)) as [ca oa] eqn:La.
    destruct (IHe _ _ _ _ _ _ _ HE T1 La) as [t1 [R1 [L1 [O1 B1]]]].
    destruct (emit1 _ _ _ _ _) as [ci o'] eqn:Ei in HL. inversion HL; subst; clear HL.
    destruct (emit_after _ _ _ _ _ _ _ _ _ (shl_sem (width t) (eval e en) k) R1 L1 Ei)
      as [tail [Q1 [Q2 [Q3 Q4]]]]; [|exists tail; auto].
    rewrite eval_lshift. destruct O1 as [O1 _]. rewrite O1, B1, opnd_const_kconst.
    unfold shl_sem. apply norm_norm.
  - (* EShr *)
    destruct (opt_is (wt_expr G e) (width t)) eqn:T1; [|discriminate].
    inversion HT; subst; clear HT. apply opt_is_true in T1.
    destruct (lower_expr ce e (length vs)) as [ca oa] eqn:La.
    destruct (IHe _ _ _ _ _ _ _ HE T1 La) as [t1 [R1 [L1 [O1 B1]]]].
    destruct (emit1 _ _ _ _ _) as [ci o'] eqn:Ei in HL. inversion HL; subst; clear HL.
    destruct (emit_after _ _ _ _ _ _ _ _ _ (shr_sem (is_signed t) (width t) (eval e en) k) R1 L1 Ei)
      as [tail [Q1 [Q2 [Q3 Q4]]]]; [|exists tail; auto].
    destruct O1 as [O1 _]. rewrite eval_rshift, O1, B1, opnd_const_kconst.
    unfold shr_sem. apply norm_of_Z.
  - (* ECast *)
    destruct (opt_is (wt_expr G e) (width from)) eqn:T1; [|discriminate].
    inversion HT; subst; clear HT. apply opt_is_true in T1.
    destruct (lower_expr ce e (length vs)) as [ca oa] eqn:La.
    destruct (IHe _ _ _ _ _ _ _ HE T1 La) as [t1 [R1 [L1 [O1 B1]]]].
    destruct (emit1 _ _ _ _ _) as [ci o'] eqn:Ei in HL. inversion HL; subst; clear HL.
    destruct (emit_after _ _ _ _ _ _ _ _ _ (cast_sem from to (eval e en)) R1 L1 Ei)
      as [tail [Q1 [Q2 [Q3 Q4]]]]; [|exists tail; auto].
    destruct O1 as [O1 _]. unfold cast_sem. rewrite eval_cast, O1, B1.
    destruct (is_signed from && is_signed to); [apply norm_of_Z|apply norm_norm].
  - (* ESlice *)
    destruct (wt_expr G e) as [wa|] eqn:T1; [|discriminate].
    injection HT as HT; subst wd.
    destruct (lower_expr ce e (length vs)) as [ca oa] eqn:La.
    destruct (IHe _ _ _ _ _ _ _ HE T1 La) as [t1 [R1 [L1 [O1 B1]]]].
    destruct (emit1 _ _ _ _ _) as [ci o'] eqn:Ei in HL. inversion HL; subst; clear HL.
    destruct (emit_after _ _ _ _ _ _ _ _ _ (slice_sem off w (eval e en)) R1 L1 Ei)
      as [tail [Q1 [Q2 [Q3 Q4]]]]; [|exists tail; auto].
    rewrite eval_slice. destruct O1 as [O1 _]. rewrite O1, !opnd_const_kconst.
    replace (off + w - off) with w by lia. unfold slice_sem. apply norm_norm.
  - (* EIndex *)
    destruct (wt_expr G e2) as [wi|] eqn:T2; [|discriminate].
    destruct (opt_is (wt_expr G e1) (n * width et)) eqn:T1; [|discriminate].
    simpl in HT. destruct (Nat.ltb 0 (width et)) eqn:Hw; [|discriminate].
    inversion HT; subst; clear HT. apply opt_is_true in T1. apply Nat.ltb_lt in Hw.
    destruct (lower_expr ce e1 (length vs)) as [ca oa] eqn:La.
    destruct (IHe1 _ _ _ _ _ _ _ HE T1 La) as [t1 [R1 [L1 [O1 B1]]]].
    assert (Hl : length (vs ++ t1) = length vs + length ca) by (rewrite app_length; lia).
    rewrite <- Hl in HL.
    destruct (lower_expr ce e2 (length (vs ++ t1))) as [cb ob] eqn:Lb.
    destruct (IHe2 _ _ _ _ _ _ _ (env_ok_app _ t1 _ _ _ HE) T2 Lb) as [t2 [R2 [L2 [O2 B2]]]].
    destruct (two_runs _ _ _ _ _ R1 L1 R2 L2) as [R12 L12].
    rewrite Hl in HL.
    destruct (emit1 _ _ _ _ _) as [ci o'] eqn:Ei in HL. inversion HL; subst; clear HL.
    rewrite app_assoc.
    replace (length vs + length ca + length cb) with (length vs + length (ca ++ cb)) in Ei
      by (rewrite app_length; lia).
    destruct (emit_after _ _ _ _ _ _ _ _ _ (index_sem n (width et) (eval e1 en) (eval e2 en)) R12 L12 Ei)
      as [tail [Q1 [Q2 [Q3 Q4]]]]; [|exists tail; auto].
    rewrite eval_index, opnd_const_kconst, B1, Nat.sub_0_r, Nat.div_mul by lia.
    rewrite app_assoc. destruct O2 as [O2 _]. rewrite O2.
    apply (ok_app _ t2) in O1. destruct O1 as [O1 _]. rewrite O1.
    change (pow2 0) with 1%N. rewrite N.div_1_r.
    unfold index_sem. destruct (N.ltb _ _); [apply norm_norm|apply norm_0].
Qed.

(* ------------------------------------------------------------ phi, merge *)
(* Soundness of the equality test by which Bindings.Merge / returnBinding skip
   a phi: values judged equal ARE equal (same value number and type, or same
   constant).  This is the model's counterpart of Select.Equal / Value.Equal;
   see the comment above [merge] in Lower.v. *)
Lemma opnd_eqb_eq a b : opnd_eqb a b = true -> a = b.
Proof.
  destruct a as [i [s1 b1]|cw cv [s1 b1]], b as [j [s2 b2]|dw dv [s2 b2]]; simpl; try discriminate;
    intro H; repeat (apply andb_prop in H; destruct H as [H ?]);
    repeat match goal with
           | H : Nat.eqb _ _ = true |- _ => apply Nat.eqb_eq in H
           | H : N.eqb _ _ = true |- _ => apply N.eqb_eq in H
           | H : Bool.eqb _ _ = true |- _ => apply Bool.eqb_prop in H
           end; subst; reflexivity.
Qed.

Lemma resize_lt sw n t : (resize sw n t < pow2 (s_bits t))%N.
Proof. unfold resize. destruct (_ && _); [apply of_Z_lt|apply norm_lt]. Qed.

Lemma opnd_val_lt vs o : (opnd_val vs o < pow2 (opnd_bits o))%N.
Proof.
  destruct o as [i t|cw cv t]; simpl; [destruct (nth i vs (0, 0%N))|]; apply resize_lt.
Qed.

Lemma phi_step vs c bc t f rt v ci o :
  ok vs c bc -> ok vs (if N.odd bc then t else f) v ->
  opnd_bits (if N.odd bc then t else f) = s_bits rt ->
  emit1 (length vs) Ophi [c; t; f] rt 0 = (ci, o) ->
  exists tail, run_code ci vs = vs ++ tail /\ length tail = length ci /\
    ok (vs ++ tail) o v /\ opnd_bits o = s_bits rt.
Proof.
  intros [Hc _] [Hv _] Hb E. apply emit1_run in E. cbv zeta in E.
  assert (V : norm (s_bits rt) (eval_instr vs (mkInstr Ophi [c; t; f] rt 0)) = v).
  { rewrite eval_phi, Hc.
    replace (if N.odd bc then opnd_val vs t else opnd_val vs f)
      with (opnd_val vs (if N.odd bc then t else f)) by (destruct (N.odd bc); reflexivity).
    rewrite Hv. apply norm_small. rewrite <- Hb, <- Hv. apply opnd_val_lt. }
  rewrite V in E. destruct E as [E1 [E2 [E3 E4]]].
  eexists. split; [exact E1|]. split; [simpl; lia|]. split; [exact E2|exact E3].
Qed.

Lemma phis_ok : forall rts vs c bc ts fs vals code os,
  ok vs c bc ->
  Forall2 (ok vs) (if N.odd bc then ts else fs) vals ->
  map opnd_bits (if N.odd bc then ts else fs) = map s_bits rts ->
  phis c rts ts fs (length vs) = (code, os) ->
  exists tail, run_code code vs = vs ++ tail /\ length tail = length code /\
    Forall2 (ok (vs ++ tail)) os vals /\ map opnd_bits os = map s_bits rts.
Proof.
  induction rts as [|rt rr IH]; intros vs c bc ts fs vals code os Hc HF HB HP; simpl in HP.
  - inversion HP; subst. exists []. rewrite app_nil_r.
    destruct (if N.odd bc then ts else fs); [|discriminate]. inversion HF; subst. simpl. auto.
  - (* the taken list is non-empty *)
    assert (exists s sr v vr, (if N.odd bc then ts else fs) = s :: sr /\ vals = v :: vr /\
              ok vs s v /\ Forall2 (ok vs) sr vr /\ opnd_bits s = s_bits rt /\
              map opnd_bits sr = map s_bits rr /\
              s = (if N.odd bc then hd_o ts else hd_o fs) /\
              sr = (if N.odd bc then tl ts else tl fs)) as
        [s [sr [v [vr [E1 [E2 [Os [Fr [Bs [Br [Es Er]]]]]]]]]]].
    { destruct (N.odd bc).
      - destruct ts as [|s sr]; [discriminate|].
        inversion HF as [|s' y sr' l' Hy Hl']; subst. simpl in HB. injection HB as HB1 HB2.
        exists s, sr, y, l'.
        exact (conj eq_refl (conj eq_refl (conj Hy (conj Hl' (conj HB1 (conj HB2 (conj eq_refl eq_refl))))))).
      - destruct fs as [|s sr]; [discriminate|].
        inversion HF as [|s' y sr' l' Hy Hl']; subst. simpl in HB. injection HB as HB1 HB2.
        exists s, sr, y, l'.
        exact (conj eq_refl (conj eq_refl (conj Hy (conj Hl' (conj HB1 (conj HB2 (conj eq_refl eq_refl))))))). }
    subst vals.
    destruct (opnd_eqb (hd_o ts) (hd_o fs)) eqn:Eq.
    + apply opnd_eqb_eq in Eq.
      destruct (phis c rr (tl ts) (tl fs) (length vs)) as [c2 os2] eqn:P2.
      inversion HP; subst code os; clear HP.
      assert (Fr' : Forall2 (ok vs) (if N.odd bc then tl ts else tl fs) vr) by (rewrite <- Er; exact Fr).
      assert (Br' : map opnd_bits (if N.odd bc then tl ts else tl fs) = map s_bits rr) by (rewrite <- Er; exact Br).
      destruct (IH _ _ _ _ _ _ _ _ Hc Fr' Br' P2) as [tail [R [L [F B]]]].
      exists tail. split; [exact R|]. split; [exact L|].
      assert (Hs : s = hd_o ts) by (rewrite Es; destruct (N.odd bc); congruence).
      rewrite Hs in Os, Bs.
      split; [constructor; [apply ok_app; exact Os|exact F]|simpl; congruence].
    + destruct (emit1 (length vs) Ophi [c; hd_o ts; hd_o fs] rt 0) as [c1 o1] eqn:E.
      assert (Os' : ok vs (if N.odd bc then hd_o ts else hd_o fs) v) by (rewrite <- Es; exact Os).
      assert (Bs' : opnd_bits (if N.odd bc then hd_o ts else hd_o fs) = s_bits rt) by (rewrite <- Es; exact Bs).
      destruct (phi_step _ _ _ _ _ _ _ _ _ Hc Os' Bs' E) as [t1 [R1 [L1 [O1 B1]]]].
      assert (Hl : length (vs ++ t1) = length vs + length c1) by (rewrite app_length; lia).
      rewrite <- Hl in HP.
      destruct (phis c rr (tl ts) (tl fs) (length (vs ++ t1))) as [c2 os2] eqn:P2.
      inversion HP; subst code os; clear HP.
      assert (Fr' : Forall2 (ok (vs ++ t1)) (if N.odd bc then tl ts else tl fs) vr).
      { rewrite <- Er. apply Forall2_ok_app. exact Fr. }
      assert (Br' : map opnd_bits (if N.odd bc then tl ts else tl fs) = map s_bits rr) by (rewrite <- Er; exact Br).
      destruct (IH _ _ _ _ _ _ _ _ (ok_app _ t1 _ _ Hc) Fr' Br' P2) as [t2 [R2 [L2 [F B]]]].
      destruct (two_runs _ _ _ _ _ R1 L1 R2 L2) as [R12 L12].
      exists (t1 ++ t2). split; [exact R12|]. split; [exact L12|].
      rewrite app_assoc.
      split; [constructor; [apply ok_app; exact O1|exact F]|simpl; congruence].
Qed.

Lemma merge_ok : forall ce en G vs c bc te fe en' code em,
  env_ok vs ce en G -> ok vs c bc ->
  env_ok vs (if N.odd bc then te else fe) en' G ->
  merge c ce te fe (length vs) = (code, em) ->
  exists tail, run_code code vs = vs ++ tail /\ length tail = length code /\
    env_ok (vs ++ tail) em en' G.
Proof.
  induction ce as [|[x o0] cr IH]; intros en G vs c bc te fe en' code em HE Hc HT HM; simpl in HM.
  - inversion HM; subst. inversion HE; subst. exists []. rewrite app_nil_r.
    inversion HT; subst. simpl. repeat split; constructor.
  - inversion HE as [|x' o' v0 w ce' en0 G0 Ho0 Hb0 HE0]; subst.
    inversion HT as [|x' s v w' sr enr G0' Os Bs Fr Hs]; subst.
    assert (Es : s = (if N.odd bc then hd_c te else hd_c fe)).
    { destruct (N.odd bc); [destruct te|destruct fe]; inversion Hs; reflexivity. }
    assert (Er : sr = (if N.odd bc then tl te else tl fe)).
    { destruct (N.odd bc); [destruct te|destruct fe]; inversion Hs; reflexivity. }
    destruct (opnd_eqb (hd_c te) (hd_c fe)) eqn:Eq.
    + apply opnd_eqb_eq in Eq.
      destruct (merge c cr (tl te) (tl fe) (length vs)) as [c2 r] eqn:M2.
      inversion HM; subst code em; clear HM.
      assert (Fr' : env_ok vs (if N.odd bc then tl te else tl fe) enr G0) by (rewrite <- Er; exact Fr).
      destruct (IH _ _ _ _ _ _ _ _ _ _ HE0 Hc Fr' M2) as [tail [R [L F]]].
      exists tail. split; [exact R|]. split; [exact L|].
      assert (Hs' : s = hd_c te) by (rewrite Es; destruct (N.odd bc); congruence).
      rewrite Hs' in Os, Bs.
      constructor; [apply ok_app; exact Os|exact Bs|exact F].
    + destruct (emit1 (length vs) Ophi [c; hd_c te; hd_c fe] (opnd_ty o0) 0) as [c1 o1] eqn:E.
      assert (Os' : ok vs (if N.odd bc then hd_c te else hd_c fe) v) by (rewrite <- Es; exact Os).
      assert (Bs' : opnd_bits (if N.odd bc then hd_c te else hd_c fe) = s_bits (opnd_ty o0)).
      { rewrite <- Es. exact Bs. }
      destruct (phi_step _ _ _ _ _ _ _ _ _ Hc Os' Bs' E) as [t1 [R1 [L1 [O1 B1]]]].
      assert (Hl : length (vs ++ t1) = length vs + length c1) by (rewrite app_length; lia).
      rewrite <- Hl in HM.
      destruct (merge c cr (tl te) (tl fe) (length (vs ++ t1))) as [c2 r] eqn:M2.
      inversion HM; subst code em; clear HM.
      assert (Fr' : env_ok (vs ++ t1) (if N.odd bc then tl te else tl fe) enr G0).
      { rewrite <- Er. apply env_ok_app. exact Fr. }
      destruct (IH _ _ _ _ _ _ _ _ _ _ (env_ok_app _ t1 _ _ _ HE0) (ok_app _ t1 _ _ Hc) Fr' M2)
        as [t2 [R2 [L2 F]]].
      destruct (two_runs _ _ _ _ _ R1 L1 R2 L2) as [R12 L12].
      exists (t1 ++ t2). split; [exact R12|]. split; [exact L12|].
      rewrite app_assoc. constructor; [apply ok_app; exact O1|exact B1|exact F].
Qed.

(* --------------------------------------------------------- return trees *)
(* [path ws vs t r]: under the values vs, entering the tree t ends in a
   return of the values r (Some) or falls out of it (None); ws = the widths
   of the function's results *)
Inductive path (ws : list nat) (vs : list sval) : rtree -> option (list N) -> Prop :=
| P_fall : path ws vs RFall None
| P_ret os vals : Forall2 (ok vs) os vals -> map opnd_bits os = ws -> path ws vs (RRet os) (Some vals)
| P_if c bc t f r : ok vs c bc -> path ws vs (if N.odd bc then t else f) r -> path ws vs (RIf c t f) r
| P_then_fall a b r : path ws vs a None -> path ws vs b r -> path ws vs (RThen a b) r
| P_then_ret a b vals : path ws vs a (Some vals) -> path ws vs (RThen a b) (Some vals).

Lemma path_app ws vs tl0 t r : path ws vs t r -> path ws (vs ++ tl0) t r.
Proof.
  induction 1.
  - constructor.
  - constructor; [apply Forall2_ok_app; assumption|assumption].
  - econstructor; [apply ok_app; eassumption|assumption].
  - apply P_then_fall; assumption.
  - apply P_then_ret; assumption.
Qed.

Lemma resolve_ok rts : forall t vs r k kvals code os,
  path (map s_bits rts) vs t r ->
  (r = None -> Forall2 (ok vs) k kvals /\ map opnd_bits k = map s_bits rts) ->
  resolve rts t k (length vs) = (code, os) ->
  exists tail, run_code code vs = vs ++ tail /\ length tail = length code /\
    Forall2 (ok (vs ++ tail)) os (match r with Some v => v | None => kvals end) /\
    map opnd_bits os = map s_bits rts.
Proof.
  induction t as [|os0|c a IHa b IHb|a IHa b IHb]; intros vs r k kvals code os HP HK HR; simpl in HR.
  - inversion HR; subst. inversion HP; subst. exists []. rewrite app_nil_r.
    destruct (HK eq_refl). simpl. auto.
  - inversion HR; subst. inversion HP; subst. exists []. rewrite app_nil_r. simpl. auto.
  - inversion HP as [| |c' bc t' f' r' Hc Hsub| |]; subst.
    destruct (resolve rts a k (length vs)) as [ca oa] eqn:Ra.
    destruct (run_code_extends ca vs) as [t1 [R1 L1]].
    assert (Hl1 : length (vs ++ t1) = length vs + length ca) by (rewrite app_length; lia).
    rewrite <- Hl1 in HR.
    destruct (resolve rts b k (length (vs ++ t1))) as [cb ob] eqn:Rb.
    destruct (run_code_extends cb (vs ++ t1)) as [t2 [R2 L2]].
    destruct (two_runs _ _ _ _ _ R1 L1 R2 L2) as [R12 L12].
    rewrite Hl1 in HR.
    replace (length vs + length ca + length cb) with (length (vs ++ (t1 ++ t2))) in HR
      by (rewrite !app_length; lia).
    destruct (phis c rts oa ob (length (vs ++ (t1 ++ t2)))) as [cp os'] eqn:Pp.
    inversion HR; subst code os; clear HR.
    set (res := match r with Some v => v | None => kvals end) in *.
    assert (HT : Forall2 (ok (vs ++ (t1 ++ t2))) (if N.odd bc then oa else ob) res /\
                 map opnd_bits (if N.odd bc then oa else ob) = map s_bits rts).
    { destruct (N.odd bc).
      - destruct (IHa _ _ _ _ _ _ Hsub HK Ra) as [t1' [R1' [L1' [F1 B1]]]].
        rewrite R1 in R1'. apply app_inv_head in R1'. subst t1'.
        split; [|exact B1]. rewrite app_assoc. apply Forall2_ok_app. exact F1.
      - assert (HK' : r = None -> Forall2 (ok (vs ++ t1)) k kvals /\ map opnd_bits k = map s_bits rts).
        { intro E. destruct (HK E). split; [apply Forall2_ok_app|]; assumption. }
        destruct (IHb _ _ _ _ _ _ (path_app _ _ t1 _ _ Hsub) HK' Rb) as [t2' [R2' [L2' [F2 B2]]]].
        rewrite R2 in R2'. apply app_inv_head in R2'. subst t2'.
        split; [|exact B2]. rewrite app_assoc. exact F2. }
    destruct HT as [HT1 HT2].
    assert (Hc' : ok (vs ++ (t1 ++ t2)) c bc) by (apply ok_app; exact Hc).
    destruct (phis_ok _ _ _ _ _ _ _ _ _ Hc' HT1 HT2 Pp) as [t3 [R3 [L3 [F3 B3]]]].
    exists ((t1 ++ t2) ++ t3). rewrite app_assoc.
    destruct (two_runs _ _ _ _ _ R12 L12 R3 L3) as [R123 L123].
    split; [exact R123|]. split; [exact L123|]. rewrite app_assoc. split; assumption.
  - destruct (resolve rts b k (length vs)) as [cb ob] eqn:Rb.
    destruct (run_code_extends cb vs) as [t1 [R1 L1]].
    assert (Hl1 : length (vs ++ t1) = length vs + length cb) by (rewrite app_length; lia).
    rewrite <- Hl1 in HR.
    destruct (resolve rts a ob (length (vs ++ t1))) as [ca oa] eqn:Ra.
    inversion HR; subst code os; clear HR.
    inversion HP as [| | |a' b' r' Ha Hb|a' b' vals Ha]; subst.
    + (* a falls, b decides *)
      destruct (IHb _ _ _ _ _ _ Hb HK Rb) as [t1' [R1' [L1' [F1 B1]]]].
      rewrite R1 in R1'. apply app_inv_head in R1'. subst t1'.
      assert (HK' : @None (list N) = None ->
                    Forall2 (ok (vs ++ t1)) ob (match r with Some v => v | None => kvals end) /\
                    map opnd_bits ob = map s_bits rts) by (intros _; split; assumption).
      destruct (IHa _ _ _ _ _ _ (path_app _ _ t1 _ _ Ha) HK' Ra) as [t2 [R2 [L2 [F2 B2]]]].
      destruct (two_runs _ _ _ _ _ R1 L1 R2 L2) as [R12 L12].
      exists (t1 ++ t2). split; [exact R12|]. split; [exact L12|]. rewrite app_assoc. split; assumption.
    + (* a returns *)
      assert (HK' : Some vals = None -> Forall2 (ok (vs ++ t1)) ob kvals /\
                    map opnd_bits ob = map s_bits rts) by discriminate.
      destruct (IHa _ _ _ _ _ _ (path_app _ _ t1 _ _ Ha) HK' Ra) as [t2 [R2 [L2 [F2 B2]]]].
      destruct (two_runs _ _ _ _ _ R1 L1 R2 L2) as [R12 L12].
      exists (t1 ++ t2). split; [exact R12|]. split; [exact L12|]. rewrite app_assoc. split; assumption.
Qed.

(* ------------------------------------------------ lists of expressions *)
Lemma lower_exprs_ok : forall es ce en G vs ws c os,
  env_ok vs ce en G -> wt_exprs G es ws = true ->
  lower_exprs ce es (length vs) = (c, os) ->
  exists tail, run_code c vs = vs ++ tail /\ length tail = length c /\
    Forall2 (ok (vs ++ tail)) os (map (fun e => eval e en) es) /\ map opnd_bits os = ws.
Proof.
  induction es as [|e er IH]; intros ce en G vs ws c os HE HT HL; simpl in HL, HT.
  - destruct ws; [|discriminate]. inversion HL; subst. exists []. rewrite app_nil_r. simpl. auto.
  - destruct ws as [|w wr]; [discriminate|].
    apply andb_prop in HT. destruct HT as [T1 T2]. apply opt_is_true in T1.
    destruct (lower_expr ce e (length vs)) as [c1 o1] eqn:L1.
    destruct (lower_expr_ok _ _ _ _ _ _ _ _ HE T1 L1) as [t1 [R1 [Ln1 [O1 B1]]]].
    assert (Hl : length (vs ++ t1) = length vs + length c1) by (rewrite app_length; lia).
    rewrite <- Hl in HL.
    destruct (lower_exprs ce er (length (vs ++ t1))) as [c2 os2] eqn:L2.
    inversion HL; subst c os; clear HL.
    destruct (IH _ _ _ _ _ _ _ (env_ok_app _ t1 _ _ _ HE) T2 L2) as [t2 [R2 [Ln2 [F2 B2]]]].
    destruct (two_runs _ _ _ _ _ R1 Ln1 R2 Ln2) as [R12 L12].
    exists (t1 ++ t2). split; [exact R12|]. split; [exact L12|]. rewrite app_assoc.
    split; [constructor; [apply ok_app; exact O1|exact F2]|simpl; congruence].
Qed.

(* movs into values of declared types *)
Lemma movs_ok : forall (ts : list ty) os vals vs c os',
  Forall2 (ok vs) os vals -> length ts = length os ->
  movs_to os (map sty_of ts) (length vs) = (c, os') ->
  exists tail, run_code c vs = vs ++ tail /\ length tail = length c /\
    Forall2 (ok (vs ++ tail)) os' (norm_all ts vals) /\ map opnd_bits os' = map width ts.
Proof.
  induction ts as [|t tr IH]; intros os vals vs c os' HF HL HM.
  - destruct os; [|discriminate]. simpl in HM. inversion HM; subst.
    exists []. rewrite app_nil_r. simpl. auto.
  - destruct os as [|o orr]; [discriminate|]. inversion HF as [|o' v orr' vr Ho Hr]; subst.
    simpl in HM. unfold mov_to in HM.
    destruct (emit1 (length vs) Omov [o] (sty_of t) 0) as [c1 o1] eqn:E.
    apply emit1_run in E. cbv zeta in E. rewrite eval_mov in E.
    destruct Ho as [Ho Hw]. rewrite Ho, norm_norm in E. destruct E as [R1 [O1 [B1 Ln1]]].
    set (t1 := [(s_bits (sty_of t), norm (s_bits (sty_of t)) v)]) in *.
    assert (Hl : length (vs ++ t1) = length vs + length c1) by (rewrite app_length; simpl; lia).
    rewrite <- Hl in HM.
    destruct (movs_to orr (map sty_of tr) (length (vs ++ t1))) as [c2 os2] eqn:M2.
    inversion HM; subst c os'; clear HM.
    assert (HL' : length tr = length orr) by (simpl in HL; lia).
    destruct (IH _ _ _ _ _ (Forall2_ok_app _ t1 _ _ Hr) HL' M2) as [t2 [R2 [Ln2 [F2 B2]]]].
    assert (Ln1' : length t1 = length c1) by (simpl; lia).
    destruct (two_runs _ _ _ _ _ R1 Ln1' R2 Ln2) as [R12 L12].
    exists (t1 ++ t2). split; [exact R12|]. split; [exact L12|]. rewrite app_assoc.
    split; [simpl; constructor; [apply ok_app; exact O1|exact F2]|simpl; rewrite B1, B2; reflexivity].
Qed.

Lemma tys_of_map xs : tys_of xs = map sty_of (map snd xs).
Proof. unfold tys_of. rewrite map_map. reflexivity. Qed.

(* binding declared names to values *)
Lemma bind_ok vs : forall xs os vals ce en G,
  env_ok vs ce en G ->
  Forall2 (ok vs) os (norm_all (map snd xs) vals) -> map opnd_bits os = map width (map snd xs) ->
  env_ok vs (cbind_all xs os ce) (bind_all xs vals en) (tbind_all xs G).
Proof.
  induction xs as [|[x t] xr IH]; intros os vals ce en G HE HF HB; simpl.
  - destruct os; exact HE.
  - simpl in HF, HB.
    destruct vals as [|v vr]; inversion HF as [|o v' orr vr' Ho Hr]; subst;
      simpl in HB; injection HB as HB1 HB2.
    + apply IH; [constructor; [exact Ho|exact HB1|exact HE]|exact Hr|exact HB2].
    + apply IH; [constructor; [exact Ho|exact HB1|exact HE]|exact Hr|exact HB2].
Qed.

(* ------------------------------------------------------- scopes *)
Lemma tbind_all_app xs : forall G, exists pre, tbind_all xs G = pre ++ G.
Proof.
  induction xs as [|[x t] xr IH]; intro G; simpl.
  - exists []. reflexivity.
  - destruct (IH ((x, width t) :: G)) as [pre E]. exists (pre ++ [(x, width t)]).
    rewrite E, <- app_assoc. reflexivity.
Qed.

Lemma wt_extends sigs rets : forall s G G', wt_stmt sigs rets G s = Some G' -> exists pre, G' = pre ++ G.
Proof.
  induction s; intros G G' H; simpl in H;
    try (exists []; simpl; congruence).
  - destruct (wt_stmt sigs rets G s1) as [G1|] eqn:E1; [|discriminate].
    destruct (IHs1 _ _ E1) as [p1 ->]. destruct (IHs2 _ _ H) as [p2 ->].
    exists (p2 ++ p1). rewrite app_assoc. reflexivity.
  - destruct (opt_is _ _); [|discriminate]. inversion H; subst. exists [(x, width t)]. reflexivity.
  - destruct (_ && _); [|discriminate]. exists []. simpl. congruence.
  - destruct (wt_expr G e); [|discriminate].
    destruct (_ && _); [|discriminate]. exists []. simpl. congruence.
  - destruct (opt_is _ _); [|discriminate].
    destruct (wt_stmt sigs rets G s1), (wt_stmt sigs rets G s2); try discriminate.
    exists []. simpl. congruence.
  - destruct (wt_stmt sigs rets _ s); [|discriminate]. exists []. simpl. congruence.
  - destruct (wt_exprs _ _ _); [|discriminate]. exists []. simpl. congruence.
  - destruct (sigs f) as [[ps rs]|]; [|discriminate].
    destruct (_ && _); [|discriminate]. inversion H; subst. apply tbind_all_app.
Qed.

Lemma skipn_pre {A} (pre l : list A) : skipn (length (pre ++ l) - length l) (pre ++ l) = l.
Proof.
  rewrite app_length. replace (length pre + length l - length l) with (length pre) by lia.
  rewrite skipn_app, skipn_all, Nat.sub_diag. reflexivity.
Qed.

(* closing a scope on both sides *)
Lemma restore_ok vs ce en G ce1 en1 pre :
  env_ok vs ce en G -> env_ok vs ce1 en1 (pre ++ G) ->
  env_ok vs (crestore (length ce) ce1) (restore (length en) en1) G.
Proof.
  intros HE H1. destruct (env_ok_length _ _ _ _ HE) as [A B].
  destruct (env_ok_length _ _ _ _ H1) as [A1 B1].
  unfold crestore, restore.
  pose proof (env_ok_skipn _ (length (pre ++ G) - length G) _ _ _ H1) as H.
  rewrite skipn_pre in H.
  replace (length ce1 - length ce) with (length (pre ++ G) - length G) by lia.
  replace (length en1 - length en) with (length (pre ++ G) - length G) by lia.
  exact H.
Qed.

(* ------------------------------------------------------------ returns *)
Lemma returns_exec call : forall s en, returns s = true -> exists vals, exec call s en = ORet vals.
Proof.
  induction s; intros en H; simpl in H; try discriminate.
  - simpl. apply orb_prop in H.
    destruct (exec call s1 en) as [e1|vs] eqn:E1; [|eexists; reflexivity].
    destruct H as [H|H].
    + destruct (IHs1 en H) as [v Ev]. congruence.
    + apply IHs2. exact H.
  - simpl. apply andb_prop in H. destruct H as [H1 H2].
    destruct (N.odd (eval c en)).
    + destruct (IHs1 en H1) as [v ->]. eexists; reflexivity.
    + destruct (IHs2 en H2) as [v ->]. eexists; reflexivity.
  - simpl. eexists; reflexivity.
Qed.

(* ------------------------------------------------------------ statements *)
Lemma mov_ok vs o v t c o2 :
  ok vs o v -> mov_to o (sty_of t) (length vs) = (c, o2) ->
  exists tail, run_code c vs = vs ++ tail /\ length tail = length c /\
    ok (vs ++ tail) o2 (norm (width t) v) /\ opnd_bits o2 = width t.
Proof.
  intros [Ho _] E. unfold mov_to in E. apply emit1_run in E. cbv zeta in E.
  rewrite eval_mov, Ho, norm_norm in E. destruct E as [R [O [B L]]].
  eexists. split; [exact R|]. split; [simpl; lia|]. split; [exact O|exact B].
Qed.

Lemma join_ok vs oc bc ce en G ea eb ct e1 pre code oe :
  ok vs oc bc -> env_ok vs ce en G ->
  (if N.odd bc then ea else eb) = Some ct -> env_ok vs ct e1 (pre ++ G) ->
  join true oc ce ea eb (length vs) = (code, oe) ->
  exists tail, run_code code vs = vs ++ tail /\ length tail = length code /\
    exists ce', oe = Some ce' /\ env_ok (vs ++ tail) ce' (restore (length en) e1) G.
Proof.
  intros Hc HE HT H1 HJ. unfold join, close_scope in HJ.
  destruct ea as [e1c|], eb as [e2c|].
  - destruct (merge oc ce (crestore (length ce) e1c) (crestore (length ce) e2c) (length vs))
      as [cm em] eqn:M. inversion HJ; subst code oe; clear HJ.
    assert (HR : env_ok vs (if N.odd bc then crestore (length ce) e1c else crestore (length ce) e2c)
                        (restore (length en) e1) G).
    { destruct (N.odd bc); inversion HT; subst; eapply restore_ok; eassumption. }
    destruct (merge_ok _ _ _ _ _ _ _ _ _ _ _ HE Hc HR M) as [tail [R [L F]]].
    exists tail. split; [exact R|]. split; [exact L|]. exists em. auto.
  - inversion HJ; subst code oe; clear HJ. exists []. rewrite app_nil_r.
    split; [reflexivity|]. split; [reflexivity|].
    destruct (N.odd bc); [|discriminate]. inversion HT; subst.
    eexists. split; [reflexivity|]. eapply restore_ok; eassumption.
  - inversion HJ; subst code oe; clear HJ. exists []. rewrite app_nil_r.
    split; [reflexivity|]. split; [reflexivity|].
    destruct (N.odd bc); [discriminate|]. inversion HT; subst.
    eexists. split; [reflexivity|]. eapply restore_ok; eassumption.
  - destruct (N.odd bc); discriminate.
Qed.

Lemma lower_for_S sc lc i it lo m body ce n :
  lower_stmt sc lc (SFor i it lo (S m) body) ce n =
  match lower_stmt sc lc body
          (declare sc i (OConst (width it) (norm (width it) (N.of_nat lo)) (sty_of it)) ce) n with
  | (c1, None, t1) => (c1, None, t1)
  | (c1, Some e1, t1) =>
      let '(c2, e2, t2) := lower_stmt sc lc (SFor i it (S lo) m body)
                                      (close_scope sc (length ce) e1) (n + length c1) in
      (c1 ++ c2, e2, RThen t1 t2)
  end.
Proof. reflexivity. Qed.

Lemma exec_for_S call i it lo m body en :
  exec call (SFor i it lo (S m) body) en =
  match exec call body ((i, norm (width it) (N.of_nat lo)) :: en) with
  | ONorm e1 => exec call (SFor i it (S lo) m body) (restore (length en) e1)
  | ORet vs => ORet vs
  end.
Proof. reflexivity. Qed.

Lemma widths_are_spec xs : forall rs, widths_are xs rs = true -> map width (map snd xs) = rs.
Proof.
  induction xs as [|[x t] xr IH]; intros [|r rr] H; simpl in H; try discriminate; [reflexivity|].
  apply andb_prop in H. destruct H as [H1 H2]. apply Nat.eqb_eq in H1. simpl.
  rewrite (IH _ H2), H1. reflexivity.
Qed.

Lemma run_chain vs c1 t1 c2 t2 :
  run_code c1 vs = vs ++ t1 -> run_code c2 (vs ++ t1) = (vs ++ t1) ++ t2 ->
  run_code (c1 ++ c2) vs = vs ++ (t1 ++ t2).
Proof. intros R1 R2. rewrite run_code_app, R1, R2, <- app_assoc. reflexivity. Qed.

Section StmtProof.
  Variable call : nat -> list N -> list N.
  Variable lcall : nat -> list opnd -> nat -> list instr * list opnd.
  Variable sigs : nat -> option (list nat * list nat).
  Variable rets : list nat.
  (* the inlined earlier functions are correct *)
  Hypothesis lcall_ok : forall f ps rs os vals vs c ros,
    sigs f = Some (ps, rs) -> Forall2 (ok vs) os vals -> map opnd_bits os = ps ->
    lcall f os (length vs) = (c, ros) ->
    exists tail, run_code c vs = vs ++ tail /\ length tail = length c /\
      Forall2 (ok (vs ++ tail)) ros (call f vals) /\ map opnd_bits ros = rs.

  Definition stmt_post (s : stmt) (en : env) (G' : tenv) (vs' : list sval)
             (oe : option cenv) (t : rtree) : Prop :=
    match exec call s en with
    | ONorm en' => exists ce', oe = Some ce' /\ env_ok vs' ce' en' G' /\ path rets vs' t None
    | ORet vals => path rets vs' t (Some vals)
    end.

  Theorem lower_stmt_ok : forall s ce en G G' vs c oe t,
    env_ok vs ce en G -> wt_stmt sigs rets G s = Some G' ->
    lower_stmt true lcall s ce (length vs) = (c, oe, t) ->
    exists tail, run_code c vs = vs ++ tail /\ length tail = length c /\
      stmt_post s en G' (vs ++ tail) oe t.
  Proof.
    induction s; intros ce en G G' vs c0 oe t0 HE HT HL; unfold stmt_post.
    - (* SSkip *)
      simpl in *. inversion HL; subst. inversion HT; subst. exists []. rewrite app_nil_r.
      simpl. repeat split; auto. eexists. repeat split; eauto. constructor.
    - (* SSeq *)
      simpl in HT. destruct (wt_stmt sigs rets G s1) as [G1|] eqn:T1; [|discriminate].
      simpl in HL.
      destruct (lower_stmt true lcall s1 ce (length vs)) as [[ca oa] ta] eqn:La.
      destruct (IHs1 _ _ _ _ _ _ _ _ HE T1 La) as [t1 [R1 [L1 P1]]]. unfold stmt_post in P1.
      simpl. destruct (exec call s1 en) as [e1|vals] eqn:E1.
      + destruct P1 as [c1 [-> [HE1 Pa]]].
        assert (Hl : length (vs ++ t1) = length vs + length ca) by (rewrite app_length; lia).
        rewrite <- Hl in HL.
        destruct (lower_stmt true lcall s2 c1 (length (vs ++ t1))) as [[cb e2] tb] eqn:Lb.
        inversion HL; subst c0 oe t0; clear HL.
        destruct (IHs2 _ _ _ _ _ _ _ _ HE1 HT Lb) as [t2 [R2 [L2 P2]]]. unfold stmt_post in P2.
        exists (t1 ++ t2). split; [apply run_chain; assumption|].
        split; [rewrite !app_length; lia|]. rewrite app_assoc.
        destruct (exec call s2 e1) as [e2'|vals].
        * destruct P2 as [c2 [-> [HE2 Pb]]]. exists c2. split; [reflexivity|]. split; [exact HE2|].
          apply P_then_fall; [apply path_app; exact Pa|exact Pb].
        * apply P_then_fall; [apply path_app; exact Pa|exact P2].
      + destruct oa as [c1|].
        * assert (Hl : length (vs ++ t1) = length vs + length ca) by (rewrite app_length; lia).
          rewrite <- Hl in HL.
          destruct (lower_stmt true lcall s2 c1 (length (vs ++ t1))) as [[cb e2] tb] eqn:Lb.
          inversion HL; subst c0 oe t0; clear HL.
          destruct (run_code_extends cb (vs ++ t1)) as [t2 [R2 L2]].
          exists (t1 ++ t2). split; [apply run_chain; assumption|].
          split; [rewrite !app_length; lia|]. rewrite app_assoc.
          apply P_then_ret. apply path_app. exact P1.
        * inversion HL; subst c0 oe t0; clear HL. exists t1. auto.
    - (* SDecl *)
      simpl in HT. destruct (opt_is (wt_expr G e) (width t)) eqn:T1; [|discriminate].
      inversion HT; subst G'; clear HT. apply opt_is_true in T1. simpl in HL.
      destruct (lower_expr ce e (length vs)) as [c1 o1] eqn:L1.
      destruct (lower_expr_ok _ _ _ _ _ _ _ _ HE T1 L1) as [t1 [R1 [Ln1 [O1 B1]]]].
      assert (Hl : length (vs ++ t1) = length vs + length c1) by (rewrite app_length; lia).
      rewrite <- Hl in HL.
      destruct (mov_to o1 (sty_of t) (length (vs ++ t1))) as [c2 o2] eqn:M.
      inversion HL; subst c0 oe t0; clear HL.
      destruct (mov_ok _ _ _ _ _ _ O1 M) as [t2 [R2 [Ln2 [O2 B2]]]].
      exists (t1 ++ t2). split; [apply run_chain; assumption|].
      split; [rewrite !app_length; lia|]. rewrite app_assoc. simpl.
      eexists. split; [reflexivity|]. split; [|constructor].
      constructor; [exact O2|exact B2|]. rewrite <- app_assoc. apply env_ok_app. exact HE.
    - (* SAssign *)
      simpl in HT. destruct (opt_is (tlookup x G) (width t)) eqn:Tx; [|discriminate].
      destruct (opt_is (wt_expr G e) (width t)) eqn:T1; [|discriminate].
      inversion HT; subst G'; clear HT. apply opt_is_true in T1. apply opt_is_true in Tx.
      simpl in HL.
      destruct (lower_expr ce e (length vs)) as [c1 o1] eqn:L1.
      destruct (lower_expr_ok _ _ _ _ _ _ _ _ HE T1 L1) as [t1 [R1 [Ln1 [O1 B1]]]].
      assert (Hl : length (vs ++ t1) = length vs + length c1) by (rewrite app_length; lia).
      rewrite <- Hl in HL.
      destruct (mov_to o1 (sty_of t) (length (vs ++ t1))) as [c2 o2] eqn:M.
      inversion HL; subst c0 oe t0; clear HL.
      destruct (mov_ok _ _ _ _ _ _ O1 M) as [t2 [R2 [Ln2 [O2 B2]]]].
      exists (t1 ++ t2). split; [apply run_chain; assumption|].
      split; [rewrite !app_length; lia|]. rewrite app_assoc. simpl.
      eexists. split; [reflexivity|]. split; [|constructor].
      apply env_ok_update with (w := width t); [|exact Tx|exact O2|exact B2].
      rewrite <- app_assoc. apply env_ok_app. exact HE.
    - (* SStore *)
      simpl in HT. destruct (wt_expr G e) as [we|] eqn:T1; [|discriminate].
      destruct (opt_is (tlookup x G) tw) eqn:Tx; [|discriminate].
      simpl in HT. destruct (Nat.leb (off + w) tw); [|discriminate].
      inversion HT; subst G'; clear HT. apply opt_is_true in Tx.
      simpl in HL.
      destruct (lower_expr ce e (length vs)) as [c1 o1] eqn:L1.
      destruct (lower_expr_ok _ _ _ _ _ _ _ _ HE T1 L1) as [t1 [R1 [Ln1 [O1 B1]]]].
      destruct (emit1 _ _ _ _ _) as [c2 o2] eqn:Ei in HL.
      inversion HL; subst c0 oe t0; clear HL.
      destruct (env_ok_lookup _ _ _ _ _ _ (env_ok_app _ t1 _ _ _ HE) Tx) as [[Ox _] Bx].
      destruct (emit_after _ _ _ _ _ _ _ _ _
                  (store_sem tw off w (lookup x en) (eval e en)) R1 Ln1 Ei)
        as [tail [Q1 [Q2 [Q3 Q4]]]].
      { rewrite eval_amov, !opnd_const_kconst. destruct O1 as [O1 _]. rewrite O1, Ox.
        replace (off + w - off) with w by lia. simpl. unfold store_sem. apply norm_norm. }
      exists tail. split; [exact Q1|]. split; [exact Q2|]. simpl.
      eexists. split; [reflexivity|]. split; [|constructor].
      apply env_ok_update with (w := tw); [apply env_ok_app; exact HE|exact Tx|exact Q3|exact Q4].
    - (* SIf *)
      simpl in HT. destruct (opt_is (wt_expr G c) 1) eqn:Tc; [|discriminate].
      destruct (wt_stmt sigs rets G s1) as [Ga|] eqn:Ta; [|discriminate].
      destruct (wt_stmt sigs rets G s2) as [Gb|] eqn:Tb; [|discriminate].
      inversion HT; subst G'; clear HT. apply opt_is_true in Tc.
      destruct (wt_extends _ _ _ _ _ Ta) as [prea Ea]. destruct (wt_extends _ _ _ _ _ Tb) as [preb Eb].
      subst Ga Gb. simpl in HL.
      destruct (lower_expr ce c (length vs)) as [cc oc] eqn:Lc.
      destruct (lower_expr_ok _ _ _ _ _ _ _ _ HE Tc Lc) as [t0' [R0 [Ln0 [Oc _]]]].
      assert (Hl0 : length (vs ++ t0') = length vs + length cc) by (rewrite app_length; lia).
      rewrite <- Hl0 in HL.
      destruct (lower_stmt true lcall s1 ce (length (vs ++ t0'))) as [[ca ea] ta] eqn:La.
      pose proof (env_ok_app _ t0' _ _ _ HE) as HE0.
      destruct (IHs1 _ _ _ _ _ _ _ _ HE0 Ta La) as [t1 [R1 [Ln1 P1]]]. unfold stmt_post in P1.
      assert (Hl1 : length ((vs ++ t0') ++ t1) = length (vs ++ t0') + length ca)
        by (rewrite app_length; lia).
      rewrite <- Hl1 in HL.
      destruct (lower_stmt true lcall s2 ce (length ((vs ++ t0') ++ t1))) as [[cb eb] tb] eqn:Lb.
      pose proof (env_ok_app _ t1 _ _ _ HE0) as HE1.
      destruct (IHs2 _ _ _ _ _ _ _ _ HE1 Tb Lb) as [t2 [R2 [Ln2 P2]]]. unfold stmt_post in P2.
      assert (Hl2 : length (((vs ++ t0') ++ t1) ++ t2) = length ((vs ++ t0') ++ t1) + length cb)
        by (rewrite app_length; lia).
      rewrite <- Hl2 in HL.
      destruct (join true oc ce ea eb (length (((vs ++ t0') ++ t1) ++ t2))) as [cm oe'] eqn:J.
      inversion HL; subst c0 oe t0; clear HL.
      pose proof (env_ok_app _ t2 _ _ _ HE1) as HE2.
      assert (Oc2 : ok (((vs ++ t0') ++ t1) ++ t2) oc (eval c en)) by (do 2 apply ok_app; exact Oc).
      (* the code before the join *)
      assert (R012 : run_code (cc ++ ca ++ cb) vs = ((vs ++ t0') ++ t1) ++ t2).
      { rewrite !run_code_app, R0, R1, R2. reflexivity. }
      assert (Fin : forall t3, run_code cm (((vs ++ t0') ++ t1) ++ t2) = (((vs ++ t0') ++ t1) ++ t2) ++ t3 ->
                length t3 = length cm ->
                run_code (cc ++ ca ++ cb ++ cm) vs = vs ++ (t0' ++ t1 ++ t2 ++ t3) /\
                length (t0' ++ t1 ++ t2 ++ t3) = length (cc ++ ca ++ cb ++ cm) /\
                vs ++ (t0' ++ t1 ++ t2 ++ t3) = (((vs ++ t0') ++ t1) ++ t2) ++ t3).
      { intros t3 R3 L3.
        assert (A : vs ++ (t0' ++ t1 ++ t2 ++ t3) = (((vs ++ t0') ++ t1) ++ t2) ++ t3)
          by (rewrite !app_assoc; reflexivity).
        split; [|split; [rewrite !app_length; lia|exact A]].
        rewrite A, <- R3, <- R012, <- !run_code_app, <- !app_assoc. reflexivity. }
      simpl. destruct (N.odd (eval c en)) eqn:Ob.
      + (* then-branch *)
        destruct (exec call s1 en) as [e1|vals] eqn:E1.
        * destruct P1 as [ce1 [-> [HEa Pa]]].
          assert (HTk : (if N.odd (eval c en) then Some ce1 else eb) = Some ce1) by (rewrite Ob; reflexivity).
          destruct (join_ok _ _ _ _ _ _ _ _ _ _ _ _ _ Oc2 HE2 HTk (env_ok_app _ t2 _ _ _ HEa) J)
            as [t3 [R3 [L3 [ce' [-> HEr]]]]].
          destruct (Fin t3 R3 L3) as [F1 [F2 F3]].
          eexists. split; [exact F1|]. split; [exact F2|]. rewrite F3.
          exists ce'. split; [reflexivity|]. split; [exact HEr|].
          apply P_if with (bc := eval c en); [apply ok_app; exact Oc2|].
          rewrite Ob. do 2 apply path_app. exact Pa.
        * destruct (run_code_extends cm (((vs ++ t0') ++ t1) ++ t2)) as [t3 [R3 L3]].
          destruct (Fin t3 R3 L3) as [F1 [F2 F3]].
          eexists. split; [exact F1|]. split; [exact F2|]. rewrite F3.
          apply P_if with (bc := eval c en); [apply ok_app; exact Oc2|].
          rewrite Ob. do 2 apply path_app. exact P1.
      + (* else-branch *)
        destruct (exec call s2 en) as [e1|vals] eqn:E2.
        * destruct P2 as [ce2 [-> [HEb Pb]]].
          assert (HTk : (if N.odd (eval c en) then ea else Some ce2) = Some ce2) by (rewrite Ob; reflexivity).
          destruct (join_ok _ _ _ _ _ _ _ _ _ _ _ _ _ Oc2 HE2 HTk HEb J)
            as [t3 [R3 [L3 [ce' [-> HEr]]]]].
          destruct (Fin t3 R3 L3) as [F1 [F2 F3]].
          eexists. split; [exact F1|]. split; [exact F2|]. rewrite F3.
          exists ce'. split; [reflexivity|]. split; [exact HEr|].
          apply P_if with (bc := eval c en); [apply ok_app; exact Oc2|].
          rewrite Ob. apply path_app. exact Pb.
        * destruct (run_code_extends cm (((vs ++ t0') ++ t1) ++ t2)) as [t3 [R3 L3]].
          destruct (Fin t3 R3 L3) as [F1 [F2 F3]].
          eexists. split; [exact F1|]. split; [exact F2|]. rewrite F3.
          apply P_if with (bc := eval c en); [apply ok_app; exact Oc2|].
          rewrite Ob. apply path_app. exact P2.
    - (* SFor *)
      simpl in HT. destruct (wt_stmt sigs rets ((i, width it) :: G) s) as [Gb|] eqn:Tb; [|discriminate].
      inversion HT; subst G'; clear HT.
      destruct (wt_extends _ _ _ _ _ Tb) as [pre Eb]. subst Gb.
      revert lo ce en vs c0 oe t0 HE HL.
      induction cnt as [|m IHm]; intros lo ce en vs c0 oe t0 HE HL.
      + simpl in HL. inversion HL; subst. exists []. rewrite app_nil_r. simpl.
        repeat split; auto. eexists. repeat split; eauto. constructor.
      + rewrite lower_for_S in HL. rewrite exec_for_S.
        set (ki := OConst (width it) (norm (width it) (N.of_nat lo)) (sty_of it)) in *.
        assert (HEi : env_ok vs (declare true i ki ce)
                             ((i, norm (width it) (N.of_nat lo)) :: en) ((i, width it) :: G)).
        { unfold declare. constructor; [|reflexivity|exact HE].
          split; [|exact I]. unfold ki, opnd_val, sty_of. rewrite resize_same. apply norm_norm. }
        destruct (lower_stmt true lcall s (declare true i ki ce) (length vs)) as [[c1 o1] t1] eqn:Lb.
        destruct (IHs _ _ _ _ _ _ _ _ HEi Tb Lb) as [tl1 [R1 [Ln1 P1]]]. unfold stmt_post in P1.
        destruct (exec call s ((i, norm (width it) (N.of_nat lo)) :: en)) as [e1|vals] eqn:E1.
        * destruct P1 as [ce1 [-> [HE1 Pa]]].
          assert (Hl : length (vs ++ tl1) = length vs + length c1) by (rewrite app_length; lia).
          rewrite <- Hl in HL.
          destruct (lower_stmt true lcall (SFor i it (S lo) m s)
                      (close_scope true (length ce) ce1) (length (vs ++ tl1))) as [[c2 e2] t2] eqn:L2.
          inversion HL; subst c0 oe t0; clear HL.
          assert (HEr : env_ok (vs ++ tl1) (close_scope true (length ce) ce1)
                               (restore (length en) e1) G).
          { unfold close_scope.
            assert (HEc : env_ok (vs ++ tl1) ((i, ki) :: ce)
                                 ((i, norm (width it) (N.of_nat lo)) :: en) ((i, width it) :: G))
              by (apply env_ok_app; exact HEi).
            apply (restore_ok (vs ++ tl1) ce en G ce1 e1 (pre ++ [(i, width it)])
                              (env_ok_app _ tl1 _ _ _ HE)).
            rewrite <- app_assoc. exact HE1. }
          destruct (IHm _ _ _ _ _ _ _ HEr L2) as [tl2 [R2 [Ln2 P2]]].
          exists (tl1 ++ tl2). split; [apply run_chain; assumption|].
          split; [rewrite !app_length; lia|]. rewrite app_assoc.
          destruct (exec call (SFor i it (S lo) m s) (restore (length en) e1)) as [e2'|vals].
          -- destruct P2 as [c2' [-> [HE2 Pb]]]. exists c2'. split; [reflexivity|]. split; [exact HE2|].
             apply P_then_fall; [apply path_app; exact Pa|exact Pb].
          -- apply P_then_fall; [apply path_app; exact Pa|exact P2].
        * destruct o1 as [ce1|].
          -- assert (Hl : length (vs ++ tl1) = length vs + length c1) by (rewrite app_length; lia).
             rewrite <- Hl in HL.
             destruct (lower_stmt true lcall (SFor i it (S lo) m s)
                         (close_scope true (length ce) ce1) (length (vs ++ tl1))) as [[c2 e2] t2] eqn:L2.
             inversion HL; subst c0 oe t0; clear HL.
             destruct (run_code_extends c2 (vs ++ tl1)) as [tl2 [R2 Ln2]].
             exists (tl1 ++ tl2). split; [apply run_chain; assumption|].
             split; [rewrite !app_length; lia|]. rewrite app_assoc.
             apply P_then_ret. apply path_app. exact P1.
          -- inversion HL; subst c0 oe t0; clear HL. exists tl1. auto.
    - (* SReturn *)
      simpl in HT. destruct (wt_exprs G es rets) eqn:T1; [|discriminate].
      inversion HT; subst G'; clear HT. simpl in HL.
      destruct (lower_exprs ce es (length vs)) as [c1 os] eqn:L1.
      inversion HL; subst c0 oe t0; clear HL.
      destruct (lower_exprs_ok _ _ _ _ _ _ _ _ HE T1 L1) as [t1 [R1 [Ln1 [F1 B1]]]].
      exists t1. split; [exact R1|]. split; [exact Ln1|]. simpl. constructor; assumption.
    - (* SCall *)
      simpl in HT. destruct (sigs f) as [[ps rs]|] eqn:Sf; [|discriminate].
      destruct (wt_exprs G args ps) eqn:T1; [|discriminate].
      destruct (widths_are xs rs) eqn:T2; [|discriminate].
      inversion HT; subst G'; clear HT. simpl in HL.
      destruct (lower_exprs ce args (length vs)) as [c1 os] eqn:L1.
      destruct (lower_exprs_ok _ _ _ _ _ _ _ _ HE T1 L1) as [t1 [R1 [Ln1 [F1 B1]]]].
      assert (Hl1 : length (vs ++ t1) = length vs + length c1) by (rewrite app_length; lia).
      rewrite <- Hl1 in HL.
      destruct (lcall f os (length (vs ++ t1))) as [c2 rs'] eqn:L2.
      destruct (lcall_ok _ _ _ _ _ _ _ _ Sf F1 B1 L2) as [t2 [R2 [Ln2 [F2 B2]]]].
      assert (Hl2 : length ((vs ++ t1) ++ t2) = length (vs ++ t1) + length c2) by (rewrite app_length; lia).
      rewrite <- Hl2 in HL. rewrite tys_of_map in HL.
      destruct (movs_to rs' (map sty_of (map snd xs)) (length ((vs ++ t1) ++ t2))) as [c3 vs3] eqn:M3.
      inversion HL; subst c0 oe t0; clear HL.
      pose proof (widths_are_spec _ _ T2) as W.
      assert (Hlen : length (map snd xs) = length rs').
      { rewrite <- (map_length width), W, <- B2, map_length. reflexivity. }
      destruct (movs_ok _ _ _ _ _ _ F2 Hlen M3) as [t3 [R3 [Ln3 [F3 B3]]]].
      exists (t1 ++ t2 ++ t3).
      assert (A : vs ++ (t1 ++ t2 ++ t3) = ((vs ++ t1) ++ t2) ++ t3) by (rewrite !app_assoc; reflexivity).
      split; [rewrite A, <- R3, <- R2, <- R1, <- !run_code_app; reflexivity|].
      split; [rewrite !app_length; lia|]. rewrite A. simpl.
      eexists. split; [reflexivity|]. split; [|constructor].
      apply bind_ok; [do 3 apply env_ok_app; exact HE|exact F3|exact B3].
  Qed.
End StmtProof.

(* ------------------------------------------------------------- functions *)
Lemma map_s_bits_sty_of ts : map s_bits (map sty_of ts) = map width ts.
Proof. rewrite map_map. reflexivity. Qed.

Lemma Forall2_length_ok vs os vals : Forall2 (ok vs) os vals -> length os = length vals.
Proof. induction 1; simpl; congruence. Qed.

Section FuncProof.
  Variable call : nat -> list N -> list N.
  Variable lcall : nat -> list opnd -> nat -> list instr * list opnd.
  Variable sigs : nat -> option (list nat * list nat).
  Hypothesis lcall_ok : forall f ps rs os vals vs c ros,
    sigs f = Some (ps, rs) -> Forall2 (ok vs) os vals -> map opnd_bits os = ps ->
    lcall f os (length vs) = (c, ros) ->
    exists tail, run_code c vs = vs ++ tail /\ length tail = length c /\
      Forall2 (ok (vs ++ tail)) ros (call f vals) /\ map opnd_bits ros = rs.

  Lemma lower_func_ok f args vals vs c outs :
    typed_func sigs f = true ->
    Forall2 (ok vs) args vals -> length args = length (f_params f) ->
    lower_func true lcall f args (length vs) = (c, outs) ->
    exists tail, run_code c vs = vs ++ tail /\ length tail = length c /\
      Forall2 (ok (vs ++ tail)) outs (run_func call f vals) /\
      map opnd_bits outs = map width (f_rets f).
  Proof.
    intros HT HF HLn HL. unfold typed_func in HT.
    destruct (wt_stmt sigs (map width (f_rets f)) (tbind_all (f_params f) []) (f_body f))
      as [G'|] eqn:W; [|discriminate].
    unfold lower_func in HL. rewrite tys_of_map in HL.
    destruct (movs_to args (map sty_of (map snd (f_params f))) (length vs)) as [c1 ps] eqn:M1.
    assert (Hl0 : length (map snd (f_params f)) = length args) by (rewrite map_length; lia).
    destruct (movs_ok _ _ _ _ _ _ HF Hl0 M1) as [t1 [R1 [L1 [F1 B1]]]].
    assert (Hl1 : length (vs ++ t1) = length vs + length c1) by (rewrite app_length; lia).
    rewrite <- Hl1 in HL.
    destruct (lower_stmt true lcall (f_body f) (cbind_all (f_params f) ps []) (length (vs ++ t1)))
      as [[c2 oe] t] eqn:L2.
    assert (HE : env_ok (vs ++ t1) (cbind_all (f_params f) ps []) (bind_all (f_params f) vals [])
                        (tbind_all (f_params f) [])).
    { apply bind_ok; [constructor|exact F1|exact B1]. }
    destruct (lower_stmt_ok call lcall sigs (map width (f_rets f)) lcall_ok _ _ _ _ _ _ _ _ _ HE W L2)
      as [t2 [R2 [Ln2 P2]]].
    unfold stmt_post in P2.
    destruct (returns_exec call _ (bind_all (f_params f) vals []) HT) as [rv Erv].
    rewrite Erv in P2.
    assert (Hl2 : length ((vs ++ t1) ++ t2) = length (vs ++ t1) + length c2) by (rewrite app_length; lia).
    rewrite <- Hl2 in HL.
    destruct (resolve (map sty_of (f_rets f)) t [] (length ((vs ++ t1) ++ t2))) as [c3 rs] eqn:R3e.
    rewrite <- map_s_bits_sty_of in P2.
    assert (HK : Some rv = None -> Forall2 (ok ((vs ++ t1) ++ t2)) [] (@nil N) /\
                 map opnd_bits [] = map s_bits (map sty_of (f_rets f))) by discriminate.
    destruct (resolve_ok _ _ _ _ _ _ _ _ P2 HK R3e) as [t3 [R3 [Ln3 [F3 B3]]]].
    assert (Hl3 : length (((vs ++ t1) ++ t2) ++ t3) = length ((vs ++ t1) ++ t2) + length c3)
      by (rewrite app_length; lia).
    rewrite <- Hl3 in HL.
    destruct (movs_to rs (map sty_of (f_rets f)) (length (((vs ++ t1) ++ t2) ++ t3))) as [c4 os4] eqn:M4.
    inversion HL; subst c outs; clear HL.
    assert (Hlen : length (f_rets f) = length rs).
    { rewrite <- (map_length opnd_bits rs), B3, !map_length. reflexivity. }
    destruct (movs_ok _ _ _ _ _ _ F3 Hlen M4) as [t4 [R4 [Ln4 [F4 B4]]]].
    exists (t1 ++ t2 ++ t3 ++ t4).
    assert (A : vs ++ (t1 ++ t2 ++ t3 ++ t4) = (((vs ++ t1) ++ t2) ++ t3) ++ t4)
      by (rewrite !app_assoc; reflexivity).
    split; [rewrite A, <- R4, <- R3, <- R2, <- R1, <- !run_code_app; reflexivity|].
    split; [rewrite !app_length; lia|]. rewrite A.
    split; [|exact B4]. unfold run_func. rewrite Erv. exact F4.
  Qed.
End FuncProof.

(* --------------------------------------------------------------- programs *)
Lemma mk_lcall_ok : forall rfs, typed_funcs rfs = true ->
  forall f ps rs os vals vs c ros,
    sig_of rfs f = Some (ps, rs) -> Forall2 (ok vs) os vals -> map opnd_bits os = ps ->
    mk_lcall true rfs f os (length vs) = (c, ros) ->
    exists tail, run_code c vs = vs ++ tail /\ length tail = length c /\
      Forall2 (ok (vs ++ tail)) ros (mk_call rfs f vals) /\ map opnd_bits ros = rs.
Proof.
  induction rfs as [|f0 rest IH]; intros HT f ps rs os vals vs c ros HS HF HB HL; simpl in *.
  - discriminate.
  - apply andb_prop in HT. destruct HT as [HT0 HTr].
    destruct (Nat.eqb f (length rest)).
    + unfold sig_of_func in HS. injection HS as HS1 HS2.
      assert (HLn : length os = length (f_params f0)).
      { rewrite <- (map_length opnd_bits os), HB, <- HS1, map_length. reflexivity. }
      destruct (lower_func_ok (mk_call rest) (mk_lcall true rest) (sig_of rest) (IH HTr)
                              f0 os vals vs c ros HT0 HF HLn HL) as [tail [R [L [F B]]]].
      exists tail. rewrite <- HS2. auto.
    + eapply IH; eassumption.
Qed.

Lemma init_vals_length ws : forall inp, length (init_vals ws inp) = length ws.
Proof. induction ws; intros [|v vr]; simpl; auto. Qed.

Fixpoint inputs_norm (ps : list (nat * ty)) (inp : list N) : list N :=
  match ps with
  | [] => []
  | (_, t) :: r => match inp with
                   | v :: vr => norm (width t) v :: inputs_norm r vr
                   | [] => 0%N :: inputs_norm r []
                   end
  end.

Lemma input_opnds_ok : forall ps inp pre,
  Forall2 (ok (pre ++ init_vals (map (fun q => width (snd q)) ps) inp))
          (input_opnds ps (length pre)) (inputs_norm ps inp).
Proof.
  induction ps as [|[x t] pr IH]; intros inp pre; simpl; [constructor|].
  assert (S1 : forall v rest, ok (pre ++ (width t, v) :: rest) (OVar (length pre) (sty_of t)) (norm (width t) v)).
  { intros v rest. split; [|simpl; rewrite app_length; simpl; lia].
    simpl. rewrite nth_middle. unfold sty_of. apply resize_same. }
  destruct inp as [|v vr].
  - constructor.
    + rewrite <- (norm_0 (width t)) at 2. apply S1.
    + specialize (IH [] (pre ++ [(width t, 0%N)])). rewrite <- app_assoc in IH.
      rewrite app_length in IH. simpl in IH. rewrite Nat.add_1_r in IH. exact IH.
  - constructor.
    + match goal with |- ok (pre ++ _ :: ?rest) _ _ =>
        pose proof (S1 (norm (width t) v) rest) as H1 end.
      rewrite norm_norm in H1. exact H1.
    + specialize (IH vr (pre ++ [(width t, norm (width t) v)])). rewrite <- app_assoc in IH.
      rewrite app_length in IH. simpl in IH. rewrite Nat.add_1_r in IH. exact IH.
Qed.

Lemma bind_all_norm : forall ps inp en, bind_all ps (inputs_norm ps inp) en = bind_all ps inp en.
Proof.
  induction ps as [|[x t] pr IH]; intros inp en; simpl; [destruct inp; reflexivity|].
  destruct inp as [|v vr]; simpl.
  - rewrite norm_0. apply IH.
  - rewrite norm_norm. apply IH.
Qed.

Lemma Forall2_ok_map vs os vals : Forall2 (ok vs) os vals -> map (opnd_val vs) os = vals.
Proof. induction 1 as [|o v orr vr [Ho _] _ IH]; simpl; [reflexivity|]. rewrite Ho, IH. reflexivity. Qed.

Lemma input_opnds_length ps : forall i, length (input_opnds ps i) = length ps.
Proof. induction ps as [|[x t] pr IH]; intro i; simpl; auto. Qed.

(* The lowering scheme implements the reference semantics: for every typed
   program and every input vector, evaluating the lowered SSA program gives
   the outputs of the reference interpreter. *)
Theorem lower_correct : forall p inp, typed p -> eval_ssa (lower p) inp = exec_mini p inp.
Proof.
  intros p inp [HT _]. unfold lower, lower_gen, exec_mini.
  destruct (rev p) as [|main rest]; [reflexivity|].
  simpl in HT. apply andb_prop in HT. destruct HT as [HT0 HTr].
  set (ws := map (fun q => width (snd q)) (f_params main)).
  set (vs0 := init_vals ws inp).
  assert (Hl : length ws = length vs0) by (unfold vs0; rewrite init_vals_length; reflexivity).
  rewrite Hl.
  destruct (lower_func true (mk_lcall true rest) main (input_opnds (f_params main) 0) (length vs0))
    as [code outs] eqn:LF.
  pose proof (input_opnds_ok (f_params main) inp []) as HI. simpl in HI. fold ws in HI. fold vs0 in HI.
  assert (HLn : length (input_opnds (f_params main) 0) = length (f_params main))
    by apply input_opnds_length.
  destruct (lower_func_ok (mk_call rest) (mk_lcall true rest) (sig_of rest) (mk_lcall_ok rest HTr)
                          main _ _ vs0 code outs HT0 HI HLn LF) as [tail [R [L [F B]]]].
  unfold eval_ssa. simpl. fold vs0. rewrite R.
  rewrite (Forall2_ok_map _ _ _ F). unfold run_func. rewrite bind_all_norm. reflexivity.
Qed.

(* The compiler's actual binding discipline — one flat scope per function,
   nothing dropped at the end of a block (lower_flat) — does NOT implement the
   reference semantics: a declaration in a nested block that re-uses the name
   of an outer variable overwrites the outer variable.
     func main(a, b int8) int8 { x := a; if a < b { var x int8 = b }; return x }
   on a = 1, b = 5 gives 5 instead of 1. *)
Definition shadow_witness : prog :=
  [mkFunc [(0, TInt 8); (1, TInt 8)] [TInt 8]
     (SSeq (SDecl 2 (TInt 8) (EVar 0))
     (SSeq (SIf (EBin Lt (TInt 8) (EVar 0) (EVar 1))
                (SSeq (SDecl 2 (TInt 8) (EVar 1)) SSkip)
                SSkip)
     (SSeq (SReturn [EVar 2]) SSkip)))].

Lemma shadow_witness_typed : typed shadow_witness.
Proof. split; [vm_compute; reflexivity|discriminate]. Qed.

Lemma lower_flat_refuted :
  exists p inp, typed p /\ eval_ssa (lower_flat p) inp <> exec_mini p inp.
Proof.
  exists shadow_witness, [1%N; 5%N]. split; [exact shadow_witness_typed|].
  vm_compute. discriminate.
Qed.

(* non-vacuity: the scheme on the same program and input *)
Example lower_shadow_example :
  eval_ssa (lower shadow_witness) [1%N; 5%N] = [1%N] /\ exec_mini shadow_witness [1%N; 5%N] = [1%N]
  /\ eval_ssa (lower_flat shadow_witness) [1%N; 5%N] = [5%N].
Proof. vm_compute. auto. Qed.

(* Finding C03-F2 at the level of one instruction: the compiler leaves a
   literal operand in its 32-bit container, Program.Circuit zero-pads the
   narrower run-time operand: igt a{i8} $5{i32} on a = -1 answers true. *)
Example literal_container_witness :
  eval_ssa (mkSprog [8] [mkInstr Oigt [OVar 0 (mkSty true 8); OConst 32 5 (mkSty true 32)] (mkSty false 1) 0]
                    [OVar 1 (mkSty false 1)]) [255%N] = [1%N]
  /\ exec_mini [mkFunc [(0, TInt 8)] [TBool] (SReturn [EBin Gt (TInt 8) (EVar 0) (ELit (TInt 8) 5)])] [255%N] = [0%N].
Proof. vm_compute. auto. Qed.

(* every typed statement of the statement-level theorem, for the record:
   [lower_stmt_ok] (all nine statement forms, loops by induction on the
   iteration count, calls through the hypothesis discharged in [mk_lcall_ok]). *)

(* ------------------------------------------------ amov: the frame property *)
(* A store (amov v arr $from $to: arr[from:to] = v) takes only the low
   to-from bits of the value, however many wires the value has (a literal in
   its 32/64-bit container, a longer source array of copy()), and leaves every
   bit of the array operand outside [from,to) as it was. *)
Lemma pow2_add a b : pow2 (a + b) = (pow2 a * pow2 b)%N.
Proof. unfold pow2. rewrite Nat2N.inj_add. apply N.pow_add_r. Qed.

Lemma store_sem_parts tw off w a v : off + w <= tw ->
  let r := store_sem tw off w a v in
  norm off r = norm off (norm tw a) /\
  (r / pow2 (off + w) = norm tw a / pow2 (off + w))%N /\
  slice_sem off w r = norm w v.
Proof.
  intros Hle r. unfold r, store_sem, slice_sem.
  set (a' := norm tw a). set (lo := norm off a'). set (m := norm w v).
  set (hi := (a' / pow2 (off + w))%N).
  assert (Ha : (a' < pow2 tw)%N) by apply norm_lt.
  assert (Hlo : (lo < pow2 off)%N) by apply norm_lt.
  assert (Hm : (m < pow2 w)%N) by apply norm_lt.
  pose proof (pow2_nz off) as Zo. pose proof (pow2_nz w) as Zw. pose proof (pow2_nz (off + w)) as Zow.
  assert (Esplit : pow2 tw = (pow2 (off + w) * pow2 (tw - (off + w)))%N).
  { rewrite <- pow2_add. f_equal. lia. }
  assert (Hhi : (hi < pow2 (tw - (off + w)))%N).
  { unfold hi. apply N.div_lt_upper_bound; [exact Zow|]. rewrite <- Esplit. exact Ha. }
  assert (Elow : (lo + m * pow2 off < pow2 (off + w))%N) by (rewrite pow2_add; nia).
  assert (HX : (lo + m * pow2 off + hi * pow2 (off + w) < pow2 tw)%N) by (rewrite Esplit; nia).
  rewrite (norm_small tw) by exact HX.
  split; [|split].
  - unfold norm at 1.
    replace (lo + m * pow2 off + hi * pow2 (off + w))%N
      with (lo + (m + hi * pow2 w) * pow2 off)%N by (rewrite pow2_add; ring).
    rewrite N.mod_add by exact Zo. apply N.mod_small. exact Hlo.
  - rewrite N.div_add by exact Zow. rewrite N.div_small by exact Elow. reflexivity.
  - replace (lo + m * pow2 off + hi * pow2 (off + w))%N
      with (lo + (m + hi * pow2 w) * pow2 off)%N by (rewrite pow2_add; ring).
    rewrite N.div_add by exact Zo. rewrite (N.div_small lo) by exact Hlo. rewrite N.add_0_l.
    unfold norm at 1. rewrite N.mod_add by exact Zw. apply N.mod_small. exact Hm.
Qed.

Lemma store_sem_frame tw off w a v i : off + w <= tw ->
  (i < N.of_nat off \/ N.of_nat (off + w) <= i)%N ->
  N.testbit (store_sem tw off w a v) i = N.testbit (norm tw a) i.
Proof.
  intros Hle Hi. destruct (store_sem_parts tw off w a v Hle) as [P1 [P2 _]].
  destruct Hi as [Hi|Hi].
  - rewrite <- (N.mod_pow2_bits_low (store_sem tw off w a v) (N.of_nat off) i Hi).
    rewrite <- (N.mod_pow2_bits_low (norm tw a) (N.of_nat off) i Hi).
    f_equal. exact P1.
  - replace i with (i - N.of_nat (off + w) + N.of_nat (off + w))%N by (apply N.sub_add; exact Hi).
    rewrite <- !N.div_pow2_bits. f_equal. exact P2.
Qed.

(* the same for the instruction as the compiler emits it *)
Lemma amov_instr_frame vs ov oa from to out aux i :
  from <= to -> to <= s_bits out ->
  (i < N.of_nat from \/ N.of_nat to <= i)%N ->
  N.testbit (eval_instr vs (mkInstr Oamov [ov; oa; kconst from; kconst to] out aux)) i
  = N.testbit (norm (s_bits out) (opnd_val vs oa)) i.
Proof.
  intros H1 H2 Hi. rewrite eval_amov, !opnd_const_kconst.
  apply store_sem_frame; [lia|]. replace (from + (to - from)) with to by lia. exact Hi.
Qed.

(* ... and the stored slot holds the low to-from bits of the value *)
Lemma amov_instr_slot vs ov oa from to out aux :
  from <= to -> to <= s_bits out ->
  slice_sem from (to - from) (eval_instr vs (mkInstr Oamov [ov; oa; kconst from; kconst to] out aux))
  = norm (to - from) (opnd_val vs ov).
Proof.
  intros H1 H2. rewrite eval_amov, !opnd_const_kconst.
  apply store_sem_parts. lia.
Qed.
