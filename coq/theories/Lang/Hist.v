(* Hist.v — C08, histories: everything that survives between two compilations
   in one process is the configuration object (a pointer to utils.Params, shared between
   Compiler instances by its users, e.g. the evaluator loop of apps/garbled) and
   the Compiler object.  A compilation is a step
        step : params -> compiler state -> source -> params * compiler state * output
   and a history is a list of sources compiled before the one of interest.
   No proofs here (Lang/HistProof.v).

   Go code mirrored by the concrete instance at the end:
     compiler/circuits/circ_multiplier.go NewMultiplier: the array-multiplier
       threshold for operand width w is Params.CircMultArrayTreshold when that is
       set (>= 8), else the per-width tuning table multiplierArrayTresholds
       (regenerated: Gen/Thresholds.v), else 21;
     compiler/utils/params.go: Params is only READ during a compilation
       (inventory Gen/MapSites.param_writes; harness snapshot of the exported
       fields before/after every compilation). *)
From Coq Require Import List Arith Bool.
From Mpc Require Import Gen.Thresholds.
Import ListNotations.

Section Generic.
  Variables (P S X O : Type).
  Variable step : P -> S -> X -> P * S * O.

  Definition out_of (r : P * S * O) : O := snd r.
  Definition params_of (r : P * S * O) : P := fst (fst r).
  Definition state_of (r : P * S * O) : S := snd (fst r).

  (* run a history, return the params and compiler state it leaves behind *)
  Fixpoint run (hist : list X) (p : P) (s : S) : P * S :=
    match hist with
    | [] => (p, s)
    | x :: t => let r := step p s x in run t (params_of r) (state_of r)
    end.

  (* output of compiling x after the history, with the same params object and
     (same_compiler = true) the same Compiler or (false) a new one in state s0 *)
  Definition after (same_compiler : bool) (s0 : S) (hist : list X) (p : P) (x : X) : O :=
    let ps := run hist p s0 in
    out_of (step (fst ps) (if same_compiler then snd ps else s0) x).

  Definition fresh (s0 : S) (p : P) (x : X) : O := out_of (step p s0 x).

  (* the two hypotheses of history independence *)
  Definition params_readonly : Prop := forall p s x, params_of (step p s x) = p.
  Definition state_irrelevant : Prop := forall p s s' x, out_of (step p s x) = out_of (step p s' x).
End Generic.

(* ---- the multiplier threshold selection ---- *)

Record params : Type := mkParams {
  prm_mult_threshold : nat   (* Params.CircMultArrayTreshold; < 8 = unset *)
}.

Definition table_threshold (w : nat) : option nat :=
  match find (fun e => Nat.eqb (fst e) w) multiplierArrayTresholds with
  | Some e => Some (snd e)
  | None => None
  end.

(* circ_multiplier.go NewMultiplier (Yao target) *)
Definition mult_threshold (p : params) (w : nat) : nat :=
  if Nat.leb 8 (prm_mult_threshold p) then prm_mult_threshold p
  else match table_threshold w with Some t => t | None => 21 end.

(* a source = the operand widths of its multiplications; output = the thresholds used *)
Definition step_mult (p : params) (s : unit) (x : list nat) : params * unit * list nat :=
  (p, s, map (mult_threshold p) x).

(* regression record (seeded defect C08-4): a getter that STORES the default into the
   params object when it is asked for a width without table entry *)
Fixpoint thresholds_storing (p : params) (x : list nat) : params * list nat :=
  match x with
  | [] => (p, [])
  | w :: t =>
      if Nat.leb 8 (prm_mult_threshold p) then
        let r := thresholds_storing p t in (fst r, prm_mult_threshold p :: snd r)
      else match table_threshold w with
           | Some v => let r := thresholds_storing p t in (fst r, v :: snd r)
           | None => let r := thresholds_storing (mkParams 21) t in (fst r, 21 :: snd r)
           end
  end.
Definition step_mult_storing (p : params) (s : unit) (x : list nat) : params * unit * list nat :=
  let r := thresholds_storing p x in (fst r, s, snd r).
