(* CircGenCompose.v — source program to gates: the lowering theorem
   (Lang/LowerProof.v: eval_ssa (lower p) = exec_mini p) composed with the
   circuit-generation theorem (Lang/CircGenProof.v), and a concrete program
   meeting all hypotheses (non-vacuity). *)
From Coq Require Import ZArith NArith List Bool Arith.
From Mpc Require Import Lang.Mini Lang.Ssa Lang.Lower Lang.LowerProof Lang.CircGen Lang.CircGenProof
  Builders.Emit.
Import ListNotations.

Theorem compile_correct_partial p inp :
  typed p -> cg_wf (lower p) = true ->
  eval_circuit (circuit_of_ssa (lower p)) (input_bits (sp_inputs (lower p)) inp) = exec_mini p inp.
Proof.
  intros T W. rewrite circuitgen_correct_partial by exact W. apply lower_correct, T.
Qed.

(* cg_wf accepts every opcode Lang/Ssa.v gives a meaning to; what it excludes is
   [Ounsupported], the image of concat, bts, btc, circ, builtin *)
Lemma cg_wf_instr_opcodes i : cg_wf_instr i = true ->
  i_op i <> Ounsupported.
Proof.
  unfold cg_wf_instr. intros H E. rewrite E in H. discriminate H.
Qed.

(* ---- non-vacuity ----
   func main(a, b int8) (int8, uint4, bool) {
       var arr [4]uint4 = ...bits of a,b...   -- modelled by slices below
       if a > b { return a - b, <nibble of a selected by b>, a <= b }
       c := (a * b) ^ (a >> 1)
       return c + int8(uint8 ...), ... }
   written directly as a Mini term: signed compare, subtract, multiply, xor,
   arithmetic shift, cast, run-time index into a [2]uint4 view of a, early
   return under a condition (phi in the lowered code). *)
Definition ex_main : func :=
  mkFunc [(0%nat, TInt 8); (1%nat, TInt 8)] [TInt 8; TUint 4; TBool]
    (SSeq
       (SIf (EBin Gt (TInt 8) (EVar 0) (EVar 1))
            (SReturn [EBin Sub (TInt 8) (EVar 0) (EVar 1);
                      EIndex 2 (TUint 4) (EVar 0) (ESlice 0 1 (EVar 1));
                      EBin Le (TInt 8) (EVar 0) (EVar 1)])
            SSkip)
       (SSeq
          (SDecl 2 (TInt 8)
                 (EBin BXor (TInt 8) (EBin Mul (TInt 8) (EVar 0) (EVar 1)) (EShr (TInt 8) (EVar 0) 1)))
          (SReturn [EBin Add (TInt 8) (EVar 2) (ECast (TInt 4) (TInt 8) (ESlice 4 4 (EVar 1)));
                    ESlice 2 4 (EShl (TInt 8) (EVar 2) 3);
                    ENot (EBin Eq (TInt 8) (EVar 2) (EVar 1))]))).

Definition ex_prog : prog := [ex_main].

Example ex_hypotheses : typed ex_prog /\ cg_wf (lower ex_prog) = true.
Proof. split; [split; [vm_compute; reflexivity | discriminate] | vm_compute; reflexivity]. Qed.

(* the lowered program has 24 instructions, the generated circuit 519 gates; evaluated gate by gate it returns what the reference
   interpreter returns (two inputs: one per branch) *)
Example ex_runs :
  (20 <= length (sp_code (lower ex_prog)))%nat /\
  (300 <= length (cc_gates (circuit_of_ssa (lower ex_prog))))%nat /\
  eval_circuit (circuit_of_ssa (lower ex_prog)) (input_bits [8; 8]%nat [100; 7]%N) = exec_mini ex_prog [100; 7]%N /\
  exec_mini ex_prog [100; 7]%N = [93; 6; 0]%N /\
  eval_circuit (circuit_of_ssa (lower ex_prog)) (input_bits [8; 8]%nat [200; 77]%N) = exec_mini ex_prog [200; 77]%N /\
  exec_mini ex_prog [200; 77]%N = [208; 8; 1]%N.
Proof. vm_compute. repeat split; try reflexivity; repeat constructor. Qed.

Example ex_instance : forall inp,
  eval_circuit (circuit_of_ssa (lower ex_prog)) (input_bits (sp_inputs (lower ex_prog)) inp) = exec_mini ex_prog inp.
Proof. intros inp. apply compile_correct_partial; apply ex_hypotheses. Qed.
