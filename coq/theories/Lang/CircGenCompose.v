(* CircGenCompose.v — source program to gates: the lowering theorem
   (Lang/LowerProof.v: eval_ssa (lower p) = exec_mini p) composed with the
   circuit-generation theorem (Lang/CircGenProof.v), and a concrete program
   meeting all hypotheses (non-vacuity). *)
From Coq Require Import ZArith NArith List Bool Arith.
From Mpc Require Import Lang.Mini Lang.Ssa Lang.Lower Lang.LowerProof Lang.CircGen Lang.CircGenProof
  Builders.Emit.
Import ListNotations.

Theorem compile_correct p inp :
  typed p -> cg_wf (lower p) = true ->
  eval_circuit (circuit_of_ssa (lower p)) (input_bits (sp_inputs (lower p)) inp) = exec_mini p inp.
Proof.
  intros T W. rewrite circuitgen_correct by exact W. apply lower_correct, T.
Qed.

(* cg_wf accepts every opcode Lang/Ssa.v gives a meaning to; what it excludes is
   [Ounsupported], the image of circ (native circuit files), of a builtin other
   than circuits.Hamming and of the floating point opcodes *)
Lemma cg_wf_instr_opcodes i : cg_wf_instr i = true ->
  i_op i <> Ounsupported.
Proof.
  unfold cg_wf_instr. intros H E. rewrite E in H. discriminate H.
Qed.

(* ---- non-vacuity ----
   func main(a, b int8) (int8, uint4, bool) {
       var arr [4]uint4 = ...bits of a,b...   -- modelled by slices below
       if a > b { return a - b, <nibble of a selected by b>, a <= b }
       c := (a * b) ^ (a >> 1)
       return c + int8(uint8 ...), ... }
   written directly as a Mini term: signed compare, subtract, multiply, xor,
   arithmetic shift, cast, run-time index into a [2]uint4 view of a, early
   return under a condition (phi in the lowered code). *)
Definition ex_main : func :=
  mkFunc [(0%nat, TInt 8); (1%nat, TInt 8)] [TInt 8; TUint 4; TBool]
    (SSeq
       (SIf (EBin Gt (TInt 8) (EVar 0) (EVar 1))
            (SReturn [EBin Sub (TInt 8) (EVar 0) (EVar 1);
                      EIndex 2 (TUint 4) (EVar 0) (ESlice 0 1 (EVar 1));
                      EBin Le (TInt 8) (EVar 0) (EVar 1)])
            SSkip)
       (SSeq
          (SDecl 2 (TInt 8)
                 (EBin BXor (TInt 8) (EBin Mul (TInt 8) (EVar 0) (EVar 1)) (EShr (TInt 8) (EVar 0) 1)))
          (SReturn [EBin Add (TInt 8) (EVar 2) (ECast (TInt 4) (TInt 8) (ESlice 4 4 (EVar 1)));
                    ESlice 2 4 (EShl (TInt 8) (EVar 2) 3);
                    ENot (EBin Eq (TInt 8) (EVar 2) (EVar 1))]))).

Definition ex_prog : prog := [ex_main].

Example ex_hypotheses : typed ex_prog /\ cg_wf (lower ex_prog) = true.
Proof. split; [split; [vm_compute; reflexivity | discriminate] | vm_compute; reflexivity]. Qed.

(* the lowered program has 24 instructions, the generated circuit 519 gates; evaluated gate by gate it returns what the reference
   interpreter returns (two inputs: one per branch) *)
Example ex_runs :
  (20 <= length (sp_code (lower ex_prog)))%nat /\
  (300 <= length (cc_gates (circuit_of_ssa (lower ex_prog))))%nat /\
  eval_circuit (circuit_of_ssa (lower ex_prog)) (input_bits [8; 8]%nat [100; 7]%N) = exec_mini ex_prog [100; 7]%N /\
  exec_mini ex_prog [100; 7]%N = [93; 6; 0]%N /\
  eval_circuit (circuit_of_ssa (lower ex_prog)) (input_bits [8; 8]%nat [200; 77]%N) = exec_mini ex_prog [200; 77]%N /\
  exec_mini ex_prog [200; 77]%N = [208; 8; 1]%N.
Proof. vm_compute. repeat split; try reflexivity; repeat constructor. Qed.

Example ex_instance : forall inp,
  eval_circuit (circuit_of_ssa (lower ex_prog)) (input_bits (sp_inputs (lower ex_prog)) inp) = exec_mini ex_prog inp.
Proof. intros inp. apply compile_correct; apply ex_hypotheses. Qed.

(* ---- non-vacuity for the opcodes the lowering never emits and for GMW ----
   an SSA program in the syntax of the compiler's listing: inputs a : uint8,
   b : int8, c : [2]uint4;
     v3 = concat c a          (16 bits)     v4 = bts a $3        v5 = btc a $0
     v6 = hamming a v3        (16 bits)     v7 = udiv a $5{int12} -> 8 bits
     v8 = idiv b $3{int12}    (12 bits: the literal's container is wider)
     v9 = umod a $7{int12} -> 8 bits        v10 = imod b b
   (the compiler keeps literals in 32-bit containers; 12 bits here keep the
   in-kernel evaluation of the dividers short)
   returning v3 .. v10 *)
Definition u (w : nat) : sty := mkSty false w.
Definition sg (w : nat) : sty := mkSty true w.
Definition ex_ssa : sprog :=
  mkSprog [8; 8; 8]%nat
    [ mkInstr Oconcat [OVar 2 (u 8); OVar 0 (u 8)] (u 16) 0;
      mkInstr Obts [OVar 0 (u 8); OConst 32 3 (sg 32)] (u 1) 0;
      mkInstr Obtc [OVar 0 (u 8); OConst 32 0 (sg 32)] (u 1) 0;
      mkInstr Ohamming [OVar 0 (u 8); OVar 3 (u 16)] (u 16) 1;
      mkInstr Oudiv [OVar 0 (u 8); OConst 12 5 (sg 12)] (u 8) 0;
      mkInstr Oidiv [OVar 1 (sg 8); OConst 12 3 (sg 12)] (sg 12) 0;
      mkInstr Oumod [OVar 0 (u 8); OConst 12 7 (sg 12)] (u 8) 0;
      mkInstr Oimod [OVar 1 (sg 8); OVar 1 (sg 8)] (sg 8) 0 ]
    [OVar 3 (u 16); OVar 4 (u 1); OVar 5 (u 1); OVar 6 (u 16); OVar 7 (u 8);
     OVar 8 (sg 12); OVar 9 (u 8); OVar 10 (sg 8)].

Example ex_ssa_wf : cg_wf ex_ssa = true.
Proof. vm_compute. reflexivity. Qed.

Example ex_ssa_runs :
  eval_circuit (circuit_of_ssa ex_ssa) (input_bits [8; 8; 8]%nat [200; 249; 0x5a]%N)
  = eval_ssa ex_ssa [200; 249; 0x5a]%N /\
  eval_ssa ex_ssa [200; 249; 0x5a]%N = [51290; 1; 1; 6; 40; 83; 4; 0]%N /\
  eval_circuit (circuit_of_ssa ex_ssa) (input_bits [8; 8; 8]%nat [7; 3; 0]%N) = eval_ssa ex_ssa [7; 3; 0]%N.
Proof. vm_compute. repeat split; reflexivity. Qed.

(* the same program without its divisions, GMW target (Kogge-Stone adders in
   the Hamming tree) *)
Definition ex_ssa_gmw : sprog :=
  mkSprog [8; 8; 8]%nat
    [ mkInstr Oconcat [OVar 2 (u 8); OVar 0 (u 8)] (u 16) 0;
      mkInstr Obts [OVar 0 (u 8); OConst 32 3 (sg 32)] (u 1) 0;
      mkInstr Ohamming [OVar 0 (u 8); OVar 3 (u 16)] (u 16) 1;
      mkInstr Oimult [OVar 1 (sg 8); OVar 0 (sg 8)] (sg 8) 0;
      mkInstr Oisub [OVar 6 (sg 8); OVar 1 (sg 8)] (sg 8) 0;
      mkInstr Oilt [OVar 7 (sg 8); OVar 1 (sg 8)] (u 1) 0 ]
    [OVar 3 (u 16); OVar 4 (u 1); OVar 5 (u 16); OVar 7 (sg 8); OVar 8 (u 1)].

Example ex_ssa_gmw_wf : cg_wf_tg true ex_ssa_gmw = true /\ cg_wf_tg true ex_ssa = false.
Proof. vm_compute. split; reflexivity. Qed.

Example ex_ssa_gmw_runs :
  eval_circuit (circuit_of_ssa_gen Mpc.Gen.Thresholds.multiplierArrayTresholds 0 true ex_ssa_gmw)
               (input_bits [8; 8; 8]%nat [200; 249; 0x5a]%N)
  = eval_ssa ex_ssa_gmw [200; 249; 0x5a]%N /\
  eval_ssa ex_ssa_gmw [200; 249; 0x5a]%N = [51290; 1; 6; 143; 1]%N.
Proof. vm_compute. split; reflexivity. Qed.
