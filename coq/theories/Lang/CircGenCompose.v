(* CircGenCompose.v — source program to gates: the lowering theorem
   (Lang/LowerProof.v: eval_ssa (lower p) = exec_mini p) composed with the
   circuit-generation theorem (Lang/CircGenProof.v), and a concrete program
   meeting all hypotheses (non-vacuity). *)
From Coq Require Import ZArith NArith List Bool Arith Lia.
From Mpc Require Import Lang.Mini Lang.Ssa Lang.Lower Lang.LowerProof Lang.CircGen Lang.CircGenProof
  Lang.CircEmbed Builders.Emit.
Import ListNotations.

Theorem compile_correct p inp :
  typed p -> cg_wf (lower p) = true ->
  eval_circuit (circuit_of_ssa (lower p)) (input_bits (sp_inputs (lower p)) inp) = exec_mini p inp.
Proof.
  intros T W. rewrite circuitgen_correct by exact W. apply lower_correct, T.
Qed.

(* cg_wf accepts every opcode Lang/Ssa.v gives a meaning to; what it excludes is
   [Ounsupported], the image of circ (native circuit files), of a builtin other
   than circuits.Hamming and of the floating point opcodes *)
Lemma cg_wf_instr_opcodes i : cg_wf_instr i = true ->
  i_op i <> Ounsupported.
Proof.
  unfold cg_wf_instr. intros H E. rewrite E in H. discriminate H.
Qed.

(* ---- non-vacuity ----
   func main(a, b int8) (int8, uint4, bool) {
       var arr [4]uint4 = ...bits of a,b...   -- modelled by slices below
       if a > b { return a - b, <nibble of a selected by b>, a <= b }
       c := (a * b) ^ (a >> 1)
       return c + int8(uint8 ...), ... }
   written directly as a Mini term: signed compare, subtract, multiply, xor,
   arithmetic shift, cast, run-time index into a [2]uint4 view of a, early
   return under a condition (phi in the lowered code). *)
Definition ex_main : func :=
  mkFunc [(0%nat, TInt 8); (1%nat, TInt 8)] [TInt 8; TUint 4; TBool]
    (SSeq
       (SIf (EBin Gt (TInt 8) (EVar 0) (EVar 1))
            (SReturn [EBin Sub (TInt 8) (EVar 0) (EVar 1);
                      EIndex 2 (TUint 4) (EVar 0) (ESlice 0 1 (EVar 1));
                      EBin Le (TInt 8) (EVar 0) (EVar 1)])
            SSkip)
       (SSeq
          (SDecl 2 (TInt 8)
                 (EBin BXor (TInt 8) (EBin Mul (TInt 8) (EVar 0) (EVar 1)) (EShr (TInt 8) (EVar 0) 1)))
          (SReturn [EBin Add (TInt 8) (EVar 2) (ECast (TInt 4) (TInt 8) (ESlice 4 4 (EVar 1)));
                    ESlice 2 4 (EShl (TInt 8) (EVar 2) 3);
                    ENot (EBin Eq (TInt 8) (EVar 2) (EVar 1))]))).

Definition ex_prog : prog := [ex_main].

Example ex_hypotheses : typed ex_prog /\ cg_wf (lower ex_prog) = true.
Proof. split; [split; [vm_compute; reflexivity | discriminate] | vm_compute; reflexivity]. Qed.

(* the lowered program has 24 instructions, the generated circuit 519 gates; evaluated gate by gate it returns what the reference
   interpreter returns (two inputs: one per branch) *)
Example ex_runs :
  (20 <= length (sp_code (lower ex_prog)))%nat /\
  (300 <= length (cc_gates (circuit_of_ssa (lower ex_prog))))%nat /\
  eval_circuit (circuit_of_ssa (lower ex_prog)) (input_bits [8; 8]%nat [100; 7]%N) = exec_mini ex_prog [100; 7]%N /\
  exec_mini ex_prog [100; 7]%N = [93; 6; 0]%N /\
  eval_circuit (circuit_of_ssa (lower ex_prog)) (input_bits [8; 8]%nat [200; 77]%N) = exec_mini ex_prog [200; 77]%N /\
  exec_mini ex_prog [200; 77]%N = [208; 8; 1]%N.
Proof. vm_compute. repeat split; try reflexivity; repeat constructor. Qed.

Example ex_instance : forall inp,
  eval_circuit (circuit_of_ssa (lower ex_prog)) (input_bits (sp_inputs (lower ex_prog)) inp) = exec_mini ex_prog inp.
Proof. intros inp. apply compile_correct; apply ex_hypotheses. Qed.

(* ---- non-vacuity for the opcodes the lowering never emits and for GMW ----
   an SSA program in the syntax of the compiler's listing: inputs a : uint8,
   b : int8, c : [2]uint4;
     v3 = concat c a          (16 bits)     v4 = bts a $3        v5 = btc a $0
     v6 = hamming a v3        (16 bits)     v7 = udiv a $5{int12} -> 8 bits
     v8 = idiv b $3{int12}    (12 bits: the literal's container is wider)
     v9 = umod a $7{int12} -> 8 bits        v10 = imod b b
   (the compiler keeps literals in 32-bit containers; 12 bits here keep the
   in-kernel evaluation of the dividers short)
   returning v3 .. v10 *)
Definition u (w : nat) : sty := mkSty false w.
Definition sg (w : nat) : sty := mkSty true w.
Definition ex_ssa : sprog :=
  mkSprog [8; 8; 8]%nat
    [ mkInstr Oconcat [OVar 2 (u 8); OVar 0 (u 8)] (u 16) 0;
      mkInstr Obts [OVar 0 (u 8); OConst 32 3 (sg 32)] (u 1) 0;
      mkInstr Obtc [OVar 0 (u 8); OConst 32 0 (sg 32)] (u 1) 0;
      mkInstr Ohamming [OVar 0 (u 8); OVar 3 (u 16)] (u 16) 1;
      mkInstr Oudiv [OVar 0 (u 8); OConst 12 5 (sg 12)] (u 8) 0;
      mkInstr Oidiv [OVar 1 (sg 8); OConst 12 3 (sg 12)] (sg 12) 0;
      mkInstr Oumod [OVar 0 (u 8); OConst 12 7 (sg 12)] (u 8) 0;
      mkInstr Oimod [OVar 1 (sg 8); OVar 1 (sg 8)] (sg 8) 0 ]
    [OVar 3 (u 16); OVar 4 (u 1); OVar 5 (u 1); OVar 6 (u 16); OVar 7 (u 8);
     OVar 8 (sg 12); OVar 9 (u 8); OVar 10 (sg 8)].

Example ex_ssa_wf : cg_wf ex_ssa = true.
Proof. vm_compute. reflexivity. Qed.

Example ex_ssa_runs :
  eval_circuit (circuit_of_ssa ex_ssa) (input_bits [8; 8; 8]%nat [200; 249; 0x5a]%N)
  = eval_ssa ex_ssa [200; 249; 0x5a]%N /\
  eval_ssa ex_ssa [200; 249; 0x5a]%N = [51290; 1; 1; 6; 40; 83; 4; 0]%N /\
  eval_circuit (circuit_of_ssa ex_ssa) (input_bits [8; 8; 8]%nat [7; 3; 0]%N) = eval_ssa ex_ssa [7; 3; 0]%N.
Proof. vm_compute. repeat split; reflexivity. Qed.

(* the same program without its divisions, GMW target (Kogge-Stone adders in
   the Hamming tree) *)
Definition ex_ssa_gmw : sprog :=
  mkSprog [8; 8; 8]%nat
    [ mkInstr Oconcat [OVar 2 (u 8); OVar 0 (u 8)] (u 16) 0;
      mkInstr Obts [OVar 0 (u 8); OConst 32 3 (sg 32)] (u 1) 0;
      mkInstr Ohamming [OVar 0 (u 8); OVar 3 (u 16)] (u 16) 1;
      mkInstr Oimult [OVar 1 (sg 8); OVar 0 (sg 8)] (sg 8) 0;
      mkInstr Oisub [OVar 6 (sg 8); OVar 1 (sg 8)] (sg 8) 0;
      mkInstr Oilt [OVar 7 (sg 8); OVar 1 (sg 8)] (u 1) 0 ]
    [OVar 3 (u 16); OVar 4 (u 1); OVar 5 (u 16); OVar 7 (sg 8); OVar 8 (u 1)].

Example ex_ssa_gmw_wf : cg_wf_tg true ex_ssa_gmw = true /\ cg_wf_tg true ex_ssa = false.
Proof. vm_compute. split; reflexivity. Qed.

Example ex_ssa_gmw_runs :
  eval_circuit (circuit_of_ssa_gen Mpc.Gen.Thresholds.multiplierArrayTresholds 0 true ex_ssa_gmw)
               (input_bits [8; 8; 8]%nat [200; 249; 0x5a]%N)
  = eval_ssa ex_ssa_gmw [200; 249; 0x5a]%N /\
  eval_ssa ex_ssa_gmw [200; 249; 0x5a]%N = [51290; 1; 6; 143; 1]%N.
Proof. vm_compute. split; reflexivity. Qed.

(* ---- circ: native circuits ----
   Mini has no native call (the reference language of C03 is the documented
   core), so compile_correct says nothing new about circ; the statement for
   programs WITH circ steps is circuitgen_correct itself (cg_wf now admits
   them).  Two more statements make its content for circ explicit:
   [circ_call_correct]: for EVERY sub-circuit meeting circ_ok and every split of
   its input wires into arguments, the program that consists of one call of it
   compiles to a circuit that computes exactly Circuit.eval_plain of the
   sub-circuit (all inputs) — the embedding alone neither loses nor reorders a
   wire; and a concrete program (narrow constant argument, two results, a
   following addition) evaluated in the kernel on all its inputs, both targets. *)
Fixpoint circ_args (k : nat) (ins : list nat) : list opnd :=
  match ins with
  | [] => []
  | w :: r => OVar k (u w) :: circ_args (S k) r
  end.

Definition circ_call (ins : list nat) (c : Mpc.Circuit.Circuit.circuit) : sprog :=
  mkSprog ins
    [mkInstr (Ocirc ins c) (circ_args 0 ins) (u (Mpc.Circuit.Circuit.noutputs c)) 0]
    [OVar (length ins) (u (Mpc.Circuit.Circuit.noutputs c))].

Lemma args_fit_circ_args : forall ins k, args_fit (circ_args k ins) ins = true.
Proof.
  induction ins as [|w r IH]; intros k; [reflexivity|]. cbn [circ_args args_fit].
  rewrite IH, andb_true_r. apply Nat.leb_le. cbn. apply le_n.
Qed.

Lemma bits_val_lt l : (bits_val l < 2 ^ N.of_nat (length l))%N.
Proof.
  induction l as [|b l IH]; cbn [length bits_val].
  - cbn. lia.
  - rewrite Mpc.Builders.EmitProof.pow2_S. pose proof (Mpc.Builders.EmitProof.b2n_le1 b). lia.
Qed.

Lemma nbits_norm w v : nbits w (norm w v) = bits_of_N w v.
Proof.
  apply (nth_ext _ _ false false).
  - rewrite nbits_length, bits_of_N_length. reflexivity.
  - rewrite nbits_length. intros k Hk. rewrite nbits_nth, bits_of_N_nth, norm_testbit by exact Hk.
    replace (Nat.ltb k w) with true by (symmetry; apply Nat.ltb_lt; exact Hk). reflexivity.
Qed.

Lemma circ_input_args : forall ins inp pre,
  circ_input (pre ++ init_vals ins inp) (circ_args (length pre) ins) ins = input_bits ins inp.
Proof.
  induction ins as [|w r IH]; intros inp pre; [reflexivity|].
  assert (X : exists v vr, input_bits (w :: r) inp = bits_of_N w v ++ input_bits r vr /\
                           init_vals (w :: r) inp = (w, norm w v) :: init_vals r vr).
  { destruct inp as [|v vr]; [exists 0%N, []|exists v, vr]; cbn [input_bits init_vals];
      (split; [try rewrite bits_of_N_0; reflexivity
              | try (unfold norm; rewrite N.mod_0_l by apply pow2_nz); reflexivity]). }
  destruct X as (v & vr & EB & EV). rewrite EB, EV.
  cbn [circ_args circ_input hd tl]. f_equal.
  - cbn [opnd_val]. rewrite app_nth2 by lia. rewrite Nat.sub_diag. cbn [nth].
    unfold resize. cbn [u s_signed s_bits andb]. rewrite !norm_norm_le by lia. apply nbits_norm.
  - specialize (IH vr (pre ++ [(w, norm w v)])). rewrite app_length in IH. cbn [length] in IH.
    rewrite Nat.add_1_r, <- app_assoc in IH. cbn [app] in IH. exact IH.
Qed.

Theorem circ_call_correct ins c inp :
  circ_ok c = true -> tot ins = Mpc.Circuit.Circuit.ninputs c -> (1 <= Mpc.Circuit.Circuit.ninputs c)%nat ->
  eval_circuit (circuit_of_ssa (circ_call ins c)) (input_bits ins inp)
  = [bits_val (Mpc.Circuit.Circuit.eval_plain c (input_bits ins inp))].
Proof.
  intros OK TI NI.
  assert (WF : cg_wf (circ_call ins c) = true).
  { unfold cg_wf, circ_call. cbn [sp_inputs sp_code forallb]. rewrite andb_true_r.
    apply andb_true_iff. split.
    - apply Nat.leb_le. change (total_bits ins) with (tot ins). lia.
    - unfold cg_wf_instr. cbn [i_op i_args i_out s_bits u].
      rewrite args_fit_circ_args, OK, !Nat.eqb_refl, TI, Nat.eqb_refl. reflexivity. }
  change ins with (sp_inputs (circ_call ins c)) at 2.
  rewrite (circuitgen_correct _ inp WF).
  unfold eval_ssa, circ_call. cbn [sp_code sp_inputs sp_rets map run_code fold_left].
  unfold step. cbn [i_out s_bits u]. f_equal.
  set (vs0 := init_vals ins inp).
  assert (L0 : length vs0 = length ins).
  { unfold vs0. clear. revert inp. induction ins as [|w r IH]; intros inp; [reflexivity|].
    destruct inp; cbn [init_vals length]; rewrite IH; reflexivity. }
  cbn [opnd_val]. rewrite app_nth2 by lia. rewrite L0, Nat.sub_diag. cbn [nth].
  unfold resize. cbn [u s_signed s_bits andb]. rewrite !norm_norm_le by lia.
  unfold eval_instr. cbn [i_op i_args].
  pose proof (circ_input_args ins inp []) as CI. cbn [app length] in CI. fold vs0 in CI. rewrite CI.
  apply norm_small. rewrite pow2_eq.
  replace (Mpc.Circuit.Circuit.noutputs c)
    with (length (Mpc.Circuit.Circuit.eval_plain c (input_bits ins inp)))
    by (unfold Mpc.Circuit.Circuit.eval_plain, Mpc.Circuit.Circuit.output_wires; rewrite map_length, seq_length; reflexivity).
  apply bits_val_lt.
Qed.

(* a 2-bit adder with carry in / carry out as a native circuit (all five gate
   kinds): inputs a (wires 0,1), b (2,3), cin (4); outputs sum (13,14), cout (15) *)
Definition ex_adder2 : Mpc.Circuit.Circuit.circuit :=
  let g := Mpc.Circuit.Circuit.mkGate in
  Mpc.Circuit.Circuit.mkCircuit 16 5 3
    ([ g 0 2 5 Mpc.Circuit.Circuit.XOR;  g 0 2 6 Mpc.Circuit.Circuit.AND;
      g 5 4 7 Mpc.Circuit.Circuit.AND;  g 6 7 8 Mpc.Circuit.Circuit.OR;
      g 1 3 9 Mpc.Circuit.Circuit.XNOR; g 9 0 10 Mpc.Circuit.Circuit.INV;
      g 1 3 11 Mpc.Circuit.Circuit.AND; g 10 8 12 Mpc.Circuit.Circuit.AND;
      g 5 4 13 Mpc.Circuit.Circuit.XOR; g 10 8 14 Mpc.Circuit.Circuit.XOR;
      g 11 12 15 Mpc.Circuit.Circuit.OR ])%nat.

(* main(a uint2, c uint1): s, k := native("adder2", a, 1, c); return s, k, s + a, <all result wires>
   — the constant 1 has one wire and is zero padded to the 2-bit input b; the
   two results are the slices [0,2) and [2,3) of the value circ defines *)
Definition ex_circ : sprog :=
  mkSprog [2; 1]%nat
    [ mkInstr (Ocirc [2; 2; 1]%nat ex_adder2) [OVar 0 (u 2); OConst 1 1 (u 1); OVar 1 (u 1)] (u 3) 0;
      mkInstr Oslice [OVar 2 (u 3); OConst 32 0 (sg 32); OConst 32 2 (sg 32)] (u 2) 0;
      mkInstr Oslice [OVar 2 (u 3); OConst 32 2 (sg 32); OConst 32 3 (sg 32)] (u 1) 0;
      mkInstr Ouadd [OVar 3 (u 2); OVar 0 (u 2)] (u 2) 0 ]
    [OVar 3 (u 2); OVar 4 (u 1); OVar 5 (u 2); OVar 2 (u 3)].

Definition ex_circ_inputs : list (list N) :=
  [[0; 0]; [1; 0]; [2; 0]; [3; 0]; [0; 1]; [1; 1]; [2; 1]; [3; 1]]%N.

Example ex_circ_wf : circ_ok ex_adder2 = true /\ cg_wf ex_circ = true /\ cg_wf_tg true ex_circ = true.
Proof. vm_compute. repeat split; reflexivity. Qed.

(* all 8 inputs, both targets; a + 1 + c on 2 bits, the carry, (a + 1 + c) + a, and the raw result *)
Example ex_circ_runs :
  map (fun v => eval_circuit (circuit_of_ssa ex_circ) (input_bits [2; 1]%nat v)) ex_circ_inputs
  = map (eval_ssa ex_circ) ex_circ_inputs /\
  map (fun v => eval_circuit (circuit_of_ssa_gen Mpc.Gen.Thresholds.multiplierArrayTresholds 0 true ex_circ)
                             (input_bits [2; 1]%nat v)) ex_circ_inputs
  = map (eval_ssa ex_circ) ex_circ_inputs /\
  map (eval_ssa ex_circ) ex_circ_inputs
  = [[1; 0; 1; 1]; [2; 0; 3; 2]; [3; 0; 1; 3]; [0; 1; 3; 4];
     [2; 0; 2; 2]; [3; 0; 0; 3]; [0; 1; 2; 4]; [1; 1; 0; 5]]%N.
Proof. vm_compute. repeat split; reflexivity. Qed.

(* what circ_ok excludes beyond Circuit.wf: a second write to an intermediate
   wire (the Go compiler panics there: "wire input gate already set") and an
   output wire that is an input wire *)
Definition ex_overwrite : Mpc.Circuit.Circuit.circuit :=
  let g := Mpc.Circuit.Circuit.mkGate in
  Mpc.Circuit.Circuit.mkCircuit 4 2 1
    ([ g 0 1 2 Mpc.Circuit.Circuit.XOR; g 0 1 2 Mpc.Circuit.Circuit.AND; g 2 0 3 Mpc.Circuit.Circuit.XOR ])%nat.
Definition ex_passthrough : Mpc.Circuit.Circuit.circuit := Mpc.Circuit.Circuit.mkCircuit 2 2 1 [].

Example ex_circ_ok_excludes :
  Mpc.Circuit.Circuit.wf ex_overwrite = true /\ circ_ok ex_overwrite = false /\
  Mpc.Circuit.Circuit.wf ex_passthrough = true /\ circ_ok ex_passthrough = false.
Proof. vm_compute. repeat split; reflexivity. Qed.

(* the side condition of a circ instruction, spelled out *)
Lemma cg_wf_circ ins c args out aux :
  cg_wf_instr (mkInstr (Ocirc ins c) args out aux) = true <->
  args_fit args ins = true /\ tot ins = Mpc.Circuit.Circuit.ninputs c /\
  s_bits out = Mpc.Circuit.Circuit.noutputs c /\ circ_ok c = true.
Proof.
  unfold cg_wf_instr. cbn [i_op i_args i_out]. rewrite !andb_true_iff, !Nat.eqb_eq. tauto.
Qed.

(* the meaning of circ in Lang/Ssa.v, spelled out *)
Lemma circ_instr_meaning vs ins c args out aux :
  eval_instr vs (mkInstr (Ocirc ins c) args out aux)
  = bits_val (Mpc.Circuit.Circuit.eval_plain c (circ_input vs args ins)).
Proof. reflexivity. Qed.
