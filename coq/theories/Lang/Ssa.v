(* Ssa.v — semantics of the SSA instruction set emitted for the MPCL core
   (/repo/compiler/ssa/instructions.go: the opcodes; the meaning of each
   opcode is the one /repo/compiler/ssa/circuitgen.go Program.Circuit gives it
   by choosing a builder of /repo/compiler/circuits).

   Abstract syntax = the textual listing the compiler prints
   (utils.Params.SSAOut, ssa.Program.PP): one instruction per line,
       op  in0 in1 ... out
   every operand is a value  name{scope,version}<type><bits>  or a constant
   $c.  The harness numbers the values: the program inputs are values
   0..k-1 in declaration order, the value defined by the j-th value-defining
   instruction is value k+j (the listing is single-assignment; `gc` lines are
   dropped, `ret` closes the program).

   Operands are bit-vectors with a declared type: as in Program.Circuit the
   wires of a value are first brought to the declared width of the operand
   (truncated, or padded with the top wire when the declared type is a signed
   integer, with zero otherwise — "Const values are cast to different value
   sizes"), then the builder zero-pads both operands to the wider of the two
   (circuits.Compiler.ZeroPad) and the result is cut to the width of the
   output value.

   No proofs in this file. *)
From Coq Require Import ZArith NArith List Bool.
From Mpc Require Import Lang.Mini.
From Mpc Require Circuit.Circuit.
Import ListNotations.
Open Scope N_scope.

(* declared type of an operand / output: signed integer or not, width *)
Record sty : Type := mkSty { s_signed : bool; s_bits : nat }.

Inductive opnd : Type :=
| OVar (i : nat) (t : sty)                 (* value number i used at type t *)
| OConst (cw : nat) (cv : N) (t : sty).    (* constant: cw wires of value cv
                                              (Program.DefineConstants), used at type t *)

Definition opnd_ty (o : opnd) : sty :=
  match o with OVar _ t => t | OConst _ _ t => t end.
Definition opnd_bits (o : opnd) : nat := s_bits (opnd_ty o).

Inductive opcode : Type :=
| Oiadd | Ouadd | Oisub | Ousub | Oimult | Oumult
| Oidiv | Oudiv | Oimod | Oumod
| Oband | Obor | Obxor | Obclr
| Oilt | Oult | Oile | Oule | Oigt | Ougt | Oige | Ouge | Oeq | Oneq
| Oand | Oor | Onot
| Omov | Osmov
| Olshift | Orshift | Osrshift
| Oslice | Oamov | Oindex
| Ophi
| Oconcat                                  (* array/string +: wires of In[0] then of In[1] *)
| Obts | Obtc                              (* bit test set / clear at a constant index (peephole.go) *)
| Ohamming                                 (* builtin: native("hamming", a, b) = circuits.Hamming *)
| Ounsupported                             (* f*, a builtin other than Hamming *)
| Ocirc (ins : list nat) (c : Mpc.Circuit.Circuit.circuit).
                                           (* circ: the parsed native circuit instr.Circ (a term of
                                              Circuit/Circuit.v) and ins = Circ.Inputs[k].Type.Bits.
                                              The listing line "circ a.. {G,W} r0 .. rm" defines m+1
                                              values at once; here the instruction defines ONE value,
                                              the concatenation of all results (Circ.Outputs.Size()
                                              bits, the wires circOut of Program.Circuit), and the
                                              harness lets m+1 `slice` instructions follow it, one per
                                              r_j (slice emits no gate: the value r_j is registered
                                              with exactly the wires walloc holds for it) *)

Record instr : Type := mkInstr {
  i_op : opcode;
  i_args : list opnd;
  i_out : sty;
  i_aux : nat }.         (* index: element width (In[0].Type.ElementType.Bits) *)

(* a stored value: number of wires, value of the wires *)
Definition sval := (nat * N)%type.

(* Program.Circuit, the loop over instr.In *)
Definition resize (sw : nat) (n : N) (t : sty) : N :=
  if s_signed t && Nat.ltb sw (s_bits t)
  then of_Z (s_bits t) (to_Z true sw n)
  else norm (s_bits t) (norm sw n).

Definition opnd_val (vs : list sval) (o : opnd) : N :=
  match o with
  | OVar i t => let '(sw, n) := nth i vs (0%nat, 0) in resize sw n t
  | OConst cw cv t => resize cw cv t
  end.

(* ConstInt() of a constant operand: shift counts, slice bounds, offsets *)
Definition opnd_const (o : opnd) : nat :=
  match o with OConst _ cv _ => N.to_nat cv | OVar _ _ => 0%nat end.

Definition arg (n : nat) (l : list opnd) : opnd := nth n l (OConst 0 0 (mkSty false 0)).

(* number of set bits (circuits.Hamming counts the positions where the operands differ) *)
Fixpoint pop_pos (p : positive) : N :=
  match p with
  | xH => 1
  | xO q => pop_pos q
  | xI q => 1 + pop_pos q
  end.
Definition popcount (n : N) : N := match n with N0 => 0 | Npos p => pop_pos p end.

(* bits of a number, LSB first, and back (circuit.Circuit.Compute's IO layout) *)
Definition nbits (w : nat) (v : N) : list bool := map (fun i => N.testbit v (N.of_nat i)) (seq 0 w).
Fixpoint bits_val (bs : list bool) : N :=
  match bs with
  | [] => 0
  | b :: r => N.b2n b + 2 * bits_val r
  end.

(* the input bits of an embedded circuit: argument k (brought to its declared
   width as every operand) zero padded to the width of the circuit's input k *)
Fixpoint circ_input (vs : list sval) (args : list opnd) (ins : list nat) : list bool :=
  match args with
  | [] => []
  | a :: ar => nbits (hd 0%nat ins) (opnd_val vs a) ++ circ_input vs ar (tl ins)
  end.

Definition bin (op : binop) (sg : bool) (vs : list sval) (i : instr) : N :=
  let a := arg 0 (i_args i) in
  let b := arg 1 (i_args i) in
  arith op sg (Nat.max (opnd_bits a) (opnd_bits b)) (opnd_val vs a) (opnd_val vs b).

(* value of the output wires of one instruction (before cutting to the
   output width) *)
Definition eval_instr (vs : list sval) (i : instr) : N :=
  let a0 := arg 0 (i_args i) in
  let a1 := arg 1 (i_args i) in
  let a2 := arg 2 (i_args i) in
  let a3 := arg 3 (i_args i) in
  let wo := s_bits (i_out i) in
  match i_op i with
  | Oiadd => bin Add true vs i   | Ouadd => bin Add false vs i
  | Oisub => bin Sub true vs i   | Ousub => bin Sub false vs i
  | Oimult => bin Mul true vs i  | Oumult => bin Mul false vs i
  | Oidiv => bin Div true vs i   | Oudiv => bin Div false vs i
  | Oimod => bin Mod true vs i   | Oumod => bin Mod false vs i
  | Oband => bin BAnd false vs i | Obor => bin BOr false vs i
  | Obxor => bin BXor false vs i | Obclr => bin BAndNot false vs i
  | Oilt => bin Lt true vs i     | Oult => bin Lt false vs i
  | Oile => bin Le true vs i     | Oule => bin Le false vs i
  | Oigt => bin Gt true vs i     | Ougt => bin Gt false vs i
  | Oige => bin Ge true vs i     | Ouge => bin Ge false vs i
  | Oeq => bin Eq false vs i     | Oneq => bin Ne false vs i
  | Oand => bin LAnd false vs i  | Oor => bin LOr false vs i
  | Onot => N.lxor (pow2 wo - 1) (norm wo (opnd_val vs a0))
  | Omov => norm wo (opnd_val vs a0)
  | Osmov => of_Z wo (to_Z true (opnd_bits a0) (opnd_val vs a0))
  | Olshift => norm wo (norm (opnd_bits a0) (opnd_val vs a0) * pow2 (opnd_const a1))
  | Orshift => of_Z wo (Z.shiftr (to_Z false (opnd_bits a0) (opnd_val vs a0))
                                 (Z.of_nat (opnd_const a1)))
  | Osrshift => of_Z wo (Z.shiftr (to_Z true (opnd_bits a0) (opnd_val vs a0))
                                  (Z.of_nat (opnd_const a1)))
  | Oslice => slice_sem (opnd_const a1) (opnd_const a2 - opnd_const a1) (opnd_val vs a0)
  | Oamov => store_sem wo (opnd_const a2) (opnd_const a3 - opnd_const a2)
                       (opnd_val vs a1) (opnd_val vs a0)
  | Oindex =>
      let off := opnd_const a1 in
      let n := Nat.div (opnd_bits a0 - off) (i_aux i) in
      index_sem n (i_aux i) (opnd_val vs a0 / pow2 off) (opnd_val vs a2)
  | Ophi => if N.odd (opnd_val vs a0) then opnd_val vs a1 else opnd_val vs a2
  | Oconcat => opnd_val vs a0 + opnd_val vs a1 * pow2 (opnd_bits a0)
  | Obts => ofb (N.testbit (opnd_val vs a0) (N.of_nat (opnd_const a1)))
  | Obtc => ofb (negb (N.testbit (opnd_val vs a0) (N.of_nat (opnd_const a1))))
  | Ohamming => popcount (N.lxor (opnd_val vs a0) (opnd_val vs a1))
  | Ounsupported => 0
  | Ocirc ins c => bits_val (Mpc.Circuit.Circuit.eval_plain c (circ_input vs (i_args i) ins))
  end.

Definition step (vs : list sval) (i : instr) : list sval :=
  vs ++ [(s_bits (i_out i), norm (s_bits (i_out i)) (eval_instr vs i))].

Definition run_code (code : list instr) (vs : list sval) : list sval := fold_left step code vs.

Record sprog : Type := mkSprog {
  sp_inputs : list nat;        (* widths of the program inputs *)
  sp_code : list instr;
  sp_rets : list opnd }.       (* operands of the closing `ret` *)

Fixpoint init_vals (ws : list nat) (inp : list N) : list sval :=
  match ws with
  | [] => []
  | w :: wr => match inp with
               | v :: vr => (w, norm w v) :: init_vals wr vr
               | [] => (w, 0) :: init_vals wr []
               end
  end.

Definition eval_ssa (p : sprog) (inp : list N) : list N :=
  map (opnd_val (run_code (sp_code p) (init_vals (sp_inputs p) inp))) (sp_rets p).
