(* CircGenProof.v — the gates Lang/CircGen.v emits for an SSA program compute the
   program's meaning in Lang/Ssa.v (eval_ssa), for every program satisfying the
   executable side conditions cg_wf, every width, every input.

   Two invariants carried along the instruction list:
   * semantic (okm, Builders/EmitProof.v): in every wire valuation consistent
     with the gates emitted so far, the wires registered for each SSA value have
     the value's width and carry the value ([inv]); per opcode this is the
     builder theorem of C07 plus an arithmetic lemma relating the builder's
     function on N to Mini.arith / the bit-vector operations of Ssa.eval_instr;
   * structural (oks, Builders/StructProof.v): the emitted list is single
     assignment and defined-before-use and every registered wire is defined, so
     gate-by-gate evaluation IS such a consistent valuation (run_st0). *)
From Coq Require Import ZArith NArith List Bool Arith Lia.
From Mpc Require Import Gen.Thresholds Lang.Mini Lang.Ssa Lang.CircGen
  Builders.Emit Builders.EmitProof Builders.StructProof
  Builders.Adder Builders.Sub Builders.Mult Builders.Div Builders.Cmp Builders.Mux
  Builders.Index Builders.Bitwise
  Builders.AdderProof Builders.SubProof Builders.KaratsubaProof Builders.CmpProof Builders.MuxProof
  Builders.IndexProof Builders.BitwiseProof Builders.Hamming Builders.HammingProof
  Builders.KsProof Builders.WallaceProof Builders.StructWallace
  Builders.StructAdder Builders.StructArith Builders.StructHamming Builders.StructMult Builders.StructCmp
  Builders.StructIndex Builders.StructDiv Builders.DivProof Lang.CircGenDivProof
  Lang.CircEmbed Lang.CircEmbedProof.
Import ListNotations.
Open Scope N_scope.

(* ------------------------------------------------------------------ bits *)
Lemma bits_inj_nat a b :
  (forall k : nat, N.testbit a (N.of_nat k) = N.testbit b (N.of_nat k)) -> a = b.
Proof.
  intros H. apply N.bits_inj. intros n. rewrite <- (N2Nat.id n). apply H.
Qed.

Lemma valN_testbit e ws d : forall k,
  N.testbit (valN e ws) (N.of_nat k) = if Nat.ltb k (length ws) then e (nth k ws d) else false.
Proof.
  induction ws as [|w ws IH]; intros k.
  - rewrite valN_nil. cbn [length]. destruct k; reflexivity.
  - rewrite valN_cons, N.add_comm. destruct k as [|k].
    + rewrite N.testbit_0_r. reflexivity.
    + rewrite Nat2N.inj_succ, N.testbit_succ_r, IH. cbn [length nth].
      change (Nat.ltb (S k) (S (length ws))) with (Nat.ltb k (length ws)). reflexivity.
Qed.

Lemma valN_map_seq e (f : nat -> wire) n k :
  N.testbit (valN e (map f (seq 0 n))) (N.of_nat k) = Nat.ltb k n && e (f k).
Proof.
  rewrite (valN_testbit e _ (f 0%nat)), map_length, seq_length.
  destruct (Nat.ltb k n) eqn:E; [|reflexivity]. apply Nat.ltb_lt in E.
  rewrite (map_nth f (seq 0 n) 0%nat k), seq_nth by exact E. reflexivity.
Qed.

Lemma pow2_eq w : pow2 w = 2 ^ N.of_nat w. Proof. reflexivity. Qed.
Lemma pow2_nz w : pow2 w <> 0. Proof. apply N.pow_nonzero. discriminate. Qed.

Lemma norm_testbit w n k :
  N.testbit (norm w n) (N.of_nat k) = Nat.ltb k w && N.testbit n (N.of_nat k).
Proof.
  unfold norm, pow2. destruct (Nat.ltb k w) eqn:E.
  - apply Nat.ltb_lt in E. rewrite N.mod_pow2_bits_low by lia. reflexivity.
  - apply Nat.ltb_ge in E. rewrite N.mod_pow2_bits_high by lia. reflexivity.
Qed.

Lemma norm_lt w n : norm w n < pow2 w.
Proof. unfold norm. apply N.mod_lt, pow2_nz. Qed.

Lemma norm_small w n : n < pow2 w -> norm w n = n.
Proof. intros H. unfold norm. apply N.mod_small, H. Qed.

Lemma norm_norm_le a b n : (a <= b)%nat -> norm a (norm b n) = norm a n.
Proof.
  intros H. apply bits_inj_nat. intros k. rewrite !norm_testbit.
  destruct (Nat.ltb k a) eqn:E; [|reflexivity]. apply Nat.ltb_lt in E.
  replace (Nat.ltb k b) with true by (symmetry; apply Nat.ltb_lt; lia). reflexivity.
Qed.

Lemma Zpow2 w : Z.of_N (pow2 w) = (2 ^ Z.of_nat w)%Z.
Proof. unfold pow2. rewrite N2Z.inj_pow, nat_N_Z. reflexivity. Qed.

Lemma Ntestbit_toN z k : (0 <= z)%Z -> N.testbit (Z.to_N z) (N.of_nat k) = Z.testbit z (Z.of_nat k).
Proof.
  intros H. rewrite <- (Z2N.id z) at 2 by exact H. rewrite <- nat_N_Z, N2Z.inj_testbit. reflexivity.
Qed.

Lemma of_Z_testbit w z k :
  N.testbit (of_Z w z) (N.of_nat k) = Nat.ltb k w && Z.testbit z (Z.of_nat k).
Proof.
  unfold of_Z. rewrite Zpow2.
  assert (P : (0 < 2 ^ Z.of_nat w)%Z) by (apply Z.pow_pos_nonneg; lia).
  rewrite Ntestbit_toN by (apply Z.mod_pos_bound; exact P).
  destruct (Nat.ltb k w) eqn:E.
  - apply Nat.ltb_lt in E. rewrite Z.mod_pow2_bits_low by lia. reflexivity.
  - apply Nat.ltb_ge in E. rewrite Z.mod_pow2_bits_high by lia. reflexivity.
Qed.

(* bit k of the (sign- or zero-) extended w-bit pattern n *)
Definition xbit (sg : bool) (w : nat) (n : N) (k : nat) : bool :=
  if Nat.ltb k w then N.testbit n (N.of_nat k)
  else sg && Nat.ltb 0 w && N.testbit n (N.of_nat (w - 1)).

Lemma Ztestbit_split (a b : Z) w k : (0 <= a < 2 ^ Z.of_nat w)%Z ->
  Z.testbit (a + 2 ^ Z.of_nat w * b) (Z.of_nat k) =
  if Nat.ltb k w then Z.testbit a (Z.of_nat k) else Z.testbit b (Z.of_nat (k - w)).
Proof.
  intros Ha. assert (P : (0 < 2 ^ Z.of_nat w)%Z) by (apply Z.pow_pos_nonneg; lia).
  destruct (Nat.ltb k w) eqn:E.
  - apply Nat.ltb_lt in E.
    rewrite <- (Z.mod_pow2_bits_low (a + 2 ^ Z.of_nat w * b) (Z.of_nat w)) by lia.
    rewrite Z.mul_comm, Z.mod_add by lia. rewrite Z.mod_small by exact Ha. reflexivity.
  - apply Nat.ltb_ge in E.
    replace (Z.of_nat k) with (Z.of_nat (k - w) + Z.of_nat w)%Z by lia.
    rewrite <- Z.div_pow2_bits by lia.
    rewrite Z.mul_comm, Z.div_add by lia. rewrite Z.div_small by exact Ha. reflexivity.
Qed.

Lemma to_Z_testbit sg w n k : Z.testbit (to_Z sg w n) (Z.of_nat k) = xbit sg w n k.
Proof.
  unfold to_Z, xbit.
  assert (B : (0 <= Z.of_N (norm w n) < 2 ^ Z.of_nat w)%Z).
  { rewrite <- Zpow2. pose proof (norm_lt w n). lia. }
  assert (T : forall j, N.testbit (norm w n) (N.of_nat j) = Nat.ltb j w && N.testbit n (N.of_nat j))
    by (intros; apply norm_testbit).
  destruct (sg && N.testbit (norm w n) (N.of_nat (w - 1)) && negb (Nat.eqb w 0)) eqn:C.
  - apply andb_true_iff in C. destruct C as [C C3]. apply andb_true_iff in C. destruct C as [C1 C2].
    apply negb_true_iff, Nat.eqb_neq in C3. subst sg.
    rewrite T in C2. apply andb_true_iff in C2. destruct C2 as [_ C2].
    rewrite Zpow2.
    replace (Z.of_N (norm w n) - 2 ^ Z.of_nat w)%Z with (Z.of_N (norm w n) + 2 ^ Z.of_nat w * (-1))%Z by lia.
    rewrite Ztestbit_split by exact B.
    destruct (Nat.ltb k w) eqn:E.
    + rewrite <- nat_N_Z, N2Z.inj_testbit, T, E. reflexivity.
    + rewrite Z.bits_m1 by lia. rewrite C2.
      replace (Nat.ltb 0 w) with true by (symmetry; apply Nat.ltb_lt; lia). reflexivity.
  - rewrite <- nat_N_Z, N2Z.inj_testbit, T.
    destruct (Nat.ltb k w) eqn:E; [reflexivity|]. cbn [andb]. symmetry.
    destruct sg; [|reflexivity]. cbn [andb] in *.
    destruct (Nat.eqb_spec w 0) as [W0|W0].
    + subst w. reflexivity.
    + cbn [negb] in C. rewrite andb_true_r in C. rewrite T in C.
      replace (Nat.ltb (w - 1) w) with true in C by (symmetry; apply Nat.ltb_lt; lia).
      cbn [andb] in C. rewrite C. apply andb_false_r.
Qed.

Lemma resize_testbit sw n t k :
  N.testbit (resize sw n t) (N.of_nat k) = Nat.ltb k (s_bits t) && xbit (s_signed t) sw n k.
Proof.
  unfold resize.
  destruct (s_signed t && Nat.ltb sw (s_bits t)) eqn:C.
  - apply andb_true_iff in C. destruct C as [C1 C2]. rewrite C1.
    rewrite of_Z_testbit, to_Z_testbit. reflexivity.
  - rewrite !norm_testbit. unfold xbit.
    destruct (Nat.ltb k (s_bits t)) eqn:E1; [|reflexivity].
    destruct (Nat.ltb k sw) eqn:E2; [reflexivity|]. cbn.
    apply Nat.ltb_lt in E1. apply Nat.ltb_ge in E2.
    destruct (s_signed t); [|reflexivity]. cbn in C. apply Nat.ltb_ge in C. lia.
Qed.

Lemma resize_lt sw n t : resize sw n t < pow2 (s_bits t).
Proof.
  unfold resize. destruct (s_signed t && Nat.ltb sw (s_bits t)).
  - unfold of_Z.
    assert (P : (0 < Z.of_N (pow2 (s_bits t)))%Z) by (pose proof (pow2_nz (s_bits t)); lia).
    pose proof (Z.mod_pos_bound (to_Z true sw n) _ P) as B. lia.
  - apply norm_lt.
Qed.

Lemma opnd_val_lt vs o : opnd_val vs o < pow2 (opnd_bits o).
Proof.
  destruct o as [i t|cw cv t]; cbn [opnd_val opnd_bits opnd_ty].
  - destruct (nth i vs (0%nat, 0)). apply resize_lt.
  - apply resize_lt.
Qed.

(* ------------------------------------------- arithmetic of Mini.arith *)
Lemma Zpow2_pos w : (0 < 2 ^ Z.of_nat w)%Z.
Proof. apply Z.pow_pos_nonneg; lia. Qed.

Lemma Zbits_inj_nat (a b : Z) :
  (forall k : nat, Z.testbit a (Z.of_nat k) = Z.testbit b (Z.of_nat k)) -> a = b.
Proof.
  intros H. apply Z.bits_inj'. intros n Hn. rewrite <- (Z2Nat.id n) by exact Hn. apply H.
Qed.

Lemma Zmod_pow2_testbit (z : Z) w k :
  Z.testbit (z mod 2 ^ Z.of_nat w) (Z.of_nat k) = Nat.ltb k w && Z.testbit z (Z.of_nat k).
Proof.
  destruct (Nat.ltb k w) eqn:E.
  - apply Nat.ltb_lt in E. rewrite Z.mod_pow2_bits_low by lia. reflexivity.
  - apply Nat.ltb_ge in E. rewrite Z.mod_pow2_bits_high by lia. reflexivity.
Qed.

Lemma to_Z_mod sg w wo a : (wo <= w)%nat ->
  (to_Z sg w a mod 2 ^ Z.of_nat wo)%Z = (Z.of_N a mod 2 ^ Z.of_nat wo)%Z.
Proof.
  intros H. apply Zbits_inj_nat. intros k. rewrite !Zmod_pow2_testbit, to_Z_testbit.
  destruct (Nat.ltb k wo) eqn:E; [|reflexivity]. apply Nat.ltb_lt in E. unfold xbit.
  replace (Nat.ltb k w) with true by (symmetry; apply Nat.ltb_lt; lia).
  rewrite <- nat_N_Z, N2Z.inj_testbit. reflexivity.
Qed.

Lemma ofZ_norm wo w z : (wo <= w)%nat -> Z.of_N (norm wo (of_Z w z)) = (z mod 2 ^ Z.of_nat wo)%Z.
Proof.
  intros H. replace (norm wo (of_Z w z)) with (of_Z wo z).
  - unfold of_Z. rewrite Zpow2, Z2N.id; [reflexivity|]. apply Z.mod_pos_bound, Zpow2_pos.
  - apply bits_inj_nat. intros k. rewrite norm_testbit, !of_Z_testbit.
    destruct (Nat.ltb k wo) eqn:E; [|reflexivity]. apply Nat.ltb_lt in E.
    replace (Nat.ltb k w) with true by (symmetry; apply Nat.ltb_lt; lia). reflexivity.
Qed.

Lemma ZofN_mod_pow2 x wo : Z.of_N (x mod 2 ^ N.of_nat wo) = (Z.of_N x mod 2 ^ Z.of_nat wo)%Z.
Proof.
  rewrite N2Z.inj_mod. rewrite N2Z.inj_pow, nat_N_Z. reflexivity.
Qed.

Lemma arith_add sg w wo a b : (wo <= w)%nat ->
  norm wo (arith Add sg w a b) = (a + b) mod 2 ^ N.of_nat wo.
Proof.
  intros H. apply N2Z.inj. cbn [arith]. rewrite ofZ_norm by exact H.
  rewrite ZofN_mod_pow2, N2Z.inj_add.
  rewrite Zplus_mod, !(to_Z_mod sg w wo) by exact H. rewrite <- Zplus_mod. reflexivity.
Qed.

Lemma arith_mul sg w wo a b : (wo <= w)%nat ->
  norm wo (arith Mul sg w a b) = (a * b) mod 2 ^ N.of_nat wo.
Proof.
  intros H. apply N2Z.inj. cbn [arith]. rewrite ofZ_norm by exact H.
  rewrite ZofN_mod_pow2, N2Z.inj_mul.
  rewrite Zmult_mod, !(to_Z_mod sg w wo) by exact H. rewrite <- Zmult_mod. reflexivity.
Qed.

Lemma arith_sub sg w wo a b : (wo <= w)%nat ->
  norm wo (arith Sub sg w a b) =
  (a + 2 ^ N.of_nat wo - b mod 2 ^ N.of_nat wo) mod 2 ^ N.of_nat wo.
Proof.
  intros H. apply N2Z.inj. cbn [arith]. rewrite ofZ_norm by exact H.
  assert (NZ : 2 ^ N.of_nat wo <> 0) by (apply N.pow_nonzero; discriminate).
  pose proof (N.mod_lt b _ NZ) as Bb.
  rewrite ZofN_mod_pow2, N2Z.inj_sub by lia. rewrite N2Z.inj_add, ZofN_mod_pow2.
  rewrite N2Z.inj_pow, nat_N_Z. change (Z.of_N 2) with 2%Z.
  set (M := (2 ^ Z.of_nat wo)%Z).
  replace (Z.of_N a + M - Z.of_N b mod M)%Z with (Z.of_N a - Z.of_N b mod M + 1 * M)%Z by lia.
  rewrite Z_mod_plus_full, Zminus_mod_idemp_r.
  rewrite Zminus_mod. unfold M. rewrite !(to_Z_mod sg w wo) by exact H. rewrite <- Zminus_mod. reflexivity.
Qed.

Definition bitop (op : binop) : N -> N -> N :=
  match op with BAnd => N.land | BOr => N.lor | BXor => N.lxor | _ => N.ldiff end.

Lemma arith_bitwise op sg w wo a b : (wo <= w)%nat ->
  match op with BAnd | BOr | BXor | BAndNot => True | _ => False end ->
  norm wo (arith op sg w a b) = bitop op a b mod 2 ^ N.of_nat wo.
Proof.
  intros H Hop. change (bitop op a b mod 2 ^ N.of_nat wo) with (norm wo (bitop op a b)).
  apply bits_inj_nat. intros k. rewrite !norm_testbit.
  destruct (Nat.ltb k wo) eqn:E; [|reflexivity]. apply Nat.ltb_lt in E. cbn [andb].
  assert (Ew : Nat.ltb k w = true) by (apply Nat.ltb_lt; lia).
  destruct op; try contradiction; cbn [arith bitop]; rewrite norm_testbit, Ew; cbn [andb];
    rewrite ?N.land_spec, ?N.lor_spec, ?N.lxor_spec, ?N.ldiff_spec, !norm_testbit, Ew; reflexivity.
Qed.

Lemma to_Z_unsigned w a : a < pow2 w -> to_Z false w a = Z.of_N a.
Proof. intros H. unfold to_Z. cbn [andb]. rewrite norm_small by exact H. reflexivity. Qed.

Lemma ofb_b2n b : ofb b = N.b2n b. Proof. destruct b; reflexivity. Qed.

Lemma arith_ucmp w a b : a < pow2 w -> b < pow2 w ->
  arith Lt false w a b = N.b2n (a <? b) /\ arith Le false w a b = N.b2n (a <=? b) /\
  arith Gt false w a b = N.b2n (b <? a) /\ arith Ge false w a b = N.b2n (b <=? a) /\
  arith Eq false w a b = N.b2n (a =? b) /\ arith Ne false w a b = N.b2n (negb (a =? b)).
Proof.
  intros Ha Hb. cbn [arith]. rewrite !to_Z_unsigned, !norm_small, !ofb_b2n by assumption.
  unfold Z.ltb, Z.leb, N.ltb, N.leb. rewrite !N2Z.inj_compare. repeat split; reflexivity.
Qed.

Lemma arith_eq_any sg w a b : a < pow2 w -> b < pow2 w ->
  arith Eq sg w a b = N.b2n (a =? b) /\ arith Ne sg w a b = N.b2n (negb (a =? b)).
Proof. intros Ha Hb. cbn [arith]. rewrite !norm_small, !ofb_b2n by assumption. split; reflexivity. Qed.

Lemma valN_single e w : valN e [w] = N.b2n (e w).
Proof. rewrite valN_cons, valN_nil. lia. Qed.

Lemma b2n_norm1 b : norm 1 (N.b2n b) = N.b2n b.
Proof. destruct b; reflexivity. Qed.

(* ------------------------------------------------ semantic invariant *)
(* in valuation e the wires registered for every value have the value's width
   and carry the value *)
Definition inv (e : Emit.env) (vals : list (list wire)) (vs : list Ssa.sval) : Prop :=
  Forall2 (fun ws sv => length ws = fst sv /\ valN e ws = snd sv) vals vs.

Lemma inv_nth e vals vs i : inv e vals vs ->
  length (nth i vals []) = fst (nth i vs (0%nat, 0)) /\
  valN e (nth i vals []) = snd (nth i vs (0%nat, 0)).
Proof.
  intros H. revert i. induction H as [|ws sv vals vs H0 H IH]; intros i.
  - destruct i; split; reflexivity.
  - destruct i; [exact H0 | apply IH].
Qed.

Lemma e_nth (e : Emit.env) w d k :
  e (nth k w d) = if Nat.ltb k (length w) then N.testbit (valN e w) (N.of_nat k) else e d.
Proof.
  rewrite (valN_testbit e w d). destruct (Nat.ltb k (length w)) eqn:E; [reflexivity|].
  apply Nat.ltb_ge in E. rewrite nth_overflow by exact E. reflexivity.
Qed.

Lemma last_is_nth (w : list wire) d : last w d = nth (length w - 1) w d.
Proof.
  induction w as [|a w IH]; [reflexivity|]. destruct w as [|b w]; [reflexivity|].
  change (last (a :: b :: w) d) with (last (b :: w) d). rewrite IH.
  cbn [length]. replace (S (S (length w)) - 1)%nat with (S (S (length w) - 1)) by lia.
  reflexivity.
Qed.

Lemma e_last (e : Emit.env) (w : list wire) : (1 <= length w)%nat ->
  e (last w 0) = N.testbit (valN e w) (N.of_nat (length w - 1)).
Proof.
  intros H. rewrite last_is_nth, e_nth.
  replace (Nat.ltb (length w - 1) (length w)) with true by (symmetry; apply Nat.ltb_lt; lia).
  reflexivity.
Qed.

Lemma okp_cg_resize tg w t :
  okp tg (cg_resize w t) (fun w' => length w' = s_bits t)
      (fun w' e => valN e w' = resize (length w) (valN e w) t).
Proof.
  unfold cg_resize. destruct (Nat.eqb (length w) (s_bits t)) eqn:E.
  - apply Nat.eqb_eq in E. apply okp_ret; [exact E|]. intros e.
    apply bits_inj_nat. intros k. rewrite resize_testbit. unfold xbit. rewrite <- E.
    destruct (Nat.ltb k (length w)) eqn:K; [reflexivity|].
    rewrite (valN_testbit e w 0), K. reflexivity.
  - eapply okp_bind with
      (R := fun _ => True)
      (P := fun pad e => e pad = s_signed t && Nat.ltb 0 (length w)
                                 && N.testbit (valN e w) (N.of_nat (length w - 1))).
    + destruct (s_signed t && Nat.ltb 0 (length w)) eqn:C.
      * apply andb_true_iff in C. destruct C as [C1 C2]. apply Nat.ltb_lt in C2.
        apply okp_ret; [exact I|]. intros e. rewrite e_last by lia. reflexivity.
      * eapply okp_weaken; [apply okp_of_okm, okm_zero| auto |].
        cbv beta. intros z e _ Hz. rewrite Hz. reflexivity.
    + intros pad _. cbv beta. apply okp_ret.
      * rewrite map_length, seq_length. reflexivity.
      * intros e Hp. apply bits_inj_nat. intros k.
        rewrite valN_map_seq, resize_testbit, e_nth, Hp. unfold xbit. reflexivity.
Qed.

Lemma valN_const_wires (e : Emit.env) zw ow cw cv : e zw = false -> e ow = true ->
  valN e (const_wires zw ow cw cv) = norm cw cv.
Proof.
  intros Hz Ho. apply bits_inj_nat. intros k. unfold const_wires.
  rewrite valN_map_seq, norm_testbit. destruct (N.testbit cv (N.of_nat k)); rewrite ?Hz, ?Ho; reflexivity.
Qed.

Lemma resize_norm cw cv t : resize cw (norm cw cv) t = resize cw cv t.
Proof.
  apply bits_inj_nat. intros k. rewrite !resize_testbit. f_equal. unfold xbit.
  destruct (Nat.ltb k cw) eqn:K.
  - rewrite norm_testbit, K. reflexivity.
  - destruct (Nat.ltb 0 cw) eqn:Z; [|rewrite !andb_false_r; reflexivity].
    apply Nat.ltb_lt in Z. rewrite norm_testbit.
    replace (Nat.ltb (cw - 1) cw) with true by (symmetry; apply Nat.ltb_lt; lia). reflexivity.
Qed.

Lemma okp_cg_opnd tg vals vs o :
  okp tg (cg_opnd vals o) (fun w => length w = opnd_bits o)
      (fun w e => inv e vals vs -> valN e w = opnd_val vs o).
Proof.
  destruct o as [i t|cw cv t]; cbn [cg_opnd opnd_bits opnd_ty opnd_val].
  - eapply okp_weaken; [apply okp_cg_resize|auto|]. cbv beta. intros w e _ H I.
    destruct (inv_nth e vals vs i I) as [L V]. rewrite H, L, V.
    destruct (nth i vs (0%nat, 0)). reflexivity.
  - eapply okp_bind; [apply okp_of_okm, okm_zero|]. intros zw _. cbv beta.
    eapply okp_bind; [apply okp_of_okm, okm_one|]. intros ow _. cbv beta.
    eapply okp_weaken; [apply okp_cg_resize|auto|]. cbv beta. intros w e _ H Ho Hz _.
    rewrite H, valN_const_wires by assumption. unfold const_wires.
    rewrite map_length, seq_length. apply resize_norm.
Qed.

Lemma okp_mapM tg {A B} (f : A -> M B) (R : A -> B -> Prop) (P : A -> B -> Emit.env -> Prop) l :
  (forall a, okp tg (f a) (R a) (P a)) ->
  okp tg (mapM f l) (fun bs => Forall2 R l bs) (fun bs e => Forall2 (fun a b => P a b e) l bs).
Proof.
  intros H. induction l as [|a l IH]; cbn [mapM].
  - apply okp_ret; constructor.
  - eapply okp_bind; [apply H|]. intros b Rb. cbv beta.
    eapply okp_bind; [apply IH|]. intros bs Rbs. cbv beta.
    apply okp_ret; [constructor; assumption|]. intros e Hbs Hb. constructor; assumption.
Qed.

(* ------------------------------------------------ per-opcode: semantics *)
Ltac split_wf H :=
  repeat match type of H with
         | (_ && _ = true) => let H2 := fresh "W" in apply andb_true_iff in H; destruct H as [H H2]
         end.

Ltac natb :=
  repeat match goal with
         | H : Nat.eqb _ _ = true |- _ => apply Nat.eqb_eq in H
         | H : Nat.leb _ _ = true |- _ => apply Nat.leb_le in H
         | H : Nat.ltb _ _ = true |- _ => apply Nat.ltb_lt in H
         end.

(* signed comparison on zero-padded operands of any two widths *)
Theorem okm_int_comparator_pad t cin x y r0 k :
  Nat.max (length x) (length y) = S k ->
  okm t (int_comparator cin x y [r0])
      (fun _ e => e r0 = if (CmpProof.sval (S k) (valN e x) =? sval (S k) (valN e y))%Z then e cin
                         else (CmpProof.sval (S k) (valN e y) <? sval (S k) (valN e x))%Z).
Proof.
  intros Lm. unfold int_comparator.
  pstep okp_zero_pad. destruct a as [x' y']. cbn [fst snd] in *. destruct H as [Sx Sy].
  pose proof (pad_shape_len _ _ _ Sx) as Lx. pose proof (pad_shape_len _ _ _ Sy) as Ly.
  assert (Lx' : length x' = S k) by lia. assert (Ly' : length y' = S k) by lia.
  replace (length y' - 1)%nat with k by lia.
  mstepn (okm_cmp_loop t x' y' cin None ltac:(lia)) cout.
  mstepn okm_fresh cond. mstepn okm_emit u.
  eapply okm_weaken; [apply okm_new_mux_bits; reflexivity|].
  cbn. intros _ e H H2 _ H1 [Zx Zy].
  assert (H0 : e r0 = if e cond then e (nth k y' 0) else e cout)
    by (destruct (e cond); injection H; auto).
  rewrite H0, H2, H1. clear H H0 H1 H2.
  rewrite <- (pad_val e x' x _ Sx Zx), <- (pad_val e y' y _ Sy Zy).
  destruct (sign_split e x' k Lx') as (xl & Hxl & ->).
  destruct (sign_split e y' k Ly') as (yl & Hyl & ->).
  apply signed_cmp; assumption.
Qed.

Lemma testbit_top v n : (1 <= n)%nat -> v < 2 ^ N.of_nat n ->
  N.testbit v (N.of_nat (n - 1)) = (2 ^ N.of_nat (n - 1) <=? v).
Proof.
  intros Hn Hv. rewrite N.testbit_eqb. set (P := 2 ^ N.of_nat (n - 1)).
  assert (HP : 2 ^ N.of_nat n = 2 * P).
  { unfold P. replace n with (S (n - 1)) at 1 by lia. apply pow2_S. }
  assert (P0 : 0 < P) by apply pow2_pos.
  assert (Q : v / P < 2) by (apply N.div_lt_upper_bound; lia).
  destruct (N.leb_spec P v).
  - assert (1 <= v / P) by (apply N.div_le_lower_bound; lia).
    replace (v / P) with 1 by lia. reflexivity.
  - rewrite N.div_small by lia. reflexivity.
Qed.

Lemma sval_to_Z n v : (1 <= n)%nat -> v < 2 ^ N.of_nat n -> CmpProof.sval n v = to_Z true n v.
Proof.
  intros Hn Hv. unfold CmpProof.sval, to_Z. rewrite norm_small by exact Hv.
  rewrite testbit_top by assumption. rewrite Zpow2. cbn [andb].
  replace (Nat.eqb n 0) with false by (symmetry; apply Nat.eqb_neq; lia). cbn [negb]. rewrite andb_true_r.
  destruct (N.ltb_spec v (2 ^ N.of_nat (n - 1))), (N.leb_spec (2 ^ N.of_nat (n - 1)) v); try reflexivity; lia.
Qed.

Lemma okm_int_cmp_pad t x y r0 n : Nat.max (length x) (length y) = n -> (1 <= n)%nat ->
  okm t (int_gt x y [r0]) (fun _ e => e r0 = (to_Z true n (valN e y) <? to_Z true n (valN e x))%Z) /\
  okm t (int_ge x y [r0]) (fun _ e => e r0 = (to_Z true n (valN e y) <=? to_Z true n (valN e x))%Z) /\
  okm t (int_lt x y [r0]) (fun _ e => e r0 = (to_Z true n (valN e x) <? to_Z true n (valN e y))%Z) /\
  okm t (int_le x y [r0]) (fun _ e => e r0 = (to_Z true n (valN e x) <=? to_Z true n (valN e y))%Z).
Proof.
  intros Lm Ln. destruct n as [|k]; [lia|].
  assert (Bx : forall e : Emit.env, valN e x < 2 ^ N.of_nat (S k)).
  { intros e. eapply N.lt_le_trans; [apply valN_lt|]. apply N.pow_le_mono_r; lia. }
  assert (By : forall e : Emit.env, valN e y < 2 ^ N.of_nat (S k)).
  { intros e. eapply N.lt_le_trans; [apply valN_lt|]. apply N.pow_le_mono_r; lia. }
  assert (Lm' : Nat.max (length y) (length x) = S k) by lia.
  repeat split.
  - unfold int_gt. mstepn okm_zero c.
    eapply okm_weaken; [apply (okm_int_comparator_pad t c x y r0 k Lm)|].
    cbn. intros _ e H Hc. rewrite H, Hc, cmpZ_gt_form, !sval_to_Z by (auto; lia). reflexivity.
  - unfold int_ge. mstepn okm_one c.
    eapply okm_weaken; [apply (okm_int_comparator_pad t c x y r0 k Lm)|].
    cbn. intros _ e H Hc. rewrite H, Hc, cmpZ_ge_form, !sval_to_Z by (auto; lia). reflexivity.
  - unfold int_lt. mstepn okm_zero c.
    eapply okm_weaken; [apply (okm_int_comparator_pad t c y x r0 k Lm')|].
    cbn. intros _ e H Hc. rewrite H, Hc, cmpZ_gt_form, !sval_to_Z by (auto; lia). reflexivity.
  - unfold int_le. mstepn okm_one c.
    eapply okm_weaken; [apply (okm_int_comparator_pad t c y x r0 k Lm')|].
    cbn. intros _ e H Hc. rewrite H, Hc, cmpZ_ge_form, !sval_to_Z by (auto; lia). reflexivity.
Qed.

(* ---- outputs wired by SetWires ---- *)
Lemma wired_val (e : Emit.env) (f : nat -> wire) ob X :
  (forall k, (k < ob)%nat -> e (f k) = N.testbit X (N.of_nat k)) ->
  valN e (map f (seq 0 ob)) = norm ob X.
Proof.
  intros H. apply bits_inj_nat. intros k. rewrite valN_map_seq, norm_testbit.
  destruct (Nat.ltb k ob) eqn:E; [|reflexivity]. apply Nat.ltb_lt in E. rewrite H by exact E. reflexivity.
Qed.

Lemma valN_high (e : Emit.env) (w : list wire) k : (length w <= k)%nat ->
  N.testbit (valN e w) (N.of_nat k) = false.
Proof.
  intros H. rewrite (valN_testbit e w 0).
  replace (Nat.ltb k (length w)) with false by (symmetry; apply Nat.ltb_ge; lia). reflexivity.
Qed.

(* wire k of w, or the pad wire d beyond its end: bit k of the value, or e d *)
Lemma e_nth_zero (e : Emit.env) (w : list wire) z k : e z = false ->
  e (nth k w z) = N.testbit (valN e w) (N.of_nat k).
Proof.
  intros Hz. rewrite e_nth. destruct (Nat.ltb k (length w)) eqn:E; [reflexivity|].
  apply Nat.ltb_ge in E. rewrite valN_high by exact E. exact Hz.
Qed.

Lemma e_nth_sign (e : Emit.env) (w : list wire) k : (1 <= length w)%nat ->
  e (nth k w (last w 0)) = xbit true (length w) (valN e w) k.
Proof.
  intros H. rewrite e_nth, e_last by exact H. unfold xbit.
  replace (Nat.ltb 0 (length w)) with true by (symmetry; apply Nat.ltb_lt; lia). reflexivity.
Qed.

Lemma xbit_false_val (e : Emit.env) (w : list wire) k :
  xbit false (length w) (valN e w) k = N.testbit (valN e w) (N.of_nat k).
Proof.
  unfold xbit. destruct (Nat.ltb k (length w)) eqn:E; [reflexivity|].
  apply Nat.ltb_ge in E. cbn [andb]. symmetry. apply valN_high. exact E.
Qed.

Lemma pow2_add a b : pow2 (a + b) = pow2 a * pow2 b.
Proof. unfold pow2. rewrite Nat2N.inj_add, N.pow_add_r. reflexivity. Qed.

Lemma testbit_add_shift lo x k i : lo < pow2 k ->
  N.testbit (lo + x * pow2 k) (N.of_nat i) =
  if Nat.ltb i k then N.testbit lo (N.of_nat i) else N.testbit x (N.of_nat (i - k)).
Proof.
  intros H. unfold pow2 in *. destruct (Nat.ltb i k) eqn:E.
  - apply Nat.ltb_lt in E.
    rewrite <- (N.mod_pow2_bits_low (lo + x * 2 ^ N.of_nat k) (N.of_nat k)) by lia.
    rewrite N.mod_add by (apply N.pow_nonzero; discriminate). rewrite N.mod_small by exact H. reflexivity.
  - apply Nat.ltb_ge in E. replace (N.of_nat i) with (N.of_nat (i - k) + N.of_nat k) by lia.
    rewrite <- N.div_pow2_bits. rewrite N.div_add by (apply N.pow_nonzero; discriminate).
    rewrite N.div_small by exact H. reflexivity.
Qed.

Lemma div_pow2_testbit a off k :
  N.testbit (a / pow2 off) (N.of_nat k) = N.testbit a (N.of_nat (k + off)).
Proof. unfold pow2. rewrite N.div_pow2_bits. f_equal. lia. Qed.

Lemma store_sem_testbit tw off w a v i :
  N.testbit (store_sem tw off w a v) (N.of_nat i) =
  Nat.ltb i tw &&
  (if Nat.ltb i off || Nat.leb (off + w) i then N.testbit a (N.of_nat i)
   else N.testbit v (N.of_nat (i - off))).
Proof.
  unfold store_sem. rewrite norm_testbit.
  destruct (Nat.ltb i tw) eqn:Et; [|reflexivity]. cbn [andb].
  set (a' := norm tw a).
  replace (norm off a' + norm w v * pow2 off + a' / pow2 (off + w) * pow2 (off + w))
    with (norm off a' + (norm w v + a' / pow2 (off + w) * pow2 w) * pow2 off)
    by (rewrite pow2_add; ring).
  rewrite testbit_add_shift by apply norm_lt.
  destruct (Nat.ltb i off) eqn:Eo; cbn [orb].
  - unfold a'. rewrite !norm_testbit, Eo, Et. reflexivity.
  - apply Nat.ltb_ge in Eo. rewrite testbit_add_shift by apply norm_lt.
    destruct (Nat.leb (off + w) i) eqn:Ew.
    + apply Nat.leb_le in Ew. replace (Nat.ltb (i - off) w) with false by (symmetry; apply Nat.ltb_ge; lia).
      rewrite div_pow2_testbit. unfold a'. rewrite norm_testbit.
      replace (i - off - w + (off + w))%nat with i by lia. rewrite Et. reflexivity.
    + apply Nat.leb_gt in Ew. replace (Nat.ltb (i - off) w) with true by (symmetry; apply Nat.ltb_lt; lia).
      rewrite norm_testbit. replace (Nat.ltb (i - off) w) with true by (symmetry; apply Nat.ltb_lt; lia).
      reflexivity.
Qed.

Lemma slice_sem_testbit off w a k :
  N.testbit (slice_sem off w a) (N.of_nat k) = Nat.ltb k w && N.testbit a (N.of_nat (k + off)).
Proof. unfold slice_sem. rewrite norm_testbit, div_pow2_testbit. reflexivity. Qed.

Lemma shl_testbit x c k :
  N.testbit (x * pow2 c) (N.of_nat k) = Nat.leb c k && N.testbit x (N.of_nat (k - c)).
Proof.
  unfold pow2. destruct (Nat.leb c k) eqn:E.
  - apply Nat.leb_le in E. rewrite N.mul_pow2_bits_high by lia. cbn [andb]. f_equal. lia.
  - apply Nat.leb_gt in E. rewrite N.mul_pow2_bits_low by lia. reflexivity.
Qed.

Lemma shr_testbit sg b0 a c ob k :
  N.testbit (of_Z ob (Z.shiftr (to_Z sg b0 a) (Z.of_nat c))) (N.of_nat k) =
  Nat.ltb k ob && xbit sg b0 a (k + c).
Proof.
  rewrite of_Z_testbit, Z.shiftr_spec by lia. rewrite <- Nat2Z.inj_add, to_Z_testbit. reflexivity.
Qed.

(* ---- not ---- *)
Lemma okm_inv_loop t : forall x o, (length o <= length x)%nat ->
  okm t (inv_loop x o)
      (fun _ e => forall k, (k < length o)%nat -> e (nth k o 0) = negb (e (nth k x 0))).
Proof.
  induction x as [|xi x IH]; intros o L.
  - destruct o; [|cbn in L; lia]. cbn. apply okm_ret. intros e k Hk. cbn in Hk. lia.
  - destruct o as [|oi o].
    + cbn. apply okm_ret. intros e k Hk. cbn in Hk. lia.
    + cbn [inv_loop]. eapply okm_bind; [apply okm_cc_inv|]. intros u. cbv beta.
      eapply okm_weaken; [apply IH; cbn in L; lia|]. cbv beta.
      intros _ e H H0 k Hk. destruct k; cbn [nth]; [exact H0|]. apply H. cbn in Hk. lia.
Qed.

Lemma not_val (e : Emit.env) (x o : list wire) wo a : length o = wo -> valN e x = a ->
  (forall k, (k < length o)%nat -> e (nth k o 0) = negb (e (nth k x 0))) ->
  (wo <= length x)%nat ->
  valN e o = N.lxor (pow2 wo - 1) (norm wo a).
Proof.
  intros Lo Va H Lx. apply bits_inj_nat. intros k.
  rewrite N.lxor_spec, norm_testbit, (valN_testbit e o 0), Lo.
  replace (pow2 wo - 1) with (N.ones (N.of_nat wo)) by (rewrite N.ones_equiv, N.sub_1_r; reflexivity).
  destruct (Nat.ltb k wo) eqn:E.
  - apply Nat.ltb_lt in E. rewrite N.ones_spec_low by lia. rewrite H by lia.
    rewrite e_nth. replace (Nat.ltb k (length x)) with true by (symmetry; apply Nat.ltb_lt; lia).
    rewrite Va. reflexivity.
  - apply Nat.ltb_ge in E. rewrite N.ones_spec_high by lia. reflexivity.
Qed.

(* ---- builders writing into fresh destinations ---- *)
Lemma okm_bld t ob (b : list wire -> M (list wire)) (Q : list wire -> Emit.env -> Prop) :
  (forall o, length o = ob -> okm t (b o) Q) -> okm t (o <- fresh_n ob;; b o) Q.
Proof.
  intros H. eapply okm_bind_p; [apply okp_fresh_n|]. intros o Lo. cbv beta.
  eapply okm_weaken; [apply H, Lo|]. auto.
Qed.

Lemma okm_bldu t ob (b : list wire -> M unit) (Q : list wire -> Emit.env -> Prop) :
  (forall o, length o = ob -> okm t (b o) (fun _ e => Q o e)) ->
  okm t (o <- fresh_n ob;; b o;; ret o) Q.
Proof.
  intros H. eapply okm_bind_p; [apply okp_fresh_n|]. intros o Lo. cbv beta.
  eapply okm_bind; [apply H, Lo|]. intros u. cbv beta. apply okm_ret. auto.
Qed.

Lemma len1 (o : list wire) : length o = 1%nat -> exists r0, o = [r0].
Proof. destruct o as [|r0 [|]]; try discriminate. eauto. Qed.

Lemma odd_b2n b : N.odd (N.b2n b) = b. Proof. destruct b; reflexivity. Qed.

Lemma land_b2n a b : norm 1 (N.land (norm 1 (N.b2n a)) (norm 1 (N.b2n b))) = N.b2n (a && b).
Proof. destruct a, b; reflexivity. Qed.
Lemma lor_b2n a b : norm 1 (N.lor (norm 1 (N.b2n a)) (norm 1 (N.b2n b))) = N.b2n (a || b).
Proof. destruct a, b; reflexivity. Qed.

Lemma of_Z_lt w z : of_Z w z < pow2 w.
Proof.
  unfold of_Z.
  assert (P : (0 < Z.of_N (pow2 w))%Z) by (pose proof (pow2_nz w); lia).
  pose proof (Z.mod_pos_bound z _ P) as B. lia.
Qed.

Lemma ltb_true a b : (a < b)%nat -> Nat.ltb a b = true.
Proof. intros. apply Nat.ltb_lt. assumption. Qed.

(* ---- index ---- *)
Lemma index_bits_eq_gen : forall fuel bits len n,
  fst (Index.index_bits fuel bits len n) = Mini.index_bits_from len bits fuel n.
Proof.
  induction fuel as [|f IH]; intros bits len n; cbn [Index.index_bits Mini.index_bits_from]; [reflexivity|].
  destruct (Nat.ltb len n); [apply IH|reflexivity].
Qed.

Lemma index_nbits_eq n : index_nbits n = Mini.index_bits n.
Proof. unfold index_nbits, Mini.index_bits. apply index_bits_eq_gen. Qed.

Lemma valN_skipn (e : Emit.env) : forall off (w : list wire), valN e (skipn off w) = valN e w / pow2 off.
Proof.
  induction off as [|off IH]; intros w.
  - cbn [skipn]. unfold pow2. cbn. rewrite N.div_1_r. reflexivity.
  - destruct w as [|x w]; cbn [skipn].
    + rewrite valN_nil. symmetry. apply N.div_0_l, pow2_nz.
    + rewrite IH, valN_cons. unfold pow2. rewrite pow2_S.
      rewrite <- N.div_div by (try apply N.pow_nonzero; discriminate).
      f_equal. rewrite N.add_comm, N.mul_comm, N.div_add_l by discriminate.
      rewrite (N.div_small (N.b2n (e x)) 2) by (destruct (e x); cbn; lia). lia.
Qed.

Lemma valN_elem (e : Emit.env) size (arr : list wire) k :
  valN e (elem size arr k) = norm size (valN e arr / pow2 (k * size)).
Proof. unfold elem. rewrite valN_firstn, valN_skipn. reflexivity. Qed.

(* ---- unsigned division ---- *)
Lemma of_Z_ofN w x : of_Z w (Z.of_N x) = norm w x.
Proof. unfold of_Z, norm. rewrite <- N2Z.inj_mod, N2Z.id. reflexivity. Qed.

Lemma of_Z_m1 w : of_Z w (-1) = pow2 w - 1.
Proof.
  unfold of_Z. pose proof (pow2_nz w) as NZ.
  assert (E : ((-1) mod Z.of_N (pow2 w) = Z.of_N (pow2 w) - 1)%Z).
  { symmetry. apply Z.mod_unique with (q := (-1)%Z); lia. }
  rewrite E. lia.
Qed.

Lemma arith_udiv w a b : a < pow2 w -> b < pow2 w ->
  norm w (arith Div false w a b) = dq a b w.
Proof.
  intros Ha Hb. cbn [arith]. rewrite !to_Z_unsigned by assumption. unfold dq.
  destruct (N.eqb_spec b 0) as [E|E].
  - subst b. cbn [Z.of_N Z.eqb]. replace (Z.of_N a <? 0)%Z with false by (symmetry; apply Z.ltb_ge; lia).
    rewrite of_Z_m1. apply norm_small. pose proof (pow2_nz w). unfold pow2 in *. lia.
  - replace (Z.of_N b =? 0)%Z with false by (symmetry; apply Z.eqb_neq; lia).
    rewrite Z.quot_div_nonneg by lia. rewrite <- N2Z.inj_div, of_Z_ofN.
    rewrite norm_norm_le by lia. apply norm_small.
    eapply N.le_lt_trans; [|exact Ha]. apply N.div_le_upper_bound; [exact E|]. nia.
Qed.

Lemma arith_umod w a b : a < pow2 w -> b < pow2 w ->
  norm w (arith Mod false w a b) = dr a b.
Proof.
  intros Ha Hb. cbn [arith]. rewrite !to_Z_unsigned by assumption. unfold dr.
  destruct (N.eqb_spec b 0) as [E|E].
  - subst b. cbn [Z.of_N Z.eqb]. rewrite Z.abs_eq by lia. rewrite of_Z_ofN.
    rewrite norm_norm_le by lia. apply norm_small, Ha.
  - replace (Z.of_N b =? 0)%Z with false by (symmetry; apply Z.eqb_neq; lia).
    rewrite !Z.abs_eq by lia. rewrite Z.rem_mod_nonneg by lia. rewrite <- N2Z.inj_mod, of_Z_ofN.
    rewrite norm_norm_le by lia. apply norm_small.
    eapply N.lt_trans; [apply N.mod_lt; exact E|exact Hb].
Qed.

(* ---- signed division ---- *)
Definition magN (n : nat) (a : N) : N :=
  if N.testbit a (N.of_nat (n - 1)) then negN n a else a.

Lemma negN_lt n v : negN n v < pow2 n.
Proof. unfold negN, pow2. apply N.mod_lt, N.pow_nonzero. discriminate. Qed.

Lemma magN_lt n a : a < pow2 n -> magN n a < pow2 n.
Proof. intros H. unfold magN. destruct (N.testbit a (N.of_nat (n - 1))); [apply negN_lt|exact H]. Qed.

Lemma to_Z_sign n a : (1 <= n)%nat -> a < pow2 n ->
  (to_Z true n a <? 0)%Z = N.testbit a (N.of_nat (n - 1)) /\
  Z.abs (to_Z true n a) = Z.of_N (magN n a).
Proof.
  intros Hn Ha. unfold to_Z, magN. rewrite norm_small by exact Ha. cbn [andb].
  replace (Nat.eqb n 0) with false by (symmetry; apply Nat.eqb_neq; lia). cbn [negb]. rewrite andb_true_r.
  destruct (N.testbit a (N.of_nat (n - 1))) eqn:T.
  - assert (A0 : a <> 0) by (intros ->; rewrite N.bits_0 in T; discriminate).
    unfold negN. fold (pow2 n). rewrite N.mod_small by lia.
    split; [apply Z.ltb_lt; lia | lia].
  - split; [apply Z.ltb_ge; lia | lia].
Qed.

Lemma to_Z_zero n a : (1 <= n)%nat -> a < pow2 n -> (to_Z true n a = 0)%Z <-> a = 0.
Proof.
  intros Hn Ha. unfold to_Z. rewrite norm_small by exact Ha. cbn [andb].
  destruct (N.testbit a (N.of_nat (n - 1))) eqn:T; cbn [andb].
  - assert (A0 : a <> 0) by (intros ->; rewrite N.bits_0 in T; discriminate).
    destruct (negb (Nat.eqb n 0)); lia.
  - lia.
Qed.

Lemma magN_zero n a : a < pow2 n -> magN n a = 0 <-> a = 0.
Proof.
  intros Ha. unfold magN. destruct (N.testbit a (N.of_nat (n - 1))) eqn:T.
  - assert (A0 : a <> 0) by (intros ->; rewrite N.bits_0 in T; discriminate).
    unfold negN. fold (pow2 n). rewrite N.mod_small by lia. lia.
  - tauto.
Qed.

Lemma Zquot_signs (x y : Z) : y <> 0%Z ->
  Z.quot x y = if xorb (x <? 0)%Z (y <? 0)%Z then (- (Z.abs x / Z.abs y))%Z else (Z.abs x / Z.abs y)%Z.
Proof.
  intros Hy.
  destruct (Z.ltb_spec x 0), (Z.ltb_spec y 0); cbn [xorb].
  - rewrite <- (Z.opp_involutive x) at 1. rewrite <- (Z.opp_involutive y) at 1.
    rewrite Z.quot_opp_opp by lia. rewrite Z.quot_div_nonneg by lia.
    rewrite !Z.abs_neq by lia. reflexivity.
  - rewrite <- (Z.opp_involutive x) at 1. rewrite Z.quot_opp_l by lia.
    rewrite Z.quot_div_nonneg by lia. rewrite (Z.abs_neq x), (Z.abs_eq y) by lia. reflexivity.
  - rewrite <- (Z.opp_involutive y) at 1. rewrite Z.quot_opp_r by lia.
    rewrite Z.quot_div_nonneg by lia. rewrite (Z.abs_neq y), (Z.abs_eq x) by lia. reflexivity.
  - rewrite Z.quot_div_nonneg by lia. rewrite !Z.abs_eq by lia. reflexivity.
Qed.

Lemma of_Z_neg n m : m <= pow2 n -> of_Z n (- Z.of_N m) = negN n m.
Proof.
  intros H. unfold of_Z, negN. fold (pow2 n). apply N2Z.inj.
  pose proof (pow2_nz n) as NZ.
  rewrite Z2N.id by (apply Z.mod_pos_bound; lia).
  rewrite N2Z.inj_mod, N2Z.inj_sub by exact H.
  replace (Z.of_N (pow2 n) - Z.of_N m)%Z with (- Z.of_N m + 1 * Z.of_N (pow2 n))%Z by lia.
  rewrite Z_mod_plus_full. reflexivity.
Qed.

Lemma arith_idiv n a b : (1 <= n)%nat -> a < pow2 n -> b < pow2 n ->
  norm n (arith Div true n a b) =
  let sa := N.testbit a (N.of_nat (n - 1)) in
  let sb := N.testbit b (N.of_nat (n - 1)) in
  let q := dq (magN n a) (magN n b) n in
  if xorb sa sb then negN n q else q.
Proof.
  intros Hn Ha Hb. cbv zeta. cbn [arith].
  destruct (to_Z_sign n a Hn Ha) as [Sa Aa]. destruct (to_Z_sign n b Hn Hb) as [Sb Ab].
  pose proof (magN_lt n a Ha) as MA. pose proof (magN_lt n b Hb) as MB.
  assert (P2 : 2 <= pow2 n).
  { unfold pow2. replace n with (S (n - 1)) by lia. rewrite pow2_S. pose proof (pow2_pos (n - 1)). lia. }
  unfold dq. destruct (Z.eqb_spec (to_Z true n b) 0) as [E|E].
  - apply (to_Z_zero n b Hn Hb) in E. subst b.
    assert (M0 : magN n 0 = 0) by (apply magN_zero; [lia|reflexivity]).
    rewrite M0. cbn [N.eqb]. rewrite N.bits_0, xorb_false_r. rewrite Sa.
    destruct (N.testbit a (N.of_nat (n - 1))).
    + change 1%Z with (Z.of_N 1). rewrite of_Z_ofN, norm_norm_le by lia.
      unfold negN. fold (pow2 n). replace (pow2 n - (pow2 n - 1)) with 1 by lia. reflexivity.
    + rewrite of_Z_m1. change (2 ^ N.of_nat n) with (pow2 n). apply norm_small. lia.
  - assert (B0 : magN n b <> 0).
    { intros H. apply (magN_zero n b Hb) in H. apply E. apply (to_Z_zero n b Hn Hb). exact H. }
    replace (magN n b =? 0) with false by (symmetry; apply N.eqb_neq; exact B0).
    rewrite Zquot_signs by exact E. rewrite Sa, Sb, Aa, Ab, <- N2Z.inj_div.
    assert (Q : magN n a / magN n b < pow2 n).
    { eapply N.le_lt_trans; [|exact MA]. apply N.div_le_upper_bound; [exact B0|]. nia. }
    destruct (xorb (N.testbit a (N.of_nat (n - 1))) (N.testbit b (N.of_nat (n - 1)))).
    + rewrite of_Z_neg by lia. apply norm_small, negN_lt.
    + rewrite of_Z_ofN, norm_norm_le by lia. apply norm_small, Q.
Qed.

Lemma arith_imod n a b : (1 <= n)%nat -> a < pow2 n -> b < pow2 n ->
  norm n (arith Mod true n a b) = dr (magN n a) (magN n b).
Proof.
  intros Hn Ha Hb. cbn [arith].
  destruct (to_Z_sign n a Hn Ha) as [Sa Aa]. destruct (to_Z_sign n b Hn Hb) as [Sb Ab].
  pose proof (magN_lt n a Ha) as MA. pose proof (magN_lt n b Hb) as MB.
  unfold dr. destruct (Z.eqb_spec (to_Z true n b) 0) as [E|E].
  - apply (to_Z_zero n b Hn Hb) in E. subst b.
    assert (M0 : magN n 0 = 0) by (apply magN_zero; [unfold pow2; pose proof (pow2_pos n); lia|reflexivity]).
    rewrite M0. cbn [N.eqb]. rewrite Aa, of_Z_ofN, norm_norm_le by lia. apply norm_small, MA.
  - assert (B0 : magN n b <> 0).
    { intros H. apply (magN_zero n b Hb) in H. apply E. apply (to_Z_zero n b Hn Hb). exact H. }
    replace (magN n b =? 0) with false by (symmetry; apply N.eqb_neq; exact B0).
    rewrite Aa, Ab. rewrite Z.rem_mod_nonneg by lia. rewrite <- N2Z.inj_mod, of_Z_ofN.
    rewrite norm_norm_le by lia. apply norm_small.
    eapply N.lt_trans; [apply N.mod_lt; exact B0|exact MB].
Qed.

(* ---- either target ---- *)
Lemma okm_new_subtractor_any t x y z :
  (1 <= length z)%nat -> (1 <= Nat.max (length x) (length y))%nat ->
  (length z <= Nat.max (length x) (length y))%nat ->
  okm t (new_subtractor x y z)
      (fun z' e => length z' = length z /\
         valN e z' = (valN e x + 2 ^ N.of_nat (length z)
                      - valN e y mod 2 ^ N.of_nat (length z)) mod 2 ^ N.of_nat (length z)).
Proof.
  intros Hz Hm Hw. destruct t.
  - eapply okm_weaken; [apply okm_new_subtractor_gmw; assumption|]. cbv beta.
    intros z' e [L V]. split; [exact L|]. cbv zeta in V.
    replace (Nat.min (S (Nat.max (length x) (length y))) (length z)) with (length z) in V by lia.
    rewrite V. apply sub_forms. apply N.pow_nonzero. discriminate.
  - apply okm_new_subtractor_yao; lia.
Qed.

Lemma okm_new_multiplier_any t thr x y z :
  (1 <= Nat.max (length x) (length y))%nat -> (1 <= length z)%nat ->
  okm t (new_multiplier multiplierArrayTresholds thr x y z)
      (fun z' e => length z' = length z /\
                   valN e z' = (valN e x * valN e y) mod 2 ^ N.of_nat (length z)).
Proof.
  intros Hm Hz. destruct t; [apply okm_new_multiplier_gmw; exact Hz | apply okm_new_multiplier_yao_shipped; assumption].
Qed.

(* ------------------------------------------------ circ: argument bits *)
Lemma to_N_bits_val l : to_N l = bits_val l.
Proof. induction l as [|b l IH]; [reflexivity|]. cbn [to_N bits_val]. rewrite IH. reflexivity. Qed.

Lemma nbits_length w v : length (nbits w v) = w.
Proof. unfold nbits. rewrite map_length, seq_length. reflexivity. Qed.

Lemma nbits_nth w v k : (k < w)%nat -> nth k (nbits w v) false = N.testbit v (N.of_nat k).
Proof.
  intros H. unfold nbits.
  rewrite (nth_indep _ false (N.testbit v (N.of_nat 0))) by (rewrite map_length, seq_length; exact H).
  rewrite (map_nth (fun i => N.testbit v (N.of_nat i)) (seq 0 w) 0%nat k), seq_nth by exact H. reflexivity.
Qed.

(* the wires of an argument followed by zeros = the argument's value on n bits *)
Lemma nbits_valN (e : Emit.env) (w : list wire) n : (length w <= n)%nat ->
  nbits n (valN e w) = map e w ++ repeat false (n - length w).
Proof.
  intros L. apply (nth_ext _ _ false false).
  - rewrite nbits_length, app_length, map_length, repeat_length. lia.
  - rewrite nbits_length. intros k Hk. rewrite nbits_nth by exact Hk.
    rewrite (valN_testbit e w 0). destruct (Nat.ltb k (length w)) eqn:E.
    + apply Nat.ltb_lt in E. rewrite app_nth1 by (rewrite map_length; exact E).
      rewrite (nth_indep _ false (e 0)) by (rewrite map_length; exact E).
      rewrite map_nth. reflexivity.
    + apply Nat.ltb_ge in E. rewrite app_nth2 by (rewrite map_length; exact E).
      symmetry. apply nth_repeat.
Qed.

Lemma args_fit_F2 : forall args ins (ws : list (list wire)), args_fit args ins = true ->
  Forall2 (fun a w => length w = opnd_bits a) args ws ->
  Forall2 (fun w n => (length w <= n)%nat) ws ins.
Proof.
  induction args as [|a ar IH]; intros ins ws AF F; inversion F; subst.
  - destruct ins; [constructor|discriminate AF].
  - destruct ins as [|n nr]; [discriminate AF|]. cbn [args_fit] in AF.
    apply andb_true_iff in AF. destruct AF as [A1 A2]. apply Nat.leb_le in A1.
    constructor; [lia|]. apply IH; assumption.
Qed.

Lemma flat_bits_circ_input (e : Emit.env) vs : forall args ins (ws : list (list wire)),
  args_fit args ins = true ->
  Forall2 (fun a w => length w = opnd_bits a) args ws ->
  Forall2 (fun a w => valN e w = opnd_val vs a) args ws ->
  flat_bits e ws ins = circ_input vs args ins.
Proof.
  induction args as [|a ar IH]; intros ins ws AF F V; inversion F; subst; inversion V; subst.
  - reflexivity.
  - destruct ins as [|n nr]; [discriminate AF|]. cbn [args_fit] in AF.
    apply andb_true_iff in AF. destruct AF as [A1 A2]. apply Nat.leb_le in A1.
    cbn [flat_bits circ_input hd tl]. f_equal; [|apply IH; assumption].
    match goal with H : valN e _ = opnd_val vs a |- _ => rewrite <- H end.
    symmetry. apply nbits_valN. lia.
Qed.

Section Instr.
Variable tg : bool.
Variable thr : nat.
Variable vs : list Ssa.sval.

Definition post (i : instr) (o : list wire) (e : Emit.env) : Prop :=
  length o = s_bits (i_out i) /\ valN e o = norm (s_bits (i_out i)) (eval_instr vs i).

Ltac inv_F :=
  repeat match goal with
         | H : Forall2 _ (_ :: _) _ |- _ => inversion H; clear H; subst
         | H : Forall2 _ [] _ |- _ => inversion H; clear H; subst
         end.

Ltac args_n WF :=
  match goal with
  | args : list opnd |- _ =>
      destruct args as [|?a0 [|?a1 [|?a2 [|?a3 [|?a4 args]]]]]; cbn [length Nat.eqb] in WF; try discriminate WF
  end.

Lemma max_pow_le a b : (a <= b)%nat -> pow2 a <= pow2 b.
Proof. intros H. unfold pow2. apply N.pow_le_mono_r; lia. Qed.

Lemma okm_cg_body_circ ins c args out aux ws :
  cg_wf_instr (mkInstr (Ocirc ins c) args out aux) = true ->
  Forall2 (fun a w => length w = opnd_bits a) args ws ->
  okm tg (cg_body multiplierArrayTresholds thr (mkInstr (Ocirc ins c) args out aux) ws)
      (fun o e => Forall2 (fun a w => valN e w = opnd_val vs a) args ws ->
                  post (mkInstr (Ocirc ins c) args out aux) o e).
Proof.
  intros WF FR. unfold cg_wf_instr in WF. cbn [i_op i_args i_out] in WF.
  apply andb_true_iff in WF. destruct WF as [WF OK].
  apply andb_true_iff in WF. destruct WF as [WF OB]. apply Nat.eqb_eq in OB.
  apply andb_true_iff in WF. destruct WF as [AF TI]. apply Nat.eqb_eq in TI.
  unfold cg_body, post. cbn [i_op i_out i_args].
  eapply okm_weaken;
    [apply okm_of_okp, (okp_embed_circ tg ins (s_bits out) c ws OK (args_fit_F2 _ _ _ AF FR) TI OB)|].
  cbv beta. intros o e [Lo Ho] HF. split; [exact Lo|].
  unfold eval_instr. cbn [i_op i_args].
  assert (EQ : bits_val (Circuit.eval_plain c (circ_input vs args ins)) = valN e o).
  { unfold valN. rewrite Ho, (flat_bits_circ_input e vs args ins ws AF FR HF). symmetry. apply to_N_bits_val. }
  rewrite EQ. symmetry. apply norm_small. rewrite pow2_eq, <- Lo. apply valN_lt.
Qed.

Lemma okm_cg_body i ws :
  cg_wf_instr i = true -> ok_tg tg i = true ->
  Forall2 (fun a w => length w = opnd_bits a) (i_args i) ws ->
  okm tg (cg_body multiplierArrayTresholds thr i ws)
      (fun o e => Forall2 (fun a w => valN e w = opnd_val vs a) (i_args i) ws -> post i o e).
Proof.
  intros WF HD FR. destruct i as [op args out aux].
  destruct (match op with Ocirc _ _ => true | _ => false end) eqn:IC.
  { destruct op; try discriminate IC. apply okm_cg_body_circ; assumption. }
  unfold cg_wf_instr in WF. unfold ok_tg in HD. unfold post, cg_body.
  cbn [i_op i_args i_out i_aux] in *.
  destruct op; try discriminate WF; try discriminate IC; clear IC; split_wf WF; args_n WF; inv_F; natb;
    cbn [nth arg opnd_const] in *; cbv beta zeta;
    repeat match goal with H : length ?w = opnd_bits _ |- _ => is_var w; revert H end;
    intros.
  (* iadd uadd isub usub imult umult *)
  1-2: (apply okm_bld; intros o Lo;
        eapply okm_weaken; [apply okm_new_adder; lia|]; cbv beta;
        intros z' e [Lz Vz] HF; inv_F; split; [lia|];
        rewrite Vz, Lo; unfold eval_instr, bin; cbn [i_op i_args i_out arg nth];
        symmetry; repeat match goal with V : valN e _ = _ |- _ => rewrite V end; apply arith_add; lia).
  1-2: (apply okm_bld; intros o Lo;
        eapply okm_weaken; [apply okm_new_subtractor_any; lia|]; cbv beta;
        intros z' e [Lz Vz] HF; inv_F; split; [lia|];
        rewrite Vz, Lo; unfold eval_instr, bin; cbn [i_op i_args i_out arg nth];
        symmetry; repeat match goal with V : valN e _ = _ |- _ => rewrite V end; apply arith_sub; lia).
  1-2: (apply okm_bld; intros o Lo;
        eapply okm_weaken; [apply okm_new_multiplier_any; lia|]; cbv beta;
        intros z' e [Lz Vz] HF; inv_F; split; [lia|];
        rewrite Vz, Lo; unfold eval_instr, bin; cbn [i_op i_args i_out arg nth];
        symmetry; repeat match goal with V : valN e _ = _ |- _ => rewrite V end; apply arith_mul; lia).
  (* idiv udiv imod umod *)
  1: { destruct tg; [cbn in HD; discriminate HD|]. apply okm_bldu; intros o Lo.
       eapply okm_weaken; [apply okm_new_idivider_q_le; lia|]. cbv beta.
       intros u e Vz HF; inv_F. split; [exact Lo|]. cbv zeta in Vz. rewrite Vz, Lo.
       unfold eval_instr, bin; cbn [i_op i_args i_out arg nth].
       repeat match goal with L : length _ = opnd_bits _ |- _ => rewrite L end.
       repeat match goal with V : valN e _ = _ |- _ => rewrite V end.
       rewrite <- (norm_norm_le (s_bits out) (Nat.max (opnd_bits a0) (opnd_bits a1))) by lia.
       rewrite arith_idiv; [reflexivity | lia | |];
         (eapply N.lt_le_trans; [apply opnd_val_lt | apply max_pow_le; lia]). }
  1: { destruct tg; [cbn in HD; discriminate HD|]. apply okm_bldu; intros o Lo.
       eapply okm_weaken; [apply okm_new_udivider_q_le; lia|]. cbv beta.
       intros u e Vz HF; inv_F. split; [exact Lo|]. rewrite Vz, Lo.
       unfold eval_instr, bin; cbn [i_op i_args i_out arg nth].
       repeat match goal with L : length _ = opnd_bits _ |- _ => rewrite L end.
       repeat match goal with V : valN e _ = _ |- _ => rewrite V end.
       rewrite <- (norm_norm_le (s_bits out) (Nat.max (opnd_bits a0) (opnd_bits a1))) by lia.
       rewrite arith_udiv by (eapply N.lt_le_trans; [apply opnd_val_lt | apply max_pow_le; lia]).
       reflexivity. }
  1: { destruct tg; [cbn in HD; discriminate HD|]. apply okm_bldu; intros o Lo.
       eapply okm_weaken; [apply okm_new_idivider_r_le; lia|]. cbv beta.
       intros u e Vz HF; inv_F. split; [exact Lo|]. cbv zeta in Vz. rewrite Vz, Lo.
       unfold eval_instr, bin; cbn [i_op i_args i_out arg nth].
       repeat match goal with L : length _ = opnd_bits _ |- _ => rewrite L end.
       repeat match goal with V : valN e _ = _ |- _ => rewrite V end.
       rewrite <- (norm_norm_le (s_bits out) (Nat.max (opnd_bits a0) (opnd_bits a1))) by lia.
       rewrite arith_imod; [reflexivity | lia | |];
         (eapply N.lt_le_trans; [apply opnd_val_lt | apply max_pow_le; lia]). }
  1: { destruct tg; [cbn in HD; discriminate HD|]. apply okm_bldu; intros o Lo.
       eapply okm_weaken; [apply okm_new_udivider_r_le; lia|]. cbv beta.
       intros u e Vz HF; inv_F. split; [exact Lo|]. rewrite Vz, Lo.
       unfold eval_instr, bin; cbn [i_op i_args i_out arg nth].
       repeat match goal with L : length _ = opnd_bits _ |- _ => rewrite L end.
       repeat match goal with V : valN e _ = _ |- _ => rewrite V end.
       rewrite <- (norm_norm_le (s_bits out) (Nat.max (opnd_bits a0) (opnd_bits a1))) by lia.
       rewrite arith_umod by (eapply N.lt_le_trans; [apply opnd_val_lt | apply max_pow_le; lia]).
       reflexivity. }
  (* band bor bxor bclr *)
  1: (apply okm_bldu; intros o Lo;
      eapply okm_weaken; [apply okm_binary_and_trunc; lia|]; cbv beta;
      intros u e Vz HF; inv_F; split; [exact Lo|];
      rewrite Vz, Lo; unfold eval_instr, bin; cbn [i_op i_args i_out arg nth];
      symmetry; repeat match goal with V : valN e _ = _ |- _ => rewrite V end;
      apply (arith_bitwise BAnd); [lia|exact I]).
  1: (apply okm_bldu; intros o Lo;
      eapply okm_weaken; [apply okm_binary_or_trunc; lia|]; cbv beta;
      intros u e Vz HF; inv_F; split; [exact Lo|];
      rewrite Vz, Lo; unfold eval_instr, bin; cbn [i_op i_args i_out arg nth];
      symmetry; repeat match goal with V : valN e _ = _ |- _ => rewrite V end;
      apply (arith_bitwise BOr); [lia|exact I]).
  1: (apply okm_bldu; intros o Lo;
      eapply okm_weaken; [apply okm_binary_xor_trunc; lia|]; cbv beta;
      intros u e Vz HF; inv_F; split; [exact Lo|];
      rewrite Vz, Lo; unfold eval_instr, bin; cbn [i_op i_args i_out arg nth];
      symmetry; repeat match goal with V : valN e _ = _ |- _ => rewrite V end;
      apply (arith_bitwise BXor); [lia|exact I]).
  1: (apply okm_bldu; intros o Lo;
      eapply okm_weaken; [apply okm_binary_clear_trunc; lia|]; cbv beta;
      intros u e Vz HF; inv_F; split; [exact Lo|];
      rewrite Vz, Lo; unfold eval_instr, bin; cbn [i_op i_args i_out arg nth];
      symmetry; repeat match goal with V : valN e _ = _ |- _ => rewrite V end;
      apply (arith_bitwise BAndNot); [lia|exact I]).
  (* comparisons *)
  1: (apply okm_bldu; intros o Lo; rewrite W in Lo; destruct (len1 o Lo) as [r0 ->];
      destruct (okm_int_cmp_pad tg y y0 r0 (Nat.max (opnd_bits a0) (opnd_bits a1)) ltac:(lia) ltac:(lia))
        as (Kgt & Kge & Klt & Kle);
      eapply okm_weaken; [apply Klt|]; cbv beta; intros u e Hr HF; inv_F; split; [rewrite W; reflexivity|];
      rewrite valN_single, Hr, W; unfold eval_instr, bin; cbn [i_op i_args i_out arg nth];
      repeat match goal with V : valN e _ = _ |- _ => rewrite V end;
      cbn [arith]; symmetry; apply b2n_norm1).
  1: (apply okm_bldu; intros o Lo; rewrite W in Lo; destruct (len1 o Lo) as [r0 ->];
      eapply okm_weaken; [apply okm_uint_lt; lia|]; cbv beta; intros u e Hr HF; inv_F; split; [rewrite W; reflexivity|];
      rewrite valN_single, Hr, W; unfold eval_instr, bin; cbn [i_op i_args i_out arg nth];
      repeat match goal with V : valN e _ = _ |- _ => rewrite V end;
      destruct (arith_ucmp (Nat.max (opnd_bits a0) (opnd_bits a1)) (opnd_val vs a0) (opnd_val vs a1))
        as (E1 & E2 & E3 & E4 & E5 & E6);
        [eapply N.lt_le_trans; [apply opnd_val_lt | apply max_pow_le; lia] |
         eapply N.lt_le_trans; [apply opnd_val_lt | apply max_pow_le; lia] |];
      rewrite E1, b2n_norm1; reflexivity).
  1: (apply okm_bldu; intros o Lo; rewrite W in Lo; destruct (len1 o Lo) as [r0 ->];
      destruct (okm_int_cmp_pad tg y y0 r0 (Nat.max (opnd_bits a0) (opnd_bits a1)) ltac:(lia) ltac:(lia))
        as (Kgt & Kge & Klt & Kle);
      eapply okm_weaken; [apply Kle|]; cbv beta; intros u e Hr HF; inv_F; split; [rewrite W; reflexivity|];
      rewrite valN_single, Hr, W; unfold eval_instr, bin; cbn [i_op i_args i_out arg nth];
      repeat match goal with V : valN e _ = _ |- _ => rewrite V end;
      cbn [arith]; symmetry; apply b2n_norm1).
  1: (apply okm_bldu; intros o Lo; rewrite W in Lo; destruct (len1 o Lo) as [r0 ->];
      eapply okm_weaken; [apply okm_uint_le; lia|]; cbv beta; intros u e Hr HF; inv_F; split; [rewrite W; reflexivity|];
      rewrite valN_single, Hr, W; unfold eval_instr, bin; cbn [i_op i_args i_out arg nth];
      repeat match goal with V : valN e _ = _ |- _ => rewrite V end;
      destruct (arith_ucmp (Nat.max (opnd_bits a0) (opnd_bits a1)) (opnd_val vs a0) (opnd_val vs a1))
        as (E1 & E2 & E3 & E4 & E5 & E6);
        [eapply N.lt_le_trans; [apply opnd_val_lt | apply max_pow_le; lia] |
         eapply N.lt_le_trans; [apply opnd_val_lt | apply max_pow_le; lia] |];
      rewrite E2, b2n_norm1; reflexivity).
  1: (apply okm_bldu; intros o Lo; rewrite W in Lo; destruct (len1 o Lo) as [r0 ->];
      destruct (okm_int_cmp_pad tg y y0 r0 (Nat.max (opnd_bits a0) (opnd_bits a1)) ltac:(lia) ltac:(lia))
        as (Kgt & Kge & Klt & Kle);
      eapply okm_weaken; [apply Kgt|]; cbv beta; intros u e Hr HF; inv_F; split; [rewrite W; reflexivity|];
      rewrite valN_single, Hr, W; unfold eval_instr, bin; cbn [i_op i_args i_out arg nth];
      repeat match goal with V : valN e _ = _ |- _ => rewrite V end;
      cbn [arith]; symmetry; apply b2n_norm1).
  1: (apply okm_bldu; intros o Lo; rewrite W in Lo; destruct (len1 o Lo) as [r0 ->];
      eapply okm_weaken; [apply okm_uint_gt; lia|]; cbv beta; intros u e Hr HF; inv_F; split; [rewrite W; reflexivity|];
      rewrite valN_single, Hr, W; unfold eval_instr, bin; cbn [i_op i_args i_out arg nth];
      repeat match goal with V : valN e _ = _ |- _ => rewrite V end;
      destruct (arith_ucmp (Nat.max (opnd_bits a0) (opnd_bits a1)) (opnd_val vs a0) (opnd_val vs a1))
        as (E1 & E2 & E3 & E4 & E5 & E6);
        [eapply N.lt_le_trans; [apply opnd_val_lt | apply max_pow_le; lia] |
         eapply N.lt_le_trans; [apply opnd_val_lt | apply max_pow_le; lia] |];
      rewrite E3, b2n_norm1; reflexivity).
  1: (apply okm_bldu; intros o Lo; rewrite W in Lo; destruct (len1 o Lo) as [r0 ->];
      destruct (okm_int_cmp_pad tg y y0 r0 (Nat.max (opnd_bits a0) (opnd_bits a1)) ltac:(lia) ltac:(lia))
        as (Kgt & Kge & Klt & Kle);
      eapply okm_weaken; [apply Kge|]; cbv beta; intros u e Hr HF; inv_F; split; [rewrite W; reflexivity|];
      rewrite valN_single, Hr, W; unfold eval_instr, bin; cbn [i_op i_args i_out arg nth];
      repeat match goal with V : valN e _ = _ |- _ => rewrite V end;
      cbn [arith]; symmetry; apply b2n_norm1).
  1: (apply okm_bldu; intros o Lo; rewrite W in Lo; destruct (len1 o Lo) as [r0 ->];
      eapply okm_weaken; [apply okm_uint_ge; lia|]; cbv beta; intros u e Hr HF; inv_F; split; [rewrite W; reflexivity|];
      rewrite valN_single, Hr, W; unfold eval_instr, bin; cbn [i_op i_args i_out arg nth];
      repeat match goal with V : valN e _ = _ |- _ => rewrite V end;
      destruct (arith_ucmp (Nat.max (opnd_bits a0) (opnd_bits a1)) (opnd_val vs a0) (opnd_val vs a1))
        as (E1 & E2 & E3 & E4 & E5 & E6);
        [eapply N.lt_le_trans; [apply opnd_val_lt | apply max_pow_le; lia] |
         eapply N.lt_le_trans; [apply opnd_val_lt | apply max_pow_le; lia] |];
      rewrite E4, b2n_norm1; reflexivity).
  1: (apply okm_bldu; intros o Lo; rewrite W in Lo; destruct (len1 o Lo) as [r0 ->];
      eapply okm_weaken; [apply okm_eq_comparator; lia|]; cbv beta; intros u e Hr HF; inv_F; split; [rewrite W; reflexivity|];
      rewrite valN_single, Hr, W; unfold eval_instr, bin; cbn [i_op i_args i_out arg nth];
      repeat match goal with V : valN e _ = _ |- _ => rewrite V end;
      destruct (arith_ucmp (Nat.max (opnd_bits a0) (opnd_bits a1)) (opnd_val vs a0) (opnd_val vs a1))
        as (E1 & E2 & E3 & E4 & E5 & E6);
        [eapply N.lt_le_trans; [apply opnd_val_lt | apply max_pow_le; lia] |
         eapply N.lt_le_trans; [apply opnd_val_lt | apply max_pow_le; lia] |];
      rewrite E5, b2n_norm1; reflexivity).
  1: (apply okm_bldu; intros o Lo; rewrite W in Lo; destruct (len1 o Lo) as [r0 ->];
      eapply okm_weaken; [apply okm_neq_comparator; lia|]; cbv beta; intros u e Hr HF; inv_F; split; [rewrite W; reflexivity|];
      rewrite valN_single, Hr, W; unfold eval_instr, bin; cbn [i_op i_args i_out arg nth];
      repeat match goal with V : valN e _ = _ |- _ => rewrite V end;
      destruct (arith_ucmp (Nat.max (opnd_bits a0) (opnd_bits a1)) (opnd_val vs a0) (opnd_val vs a1))
        as (E1 & E2 & E3 & E4 & E5 & E6);
        [eapply N.lt_le_trans; [apply opnd_val_lt | apply max_pow_le; lia] |
         eapply N.lt_le_trans; [apply opnd_val_lt | apply max_pow_le; lia] |];
      rewrite E6, b2n_norm1; reflexivity).
  (* and or not *)
  1: (apply okm_bldu; intros o Lo; rewrite W in Lo; destruct (len1 o Lo) as [r0 ->];
      rewrite W1 in H1; rewrite W0 in H2; destruct (len1 y H1) as [x0 ->]; destruct (len1 y0 H2) as [x1 ->];
      eapply okm_weaken; [apply okm_logical_and|]; cbv beta; intros u e Hr HF; inv_F; split; [rewrite W; reflexivity|];
      rewrite valN_single, Hr, W; unfold eval_instr, bin; cbn [i_op i_args i_out arg nth];
      repeat match goal with V : valN e _ = opnd_val _ _ |- _ => rewrite <- V; clear V end;
      rewrite !valN_single; cbn [arith]; rewrite land_b2n, b2n_norm1; reflexivity).
  1: (apply okm_bldu; intros o Lo; rewrite W in Lo; destruct (len1 o Lo) as [r0 ->];
      rewrite W1 in H1; rewrite W0 in H2; destruct (len1 y H1) as [x0 ->]; destruct (len1 y0 H2) as [x1 ->];
      eapply okm_weaken; [apply okm_logical_or|]; cbv beta; intros u e Hr HF; inv_F; split; [rewrite W; reflexivity|];
      rewrite valN_single, Hr, W; unfold eval_instr, bin; cbn [i_op i_args i_out arg nth];
      repeat match goal with V : valN e _ = opnd_val _ _ |- _ => rewrite <- V; clear V end;
      rewrite !valN_single; cbn [arith]; rewrite lor_b2n, b2n_norm1; reflexivity).
  1: (apply okm_bldu; intros o Lo; eapply okm_weaken; [apply okm_inv_loop; lia|]; cbv beta;
      intros u e HL HF; inv_F; split; [exact Lo|];
      unfold eval_instr; cbn [i_op i_args i_out arg nth];
      match goal with V : valN e y = _ |- _ =>
        pose proof (not_val e y o (s_bits out) _ Lo V HL ltac:(lia)) as K end;
      rewrite <- K; symmetry; apply norm_small; rewrite <- Lo; apply valN_lt).
  (* mov smov *)
  1: (eapply okm_bind; [apply okm_zero|]; intros z; cbv beta; apply okm_ret; intros e Hz HF; inv_F;
      split; [rewrite map_length, seq_length; reflexivity|];
      unfold eval_instr; cbn [i_op i_args i_out arg nth]; rewrite norm_norm_le by lia;
      apply wired_val; intros k Hk; rewrite e_nth_zero by exact Hz;
      match goal with V : valN e y = _ |- _ => rewrite V end; reflexivity).
  1: (apply okm_ret; intros e HF; inv_F;
      split; [rewrite map_length, seq_length; reflexivity|];
      unfold eval_instr; cbn [i_op i_args i_out arg nth];
      apply wired_val; intros k Hk; rewrite e_nth_sign by lia;
      rewrite of_Z_testbit, to_Z_testbit, (ltb_true _ _ Hk), H1;
      match goal with V : valN e y = _ |- _ => rewrite V end; reflexivity).
  (* lshift rshift srshift *)
  1: (eapply okm_bind; [apply okm_zero|]; intros z; cbv beta; apply okm_ret; intros e Hz HF; inv_F;
      split; [rewrite map_length, seq_length; reflexivity|];
      unfold eval_instr; cbn [i_op i_args i_out arg nth]; rewrite norm_norm_le by lia;
      apply wired_val; intros k Hk; rewrite shl_testbit;
      rewrite (norm_small (opnd_bits a0)) by apply opnd_val_lt;
      destruct (Nat.leb (opnd_const a1) k); [|exact Hz];
      rewrite e_nth_zero by exact Hz;
      match goal with V : valN e y = _ |- _ => rewrite V end; reflexivity).
  1: (eapply okm_bind; [apply okm_zero|]; intros z; cbv beta; apply okm_ret; intros e Hz HF; inv_F;
      split; [rewrite map_length, seq_length; reflexivity|];
      unfold eval_instr; cbn [i_op i_args i_out arg nth];
      apply wired_val; intros k Hk; rewrite shr_testbit, (ltb_true _ _ Hk);
      rewrite e_nth_zero by exact Hz;
      match goal with V : valN e y = _ |- _ => rewrite <- V end; rewrite <- H1, xbit_false_val; reflexivity).
  1: (apply okm_ret; intros e HF; inv_F;
      split; [rewrite map_length, seq_length; reflexivity|];
      unfold eval_instr; cbn [i_op i_args i_out arg nth];
      apply wired_val; intros k Hk; rewrite shr_testbit, (ltb_true _ _ Hk);
      rewrite e_nth_sign by lia;
      match goal with V : valN e y = _ |- _ => rewrite <- V end; rewrite <- H1; reflexivity).
  (* slice amov *)
  1: (eapply okm_bind; [apply okm_zero|]; intros z; cbv beta; apply okm_ret; intros e Hz HF; inv_F;
      split; [rewrite map_length, seq_length; reflexivity|];
      unfold eval_instr; cbn [i_op i_args i_out arg nth];
      apply wired_val; intros k Hk; rewrite slice_sem_testbit;
      destruct (Nat.ltb k (opnd_const a2 - opnd_const a1)); [|exact Hz];
      rewrite e_nth_zero by exact Hz;
      match goal with V : valN e y = _ |- _ => rewrite V end; cbn [andb];
      rewrite Nat.add_comm; reflexivity).
  1: (eapply okm_bind; [apply okm_zero|]; intros z; cbv beta; apply okm_ret; intros e Hz HF; inv_F;
      split; [rewrite map_length, seq_length; reflexivity|];
      unfold eval_instr; cbn [i_op i_args i_out arg nth];
      apply wired_val; intros k Hk; rewrite store_sem_testbit, (ltb_true _ _ Hk);
      replace (opnd_const a2 + (opnd_const a3 - opnd_const a2))%nat with (opnd_const a3) by lia;
      destruct (Nat.ltb k (opnd_const a2) || Nat.leb (opnd_const a3) k);
      rewrite e_nth_zero by exact Hz;
      repeat match goal with V : valN e _ = _ |- _ => rewrite V end; reflexivity).
  (* index *)
  1: { apply okm_bld; intros o Lo.
       set (off := opnd_const a1) in *. set (n := ((opnd_bits a0 - off) / aux)%nat) in *.
       assert (La : length (skipn off y) = (n * aux)%nat).
       { rewrite skipn_length, H1. pose proof (Nat.div_mod (opnd_bits a0 - off) aux ltac:(lia)) as D.
         rewrite W0 in D. unfold n. lia. }
       eapply okm_weaken; [apply (okm_new_index tg aux (skipn off y) y1 o n); lia|]. cbv beta.
       intros o' e [-> Hv] HF; inv_F. split; [exact Lo|]. rewrite Hv.
       unfold eval_instr; cbn [i_op i_args i_out i_aux arg nth]. fold off. fold n.
       unfold index_sem. rewrite index_nbits_eq.
       repeat match goal with V : valN e _ = _ |- _ => rewrite <- V; clear V end.
       change (valN e y1 mod 2 ^ N.of_nat (Mini.index_bits n)) with (norm (Mini.index_bits n) (valN e y1)).
       destruct (N.ltb (norm (Mini.index_bits n) (valN e y1)) (N.of_nat n)).
       - rewrite valN_elem, valN_skipn. rewrite norm_norm_le by lia. reflexivity.
       - symmetry. apply N.mod_0_l, pow2_nz. }
  (* phi *)
  1: { apply okm_bldu; intros o Lo. rewrite W0 in H1. destruct (len1 y H1) as [c ->].
       eapply okm_weaken; [apply okm_new_mux; lia|]. cbv beta. intros u e Hm HF; inv_F.
       split; [exact Lo|]. rewrite Hm. unfold eval_instr; cbn [i_op i_args i_out arg nth].
       match goal with V : valN e [c] = _ |- _ => rewrite <- V; clear V end.
       rewrite valN_single, odd_b2n.
       destruct (e c); repeat match goal with V : valN e _ = _ |- _ => rewrite V end;
         symmetry; apply norm_small; (eapply N.lt_le_trans; [apply opnd_val_lt | apply max_pow_le; lia]). }
  (* concat *)
  1: { apply okm_ret. intros e HF; inv_F. split; [rewrite app_length; lia|].
       unfold eval_instr; cbn [i_op i_args i_out arg nth].
       rewrite valN_app.
       repeat match goal with L : length _ = opnd_bits _ |- _ => rewrite L end.
       repeat match goal with V : valN e _ = _ |- _ => rewrite V end.
       match goal with E : s_bits out = _ |- _ => rewrite E end.
       symmetry. rewrite (N.mul_comm (opnd_val vs a1)). apply norm_small.
       pose proof (opnd_val_lt vs a0). pose proof (opnd_val_lt vs a1).
       rewrite pow2_add. unfold pow2 in *. nia. }
  (* bts btc *)
  1: { apply okm_bld; intros o Lo.
       match goal with E : s_bits out = 1%nat |- _ => rewrite E in Lo |- * end.
       destruct (len1 o Lo) as [r0 ->].
       eapply okm_weaken; [apply okm_bit_set_test|]. cbv beta. intros r' e Hr HF; inv_F.
       destruct r' as [|w [|w' r']]; try discriminate Hr. inversion Hr as [Hw].
       split; [reflexivity|]. rewrite valN_single, Hw.
       unfold eval_instr; cbn [i_op i_args i_out arg nth].
       repeat match goal with V : valN e _ = _ |- _ => rewrite V end.
       symmetry. apply b2n_norm1. }
  1: { apply okm_bld; intros o Lo.
       match goal with E : s_bits out = 1%nat |- _ => rewrite E in Lo |- * end.
       destruct (len1 o Lo) as [r0 ->].
       eapply okm_weaken; [apply okm_bit_clr_test|]. cbv beta. intros r' e Hr HF; inv_F.
       destruct r' as [|w [|w' r']]; try discriminate Hr. inversion Hr as [Hw].
       split; [reflexivity|]. rewrite valN_single, Hw.
       unfold eval_instr; cbn [i_op i_args i_out arg nth].
       repeat match goal with V : valN e _ = _ |- _ => rewrite V end.
       symmetry. apply b2n_norm1. }
  (* builtin: hamming *)
  1: { apply okm_bld; intros o Lo.
       eapply okm_weaken; [apply okm_hamming; lia|]. cbv beta.
       intros z' e [Lz Vz] HF; inv_F. split; [lia|]. rewrite Vz, Lo.
       unfold eval_instr; cbn [i_op i_args i_out arg nth].
       repeat match goal with V : valN e _ = _ |- _ => rewrite V end. reflexivity. }
Qed.
End Instr.

(* ------------------------------------------------ program level: semantics *)
Lemma Forall2_imp {A B} (R1 R2 : A -> B -> Prop) l1 l2 :
  (forall a b, R1 a b -> R2 a b) -> Forall2 R1 l1 l2 -> Forall2 R2 l1 l2.
Proof. intros H F. induction F; constructor; auto. Qed.

Lemma okm_cg_instr tg thr vals vs i : cg_wf_instr i = true -> ok_tg tg i = true ->
  okm tg (cg_instr multiplierArrayTresholds thr vals i) (fun o e => inv e vals vs -> post vs i o e).
Proof.
  intros WF HD. unfold cg_instr.
  eapply okm_bind_p;
    [apply (okp_mapM tg (cg_opnd vals) (fun a w => length w = opnd_bits a)
                     (fun a w e => inv e vals vs -> valN e w = opnd_val vs a));
     intros a; apply okp_cg_opnd|].
  intros ws FR. cbv beta. eapply okm_weaken; [apply (okm_cg_body tg thr vs i ws WF HD FR)|].
  cbv beta. intros o e H HF I. apply H. eapply Forall2_imp; [|exact HF]. cbv beta. intros a w K. exact (K I).
Qed.

Lemma okm_cg_code tg thr : forall code vals vs, forallb cg_wf_instr code = true ->
  forallb (ok_tg tg) code = true ->
  okm tg (cg_code multiplierArrayTresholds thr code vals)
      (fun vals' e => inv e vals vs -> inv e vals' (run_code code vs)).
Proof.
  induction code as [|i r IH]; intros vals vs WF WD; cbn [cg_code].
  - apply okm_ret. auto.
  - cbn [forallb] in WF, WD. apply andb_true_iff in WF. destruct WF as [Wi Wr].
    apply andb_true_iff in WD. destruct WD as [Di Dr].
    eapply okm_bind; [apply (okm_cg_instr tg thr vals vs i Wi Di)|]. intros o. cbv beta.
    eapply okm_weaken; [apply (IH (vals ++ [o]) (Ssa.step vs i) Wr Dr)|]. cbv beta.
    intros vals' e H Hp I. unfold run_code. cbn [fold_left]. apply H.
    destruct (Hp I) as [L V]. unfold Ssa.step. apply Forall2_app; [exact I|].
    constructor; [|constructor]. cbn [fst snd]. split; assumption.
Qed.

Lemma okp_cg_ret_wire tg w : okp tg (cg_ret_wire w) (fun _ => True) (fun o e => e o = e w).
Proof.
  unfold cg_ret_wire. eapply okp_bind; [apply okp_of_okm, okm_fresh|]. intros o _. cbv beta.
  eapply okp_bind; [apply okp_of_okm, okm_cc_id|]. intros u _. cbv beta.
  apply okp_ret; [exact I|]. intros e H _. exact H.
Qed.

Lemma okp_ret_wires tg ws :
  okp tg (mapM cg_ret_wire ws) (fun _ => True) (fun os e => valN e os = valN e ws).
Proof.
  eapply okp_weaken;
    [apply (okp_mapM tg cg_ret_wire (fun _ _ => True) (fun w o e => e o = e w)); intros w; apply okp_cg_ret_wire
    | auto |].
  cbv beta. intros os e _ H. unfold valN. f_equal.
  induction H as [|w o ws' os' H0 H IH]; [reflexivity|]. cbn [map]. rewrite H0, IH. reflexivity.
Qed.

Lemma okm_cg_prog tg thr p inp : cg_wf_tg tg p = true ->
  okm tg (cg_prog multiplierArrayTresholds thr p)
      (fun outs e => inv e (input_wires 0 (sp_inputs p)) (init_vals (sp_inputs p) inp) ->
                     map (valN e) outs = eval_ssa p inp).
Proof.
  intros WF. unfold cg_wf_tg, cg_wf in WF. apply andb_true_iff in WF. destruct WF as [WF WD].
  apply andb_true_iff in WF. destruct WF as [_ WC].
  unfold cg_prog.
  eapply okm_bind; [apply okm_zero|]. intros z. cbv beta.
  eapply okm_bind; [apply okm_one|]. intros o1. cbv beta.
  eapply okm_bind; [apply (okm_cg_code tg thr (sp_code p) _ (init_vals (sp_inputs p) inp) WC WD)|].
  intros vals. cbv beta.
  set (vs' := run_code (sp_code p) (init_vals (sp_inputs p) inp)).
  eapply okm_bind_p;
    [apply (okp_mapM tg (cg_opnd vals) (fun a w => length w = opnd_bits a)
                     (fun a w e => inv e vals vs' -> valN e w = opnd_val vs' a));
     intros a; apply okp_cg_opnd|].
  intros rws _. cbv beta.
  eapply okm_weaken;
    [apply okm_of_okp, (okp_mapM tg (mapM cg_ret_wire) (fun _ _ => True) (fun ws os e => valN e os = valN e ws));
     intros ws; apply okp_ret_wires|].
  cbv beta. intros outs e [_ HO] HR HC _ _ I0. unfold eval_ssa. fold vs'.
  specialize (HC I0).
  revert outs HO. induction HR as [|a w rets rws' H0 HR IH]; intros outs HO; inversion HO; subst; [reflexivity|].
  cbn [map]. f_equal; [|apply IH; assumption].
  match goal with V : valN e _ = valN e w |- _ => rewrite V end. apply H0, HC.
Qed.

(* ------------------------------------------------ structure *)
Section S.
Variable ninp : N.
Notation defd := (defd ninp). Notation pend := (pend ninp). Notation wfst := (wfst ninp).
Notation step := (StructProof.step ninp). Notation oks := (@oks ninp _).

(* s' comes after s: same target, defined wires stay defined *)
Definition adv (s s' : st) : Prop := gmw s' = gmw s /\ forall w, defd s w -> defd s' w.

Lemma adv_refl s : adv s s. Proof. split; auto. Qed.
Lemma adv_trans a b c : adv a b -> adv b c -> adv a c.
Proof. intros [G1 D1] [G2 D2]. split; [congruence|auto]. Qed.
Lemma step_adv s s' wr : step s s' wr -> adv s s'.
Proof. intros S. split; [eapply step_gmw; eauto | intros w; eapply step_defd; eauto]. Qed.
Lemma adv_F s s' l : adv s s' -> Forall (defd s) l -> Forall (defd s') l.
Proof. intros [_ D] F. eapply Forall_impl; [|exact F]. exact D. Qed.
Lemma adv_FF s s' (vals : list (list wire)) : adv s s' -> Forall (Forall (defd s)) vals -> Forall (Forall (defd s')) vals.
Proof. intros A F. eapply Forall_impl; [|exact F]. intros l. apply adv_F, A. Qed.

Lemma Forall_map_nth (P : wire -> Prop) (w : list wire) d (l : list nat) (f : nat -> nat) :
  Forall P w -> P d -> Forall P (map (fun b => nth (f b) w d) l).
Proof.
  intros F D. apply Forall_forall. intros x Hin. apply in_map_iff in Hin. destruct Hin as (b & <- & _).
  destruct (nth_in_or_default (f b) w d) as [H|H]; [|rewrite H; exact D].
  rewrite Forall_forall in F. apply F, H.
Qed.

Lemma defd_last s (l : list wire) : wfst s -> Forall (defd s) l -> defd s (last l 0).
Proof. intros W F. rewrite last_is_nth. apply defd_nth; assumption. Qed.

Lemma cg_resize_s s w t : wfst s -> Forall (defd s) w ->
  oks (cg_resize w t) s (fun w' s' => adv s s' /\ Forall (defd s') w' /\ length w' = s_bits t).
Proof.
  intros W F. unfold cg_resize. destruct (Nat.eqb (length w) (s_bits t)) eqn:E.
  - apply Nat.eqb_eq in E. apply oks_ret; auto using adv_refl.
  - eapply oks_bind with (P := fun pad s1 => adv s s1 /\ defd s1 pad).
    + destruct (s_signed t && Nat.ltb 0 (length w)).
      * apply oks_ret; auto. split; [apply adv_refl|]. apply defd_last; assumption.
      * eapply oks_conseq; [apply zero_s; exact W|]. cbv beta. intros z s1 W1 (S1 & D1).
        split; [eapply step_adv; eauto|exact D1].
    + intros pad s1 W1 [A D]. cbv beta. apply oks_ret; auto. split; [exact A|]. split.
      * apply (Forall_map_nth (defd s1) w pad (seq 0 (s_bits t)) (fun b => b)); [eapply adv_F; eauto|exact D].
      * rewrite map_length, seq_length. reflexivity.
Qed.

Lemma cg_opnd_s vals o s : wfst s -> Forall (Forall (defd s)) vals ->
  oks (cg_opnd vals o) s (fun w s' => adv s s' /\ Forall (defd s') w /\ length w = opnd_bits o).
Proof.
  intros W FF. destruct o as [i t|cw cv t]; cbn [cg_opnd opnd_bits opnd_ty].
  - apply cg_resize_s; [exact W|].
    destruct (nth_in_or_default i vals []) as [H|H]; [|rewrite H; constructor].
    rewrite Forall_forall in FF. apply FF, H.
  - sbind zero_s. intros zw s1 W1 (S1 & D1). cbv beta.
    sbind one_s. intros ow s2 W2 (S2 & D2). cbv beta.
    eapply oks_conseq; [apply cg_resize_s; [exact W2|]|].
    + unfold const_wires. apply Forall_forall. intros x Hin. apply in_map_iff in Hin.
      destruct Hin as (b & <- & _). destruct (N.testbit cv (N.of_nat b)); [exact D2|].
      eapply step_defd; eauto.
    + cbv beta. intros w s3 W3 (A3 & F3 & L3). split; [|auto].
      eapply adv_trans; [eapply step_adv; eauto|]. eapply adv_trans; [eapply step_adv; eauto|exact A3].
Qed.

Lemma mapM_opnd_s vals : forall args s, wfst s -> Forall (Forall (defd s)) vals ->
  oks (mapM (cg_opnd vals) args) s
      (fun ws s' => adv s s' /\ Forall2 (fun a w => Forall (defd s') w /\ length w = opnd_bits a) args ws).
Proof.
  induction args as [|a args IH]; intros s W FF; cbn [mapM].
  - apply oks_ret; auto. split; [apply adv_refl|constructor].
  - eapply oks_bind; [apply cg_opnd_s; eauto|]. intros w s1 W1 (A1 & F1 & L1). cbv beta.
    eapply oks_bind; [apply IH; [exact W1|eapply adv_FF; eauto]|]. intros ws s2 W2 (A2 & F2). cbv beta.
    apply oks_ret; auto. split; [eapply adv_trans; eauto|]. constructor; [|exact F2].
    split; [eapply adv_F; eauto|exact L1].
Qed.

(* builders writing into fresh destinations *)
Lemma bld_s ob (b : list wire -> M (list wire)) s : wfst s ->
  (forall o s1, wfst s1 -> step s s1 [] -> Forall (pend s1) o -> NoDup o -> length o = ob ->
     oks (b o) s1 (fun z' s' => step s1 s' o /\ Forall (defd s') z' /\ length z' = length o)) ->
  oks (o <- fresh_n ob;; b o) s (fun z' s' => adv s s' /\ Forall (defd s') z').
Proof.
  intros W H. sbind fresh_n_s. intros o s1 W1 (S1 & ND & L & P). cbv beta.
  eapply oks_conseq; [apply H; auto|].
  - apply Forall_forall. intros w Hin. apply P, Hin.
  - cbv beta. intros z' s2 W2 (S2 & F2 & _). split; [|exact F2].
    eapply adv_trans; eapply step_adv; eauto.
Qed.

Lemma bldu_s ob (b : list wire -> M unit) s : wfst s ->
  (forall o s1, wfst s1 -> step s s1 [] -> Forall (pend s1) o -> NoDup o -> length o = ob ->
     oks (b o) s1 (fun _ s' => step s1 s' o /\ Forall (defd s') o)) ->
  oks (o <- fresh_n ob;; b o;; ret o) s (fun z' s' => adv s s' /\ Forall (defd s') z').
Proof.
  intros W H. sbind fresh_n_s. intros o s1 W1 (S1 & ND & L & P). cbv beta.
  eapply oks_bind; [apply H; auto|].
  - apply Forall_forall. intros w Hin. apply P, Hin.
  - cbv beta. intros u s2 W2 (S2 & F2). apply oks_ret; auto. split; [|exact F2].
    eapply adv_trans; eapply step_adv; eauto.
Qed.

Lemma bldu1_s (b : list wire -> M unit) s : wfst s ->
  (forall r0 s1, wfst s1 -> step s s1 [] -> pend s1 r0 ->
     oks (b [r0]) s1 (fun _ s' => step s1 s' [r0] /\ defd s' r0)) ->
  oks (o <- fresh_n 1;; b o;; ret o) s (fun z' s' => adv s s' /\ Forall (defd s') z').
Proof.
  intros W H. apply bldu_s; [exact W|]. intros o s1 W1 S1 P ND L.
  destruct (len1 o L) as [r0 ->]. inversion P; subst.
  eapply oks_conseq; [apply H; auto|]. cbv beta. intros u s2 W2 (S2 & D2). split; [exact S2|].
  constructor; [exact D2|constructor].
Qed.

Lemma inv_loop_s : forall x o s, wfst s -> Forall (defd s) x -> Forall (pend s) o -> NoDup o ->
  (length o <= length x)%nat ->
  oks (inv_loop x o) s (fun _ s' => step s s' o /\ Forall (defd s') o).
Proof.
  induction x as [|xi x IH]; intros o s W Fx Po ND L.
  - destruct o; [|cbn in L; lia]. cbn. apply oks_ret; auto. split; [apply step_refl|constructor].
  - destruct o as [|oi o].
    + cbn. apply oks_ret; auto. split; [apply step_refl|constructor].
    + cbn [inv_loop]. inversion Fx; subst. inversion Po; subst. inversion ND; subst.
      eapply oks_bind; [apply cc_inv_s; eauto|]. intros u s1 W1 (S1 & D1). cbv beta.
      eapply oks_conseq; [apply IH; [exact W1| eapply Forall_defd_step; eauto | | assumption | cbn in L; lia]|].
      * apply Forall_forall. intros w Hin. eapply step_pend; [exact S1| |].
        -- match goal with F : Forall (pend s) o |- _ => rewrite Forall_forall in F; apply F, Hin end.
        -- cbn. intros [E|[]]. subst. contradiction.
      * cbv beta. intros _ s2 W2 (S2 & F2). split.
        -- apply (step_trans ninp s s1 s2 [oi] o S1 S2).
        -- constructor; [eapply step_defd; eauto|exact F2].
Qed.

Ltac inv_F :=
  repeat match goal with
         | H : Forall2 _ (_ :: _) _ |- _ => inversion H; clear H; subst
         | H : Forall2 _ [] _ |- _ => inversion H; clear H; subst
         end.

Ltac args_n WF :=
  match goal with
  | args : list opnd |- _ =>
      destruct args as [|?a0 [|?a1 [|?a2 [|?a3 [|?a4 args]]]]]; cbn [length Nat.eqb] in WF; try discriminate WF
  end.

Lemma Forall_map_all (P : wire -> Prop) (f : nat -> wire) l : (forall b, P (f b)) -> Forall P (map f l).
Proof. intros H. apply Forall_forall. intros x Hin. apply in_map_iff in Hin. destruct Hin as (b & <- & _). apply H. Qed.

Lemma nth_P (P : wire -> Prop) (w : list wire) d k : Forall P w -> P d -> P (nth k w d).
Proof.
  intros F D. destruct (nth_in_or_default k w d) as [H|H]; [|rewrite H; exact D].
  rewrite Forall_forall in F. apply F, H.
Qed.

Lemma cg_body_circ_s thr ins c args out aux ws s : wfst s ->
  cg_wf_instr (mkInstr (Ocirc ins c) args out aux) = true ->
  Forall2 (fun a w => Forall (defd s) w /\ length w = opnd_bits a) args ws ->
  oks (cg_body multiplierArrayTresholds thr (mkInstr (Ocirc ins c) args out aux) ws) s
      (fun o s' => adv s s' /\ Forall (defd s') o).
Proof.
  intros W WF FR. unfold cg_wf_instr in WF. cbn [i_op i_args i_out] in WF.
  apply andb_true_iff in WF. destruct WF as [WF OK].
  apply andb_true_iff in WF. destruct WF as [WF OB]. apply Nat.eqb_eq in OB.
  apply andb_true_iff in WF. destruct WF as [AF TI]. apply Nat.eqb_eq in TI.
  unfold cg_body. cbn [i_op i_out i_args].
  eapply oks_conseq; [apply (embed_circ_s ninp ins (s_bits out) c ws s W OK); [|exact TI|exact OB]|].
  - assert (F1 : Forall2 (fun a w => length w = opnd_bits a) args ws).
    { clear - FR. induction FR as [|a w l l' [_ H] _ IH]; constructor; auto. }
    pose proof (args_fit_F2 _ _ _ AF F1) as F2.
    assert (F3 : Forall (Forall (defd s)) ws).
    { clear - FR. induction FR as [|a w l l' [H _] _ IH]; constructor; auto. }
    clear - F2 F3. induction F2 as [|w n l l' H _ IH]; [constructor|].
    inversion F3; subst. constructor; [split; assumption|apply IH; assumption].
  - cbv beta. intros o s' _ [A F]. split; [exact A|exact F].
Qed.

Lemma cg_body_s tg thr i ws s : wfst s -> gmw s = tg -> cg_wf_instr i = true -> ok_tg tg i = true ->
  Forall2 (fun a w => Forall (defd s) w /\ length w = opnd_bits a) (i_args i) ws ->
  oks (cg_body multiplierArrayTresholds thr i ws) s (fun o s' => adv s s' /\ Forall (defd s') o).
Proof.
  intros W G WF HD FR. destruct i as [op args out aux].
  destruct (match op with Ocirc _ _ => true | _ => false end) eqn:IC.
  { destruct op; try discriminate IC. apply cg_body_circ_s; assumption. }
  unfold cg_wf_instr in WF. unfold ok_tg in HD. unfold cg_body.
  cbn [i_op i_args i_out i_aux] in *.
  destruct op; try discriminate WF; try discriminate IC; clear IC; split_wf WF; args_n WF; inv_F; natb;
    cbn [nth arg opnd_const] in *; cbv beta zeta;
    repeat match goal with H : _ /\ _ |- _ => destruct H end.
  (* iadd uadd isub usub *)
  1-2: (apply bld_s; [exact W|]; intros o s1 Ws1 S1 P ND L;
        apply new_adder_s; auto; try (eapply Forall_defd_step; eauto); lia).
  1-2: (apply bld_s; [exact W|]; intros o s1 Ws1 S1 P ND L;
        apply new_subtractor_s; auto; try (eapply Forall_defd_step; eauto); lia).
  (* imult umult *)
  1-2: (apply bld_s; [exact W|]; intros o s1 Ws1 S1 P ND L; destruct (gmw s) eqn:G;
        [apply new_multiplier_gmw_s; auto; try (eapply Forall_defd_step; eauto); try lia;
         rewrite (step_gmw _ _ _ _ S1); exact G
        |apply new_multiplier_yao_s; auto; try (eapply Forall_defd_step; eauto); try lia;
         [apply thresholds_ge_3 | rewrite (step_gmw _ _ _ _ S1); exact G]]).
  (* idiv udiv imod umod *)
  1: (destruct (gmw s) eqn:G; [cbn in HD; discriminate HD|]; apply bldu_s; [exact W|]; intros o s1 Ws1 S1 P ND L;
      apply (new_idivider_q_s ninp s1 y y0 o); auto;
      try (eapply Forall_defd_step; eauto); try lia;
      rewrite (step_gmw _ _ _ _ S1); exact G).
  1: (destruct (gmw s) eqn:G; [cbn in HD; discriminate HD|]; apply bldu_s; [exact W|]; intros o s1 Ws1 S1 P ND L;
      eapply oks_conseq;
        [apply (new_udivider_yao_s ninp s1 y y0 o []); rewrite ?app_nil_r; auto;
         try (eapply Forall_defd_step; eauto); try lia;
         rewrite (step_gmw _ _ _ _ S1); exact G|];
      cbv beta; intros u s2 Ws2 (S2 & Fq & Fr); rewrite app_nil_r in S2; split; [exact S2|];
      rewrite firstn_all2 in Fq by lia; exact Fq).
  1: (destruct (gmw s) eqn:G; [cbn in HD; discriminate HD|]; apply bldu_s; [exact W|]; intros o s1 Ws1 S1 P ND L;
      apply (new_idivider_r_s ninp s1 y y0 o); auto;
      try (eapply Forall_defd_step; eauto); try lia;
      rewrite (step_gmw _ _ _ _ S1); exact G).
  1: (destruct (gmw s) eqn:G; [cbn in HD; discriminate HD|]; apply bldu_s; [exact W|]; intros o s1 Ws1 S1 P ND L;
      eapply oks_conseq;
        [apply (new_udivider_yao_s ninp s1 y y0 [] o); cbn [app]; auto;
         try (eapply Forall_defd_step; eauto); try lia;
         rewrite (step_gmw _ _ _ _ S1); exact G|];
      cbv beta; intros u s2 Ws2 (S2 & Fq & Fr); cbn [app] in S2; split; [exact S2|];
      rewrite firstn_all2 in Fr by lia; exact Fr).
  (* band bor bxor bclr *)
  1: (apply bldu_s; [exact W|]; intros o s1 Ws1 S1 P ND L;
      apply binary_and_s; auto; try (eapply Forall_defd_step; eauto); lia).
  1: (apply bldu_s; [exact W|]; intros o s1 Ws1 S1 P ND L;
      apply binary_or_s; auto; try (eapply Forall_defd_step; eauto); lia).
  1: (apply bldu_s; [exact W|]; intros o s1 Ws1 S1 P ND L;
      apply binary_xor_s; auto; try (eapply Forall_defd_step; eauto); lia).
  1: (apply bldu_s; [exact W|]; intros o s1 Ws1 S1 P ND L;
      apply binary_clear_s; auto; try (eapply Forall_defd_step; eauto); lia).
  (* comparisons, and, or *)
  1: (match goal with E : s_bits out = 1%nat |- _ => rewrite E end;
      apply bldu1_s; [exact W|]; intros r0 s1 Ws1 S1 P;
      apply int_lt_s; auto; try (eapply Forall_defd_step; eauto); lia).
  1: (match goal with E : s_bits out = 1%nat |- _ => rewrite E end;
      apply bldu1_s; [exact W|]; intros r0 s1 Ws1 S1 P;
      apply uint_lt_s; auto; try (eapply Forall_defd_step; eauto); lia).
  1: (match goal with E : s_bits out = 1%nat |- _ => rewrite E end;
      apply bldu1_s; [exact W|]; intros r0 s1 Ws1 S1 P;
      apply int_le_s; auto; try (eapply Forall_defd_step; eauto); lia).
  1: (match goal with E : s_bits out = 1%nat |- _ => rewrite E end;
      apply bldu1_s; [exact W|]; intros r0 s1 Ws1 S1 P;
      apply uint_le_s; auto; try (eapply Forall_defd_step; eauto); lia).
  1: (match goal with E : s_bits out = 1%nat |- _ => rewrite E end;
      apply bldu1_s; [exact W|]; intros r0 s1 Ws1 S1 P;
      apply int_gt_s; auto; try (eapply Forall_defd_step; eauto); lia).
  1: (match goal with E : s_bits out = 1%nat |- _ => rewrite E end;
      apply bldu1_s; [exact W|]; intros r0 s1 Ws1 S1 P;
      apply uint_gt_s; auto; try (eapply Forall_defd_step; eauto); lia).
  1: (match goal with E : s_bits out = 1%nat |- _ => rewrite E end;
      apply bldu1_s; [exact W|]; intros r0 s1 Ws1 S1 P;
      apply int_ge_s; auto; try (eapply Forall_defd_step; eauto); lia).
  1: (match goal with E : s_bits out = 1%nat |- _ => rewrite E end;
      apply bldu1_s; [exact W|]; intros r0 s1 Ws1 S1 P;
      apply uint_ge_s; auto; try (eapply Forall_defd_step; eauto); lia).
  1: (match goal with E : s_bits out = 1%nat |- _ => rewrite E end;
      apply bldu1_s; [exact W|]; intros r0 s1 Ws1 S1 P;
      apply eq_comparator_s; auto; try (eapply Forall_defd_step; eauto); lia).
  1: (match goal with E : s_bits out = 1%nat |- _ => rewrite E end;
      apply bldu1_s; [exact W|]; intros r0 s1 Ws1 S1 P;
      apply neq_comparator_s; auto; try (eapply Forall_defd_step; eauto); lia).
  1: (match goal with E : s_bits out = 1%nat |- _ => rewrite E end;
      apply bldu1_s; [exact W|]; intros r0 s1 Ws1 S1 P;
      apply logical_and_s; auto; try (eapply Forall_defd_step; eauto); lia).
  1: (match goal with E : s_bits out = 1%nat |- _ => rewrite E end;
      apply bldu1_s; [exact W|]; intros r0 s1 Ws1 S1 P;
      apply logical_or_s; auto; try (eapply Forall_defd_step; eauto); lia).
  (* not *)
  1: (apply bldu_s; [exact W|]; intros o s1 Ws1 S1 P ND L;
      apply inv_loop_s; auto; try (eapply Forall_defd_step; eauto); lia).
  (* mov smov lshift rshift srshift slice amov *)
  1: (sbind zero_s; intros z s1 Ws1 (S1 & Dz); cbv beta; apply oks_ret; auto;
      split; [eapply step_adv; eauto|]; apply Forall_map_all; intros b;
      repeat match goal with |- context [if ?c then _ else _] => destruct c end;
      try exact Dz; apply nth_P; solve [eapply Forall_defd_step; eauto | exact Dz]).
  1: (apply oks_ret; auto; split; [apply adv_refl|]; apply Forall_map_all; intros b;
      apply nth_P; [assumption | apply defd_last; assumption]).
  1: (sbind zero_s; intros z s1 Ws1 (S1 & Dz); cbv beta; apply oks_ret; auto;
      split; [eapply step_adv; eauto|]; apply Forall_map_all; intros b;
      repeat match goal with |- context [if ?c then _ else _] => destruct c end;
      try exact Dz; apply nth_P; solve [eapply Forall_defd_step; eauto | exact Dz]).
  1: (sbind zero_s; intros z s1 Ws1 (S1 & Dz); cbv beta; apply oks_ret; auto;
      split; [eapply step_adv; eauto|]; apply Forall_map_all; intros b;
      repeat match goal with |- context [if ?c then _ else _] => destruct c end;
      try exact Dz; apply nth_P; solve [eapply Forall_defd_step; eauto | exact Dz]).
  1: (apply oks_ret; auto; split; [apply adv_refl|]; apply Forall_map_all; intros b;
      apply nth_P; [assumption | apply defd_last; assumption]).
  1: (sbind zero_s; intros z s1 Ws1 (S1 & Dz); cbv beta; apply oks_ret; auto;
      split; [eapply step_adv; eauto|]; apply Forall_map_all; intros b;
      repeat match goal with |- context [if ?c then _ else _] => destruct c end;
      try exact Dz; apply nth_P; solve [eapply Forall_defd_step; eauto | exact Dz]).
  1: (sbind zero_s; intros z s1 Ws1 (S1 & Dz); cbv beta; apply oks_ret; auto;
      split; [eapply step_adv; eauto|]; apply Forall_map_all; intros b;
      repeat match goal with |- context [if ?c then _ else _] => destruct c end;
      try exact Dz; apply nth_P; solve [eapply Forall_defd_step; eauto | exact Dz]).
  (* index *)
  1: { apply bld_s; [exact W|]; intros o s1 Ws1 S1 P ND L.
       set (off := opnd_const a1) in *. set (n := ((opnd_bits a0 - off) / aux)%nat) in *.
       assert (La : length (skipn off y) = (n * aux)%nat).
       { rewrite skipn_length.
         match goal with E : length y = opnd_bits a0 |- _ => rewrite E end.
         pose proof (Nat.div_mod (opnd_bits a0 - off) aux ltac:(lia)) as D.
         match goal with E : ((opnd_bits a0 - off) mod aux)%nat = 0%nat |- _ => rewrite E in D end.
         unfold n. lia. }
       eapply oks_conseq;
         [apply (new_index_s ninp s1 aux (skipn off y) y1 o n); auto; try lia;
          [apply Forall_skipn_ix; eapply Forall_defd_step; eauto | eapply Forall_defd_step; eauto]|].
       cbv beta. intros o' s2 Ws2 (-> & S2 & F2). auto. }
  (* phi *)
  1: { match goal with E : opnd_bits a0 = 1%nat, L : length y = opnd_bits a0 |- _ => rewrite E in L; destruct (len1 y L) as [c ->] end.
       apply bldu_s; [exact W|]; intros o s1 Ws1 S1 P ND L.
       apply new_mux_s; auto; try (eapply Forall_defd_step; eauto); try lia.
       match goal with F : Forall (defd s) [c] |- _ => inversion F; subst end.
       eapply step_defd; eauto. }
  (* concat bts btc hamming *)
  1: (apply oks_ret; auto; split; [apply adv_refl|]; apply Forall_app; split; assumption).
  1: (match goal with E : s_bits out = 1%nat |- _ => rewrite E end;
      apply bld_s; [exact W|]; intros o s1 Ws1 S1 P ND L;
      destruct (len1 o L) as [r0 ->]; inversion P; subst;
      apply bit_set_test_s; auto; eapply Forall_defd_step; eauto).
  1: (match goal with E : s_bits out = 1%nat |- _ => rewrite E end;
      apply bld_s; [exact W|]; intros o s1 Ws1 S1 P ND L;
      destruct (len1 o L) as [r0 ->]; inversion P; subst;
      apply bit_clr_test_s; auto; eapply Forall_defd_step; eauto).
  1: (apply bld_s; [exact W|]; intros o s1 Ws1 S1 P ND L;
      apply hamming_s; auto; try (eapply Forall_defd_step; eauto); lia).
Qed.
End S.

Section S2.
Variable ninp : N.
Notation defd := (defd ninp). Notation pend := (pend ninp). Notation wfst := (wfst ninp).
Notation step := (StructProof.step ninp). Notation oks := (@oks ninp _).
Notation adv := (adv ninp).

Lemma cg_instr_s tg thr vals i s : wfst s -> gmw s = tg -> cg_wf_instr i = true -> ok_tg tg i = true ->
  Forall (Forall (defd s)) vals ->
  oks (cg_instr multiplierArrayTresholds thr vals i) s (fun o s' => adv s s' /\ Forall (defd s') o).
Proof.
  intros W G WF HD FF. unfold cg_instr.
  eapply oks_bind; [apply mapM_opnd_s; eauto|]. intros ws s1 W1 (A1 & F2). cbv beta.
  eapply oks_conseq; [apply (cg_body_s ninp tg); [exact W1 | destruct A1; congruence | exact WF | exact HD | exact F2]|].
  cbv beta. intros o s2 W2 (A2 & F). split; [eapply adv_trans; eauto|exact F].
Qed.

Lemma cg_code_s tg thr : forall code vals s, wfst s -> gmw s = tg ->
  forallb cg_wf_instr code = true -> forallb (ok_tg tg) code = true -> Forall (Forall (defd s)) vals ->
  oks (cg_code multiplierArrayTresholds thr code vals) s
      (fun vals' s' => adv s s' /\ Forall (Forall (defd s')) vals').
Proof.
  induction code as [|i r IH]; intros vals s W G WF WD FF; cbn [cg_code].
  - apply oks_ret; auto. split; [apply adv_refl|exact FF].
  - cbn [forallb] in WF, WD. apply andb_true_iff in WF. destruct WF as [Wi Wr].
    apply andb_true_iff in WD. destruct WD as [Di Dr].
    eapply oks_bind; [apply (cg_instr_s tg); eauto|]. intros o s1 W1 (A1 & F1). cbv beta.
    eapply oks_conseq; [apply IH; auto; [destruct A1; congruence|]|].
    + apply Forall_app. split; [eapply adv_FF; eauto|constructor; [exact F1|constructor]].
    + cbv beta. intros vals' s2 W2 (A2 & F2). split; [eapply adv_trans; eauto|exact F2].
Qed.

Lemma cg_ret_wire_s w s : wfst s -> defd s w ->
  oks (cg_ret_wire w) s (fun o s' => adv s s' /\ defd s' o).
Proof.
  intros W D. unfold cg_ret_wire.
  sbind fresh_s. intros o s1 W1 (E1 & P1 & S1 & N1). cbv beta.
  eapply oks_bind; [apply cc_id_s; [exact W1|eapply step_defd; eauto|exact P1]|].
  intros u s2 W2 (S2 & D2). cbv beta. apply oks_ret; auto. split; [|exact D2].
  eapply adv_trans; eapply step_adv; eauto.
Qed.

Lemma ret_wires_s : forall ws s, wfst s -> Forall (defd s) ws ->
  oks (mapM cg_ret_wire ws) s (fun _ s' => adv s s').
Proof.
  induction ws as [|w ws IH]; intros s W F; cbn [mapM].
  - apply oks_ret; auto. apply adv_refl.
  - inversion F; subst.
    eapply oks_bind; [apply cg_ret_wire_s; eauto|]. intros o s1 W1 (A1 & D1). cbv beta.
    eapply oks_bind; [apply IH; [exact W1|eapply adv_F; eauto]|]. intros os s2 W2 A2. cbv beta.
    apply oks_ret; auto. eapply adv_trans; eauto.
Qed.

Lemma ret_all_s : forall rws s, wfst s -> Forall (Forall (defd s)) rws ->
  oks (mapM (mapM cg_ret_wire) rws) s (fun _ s' => adv s s').
Proof.
  induction rws as [|ws rws IH]; intros s W F; cbn [mapM].
  - apply oks_ret; auto. apply adv_refl.
  - inversion F; subst.
    eapply oks_bind; [apply ret_wires_s; eauto|]. intros o s1 W1 A1. cbv beta.
    eapply oks_bind; [apply IH; [exact W1|eapply adv_FF; [exact A1|assumption]]|]. intros os s2 W2 A2. cbv beta.
    apply oks_ret; auto. eapply adv_trans; [exact A1|exact A2].
Qed.

Lemma cg_prog_s tg thr p s : wfst s -> gmw s = tg -> cg_wf_tg tg p = true ->
  Forall (Forall (defd s)) (input_wires 0 (sp_inputs p)) ->
  oks (cg_prog multiplierArrayTresholds thr p) s (fun _ _ => True).
Proof.
  intros W G WF FF. unfold cg_wf_tg, cg_wf in WF. apply andb_true_iff in WF. destruct WF as [WF WD].
  apply andb_true_iff in WF. destruct WF as [_ WC].
  unfold cg_prog.
  sbind zero_s. intros z s1 W1 (S1 & D1). cbv beta.
  sbind one_s. intros o1 s2 W2 (S2 & D2). cbv beta.
  assert (A2 : adv s s2) by (eapply adv_trans; eapply step_adv; eauto).
  eapply oks_bind; [apply (cg_code_s tg thr (sp_code p) _ s2 W2); [destruct A2; congruence|exact WC|exact WD|eapply adv_FF; eauto]|].
  intros vals s3 W3 (A3 & F3). cbv beta.
  eapply oks_bind; [apply mapM_opnd_s; eauto|]. intros rws s4 W4 (A4 & F4). cbv beta.
  eapply oks_conseq; [apply ret_all_s; [exact W4|]|auto].
  clear - F4. induction F4 as [|a w l l' [H _] _ IH]; constructor; auto.
Qed.
End S2.

(* ------------------------------------------------ inputs *)
Lemma wrng_In from n w : In w (wrng from n) -> from <= w /\ w < from + N.of_nat n.
Proof.
  unfold wrng. rewrite in_map_iff. intros (i & E & Hi). apply in_seq in Hi. lia.
Qed.

Lemma input_wires_lt : forall ws from l w,
  In l (input_wires from ws) -> In w l -> w < from + N.of_nat (total_bits ws).
Proof.
  induction ws as [|x ws IH]; intros from l w Hl Hw; cbn [input_wires total_bits fold_right] in *; [contradiction|].
  destruct Hl as [<-|Hl].
  - apply wrng_In in Hw. lia.
  - specialize (IH _ _ _ Hl Hw). unfold total_bits in IH. lia.
Qed.

Lemma bits_of_N_length w v : length (bits_of_N w v) = w.
Proof. unfold bits_of_N. rewrite map_length, seq_length. reflexivity. Qed.

Lemma bits_of_N_nth w v k : (k < w)%nat -> nth k (bits_of_N w v) false = N.testbit v (N.of_nat k).
Proof.
  intros H. unfold bits_of_N.
  rewrite (nth_indep _ false (N.testbit v (N.of_nat 0))) by (rewrite map_length, seq_length; exact H).
  rewrite (map_nth (fun i => N.testbit v (N.of_nat i)) (seq 0 w) 0%nat k), seq_nth by exact H. reflexivity.
Qed.

Lemma bits_of_N_0 w : bits_of_N w 0 = repeat false w.
Proof.
  apply (nth_ext _ _ false false).
  - rewrite bits_of_N_length, repeat_length. reflexivity.
  - rewrite bits_of_N_length. intros k Hk. rewrite bits_of_N_nth by exact Hk.
    rewrite N.bits_0. symmetry. apply nth_repeat.
Qed.

Lemma input_bits_length : forall ws inp, length (input_bits ws inp) = total_bits ws.
Proof.
  induction ws as [|w ws IH]; intros inp; cbn [input_bits total_bits fold_right]; [reflexivity|].
  destruct inp as [|v vr]; rewrite app_length, IH; [rewrite repeat_length|rewrite bits_of_N_length]; reflexivity.
Qed.

Lemma inv_inputs (e : Emit.env) : forall ws inp from,
  (forall k, (k < total_bits ws)%nat ->
             e (from + N.of_nat k) = nth k (input_bits ws inp) false) ->
  inv e (input_wires from ws) (init_vals ws inp).
Proof.
  induction ws as [|w ws IH]; intros inp from H; [constructor|].
  assert (X : exists v vr, input_bits (w :: ws) inp = bits_of_N w v ++ input_bits ws vr /\
                           init_vals (w :: ws) inp = (w, norm w v) :: init_vals ws vr).
  { destruct inp as [|v vr]; [exists 0, []|exists v, vr]; cbn [input_bits init_vals];
      (split; [try rewrite bits_of_N_0; reflexivity
              | try (unfold norm; rewrite N.mod_0_l by apply pow2_nz); reflexivity]). }
  destruct X as (v & vr & EB & EV). rewrite EV. rewrite EB in H.
  cbn [total_bits fold_right] in H. fold (total_bits ws) in H. cbn [input_wires].
  constructor.
  - cbn [fst snd]. split; [unfold wrng; rewrite map_length, seq_length; reflexivity|].
    apply bits_inj_nat. intros k. unfold wrng. rewrite valN_map_seq, norm_testbit.
    destruct (Nat.ltb k w) eqn:E; [|reflexivity]. apply Nat.ltb_lt in E. cbn [andb].
    rewrite H by lia. rewrite app_nth1 by (rewrite bits_of_N_length; exact E).
    apply bits_of_N_nth, E.
  - apply IH. intros k Hk. replace (from + N.of_nat w + N.of_nat k) with (from + N.of_nat (w + k)) by lia.
    rewrite H by lia. rewrite app_nth2 by (rewrite bits_of_N_length; lia).
    rewrite bits_of_N_length. f_equal. lia.
Qed.

(* ------------------------------------------------ the theorem *)
Theorem circuitgen_correct_tg tg thr p inp : cg_wf_tg tg p = true ->
  eval_circuit (circuit_of_ssa_gen multiplierArrayTresholds thr tg p) (input_bits (sp_inputs p) inp)
  = eval_ssa p inp.
Proof.
  intros WF. unfold circuit_of_ssa_gen, eval_circuit.
  set (n := total_bits (sp_inputs p)).
  assert (Hn : (1 <= n)%nat).
  { unfold cg_wf_tg, cg_wf in WF. apply andb_true_iff in WF. destruct WF as [WF _].
    apply andb_true_iff in WF. destruct WF as [H _]. apply Nat.leb_le in H. exact H. }
  set (e0 := env_of_bits (input_bits (sp_inputs p) inp)).
  assert (WS : wfst (N.of_nat n) (st0 (N.of_nat n) tg)) by (apply wfst_st0; lia).
  assert (SK : @oks (N.of_nat n) _ (cg_prog multiplierArrayTresholds thr p) (st0 (N.of_nat n) tg) (fun _ _ => True)).
  { apply (cg_prog_s (N.of_nat n) tg); auto. apply Forall_forall. intros l Hl. apply Forall_forall. intros w Hw.
    apply defd_input. pose proof (input_wires_lt _ _ _ _ Hl Hw). fold n in H. lia. }
  destruct (run_st0 (N.of_nat n) (N.of_nat n) tg _ _ _ (okm_cg_prog tg thr p inp WF) SK e0)
    as (outs & s' & E & C & D & _ & HP & HI).
  rewrite E. cbn [cc_gates cc_outs]. apply HP.
  apply inv_inputs. intros k Hk. fold n in Hk. rewrite N.add_0_l, HI by lia.
  unfold e0, env_of_bits. rewrite Nat2N.id. reflexivity.
Qed.

(* the generated gate list itself: single assignment and defined before use
   (no hypothesis beyond cg_wf_tg: both are proved along with the semantics) *)
Theorem circuitgen_structure tg thr p : cg_wf_tg tg p = true ->
  let c := circuit_of_ssa_gen multiplierArrayTresholds thr tg p in
  wfc_b (N.of_nat (cc_ninp c)) (cc_gates c) = true /\ dbu (N.of_nat (cc_ninp c)) (cc_gates c).
Proof.
  intros WF. cbv zeta. unfold circuit_of_ssa_gen.
  set (n := total_bits (sp_inputs p)).
  assert (Hn : (1 <= n)%nat).
  { unfold cg_wf_tg, cg_wf in WF. apply andb_true_iff in WF. destruct WF as [WF' _].
    apply andb_true_iff in WF'. destruct WF' as [H _]. apply Nat.leb_le in H. exact H. }
  assert (WS : wfst (N.of_nat n) (st0 (N.of_nat n) tg)) by (apply wfst_st0; lia).
  assert (SK : @oks (N.of_nat n) _ (cg_prog multiplierArrayTresholds thr p) (st0 (N.of_nat n) tg) (fun _ _ => True)).
  { apply (cg_prog_s (N.of_nat n) tg); auto. apply Forall_forall. intros l Hl. apply Forall_forall. intros w Hw.
    apply defd_input. pose proof (input_wires_lt _ _ _ _ Hl Hw). fold n in H. lia. }
  destruct (run_st0 (N.of_nat n) (N.of_nat n) tg _ _ _ (okm_cg_prog tg thr p [] WF) SK (fun _ => false))
    as (outs & s' & E & C & D & _).
  rewrite E. cbn [cc_ninp cc_gates]. split; assumption.
Qed.

Lemma cg_wf_tg_false p : cg_wf_tg false p = cg_wf p.
Proof.
  unfold cg_wf_tg. replace (forallb (ok_tg false) (sp_code p)) with true; [apply andb_true_r|].
  symmetry. apply forallb_forall. intros i _. reflexivity.
Qed.

(* Yao target (utils.NewParams), every threshold *)
Theorem circuitgen_correct_gen thr p inp : cg_wf p = true ->
  eval_circuit (circuit_of_ssa_gen multiplierArrayTresholds thr false p) (input_bits (sp_inputs p) inp)
  = eval_ssa p inp.
Proof. intros WF. apply circuitgen_correct_tg. rewrite cg_wf_tg_false. exact WF. Qed.

Theorem circuitgen_correct p inp : cg_wf p = true ->
  eval_circuit (circuit_of_ssa p) (input_bits (sp_inputs p) inp) = eval_ssa p inp.
Proof. apply circuitgen_correct_gen. Qed.

(* GMW target: everything but division *)
Theorem circuitgen_correct_gmw thr p inp : cg_wf_tg true p = true ->
  eval_circuit (circuit_of_ssa_gen multiplierArrayTresholds thr true p) (input_bits (sp_inputs p) inp)
  = eval_ssa p inp.
Proof. apply circuitgen_correct_tg. Qed.
