(* CircEmbed.v — Gallina model of the SSA instruction `circ`: the embedding of
   a parsed native circuit (instr.Circ, a circuit.Circuit read by circuit.Parse
   from a .circ / .mpclc / Bristol file) into the circuit being generated:
     /repo/compiler/ssa/circuitgen.go   Program.Circuit, "case Circ:"
   on top of the gate-emitting monad Builders/Emit.v.  The sub-circuit is a term
   of Circuit/Circuit.v (the model of circuit.Circuit C01/C14 use).

   Go code, in order:
     "Flatten input wires": for every argument wi the operand wires (already cast
       to the operand's declared width by the operand loop of Program.Circuit),
       then cc.ZeroWire() up to instr.Circ.Inputs[wi].Type.Bits  -> [flatten_args]
       (Compiler.Pad has exactly this shape: Emit.pad);
     "Flatten output wires": walloc.Wires(r, r.Type.Bits) for every r of
       instr.Ret, appended                                        -> fresh_n ob
       (a wire is its allocation number; consecutive allocations of the result
       values = one allocation of the total width);
     "Add intermediate wires": NumWires - len(circWires) - len(circOut) times
       cc.Calloc.Wire()                                           -> fresh_n
     circWires = inputs ++ intermediates ++ outputs;
     "Add gates": XOR/XNOR/AND -> AddGate(BinaryGate(op, cw[in0], cw[in1], cw[out])),
       OR -> cc.OR, INV -> cc.INV                                 -> [embed_gate]
   An index outside circWires panics in Go; the total model reads wire 0 there
   and [circ_ok] / cg_wf exclude it.

   No proofs in this file. *)
From Coq Require Import NArith List Bool Arith.
From Mpc Require Import Builders.Emit.
From Mpc Require Circuit.Circuit.
Import ListNotations.
Open Scope monad_scope.
Local Open Scope nat_scope.


Definition tot (l : list nat) : nat := fold_right Nat.add 0 l.

(* one iteration of "for _, gate := range instr.Circ.Gates" *)
Definition embed_gate (cw : list wire) (g : Circuit.gate) : M unit :=
  let a := nth (Circuit.gin0 g) cw 0%N in
  let b := nth (Circuit.gin1 g) cw 0%N in
  let o := nth (Circuit.gout g) cw 0%N in
  match Circuit.gop g with
  | Circuit.XOR => emit XOR a b o
  | Circuit.XNOR => emit XNOR a b o
  | Circuit.AND => emit AND a b o
  | Circuit.OR => cc_or a b o
  | Circuit.INV => cc_inv a o
  end.

Fixpoint embed_gates (cw : list wire) (gs : list Circuit.gate) : M unit :=
  match gs with
  | [] => ret tt
  | g :: r => embed_gate cw g;; embed_gates cw r
  end.

(* "circWires = append(circWires, w...); for i := len(w); i < Inputs[wi].Type.Bits; i++
    { circWires = append(circWires, cc.ZeroWire()) }" *)
Fixpoint flatten_args (ws : list (list wire)) (ins : list nat) : M (list wire) :=
  match ws with
  | [] => ret []
  | w :: wr =>
      p <- pad w (hd 0 ins);;
      r <- flatten_args wr (tl ins);;
      ret (p ++ r)
  end.

(* ins = Inputs[k].Type.Bits of the sub-circuit, ob = total width of instr.Ret;
   result: circOut (the wires of the results, in order) *)
Definition embed_circ (ins : list nat) (ob : nat) (c : Circuit.circuit) (ws : list (list wire)) : M (list wire) :=
  cin <- flatten_args ws ins;;
  o <- fresh_n ob;;
  ints <- fresh_n (Circuit.nwires c - length cin - length o);;
  embed_gates (cin ++ ints ++ o) (Circuit.gates c);;
  ret o.

(* ---- side condition on the sub-circuit (executable) ----
   Circuit.wf (ids in range, inputs of every gate assigned before use, outputs
   assigned, no gate writes an input wire) allows a gate to overwrite an
   intermediate wire; embedded into a larger circuit such a list is no longer
   single assignment, and the garbling / streaming layers number wires by
   assignment.  [sa_gates]: no gate writes a wire that is already assigned.
   Compiler output and the shipped .circ files satisfy it (evaluated on every
   embedded circuit of every run).  ninputs + noutputs <= nwires: an output wire
   that is an input wire (possible in a file with fewer gates than outputs)
   makes "nint" negative in the Go code and the result wires undriven. *)
Fixpoint sa_gates (asg : list bool) (gs : list Circuit.gate) : bool :=
  match gs with
  | [] => true
  | g :: r => negb (nth (Circuit.gout g) asg false) && sa_gates (Circuit.upd asg (Circuit.gout g) true) r
  end.

Definition circ_ok (c : Circuit.circuit) : bool :=
  Circuit.wf c && sa_gates (Circuit.init_asg c) (Circuit.gates c) && (Circuit.ninputs c + Circuit.noutputs c <=? Circuit.nwires c).
