(* Mini.v — reference semantics of the documented MPCL core (property C03).

   This file is the SPECIFICATION side: what an MPCL program of the core
   fragment means.  It does not follow any Go function; the conventions are
   the ones fixed by /repo/docs and the annotated programs under
   /repo/testsuite/lang (add/sub/mult: wrapping; divi/modi: quotient truncated
   towards zero, remainder of |a|,|b|; rshift on int is arithmetic; casts).

   Values.  Every value is a bit pattern, kept as the unsigned number [N] of
   its [width t] bits (two's complement for intN).  Arrays and structs are the
   concatenation of their elements, element 0 / first field in the low bits
   (this is the layout of circuit inputs and outputs, /repo/circuit/ioarg.go).

   Big-step interpreter; no fuel: loops have compile-time bounds (the iteration
   count is part of the syntax), calls go to functions defined earlier.

   No proofs in this file. *)
From Coq Require Import ZArith NArith List Bool.
Import ListNotations.
Open Scope N_scope.

(* ------------------------------------------------------------------ types *)
Inductive ty : Type :=
| TBool
| TInt (w : nat)               (* intN,  N >= 1 *)
| TUint (w : nat)              (* uintN, N >= 1 *)
| TArr (n : nat) (t : ty)      (* [n]t *)
| TStruct (fs : list ty).      (* struct { f0 t0 ... } *)

Fixpoint width (t : ty) : nat :=
  match t with
  | TBool => 1%nat
  | TInt w => w
  | TUint w => w
  | TArr n t => (n * width t)%nat
  | TStruct fs => (fix go (l : list ty) : nat :=
                     match l with [] => 0%nat | f :: r => (width f + go r)%nat end) fs
  end.

Definition is_signed (t : ty) : bool := match t with TInt _ => true | _ => false end.
Definition is_scalar (t : ty) : bool :=
  match t with TBool | TInt _ | TUint _ => true | _ => false end.

(* ------------------------------------------------- bit patterns and numbers *)
Definition pow2 (w : nat) : N := 2 ^ N.of_nat w.
Definition norm (w : nat) (n : N) : N := n mod pow2 w.

(* the number denoted by the w-bit pattern n: two's complement when sg *)
Definition to_Z (sg : bool) (w : nat) (n : N) : Z :=
  let m := norm w n in
  if sg && N.testbit m (N.of_nat (w - 1)) && negb (Nat.eqb w 0)
  then (Z.of_N m - Z.of_N (pow2 w))%Z else Z.of_N m.

(* the w-bit pattern of the integer z (wrapping) *)
Definition of_Z (w : nat) (z : Z) : N := Z.to_N (z mod Z.of_N (pow2 w))%Z.

Definition ofb (b : bool) : N := if b then 1 else 0.

(* ------------------------------------------------------------- operators *)
Inductive binop : Type :=
| Add | Sub | Mul | Div | Mod
| BAnd | BOr | BXor | BAndNot
| Lt | Le | Gt | Ge | Eq | Ne
| LAnd | LOr.

Definition is_cmp (op : binop) : bool :=
  match op with Lt | Le | Gt | Ge | Eq | Ne => true | _ => false end.
Definition is_logical (op : binop) : bool :=
  match op with LAnd | LOr => true | _ => false end.
(* width of the result of an operator on w-bit operands *)
Definition res_width (op : binop) (w : nat) : nat :=
  if is_cmp op || is_logical op then 1%nat else w.

(* [arith op sg w a b]: the operator on two w-bit operands (signed reading when
   sg).  Arithmetic and bitwise results are w-bit patterns, comparisons and
   the logical operators give 0/1.
   Division conventions (testsuite/lang/divi.mpcl, modi.mpcl, divu, modu):
     a / b  = quotient truncated towards zero, wrapped (min / -1 = min);
     a % b  = |a| mod |b|  (never negative: -42 % 4 = 2).
   Division by zero is not fixed by the documentation; the reference adopts
   the value every divider of the repository produces (all-ones quotient,
   i.e. 2^w-1 resp. -1, negated for a negative dividend; remainder |a|) so
   that the semantics is total.  Such inputs are counted separately by the
   harness. *)
Definition arith (op : binop) (sg : bool) (w : nat) (a b : N) : N :=
  let za := to_Z sg w a in
  let zb := to_Z sg w b in
  match op with
  | Add => of_Z w (za + zb)
  | Sub => of_Z w (za - zb)
  | Mul => of_Z w (za * zb)
  | Div => if (zb =? 0)%Z
           then (if (za <? 0)%Z then of_Z w 1 else of_Z w (-1))
           else of_Z w (Z.quot za zb)
  | Mod => if (zb =? 0)%Z then of_Z w (Z.abs za)
           else of_Z w (Z.rem (Z.abs za) (Z.abs zb))
  | BAnd => norm w (N.land (norm w a) (norm w b))
  | BOr => norm w (N.lor (norm w a) (norm w b))
  | BXor => norm w (N.lxor (norm w a) (norm w b))
  | BAndNot => norm w (N.ldiff (norm w a) (norm w b))
  | Lt => ofb (za <? zb)%Z
  | Le => ofb (za <=? zb)%Z
  | Gt => ofb (zb <? za)%Z
  | Ge => ofb (zb <=? za)%Z
  | Eq => ofb (N.eqb (norm w a) (norm w b))
  | Ne => ofb (negb (N.eqb (norm w a) (norm w b)))
  | LAnd => norm 1 (N.land (norm 1 a) (norm 1 b))
  | LOr => norm 1 (N.lor (norm 1 a) (norm 1 b))
  end.

(* binary operator at operand type t *)
Definition bin_sem (op : binop) (t : ty) (a b : N) : N :=
  arith op (is_signed t) (width t) a b.

(* -x = 0 - x (wrapping) *)
Definition neg_sem (t : ty) (a : N) : N := arith Sub (is_signed t) (width t) 0 a.
Definition not_sem (a : N) : N := norm 1 (N.lxor 1 (norm 1 a)).

(* constant shifts.  a << k drops the high bits; a >> k is arithmetic on intN
   and logical on uintN (testsuite/lang/rshift*.mpcl, lshift*.mpcl). *)
Definition shl_sem (w : nat) (a : N) (k : nat) : N := norm w (norm w a * pow2 k).
Definition shr_sem (sg : bool) (w : nat) (a : N) (k : nat) : N :=
  of_Z w (Z.shiftr (to_Z sg w a) (Z.of_nat k)).

(* T(x) for integer types: narrowing keeps the low bits; widening
   sign-extends when source and target are both signed and zero-extends
   otherwise.  intN -> intM, uintN -> uintM, uintN -> intM and every narrowing
   are as in Go.  The widening conversion of a SIGNED value to an UNSIGNED type
   (uint16(int8(-1))) is fixed neither by the documentation nor by any
   annotated test program, so it is outside the part of the language whose
   meaning is fixed; the reference follows the compiler there (Call.cast emits
   smov only for int -> int): the bit pattern is zero-extended, 0x00ff, where
   Go would give 0xffff. *)
Definition cast_sem (from to : ty) (a : N) : N :=
  if is_signed from && is_signed to then of_Z (width to) (to_Z true (width from) a)
  else norm (width to) a.

(* constant slice of a composite: bits [off, off+w) — a[k] with constant k,
   s.f; and the store of w bits at offset off (a[k] = v, s.f = v) *)
Definition slice_sem (off w : nat) (a : N) : N := norm w (a / pow2 off).
Definition store_sem (tw off w : nat) (a v : N) : N :=
  let a := norm tw a in
  let lo := norm off a in
  let hi := a / pow2 (off + w) in
  norm tw (lo + norm w v * pow2 off + hi * pow2 (off + w)).

(* a[i] with a run-time index into an n-element array of ew-bit elements:
   only the low k = max 1 (ceil (log2 n)) bits of the index are looked at
   (index mod 2^k); a position >= n reads as 0 (compiler/circuits/circ_index.go
   is the only definition the repository gives; docs: "index"). *)
Fixpoint index_bits_from (len bits fuel : nat) (n : nat) : nat :=
  match fuel with
  | O => bits
  | S f => if Nat.ltb len n then index_bits_from (2 * len) (S bits) f n else bits
  end.
Definition index_bits (n : nat) : nat := index_bits_from 2 1 n n.
Definition index_sem (n ew : nat) (a i : N) : N :=
  let p := norm (index_bits n) i in
  if N.ltb p (N.of_nat n) then norm ew (a / pow2 (N.to_nat p * ew)) else 0.

(* ------------------------------------------------------------ expressions *)
Inductive expr : Type :=
| EVar (x : nat)
| ELit (t : ty) (n : N)                    (* literal used at type t *)
| EBin (op : binop) (t : ty) (a b : expr)  (* t = type of both operands *)
| ENeg (t : ty) (a : expr)
| ENot (a : expr)
| EShl (t : ty) (a : expr) (k : nat)
| EShr (t : ty) (a : expr) (k : nat)
| ECast (from to : ty) (a : expr)
| ESlice (off w : nat) (a : expr)          (* a[k] (constant k), s.f *)
| EIndex (n : nat) (et : ty) (a i : expr). (* a[i], a : [n]et, i run-time *)

Definition env := list (nat * N).

Fixpoint lookup (x : nat) (e : env) : N :=
  match e with
  | [] => 0
  | (y, v) :: r => if Nat.eqb x y then v else lookup x r
  end.

Fixpoint update (x : nat) (v : N) (e : env) : env :=
  match e with
  | [] => []
  | (y, u) :: r => if Nat.eqb x y then (y, v) :: r else (y, u) :: update x v r
  end.

Fixpoint eval (e : expr) (en : env) : N :=
  match e with
  | EVar x => lookup x en
  | ELit t n => norm (width t) n
  | EBin op t a b => bin_sem op t (eval a en) (eval b en)
  | ENeg t a => neg_sem t (eval a en)
  | ENot a => not_sem (eval a en)
  | EShl t a k => shl_sem (width t) (eval a en) k
  | EShr t a k => shr_sem (is_signed t) (width t) (eval a en) k
  | ECast from to a => cast_sem from to (eval a en)
  | ESlice off w a => slice_sem off w (eval a en)
  | EIndex n et a i => index_sem n (width et) (eval a en) (eval i en)
  end.

(* ------------------------------------------------------------- statements *)
(* Blocks are statements ([SSeq]); the branches of [SIf] and the body of
   [SFor] are scopes: variables declared inside disappear at the closing
   brace, assignments to outer variables persist (Go scoping, shadowing
   included). *)
Inductive stmt : Type :=
| SSkip
| SSeq (a b : stmt)
| SDecl (x : nat) (t : ty) (e : expr)            (* var x t = e   /  x := e *)
| SAssign (x : nat) (t : ty) (e : expr)          (* x = e, x : t *)
| SStore (x : nat) (tw off w : nat) (e : expr)   (* x[k] = e, x.f = e; tw = width of x *)
| SIf (c : expr) (a b : stmt)
| SFor (i : nat) (it : ty) (lo cnt : nat) (body : stmt)
                                   (* for i := lo; i < lo+cnt; i++ { body } *)
| SReturn (es : list expr)
| SCall (xs : list (nat * ty)) (f : nat) (args : list expr).
                                   (* x1, .., xn := f(args) *)

Inductive outcome : Type :=
| ONorm (en : env)
| ORet (vs : list N).

(* keep the n innermost-declared-last bindings: close a scope *)
Definition restore (n : nat) (e : env) : env := skipn (length e - n) e.

Fixpoint bind_all (xs : list (nat * ty)) (vs : list N) (e : env) : env :=
  match xs, vs with
  | (x, t) :: xr, v :: vr => bind_all xr vr ((x, norm (width t) v) :: e)
  | (x, t) :: xr, [] => bind_all xr [] ((x, 0) :: e)
  | [], _ => e
  end.

Section Exec.
  (* meaning of the functions defined earlier in the program *)
  Variable call : nat -> list N -> list N.

  Fixpoint exec (s : stmt) (en : env) : outcome :=
    match s with
    | SSkip => ONorm en
    | SSeq a b => match exec a en with
                  | ONorm e1 => exec b e1
                  | ORet vs => ORet vs
                  end
    | SDecl x t e => ONorm ((x, norm (width t) (eval e en)) :: en)
    | SAssign x t e => ONorm (update x (norm (width t) (eval e en)) en)
    | SStore x tw off w e =>
        ONorm (update x (store_sem tw off w (lookup x en) (eval e en)) en)
    | SIf c a b =>
        match exec (if N.odd (eval c en) then a else b) en with
        | ONorm e1 => ONorm (restore (length en) e1)
        | ORet vs => ORet vs
        end
    | SFor i it lo cnt body =>
        (fix loop (n : nat) (k : nat) (en : env) : outcome :=
           match n with
           | O => ONorm en
           | S n' =>
               match exec body ((i, norm (width it) (N.of_nat k)) :: en) with
               | ONorm e1 => loop n' (S k) (restore (length en) e1)
               | ORet vs => ORet vs
               end
           end) cnt lo en
    | SReturn es => ORet (map (fun e => eval e en) es)
    | SCall xs f args => ONorm (bind_all xs (call f (map (fun e => eval e en) args)) en)
    end.
End Exec.

(* --------------------------------------------------------------- programs *)
Record func : Type := mkFunc {
  f_params : list (nat * ty);
  f_rets : list ty;
  f_body : stmt }.

(* functions in definition order; function k may call only functions < k;
   the entry point (main) is the last one *)
Definition prog := list func.

Fixpoint norm_all (ts : list ty) (vs : list N) : list N :=
  match ts with
  | [] => []
  | t :: tr => match vs with
               | v :: vr => norm (width t) v :: norm_all tr vr
               | [] => 0 :: norm_all tr []
               end
  end.

Definition run_func (call : nat -> list N -> list N) (f : func) (args : list N) : list N :=
  match exec call (f_body f) (bind_all (f_params f) args []) with
  | ORet vs => norm_all (f_rets f) vs
  | ONorm _ => norm_all (f_rets f) []       (* missing return: excluded by typing *)
  end.

(* [mk_call fs] for fs = the functions in REVERSE definition order *)
Fixpoint mk_call (rfs : list func) : nat -> list N -> list N :=
  match rfs with
  | [] => fun _ _ => []
  | f :: rest => fun k args =>
      if Nat.eqb k (length rest) then run_func (mk_call rest) f args
      else mk_call rest k args
  end.

Definition exec_mini (p : prog) (inp : list N) : list N :=
  match rev p with
  | [] => []
  | main :: rest => run_func (mk_call rest) main inp
  end.

(* ---------------------------------------------------------------- typing *)
(* [typed p]: the program is width-consistent (every operator is applied to
   operands of the width of its annotated type, assignments keep the width of
   the variable, calls and returns match the signatures, calls go to earlier
   functions) and every path of every function ends in a return.  Programs
   that are well-typed in MPCL's (Go's) sense satisfy it; it is all the
   lowering theorem needs. *)
Definition tenv := list (nat * nat).      (* variable, width *)

Fixpoint tlookup (x : nat) (G : tenv) : option nat :=
  match G with
  | [] => None
  | (y, w) :: r => if Nat.eqb x y then Some w else tlookup x r
  end.

Definition opt_is (o : option nat) (w : nat) : bool :=
  match o with Some v => Nat.eqb v w | None => false end.

Fixpoint wt_expr (G : tenv) (e : expr) : option nat :=
  match e with
  | EVar x => tlookup x G
  | ELit t _ => Some (width t)
  | EBin op t a b =>
      if opt_is (wt_expr G a) (width t) && opt_is (wt_expr G b) (width t)
         && (negb (is_logical op) || Nat.eqb (width t) 1)
      then Some (res_width op (width t)) else None
  | ENeg t a => if opt_is (wt_expr G a) (width t) then Some (width t) else None
  | ENot a => if opt_is (wt_expr G a) 1 then Some 1%nat else None
  | EShl t a _ => if opt_is (wt_expr G a) (width t) then Some (width t) else None
  | EShr t a _ => if opt_is (wt_expr G a) (width t) then Some (width t) else None
  | ECast from to a => if opt_is (wt_expr G a) (width from) then Some (width to) else None
  | ESlice off w a => match wt_expr G a with Some _ => Some w | None => None end
  | EIndex n et a i =>
      match wt_expr G i with
      | Some _ => if opt_is (wt_expr G a) (n * width et) && Nat.ltb 0 (width et)
                  then Some (width et) else None
      | None => None
      end
  end.

Fixpoint wt_exprs (G : tenv) (es : list expr) (ws : list nat) : bool :=
  match es, ws with
  | [], [] => true
  | e :: er, w :: wr => opt_is (wt_expr G e) w && wt_exprs G er wr
  | _, _ => false
  end.

Fixpoint tbind_all (xs : list (nat * ty)) (G : tenv) : tenv :=
  match xs with
  | [] => G
  | (x, t) :: xr => tbind_all xr ((x, width t) :: G)
  end.

Fixpoint widths_are (xs : list (nat * ty)) (ws : list nat) : bool :=
  match xs, ws with
  | [], [] => true
  | (_, t) :: xr, w :: wr => Nat.eqb (width t) w && widths_are xr wr
  | _, _ => false
  end.

Section Typing.
  (* parameter widths and result widths of the functions defined earlier *)
  Variable sigs : nat -> option (list nat * list nat).
  (* result widths of the function being checked *)
  Variable rets : list nat.

  Fixpoint wt_stmt (G : tenv) (s : stmt) : option tenv :=
    match s with
    | SSkip => Some G
    | SSeq a b => match wt_stmt G a with Some G1 => wt_stmt G1 b | None => None end
    | SDecl x t e => if opt_is (wt_expr G e) (width t) then Some ((x, width t) :: G) else None
    | SAssign x t e =>
        if opt_is (tlookup x G) (width t) && opt_is (wt_expr G e) (width t) then Some G else None
    | SStore x tw off w e =>
        (* the stored value may be wider than the slot (a literal in its
           container, copy() of a longer array): only its low w bits are stored *)
        match wt_expr G e with
        | Some _ => if opt_is (tlookup x G) tw && Nat.leb (off + w) tw then Some G else None
        | None => None
        end
    | SIf c a b =>
        if opt_is (wt_expr G c) 1
        then match wt_stmt G a, wt_stmt G b with
             | Some _, Some _ => Some G
             | _, _ => None
             end
        else None
    | SFor i it lo cnt body =>
        match wt_stmt ((i, width it) :: G) body with Some _ => Some G | None => None end
    | SReturn es => if wt_exprs G es rets then Some G else None
    | SCall xs f args =>
        match sigs f with
        | Some (ps, rs) =>
            if wt_exprs G args ps && widths_are xs rs then Some (tbind_all xs G) else None
        | None => None
        end
    end.
End Typing.

(* every path ends in a return *)
Fixpoint returns (s : stmt) : bool :=
  match s with
  | SReturn _ => true
  | SSeq a b => returns a || returns b
  | SIf _ a b => returns a && returns b
  | _ => false
  end.

Definition sig_of_func (f : func) : list nat * list nat :=
  (map (fun p => width (snd p)) (f_params f), map width (f_rets f)).

Fixpoint sig_of (rfs : list func) (k : nat) : option (list nat * list nat) :=
  match rfs with
  | [] => None
  | f :: rest => if Nat.eqb k (length rest) then Some (sig_of_func f) else sig_of rest k
  end.

Definition typed_func (sigs : nat -> option (list nat * list nat)) (f : func) : bool :=
  match wt_stmt sigs (map width (f_rets f)) (tbind_all (f_params f) []) (f_body f) with
  | Some _ => returns (f_body f)
  | None => false
  end.

Fixpoint typed_funcs (rfs : list func) : bool :=
  match rfs with
  | [] => true
  | f :: rest => typed_func (sig_of rest) f && typed_funcs rest
  end.

Definition typed (p : prog) : Prop :=
  typed_funcs (rev p) = true /\ p <> [].
