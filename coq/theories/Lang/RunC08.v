(* RunC08.v — executable entry point of the C08 model for the correspondence check.

   input  = ( ((id (import ids...) ninstr nanon path ((alias path) ...)) ...)
                                                         the import graph of the program: every package
                                                         (main included), ids = rank of the alias in
                                                         lexicographic order; ninstr/nanon = size of the
                                                         package's init block measured in a solo compilation;
                                                         path = rank of the import path (the package table is keyed
                                                         by alias, the directory by path: two paths may share an
                                                         alias), and the Imports map alias -> path
              main_path
              (((id ninstr anon_base) ...) ...)          the distinct init-block sequences OBSERVED in the SSA
                                                         listings of many compilations with fresh Compilers
              check_single                               1 when the program was compiled often enough that a
                                                         possible variation would have shown (harness rule)
              (((id ninstr anon_base) ...) ...)          sequences observed at the 2nd/3rd compilation with a
                                                         REUSED Compiler instance
              (fid ...)                                  the functions instantiated by main's body, in the order of
                                                         their block labels "name#k" (ids = rank of the name; only
                                                         for programs whose function names are unique by construction)
              (k ...)  (k ...)                           the instance numbers k observed with a fresh Compiler and
                                                         at the 2nd compilation with a reused one
   output = ( (m ...)      m = 1 iff that observed sequence is in {blocks (compile o p) | o}
              ge           1 iff the model's set is at least as large as the observed one
              single       (|set| = 1) when check_single, else 2
              (r ...)      r = 1 iff that reuse sequence is in {blocks (compile_again o o p) | o}
              f  g         1 iff the model's instance numbers (ast.Func.NumInstances) equal the observed ones,
                           fresh resp. reused
              u  d )       u = 1 iff the names of the constant table (9th input: ((name bits) ...), the entries of
                           ssa.Program.Constants after CompileSSA) are pairwise different - the hypothesis of
                           C08_define_constants; d = 1 iff define_constants gives the same wiring for the table
                           and for its reversal

   The set is computed by enumerating every import order of every package
   (oracle_of_table over all_tables) in the model of the CURRENT source
   (class assignment [cur], from the regenerated inventory).                     *)
From Coq Require Import ZArith NArith List Bool Arith.
From Mpc Require Import Base.Sx Gen.MapSites Lang.Determ Lang.DetermSites.
Import ListNotations.

(* the class assignment of the current source tree, evaluated here so that the
   extracted program does not contain the string-keyed inventory (re-evaluated
   whenever Gen/MapSites.v changes, because this file is recompiled) *)
Definition cur_parse : site_class := Eval vm_compute in cur MS_parse.
Definition cur_init : site_class := Eval vm_compute in cur MS_init.
Definition cur_consts : site_class := Eval vm_compute in cur MS_consts.
Definition cur_typestring : site_class := Eval vm_compute in cur MS_typestring.
Definition cur_maxop : site_class := Eval vm_compute in cur MS_maxop.
Definition cur_x (m : msite) : site_class :=
  match m with
  | MS_parse => cur_parse | MS_init => cur_init | MS_consts => cur_consts
  | MS_typestring => cur_typestring | MS_maxop => cur_maxop
  end.

Definition pkg_of_sx (s : sx) : pkg :=
  let ni := getnat (nthx 2 s) in
  let path := getN (nthx 4 s) in
  mkPkg (getN (nthx 0 s)) (if N.eqb path 0 then getN (nthx 0 s) else path) (getLN (nthx 1 s))
        (map (fun e => (getN (nthx 0 e), getN (nthx 1 e))) (getL (nthx 5 s))) [] []
        (if Nat.eqb ni 0 then [] else [mkV ni (getnat (nthx 3 s))]) [] [].

Definition with_calls (p : pkg) (calls : list (N * N)) : pkg :=
  mkPkg (p_name p) (p_path p) (p_imports p) (p_targets p) (p_consts p) (p_types p) (p_vars p) (p_sig p) calls.

Definition insts_of (l : listing) : list nat :=
  flat_map (fun it => match it with ICall _ _ k => [k] | _ => [] end) l.

Fixpoint nats_eqb (a b : list nat) : bool :=
  match a, b with
  | [], [] => true
  | x :: s, y :: t => Nat.eqb x y && nats_eqb s t
  | _, _ => false
  end.

Definition block3 : Type := (N * nat * nat)%type.

Definition blocks_of (l : listing) : list block3 :=
  flat_map (fun it => match it with IBlock p n a => [(p, n, a)] | _ => [] end) l.

Definition block3_eqb (a b : block3) : bool :=
  match a, b with (p1, n1, a1), (p2, n2, a2) => N.eqb p1 p2 && Nat.eqb n1 n2 && Nat.eqb a1 a2 end.

Fixpoint blocks_eqb (a b : list block3) : bool :=
  match a, b with
  | [], [] => true
  | x :: s, y :: t => block3_eqb x y && blocks_eqb s t
  | _, _ => false
  end.

Definition mem_blocks (x : list block3) (l : list (list block3)) : bool := existsb (blocks_eqb x) l.

Fixpoint dedupe (l : list (list block3)) : list (list block3) :=
  match l with
  | [] => []
  | x :: t => let r := dedupe t in if mem_blocks x r then r else x :: r
  end.

Definition blocks_of_sx (s : sx) : list block3 :=
  map (fun b => (getN (nthx 0 b), getnat (nthx 1 b), getnat (nthx 2 b))) (getL s).

(* the hypothesis of C08_define_constants, checked on the implementation's constant table *)
Fixpoint nodupN (l : list N) : bool :=
  match l with
  | [] => true
  | x :: t => negb (existsb (N.eqb x) t) && nodupN t
  end.

Definition iconst_eqb (a b : item) : bool :=
  match a, b with
  | IConst n w k, IConst n' w' k' => N.eqb n n' && Nat.eqb w w' && Nat.eqb k k'
  | _, _ => false
  end.
Fixpoint listing_eqb (a b : listing) : bool :=
  match a, b with
  | [], [] => true
  | x :: s, y :: t => iconst_eqb x y && listing_eqb s t
  | _, _ => false
  end.

Definition run_c08 (inp : sx) : sx :=
  let ps := map pkg_of_sx (getL (nthx 0 inp)) in
  let mid := getN (nthx 1 inp) in
  let observed := map blocks_of_sx (getL (nthx 2 inp)) in
  let check := getB (nthx 3 inp) in
  let reuse := map blocks_of_sx (getL (nthx 4 inp)) in
  let calls := map (fun f => (0%N, f)) (getLN (nthx 5 inp)) in
  let inst_fresh := getLnat (nthx 6 inp) in
  let inst_reuse := getLnat (nthx 7 inp) in
  let ctable := map (fun e => (getN (nthx 0 e), getnat (nthx 1 e))) (getL (nthx 8 inp)) in
  match find_pkg ps mid with
  | None => sx_err 1
  | Some main0 =>
      let main := with_calls main0 calls in
      let cls := cur_x in
      let tables := all_tables ps in
      let set := dedupe (map (fun t => blocks_of (compile cls (oracle_of_table t) (main, ps))) tables) in
      let rset := dedupe (map (fun t => blocks_of (compile_again cls (oracle_of_table t) (oracle_of_table t) (main, ps))) tables) in
      SL [ SL (map (fun ob => ofB (mem_blocks ob set)) observed);
           ofB (Nat.leb (length observed) (length set));
           (if check then ofB (Nat.eqb (length set) 1) else SZ 2);
           SL (map (fun ob => ofB (mem_blocks ob rset)) reuse);
           ofB (nats_eqb (insts_of (compile cls o_id (main, ps))) inst_fresh);
           ofB (nats_eqb (insts_of (compile_again cls o_id o_id (main, ps))) inst_reuse);
           ofB (nodupN (map fst ctable));
           ofB (listing_eqb (define_constants ctable) (define_constants (rev ctable))) ]
  end.
