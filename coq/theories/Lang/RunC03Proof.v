(* RunC03Proof.v — the opcode numbers the SSA-listing decoder of RunC03.v uses
   are the values of ssa.Operand regenerated from instructions.go. *)
From Coq Require Import ZArith List Bool.
From Mpc Require Import Gen.Consts Base.Sx Lang.Ssa Lang.RunC03.
Import ListNotations.

Lemma opcode_enum_ok :
  map dec_opcode
      [compiler_ssa_Iadd; compiler_ssa_Uadd; compiler_ssa_Isub; compiler_ssa_Usub;
       compiler_ssa_Imult; compiler_ssa_Umult; compiler_ssa_Idiv; compiler_ssa_Udiv;
       compiler_ssa_Imod; compiler_ssa_Umod; compiler_ssa_Band; compiler_ssa_Bor;
       compiler_ssa_Bxor; compiler_ssa_Bclr; compiler_ssa_Ilt; compiler_ssa_Ult;
       compiler_ssa_Ile; compiler_ssa_Ule; compiler_ssa_Igt; compiler_ssa_Ugt;
       compiler_ssa_Ige; compiler_ssa_Uge; compiler_ssa_Eq; compiler_ssa_Neq;
       compiler_ssa_And; compiler_ssa_Or; compiler_ssa_Not; compiler_ssa_Mov;
       compiler_ssa_Smov; compiler_ssa_Lshift; compiler_ssa_Rshift; compiler_ssa_Srshift;
       compiler_ssa_Slice; compiler_ssa_Amov; compiler_ssa_Index; compiler_ssa_Phi;
       compiler_ssa_Concat; compiler_ssa_Bts; compiler_ssa_Btc; compiler_ssa_Circ;
       compiler_ssa_Builtin; compiler_ssa_Ret; compiler_ssa_GC]
  = [Oiadd; Ouadd; Oisub; Ousub; Oimult; Oumult; Oidiv; Oudiv; Oimod; Oumod;
     Oband; Obor; Obxor; Obclr; Oilt; Oult; Oile; Oule; Oigt; Ougt; Oige; Ouge;
     Oeq; Oneq; Oand; Oor; Onot; Omov; Osmov; Olshift; Orshift; Osrshift;
     Oslice; Oamov; Oindex; Ophi;
     Oconcat; Obts; Obtc; Ounsupported; Ohamming;
     Ounsupported; Ounsupported].
Proof. vm_compute. reflexivity. Qed.

(* circ: the decoder builds the Ocirc term from the exported instr.Circ; the gate
   operations are decoded by the circuit.Operation values regenerated from
   circuit/circuit.go *)
Lemma circ_decode_ok :
  (forall s, Base.Sx.getZ (Base.Sx.nthx 0 s) = compiler_ssa_Circ ->
     i_op (dec_instr s)
     = Ocirc (Base.Sx.getLnat (Base.Sx.nthx 5 s)) (dec_circuit (Base.Sx.nthx 6 s) (Base.Sx.nthx 7 s))) /\
  map cop_of_Z [circuit_XOR; circuit_XNOR; circuit_AND; circuit_OR; circuit_INV]
  = [Mpc.Circuit.Circuit.XOR; Mpc.Circuit.Circuit.XNOR; Mpc.Circuit.Circuit.AND;
     Mpc.Circuit.Circuit.OR; Mpc.Circuit.Circuit.INV].
Proof.
  split; [|vm_compute; reflexivity].
  intros s H. unfold dec_instr. cbn [i_op]. rewrite H, Z.eqb_refl. reflexivity.
Qed.
