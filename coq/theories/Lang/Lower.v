(* Lower.v — Gallina model of the lowering MECHANISMS by which
   /repo/compiler turns an MPCL function into straight-line SSA:

     ssa.Bindings (bindings.go)      [cenv]: name -> bound value;
     Bindings.Merge                  [merge]: after an if, every name bound to
                                     different values in the two branches is
                                     selected by the branch condition (phi)
                                     — Select.Value is resolved here, at merge
                                     time, instead of at first use;
     If.SSA (ssagen.go)              [lower_stmt (SIf ..)]: the four cases of
                                     dead (returned) / alive branches;
     Return.SSA                      [SReturn]: the returned values are
                                     recorded at the return point, the block
                                     is dead afterwards;
     Block.ReturnBinding (block.go)  [rtree], [resolve]: the decision tree of
                                     phis over the BranchCond of every branch
                                     block, folded into the return values;
     For.SSA                         [SFor]: compile-time unrolling, the loop
                                     variable is a constant of each copy;
     Call.SSA                        [SCall]: inlining of the callee with its
                                     parameters bound to the argument values;
     Call.cast / Program.Circuit     mov / smov, operand types.

   It is the lowering SCHEME, not a transcription of ssagen.go: scopes are
   closed at the end of a block ([restore]) — the Go compiler keeps one flat
   scope per function, which is finding C03-F1; a literal operand is given the
   type of the expression it occurs in — the Go compiler leaves it in its
   32/64-bit container, which is finding C03-F2.  [lower_flat] below switches
   the first deviation off so that the defect has a machine-checked witness.

   Values are numbered: the inputs are 0..k-1, the j-th emitted instruction
   defines value k+j (Lang/Ssa.v).  Every lowering function takes the number
   of values defined so far and returns the instructions it adds.

   No proofs in this file. *)
From Coq Require Import ZArith NArith List Bool.
From Mpc Require Import Lang.Mini Lang.Ssa.
Import ListNotations.
Local Open Scope nat_scope.

Definition sty_of (t : ty) : sty := mkSty (is_signed t) (width t).
Definition bool_sty : sty := mkSty false 1.
Definition no_opnd : opnd := OConst 0 0%N (mkSty false 0).

(* compile-time bindings: innermost first *)
Definition cenv := list (nat * opnd).

Fixpoint clookup (x : nat) (ce : cenv) : opnd :=
  match ce with
  | [] => no_opnd
  | (y, o) :: r => if Nat.eqb x y then o else clookup x r
  end.

Fixpoint cupdate (x : nat) (o : opnd) (ce : cenv) : cenv :=
  match ce with
  | [] => []
  | (y, u) :: r => if Nat.eqb x y then (y, o) :: r else (y, u) :: cupdate x o r
  end.

Definition crestore (n : nat) (ce : cenv) : cenv := skipn (length ce - n) ce.

Definition opcode_of (op : binop) (sg : bool) : opcode :=
  match op with
  | Add => if sg then Oiadd else Ouadd
  | Sub => if sg then Oisub else Ousub
  | Mul => if sg then Oimult else Oumult
  | Div => if sg then Oidiv else Oudiv
  | Mod => if sg then Oimod else Oumod
  | BAnd => Oband | BOr => Obor | BXor => Obxor | BAndNot => Obclr
  | Lt => if sg then Oilt else Oult
  | Le => if sg then Oile else Oule
  | Gt => if sg then Oigt else Ougt
  | Ge => if sg then Oige else Ouge
  | Eq => Oeq | Ne => Oneq
  | LAnd => Oand | LOr => Oor
  end.

Definition res_sty (op : binop) (t : ty) : sty :=
  if is_cmp op || is_logical op then bool_sty else sty_of t.

Definition kconst (k : nat) : opnd := OConst 32 (N.of_nat k) (mkSty true 32).

(* one instruction defining value number n *)
Definition emit1 (n : nat) (op : opcode) (args : list opnd) (out : sty) (aux : nat)
  : list instr * opnd :=
  ([mkInstr op args out aux], OVar n out).

Fixpoint lower_expr (ce : cenv) (e : expr) (n : nat) : list instr * opnd :=
  match e with
  | EVar x => ([], clookup x ce)
  | ELit t v => ([], OConst (width t) (norm (width t) v) (sty_of t))
  | EBin op t a b =>
      let '(ca, oa) := lower_expr ce a n in
      let '(cb, ob) := lower_expr ce b (n + length ca) in
      let '(ci, o) := emit1 (n + length ca + length cb) (opcode_of op (is_signed t))
                            [oa; ob] (res_sty op t) 0 in
      (ca ++ cb ++ ci, o)
  | ENeg t a =>                                  (* Unary.SSA: isub $0 x *)
      let '(ca, oa) := lower_expr ce a n in
      let '(ci, o) := emit1 (n + length ca) (opcode_of Sub (is_signed t))
                            [OConst (width t) 0%N (sty_of t); oa] (sty_of t) 0 in
      (ca ++ ci, o)
  | ENot a =>
      let '(ca, oa) := lower_expr ce a n in
      let '(ci, o) := emit1 (n + length ca) Onot [oa] bool_sty 0 in
      (ca ++ ci, o)
  | EShl t a k =>
      let '(ca, oa) := lower_expr ce a n in
      let '(ci, o) := emit1 (n + length ca) Olshift [oa; kconst k] (sty_of t) 0 in
      (ca ++ ci, o)
  | EShr t a k =>
      let '(ca, oa) := lower_expr ce a n in
      let '(ci, o) := emit1 (n + length ca) (if is_signed t then Osrshift else Orshift)
                            [oa; kconst k] (sty_of t) 0 in
      (ca ++ ci, o)
  | ECast from to a =>                           (* Call.cast: smov / mov *)
      let '(ca, oa) := lower_expr ce a n in
      let '(ci, o) := emit1 (n + length ca)
                            (if is_signed from && is_signed to then Osmov else Omov)
                            [oa] (sty_of to) 0 in
      (ca ++ ci, o)
  | ESlice off w a =>
      let '(ca, oa) := lower_expr ce a n in
      let '(ci, o) := emit1 (n + length ca) Oslice [oa; kconst off; kconst (off + w)]
                            (mkSty false w) 0 in
      (ca ++ ci, o)
  | EIndex cnt et a i =>
      let '(ca, oa) := lower_expr ce a n in
      let '(cb, ob) := lower_expr ce i (n + length ca) in
      let '(ci, o) := emit1 (n + length ca + length cb) Oindex [oa; kconst 0; ob]
                            (sty_of et) (width et) in
      (ca ++ cb ++ ci, o)
  end.

Fixpoint lower_exprs (ce : cenv) (es : list expr) (n : nat) : list instr * list opnd :=
  match es with
  | [] => ([], [])
  | e :: er =>
      let '(c1, o1) := lower_expr ce e n in
      let '(c2, os) := lower_exprs ce er (n + length c1) in
      (c1 ++ c2, o1 :: os)
  end.

(* mov of each value into a fresh value of the declared type (VariableDef.SSA,
   Assign.SSA, Call.SSA arguments, Return.SSA) *)
Definition mov_to (o : opnd) (t : sty) (n : nat) : list instr * opnd := emit1 n Omov [o] t 0.

Fixpoint movs_to (os : list opnd) (ts : list sty) (n : nat) : list instr * list opnd :=
  match os, ts with
  | o :: orr, t :: tr =>
      let '(c1, o1) := mov_to o t n in
      let '(c2, os2) := movs_to orr tr (n + length c1) in
      (c1 ++ c2, o1 :: os2)
  | _, _ => ([], [])
  end.

(* ---- Block.ReturnBinding: the decision tree over the branch conditions ---- *)
Inductive rtree : Type :=
| RFall                                 (* control reaches the end of the statement *)
| RRet (os : list opnd)                 (* Return.SSA: the return variables are bound to os *)
| RIf (c : opnd) (t f : rtree)          (* block with Branch and BranchCond *)
| RThen (a b : rtree).                  (* sequential block: Next *)

Definition opnd_eqb (a b : opnd) : bool :=
  match a, b with
  | OVar i t, OVar j u =>
      Nat.eqb i j && Bool.eqb (s_signed t) (s_signed u) && Nat.eqb (s_bits t) (s_bits u)
  | OConst cw cv t, OConst dw dv u =>
      Nat.eqb cw dw && N.eqb cv dv && Bool.eqb (s_signed t) (s_signed u)
      && Nat.eqb (s_bits t) (s_bits u)
  | _, _ => false
  end.

Definition hd_o (l : list opnd) : opnd := match l with o :: _ => o | [] => no_opnd end.
Definition hd_c (l : cenv) : opnd := match l with (_, o) :: _ => o | [] => no_opnd end.

(* phi of two value lists, pointwise, one result per declared result type
   (returnBinding: rType); equal values need no phi
   (Bindings.Merge: bTrue.Bound.Equal(bFalse.Bound); returnBinding: vTrue.Equal(&vFalse)) *)
Fixpoint phis (c : opnd) (rts : list sty) (ts fs : list opnd) (n : nat)
  : list instr * list opnd :=
  match rts with
  | [] => ([], [])
  | rt :: rr =>
      let t := hd_o ts in
      let f := hd_o fs in
      if opnd_eqb t f then
        let '(c2, os) := phis c rr (tl ts) (tl fs) n in (c2, t :: os)
      else
        let '(c1, o1) := emit1 n Ophi [c; t; f] rt 0 in
        let '(c2, os) := phis c rr (tl ts) (tl fs) (n + length c1) in
        (c1 ++ c2, o1 :: os)
  end.

(* [resolve rts t k n]: the values returned when the tree is entered, k being
   the values if control falls out of it; rts = the declared result types *)
Fixpoint resolve (rts : list sty) (t : rtree) (k : list opnd) (n : nat)
  : list instr * list opnd :=
  match t with
  | RFall => ([], k)
  | RRet os => ([], os)
  | RIf c a b =>
      let '(ca, oa) := resolve rts a k n in
      let '(cb, ob) := resolve rts b k (n + length ca) in
      let '(cp, os) := phis c rts oa ob (n + length ca + length cb) in
      (ca ++ cb ++ cp, os)
  | RThen a b =>
      let '(cb, ob) := resolve rts b k n in
      let '(ca, oa) := resolve rts a ob (n + length cb) in
      (cb ++ ca, oa)
  end.

(* Equality of bound values.  In /repo a binding is a *ssa.Value or a lazily
   resolved *ssa.Select, and Select.Equal compares two selects structurally:
   same condition AND equal true/false operands (bindings.go).  In this model
   every select is resolved when it is created (the phi is emitted by [merge]
   / [phis] at once), so a binding is always a concrete operand and equality
   is [opnd_eqb]: the same value number and declared type, or the same
   constant.  Two different selects are therefore two different value numbers
   and are never identified — in particular not "because both are still
   unresolved"; two selects that Go's structural test would identify are two
   phi values with the same meaning, between which the outer merge emits one
   more (redundant, harmless) phi.  The only property of the test the
   correctness proof uses is LowerProof.opnd_eqb_eq: opnd_eqb a b = true ->
   a = b; [merge_ok]/[phis_ok] emit a phi on the outer condition in every
   other case.  A compiler change that makes Select.Equal answer true for
   selects with different conditions or operands has no counterpart satisfying
   that lemma; on the implementation it is caught by the "nested conditional
   assignment in both arms" family of the harness (c03MergeFamily). *)
(* ---- Bindings.Merge: one binding per name bound before the if (ce); the
   type of a selected value is the type the name had before the if (Merge:
   phiType, the wider of the two — equal in a typed program) ---- *)
Fixpoint merge (c : opnd) (ce te fe : cenv) (n : nat) : list instr * cenv :=
  match ce with
  | [] => ([], [])
  | (x, o0) :: cr =>
      let t := hd_c te in
      let f := hd_c fe in
      if opnd_eqb t f then
        let '(c2, r) := merge c cr (tl te) (tl fe) n in (c2, (x, t) :: r)
      else
        let '(c1, o1) := emit1 n Ophi [c; t; f] (opnd_ty o0) 0 in
        let '(c2, r) := merge c cr (tl te) (tl fe) (n + length c1) in
        (c1 ++ c2, (x, o1) :: r)
  end.

(* Bindings.Merge as written in bindings.go: by name, over the names of the
   true branch; a name missing in the false branch keeps its true binding *)
Fixpoint cfind (x : nat) (ce : cenv) : option opnd :=
  match ce with
  | [] => None
  | (y, o) :: r => if Nat.eqb x y then Some o else cfind x r
  end.

Fixpoint merge_by_name (c : opnd) (te fe : cenv) (n : nat) : list instr * cenv :=
  match te with
  | [] => ([], [])
  | (x, t) :: tr =>
      match cfind x fe with
      | None => let '(c2, r) := merge_by_name c tr fe n in (c2, (x, t) :: r)
      | Some f =>
          if opnd_eqb t f then
            let '(c2, r) := merge_by_name c tr fe n in (c2, (x, t) :: r)
          else
            let '(c1, o1) := emit1 n Ophi [c; t; f] (opnd_ty t) 0 in
            let '(c2, r) := merge_by_name c tr fe (n + length c1) in
            (c1 ++ c2, (x, o1) :: r)
      end
  end.

Fixpoint cbind_all (xs : list (nat * ty)) (os : list opnd) (ce : cenv) : cenv :=
  match xs, os with
  | (x, t) :: xr, o :: orr => cbind_all xr orr ((x, o) :: ce)
  | (x, t) :: xr, [] => cbind_all xr [] ((x, no_opnd) :: ce)
  | [], _ => ce
  end.

Definition tys_of (xs : list (nat * ty)) : list sty := map (fun p => sty_of (snd p)) xs.

Section LowerStmt.
  (* scoped = true: Go scoping (the scheme).  scoped = false: one flat scope per
     function as in /repo (Codegen.Scope() is constant inside a function):
     a declaration REPLACES the binding of the same name and nothing is
     dropped at the end of a block. *)
  Variable scoped : bool.
  (* inlining of the functions defined earlier: argument values, first free
     value number -> instructions, result values *)
  Variable lcall : nat -> list opnd -> nat -> list instr * list opnd.

  Definition close_scope (n : nat) (ce : cenv) : cenv :=
    if scoped then crestore n ce else ce.

  Definition has_name (x : nat) (ce : cenv) : bool :=
    existsb (fun p => Nat.eqb x (fst p)) ce.

  Definition declare (x : nat) (o : opnd) (ce : cenv) : cenv :=
    if scoped then (x, o) :: ce
    else if has_name x ce then cupdate x o ce else (x, o) :: ce.

  (* If.SSA: the four cases of dead / alive branches *)
  Definition join (oc : opnd) (ce : cenv) (ea eb : option cenv) (n : nat)
    : list instr * option cenv :=
    match ea, eb with
    | None, None => ([], None)                                  (* both branches terminate *)
    | Some e1, None => ([], Some (close_scope (length ce) e1))  (* false-branch terminates *)
    | None, Some e2 => ([], Some (close_scope (length ce) e2))  (* true-branch terminates *)
    | Some e1, Some e2 =>                                       (* both continue: Merge *)
        let '(cm, em) := (if scoped then merge oc ce else merge_by_name oc)
                           (close_scope (length ce) e1) (close_scope (length ce) e2) n in
        (cm, Some em)
    end.

  (* result: instructions, bindings at the end (None: every path returned,
     the block is dead), return tree *)
  Fixpoint lower_stmt (s : stmt) (ce : cenv) (n : nat)
    : list instr * option cenv * rtree :=
    match s with
    | SSkip => ([], Some ce, RFall)
    | SSeq a b =>
        match lower_stmt a ce n with
        | (ca, None, ta) => (ca, None, ta)               (* List.SSA: block.Dead, stop *)
        | (ca, Some c1, ta) =>
            let '(cb, e2, tb) := lower_stmt b c1 (n + length ca) in
            (ca ++ cb, e2, RThen ta tb)
        end
    | SDecl x t e =>
        let '(c1, o1) := lower_expr ce e n in
        let '(c2, o2) := mov_to o1 (sty_of t) (n + length c1) in
        (c1 ++ c2, Some (declare x o2 ce), RFall)
    | SAssign x t e =>
        let '(c1, o1) := lower_expr ce e n in
        let '(c2, o2) := mov_to o1 (sty_of t) (n + length c1) in
        (c1 ++ c2, Some (cupdate x o2 ce), RFall)
    | SStore x tw off w e =>                            (* Assign.SSA, *Index: amov *)
        let '(c1, o1) := lower_expr ce e n in
        let '(c2, o2) := emit1 (n + length c1) Oamov
                               [o1; clookup x ce; kconst off; kconst (off + w)]
                               (mkSty false tw) 0 in
        (c1 ++ c2, Some (cupdate x o2 ce), RFall)
    | SIf c a b =>
        let '(cc, oc) := lower_expr ce c n in
        let '(ca, ea, ta) := lower_stmt a ce (n + length cc) in
        let '(cb, eb, tb) := lower_stmt b ce (n + length cc + length ca) in
        let '(cm, oe) := join oc ce ea eb (n + length cc + length ca + length cb) in
        (cc ++ ca ++ cb ++ cm, oe, RIf oc ta tb)
    | SFor i it lo cnt body =>
        (fix unroll (m : nat) (k : nat) (ce : cenv) (n : nat) {struct m}
           : list instr * option cenv * rtree :=
           match m with
           | O => ([], Some ce, RFall)
           | S m' =>
               let ki := OConst (width it) (norm (width it) (N.of_nat k)) (sty_of it) in
               match lower_stmt body (declare i ki ce) n with
               | (c1, None, t1) => (c1, None, t1)
               | (c1, Some e1, t1) =>
                   let '(c2, e2, t2) := unroll m' (S k) (close_scope (length ce) e1)
                                               (n + length c1) in
                   (c1 ++ c2, e2, RThen t1 t2)
               end
           end) cnt lo ce n
    | SReturn es =>
        let '(c1, os) := lower_exprs ce es n in
        (c1, None, RRet os)
    | SCall xs f args =>
        let '(c1, os) := lower_exprs ce args n in
        let '(c2, rs) := lcall f os (n + length c1) in
        let '(c3, vs) := movs_to rs (tys_of xs) (n + length c1 + length c2) in
        (c1 ++ c2 ++ c3, Some (cbind_all xs vs ce), RFall)
    end.
End LowerStmt.

(* Call.SSA + Func.SSA: bind the parameters to (movs of) the argument values,
   lower the body in its own bindings, select the return values *)
Definition lower_func (scoped : bool)
           (lcall : nat -> list opnd -> nat -> list instr * list opnd)
           (f : func) (args : list opnd) (n : nat) : list instr * list opnd :=
  let '(c1, ps) := movs_to args (tys_of (f_params f)) n in
  let ce := cbind_all (f_params f) ps [] in
  let '(c2, _, t) := lower_stmt scoped lcall (f_body f) ce (n + length c1) in
  let '(c3, rs) := resolve (map sty_of (f_rets f)) t [] (n + length c1 + length c2) in
  let '(c4, outs) := movs_to rs (map sty_of (f_rets f)) (n + length c1 + length c2 + length c3) in
  (c1 ++ c2 ++ c3 ++ c4, outs).

(* functions in REVERSE definition order, as Mini.mk_call *)
Fixpoint mk_lcall (scoped : bool) (rfs : list func)
  : nat -> list opnd -> nat -> list instr * list opnd :=
  match rfs with
  | [] => fun _ _ _ => ([], [])
  | f :: rest => fun k args n =>
      if Nat.eqb k (length rest) then lower_func scoped (mk_lcall scoped rest) f args n
      else mk_lcall scoped rest k args n
  end.

Fixpoint input_opnds (ps : list (nat * ty)) (i : nat) : list opnd :=
  match ps with
  | [] => []
  | (_, t) :: r => OVar i (sty_of t) :: input_opnds r (S i)
  end.

Definition lower_gen (scoped : bool) (p : prog) : sprog :=
  match rev p with
  | [] => mkSprog [] [] []
  | main :: rest =>
      let ws := map (fun q => width (snd q)) (f_params main) in
      let '(code, outs) := lower_func scoped (mk_lcall scoped rest) main
                                      (input_opnds (f_params main) 0) (length ws) in
      mkSprog ws code outs
  end.

Definition lower (p : prog) : sprog := lower_gen true p.
Definition lower_flat (p : prog) : sprog := lower_gen false p.
