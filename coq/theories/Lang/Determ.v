(* Determ.v — C08: executable model of the ORDER-RELEVANT skeleton of MPCL
   compilation.  Everything the Go runtime may choose on the compile path is a
   map iteration order (the translator finds no go/select statement there:
   Gen/MapSites.go_sites), so the model takes an ORACLE that permutes the key
   list at every map-range site, and its output is an abstract listing in which
   order differences are visible.  No proofs here (Lang/DetermProof.v).

   Go functions mirrored (file in the comment at each definition):
     compiler/compiler.go      Compiler.parse / parsePkg / tryParsePkg, Compiler.compile
     compiler/ast/package.go   Package.Init, defineConstant, defineType, Package.Compile
     compiler/ast/codegen.go   Codegen.DefineType
     compiler/ssa/generator.go Generator.AnonVal (one global version counter), AddConstant
     compiler/ssa/program.go   Program.DefineConstants (collect -> sort by name -> wires)
     compiler/ssa/instructions.go  init (maxOperandLength)
     types/types.go            Type.String (reverse lookup in the map Types)
     compiler/circuits/compiler.go Compiler.Compile: worklist over gates, sort.SliceStable of
                               the assigned wires for the GMW target; no map is ranged and no
                               goroutine started (inventory), so these steps take no oracle
                               and are functions of their input by construction: they are not
                               part of the listing.
   Not modelled: the instructions of function bodies (they are emitted in
   source order, no map involved), ast.Func instance counters.
   This file must not mention the Coq type [string] (the OCaml driver opens the
   extracted module, which would shadow OCaml's string): texts are byte lists
   (MapSites.text); the tie to the inventory, which is keyed by file and
   function names, lives in Lang/DetermSites.v.                                *)
From Coq Require Import List NArith Bool Arith.
From Mpc Require Import Gen.MapSites.
Import ListNotations.
Open Scope list_scope.

(* ------------------------------------------------------------------ sites *)

(* the map-range sites the model consults the oracle at *)
Inductive msite : Type :=
| MS_parse        (* compiler.go   Compiler.parse:      for alias, name := range pkg.Imports *)
| MS_init         (* ast/package.go Package.Init:       for alias, name := range pkg.Imports *)
| MS_consts       (* ssa/program.go DefineConstants:    for _, c := range prog.Constants     *)
| MS_typestring   (* types/types.go Type.String:        for k, v := range Types              *)
| MS_maxop.       (* ssa/instructions.go init:          for _, v := range operands           *)

Definition model_sites : list msite := [MS_parse; MS_init; MS_consts; MS_typestring; MS_maxop].

(* ------------------------------------------------------------------ oracle *)

(* [o A s ctx l]: the order in which the Go runtime hands out the entries [l]
   of the map ranged at site [s] while package [ctx] is being processed.
   Always a permutation (oracle_ok, DetermProof.v). *)
Definition oracle : Type := forall A : Type, msite -> N -> list A -> list A.

Definition o_id : oracle := fun _ _ _ l => l.
Definition o_rev : oracle := fun _ _ _ l => rev l.

(* ------------------------------------------------------------------ sorting *)

Fixpoint insert_by {A} (k : A -> N) (x : A) (l : list A) : list A :=
  match l with
  | [] => [x]
  | y :: t => if N.leb (k x) (k y) then x :: l else y :: insert_by k x t
  end.
(* sort.Strings / sort.Slice(less = key order); on distinct keys the result of
   any correct sort is this one *)
Definition sort_by {A} (k : A -> N) (l : list A) : list A := fold_right (insert_by k) [] l.

(* keys handed to the body of an emit loop: raw map order, or sorted when the
   source collects the keys and sorts them first (class SortedAfter) *)
Definition range_keys (cls : msite -> site_class) (o : oracle) (s : msite) (ctx : N) (l : list N) : list N :=
  match cls s with
  | SortedAfter => sort_by (fun x => x) (o N s ctx l)
  | _ => o N s ctx l
  end.

(* compiler/circuits/compiler.go Compiler.Compile: the pending-gate worklist is a
   slice used as a queue and wire ids come from a counter, so the gate order and
   the wire numbering are functions of (gates, input wires); for the GMW target
   the assigned gates are then stably sorted by (level, AND before the others):
   sort.SliceStable.  insert_by puts a new element before the first element
   that is not smaller, and sort_by inserts from the right, so sort_by is the
   stable sort.  No map is ranged, no oracle argument. *)
Definition gmw_key (g : nat * bool) : N :=            (* (level, is AND) *)
  (N.of_nat (fst g) * 2 + (if snd g then 0 else 1))%N.
Definition gmw_order {G} (key : G -> nat * bool) (gates : list G) : list G :=
  sort_by (fun g => gmw_key (key g)) gates.

(* ------------------------------------------------------------------ programs *)

Record vdef : Type := mkV {
  v_ninstr : nat;   (* instructions its initialiser emits into the package block *)
  v_nanon : nat     (* anonymous values (Generator.AnonVal) it allocates *)
}.

Record pkg : Type := mkPkg {
  p_name : N;                  (* package name = the alias it is imported by (last path element) *)
  p_path : N;                  (* its import path: the identity of the package in the directory *)
  p_imports : list N;          (* keys of Package.Imports: aliases *)
  p_targets : list (N * N);    (* Package.Imports: alias -> import path (missing entry: path = alias) *)
  p_consts : list (N * nat);   (* ConstantDef: name, bits *)
  p_types : list N;            (* TypeInfo definitions: names *)
  p_vars : list vdef;          (* VariableDef *)
  p_sig : list text;           (* types.Type codes (decimal text) printed for main's signature *)
  p_calls : list (N * N)       (* main only: the functions (package, name) its body instantiates, in source order *)
}.

Inductive item : Type :=
| IBlock (p : N) (ninstr : nat) (anon_base : nat)  (* "# .p:" and its instructions; anon_base =
                                                      1 + first anonymous version defined there, 0 if none *)
| ITypeId (p : N) (tname : N) (id : N)             (* Codegen.DefineType *)
| IMain (anon : nat) (ntypes : nat)                (* counters when main's body starts *)
| ICall (p f : N) (inst : nat)                     (* block label "f#inst": ast/ssagen.go Func.SSA, NumInstances *)
| IConst (name : N) (wire : nat) (bits : nat)      (* Program.DefineConstants: first wire and width *)
| ITypeStr (s : option text)                       (* Type.String *)
| IPad (n : nat)                                   (* maxOperandLength *)
| IErr (code : N) (arg : N).

Definition listing : Type := list item.

(* ssa.Generator + ast.Codegen state that the order can influence *)
Record gen : Type := mkGen {
  g_out : listing;            (* emitted so far *)
  g_anon : nat;               (* Generator.versions["%_"] *)
  g_ntypes : nat;             (* len(Codegen.Types) *)
  g_consts : list (N * nat);  (* Generator.constants: name -> bits (one entry per name) *)
  g_init : list N             (* packages whose Initialized flag is set *)
}.

(* compiler.Compiler: the package cache survives a compilation, and so do the
   Initialized flags of the cached package objects *)
Record cstate : Type := mkCS {
  cs_packages : list (N * pkg);
  cs_initialized : list N;
  cs_instances : list (N * N * nat)   (* ast.Func.NumInstances of the functions of the cached packages *)
}.
Definition cs0 : cstate := mkCS [] [] [].

Definition memN (x : N) (l : list N) : bool := existsb (N.eqb x) l.

Fixpoint assoc_set {B} (k : N) (v : B) (l : list (N * B)) : list (N * B) :=
  match l with
  | [] => [(k, v)]
  | (k', v') :: t => if N.eqb k k' then (k, v) :: t else (k', v') :: assoc_set k v t
  end.
Definition assoc_get {B} (k : N) (l : list (N * B)) : option B :=
  match find (fun kv => N.eqb (fst kv) k) l with Some kv => Some (snd kv) | None => None end.

(* the package directory *)
Definition find_pkg (fs : list pkg) (path : N) : option pkg := find (fun p => N.eqb (p_path p) path) fs.

(* name := pkg.Imports[alias] *)
Definition import_path (p : pkg) (alias : N) : N :=
  match assoc_get alias (p_targets p) with Some path => path | None => alias end.

Definition err_not_found : N := 1.          (* "package %s not found" *)
Definition err_imported_not_used : N := 2.  (* "imported and not used" *)
Definition err_fuel : N := 3.               (* import depth exceeds the number of packages: not reachable *)

(* The package table c.packages is keyed by ALIAS: parsePkg returns the cached
   package when the alias is already bound, whatever import path asked for it.
   With two different import paths of the same base name in the import graph
   the path that is parsed first owns the alias for the whole program.
   compiler.go Compiler.parse (with parsePkg/tryParsePkg inlined):
     c.packages[pkg.Name] = pkg
     for alias, name := range pkg.Imports { if _, ok := c.packages[alias]; !ok { parse it } } *)
Fixpoint parse (fuel : nat) (rk : msite -> N -> list N -> list N) (fs : list pkg)
         (pkgs : list (N * pkg)) (p : pkg) : list (N * pkg) + (N * N) :=
  match fuel with
  | O => inr (err_fuel, p_name p)
  | S f =>
      fold_left
        (fun acc alias =>
           match acc with
           | inr e => inr e
           | inl pk =>
               match assoc_get alias pk with
               | Some _ => inl pk
               | None =>
                   match find_pkg fs (import_path p alias) with
                   | None => inr (err_not_found, import_path p alias)
                   | Some q => parse f rk fs pk q
                   end
               end
           end)
        (rk MS_parse (p_path p) (p_imports p))
        (inl (assoc_set (p_name p) p pkgs))
  end.

(* generator.go AddConstant: one entry per name *)
Definition add_constant (cs : list (N * nat)) (c : N * nat) : list (N * nat) :=
  if existsb (fun x => N.eqb (fst x) (fst c)) cs then cs else cs ++ [c].

(* package.go defineConstant *)
Definition define_constant (st : gen) (c : N * nat) : gen :=
  mkGen (g_out st) (g_anon st) (g_ntypes st) (add_constant (g_consts st) c) (g_init st).

(* package.go defineType + codegen.go DefineType: id = len(ctx.Types) + 0x80000000 *)
Definition define_type (p : N) (st : gen) (tname : N) : gen :=
  mkGen (g_out st ++ [ITypeId p tname (N.of_nat (g_ntypes st) + 2147483648)%N])
        (g_anon st) (S (g_ntypes st)) (g_consts st) (g_init st).

Definition sum_by {A} (f : A -> nat) (l : list A) : nat := fold_left (fun a x => a + f x) l 0.

(* package.go Init, "Define variables": the block is labelled ".<pkg>"; a block
   without instructions leaves no trace in the listing *)
Definition emit_vars (p : pkg) (st : gen) : gen :=
  let ni := sum_by v_ninstr (p_vars p) in
  let na := sum_by v_nanon (p_vars p) in
  let out := if Nat.eqb ni 0 then g_out st
             else g_out st ++ [IBlock (p_name p) ni (if Nat.eqb na 0 then 0 else S (g_anon st))] in
  mkGen out (g_anon st + na) (g_ntypes st) (g_consts st) (g_init st).

(* ast/package.go Package.Init *)
Fixpoint pkg_init (fuel : nat) (rk : msite -> N -> list N -> list N) (pkgs : list (N * pkg))
         (st : gen) (p : pkg) : gen + (N * N) :=
  match fuel with
  | O => inr (err_fuel, p_name p)
  | S f =>
      if memN (p_name p) (g_init st) then inl st
      else
        let st1 := mkGen (g_out st) (g_anon st) (g_ntypes st) (g_consts st) (p_name p :: g_init st) in
        match
          fold_left
            (fun acc alias =>
               match acc with
               | inr e => inr e
               | inl s =>
                   match assoc_get alias pkgs with
                   | None => inr (err_imported_not_used, alias)
                   | Some q => pkg_init f rk pkgs s q
                   end
               end)
            (rk MS_init (p_path p) (p_imports p))
            (inl st1)
        with
        | inr e => inr e
        | inl st2 =>
            let st3 := fold_left define_constant (p_consts p) st2 in
            let st4 := fold_left (define_type (p_name p)) (p_types p) st3 in
            inl (emit_vars p st4)
        end
  end.

(* ssa/program.go DefineConstants: collect the map VALUES in map order, sort them
   by NAME only (sort.Slice, less = strings.Compare(name_i, name_j) == -1), then
   wire each constant unless one of that name is already wired
   (walloc.Allocated looks at the value's name, not at its type):
       for _, c := range consts { if prog.walloc.Allocated(c) { continue } ... }
   The comparison is a total order on the entries only if the names are pairwise
   different (Generator.constants is keyed by name: add_constant above).  Entries
   of equal name tie; sort_by keeps tied entries in their input order, so with
   ties the entry that is wired (its width!) depends on the map order. *)
Fixpoint assign_wires (w : nat) (alloc : list N) (cs : list (N * nat)) : listing :=
  match cs with
  | [] => []
  | (n, bits) :: t =>
      if memN n alloc then assign_wires w alloc t
      else IConst n w bits :: assign_wires (w + bits) (n :: alloc) t
  end.
Definition define_constants (l : list (N * nat)) : listing := assign_wires 0 [] (sort_by fst l).

(* the package-level map literals, regenerated from the source:
   MapSites.table_types_Types (types.Types) and MapSites.table_compiler_ssa_operands (ssa.operands) *)
Fixpoint text_eqb (a b : text) : bool :=
  match a, b with
  | [], [] => true
  | x :: s, y :: t => N.eqb x y && text_eqb s t
  | _, _ => false
  end.

(* types/types.go Type.String: for k, v := range Types { if v == t { return k } } *)
Definition type_string_in (tbl : list (text * text)) (t : text) : option text :=
  match find (fun kv => text_eqb (snd kv) t) tbl with
  | Some kv => Some (fst kv)
  | None => None
  end.
Definition type_string (o : oracle) (t : text) : option text :=
  type_string_in (o _ MS_typestring 0%N table_types_Types) t.

(* ssa/instructions.go init: maxOperandLength = max over the operand names *)
Definition max_len (l : list (text * text)) : nat :=
  fold_left (fun m kv => Nat.max m (length (snd kv))) l 0.
Definition max_operand_length (o : oracle) : nat := max_len (o _ MS_maxop 0%N table_compiler_ssa_operands).

Definition removeN (x : N) (l : list N) : list N := filter (fun y => negb (N.eqb x y)) l.

(* ast/ssagen.go Func.SSA: every instantiation of a function labels its blocks
   "<name>#<NumInstances>" and increments the counter of that Func object *)
Definition fn_eqb (a b : N * N) : bool := N.eqb (fst a) (fst b) && N.eqb (snd a) (snd b).
Definition inst_get (f : N * N) (c : list (N * N * nat)) : nat :=
  match find (fun e => fn_eqb (fst e) f) c with Some e => snd e | None => 0 end.
Fixpoint inst_set (f : N * N) (n : nat) (c : list (N * N * nat)) : list (N * N * nat) :=
  match c with
  | [] => [(f, n)]
  | e :: t => if fn_eqb (fst e) f then (f, n) :: t else e :: inst_set f n t
  end.
Fixpoint instantiate (calls : list (N * N)) (c : list (N * N * nat)) : listing * list (N * N * nat) :=
  match calls with
  | [] => ([], c)
  | f :: t =>
      let k := inst_get f c in
      let (l, c') := instantiate t (inst_set f (S k) c) in
      (ICall (fst f) (snd f) k :: l, c')
  end.

(* compiler.go Compiler.compile + ast/package.go Package.Compile +
   ssa/program.go: one compilation of [main] by a Compiler in state [cs];
   [fs] is the package directory.
   [reset] = the Compiler drops its package cache when a compilation starts
   (compiler.go: `c.packages = make(map[string]*ast.Package)` at the top of
   compile/Stream/CompileSSA).  The source before that repair behaved like
   [reset = false]: cached package objects kept Initialized, and their Func
   objects kept NumInstances (regression records in DetermProof.v). *)
Definition compile_in_gen (reset : bool) (cls : msite -> site_class) (o : oracle) (cs : cstate)
           (fs : list pkg) (main : pkg) : cstate * listing :=
  let cs := if reset then cs0 else cs in
  let rk := range_keys cls o in
  let fuel := S (S (length fs)) in
  match parse fuel rk fs (cs_packages cs) main with
  | inr (code, arg) => (cs, [IErr code arg])
  | inl pkgs =>
      (* main is a new package object: its flag is clear; cached packages keep theirs *)
      let g0 := mkGen [] 0 0 [] (removeN (p_name main) (cs_initialized cs)) in
      match pkg_init fuel rk pkgs g0 main with
      | inr (code, arg) => (mkCS pkgs (cs_initialized cs) (cs_instances cs), [IErr code arg])
      | inl st =>
          (* main's own functions are new objects too *)
          let inst0 := filter (fun e => negb (N.eqb (fst (fst e)) (p_name main))) (cs_instances cs) in
          let (calls, inst) := instantiate (p_calls main) inst0 in
          (mkCS pkgs (g_init st) inst,
           g_out st
             ++ [IMain (g_anon st) (g_ntypes st)]
             ++ calls
             ++ map (fun t => ITypeStr (type_string o t)) (p_sig main)
             ++ define_constants (o _ MS_consts 0%N (g_consts st))
             ++ [IPad (max_operand_length o)])
      end
  end.

(* the current source *)
Definition compile_in := compile_in_gen true.

(* a program: the main package followed by the package directory *)
Definition prog : Type := (pkg * list pkg)%type.

(* compilation with a fresh Compiler *)
Definition compile (cls : msite -> site_class) (o : oracle) (p : prog) : listing :=
  snd (compile_in cls o cs0 (snd p) (fst p)).

(* second compilation of the same program with the same Compiler instance *)
Definition compile_again (cls : msite -> site_class) (o1 o2 : oracle) (p : prog) : listing :=
  snd (compile_in cls o2 (fst (compile_in cls o1 cs0 (snd p) (fst p))) (snd p) (fst p)).

(* ------------------------------------------------------------------ enumeration of orders *)

Fixpoint insert_all {A} (x : A) (l : list A) : list (list A) :=
  match l with
  | [] => [[x]]
  | y :: t => (x :: l) :: map (cons y) (insert_all x t)
  end.
Fixpoint perms {A} (l : list A) : list (list A) :=
  match l with
  | [] => [[]]
  | x :: t => flat_map (insert_all x) (perms t)
  end.

(* an oracle given by a table: package -> index of the permutation used when
   its imports are ranged in Package.Init (identity elsewhere) *)
Definition oracle_of_table (t : list (N * nat)) : oracle :=
  fun A s ctx l =>
    match s with
    | MS_init => match assoc_get ctx t with
                 | Some i => nth i (perms l) l
                 | None => l
                 end
    | _ => l
    end.

Fixpoint fact (n : nat) : nat := match n with O => 1 | S m => n * fact m end.

(* all tables: one permutation index per package *)
Fixpoint all_tables (ps : list pkg) : list (list (N * nat)) :=
  match ps with
  | [] => [[]]
  | p :: t =>
      let rest := all_tables t in
      flat_map (fun i => map (cons (p_path p, i)) rest) (seq 0 (fact (length (p_imports p))))
  end.
