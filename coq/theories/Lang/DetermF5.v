(* DetermF5.v — C08: obligations on the regenerated inventory; no finding open
   (F5, F14 and F15 repaired in /repo). *)
From Coq Require Import List NArith Bool String Permutation.
From Mpc Require Import Gen.MapSites Lang.Determ Lang.DetermSites Lang.DetermProof.
Import ListNotations.
Open Scope string_scope.
Open Scope list_scope.

Definition known_sites : list (string * string) := [].

Definition known_site (s : site) : bool :=
  existsb (fun k => String.eqb (s_pkg s) (fst k) && String.eqb (s_func s) (snd k)) known_sites.

(* THE obligation that breaks when an order-sensitive map-range site appears on the compile path *)
Lemma sites_insensitive :
  forallb (fun s => negb (is_order_sensitive s)) MapSites.sites = true.
Proof. vm_compute. reflexivity. Qed.

Lemma sites_insensitive_prop : forall s, In s MapSites.sites -> s_class s <> OrderSensitive.
Proof.
  intros s Hs Hc. pose proof sites_insensitive as H. rewrite forallb_forall in H.
  specialize (H s Hs). unfold is_order_sensitive in H. rewrite Hc in H. discriminate.
Qed.

(* the model of the current source is deterministic, unconditionally *)
Theorem compile_deterministic_now :
    forall o1 o2, oracle_ok o1 -> oracle_ok o2 ->
    forall cs fs main, compile_in cur o1 cs fs main = compile_in cur o2 cs fs main.
Proof. exact (compile_deterministic sites_insensitive_prop). Qed.

(* no directory listing is used in directory order *)
Lemma readdir_sites_insensitive :
  forallb (fun s => negb (is_order_sensitive s)) MapSites.readdir_sites = true.
Proof. vm_compute. reflexivity. Qed.

(* THE obligation that breaks when a compilation writes its configuration: no
   assignment to a field of utils.Params is reachable from the compile roots
   (except the symbol table of intern()) - hypothesis params_readonly of
   Lang/HistProof.v history_independent, on the regenerated inventory *)
Lemma params_readonly_inventory :
  forallb param_write_allowed MapSites.param_writes = true.
Proof. vm_compute. reflexivity. Qed.
