(* RunC12.v — executable entry point of the C12 model for the correspondence check.
   input  = (rk rn expr meta) return type kind (0 int, 1 uint, 2 bool), width, expression,
                              meta = (code k n a b fa fb): the fold the case is about:
                              code 0..18 = index in [binops], 19 = unary minus, 20 = !,
                              21 = none; operand kind k, width n, operand values a, b
                              (signed; for shifts b = count), fa/fb = 1 when a negative
                              operand is written T(-x) instead of -T(x)
   expr   = (0 v)             integer literal v >= 0
          | (1 e)             -e
          | (2 k n e)         intN(e) (k=0) / uintN(e) (k=1)
          | (3 op e1 e2)      binary operator, op = index in [binops]
          | (4 b)             true / false
          | (5 e)             !e
          | (6 k n v)         run-time input of type k/n whose value is v
   output = (0 v cls)         the program compiles; Compute returns v (unsigned wire bits)
          | (1 class cls)     compile error of that class
          | (2 class cls)     the compiler panics
            cls = 2 when the fold is in [fold_exact_class], 1 when only in
            [fold_ok_class], 0 otherwise (the harness computes the same number in Go) *)
From Coq Require Import ZArith List Bool.
From Mpc Require Import Base.Sx Lang.Fold.
Import ListNotations.
Open Scope Z_scope.

Definition binops : list binop :=
  [OAdd; OSub; OMul; ODiv; OMod; OBand; OBor; OBxor; OBclr; OLsh; ORsh;
   OLt; OLe; OGt; OGe; OEq; ONeq; OLand; OLor].

Definition kind_of_Z (z : Z) : kind := if z =? 0 then KInt else if z =? 1 then KUint else KBool.

(* fuel-bounded decoding (sx is a nested inductive; depth of generated
   expressions is far below the fuel) *)
Fixpoint expr_of_sx (fuel : nat) (s : sx) : expr :=
  match fuel with
  | O => ELit 0
  | S f =>
      let tag := getZ (nthx 0 s) in
      if tag =? 0 then ELit (getZ (nthx 1 s))
      else if tag =? 1 then ENeg (expr_of_sx f (nthx 1 s))
      else if tag =? 2 then ECast (kind_of_Z (getZ (nthx 1 s))) (getZ (nthx 2 s)) (expr_of_sx f (nthx 3 s))
      else if tag =? 3 then EBin (nth (getnat (nthx 1 s)) binops OAdd)
                                 (expr_of_sx f (nthx 2 s)) (expr_of_sx f (nthx 3 s))
      else if tag =? 4 then EBool (getB (nthx 1 s))
      else if tag =? 5 then ENot (expr_of_sx f (nthx 1 s))
      else EIn (kind_of_Z (getZ (nthx 1 s))) (getZ (nthx 2 s)) (getZ (nthx 3 s))
  end.

Definition class_of_meta (m : sx) : Z :=
  let code := getZ (nthx 0 m) in
  let k := kind_of_Z (getZ (nthx 1 m)) in
  let n := getZ (nthx 2 m) in
  let a := getZ (nthx 3 m) in
  let b := getZ (nthx 4 m) in
  let fa := getZ (nthx 5 m) in
  let fb := getZ (nthx 6 m) in
  if (code <? 0) || (20 <? code) then 0
  else if code =? 20 then 2
  else if code =? 19 then
    if (a <? 0) && (fa =? 1) then 0
    else if neg_exact_class k n a then 2 else if neg_ok_class k n a then 1 else 0
  else
    let op := nth (Z.to_nat code) binops OAdd in
    if ((a <? 0) && (fa =? 1)) || (negb (is_shift op) && (b <? 0) && (fb =? 1)) then 0
    else if fold_exact_class op k n a b then 2 else if fold_ok_class op k n a b then 1 else 0.

(* multi-constant programs: input (9 variant ((k n expr cons pv) ...)), variant 0 =
   constant variant (constant names are observed), 1 = run-time variant;
   output (0 (names...) (outputs...)) | (1 class) | (2 class) *)
Definition item_of_sx (s : sx) : mitem :=
  mkItem (kind_of_Z (getZ (nthx 0 s))) (getZ (nthx 1 s)) (expr_of_sx 64 (nthx 2 s))
         (getZ (nthx 3 s)) (getZ (nthx 4 s)).
Definition run_c12_multi (inp : sx) : sx :=
  match run_multi (map item_of_sx (getL (nthx 2 inp))) with
  | Ok (names, outs) => SL [SZ 0; ofLZ (if getZ (nthx 1 inp) =? 0 then names else []); ofLZ outs]
  | Err c => SL [SZ 1; SZ c]
  | Panic c => SL [SZ 2; SZ c]
  end.

(* same-node programs: input (10 variant (pre exprs...) ((k n (arg exprs...) expr cons pv) ...)) *)
Definition call_of_sx (s : sx) : citem :=
  mkCall (kind_of_Z (getZ (nthx 0 s))) (getZ (nthx 1 s)) (map (expr_of_sx 64) (getL (nthx 2 s)))
         (expr_of_sx 64 (nthx 3 s)) (getZ (nthx 4 s)) (getZ (nthx 5 s)).
Definition run_c12_calls (inp : sx) : sx :=
  match run_calls (map (expr_of_sx 64) (getL (nthx 2 inp))) (map call_of_sx (getL (nthx 3 inp))) with
  | Ok (names, outs) => SL [SZ 0; ofLZ (if getZ (nthx 1 inp) =? 0 then names else []); ofLZ outs]
  | Err c => SL [SZ 1; SZ c]
  | Panic c => SL [SZ 2; SZ c]
  end.

Definition run_c12_single (inp : sx) : sx :=
  let rk := kind_of_Z (getZ (nthx 0 inp)) in
  let rn := getZ (nthx 1 inp) in
  let e := expr_of_sx 64 (nthx 2 inp) in
  let cls := SZ (class_of_meta (nthx 3 inp)) in
  match run_program rk rn e with
  | Ok v => SL [SZ 0; SZ v; cls]
  | Err c => SL [SZ 1; SZ c; cls]
  | Panic c => SL [SZ 2; SZ c; cls]
  end.

Definition run_c12 (inp : sx) : sx :=
  if getZ (nthx 0 inp) =? 9 then run_c12_multi inp
  else if getZ (nthx 0 inp) =? 10 then run_c12_calls inp
  else run_c12_single inp.
