(* RunC12.v — executable entry point of the C12 model for the correspondence check.
   input  = (rk rn expr)      return type kind (0 int, 1 uint, 2 bool), width, expression
   expr   = (0 v)             integer literal v >= 0
          | (1 e)             -e
          | (2 k n e)         intN(e) (k=0) / uintN(e) (k=1)
          | (3 op e1 e2)      binary operator, op = index in [binops]
          | (4 b)             true / false
          | (5 e)             !e
          | (6 k n v)         run-time input of type k/n whose value is v
   output = (0 v)             the program compiles; Compute returns v (unsigned wire bits)
          | (1 class)         compile error of that class
          | (2 class)         the compiler panics                                     *)
From Coq Require Import ZArith List Bool.
From Mpc Require Import Base.Sx Lang.Fold.
Import ListNotations.
Open Scope Z_scope.

Definition binops : list binop :=
  [OAdd; OSub; OMul; ODiv; OMod; OBand; OBor; OBxor; OBclr; OLsh; ORsh;
   OLt; OLe; OGt; OGe; OEq; ONeq; OLand; OLor].

Definition kind_of_Z (z : Z) : kind := if z =? 0 then KInt else if z =? 1 then KUint else KBool.

(* fuel-bounded decoding (sx is a nested inductive; depth of generated
   expressions is far below the fuel) *)
Fixpoint expr_of_sx (fuel : nat) (s : sx) : expr :=
  match fuel with
  | O => ELit 0
  | S f =>
      let tag := getZ (nthx 0 s) in
      if tag =? 0 then ELit (getZ (nthx 1 s))
      else if tag =? 1 then ENeg (expr_of_sx f (nthx 1 s))
      else if tag =? 2 then ECast (kind_of_Z (getZ (nthx 1 s))) (getZ (nthx 2 s)) (expr_of_sx f (nthx 3 s))
      else if tag =? 3 then EBin (nth (getnat (nthx 1 s)) binops OAdd)
                                 (expr_of_sx f (nthx 2 s)) (expr_of_sx f (nthx 3 s))
      else if tag =? 4 then EBool (getB (nthx 1 s))
      else if tag =? 5 then ENot (expr_of_sx f (nthx 1 s))
      else EIn (kind_of_Z (getZ (nthx 1 s))) (getZ (nthx 2 s)) (getZ (nthx 3 s))
  end.

Definition run_c12 (inp : sx) : sx :=
  let rk := kind_of_Z (getZ (nthx 0 inp)) in
  let rn := getZ (nthx 1 inp) in
  let e := expr_of_sx 64 (nthx 2 inp) in
  match run_program rk rn e with
  | Ok v => SL [SZ 0; SZ v]
  | Err c => SL [SZ 1; SZ c]
  | Panic c => SL [SZ 2; SZ c]
  end.
